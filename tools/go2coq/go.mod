module verif/go2coq

go 1.25
