// go2coq: regenerates coq/theories/GenLeaf.v (Gallina definitions of the whitelisted pure leaf
// functions of vkngwrapper/arsenal) from the CURRENT Go sources.  See README.md.
//
// usage: go2coq [-root /repo] [-funcs funcs.txt] [-o GenLeaf.v]
// exit status: 0 ok; 2 = a whitelisted function is missing, does not type-check, or uses Go syntax
// outside the supported subset (message names file:line).  Nothing is written in that case.
package main

import (
	"bufio"
	"bytes"
	"crypto/sha256"
	"flag"
	"fmt"
	"go/ast"
	"go/token"
	"go/types"
	"os"
	"path/filepath"
	"sort"
	"strings"
)

var externs []string // @extern module paths

func readFuncs(path string) []*fn {
	f, err := os.Open(path)
	if err != nil {
		fatalf("cannot open whitelist: %v", err)
	}
	defer f.Close()
	var l []*fn
	seen := map[string]bool{}
	sc := bufio.NewScanner(f)
	ln := 0
	for sc.Scan() {
		ln++
		line := strings.TrimSpace(sc.Text())
		if line == "" || strings.HasPrefix(line, "#") {
			continue
		}
		if strings.HasPrefix(line, "@extern ") {
			externs = append(externs, strings.TrimSpace(strings.TrimPrefix(line, "@extern ")))
			continue
		}
		if strings.HasPrefix(line, "@") {
			if len(l) == 0 {
				fatalf("%s:%d: directive before the first function", path, ln)
			}
			cur := l[len(l)-1]
			if cur.sp == nil {
				cur.sp = &spec{}
			}
			cur.sp.addDirective(fmt.Sprintf("%s:%d", path, ln), line)
			continue
		}
		p := strings.Fields(line)
		if len(p) != 4 {
			fatalf("%s:%d: expected: <file> <receiver or -> <function> <coq name>", path, ln)
		}
		if seen[p[3]] {
			fatalf("%s:%d: Coq name %s used twice", path, ln, p[3])
		}
		if reserved[p[3]] {
			fatalf("%s:%d: Coq name %s is reserved", path, ln, p[3])
		}
		seen[p[3]] = true
		l = append(l, &fn{file: p[0], recv: p[1], name: p[2], coq: p[3], order: len(l)})
	}
	if len(l) == 0 {
		fatalf("%s: empty whitelist", path)
	}
	return l
}

func recvTypeName(fd *ast.FuncDecl) (string, bool) {
	if fd.Recv == nil || len(fd.Recv.List) != 1 {
		return "-", false
	}
	e := fd.Recv.List[0].Type
	ptr := false
	if s, ok := e.(*ast.StarExpr); ok {
		ptr = true
		e = s.X
	}
	switch x := e.(type) {
	case *ast.Ident:
		return x.Name, ptr
	case *ast.IndexExpr:
		if id, ok := x.X.(*ast.Ident); ok {
			return id.Name, ptr
		}
	}
	return "?", ptr
}

// prepass: receiver, results, directly used fields, mutated fields, whitelisted callees.
func prepass(ld *loader, f *fn, wl map[types.Object]*fn) {
	info := f.pkg.info
	sig := f.obj.Type().(*types.Signature)
	for i := 0; i < sig.Results().Len(); i++ {
		f.results = append(f.results, sig.Results().At(i).Type())
	}
	if sig.Variadic() {
		fatalf("%s: %s: variadic functions are not supported", ld.pos(f.decl.Pos()), f.name)
	}
	if sig.TypeParams().Len() != 0 || sig.RecvTypeParams().Len() != 0 {
		fatalf("%s: %s: generic functions are not supported", ld.pos(f.decl.Pos()), f.name)
	}
	if f.decl.Recv != nil && len(f.decl.Recv.List[0].Names) == 1 && f.decl.Recv.List[0].Names[0].Name != "_" {
		f.recvObj, _ = info.Defs[f.decl.Recv.List[0].Names[0]].(*types.Var)
	}
	_, f.recvPtr = recvTypeName(f.decl)
	f.fields = map[string]*fieldRef{}
	f.muts = map[string]bool{}
	addField := func(e ast.Expr, mut bool) bool {
		path, idx, ok := fieldChain(info, f.recvObj, e)
		if !ok {
			return false
		}
		tv := info.Types[e]
		if _, ok := coqType(tv.Type); !ok {
			return false
		}
		key := strings.Join(path, ".")
		if f.fields[key] == nil {
			f.fields[key] = &fieldRef{path: path, idx: idx, typ: tv.Type}
		}
		if mut {
			f.muts[key] = true
		}
		return true
	}
	seenCallee := map[*fn]bool{}
	ast.Inspect(f.decl.Body, func(n ast.Node) bool {
		if e, ok := n.(ast.Expr); ok && (f.findBind(e) != nil || f.findOut(e) != nil) {
			return false // abstracted: nothing inside it is read by the translated function
		}
		switch x := n.(type) {
		case *ast.AssignStmt:
			for _, l := range x.Lhs {
				addField(l, true)
			}
		case *ast.IncDecStmt:
			addField(x.X, true)
		case *ast.UnaryExpr:
			if x.Op == token.AND {
				if _, _, ok := fieldChain(info, f.recvObj, x.X); ok {
					fatalf("%s: in %s: taking the address of a receiver field is not supported", ld.pos(x.Pos()), f.name)
				}
			}
		case *ast.SelectorExpr:
			if f.findBind(x) != nil || f.findOut(x) != nil {
				return false
			}
			if addField(x, false) {
				return false
			}
		case *ast.CallExpr:
			var obj types.Object
			switch fun := unparen(x.Fun).(type) {
			case *ast.Ident:
				obj = info.Uses[fun]
			case *ast.SelectorExpr:
				if sel := info.Selections[fun]; sel != nil {
					obj = sel.Obj()
				} else {
					obj = info.Uses[fun.Sel]
				}
			}
			if o, ok := obj.(*types.Func); ok {
				if c := wl[o.Origin()]; c != nil && !seenCallee[c] {
					seenCallee[c] = true
					f.callees = append(f.callees, c)
				}
			}
		case *ast.FuncLit:
			fatalf("%s: in %s: function literals are not supported", ld.pos(x.Pos()), f.name)
		}
		return true
	})
	// a bare use of the receiver (passing it on, comparing it, ...) other than through field
	// selection or as the receiver of a method call is outside the subset
	if f.recvObj != nil {
		var stack []ast.Node
		ast.Inspect(f.decl.Body, func(n ast.Node) bool {
			if n == nil {
				stack = stack[:len(stack)-1]
				return true
			}
			if id, ok := n.(*ast.Ident); ok && info.Uses[id] == f.recvObj {
				parent := stack[len(stack)-1]
				if se, ok := parent.(*ast.SelectorExpr); !ok || se.X != ast.Expr(id) {
					fatalf("%s: in %s: the receiver is used other than by selecting a field or calling a method", ld.pos(id.Pos()), f.name)
				}
			}
			stack = append(stack, n)
			return true
		})
	}
}

func main() {
	root := flag.String("root", "/repo", "source root (contains memutils/ and vam/)")
	funcs := flag.String("funcs", "funcs.txt", "whitelist")
	out := flag.String("o", "GenLeaf.v", "output file")
	modcache := flag.String("modcache", "", "Go module cache (GOMODCACHE), for the @extern modules")
	flag.Parse()
	absRoot, err := filepath.Abs(*root)
	if err != nil {
		fatalf("%v", err)
	}
	fns := readFuncs(*funcs)
	ld := newLoader(absRoot, externs, *modcache)
	wl := map[types.Object]*fn{}
	for _, f := range fns {
		full := filepath.Join(absRoot, filepath.FromSlash(f.file))
		if _, err := os.Stat(full); err != nil {
			fatalf("%s: source file of whitelisted function %s not found", f.file, f.name)
		}
		f.pkg = ld.loadDir(filepath.Dir(full))
		var file *ast.File
		for i, n := range f.pkg.names {
			if n == full {
				file = f.pkg.files[i]
			}
		}
		if file == nil {
			fatalf("%s: file is excluded from the production build by its build constraint", f.file)
		}
		for _, d := range file.Decls {
			fd, ok := d.(*ast.FuncDecl)
			if !ok || fd.Name.Name != f.name {
				continue
			}
			rn, _ := recvTypeName(fd)
			if rn != f.recv {
				continue
			}
			if f.decl != nil {
				fatalf("%s: function %s declared twice", f.file, f.name)
			}
			f.decl = fd
		}
		if f.decl == nil {
			fatalf("%s: whitelisted function %s (receiver %s) not found", f.file, f.name, f.recv)
		}
		if f.decl.Body == nil {
			fatalf("%s: %s has no body", ld.pos(f.decl.Pos()), f.name)
		}
		obj, ok := f.pkg.info.Defs[f.decl.Name].(*types.Func)
		if !ok {
			fatalf("%s: no type information for %s", ld.pos(f.decl.Pos()), f.name)
		}
		f.obj = obj
		wl[obj] = f
		// any type error inside the function is fatal
		// ... except inside a call declared @nonnil (error constructors of stubbed packages; such a
		// call is not translated, only its non-nil-ness is used)
		type rng struct{ lo, hi token.Pos }
		var ignore []rng
		if f.sp != nil {
			ast.Inspect(f.decl.Body, func(n ast.Node) bool {
				if ce, ok := n.(*ast.CallExpr); ok && matchAny(f.sp.nonnils, ce.Fun) {
					ignore = append(ignore, rng{ce.Pos(), ce.End()})
				}
				return true
			})
		}
		for _, te := range f.pkg.errs {
			skip := false
			for _, r := range ignore {
				if te.Pos >= r.lo && te.Pos <= r.hi {
					skip = true
				}
			}
			if skip {
				continue
			}
			if te.Pos >= f.decl.Pos() && te.Pos <= f.decl.End() {
				fatalf("%s: in %s: Go type error: %s", ld.pos(te.Pos), f.name, te.Msg)
			}
		}
	}
	for _, f := range fns {
		prepass(ld, f, wl)
	}
	// topological order (callees first; ties in whitelist order); recursion is fatal
	var order []*fn
	state := map[*fn]int{}
	var visit func(f *fn)
	visit = func(f *fn) {
		switch state[f] {
		case 1:
			fatalf("%s: %s is (mutually) recursive", ld.pos(f.decl.Pos()), f.name)
		case 2:
			return
		}
		state[f] = 1
		cs := append([]*fn{}, f.callees...)
		sort.Slice(cs, func(i, j int) bool { return cs[i].order < cs[j].order })
		for _, c := range cs {
			visit(c)
		}
		state[f] = 2
		order = append(order, f)
	}
	for _, f := range fns {
		visit(f)
	}
	globalNames := map[string]bool{}
	for _, f := range fns {
		globalNames[f.coq] = true
	}
	touched := map[string]string{}
	for _, f := range order {
		// inherit the fields of callees that are methods of the same receiver type
		for _, c := range f.callees {
			if len(c.fields) == 0 {
				continue
			}
			if c.recv != f.recv || c.pkg != f.pkg {
				fatalf("%s: %s calls %s, which reads fields of a different receiver type", ld.pos(f.decl.Pos()), f.name, c.name)
			}
			for k, r := range c.fields {
				if f.fields[k] == nil {
					f.fields[k] = &fieldRef{path: r.path, idx: r.idx, typ: r.typ}
				}
			}
		}
		if len(f.fields) != 0 && f.recvObj == nil {
			fatalf("%s: %s: internal: fields without a named receiver", ld.pos(f.decl.Pos()), f.name)
		}
		specPrepass(ld, f, wl)
		touched[f.file] = "whitelisted"
		_, saw := translate(ld, f, wl, globalNames, true, map[string]string{})
		f.mayPanic = saw
		f.text, _ = translate(ld, f, wl, globalNames, saw, touched)
	}

	var b bytes.Buffer
	b.WriteString("(* GenLeaf.v -- GENERATED by tools/go2coq from the Go sources; DO NOT EDIT.\n")
	b.WriteString("   Regenerated by bin/gen-leaf on every build; the equivalence with the hand-written model\n")
	b.WriteString("   is proved in GenLeafProofs.v.  Semantics of the operators: GoSem.v.\n")
	b.WriteString("   Source files (path relative to the source root, sha256, role):\n")
	var files []string
	for k := range touched {
		files = append(files, k)
	}
	sort.Strings(files)
	for _, k := range files {
		data, err := os.ReadFile(ld.absName(k))
		if err != nil {
			fatalf("cannot re-read %s: %v", k, err)
		}
		fmt.Fprintf(&b, "     %s %x  %s\n", k, sha256.Sum256(data), touched[k])
	}
	b.WriteString("   Functions (Coq name <- Go function; extra leading parameters are the receiver fields read;\n")
	b.WriteString("   assigned receiver fields are returned after the Go results; `outcome` = may panic):\n")
	for _, f := range order {
		var fl, ml []string
		for _, r := range f.sortedFields() {
			fl = append(fl, strings.Join(r.path, "."))
		}
		for _, r := range f.mutFields() {
			ml = append(ml, strings.Join(r.path, "."))
		}
		recv := ""
		if f.recv != "-" {
			recv = "(" + f.recv + ")."
		}
		fmt.Fprintf(&b, "     %s <- %s %s%s  fields[%s] assigned[%s]\n", f.coq, f.file, recv, f.name, strings.Join(fl, " "), strings.Join(ml, " "))
		if !f.sp.empty() {
			b.WriteString(f.sp.headerLines("         "))
		}
	}
	b.WriteString("*)\n")
	b.WriteString("From Coq Require Import ZArith Bool List.\nFrom Arsenal Require Import GoSem.\nOpen Scope Z_scope.\n")
	for _, f := range order {
		b.WriteString("\n")
		b.WriteString(f.text)
	}
	old, err := os.ReadFile(*out)
	if err == nil && bytes.Equal(old, b.Bytes()) {
		fmt.Fprintf(os.Stderr, "go2coq: %s unchanged (%d functions)\n", *out, len(order))
		return
	}
	if err := os.WriteFile(*out, b.Bytes(), 0o644); err != nil {
		fatalf("cannot write %s: %v", *out, err)
	}
	fmt.Fprintf(os.Stderr, "go2coq: wrote %s (%d functions)\n", *out, len(order))
}
