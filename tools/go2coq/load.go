package main

// Loading: the packages that contain whitelisted functions (and the local packages they import)
// are parsed with go/parser from the CURRENT working tree below -root and type-checked with
// go/types.  Nothing outside the source root is read and nothing is fetched:
//   - an import that resolves (through the go.mod files found below the root) to a directory of
//     the source root is loaded and checked recursively;
//   - "math/bits" and "fmt" are replaced by small hand-declared stubs (only the signatures used);
//   - every other import becomes an EMPTY stub package.
// Type errors are therefore expected in code that uses the stubbed packages; they are tolerated
// everywhere EXCEPT inside a whitelisted function, where a single type error is fatal.

import (
	"fmt"
	"go/ast"
	"go/build/constraint"
	"go/constant"
	"go/parser"
	"go/token"
	"go/types"
	"os"
	"path/filepath"
	"sort"
	"strings"
)

type pkgInfo struct {
	dir      string
	external bool   // loaded from the module cache (an @extern module)
	path     string // import path
	files    []*ast.File
	names    []string // file names, parallel to files (absolute)
	skipped  []string // files excluded by build constraints
	tpkg     *types.Package
	info     *types.Info
	errs     []types.Error
	loading  bool
}

type module struct {
	dir  string
	path string
}

type loader struct {
	root     string
	modcache string
	externs  []string             // module paths that may be loaded from the module cache
	requires map[string]string    // module path -> version, from the require lines of the root's go.mod files
	cOrigin  map[token.Pos]string // const name position -> C header that supplied its value
	fset     *token.FileSet
	mods     []module
	byDir    map[string]*pkgInfo
	stubs    map[string]*types.Package
	decls    map[types.Object]*ast.FuncDecl // every function declared in a loaded local package
	declPkg  map[types.Object]*pkgInfo
}

func fatalf(format string, args ...any) {
	fmt.Fprintf(os.Stderr, "go2coq: FATAL: "+format+"\n", args...)
	os.Exit(2)
}

// buildTagsOK evaluates the //go:build line of a file for the default production build
// (linux/amd64, cgo, no custom tags: in particular NOT debug_mem_utils and NOT verif).
func buildTagsOK(f *ast.File) bool {
	for _, cg := range f.Comments {
		if cg.Pos() >= f.Package {
			break
		}
		for _, c := range cg.List {
			if !constraint.IsGoBuild(c.Text) {
				continue
			}
			expr, err := constraint.Parse(c.Text)
			if err != nil {
				fatalf("cannot parse build constraint %q", c.Text)
			}
			return expr.Eval(func(tag string) bool {
				switch {
				case tag == "linux" || tag == "amd64" || tag == "cgo" || tag == "unix":
					return true
				case strings.HasPrefix(tag, "go1."):
					return true
				}
				return false
			})
		}
	}
	return true
}

func newLoader(root string, externs []string, modcache string) *loader {
	ld := &loader{root: root, fset: token.NewFileSet(), byDir: map[string]*pkgInfo{}, stubs: map[string]*types.Package{},
		decls: map[types.Object]*ast.FuncDecl{}, declPkg: map[types.Object]*pkgInfo{},
		requires: map[string]string{}, cOrigin: map[token.Pos]string{}, externs: externs, modcache: modcache}
	// modules: go.mod in the root or in one of its immediate sub-directories
	cands := []string{root}
	ents, err := os.ReadDir(root)
	if err != nil {
		fatalf("cannot read source root %s: %v", root, err)
	}
	for _, e := range ents {
		if e.IsDir() {
			cands = append(cands, filepath.Join(root, e.Name()))
		}
	}
	sort.Strings(cands)
	for _, d := range cands {
		b, err := os.ReadFile(filepath.Join(d, "go.mod"))
		if err != nil {
			continue
		}
		inReq := false
		for _, line := range strings.Split(string(b), "\n") {
			line = strings.TrimSpace(line)
			if i := strings.Index(line, "//"); i >= 0 {
				line = strings.TrimSpace(line[:i])
			}
			switch {
			case strings.HasPrefix(line, "module "):
				ld.mods = append(ld.mods, module{dir: d, path: strings.TrimSpace(strings.TrimPrefix(line, "module "))})
			case line == "require (":
				inReq = true
			case line == ")":
				inReq = false
			case strings.HasPrefix(line, "require "):
				if f := strings.Fields(line); len(f) == 3 {
					ld.addRequire(f[1], f[2], filepath.Join(d, "go.mod"))
				}
			case inReq:
				if f := strings.Fields(line); len(f) == 2 {
					ld.addRequire(f[0], f[1], filepath.Join(d, "go.mod"))
				}
			}
		}
	}
	if len(ld.mods) == 0 {
		fatalf("no go.mod found in %s or its sub-directories", root)
	}
	return ld
}

func (ld *loader) addRequire(mod, ver, where string) {
	if old, ok := ld.requires[mod]; ok && old != ver {
		// two modules of the source root pin different versions: only a problem if the module is @extern
		for _, e := range ld.externs {
			if e == mod {
				fatalf("%s: module %s required at %s, elsewhere in the source root at %s", where, mod, ver, old)
			}
		}
	}
	ld.requires[mod] = ver
}

// escapeModPath: upper-case letters become !lower in the module cache.
func escapeModPath(p string) string {
	var sb strings.Builder
	for _, r := range p {
		if r >= 'A' && r <= 'Z' {
			sb.WriteByte('!')
			sb.WriteRune(r + ('a' - 'A'))
		} else {
			sb.WriteRune(r)
		}
	}
	return sb.String()
}

// externDir maps an import path to a directory of the module cache, for the modules declared
// @extern in the whitelist.  A declared module that is not required by a go.mod of the source root,
// or whose directory is missing from the module cache, is fatal.
func (ld *loader) externDir(path string) string {
	for _, m := range ld.externs {
		if path != m && !strings.HasPrefix(path, m+"/") {
			continue
		}
		ver, ok := ld.requires[m]
		if !ok {
			fatalf("@extern module %s is not required by any go.mod below %s", m, ld.root)
		}
		if ld.modcache == "" {
			fatalf("import %s needs the module cache, but no -modcache was given", path)
		}
		d := filepath.Join(ld.modcache, filepath.FromSlash(escapeModPath(m))+"@"+ver, filepath.FromSlash(strings.TrimPrefix(path, m)))
		if st, err := os.Stat(d); err != nil || !st.IsDir() {
			fatalf("package %s (module %s %s) not found in the module cache: %s", path, m, ver, d)
		}
		return d
	}
	return ""
}

// localDir maps an import path to a directory of the source root ("" if it is not local).
func (ld *loader) localDir(path string) string {
	for _, m := range ld.mods {
		if path == m.path || strings.HasPrefix(path, m.path+"/") {
			d := filepath.Join(m.dir, filepath.FromSlash(strings.TrimPrefix(path, m.path)))
			if st, err := os.Stat(d); err == nil && st.IsDir() {
				return d
			}
		}
	}
	return ""
}

func (ld *loader) importPathOf(dir string) string {
	for _, m := range ld.mods {
		if dir == m.dir {
			return m.path
		}
		if strings.HasPrefix(dir, m.dir+string(filepath.Separator)) {
			return m.path + "/" + filepath.ToSlash(strings.TrimPrefix(dir, m.dir+string(filepath.Separator)))
		}
	}
	fatalf("%s is not inside a Go module of the source root", dir)
	return ""
}

func (ld *loader) Import(path string) (*types.Package, error) {
	if path == "unsafe" {
		return types.Unsafe, nil
	}
	if d := ld.localDir(path); d != "" {
		return ld.loadDir(d).tpkg, nil
	}
	if d := ld.externDir(path); d != "" {
		return ld.loadExtern(d, path).tpkg, nil
	}
	if sp, ok := ld.stubs[path]; ok {
		return sp, nil
	}
	var sp *types.Package
	switch path {
	case "math/bits":
		sp = bitsStub()
	case "fmt":
		sp = fmtStub()
	case "math":
		sp = mathStub()
	default:
		parts := strings.Split(path, "/")
		name := parts[len(parts)-1]
		if len(parts) > 1 && len(name) >= 2 && name[0] == 'v' && strings.Trim(name[1:], "0123456789") == "" {
			name = parts[len(parts)-2]
		}
		sp = types.NewPackage(path, name)
		sp.MarkComplete()
	}
	ld.stubs[path] = sp
	return sp, nil
}

func mkFunc(p *types.Package, name string, params []types.Type, result types.Type, variadic bool) {
	var ps []*types.Var
	for i, t := range params {
		ps = append(ps, types.NewVar(token.NoPos, p, fmt.Sprintf("a%d", i), t))
	}
	var rs []*types.Var
	if result != nil {
		rs = append(rs, types.NewVar(token.NoPos, p, "", result))
	}
	sig := types.NewSignatureType(nil, nil, nil, types.NewTuple(ps...), types.NewTuple(rs...), variadic)
	p.Scope().Insert(types.NewFunc(token.NoPos, p, name, sig))
}

// bitsStub declares the math/bits functions the translator knows (signatures as in the Go
// standard library: the argument is uint/uintN, the result is int).
func bitsStub() *types.Package {
	p := types.NewPackage("math/bits", "bits")
	for _, pre := range []string{"LeadingZeros", "TrailingZeros", "Len", "OnesCount"} {
		mkFunc(p, pre, []types.Type{types.Typ[types.Uint]}, types.Typ[types.Int], false)
		mkFunc(p, pre+"8", []types.Type{types.Typ[types.Uint8]}, types.Typ[types.Int], false)
		mkFunc(p, pre+"16", []types.Type{types.Typ[types.Uint16]}, types.Typ[types.Int], false)
		mkFunc(p, pre+"32", []types.Type{types.Typ[types.Uint32]}, types.Typ[types.Int], false)
		mkFunc(p, pre+"64", []types.Type{types.Typ[types.Uint64]}, types.Typ[types.Int], false)
	}
	p.MarkComplete()
	return p
}

// mathStub declares the integer limit constants of package math (values fixed by the language).
func mathStub() *types.Package {
	p := types.NewPackage("math", "math")
	ut := types.Typ[types.UntypedInt]
	add := func(name string, v constant.Value) {
		p.Scope().Insert(types.NewConst(token.NoPos, p, name, ut, v))
	}
	pow := func(k uint) constant.Value { return constant.Shift(constant.MakeInt64(1), token.SHL, k) }
	one := constant.MakeInt64(1)
	for _, w := range []struct {
		n string
		k uint
	}{{"8", 8}, {"16", 16}, {"32", 32}, {"64", 64}, {"", 64}} {
		add("MaxInt"+w.n, constant.BinaryOp(pow(w.k-1), token.SUB, one))
		add("MinInt"+w.n, constant.UnaryOp(token.SUB, pow(w.k-1), 0))
		add("MaxUint"+w.n, constant.BinaryOp(pow(w.k), token.SUB, one))
	}
	p.MarkComplete()
	return p
}

func fmtStub() *types.Package {
	p := types.NewPackage("fmt", "fmt")
	anyT := types.Universe.Lookup("any").Type()
	mkFunc(p, "Sprintf", []types.Type{types.Typ[types.String], types.NewSlice(anyT)}, types.Typ[types.String], true)
	p.MarkComplete()
	return p
}

func (ld *loader) loadDir(dir string) *pkgInfo { return ld.load(dir, "", false) }

func (ld *loader) loadExtern(dir, path string) *pkgInfo { return ld.load(dir, path, true) }

func (ld *loader) load(dir, path string, external bool) *pkgInfo {
	if p, ok := ld.byDir[dir]; ok {
		if p.loading {
			fatalf("import cycle through %s", dir)
		}
		return p
	}
	if !external {
		path = ld.importPathOf(dir)
	}
	p := &pkgInfo{dir: dir, path: path, external: external, loading: true}
	ld.byDir[dir] = p
	ents, err := os.ReadDir(dir)
	if err != nil {
		fatalf("cannot read %s: %v", dir, err)
	}
	var names []string
	for _, e := range ents {
		n := e.Name()
		if e.IsDir() || !strings.HasSuffix(n, ".go") || strings.HasSuffix(n, "_test.go") {
			continue
		}
		names = append(names, n)
	}
	sort.Strings(names)
	for _, n := range names {
		full := filepath.Join(dir, n)
		f, err := parser.ParseFile(ld.fset, full, nil, parser.ParseComments|parser.SkipObjectResolution)
		if err != nil {
			fatalf("parse error: %v", err)
		}
		if !buildTagsOK(f) {
			p.skipped = append(p.skipped, full)
			continue
		}
		p.files = append(p.files, f)
		p.names = append(p.names, full)
	}
	ld.substCConsts(p)
	if len(p.files) == 0 {
		fatalf("no Go files in %s", dir)
	}
	p.info = &types.Info{
		Types:      map[ast.Expr]types.TypeAndValue{},
		Defs:       map[*ast.Ident]types.Object{},
		Uses:       map[*ast.Ident]types.Object{},
		Selections: map[*ast.SelectorExpr]*types.Selection{},
	}
	conf := types.Config{
		Importer: ld,
		Error: func(err error) {
			if te, ok := err.(types.Error); ok {
				p.errs = append(p.errs, te)
			}
		},
		FakeImportC: true,
		Sizes:       types.SizesFor("gc", "amd64"),
	}
	tp, _ := conf.Check(p.path, ld.fset, p.files, p.info)
	if tp == nil {
		fatalf("type checker returned no package for %s", dir)
	}
	p.tpkg = tp
	for _, f := range p.files {
		for _, d := range f.Decls {
			if fd, ok := d.(*ast.FuncDecl); ok {
				if obj := p.info.Defs[fd.Name]; obj != nil {
					ld.decls[obj] = fd
					ld.declPkg[obj] = p
				}
			}
		}
	}
	p.loading = false
	return p
}

// relName: path relative to the source root, or "modcache:<path below the module cache>".
func (ld *loader) relName(file string) string {
	if ld.modcache != "" && strings.HasPrefix(file, ld.modcache+string(filepath.Separator)) {
		return "modcache:" + filepath.ToSlash(strings.TrimPrefix(file, ld.modcache+string(filepath.Separator)))
	}
	rel, err := filepath.Rel(ld.root, file)
	if err != nil {
		rel = file
	}
	return filepath.ToSlash(rel)
}

// absName is the inverse of relName.
func (ld *loader) absName(rel string) string {
	if strings.HasPrefix(rel, "modcache:") {
		return filepath.Join(ld.modcache, filepath.FromSlash(strings.TrimPrefix(rel, "modcache:")))
	}
	return filepath.Join(ld.root, filepath.FromSlash(rel))
}

func (ld *loader) pos(p token.Pos) string {
	pp := ld.fset.Position(p)
	return fmt.Sprintf("%s:%d", ld.relName(pp.Filename), pp.Line)
}

func (ld *loader) relFile(p token.Pos) string {
	return ld.relName(ld.fset.Position(p).Filename)
}
