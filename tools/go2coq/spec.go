package main

// Abstraction directives of the whitelist (lines starting with @ after a function line).  They let a
// function that is not closed over integers be translated by naming, EXPLICITLY, the impure-looking
// sub-expressions that stand for plain values.  Every directive is a trusted statement about the Go
// code (README.md, "Abstraction directives"); all of them are echoed in the header of GenLeaf.v.
//
//   @bind  <coq name> = <go expr>     the expression (matched structurally) is a pure, stable value of
//                                     integer/bool type: it becomes a parameter
//   @list  <coq name> len = <go expr> the expression is the length of an integer slice: parameter
//   @list  <coq name> get = <go expr with one _>   ... and this is its element at index _ (list Z)
//   @out   <coq name> = <go expr>     an assignable integer/bool location outside the function
//                                     (field of an out-parameter): parameter (initial value) and
//                                     extra result (final value), like an assigned receiver field
//   @drop  <go expr>                  assignments to this location are not modelled
//   @pure  <go expr>                  this expression has no effect and cannot panic (allowed as the
//                                     right-hand side of a dropped assignment / opaque definition)
//   @nonnil <go expr>                 a call of this function/method yields a non-nil error
//   @opaque <identifier>              local variable of a non-integer type; its definition is
//                                     dropped (right-hand side must be @pure), uses only inside @bind

import (
	"fmt"
	"go/ast"
	"go/parser"
	"go/token"
	"go/types"
	"strings"
)

type bindSpec struct {
	name string
	pat  ast.Expr
	text string
	typ  types.Type
	coq  string
}

type listSpec struct {
	name           string
	lenPat, getPat ast.Expr
	lenText        string
	getText        string
	coq            string
	used           bool
}

type spec struct {
	binds   []*bindSpec
	lists   []*listSpec
	outs    []*bindSpec
	drops   []ast.Expr
	pures   []ast.Expr
	nonnils []ast.Expr
	opaques map[string]bool
	lines   []string // the directives as written, for the header
}

func (s *spec) empty() bool { return s == nil || len(s.lines) == 0 }

func parsePat(where, text string) ast.Expr {
	e, err := parser.ParseExpr(text)
	if err != nil {
		fatalf("%s: cannot parse Go expression %q: %v", where, text, err)
	}
	if _, ok := exprText(e); !ok {
		fatalf("%s: expression %q uses syntax the pattern matcher does not support", where, text)
	}
	return e
}

func (s *spec) addDirective(where, line string) {
	s.lines = append(s.lines, line)
	fields := strings.Fields(line)
	rest := func(n int) string { return strings.TrimSpace(strings.Join(fields[n:], " ")) }
	eq := func(n int) string { // fields[n] must be "=", returns the remainder
		if len(fields) < n+2 || fields[n] != "=" {
			fatalf("%s: malformed directive %q", where, line)
		}
		return rest(n + 1)
	}
	switch fields[0] {
	case "@bind", "@out":
		if len(fields) < 4 {
			fatalf("%s: malformed directive %q", where, line)
		}
		text := eq(2)
		b := &bindSpec{name: fields[1], pat: parsePat(where, text)}
		b.text, _ = exprText(b.pat)
		if fields[0] == "@bind" {
			s.binds = append(s.binds, b)
		} else {
			s.outs = append(s.outs, b)
		}
	case "@list":
		if len(fields) < 5 || (fields[2] != "len" && fields[2] != "get") {
			fatalf("%s: malformed directive %q", where, line)
		}
		text := eq(3)
		var l *listSpec
		for _, x := range s.lists {
			if x.name == fields[1] {
				l = x
			}
		}
		if l == nil {
			l = &listSpec{name: fields[1]}
			s.lists = append(s.lists, l)
		}
		p := parsePat(where, text)
		if fields[2] == "len" {
			l.lenPat = p
			l.lenText, _ = exprText(p)
		} else {
			l.getPat = p
			l.getText, _ = exprText(p)
			if strings.Count(l.getText, "_") < 1 {
				fatalf("%s: @list get pattern needs a hole _", where)
			}
		}
	case "@drop":
		s.drops = append(s.drops, parsePat(where, rest(1)))
	case "@pure":
		s.pures = append(s.pures, parsePat(where, rest(1)))
	case "@nonnil":
		s.nonnils = append(s.nonnils, parsePat(where, rest(1)))
	case "@opaque":
		if len(fields) != 2 {
			fatalf("%s: malformed directive %q", where, line)
		}
		if s.opaques == nil {
			s.opaques = map[string]bool{}
		}
		s.opaques[fields[1]] = true
	default:
		fatalf("%s: unknown directive %q", where, fields[0])
	}
}

// exprText prints the expression forms the matcher understands, canonically.
func exprText(e ast.Expr) (string, bool) {
	switch x := e.(type) {
	case *ast.ParenExpr:
		return exprText(x.X)
	case *ast.Ident:
		return x.Name, true
	case *ast.BasicLit:
		return x.Value, true
	case *ast.SelectorExpr:
		s, ok := exprText(x.X)
		return s + "." + x.Sel.Name, ok
	case *ast.StarExpr:
		s, ok := exprText(x.X)
		return "(*" + s + ")", ok
	case *ast.UnaryExpr:
		s, ok := exprText(x.X)
		return "(" + x.Op.String() + s + ")", ok
	case *ast.BinaryExpr:
		a, ok1 := exprText(x.X)
		b, ok2 := exprText(x.Y)
		return "(" + a + " " + x.Op.String() + " " + b + ")", ok1 && ok2
	case *ast.IndexExpr:
		a, ok1 := exprText(x.X)
		b, ok2 := exprText(x.Index)
		return a + "[" + b + "]", ok1 && ok2
	case *ast.CallExpr:
		if x.Ellipsis.IsValid() {
			return "", false
		}
		s, ok := exprText(x.Fun)
		var as []string
		for _, a := range x.Args {
			t, ok2 := exprText(a)
			ok = ok && ok2
			as = append(as, t)
		}
		return s + "(" + strings.Join(as, ", ") + ")", ok
	}
	return "", false
}

// renameText prints e with identifiers renamed (formal parameter -> text of the actual argument).
func renameText(e ast.Expr, ren map[string]string) string {
	switch x := e.(type) {
	case *ast.ParenExpr:
		return renameText(x.X, ren)
	case *ast.Ident:
		if r, ok := ren[x.Name]; ok {
			return r
		}
		return x.Name
	case *ast.BasicLit:
		return x.Value
	case *ast.SelectorExpr:
		return renameText(x.X, ren) + "." + x.Sel.Name
	case *ast.StarExpr:
		return "(*" + renameText(x.X, ren) + ")"
	case *ast.UnaryExpr:
		return "(" + x.Op.String() + renameText(x.X, ren) + ")"
	case *ast.BinaryExpr:
		return "(" + renameText(x.X, ren) + " " + x.Op.String() + " " + renameText(x.Y, ren) + ")"
	case *ast.IndexExpr:
		return renameText(x.X, ren) + "[" + renameText(x.Index, ren) + "]"
	case *ast.CallExpr:
		var as []string
		for _, a := range x.Args {
			as = append(as, renameText(a, ren))
		}
		return renameText(x.Fun, ren) + "(" + strings.Join(as, ", ") + ")"
	}
	return "?"
}

// matchExpr: structural match; the identifier _ in the pattern is a hole.
func matchExpr(pat, e ast.Expr, holes *[]ast.Expr) bool {
	pat, e = unparen(pat), unparen(e)
	if id, ok := pat.(*ast.Ident); ok && id.Name == "_" {
		*holes = append(*holes, e)
		return true
	}
	switch p := pat.(type) {
	case *ast.Ident:
		x, ok := e.(*ast.Ident)
		return ok && x.Name == p.Name
	case *ast.BasicLit:
		x, ok := e.(*ast.BasicLit)
		return ok && x.Kind == p.Kind && x.Value == p.Value
	case *ast.SelectorExpr:
		x, ok := e.(*ast.SelectorExpr)
		return ok && x.Sel.Name == p.Sel.Name && matchExpr(p.X, x.X, holes)
	case *ast.StarExpr:
		x, ok := e.(*ast.StarExpr)
		return ok && matchExpr(p.X, x.X, holes)
	case *ast.UnaryExpr:
		x, ok := e.(*ast.UnaryExpr)
		return ok && x.Op == p.Op && matchExpr(p.X, x.X, holes)
	case *ast.BinaryExpr:
		x, ok := e.(*ast.BinaryExpr)
		return ok && x.Op == p.Op && matchExpr(p.X, x.X, holes) && matchExpr(p.Y, x.Y, holes)
	case *ast.IndexExpr:
		x, ok := e.(*ast.IndexExpr)
		return ok && matchExpr(p.X, x.X, holes) && matchExpr(p.Index, x.Index, holes)
	case *ast.CallExpr:
		x, ok := e.(*ast.CallExpr)
		if !ok || len(x.Args) != len(p.Args) || x.Ellipsis.IsValid() || !matchExpr(p.Fun, x.Fun, holes) {
			return false
		}
		for i := range p.Args {
			if !matchExpr(p.Args[i], x.Args[i], holes) {
				return false
			}
		}
		return true
	}
	return false
}

func matchAny(pats []ast.Expr, e ast.Expr) bool {
	for _, p := range pats {
		var h []ast.Expr
		if matchExpr(p, e, &h) && len(h) == 0 {
			return true
		}
	}
	return false
}

// identsOf: the identifiers of a pattern (selector field names excluded).
func identsOf(e ast.Expr, out map[string]bool) {
	switch x := e.(type) {
	case *ast.ParenExpr:
		identsOf(x.X, out)
	case *ast.Ident:
		if x.Name != "_" {
			out[x.Name] = true
		}
	case *ast.SelectorExpr:
		identsOf(x.X, out)
	case *ast.StarExpr:
		identsOf(x.X, out)
	case *ast.UnaryExpr:
		identsOf(x.X, out)
	case *ast.BinaryExpr:
		identsOf(x.X, out)
		identsOf(x.Y, out)
	case *ast.IndexExpr:
		identsOf(x.X, out)
		identsOf(x.Index, out)
	case *ast.CallExpr:
		identsOf(x.Fun, out)
		for _, a := range x.Args {
			identsOf(a, out)
		}
	}
}

func (f *fn) findBind(e ast.Expr) *bindSpec {
	if f.sp == nil {
		return nil
	}
	for _, b := range f.sp.binds {
		var h []ast.Expr
		if matchExpr(b.pat, e, &h) && len(h) == 0 {
			return b
		}
	}
	return nil
}

func (f *fn) findOut(e ast.Expr) *bindSpec {
	if f.sp == nil {
		return nil
	}
	for _, b := range f.sp.outs {
		var h []ast.Expr
		if matchExpr(b.pat, e, &h) && len(h) == 0 {
			return b
		}
	}
	return nil
}

func (f *fn) findListLen(e ast.Expr) *listSpec {
	if f.sp == nil {
		return nil
	}
	for _, l := range f.sp.lists {
		var h []ast.Expr
		if l.lenPat != nil && matchExpr(l.lenPat, e, &h) && len(h) == 0 {
			return l
		}
	}
	return nil
}

func (f *fn) findListGet(e ast.Expr) (*listSpec, ast.Expr) {
	if f.sp == nil {
		return nil, nil
	}
	for _, l := range f.sp.lists {
		var h []ast.Expr
		if l.getPat != nil && matchExpr(l.getPat, e, &h) && len(h) == 1 {
			return l, h[0]
		}
	}
	return nil, nil
}

// specPrepass: resolves the types of binds and outs from the matched expressions, checks that
// every directive is used and that nothing a directive mentions is assigned in the function.
func specPrepass(ld *loader, f *fn, wl map[types.Object]*fn) {
	if f.sp.empty() {
		return
	}
	info := f.pkg.info
	where := func(p token.Pos) string { return ld.pos(p) + ": in " + f.name }
	setType := func(b *bindSpec, e ast.Expr, kind string) {
		tv, ok := info.Types[e]
		if !ok || tv.Type == nil {
			fatalf("%s: no type for the expression matched by %s %s", where(e.Pos()), kind, b.name)
		}
		if _, ok := coqType(tv.Type); !ok {
			fatalf("%s: %s %s: matched expression has unsupported type %s", where(e.Pos()), kind, b.name, tv.Type)
		}
		if b.typ == nil {
			b.typ = tv.Type
			return
		}
		c1, _ := coqType(b.typ)
		c2, _ := coqType(tv.Type)
		s1, _ := intSuffix(b.typ)
		s2, _ := intSuffix(tv.Type)
		if c1 != c2 || s1 != s2 {
			fatalf("%s: %s %s matches expressions of different types (%s, %s)", where(e.Pos()), kind, b.name, b.typ, tv.Type)
		}
	}
	assigned := map[string]bool{} // names of variables assigned or redeclared in the body
	var lhsList []ast.Expr
	ast.Inspect(f.decl.Body, func(n ast.Node) bool {
		switch x := n.(type) {
		case *ast.AssignStmt:
			lhsList = append(lhsList, x.Lhs...)
		case *ast.IncDecStmt:
			lhsList = append(lhsList, x.X)
		case *ast.RangeStmt:
			if x.Key != nil {
				lhsList = append(lhsList, x.Key)
			}
			if x.Value != nil {
				lhsList = append(lhsList, x.Value)
			}
		}
		return true
	})
	for _, l := range lhsList {
		if id, ok := unparen(l).(*ast.Ident); ok {
			assigned[id.Name] = true
		}
		if b := f.findBind(l); b != nil {
			fatalf("%s: the @bind expression %s is assigned in the function", where(l.Pos()), b.text)
		}
	}
	ast.Inspect(f.decl.Body, func(n ast.Node) bool {
		e, ok := n.(ast.Expr)
		if !ok {
			return true
		}
		if b := f.findBind(e); b != nil {
			setType(b, e, "@bind")
			return false
		}
		if b := f.findOut(e); b != nil {
			setType(b, e, "@out")
			return false
		}
		if l := f.findListLen(e); l != nil {
			l.used = true
			return false
		}
		if l, idx := f.findListGet(e); l != nil {
			l.used = true
			tv := info.Types[e]
			if _, ok := intSuffix(tv.Type); tv.Type == nil || !ok {
				fatalf("%s: @list %s: element expression has unsupported type %v", where(e.Pos()), l.name, tv.Type)
			}
			_ = idx
			return true // the index expression is translated
		}
		return true
	})
	// binds that are only handed on to a translated callee take their type from the callee's bind
	ast.Inspect(f.decl.Body, func(n ast.Node) bool {
		ce, ok := n.(*ast.CallExpr)
		if !ok {
			return true
		}
		var obj types.Object
		var recvExpr ast.Expr
		switch fun := unparen(ce.Fun).(type) {
		case *ast.Ident:
			obj = info.Uses[fun]
		case *ast.SelectorExpr:
			if sel := info.Selections[fun]; sel != nil {
				obj = sel.Obj()
				recvExpr = fun.X
			} else {
				obj = info.Uses[fun.Sel]
			}
		}
		o, ok := obj.(*types.Func)
		if !ok {
			return true
		}
		callee := wl[o.Origin()]
		if callee == nil || callee.sp.empty() {
			return true
		}
		ren := map[string]string{}
		csig := callee.obj.Type().(*types.Signature)
		for i, a := range ce.Args {
			if txt, ok := exprText(a); ok && i < csig.Params().Len() {
				ren[csig.Params().At(i).Name()] = txt
			}
		}
		if recvExpr != nil && callee.recvObj != nil {
			if txt, ok := exprText(recvExpr); ok {
				ren[callee.recvObj.Name()] = txt
			}
		}
		for _, cb := range callee.sp.binds {
			want := renameText(cb.pat, ren)
			for _, b := range f.sp.binds {
				if b.text == want && b.typ == nil {
					b.typ = cb.typ
				}
			}
		}
		for _, cl := range callee.sp.lists {
			for _, l := range f.sp.lists {
				if (cl.lenPat == nil || l.lenText == renameText(cl.lenPat, ren)) && (cl.getPat == nil || l.getText == renameText(cl.getPat, ren)) {
					l.used = true
				}
			}
		}
		return true
	})
	check := func(kind string, bs []*bindSpec) {
		for _, b := range bs {
			if b.typ == nil {
				fatalf("%s: %s %s = %s matches nothing in the function (stale directive)", where(f.decl.Pos()), kind, b.name, b.text)
			}
			ids := map[string]bool{}
			identsOf(b.pat, ids)
			for id := range ids {
				if assigned[id] && !f.sp.opaques[id] {
					fatalf("%s: %s %s mentions %s, which is assigned in the function", where(f.decl.Pos()), kind, b.name, id)
				}
			}
		}
	}
	check("@bind", f.sp.binds)
	check("@out", f.sp.outs)
	for _, l := range f.sp.lists {
		if !l.used {
			fatalf("%s: @list %s matches nothing in the function (stale directive)", where(f.decl.Pos()), l.name)
		}
	}
}

func (s *spec) headerLines(indent string) string {
	var sb strings.Builder
	for _, l := range s.lines {
		fmt.Fprintf(&sb, "%s%s\n", indent, l)
	}
	return sb.String()
}
