package main

// Translation of one whitelisted Go function into a Gallina Definition.  See README.md for the
// supported subset and the semantics.  Everything outside the subset is FATAL (file:line).

import (
	"fmt"
	"go/ast"
	"go/constant"
	"go/token"
	"go/types"
	"sort"
	"strings"
)

// ---------------------------------------------------------------- function table

type fieldRef struct {
	path []string // selector chain below the receiver, e.g. Stats, BytesMoved
	idx  []int    // struct field indices (declaration order), used for sorting
	typ  types.Type
	coq  string
}

type fn struct {
	file, recv, name, coq string
	order                 int // position in funcs.txt
	pkg                   *pkgInfo
	decl                  *ast.FuncDecl
	obj                   *types.Func
	recvObj               *types.Var
	recvPtr               bool
	fields                map[string]*fieldRef // own + inherited from callees on the same receiver
	muts                  map[string]bool
	callees               []*fn
	mayPanic              bool
	results               []types.Type
	text                  string       // the generated Definition
	sp                    *spec        // abstraction directives (nil or empty for closed integer functions)
	named                 []*types.Var // named results (locals initialised to zero values)
	hasLoop               bool
}

// stateVars: what a call leaves behind besides its results: the assigned receiver fields, then the
// @out locations.
func (f *fn) stateVars() []*fieldRef {
	l := f.mutFields()
	if f.sp != nil {
		for _, o := range f.sp.outs {
			l = append(l, &fieldRef{path: []string{o.name}, typ: o.typ, coq: o.coq})
		}
	}
	return l
}

func (f *fn) sortedFields() []*fieldRef {
	var l []*fieldRef
	for _, r := range f.fields {
		l = append(l, r)
	}
	sort.Slice(l, func(i, j int) bool {
		a, b := l[i].idx, l[j].idx
		for k := 0; k < len(a) && k < len(b); k++ {
			if a[k] != b[k] {
				return a[k] < b[k]
			}
		}
		return len(a) < len(b)
	})
	return l
}

func (f *fn) mutFields() []*fieldRef {
	var l []*fieldRef
	for _, r := range f.sortedFields() {
		if f.muts[strings.Join(r.path, ".")] {
			l = append(l, r)
		}
	}
	return l
}

// ---------------------------------------------------------------- types

// intSuffix: the GoSem suffix of an integer type (i8..i64, u8..u64); int/uint are 64 bit.
func intSuffix(t types.Type) (string, bool) {
	b, ok := t.Underlying().(*types.Basic)
	if !ok {
		return "", false
	}
	switch b.Kind() {
	case types.Int, types.Int64:
		return "i64", true
	case types.Int8:
		return "i8", true
	case types.Int16:
		return "i16", true
	case types.Int32:
		return "i32", true
	case types.Uint, types.Uint64:
		return "u64", true
	case types.Uint8:
		return "u8", true
	case types.Uint16:
		return "u16", true
	case types.Uint32:
		return "u32", true
	}
	return "", false
}

func isBool(t types.Type) bool {
	b, ok := t.Underlying().(*types.Basic)
	return ok && (b.Kind() == types.Bool || b.Kind() == types.UntypedBool)
}

// isError: the predeclared type error; modelled as bool (true = non-nil).
func isError(t types.Type) bool {
	return t != nil && types.Identical(t, types.Universe.Lookup("error").Type())
}

func coqType(t types.Type) (string, bool) {
	if _, ok := intSuffix(t); ok {
		return "Z", true
	}
	if isBool(t) || isError(t) {
		return "bool", true
	}
	return "", false
}

// ---------------------------------------------------------------- IR

type node interface{}
type nLet struct {
	name, term string
	body       node
}
type nIf struct {
	cond     string
	thn, els node
}
type nGuard struct { // if cond then Panic st else body
	cond, st string
	body     node
}
type nBind struct { // match call with Panic _ => Panic st | Ret pat => body end
	pat, call, st string
	body          node
}
type nLeaf struct{ term string }
type nLoop struct { // go_loop fuel (fun st => cond) (fun st next brk => body) (fun st => exit) Diverge st
	fuel, pat, tuple, cond, next, brk string
	body, exit                        node
}

func printNode(sb *strings.Builder, n node, ind string) {
	switch n := n.(type) {
	case *nLet:
		fmt.Fprintf(sb, "%slet %s := %s in\n", ind, n.name, n.term)
		printNode(sb, n.body, ind)
	case *nGuard:
		fmt.Fprintf(sb, "%sif %s then Panic %s else\n", ind, n.cond, n.st)
		printNode(sb, n.body, ind)
	case *nBind:
		fmt.Fprintf(sb, "%smatch %s with\n%s| Panic _ => Panic %s\n%s| Diverge => Diverge\n%s| Ret %s =>\n", ind, n.call, ind, n.st, ind, ind, n.pat)
		printNode(sb, n.body, ind+"  ")
		fmt.Fprintf(sb, "\n%send", ind)
	case *nIf:
		fmt.Fprintf(sb, "%sif %s then (\n", ind, n.cond)
		printNode(sb, n.thn, ind+"  ")
		fmt.Fprintf(sb, "\n%s) else (\n", ind)
		printNode(sb, n.els, ind+"  ")
		fmt.Fprintf(sb, "\n%s)", ind)
	case *nLeaf:
		fmt.Fprintf(sb, "%s%s", ind, n.term)
	case *nLoop:
		fmt.Fprintf(sb, "%sgo_loop %s\n%s  (fun %s => %s)\n%s  (fun %s %s %s =>\n", ind, n.fuel, ind, n.pat, n.cond, ind, n.pat, n.next, n.brk)
		printNode(sb, n.body, ind+"    ")
		fmt.Fprintf(sb, ")\n%s  (fun %s =>\n", ind, n.pat)
		printNode(sb, n.exit, ind+"    ")
		fmt.Fprintf(sb, ")\n%s  Diverge\n%s  %s", ind, ind, n.tuple)
	default:
		panic("unknown node")
	}
}

// ---------------------------------------------------------------- translator state

type pre struct {
	guard    string // non-empty: panic condition
	bindPat  string // otherwise: bind of a call that may panic
	bindCall string
}

type tr struct {
	ld          *loader
	f           *fn
	wl          map[types.Object]*fn
	names       map[types.Object]string
	used        map[string]bool
	tmp         int
	sawPanic    bool
	assumePanic bool
	nodes       int
	touched     map[string]string // rel file -> why
	breakK      []func() node     // innermost first: continuation of `break`
	contK       []func() node     // continuation of `continue`
}

var reserved = map[string]bool{}

func init() {
	for _, w := range strings.Fields(`as at cofix else end exists exists2 fix for forall fun if IF in let match mod return
		Prop Set SProp Type then using where with by lazymatch multimatch
		Z bool nat true false negb andb orb tt unit Ret Panic Diverge outcome fst snd pair Some None option list nil cons length
		go_quot go_rem go_and go_or go_xor go_andnot go_len go_tz go_loop go_nth go_popcount popcnt8 popcnt16 popcnt32 popcnt64`) {
		reserved[w] = true
	}
	for _, s := range []string{"i8", "i16", "i32", "i64", "u8", "u16", "u32", "u64"} {
		for _, p := range []string{"wrap_", "go_shl_", "go_shr_", "go_not_"} {
			reserved[p+s] = true
		}
	}
	for _, w := range []string{"8", "16", "32", "64"} {
		reserved["lzcnt"+w] = true
		reserved["tzcnt"+w] = true
		reserved["len"+w] = true
	}
}

func (t *tr) fail(pos token.Pos, format string, args ...any) {
	fatalf("%s: in %s: %s", t.ld.pos(pos), t.f.name, fmt.Sprintf(format, args...))
}

func (t *tr) info() *types.Info { return t.f.pkg.info }

func (t *tr) alloc(obj types.Object, hint string) string {
	if obj != nil {
		// a declaration that is translated again (duplicated continuation) keeps its name
		if n, ok := t.names[obj]; ok {
			return n
		}
	}
	base := hint
	if base == "" || base == "_" {
		base = "arg"
	}
	if reserved[base] {
		base += "_v"
	}
	name := base
	for i := 1; t.used[name]; i++ {
		name = fmt.Sprintf("%s_%d", base, i)
	}
	t.used[name] = true
	if obj != nil {
		t.names[obj] = name
	}
	return name
}

func (t *tr) fresh(prefix string) string {
	n := fmt.Sprintf("%s'%d", prefix, t.tmp)
	t.tmp++
	return n
}

func (t *tr) count(n node) node {
	t.nodes++
	if t.nodes > 4000 {
		t.fail(t.f.decl.Pos(), "generated term too large (continuation duplication); restructure the translator before whitelisting this function")
	}
	return n
}

func (t *tr) touch(pos token.Pos, why string) {
	if !pos.IsValid() {
		return
	}
	rel := t.ld.relFile(pos)
	if _, ok := t.touched[rel]; !ok {
		t.touched[rel] = why
	}
	if h, ok := t.ld.cOrigin[pos]; ok {
		hr := t.ld.relName(h)
		if _, ok := t.touched[hr]; !ok {
			t.touched[hr] = "C header: value of " + why
		}
	}
}

// panic state: the current values of the mutated receiver fields (or tt)
func (t *tr) stateTerm() string {
	m := t.f.stateVars()
	if len(m) == 0 {
		return "tt"
	}
	var l []string
	for _, r := range m {
		l = append(l, r.coq)
	}
	if len(l) == 1 {
		return l[0]
	}
	return "(" + strings.Join(l, ", ") + ")"
}

func (t *tr) wrapPre(pres []pre, body node) node {
	for i := len(pres) - 1; i >= 0; i-- {
		p := pres[i]
		t.sawPanic = true
		if p.guard != "" {
			body = t.count(&nGuard{cond: p.guard, st: t.stateTerm(), body: body})
		} else {
			body = t.count(&nBind{pat: p.bindPat, call: p.bindCall, st: t.stateTerm(), body: body})
		}
	}
	return body
}

// ---------------------------------------------------------------- receiver fields

func unparen(e ast.Expr) ast.Expr {
	for {
		p, ok := e.(*ast.ParenExpr)
		if !ok {
			return e
		}
		e = p.X
	}
}

// fieldChain: is e a chain of struct field selections rooted at the receiver identifier?
func fieldChain(info *types.Info, recv *types.Var, e ast.Expr) (path []string, idx []int, ok bool) {
	if recv == nil {
		return nil, nil, false
	}
	se, isSel := unparen(e).(*ast.SelectorExpr)
	if !isSel {
		return nil, nil, false
	}
	sel := info.Selections[se]
	if sel == nil || sel.Kind() != types.FieldVal {
		return nil, nil, false
	}
	if len(sel.Index()) != 1 {
		return nil, nil, false // promoted through an embedded field: not supported
	}
	if id, isId := unparen(se.X).(*ast.Ident); isId {
		if info.Uses[id] != recv {
			return nil, nil, false
		}
		return []string{se.Sel.Name}, []int{sel.Index()[0]}, true
	}
	p, ix, ok := fieldChain(info, recv, se.X)
	if !ok {
		return nil, nil, false
	}
	return append(append([]string{}, p...), se.Sel.Name), append(append([]int{}, ix...), sel.Index()[0]), true
}

// ---------------------------------------------------------------- expressions

func constString(v constant.Value) (string, bool) {
	switch v.Kind() {
	case constant.Bool:
		if constant.BoolVal(v) {
			return "true", true
		}
		return "false", true
	case constant.Int:
		s := v.ExactString()
		if strings.HasPrefix(s, "-") {
			return "(" + s + ")", true
		}
		return s, true
	}
	return "", false
}

func (t *tr) constant(e ast.Expr, tv types.TypeAndValue) string {
	if _, ok := coqType(tv.Type); !ok {
		if b, isB := tv.Type.Underlying().(*types.Basic); !(isB && b.Kind() == types.UntypedInt) {
			t.fail(e.Pos(), "constant of unsupported type %s", tv.Type)
		}
	}
	v := tv.Value
	if v.Kind() == constant.Float || v.Kind() == constant.Unknown {
		v = constant.ToInt(v)
	}
	s, ok := constString(v)
	if !ok {
		t.fail(e.Pos(), "constant %s of unsupported kind", tv.Value)
	}
	// record where the named constants of the expression are declared
	ast.Inspect(e, func(n ast.Node) bool {
		if id, ok := n.(*ast.Ident); ok {
			if c, ok := t.info().Uses[id].(*types.Const); ok {
				t.touch(c.Pos(), "constant "+c.Name())
			}
		}
		return true
	})
	return s
}

func (t *tr) typeOf(e ast.Expr) types.Type {
	tv, ok := t.info().Types[e]
	if !ok || tv.Type == nil {
		t.fail(e.Pos(), "no type information for expression")
	}
	if b, ok := tv.Type.(*types.Basic); ok && b.Kind() == types.Invalid {
		t.fail(e.Pos(), "expression has invalid type")
	}
	return tv.Type
}

func (t *tr) isConst(e ast.Expr) (constant.Value, bool) {
	tv, ok := t.info().Types[e]
	if ok && tv.Value != nil {
		return tv.Value, true
	}
	return nil, false
}

var cmpOps = map[token.Token]string{token.EQL: "=?", token.LSS: "<?", token.LEQ: "<=?", token.GTR: ">?", token.GEQ: ">=?"}

// arith builds  x op y  at integer type T (suffix s).  yExpr is the Go operand (for shift counts /
// divisors), nil when the operand is synthetic (x++ / x--).
func (t *tr) arith(pos token.Pos, op token.Token, T types.Type, x, y string, yExpr ast.Expr) (string, []pre) {
	s, ok := intSuffix(T)
	if !ok {
		t.fail(pos, "operator %s at unsupported type %s", op, T)
	}
	switch op {
	case token.ADD:
		return fmt.Sprintf("(wrap_%s (%s + %s))", s, x, y), nil
	case token.SUB:
		return fmt.Sprintf("(wrap_%s (%s - %s))", s, x, y), nil
	case token.MUL:
		return fmt.Sprintf("(wrap_%s (%s * %s))", s, x, y), nil
	case token.QUO, token.REM:
		var pres []pre
		zero := false
		if yExpr != nil {
			if v, isC := t.isConst(yExpr); isC {
				zero = constant.Sign(v) == 0
			} else {
				pres = append(pres, pre{guard: fmt.Sprintf("(%s =? 0)", y)})
			}
		}
		if zero {
			t.fail(pos, "division by constant zero")
		}
		fnm := "go_quot"
		if op == token.REM {
			fnm = "go_rem"
		}
		return fmt.Sprintf("(wrap_%s (%s %s %s))", s, fnm, x, y), pres
	case token.AND:
		return fmt.Sprintf("(go_and %s %s)", x, y), nil
	case token.OR:
		return fmt.Sprintf("(go_or %s %s)", x, y), nil
	case token.XOR:
		return fmt.Sprintf("(go_xor %s %s)", x, y), nil
	case token.AND_NOT:
		return fmt.Sprintf("(go_andnot %s %s)", x, y), nil
	case token.SHL, token.SHR:
		var pres []pre
		if yExpr == nil {
			t.fail(pos, "internal: shift without count expression")
		}
		if _, isC := t.isConst(yExpr); !isC {
			cs, ok := intSuffix(t.typeOf(yExpr))
			if !ok {
				t.fail(pos, "shift count of unsupported type %s", t.typeOf(yExpr))
			}
			if cs[0] == 'i' { // signed, not constant: Go panics on a negative count
				pres = append(pres, pre{guard: fmt.Sprintf("(%s <? 0)", y)})
			}
		}
		nm := "go_shl_"
		if op == token.SHR {
			nm = "go_shr_"
		}
		return fmt.Sprintf("(%s%s %s %s)", nm, s, x, y), pres
	}
	t.fail(pos, "operator %s not supported", op)
	return "", nil
}

func (t *tr) expr(e ast.Expr) (string, []pre) {
	// abstraction directives first
	if b := t.f.findBind(e); b != nil {
		return b.coq, nil
	}
	if b := t.f.findOut(e); b != nil {
		return b.coq, nil
	}
	if l := t.f.findListLen(e); l != nil {
		return fmt.Sprintf("(Z.of_nat (length %s))", l.coq), nil
	}
	if l, idx := t.f.findListGet(e); l != nil {
		// slice indexing: out of range panics
		x, pres := t.expr(idx)
		pres = append(pres, pre{guard: fmt.Sprintf("((%s <? 0) || (%s >=? Z.of_nat (length %s)))", x, x, l.coq)})
		return fmt.Sprintf("(go_nth %s %s)", l.coq, x), pres
	}
	tv, ok := t.info().Types[e]
	if !ok {
		t.fail(e.Pos(), "no type information for expression")
	}
	if tv.Value != nil {
		return t.constant(e, tv), nil
	}
	switch e := e.(type) {
	case *ast.ParenExpr:
		return t.expr(e.X)
	case *ast.Ident:
		obj := t.info().Uses[e]
		if v, ok := obj.(*types.Var); ok {
			if n, ok := t.names[v]; ok {
				return n, nil
			}
			t.fail(e.Pos(), "variable %s is not a parameter or local of the function (package-level state is not supported)", e.Name)
		}
		t.fail(e.Pos(), "identifier %s is not a variable or constant", e.Name)
	case *ast.SelectorExpr:
		if path, _, ok := fieldChain(t.info(), t.f.recvObj, e); ok {
			r := t.f.fields[strings.Join(path, ".")]
			if r == nil {
				t.fail(e.Pos(), "receiver field %s is not of integer/bool type", strings.Join(path, "."))
			}
			return r.coq, nil
		}
		t.fail(e.Pos(), "selector expression is not a receiver field of integer/bool type")
	case *ast.UnaryExpr:
		x, pres := t.expr(e.X)
		switch e.Op {
		case token.NOT:
			return fmt.Sprintf("(negb %s)", x), pres
		case token.ADD:
			return x, pres
		case token.SUB:
			s, ok := intSuffix(t.typeOf(e))
			if !ok {
				t.fail(e.Pos(), "unary - at unsupported type")
			}
			return fmt.Sprintf("(wrap_%s (- %s))", s, x), pres
		case token.XOR:
			s, ok := intSuffix(t.typeOf(e))
			if !ok {
				t.fail(e.Pos(), "unary ^ at unsupported type")
			}
			return fmt.Sprintf("(go_not_%s %s)", s, x), pres
		}
		t.fail(e.Pos(), "unary operator %s not supported", e.Op)
	case *ast.BinaryExpr:
		switch e.Op {
		case token.LAND, token.LOR:
			x, px := t.expr(e.X)
			y, py := t.expr(e.Y)
			for _, p := range py {
				if p.guard == "" {
					t.fail(e.Y.Pos(), "call to a function that may panic inside the right operand of %s is not supported", e.Op)
				}
				if e.Op == token.LAND {
					px = append(px, pre{guard: fmt.Sprintf("(%s && %s)", x, p.guard)})
				} else {
					px = append(px, pre{guard: fmt.Sprintf("(negb %s && %s)", x, p.guard)})
				}
			}
			if e.Op == token.LAND {
				return fmt.Sprintf("(%s && %s)", x, y), px
			}
			return fmt.Sprintf("(%s || %s)", x, y), px
		case token.EQL, token.NEQ, token.LSS, token.LEQ, token.GTR, token.GEQ:
			x, px := t.expr(e.X)
			y, py := t.expr(e.Y)
			pres := append(px, py...)
			ot := t.typeOf(e.X)
			if _, isC := t.isConst(e.X); isC {
				ot = t.typeOf(e.Y)
			}
			if isBool(ot) {
				switch e.Op {
				case token.EQL:
					return fmt.Sprintf("(Bool.eqb %s %s)", x, y), pres
				case token.NEQ:
					return fmt.Sprintf("(negb (Bool.eqb %s %s))", x, y), pres
				}
				t.fail(e.Pos(), "ordering comparison of booleans")
			}
			if _, ok := intSuffix(ot); !ok {
				t.fail(e.Pos(), "comparison at unsupported type %s", ot)
			}
			if e.Op == token.NEQ {
				return fmt.Sprintf("(negb (%s =? %s))", x, y), pres
			}
			return fmt.Sprintf("(%s %s %s)", x, cmpOps[e.Op], y), pres
		}
		x, px := t.expr(e.X)
		y, py := t.expr(e.Y)
		term, pa := t.arith(e.Pos(), e.Op, t.typeOf(e), x, y, e.Y)
		return term, append(append(px, py...), pa...)
	case *ast.CallExpr:
		return t.call(e)
	}
	t.fail(e.Pos(), "expression form %T not supported", e)
	return "", nil
}

var bitsMap = map[string]string{
	"LeadingZeros": "lzcnt64", "LeadingZeros8": "lzcnt8", "LeadingZeros16": "lzcnt16", "LeadingZeros32": "lzcnt32", "LeadingZeros64": "lzcnt64",
	"TrailingZeros": "tzcnt64", "TrailingZeros8": "tzcnt8", "TrailingZeros16": "tzcnt16", "TrailingZeros32": "tzcnt32", "TrailingZeros64": "tzcnt64",
	"Len": "len64", "Len8": "len8", "Len16": "len16", "Len32": "len32", "Len64": "len64",
	"OnesCount": "popcnt64", "OnesCount8": "popcnt8", "OnesCount16": "popcnt16", "OnesCount32": "popcnt32", "OnesCount64": "popcnt64",
}

// calleeOf resolves the function object of a call and its receiver expression (nil for plain and
// package-qualified functions).
func (t *tr) calleeOf(e *ast.CallExpr) (types.Object, ast.Expr) {
	switch fun := unparen(e.Fun).(type) {
	case *ast.Ident:
		return t.info().Uses[fun], nil
	case *ast.SelectorExpr:
		if sel := t.info().Selections[fun]; sel != nil {
			if sel.Kind() != types.MethodVal {
				t.fail(e.Pos(), "call through a field or method expression is not supported")
			}
			return sel.Obj(), fun.X
		}
		return t.info().Uses[fun.Sel], nil // package-qualified
	}
	t.fail(e.Pos(), "call of this form is not supported (generic instantiation, function value, ...)")
	return nil, nil
}

// pureArg: an argument whose evaluation cannot panic, block or have an effect.
func (t *tr) pureArg(e ast.Expr) bool {
	if _, isC := t.isConst(e); isC {
		return true
	}
	switch e := unparen(e).(type) {
	case *ast.Ident:
		_, ok := t.info().Uses[e].(*types.Var)
		return ok
	case *ast.BasicLit:
		return true
	case *ast.SelectorExpr:
		_, _, ok := fieldChain(t.info(), t.f.recvObj, e)
		return ok
	}
	return false
}

// isNoOp: a function declared in the source root (in a file selected by the production build
// constraints) with an empty body and no results.
func (t *tr) isNoOp(obj types.Object) bool {
	if f, ok := obj.(*types.Func); ok {
		obj = f.Origin()
	}
	d := t.ld.decls[obj]
	if d == nil || d.Body == nil || len(d.Body.List) != 0 {
		return false
	}
	if d.Type.Results != nil && len(d.Type.Results.List) != 0 {
		return false
	}
	return true
}

// wlCall builds the application of a whitelisted callee; results: Coq term of the call, pres of
// the arguments, callee.
func (t *tr) wlCall(e *ast.CallExpr, callee *fn, recvExpr ast.Expr) (string, []pre) {
	if len(callee.stateVars()) != 0 {
		t.fail(e.Pos(), "call to %s, which assigns receiver fields or @out locations, from another translated function is not supported", callee.name)
	}
	if e.Ellipsis.IsValid() {
		t.fail(e.Pos(), "variadic call not supported")
	}
	parts := []string{callee.coq}
	if recvExpr != nil {
		id, isId := unparen(recvExpr).(*ast.Ident)
		if !isId {
			t.fail(e.Pos(), "method call on an expression other than an identifier is not supported")
		}
		if len(callee.fields) != 0 {
			if t.f.recvObj == nil || t.info().Uses[id] != t.f.recvObj {
				t.fail(e.Pos(), "%s reads receiver fields; it can only be called on the caller's own receiver", callee.name)
			}
			for _, r := range callee.sortedFields() {
				mine := t.f.fields[strings.Join(r.path, ".")]
				if mine == nil {
					t.fail(e.Pos(), "internal: field %s of callee not propagated", strings.Join(r.path, "."))
				}
				parts = append(parts, mine.coq)
			}
		}
	}
	// the callee's abstraction parameters: each of its @bind / @list expressions, with the callee's
	// formal parameters (and receiver) replaced by the actual arguments, must be a directive of the
	// same kind of the caller, whose parameter is passed on
	ren := map[string]string{}
	csig := callee.obj.Type().(*types.Signature)
	if len(e.Args) != csig.Params().Len() {
		t.fail(e.Pos(), "call to %s with %d arguments, %d expected", callee.name, len(e.Args), csig.Params().Len())
	}
	for i, a := range e.Args {
		if txt, ok := exprText(a); ok {
			ren[csig.Params().At(i).Name()] = txt
		}
	}
	if recvExpr != nil && callee.recvObj != nil {
		if txt, ok := exprText(recvExpr); ok {
			ren[callee.recvObj.Name()] = txt
		}
	}
	if callee.sp != nil {
		for _, b := range callee.sp.binds {
			want := renameText(b.pat, ren)
			var mine *bindSpec
			if t.f.sp != nil {
				for _, c := range t.f.sp.binds {
					if c.text == want {
						mine = c
					}
				}
			}
			if mine == nil {
				t.fail(e.Pos(), "%s abstracts %s; the caller needs a directive  @bind <name> = %s", callee.name, b.text, want)
			}
			parts = append(parts, mine.coq)
		}
		for _, l := range callee.sp.lists {
			var mine *listSpec
			if t.f.sp != nil {
				for _, c := range t.f.sp.lists {
					if (l.lenPat == nil || c.lenText == renameText(l.lenPat, ren)) && (l.getPat == nil || c.getText == renameText(l.getPat, ren)) {
						mine = c
					}
				}
			}
			if mine == nil {
				t.fail(e.Pos(), "%s abstracts the slice %s; the caller needs matching @list directives", callee.name, l.name)
			}
			parts = append(parts, mine.coq)
		}
	}
	var pres []pre
	for i, a := range e.Args {
		if _, ok := coqType(csig.Params().At(i).Type()); !ok {
			// a parameter the callee only uses through its directives (pointer, struct, ...)
			if _, ok := exprText(a); !ok || callee.sp.empty() {
				t.fail(a.Pos(), "argument of unsupported type %s", csig.Params().At(i).Type())
			}
			continue
		}
		x, p := t.expr(a)
		parts = append(parts, x)
		pres = append(pres, p...)
	}
	if len(parts) == 1 {
		return parts[0], pres
	}
	return "(" + strings.Join(parts, " ") + ")", pres
}

func (t *tr) call(e *ast.CallExpr) (string, []pre) {
	if ftv, ok := t.info().Types[e.Fun]; ok && ftv.IsType() {
		// conversion
		if len(e.Args) != 1 {
			t.fail(e.Pos(), "conversion with %d arguments", len(e.Args))
		}
		x, pres := t.expr(e.Args[0])
		dst, src := ftv.Type, t.typeOf(e.Args[0])
		if isBool(dst) && isBool(src) {
			return x, pres
		}
		ds, ok1 := intSuffix(dst)
		ss, ok2 := intSuffix(src)
		if !ok1 || !ok2 {
			t.fail(e.Pos(), "conversion from %s to %s not supported", src, dst)
		}
		if ds == ss {
			return x, pres
		}
		return fmt.Sprintf("(wrap_%s %s)", ds, x), pres
	}
	obj, recvExpr := t.calleeOf(e)
	switch o := obj.(type) {
	case *types.Builtin:
		t.fail(e.Pos(), "builtin %s is not supported in expressions", o.Name())
	case *types.Func:
		if o.Pkg() != nil && o.Pkg().Path() == "math/bits" {
			nm, ok := bitsMap[o.Name()]
			if !ok || len(e.Args) != 1 {
				t.fail(e.Pos(), "bits.%s not supported", o.Name())
			}
			x, pres := t.expr(e.Args[0])
			return fmt.Sprintf("(%s %s)", nm, x), pres
		}
		callee := t.wl[o.Origin()]
		if callee == nil {
			t.fail(e.Pos(), "call to %s, which is not whitelisted in funcs.txt", o.FullName())
		}
		if len(callee.results) != 1 {
			t.fail(e.Pos(), "call to %s with %d results inside an expression", callee.name, len(callee.results))
		}
		t.touch(callee.decl.Pos(), "callee "+callee.name)
		term, pres := t.wlCall(e, callee, recvExpr)
		if callee.mayPanic {
			v := t.fresh("r")
			pres = append(pres, pre{bindPat: v, bindCall: term})
			return v, pres
		}
		return term, pres
	}
	t.fail(e.Pos(), "call of an unresolved or unsupported function")
	return "", nil
}

// multiCall: a call with several results used as the whole right-hand side.
func (t *tr) multiCall(e ast.Expr, n int) (call string, pres []pre, callee *fn) {
	ce, ok := unparen(e).(*ast.CallExpr)
	if !ok {
		t.fail(e.Pos(), "%d values expected from a single expression that is not a call", n)
	}
	obj, recvExpr := t.calleeOf(ce)
	o, isF := obj.(*types.Func)
	if !isF {
		t.fail(e.Pos(), "multi-value call of an unsupported function")
	}
	callee = t.wl[o.Origin()]
	if callee == nil {
		t.fail(e.Pos(), "call to %s, which is not whitelisted in funcs.txt", o.FullName())
	}
	if len(callee.results) != n {
		t.fail(e.Pos(), "call to %s yields %d values, %d expected", callee.name, len(callee.results), n)
	}
	t.touch(callee.decl.Pos(), "callee "+callee.name)
	call, pres = t.wlCall(ce, callee, recvExpr)
	return
}

// ---------------------------------------------------------------- statements

func (t *tr) retNode(terms []string) node {
	l := append([]string{}, terms...)
	for _, r := range t.f.stateVars() {
		l = append(l, r.coq)
	}
	var s string
	switch len(l) {
	case 0:
		s = "tt"
	case 1:
		s = l[0]
	default:
		s = "(" + strings.Join(l, ", ") + ")"
	}
	if t.assumePanic {
		s = "Ret " + s
	}
	return t.count(&nLeaf{term: s})
}

// lhs resolves an assignable operand to the Coq name that is (re)bound.
func (t *tr) lhs(e ast.Expr, define bool) string {
	if b := t.f.findOut(e); b != nil {
		return b.coq
	}
	switch x := unparen(e).(type) {
	case *ast.Ident:
		if x.Name == "_" {
			return "_"
		}
		if define {
			if obj := t.info().Defs[x]; obj != nil {
				if _, ok := coqType(obj.Type()); !ok {
					t.fail(x.Pos(), "local variable %s has unsupported type %s", x.Name, obj.Type())
				}
				return t.alloc(obj, x.Name)
			}
		}
		if v, ok := t.info().Uses[x].(*types.Var); ok {
			if n, ok := t.names[v]; ok {
				return n
			}
		}
		t.fail(x.Pos(), "assignment to %s, which is not a parameter or local of the function", x.Name)
	case *ast.SelectorExpr:
		if path, _, ok := fieldChain(t.info(), t.f.recvObj, x); ok {
			key := strings.Join(path, ".")
			r := t.f.fields[key]
			if r == nil || !t.f.muts[key] {
				t.fail(x.Pos(), "internal: assigned field %s not collected", key)
			}
			if !t.f.recvPtr {
				t.fail(x.Pos(), "assignment to a field of a value receiver is not supported")
			}
			return r.coq
		}
	}
	t.fail(e.Pos(), "assignment target of this form is not supported")
	return ""
}

func (t *tr) block(list []ast.Stmt, k func() node) node {
	if len(list) == 0 {
		return k()
	}
	return t.stmt(list[0], func() node { return t.block(list[1:], k) })
}

func tuplePat(names []string) string { return "'(" + strings.Join(names, ", ") + ")" }

func (t *tr) stmt(s ast.Stmt, k func() node) node {
	switch s := s.(type) {
	case *ast.EmptyStmt:
		return k()
	case *ast.BlockStmt:
		return t.block(s.List, k)
	case *ast.ReturnStmt:
		n := len(t.f.results)
		if len(s.Results) == 0 {
			if n != 0 {
				if len(t.f.named) != n {
					t.fail(s.Pos(), "bare return in a function with unnamed results")
				}
				var cur []string
				for _, v := range t.f.named {
					cur = append(cur, t.names[v])
				}
				return t.retNode(cur)
			}
			return t.retNode(nil)
		}
		if len(s.Results) == 1 && n > 1 {
			call, pres, callee := t.multiCall(s.Results[0], n)
			var vs []string
			for i := 0; i < n; i++ {
				vs = append(vs, t.fresh("r"))
			}
			body := t.retNode(vs)
			if callee.mayPanic {
				pres = append(pres, pre{bindPat: "(" + strings.Join(vs, ", ") + ")", bindCall: call})
				return t.wrapPre(pres, body)
			}
			return t.wrapPre(pres, t.count(&nLet{name: tuplePat(vs), term: call, body: body}))
		}
		if len(s.Results) != n {
			t.fail(s.Pos(), "return with %d values in a function with %d results", len(s.Results), n)
		}
		var terms []string
		var pres []pre
		for i, r := range s.Results {
			if isError(t.f.results[i]) {
				terms = append(terms, t.errExpr(r))
				continue
			}
			x, p := t.expr(r)
			terms = append(terms, x)
			pres = append(pres, p...)
		}
		return t.wrapPre(pres, t.retNode(terms))
	case *ast.BranchStmt:
		if s.Label != nil {
			t.fail(s.Pos(), "labelled %s is not supported", s.Tok)
		}
		switch s.Tok {
		case token.BREAK:
			if len(t.breakK) == 0 {
				t.fail(s.Pos(), "break outside switch/for")
			}
			return t.breakK[len(t.breakK)-1]()
		case token.CONTINUE:
			if len(t.contK) == 0 {
				t.fail(s.Pos(), "continue outside for")
			}
			return t.contK[len(t.contK)-1]()
		}
		t.fail(s.Pos(), "%s is not supported", s.Tok)
	case *ast.ForStmt:
		return t.forStmt(s, k)
	case *ast.ExprStmt:
		ce, ok := unparen(s.X).(*ast.CallExpr)
		if !ok {
			t.fail(s.Pos(), "expression statement that is not a call")
		}
		obj, _ := t.calleeOf(ce)
		if b, ok := obj.(*types.Builtin); ok && b.Name() == "panic" {
			// the argument is not translated: every panic is the same distinguished outcome
			t.sawPanic = true
			return t.count(&nLeaf{term: "Panic " + t.stateTerm()})
		}
		if o, ok := obj.(*types.Func); ok {
			if t.wl[o.Origin()] == nil && t.isNoOp(o) {
				for _, a := range ce.Args {
					if !t.pureArg(a) {
						t.fail(a.Pos(), "argument of the no-op call %s is not a plain variable, field or literal", o.Name())
					}
				}
				t.touch(t.ld.decls[o.Origin()].Pos(), "no-op callee "+o.Name()+" (empty body)")
				return k()
			}
			t.fail(s.Pos(), "call statement to %s: not a no-op (empty body in the production build) and calls for effect are not supported", o.FullName())
		}
		t.fail(s.Pos(), "call statement of an unsupported function")
	case *ast.IncDecStmt:
		name := t.lhs(s.X, false)
		cur, _ := t.expr(s.X)
		op := token.ADD
		if s.Tok == token.DEC {
			op = token.SUB
		}
		term, _ := t.arith(s.Pos(), op, t.typeOf(s.X), cur, "1", nil)
		return t.count(&nLet{name: name, term: term, body: k()})
	case *ast.AssignStmt:
		return t.assign(s, k)
	case *ast.DeclStmt:
		gd, ok := s.Decl.(*ast.GenDecl)
		if !ok || gd.Tok != token.VAR {
			t.fail(s.Pos(), "only var declarations are supported inside functions")
		}
		type bnd struct{ name, term string }
		var binds []bnd
		var pres []pre
		for _, sp := range gd.Specs {
			vs := sp.(*ast.ValueSpec)
			if len(vs.Values) != 0 && len(vs.Values) != len(vs.Names) {
				t.fail(vs.Pos(), "var declaration with a multi-value initialiser")
			}
			for i, nm := range vs.Names {
				var term string
				if len(vs.Values) != 0 {
					x, p := t.expr(vs.Values[i])
					term = x
					pres = append(pres, p...)
				}
				if nm.Name == "_" {
					continue
				}
				obj := t.info().Defs[nm]
				if obj == nil {
					t.fail(nm.Pos(), "no object for declared variable")
				}
				if len(vs.Values) == 0 {
					if isBool(obj.Type()) {
						term = "false"
					} else if _, ok := intSuffix(obj.Type()); ok {
						term = "0"
					} else {
						t.fail(nm.Pos(), "variable %s has unsupported type %s", nm.Name, obj.Type())
					}
				}
				binds = append(binds, bnd{t.allocChecked(nm, obj), term})
			}
		}
		body := k()
		for i := len(binds) - 1; i >= 0; i-- {
			body = t.count(&nLet{name: binds[i].name, term: binds[i].term, body: body})
		}
		return t.wrapPre(pres, body)
	case *ast.IfStmt:
		if s.Init != nil {
			t.fail(s.Pos(), "if with an init statement is not supported")
		}
		c, pres := t.expr(s.Cond)
		thn := t.block(s.Body.List, k)
		var els node
		if s.Else != nil {
			els = t.stmt(s.Else, k)
		} else {
			els = k()
		}
		return t.wrapPre(pres, t.count(&nIf{cond: c, thn: thn, els: els}))
	case *ast.SwitchStmt:
		return t.switchStmt(s, k)
	}
	t.fail(s.Pos(), "statement form %T not supported", s)
	return nil
}

// errExpr: a value of type error as a bool (true = non-nil): nil, a variable, or a call that a
// @nonnil directive declares to yield a non-nil error (its arguments are not translated).
func (t *tr) errExpr(e ast.Expr) string {
	e = unparen(e)
	if tv, ok := t.info().Types[e]; ok && tv.IsNil() {
		return "false"
	}
	switch x := e.(type) {
	case *ast.Ident:
		if v, ok := t.info().Uses[x].(*types.Var); ok {
			if n, ok := t.names[v]; ok && isError(v.Type()) {
				return n
			}
		}
	case *ast.CallExpr:
		if t.f.sp != nil && matchAny(t.f.sp.nonnils, x.Fun) {
			return "true"
		}
	}
	t.fail(e.Pos(), "error value of this form is not supported (nil, an error variable, or a call declared @nonnil)")
	return ""
}

// assignedIn: the Coq names (locals declared outside the node, assigned receiver fields, @out
// locations) assigned inside the given statements, in order of first assignment.
func (t *tr) assignedIn(nodes ...ast.Node) []string {
	var names []string
	seen := map[string]bool{}
	add := func(e ast.Expr, define bool) {
		var name string
		if b := t.f.findOut(e); b != nil {
			name = b.coq
		} else if id, ok := unparen(e).(*ast.Ident); ok {
			if id.Name == "_" {
				return
			}
			if define && t.info().Defs[id] != nil {
				return // declared inside
			}
			v, ok := t.info().Uses[id].(*types.Var)
			if !ok {
				return
			}
			n, ok := t.names[v]
			if !ok {
				return // declared inside the loop (not yet named) or not a local: reported when translated
			}
			name = n
		} else if path, _, ok := fieldChain(t.info(), t.f.recvObj, e); ok {
			if r := t.f.fields[strings.Join(path, ".")]; r != nil {
				name = r.coq
			}
		}
		if name != "" && !seen[name] {
			seen[name] = true
			names = append(names, name)
		}
	}
	for _, n := range nodes {
		if n == nil {
			continue
		}
		ast.Inspect(n, func(x ast.Node) bool {
			switch s := x.(type) {
			case *ast.AssignStmt:
				for _, l := range s.Lhs {
					add(l, s.Tok == token.DEFINE)
				}
			case *ast.IncDecStmt:
				add(s.X, false)
			}
			return true
		})
	}
	return names
}

// forStmt:  for i := lo; i < hi; i++ { body }  with i not assigned in the body and hi not depending
// on anything the loop assigns.  Translated with the fuelled combinator go_loop (GoSem.v); the fuel
// S (hi - lo) is one more than the number of iterations, so the Diverge outcome is unreachable
// (proved where the generated function is used, never assumed).
func (t *tr) forStmt(s *ast.ForStmt, k func() node) node {
	bad := func(why string) {
		t.fail(s.Pos(), "only loops of the form  for i := lo; i < hi; i++  are supported (%s)", why)
	}
	init, ok := s.Init.(*ast.AssignStmt)
	if !ok || init.Tok != token.DEFINE || len(init.Lhs) != 1 || len(init.Rhs) != 1 {
		bad("init statement")
	}
	ivar, ok := init.Lhs[0].(*ast.Ident)
	if !ok {
		bad("init statement")
	}
	cond, ok := s.Cond.(*ast.BinaryExpr)
	if !ok || cond.Op != token.LSS {
		bad("condition")
	}
	if cid, ok := unparen(cond.X).(*ast.Ident); !ok || cid.Name != ivar.Name {
		bad("condition")
	}
	post, ok := s.Post.(*ast.IncDecStmt)
	if !ok || post.Tok != token.INC {
		bad("post statement")
	}
	if pid, ok := unparen(post.X).(*ast.Ident); !ok || pid.Name != ivar.Name {
		bad("post statement")
	}
	t.f.hasLoop = true
	t.sawPanic = true // the result type must have the Diverge alternative
	return t.stmt(init, func() node {
		iname := t.names[t.info().Defs[ivar]]
		for _, n := range t.assignedIn(s.Body) {
			if n == iname {
				bad("the loop variable is assigned in the body")
			}
		}
		carried := t.assignedIn(s.Body, s.Post)
		isCarried := map[string]bool{}
		for _, c := range carried {
			isCarried[c] = true
		}
		hi, hpres := t.expr(cond.Y)
		if len(hpres) != 0 {
			bad("the bound can panic")
		}
		// the bound must not mention anything the loop assigns
		ast.Inspect(cond.Y, func(x ast.Node) bool {
			if e, ok := x.(ast.Expr); ok {
				if b := t.f.findOut(e); b != nil && isCarried[b.coq] {
					bad("the bound depends on a location assigned in the loop")
				}
				if id, ok := e.(*ast.Ident); ok {
					if v, ok := t.info().Uses[id].(*types.Var); ok && isCarried[t.names[v]] {
						bad("the bound depends on a variable assigned in the loop")
					}
				}
				if path, _, ok := fieldChain(t.info(), t.f.recvObj, e); ok {
					if r := t.f.fields[strings.Join(path, ".")]; r != nil && isCarried[r.coq] {
						bad("the bound depends on a field assigned in the loop")
					}
				}
			}
			return true
		})
		tuple := carried[0]
		pat := carried[0]
		if len(carried) > 1 {
			tuple = "(" + strings.Join(carried, ", ") + ")"
			pat = "'" + tuple
		}
		next, brk := t.fresh("next"), t.fresh("break")
		kNext := func() node {
			return t.stmt(post, func() node { return t.count(&nLeaf{term: next + " " + tuple}) })
		}
		t.breakK = append(t.breakK, func() node { return t.count(&nLeaf{term: brk + " " + tuple}) })
		t.contK = append(t.contK, kNext)
		body := t.block(s.Body.List, kNext)
		t.breakK = t.breakK[:len(t.breakK)-1]
		t.contK = t.contK[:len(t.contK)-1]
		exit := k()
		return t.count(&nLoop{
			fuel: fmt.Sprintf("(S (Z.to_nat (%s - %s)))", hi, iname), pat: pat, tuple: tuple,
			cond: fmt.Sprintf("(%s <? %s)", iname, hi), next: next, brk: brk, body: body, exit: exit})
	})
}

func (t *tr) allocChecked(id *ast.Ident, obj types.Object) string {
	if _, ok := coqType(obj.Type()); !ok {
		t.fail(id.Pos(), "variable %s has unsupported type %s", id.Name, obj.Type())
	}
	return t.alloc(obj, id.Name)
}

func (t *tr) assign(s *ast.AssignStmt, k func() node) node {
	switch s.Tok {
	case token.DEFINE, token.ASSIGN:
		define := s.Tok == token.DEFINE
		if len(s.Lhs) == len(s.Rhs) && len(s.Lhs) == 1 && t.f.sp != nil {
			dropped := matchAny(t.f.sp.drops, s.Lhs[0])
			if id, ok := unparen(s.Lhs[0]).(*ast.Ident); ok && define && t.f.sp.opaques[id.Name] {
				if obj := t.info().Defs[id]; obj != nil {
					if _, ok := coqType(obj.Type()); ok {
						t.fail(id.Pos(), "@opaque %s: the variable has a supported type, translate it instead", id.Name)
					}
					dropped = true
				}
			}
			if dropped {
				r := s.Rhs[0]
				tv := t.info().Types[r]
				if !(tv.IsNil() || tv.Value != nil || matchAny(t.f.sp.pures, r) || t.f.findBind(r) != nil || t.pureArg(r)) {
					t.fail(r.Pos(), "right-hand side of a dropped assignment must be nil, a constant, a variable or declared @pure")
				}
				return k()
			}
		}
		if len(s.Lhs) == len(s.Rhs) && len(s.Lhs) == 1 {
			x, pres := t.expr(s.Rhs[0])
			name := t.lhs(s.Lhs[0], define)
			return t.wrapPre(pres, t.count(&nLet{name: name, term: x, body: k()}))
		}
		if len(s.Lhs) == len(s.Rhs) {
			// parallel assignment: all right-hand sides first
			var tmps, terms []string
			var pres []pre
			for _, r := range s.Rhs {
				x, p := t.expr(r)
				terms = append(terms, x)
				pres = append(pres, p...)
				tmps = append(tmps, t.fresh("t"))
			}
			var names []string
			for _, l := range s.Lhs {
				names = append(names, t.lhs(l, define))
			}
			body := k()
			for i := len(names) - 1; i >= 0; i-- {
				body = t.count(&nLet{name: names[i], term: tmps[i], body: body})
			}
			for i := len(tmps) - 1; i >= 0; i-- {
				body = t.count(&nLet{name: tmps[i], term: terms[i], body: body})
			}
			return t.wrapPre(pres, body)
		}
		if len(s.Rhs) == 1 {
			call, pres, callee := t.multiCall(s.Rhs[0], len(s.Lhs))
			var names []string
			for _, l := range s.Lhs {
				names = append(names, t.lhs(l, define))
			}
			body := k()
			if callee.mayPanic {
				pres = append(pres, pre{bindPat: "(" + strings.Join(names, ", ") + ")", bindCall: call})
				return t.wrapPre(pres, body)
			}
			return t.wrapPre(pres, t.count(&nLet{name: tuplePat(names), term: call, body: body}))
		}
		t.fail(s.Pos(), "assignment with %d targets and %d values", len(s.Lhs), len(s.Rhs))
	default:
		ops := map[token.Token]token.Token{
			token.ADD_ASSIGN: token.ADD, token.SUB_ASSIGN: token.SUB, token.MUL_ASSIGN: token.MUL,
			token.QUO_ASSIGN: token.QUO, token.REM_ASSIGN: token.REM, token.AND_ASSIGN: token.AND,
			token.OR_ASSIGN: token.OR, token.XOR_ASSIGN: token.XOR, token.AND_NOT_ASSIGN: token.AND_NOT,
			token.SHL_ASSIGN: token.SHL, token.SHR_ASSIGN: token.SHR,
		}
		op, ok := ops[s.Tok]
		if !ok || len(s.Lhs) != 1 || len(s.Rhs) != 1 {
			t.fail(s.Pos(), "assignment operator %s not supported", s.Tok)
		}
		cur, _ := t.expr(s.Lhs[0])
		y, py := t.expr(s.Rhs[0])
		term, pa := t.arith(s.Pos(), op, t.typeOf(s.Lhs[0]), cur, y, s.Rhs[0])
		name := t.lhs(s.Lhs[0], false)
		return t.wrapPre(append(py, pa...), t.count(&nLet{name: name, term: term, body: k()}))
	}
	return nil
}

func (t *tr) switchStmt(s *ast.SwitchStmt, k func() node) node {
	if s.Init != nil {
		t.fail(s.Pos(), "switch with an init statement is not supported")
	}
	if s.Tag == nil {
		t.fail(s.Pos(), "switch without a tag is not supported")
	}
	tagT := t.typeOf(s.Tag)
	if _, ok := intSuffix(tagT); !ok {
		t.fail(s.Tag.Pos(), "switch on a value of unsupported type %s", tagT)
	}
	tag, pres := t.expr(s.Tag)
	tagVar := tag
	bindTag := false
	if _, isId := unparen(s.Tag).(*ast.Ident); !isId {
		tagVar = t.fresh("sw")
		bindTag = true
	}
	type arm struct {
		cond string
		body []ast.Stmt
	}
	var arms []arm
	var deflt []ast.Stmt
	hasDefault := false
	for _, c := range s.Body.List {
		cc := c.(*ast.CaseClause)
		for _, st := range cc.Body {
			ast.Inspect(st, func(n ast.Node) bool {
				if b, ok := n.(*ast.BranchStmt); ok && b.Tok == token.FALLTHROUGH {
					t.fail(b.Pos(), "fallthrough is not supported")
				}
				return true
			})
		}
		if cc.List == nil {
			hasDefault = true
			deflt = cc.Body
			continue
		}
		var conds []string
		for _, v := range cc.List {
			tv := t.info().Types[v]
			if tv.Value == nil {
				t.fail(v.Pos(), "switch case that is not a constant")
			}
			conds = append(conds, fmt.Sprintf("(%s =? %s)", tagVar, t.constant(v, tv)))
		}
		cond := conds[0]
		if len(conds) > 1 {
			cond = "(" + strings.Join(conds, " || ") + ")"
		}
		arms = append(arms, arm{cond, cc.Body})
	}
	// Go requires the constant cases of one switch to be distinct, so the order of the tests is
	// irrelevant; the default arm (wherever it is written) is taken when no case matches.
	var build func(i int) node
	build = func(i int) node {
		if i == len(arms) {
			if hasDefault {
				return t.block(deflt, k)
			}
			return k()
		}
		thn := t.block(arms[i].body, k)
		return t.count(&nIf{cond: arms[i].cond, thn: thn, els: build(i + 1)})
	}
	t.breakK = append(t.breakK, k) // break leaves the switch: the statements after it follow
	body := build(0)
	t.breakK = t.breakK[:len(t.breakK)-1]
	if bindTag {
		body = t.count(&nLet{name: tagVar, term: tag, body: body})
	}
	return t.wrapPre(pres, body)
}

// ---------------------------------------------------------------- one function

func (t *tr) resultType() string {
	var l []string
	for _, r := range t.f.results {
		c, _ := coqType(r)
		l = append(l, c)
	}
	for _, r := range t.f.stateVars() {
		c, _ := coqType(r.typ)
		l = append(l, c)
	}
	var a string
	switch len(l) {
	case 0:
		a = "unit"
	case 1:
		a = l[0]
	default:
		a = "(" + strings.Join(l, " * ") + ")%type"
	}
	if !t.assumePanic {
		return a
	}
	var m []string
	for _, r := range t.f.stateVars() {
		c, _ := coqType(r.typ)
		m = append(m, c)
	}
	var st string
	switch len(m) {
	case 0:
		st = "unit"
	case 1:
		st = m[0]
	default:
		st = "(" + strings.Join(m, " * ") + ")%type"
	}
	return fmt.Sprintf("outcome %s %s", a, st)
}

// translate produces the Definition text; mayPanic decides the shape of the result.
func translate(ld *loader, f *fn, wl map[types.Object]*fn, globalNames map[string]bool, assumePanic bool, touched map[string]string) (string, bool) {
	t := &tr{ld: ld, f: f, wl: wl, names: map[types.Object]string{}, used: map[string]bool{}, assumePanic: assumePanic, touched: touched}
	for n := range globalNames {
		t.used[n] = true
	}
	var params []string
	// receiver fields first (declaration order), then the Go parameters
	for _, r := range f.sortedFields() {
		r.coq = "" // recomputed below
	}
	recvName := ""
	if f.recvObj != nil {
		recvName = f.recvObj.Name()
	}
	for _, r := range f.sortedFields() {
		r.coq = t.alloc(nil, recvName+"_"+strings.Join(r.path, "_"))
		c, _ := coqType(r.typ)
		params = append(params, fmt.Sprintf("(%s : %s)", r.coq, c))
	}
	// abstraction parameters: @bind, @list, @out (whitelist order)
	if f.sp != nil {
		for _, b := range f.sp.binds {
			b.coq = t.alloc(nil, b.name)
			c, _ := coqType(b.typ)
			params = append(params, fmt.Sprintf("(%s : %s)", b.coq, c))
		}
		for _, l := range f.sp.lists {
			l.coq = t.alloc(nil, l.name)
			params = append(params, fmt.Sprintf("(%s : list Z)", l.coq))
		}
		for _, b := range f.sp.outs {
			b.coq = t.alloc(nil, b.name)
			c, _ := coqType(b.typ)
			params = append(params, fmt.Sprintf("(%s : %s)", b.coq, c))
		}
	}
	sig := f.obj.Type().(*types.Signature)
	i := 0
	for _, fld := range f.decl.Type.Params.List {
		if len(fld.Names) == 0 {
			v := sig.Params().At(i)
			c, ok := coqType(v.Type())
			if !ok {
				if !f.sp.empty() {
					i++
					continue
				}
				t.fail(fld.Pos(), "parameter of unsupported type %s", v.Type())
			}
			params = append(params, fmt.Sprintf("(%s : %s)", t.alloc(nil, "arg"), c))
			i++
			continue
		}
		for _, nm := range fld.Names {
			v := sig.Params().At(i)
			c, ok := coqType(v.Type())
			if !ok && !f.sp.empty() {
				// a parameter that is only used through the directives (pointer, struct, ...): it does
				// not become a Coq parameter; any direct use is rejected where it occurs
				i++
				continue
			}
			if !ok {
				t.fail(nm.Pos(), "parameter %s of unsupported type %s", nm.Name, v.Type())
			}
			var obj types.Object = t.info().Defs[nm]
			if nm.Name == "_" {
				obj = nil
			}
			params = append(params, fmt.Sprintf("(%s : %s)", t.alloc(obj, nm.Name), c))
			i++
		}
	}
	for _, r := range f.results {
		if _, ok := coqType(r); !ok {
			t.fail(f.decl.Pos(), "result of unsupported type %s", r)
		}
	}
	// named results are locals that start at their zero value
	type zinit struct{ name, zero string }
	var zinits []zinit
	f.named = nil
	if f.decl.Type.Results != nil {
		for _, fld := range f.decl.Type.Results.List {
			for _, nm := range fld.Names {
				obj, _ := t.info().Defs[nm].(*types.Var)
				if obj == nil || nm.Name == "_" {
					t.fail(nm.Pos(), "blank or unresolved named result")
				}
				zero := "0"
				if c, _ := coqType(obj.Type()); c == "bool" {
					zero = "false"
				}
				zinits = append(zinits, zinit{t.alloc(obj, nm.Name), zero})
				f.named = append(f.named, obj)
			}
		}
	}
	body := t.block(f.decl.Body.List, func() node {
		if len(f.results) != 0 {
			t.fail(f.decl.End(), "control reaches the end of a function with results")
		}
		return t.retNode(nil)
	})
	for i := len(zinits) - 1; i >= 0; i-- {
		body = &nLet{name: zinits[i].name, term: zinits[i].zero, body: body}
	}
	var sb strings.Builder
	fmt.Fprintf(&sb, "Definition %s", f.coq)
	for _, p := range params {
		sb.WriteString(" " + p)
	}
	fmt.Fprintf(&sb, " : %s :=\n", t.resultType())
	printNode(&sb, body, "  ")
	sb.WriteString(".\n")
	return sb.String(), t.sawPanic
}
