package main

// C constants.  The Vulkan wrapper packages define their Go constants through cgo
// (`MemoryPropertyDeviceLocal MemoryPropertyFlags = C.VK_MEMORY_PROPERTY_DEVICE_LOCAL_BIT`).  cgo is
// not run here.  Instead, exactly as cgo does for enumerators and integer macros, every `C.NAME`
// inside a const declaration is replaced by the integer literal found for NAME in the C headers that
// the file's cgo preamble includes (`#include "../common/vulkan.h"`, followed recursively through
// the quoted #include lines; the headers are vendored in the module, nothing outside the module
// cache is read).  A name that is not found, or that has two different values in the included
// headers, is left alone: the Go constant then has no value and any use of it by a whitelisted
// function is fatal.

import (
	"go/ast"
	"go/token"
	"os"
	"path/filepath"
	"regexp"
	"strconv"
	"strings"
)

type cval struct {
	lit  string // literal as written (decimal or 0x..)
	file string
	bad  bool // conflicting definitions
}

var (
	reInclude = regexp.MustCompile(`(?m)^\s*#\s*include\s+"([^"]+)"`)
	reEnum    = regexp.MustCompile(`(?m)^\s*([A-Za-z_][A-Za-z0-9_]*)\s*=\s*(0[xX][0-9A-Fa-f]+|-?[0-9]+|[A-Za-z_][A-Za-z0-9_]*)\s*,?\s*(?://.*)?$`)
	reDefine  = regexp.MustCompile(`(?m)^\s*#\s*define\s+([A-Za-z_][A-Za-z0-9_]*)\s+\(?\s*(0[xX][0-9A-Fa-f]+|-?[0-9]+)[uUlL]*\s*\)?\s*(?://.*)?$`)
)

// headerConsts parses the headers reachable from the given ones.
var headerCache = map[string]map[string]*cval{}

func headerConsts(start []string) map[string]*cval {
	key := strings.Join(start, "\x00")
	if v, ok := headerCache[key]; ok {
		return v
	}
	v := headerConstsUncached(start)
	headerCache[key] = v
	return v
}

func headerConstsUncached(start []string) map[string]*cval {
	vals := map[string]*cval{}
	alias := map[string][2]string{} // name -> (other name, file)
	seen := map[string]bool{}
	var visit func(h string)
	visit = func(h string) {
		if seen[h] {
			return
		}
		seen[h] = true
		b, err := os.ReadFile(h)
		if err != nil {
			return // platform headers that are not vendored
		}
		txt := string(b)
		add := func(name, lit string) {
			if v, ok := vals[name]; ok {
				a, e1 := strconv.ParseInt(v.lit, 0, 64)
				c, e2 := strconv.ParseInt(lit, 0, 64)
				if e1 != nil || e2 != nil || a != c {
					v.bad = true
				}
				return
			}
			vals[name] = &cval{lit: lit, file: h}
		}
		for _, m := range reEnum.FindAllStringSubmatch(txt, -1) {
			if c := m[2][0]; c == '-' || (c >= '0' && c <= '9') {
				add(m[1], m[2])
			} else {
				alias[m[1]] = [2]string{m[2], h}
			}
		}
		for _, m := range reDefine.FindAllStringSubmatch(txt, -1) {
			add(m[1], m[2])
		}
		for _, m := range reInclude.FindAllStringSubmatch(txt, -1) {
			visit(filepath.Join(filepath.Dir(h), filepath.FromSlash(m[1])))
		}
	}
	for _, h := range start {
		visit(h)
	}
	// enumerator aliases (VK_X_KHR = VK_X), a few rounds
	for round := 0; round < 4; round++ {
		for name, a := range alias {
			if _, ok := vals[name]; ok {
				continue
			}
			if v, ok := vals[a[0]]; ok && !v.bad {
				vals[name] = &cval{lit: v.lit, file: a[1]}
			}
		}
	}
	return vals
}

// substCConsts rewrites C.NAME inside const declarations of an external package.
func (ld *loader) substCConsts(p *pkgInfo) {
	if !p.external {
		return
	}
	for i, f := range p.files {
		var preamble string
		for _, d := range f.Decls {
			gd, ok := d.(*ast.GenDecl)
			if !ok || gd.Tok != token.IMPORT {
				continue
			}
			for _, sp := range gd.Specs {
				is := sp.(*ast.ImportSpec)
				if is.Path.Value != `"C"` {
					continue
				}
				if is.Doc != nil {
					preamble += is.Doc.Text()
				} else if gd.Doc != nil {
					preamble += gd.Doc.Text()
				}
			}
		}
		if preamble == "" {
			continue
		}
		var start []string
		for _, m := range reInclude.FindAllStringSubmatch(preamble, -1) {
			start = append(start, filepath.Join(filepath.Dir(p.names[i]), filepath.FromSlash(m[1])))
		}
		if len(start) == 0 {
			continue
		}
		var vals map[string]*cval // parsed lazily
		for _, d := range f.Decls {
			gd, ok := d.(*ast.GenDecl)
			if !ok || gd.Tok != token.CONST {
				continue
			}
			for _, sp := range gd.Specs {
				vs := sp.(*ast.ValueSpec)
				for j, v := range vs.Values {
					se, ok := v.(*ast.SelectorExpr)
					if !ok {
						continue
					}
					id, ok := se.X.(*ast.Ident)
					if !ok || id.Name != "C" {
						continue
					}
					if vals == nil {
						vals = headerConsts(start)
					}
					cv, ok := vals[se.Sel.Name]
					if !ok || cv.bad {
						continue
					}
					lit := cv.lit
					var repl ast.Expr = &ast.BasicLit{ValuePos: se.Pos(), Kind: token.INT, Value: strings.TrimPrefix(lit, "-")}
					if strings.HasPrefix(lit, "-") {
						repl = &ast.UnaryExpr{OpPos: se.Pos(), Op: token.SUB, X: repl}
					}
					vs.Values[j] = repl
					if j < len(vs.Names) {
						ld.cOrigin[vs.Names[j].Pos()] = cv.file
					}
				}
			}
		}
	}
}
