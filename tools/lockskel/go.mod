module verif/lockskel

go 1.25
