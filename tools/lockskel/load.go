package main

// Loading: parse the three packages of vam with go/parser and type-check them with go/types.
// Every import that is not one of the three packages is replaced by a STUB package (no source of a
// dependency is read, no cgo package is loaded, nothing is fetched): each name that the sources
// select from such a package is declared there as an opaque named type.  Type errors are expected
// and ignored; what we need from go/types is the resolution of selectors to struct fields and to
// methods of the three packages (types.Info.Selections / Uses), which does not depend on the stubs.

import (
	"fmt"
	"go/ast"
	"go/build/constraint"
	"go/constant"
	"go/parser"
	"go/token"
	"go/types"
	"os"
	"path/filepath"
	"sort"
	"strings"
)

type pkgInfo struct {
	dir   string // directory
	rel   string // path relative to the source root, for messages ("" = root)
	name  string // short name used in function names: vam, vulkan, utils
	files []*ast.File
	tpkg  *types.Package
	info  *types.Info
}

type loader struct {
	fset  *token.FileSet
	pkgs  []*pkgInfo // utils, vulkan, vam (dependency order)
	stubs map[string]*types.Package
	// names selected from each stub import path
	stubNames map[string]map[string]bool
	// names used as array lengths ([common.MaxMemoryHeaps]T): declared as constants
	stubConsts map[string]map[string]bool
}

func fatalf(format string, args ...any) {
	fmt.Fprintf(os.Stderr, "lockskel: FATAL: "+format+"\n", args...)
	os.Exit(2)
}

// buildTagsOK evaluates the //go:build line of a file for a default build (no custom tags).
func buildTagsOK(f *ast.File) bool {
	for _, cg := range f.Comments {
		if cg.Pos() >= f.Package {
			break
		}
		for _, c := range cg.List {
			if !constraint.IsGoBuild(c.Text) {
				continue
			}
			expr, err := constraint.Parse(c.Text)
			if err != nil {
				fatalf("cannot parse build constraint %q", c.Text)
			}
			return expr.Eval(func(tag string) bool {
				switch {
				case tag == "linux" || tag == "amd64" || tag == "cgo" || tag == "unix":
					return true
				case strings.HasPrefix(tag, "go1."):
					return true
				}
				return false // in particular: verif, debug_mem_utils
			})
		}
	}
	return true
}

func lastElem(path string) string {
	parts := strings.Split(path, "/")
	n := len(parts)
	last := parts[n-1]
	if n > 1 && len(last) >= 2 && last[0] == 'v' && strings.Trim(last[1:], "0123456789") == "" {
		last = parts[n-2]
	}
	return last
}

func (ld *loader) parseDir(dir, rel, name string) *pkgInfo {
	ents, err := os.ReadDir(dir)
	if err != nil {
		fatalf("cannot read %s: %v", dir, err)
	}
	p := &pkgInfo{dir: dir, rel: rel, name: name}
	var names []string
	for _, e := range ents {
		n := e.Name()
		if e.IsDir() || !strings.HasSuffix(n, ".go") || strings.HasSuffix(n, "_test.go") {
			continue
		}
		names = append(names, n)
	}
	sort.Strings(names)
	for _, n := range names {
		f, err := parser.ParseFile(ld.fset, filepath.Join(dir, n), nil, parser.ParseComments|parser.SkipObjectResolution)
		if err != nil {
			fatalf("parse error: %v", err)
		}
		if !buildTagsOK(f) {
			fmt.Fprintf(os.Stderr, "lockskel: skipping %s (build constraint not satisfied in a default build)\n", filepath.Join(rel, n))
			continue
		}
		p.files = append(p.files, f)
	}
	if len(p.files) == 0 {
		fatalf("no Go files in %s", dir)
	}
	return p
}

// collectStubNames records, for every import of a package that is not local, which names are
// selected from it.
func (ld *loader) collectStubNames(local map[string]*pkgInfo) {
	for _, p := range ld.pkgs {
		for _, f := range p.files {
			byName := map[string]string{}
			for _, is := range f.Imports {
				path := strings.Trim(is.Path.Value, "\"")
				if isLocal(path, local) != nil || path == "unsafe" {
					continue
				}
				nm := lastElem(path)
				if is.Name != nil {
					nm = is.Name.Name
				}
				byName[nm] = path
				if ld.stubNames[path] == nil {
					ld.stubNames[path] = map[string]bool{}
				}
			}
			ast.Inspect(f, func(n ast.Node) bool {
				if at, ok := n.(*ast.ArrayType); ok && at.Len != nil {
					if se, ok := at.Len.(*ast.SelectorExpr); ok {
						if id, ok := se.X.(*ast.Ident); ok {
							if path, ok := byName[id.Name]; ok {
								if ld.stubConsts[path] == nil {
									ld.stubConsts[path] = map[string]bool{}
								}
								ld.stubConsts[path][se.Sel.Name] = true
							}
						}
					}
				}
				if se, ok := n.(*ast.SelectorExpr); ok {
					if id, ok := se.X.(*ast.Ident); ok {
						if path, ok := byName[id.Name]; ok {
							ld.stubNames[path][se.Sel.Name] = true
						}
					}
				}
				return true
			})
		}
	}
}

func isLocal(path string, local map[string]*pkgInfo) *pkgInfo {
	for suffix, p := range local {
		if path == suffix || strings.HasSuffix(path, "/"+suffix) {
			return p
		}
	}
	return nil
}

type stubImporter struct {
	ld    *loader
	local map[string]*pkgInfo
}

func (si *stubImporter) Import(path string) (*types.Package, error) {
	if path == "unsafe" {
		return types.Unsafe, nil
	}
	if p := isLocal(path, si.local); p != nil {
		if p.tpkg == nil {
			return nil, fmt.Errorf("local package %s not yet checked", path)
		}
		return p.tpkg, nil
	}
	if sp, ok := si.ld.stubs[path]; ok {
		return sp, nil
	}
	sp := types.NewPackage(path, lastElem(path))
	var names []string
	for n := range si.ld.stubNames[path] {
		names = append(names, n)
	}
	sort.Strings(names)
	for _, n := range names {
		if si.ld.stubConsts[path][n] {
			// the value is irrelevant for us; it only has to make the array type valid
			sp.Scope().Insert(types.NewConst(token.NoPos, sp, n, types.Typ[types.Int], constant.MakeInt64(32)))
			continue
		}
		tn := types.NewTypeName(token.NoPos, sp, n, nil)
		types.NewNamed(tn, types.NewStruct(nil, nil), nil)
		sp.Scope().Insert(tn)
	}
	sp.MarkComplete()
	si.ld.stubs[path] = sp
	return sp, nil
}

func load(root string) *loader {
	ld := &loader{fset: token.NewFileSet(), stubs: map[string]*types.Package{}, stubNames: map[string]map[string]bool{}, stubConsts: map[string]map[string]bool{}}
	utils := ld.parseDir(filepath.Join(root, "internal", "utils"), "internal/utils", "utils")
	vulkan := ld.parseDir(filepath.Join(root, "internal", "vulkan"), "internal/vulkan", "vulkan")
	vam := ld.parseDir(root, "", "vam")
	ld.pkgs = []*pkgInfo{utils, vulkan, vam}
	local := map[string]*pkgInfo{"vam/internal/utils": utils, "vam/internal/vulkan": vulkan}
	ld.collectStubNames(local)
	imp := &stubImporter{ld: ld, local: local}
	nerr := 0
	for _, p := range ld.pkgs {
		p.info = &types.Info{
			Types:      map[ast.Expr]types.TypeAndValue{},
			Defs:       map[*ast.Ident]types.Object{},
			Uses:       map[*ast.Ident]types.Object{},
			Selections: map[*ast.SelectorExpr]*types.Selection{},
		}
		conf := types.Config{
			Importer:    imp,
			Error:       func(err error) { nerr++ },
			FakeImportC: true,
		}
		tp, _ := conf.Check("vam/"+p.rel, ld.fset, p.files, p.info)
		if tp == nil {
			fatalf("type checker returned no package for %s", p.dir)
		}
		p.tpkg = tp
	}
	fmt.Fprintf(os.Stderr, "lockskel: type-checked with stub imports (%d expected type errors ignored)\n", nerr)
	return ld
}
