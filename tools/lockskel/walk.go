package main

// Walk: per function, the sequence of lock operations, tracked-field accesses and calls of
// functions of the three packages, in source order; deferred operations are moved to the end of
// the body (last in, first out).  Anything lock-relevant that the walker does not understand is a
// fatal error (exit 2): see LOCKSKEL.md for the list.

import (
	"fmt"
	"go/ast"
	"go/token"
	"go/types"
	"os"
	"sort"
	"strings"
)

// ---- the tables that are not derived from the source ---------------------------------------

// lock (by "Struct.field") -> fields it protects (by "Struct.field").  A lock field found in the
// source that is missing here is a fatal error.  Fields of sync/atomic type are found automatically.
var protects = []struct {
	lock   string
	fields []string
}{
	{"Allocator.poolsMutex", []string{"Allocator.pools", "Allocator.nextPoolId", "Pool.next", "Pool.prev"}},
	{"memoryBlockList.mutex", []string{"memoryBlockList.blocks", "memoryBlockList.nextBlockId", "memoryBlockList.incrementalSort"}},
	{"dedicatedAllocationList.mutex", []string{"dedicatedAllocationList.count", "dedicatedAllocationList.allocationListHead", "dedicatedAllocationList.allocationListTail", "dedicatedData.nextAlloc", "dedicatedData.prevAlloc"}},
	{"SynchronizedMemory.mapMutex", []string{"SynchronizedMemory.mapReferences", "SynchronizedMemory.mapData", "SynchronizedMemory.delayCounter", "SynchronizedMemory.statusCounter", "SynchronizedMemory.extraMapping"}},
	{"DeviceMemoryProperties.budgetMutex", []string{"DeviceMemoryProperties.vulkanUsage", "DeviceMemoryProperties.vulkanBudget", "DeviceMemoryProperties.blockBytesAtBudgetFetch"}},
	{"Allocation.mapLock", nil},
}

var lockOps = map[string]bool{"Lock": true, "Unlock": true, "RLock": true, "RUnlock": true}
var lockishOps = map[string]bool{"Lock": true, "Unlock": true, "RLock": true, "RUnlock": true, "TryLock": true, "TryRLock": true}

// ---- model -----------------------------------------------------------------------------------

type lockInfo struct {
	id       int
	name     string
	rw       bool
	v        *types.Var
	enabled  bool
	enableAt []string // file:line of the places that set UseMutex
	rank     int
	initMeth map[*types.Func]bool // methods of the holder type that set UseMutex on this lock
}

type fieldInfo struct {
	id     int
	name   string
	lock   int // -1: atomic
	v      *types.Var
	atomic bool
}

const (
	evLock = iota
	evUnlock
	evAcc
	evCall
)

type event struct {
	kind     int
	a        int  // lock id / field id / callee id
	read     bool // lock mode MR
	acc      int  // 0 Rd 1 Wr 2 At
	deferred bool
	line     int
	disabled bool
	note     string
}

type funcInfo struct {
	id     int
	name   string
	file   string
	line   int
	decl   *ast.FuncDecl
	pkg    *pkgInfo
	obj    *types.Func
	body   []event
	entry  bool
	wraps  bool // single lock operation wrapper (leaves the lock state changed)
	nlocks int
}

type extractor struct {
	ld        *loader
	locks     []*lockInfo
	lockByVar map[*types.Var]*lockInfo
	fields    []*fieldInfo
	fieldBy   map[*types.Var]*fieldInfo
	funcs     []*funcInfo
	funcBy    map[*types.Func]*funcInfo
	varName   map[*types.Var]string       // struct field -> "Struct.field"
	holder    map[*types.Var]*types.Named // struct field -> owning named struct type
	methods   map[string][]*funcInfo      // method name -> local methods
	ifaceImpl map[*types.Func][]*funcInfo
	notes     []string // things reported in the generated file and on stderr
	ambiguous []string
	byNameRes []string
}

func (x *extractor) pos(p token.Pos) string {
	ps := x.ld.fset.Position(p)
	return fmt.Sprintf("%s:%d", x.relFile(ps.Filename), ps.Line)
}

func (x *extractor) relFile(fn string) string {
	root := x.ld.pkgs[2].dir
	if strings.HasPrefix(fn, root+"/") {
		return "vam/" + fn[len(root)+1:]
	}
	return fn
}

func (x *extractor) line(p token.Pos) int { return x.ld.fset.Position(p).Line }

func (x *extractor) fail(p token.Pos, format string, args ...any) {
	fmt.Fprintf(os.Stderr, "lockskel: NOT UNDERSTOOD at %s: %s\n", x.pos(p), fmt.Sprintf(format, args...))
	os.Exit(2)
}

func typeExprString(e ast.Expr) string { return types.ExprString(e) }

// isOptionalMutexType reports whether a field type expression is utils.OptionalMutex / OptionalRWMutex
func isOptionalMutexType(e ast.Expr) (ok, rw bool) {
	s := typeExprString(e)
	switch s {
	case "utils.OptionalMutex":
		return true, false
	case "utils.OptionalRWMutex":
		return true, true
	}
	return false, false
}

func isAtomicType(e ast.Expr) bool {
	s := typeExprString(e)
	// atomic.Int32, [N]atomic.Int64, atomic.Pointer[T]
	for strings.HasPrefix(s, "[") {
		i := strings.Index(s, "]")
		s = s[i+1:]
	}
	return strings.HasPrefix(s, "atomic.")
}

func isRawMutexType(e ast.Expr) bool {
	s := typeExprString(e)
	s = strings.TrimPrefix(s, "*")
	return s == "sync.Mutex" || s == "sync.RWMutex"
}

// discover: struct fields, locks, atomic fields, tracked fields, functions
func (x *extractor) discover() {
	x.lockByVar = map[*types.Var]*lockInfo{}
	x.fieldBy = map[*types.Var]*fieldInfo{}
	x.funcBy = map[*types.Func]*funcInfo{}
	x.varName = map[*types.Var]string{}
	x.holder = map[*types.Var]*types.Named{}
	x.methods = map[string][]*funcInfo{}
	want := map[string]int{}
	lockOf := map[string]string{}
	for i, p := range protects {
		want[p.lock] = i
		for _, f := range p.fields {
			lockOf[f] = p.lock
		}
	}
	type pending struct {
		name string
		v    *types.Var
	}
	var tracked []pending
	var atomics []pending
	foundLocks := map[string]*lockInfo{}
	for _, p := range x.ld.pkgs {
		for _, f := range p.files {
			for _, d := range f.Decls {
				gd, ok := d.(*ast.GenDecl)
				if !ok {
					continue
				}
				for _, sp := range gd.Specs {
					ts, ok := sp.(*ast.TypeSpec)
					if !ok {
						// package-level variables of mutex type are not understood
						if vs, ok := sp.(*ast.ValueSpec); ok && vs.Type != nil {
							if o, _ := isOptionalMutexType(vs.Type); o || isRawMutexType(vs.Type) {
								x.fail(vs.Pos(), "package-level mutex variable")
							}
						}
						continue
					}
					st, ok := ts.Type.(*ast.StructType)
					if !ok {
						continue
					}
					tn, _ := p.info.Defs[ts.Name].(*types.TypeName)
					var named *types.Named
					if tn != nil {
						named, _ = tn.Type().(*types.Named)
					}
					for _, fl := range st.Fields.List {
						if len(fl.Names) == 0 {
							if o, _ := isOptionalMutexType(fl.Type); o || isRawMutexType(fl.Type) {
								x.fail(fl.Pos(), "embedded mutex in struct %s", ts.Name.Name)
							}
							continue
						}
						for _, nm := range fl.Names {
							v, _ := p.info.Defs[nm].(*types.Var)
							if v == nil {
								continue
							}
							full := ts.Name.Name + "." + nm.Name
							x.varName[v] = full
							x.holder[v] = named
							if isRawMutexType(fl.Type) {
								if p.name == "utils" && (ts.Name.Name == "OptionalMutex" || ts.Name.Name == "OptionalRWMutex") {
									continue
								}
								x.fail(fl.Pos(), "raw sync mutex field %s (only utils.OptionalMutex/OptionalRWMutex fields are understood)", full)
							}
							if o, rw := isOptionalMutexType(fl.Type); o {
								if _, ok := want[full]; !ok {
									x.fail(fl.Pos(), "lock field %s is not in the table of known locks (tools/lockskel/walk.go: protects)", full)
								}
								li := &lockInfo{name: full, rw: rw, v: v, initMeth: map[*types.Func]bool{}}
								foundLocks[full] = li
								x.lockByVar[v] = li
								continue
							}
							if isAtomicType(fl.Type) {
								atomics = append(atomics, pending{full, v})
								continue
							}
							if _, ok := lockOf[full]; ok {
								tracked = append(tracked, pending{full, v})
							}
						}
					}
				}
			}
		}
	}
	// locks in table order
	for _, p := range protects {
		li := foundLocks[p.lock]
		if li == nil {
			fatalf("lock %s of the table was not found in the source", p.lock)
		}
		li.id = len(x.locks)
		x.locks = append(x.locks, li)
	}
	// fields: table order, then atomics
	byName := map[string]*types.Var{}
	for _, t := range tracked {
		byName[t.name] = t.v
	}
	for _, p := range protects {
		for _, f := range p.fields {
			v := byName[f]
			if v == nil {
				fatalf("field %s of the table was not found in the source", f)
			}
			fi := &fieldInfo{id: len(x.fields), name: f, lock: foundLocks[p.lock].id, v: v}
			x.fields = append(x.fields, fi)
			x.fieldBy[v] = fi
		}
	}
	sort.Slice(atomics, func(i, j int) bool { return atomics[i].name < atomics[j].name })
	for _, a := range atomics {
		fi := &fieldInfo{id: len(x.fields), name: a.name, lock: -1, v: a.v, atomic: true}
		x.fields = append(x.fields, fi)
		x.fieldBy[a.v] = fi
	}
	// functions
	for _, p := range x.ld.pkgs {
		for _, f := range p.files {
			for _, d := range f.Decls {
				fd, ok := d.(*ast.FuncDecl)
				if !ok || fd.Body == nil {
					continue
				}
				obj, _ := p.info.Defs[fd.Name].(*types.Func)
				if obj == nil {
					continue
				}
				name := p.name + "."
				recvExported := true
				if fd.Recv != nil && len(fd.Recv.List) > 0 {
					rt := fd.Recv.List[0].Type
					if st, ok := rt.(*ast.StarExpr); ok {
						rt = st.X
					}
					rn := typeExprString(rt)
					if i := strings.Index(rn, "["); i >= 0 {
						rn = rn[:i]
					}
					name += rn + "."
					recvExported = ast.IsExported(rn)
				}
				if fd.Name.Name == "init" && fd.Recv == nil {
					name += fmt.Sprintf("init#%d", x.line(fd.Pos()))
				} else {
					name += fd.Name.Name
				}
				fi := &funcInfo{id: len(x.funcs), name: name, file: x.relFile(x.ld.fset.Position(fd.Pos()).Filename), line: x.line(fd.Pos()), decl: fd, pkg: p, obj: obj}
				fi.entry = p.name == "vam" && ast.IsExported(fd.Name.Name) && recvExported
				x.funcs = append(x.funcs, fi)
				x.funcBy[obj] = fi
				if fd.Recv != nil {
					x.methods[fd.Name.Name] = append(x.methods[fd.Name.Name], fi)
				}
			}
		}
	}
}

// ---- which locks are ever switched on ---------------------------------------------------------

// A lock is ENABLED if somewhere UseMutex of that field is set from something other than the
// constant false: a composite literal  T{..., lockfield: utils.OptionalX{UseMutex: e}}, an assignment
// recv.lockfield = utils.OptionalX{UseMutex: e}, or recv.lockfield.UseMutex = e.
func (x *extractor) findEnables() {
	for _, p := range x.ld.pkgs {
		for _, f := range p.files {
			var curFunc *ast.FuncDecl
			ast.Inspect(f, func(n ast.Node) bool {
				switch n := n.(type) {
				case *ast.FuncDecl:
					curFunc = n
				case *ast.CompositeLit:
					for _, el := range n.Elts {
						kv, ok := el.(*ast.KeyValueExpr)
						if !ok {
							continue
						}
						kid, ok := kv.Key.(*ast.Ident)
						if !ok {
							continue
						}
						v, _ := p.info.Uses[kid].(*types.Var)
						if v == nil {
							continue
						}
						if li := x.lockByVar[v]; li != nil && setsUseMutex(kv.Value) {
							li.enabled = true
							li.enableAt = append(li.enableAt, x.pos(kv.Pos()))
						}
					}
				case *ast.AssignStmt:
					for i, lhs := range n.Lhs {
						if i >= len(n.Rhs) {
							break
						}
						se, ok := lhs.(*ast.SelectorExpr)
						if !ok {
							continue
						}
						// recv.lock = utils.OptionalX{UseMutex: e}
						if li := x.lockOfSelector(p, se); li != nil && setsUseMutex(n.Rhs[i]) {
							li.enabled = true
							li.enableAt = append(li.enableAt, x.pos(n.Pos()))
							if curFunc != nil {
								if obj, _ := p.info.Defs[curFunc.Name].(*types.Func); obj != nil {
									li.initMeth[obj] = true
								}
							}
						}
						// recv.lock.UseMutex = e
						if se.Sel.Name == "UseMutex" {
							if inner, ok := se.X.(*ast.SelectorExpr); ok {
								if li := x.lockOfSelector(p, inner); li != nil && !isFalse(n.Rhs[i]) {
									li.enabled = true
									li.enableAt = append(li.enableAt, x.pos(n.Pos()))
									if curFunc != nil {
										if obj, _ := p.info.Defs[curFunc.Name].(*types.Func); obj != nil {
											li.initMeth[obj] = true
										}
									}
								}
							}
						}
					}
				}
				return true
			})
		}
	}
}

func isFalse(e ast.Expr) bool {
	id, ok := e.(*ast.Ident)
	return ok && id.Name == "false"
}

func setsUseMutex(e ast.Expr) bool {
	cl, ok := e.(*ast.CompositeLit)
	if !ok {
		return false
	}
	if o, _ := isOptionalMutexType(cl.Type); !o {
		return false
	}
	for _, el := range cl.Elts {
		if kv, ok := el.(*ast.KeyValueExpr); ok {
			if id, ok := kv.Key.(*ast.Ident); ok && id.Name == "UseMutex" && !isFalse(kv.Value) {
				return true
			}
		}
	}
	return false
}

// lockOfSelector: the lock a selector expression denotes, by type information, or (when the
// receiver's type is not known because it flows through a stub package) by field name if that
// name belongs to exactly one lock.
func (x *extractor) lockOfSelector(p *pkgInfo, se *ast.SelectorExpr) *lockInfo {
	if sel := p.info.Selections[se]; sel != nil {
		if v, ok := sel.Obj().(*types.Var); ok {
			return x.lockByVar[v]
		}
		return nil
	}
	if tv, ok := p.info.Types[se.X]; ok && tv.Type != nil && tv.Type != types.Typ[types.Invalid] {
		return nil // receiver type is known and has no such field
	}
	var cand *lockInfo
	for _, li := range x.locks {
		if li.v.Name() == se.Sel.Name {
			if cand != nil {
				return nil
			}
			cand = li
		}
	}
	if cand == nil {
		// locks not yet registered (during discovery order) — look in lockByVar
		for v, li := range x.lockByVar {
			if v.Name() == se.Sel.Name {
				if cand != nil && cand != li {
					return nil
				}
				cand = li
			}
		}
	}
	return cand
}

// ---- instances whose lock is never switched on -------------------------------------------------

// For a lock that is enabled only through an init method of its holder type (e.g.
// dedicatedAllocationList.Init), every place where a holder value comes into existence should be
// followed by a call of that method.  We check the two ways holders come into existence in vam:
// by-value struct fields of holder type (Pool.blockList) and composite literals / new(T).
// The result is a report (strings); entries not listed in the policy file are fatal.
func (x *extractor) instanceAudit() []string {
	var out []string
	for _, li := range x.locks {
		if len(li.initMeth) == 0 || !li.enabled {
			continue
		}
		holder := x.holder[li.v]
		if holder == nil {
			continue
		}
		// all by-value fields of holder type
		var embeds []*types.Var
		for v := range x.varName {
			if types.Identical(v.Type(), holder) {
				embeds = append(embeds, v)
			}
		}
		sort.Slice(embeds, func(i, j int) bool { return x.varName[embeds[i]] < x.varName[embeds[j]] })
		inited := map[*types.Var]bool{}
		litInit := map[string]bool{} // "file:func:exprtext" of X in X.Init(...)
		type lit struct {
			pos  token.Pos
			dest string
			fn   string
		}
		var lits []lit
		for _, p := range x.ld.pkgs {
			for _, f := range p.files {
				for _, d := range f.Decls {
					fd, ok := d.(*ast.FuncDecl)
					if !ok || fd.Body == nil {
						continue
					}
					ast.Inspect(fd.Body, func(n ast.Node) bool {
						switch n := n.(type) {
						case *ast.CallExpr:
							se, ok := n.Fun.(*ast.SelectorExpr)
							if !ok {
								return true
							}
							sel := p.info.Selections[se]
							if sel == nil {
								return true
							}
							fn, _ := sel.Obj().(*types.Func)
							if fn == nil || !li.initMeth[fn] {
								return true
							}
							litInit[fd.Name.Name+":"+types.ExprString(se.X)] = true
							if rx, ok := se.X.(*ast.SelectorExpr); ok {
								if rs := p.info.Selections[rx]; rs != nil {
									if v, ok := rs.Obj().(*types.Var); ok {
										inited[v] = true
									}
								}
							}
						case *ast.AssignStmt:
							for i, r := range n.Rhs {
								if i >= len(n.Lhs) {
									break
								}
								e := r
								if u, ok := e.(*ast.UnaryExpr); ok && u.Op == token.AND {
									e = u.X
								}
								if cl, ok := e.(*ast.CompositeLit); ok {
									if tv, ok := p.info.Types[cl]; ok && tv.Type != nil && types.Identical(tv.Type, holder) {
										lits = append(lits, lit{cl.Pos(), types.ExprString(n.Lhs[i]), fd.Name.Name})
									}
								}
							}
						}
						return true
					})
				}
			}
		}
		for _, v := range embeds {
			if !inited[v] {
				out = append(out, fmt.Sprintf("%s: holder embedded by value as %s, but %s is never called on that field: UseMutex stays false for these instances", li.name, x.varName[v], initNames(li)))
			}
		}
		for _, l := range lits {
			if !litInit[l.fn+":"+l.dest] {
				out = append(out, fmt.Sprintf("%s: holder created at %s (assigned to %s) without a call of %s on it in the same function", li.name, x.pos(l.pos), l.dest, initNames(li)))
			}
		}
	}
	return out
}

func initNames(li *lockInfo) string {
	var s []string
	for f := range li.initMeth {
		s = append(s, f.Name())
	}
	sort.Strings(s)
	return strings.Join(s, "/")
}

// ---- the walker ------------------------------------------------------------------------------

type ctx int

const (
	cRead ctx = iota
	cWrite
)

type walker struct {
	x      *extractor
	fn     *funcInfo
	info   *types.Info
	out    []event
	defers [][]event
	inLit  int
	single bool // function body is one statement
	// x := e.(T) where e's type is unknown (it flows through a stub package): x -> T
	asserted map[types.Object]types.Type
}

func (w *walker) emit(e event) { w.out = append(w.out, e) }

// lockCall: is this call a Lock/Unlock/RLock/RUnlock on one of the lock fields?
func (w *walker) lockCall(c *ast.CallExpr) (li *lockInfo, op string, recv *ast.SelectorExpr) {
	se, ok := ast.Unparen(c.Fun).(*ast.SelectorExpr)
	if !ok {
		return nil, "", nil
	}
	inner, ok := ast.Unparen(se.X).(*ast.SelectorExpr)
	if !ok {
		return nil, "", nil
	}
	li = w.x.lockOfSelector(w.fn.pkg, inner)
	if li == nil {
		return nil, "", nil
	}
	if w.info.Selections[inner] == nil {
		w.x.byNameRes = append(w.x.byNameRes, fmt.Sprintf("%s: %s resolved to lock %s by field name (receiver type flows through an external package)", w.x.pos(c.Pos()), types.ExprString(se), li.name))
	}
	if !lockOps[se.Sel.Name] {
		w.x.fail(c.Pos(), "operation %s on lock %s", se.Sel.Name, li.name)
	}
	if (se.Sel.Name == "RLock" || se.Sel.Name == "RUnlock") && !li.rw {
		w.x.fail(c.Pos(), "%s on a non-RW lock %s", se.Sel.Name, li.name)
	}
	return li, se.Sel.Name, inner
}

func hasEscape(stmts []ast.Stmt) (token.Pos, bool) {
	var at token.Pos
	found := false
	for _, s := range stmts {
		ast.Inspect(s, func(n ast.Node) bool {
			if found {
				return false
			}
			switch n := n.(type) {
			case *ast.FuncLit:
				return false
			case *ast.ReturnStmt:
				at, found = n.Pos(), true
			case *ast.BranchStmt:
				if n.Tok == token.GOTO {
					at, found = n.Pos(), true
				}
			}
			return true
		})
	}
	return at, found
}

func (w *walker) stmtList(list []ast.Stmt, top bool) {
	for i := 0; i < len(list); i++ {
		s := list[i]
		// lock acquisition in statement position
		if es, ok := s.(*ast.ExprStmt); ok {
			if c, ok := es.X.(*ast.CallExpr); ok {
				if li, op, recv := w.lockCall(c); li != nil {
					w.lockStmt(list, i, top, c, li, op, recv)
					continue
				}
			}
		}
		if ds, ok := s.(*ast.DeferStmt); ok {
			if li, op, recv := w.lockCall(ds.Call); li != nil {
				w.deferLockStmt(list, i, top, ds, li, op, recv)
				continue
			}
		}
		w.stmt(s)
	}
}

func sameOpPair(acq, rel string) bool {
	return (acq == "Lock" && rel == "Unlock") || (acq == "RLock" && rel == "RUnlock")
}

func (w *walker) lockStmt(list []ast.Stmt, i int, top bool, c *ast.CallExpr, li *lockInfo, op string, recv *ast.SelectorExpr) {
	w.expr(recv.X, cRead)
	isAcq := op == "Lock" || op == "RLock"
	ev := event{a: li.id, read: op[0] == 'R', line: w.x.line(c.Pos()), disabled: !li.enabled}
	if isAcq {
		ev.kind = evLock
	} else {
		ev.kind = evUnlock
	}
	if li.enabled {
		w.fn.nlocks++
		if w.inLit > 0 {
			w.x.fail(c.Pos(), "%s of %s inside a function literal", op, li.name)
		}
		rtxt := types.ExprString(recv)
		if isAcq {
			ok := false
			// (1) next statement is the matching deferred unlock (function top level only)
			if i+1 < len(list) {
				if ds, isDefer := list[i+1].(*ast.DeferStmt); isDefer {
					if li2, op2, recv2 := w.lockCall(ds.Call); li2 == li && sameOpPair(op, op2) && types.ExprString(recv2) == rtxt {
						if !top {
							w.x.fail(ds.Pos(), "deferred unlock of %s in a nested block", li.name)
						}
						ok = true
					}
				}
			}
			// (2) a matching explicit unlock later in the same statement list, no return/goto between
			if !ok {
				for j := i + 1; j < len(list); j++ {
					if es, isExpr := list[j].(*ast.ExprStmt); isExpr {
						if c2, isCall := es.X.(*ast.CallExpr); isCall {
							if li2, op2, recv2 := w.lockCall(c2); li2 == li && sameOpPair(op, op2) && types.ExprString(recv2) == rtxt {
								if at, esc := hasEscape(list[i+1 : j]); esc {
									w.x.fail(at, "return/goto between %s and %s of %s", op, op2, li.name)
								}
								ok = true
								break
							}
						}
					}
				}
			}
			// (3) the function is a one-statement wrapper around the operation
			if !ok && w.single && top {
				ok = true
				w.fn.wraps = true
			}
			if !ok {
				w.x.fail(c.Pos(), "%s of %s has no matching unlock in the same statement list (conditional or split lock/unlock)", op, li.name)
			}
		} else {
			// explicit unlock: must be matched by an earlier acquisition in the same list, or be a wrapper
			ok := false
			for j := i - 1; j >= 0; j-- {
				if es, isExpr := list[j].(*ast.ExprStmt); isExpr {
					if c2, isCall := es.X.(*ast.CallExpr); isCall {
						if li2, op2, recv2 := w.lockCall(c2); li2 == li && sameOpPair(op2, op) && types.ExprString(recv2) == rtxt {
							ok = true
							break
						}
					}
				}
			}
			if !ok && w.single && top {
				ok = true
				w.fn.wraps = true
			}
			if !ok {
				w.x.fail(c.Pos(), "%s of %s without a matching acquisition in the same statement list", op, li.name)
			}
		}
	}
	w.emit(ev)
}

func (w *walker) deferLockStmt(list []ast.Stmt, i int, top bool, ds *ast.DeferStmt, li *lockInfo, op string, recv *ast.SelectorExpr) {
	if op == "Lock" || op == "RLock" {
		w.x.fail(ds.Pos(), "deferred %s of %s", op, li.name)
	}
	w.expr(recv.X, cRead)
	ev := event{kind: evUnlock, a: li.id, read: op[0] == 'R', deferred: true, line: w.x.line(ds.Pos()), disabled: !li.enabled}
	if li.enabled {
		if w.inLit > 0 {
			w.x.fail(ds.Pos(), "deferred %s of %s inside a function literal", op, li.name)
		}
		if !top {
			w.x.fail(ds.Pos(), "deferred unlock of %s in a nested block", li.name)
		}
		ok := false
		if i > 0 {
			if es, isExpr := list[i-1].(*ast.ExprStmt); isExpr {
				if c2, isCall := es.X.(*ast.CallExpr); isCall {
					if li2, op2, recv2 := w.lockCall(c2); li2 == li && sameOpPair(op2, op) && types.ExprString(recv2) == types.ExprString(recv) {
						ok = true
					}
				}
			}
		}
		if !ok {
			w.x.fail(ds.Pos(), "deferred %s of %s is not immediately preceded by the matching acquisition", op, li.name)
		}
	}
	w.defers = append(w.defers, []event{ev})
}

func (w *walker) stmt(s ast.Stmt) {
	switch s := s.(type) {
	case nil:
	case *ast.ExprStmt:
		w.expr(s.X, cRead)
	case *ast.AssignStmt:
		for _, r := range s.Rhs {
			w.expr(r, cRead)
		}
		if s.Tok == token.DEFINE && len(s.Rhs) == 1 {
			if ta, ok := ast.Unparen(s.Rhs[0]).(*ast.TypeAssertExpr); ok && ta.Type != nil {
				if id, ok := s.Lhs[0].(*ast.Ident); ok {
					if obj := w.info.Defs[id]; obj != nil && !validType(obj.Type()) {
						if t := w.localType(ta.Type); t != nil {
							if w.asserted == nil {
								w.asserted = map[types.Object]types.Type{}
							}
							w.asserted[obj] = t
						}
					}
				}
			}
		}
		for _, l := range s.Lhs {
			if s.Tok == token.DEFINE {
				if _, ok := l.(*ast.Ident); ok {
					continue
				}
			}
			w.expr(l, cWrite)
		}
	case *ast.IncDecStmt:
		w.expr(s.X, cWrite)
	case *ast.DeclStmt:
		if gd, ok := s.Decl.(*ast.GenDecl); ok {
			for _, sp := range gd.Specs {
				if vs, ok := sp.(*ast.ValueSpec); ok {
					for _, v := range vs.Values {
						w.expr(v, cRead)
					}
				}
			}
		}
	case *ast.BlockStmt:
		w.stmtList(s.List, false)
	case *ast.IfStmt:
		w.stmt(s.Init)
		w.expr(s.Cond, cRead)
		w.stmtList(s.Body.List, false)
		w.stmt(s.Else)
	case *ast.ForStmt:
		w.stmt(s.Init)
		if s.Cond != nil {
			w.expr(s.Cond, cRead)
		}
		w.stmtList(s.Body.List, false)
		w.stmt(s.Post)
	case *ast.RangeStmt:
		w.expr(s.X, cRead)
		if s.Tok == token.ASSIGN {
			if s.Key != nil {
				w.expr(s.Key, cWrite)
			}
			if s.Value != nil {
				w.expr(s.Value, cWrite)
			}
		}
		w.stmtList(s.Body.List, false)
	case *ast.SwitchStmt:
		w.stmt(s.Init)
		if s.Tag != nil {
			w.expr(s.Tag, cRead)
		}
		w.stmtList(s.Body.List, false)
	case *ast.TypeSwitchStmt:
		w.stmt(s.Init)
		w.stmt(s.Assign)
		w.stmtList(s.Body.List, false)
	case *ast.CaseClause:
		for _, e := range s.List {
			w.expr(e, cRead)
		}
		w.stmtList(s.Body, false)
	case *ast.ReturnStmt:
		for _, r := range s.Results {
			w.expr(r, cRead)
		}
	case *ast.DeferStmt:
		w.deferStmt(s)
	case *ast.GoStmt:
		w.x.fail(s.Pos(), "go statement")
	case *ast.SelectStmt, *ast.SendStmt, *ast.CommClause:
		w.x.fail(s.Pos(), "channel operation")
	case *ast.LabeledStmt:
		w.stmt(s.Stmt)
	case *ast.BranchStmt, *ast.EmptyStmt:
	default:
		w.x.fail(s.Pos(), "statement of type %T", s)
	}
}

// defer f(args): the arguments are evaluated now, the call happens at function exit.
// defer func(){ body }(): the body runs at function exit.
func (w *walker) deferStmt(s *ast.DeferStmt) {
	if fl, ok := ast.Unparen(s.Call.Fun).(*ast.FuncLit); ok {
		for _, a := range s.Call.Args {
			w.expr(a, cRead)
		}
		sub := &walker{x: w.x, fn: w.fn, info: w.info, inLit: w.inLit + 1, asserted: w.asserted}
		sub.stmtList(fl.Body.List, false)
		sub.flushDefers()
		w.defers = append(w.defers, sub.out)
		return
	}
	// evaluate receiver and args now, emit the call itself at exit
	saved := w.out
	w.out = nil
	w.call(s.Call, true)
	callEvs := w.out
	w.out = saved
	var now, later []event
	for _, e := range callEvs {
		if e.kind == evCall || (e.kind == evAcc && e.acc == 2) {
			later = append(later, e)
		} else {
			now = append(now, e)
		}
	}
	w.out = append(w.out, now...)
	for i := range later {
		later[i].deferred = true
	}
	w.defers = append(w.defers, later)
}

func (w *walker) flushDefers() {
	for i := len(w.defers) - 1; i >= 0; i-- {
		w.out = append(w.out, w.defers[i]...)
	}
	w.defers = nil
}

func (w *walker) access(v *types.Var, c ctx, p token.Pos, atomicCall bool) {
	fi := w.x.fieldBy[v]
	if fi == nil {
		return
	}
	k := 0
	if c == cWrite {
		k = 1
	}
	if atomicCall {
		k = 2
	}
	w.emit(event{kind: evAcc, a: fi.id, acc: k, line: w.x.line(p)})
}

func (w *walker) expr(e ast.Expr, c ctx) {
	switch e := e.(type) {
	case nil:
	case *ast.Ident, *ast.BasicLit:
	case *ast.ParenExpr:
		w.expr(e.X, c)
	case *ast.SelectorExpr:
		sel := w.info.Selections[e]
		if sel == nil {
			if id, ok := ast.Unparen(e.X).(*ast.Ident); ok && w.asserted != nil {
				if t := w.asserted[w.info.Uses[id]]; t != nil {
					obj, _, _ := types.LookupFieldOrMethod(t, true, w.fn.pkg.tpkg, e.Sel.Name)
					if v, ok := obj.(*types.Var); ok {
						w.x.byNameRes = append(w.x.byNameRes, fmt.Sprintf("%s: %s resolved through the type assertion that defines %s", w.x.pos(e.Pos()), types.ExprString(e), id.Name))
						if li := w.x.lockByVar[v]; li != nil {
							w.x.fail(e.Pos(), "lock field %s used outside Lock/Unlock/RLock/RUnlock", li.name)
						}
						w.access(v, c, e.Pos(), false)
						return
					}
				}
			}
			// qualified identifier (pkg.Name) or unresolved
			if id, isIdent := e.X.(*ast.Ident); !isIdent || !isPkgName(w.info, id) {
				// a field named like a tracked field, reached through a receiver of unknown type
				tv, known := w.info.Types[e.X]
				if !(known && tv.Type != nil && tv.Type != types.Typ[types.Invalid]) {
					for _, fi := range w.x.fields {
						if fi.v.Name() == e.Sel.Name {
							w.x.fail(e.Pos(), "selector .%s on a receiver of unknown type (%s): cannot tell whether it is the tracked field %s", e.Sel.Name, types.ExprString(e.X), fi.name)
						}
					}
				}
			}
			if _, isIdent := e.X.(*ast.Ident); !isIdent {
				w.expr(e.X, cRead)
				// a lock field reached through an unknown receiver, outside a lock call
				if li := w.x.lockOfSelector(w.fn.pkg, e); li != nil {
					w.x.fail(e.Pos(), "lock field %s used outside Lock/Unlock/RLock/RUnlock", li.name)
				}
			} else if w.info.Uses[e.X.(*ast.Ident)] != nil {
				if _, isPkg := w.info.Uses[e.X.(*ast.Ident)].(*types.PkgName); !isPkg {
					if li := w.x.lockOfSelector(w.fn.pkg, e); li != nil {
						w.x.fail(e.Pos(), "lock field %s used outside Lock/Unlock/RLock/RUnlock", li.name)
					}
				}
			}
			return
		}
		w.expr(e.X, cRead)
		if sel.Kind() == types.FieldVal {
			v := sel.Obj().(*types.Var)
			if li := w.x.lockByVar[v]; li != nil {
				if c != cWrite {
					w.x.fail(e.Pos(), "lock field %s used outside Lock/Unlock/RLock/RUnlock (copied, address taken or passed on)", li.name)
				}
				return // initialisation: recv.lock = utils.OptionalX{...}
			}
			if fi := w.x.fieldBy[v]; fi != nil {
				// for a field of sync/atomic type this is a PLAIN use (not a method call on it):
				// the Coq checker reports it as VPlainOnAtomic
				w.access(v, c, e.Pos(), false)
			}
		}
	case *ast.IndexExpr:
		w.expr(e.X, c)
		w.expr(e.Index, cRead)
	case *ast.IndexListExpr:
		w.expr(e.X, c)
	case *ast.SliceExpr:
		w.expr(e.X, c)
		w.expr(e.Low, cRead)
		w.expr(e.High, cRead)
		w.expr(e.Max, cRead)
	case *ast.StarExpr:
		w.expr(e.X, cRead)
	case *ast.UnaryExpr:
		if e.Op == token.AND {
			// address taken: whoever gets the pointer may write
			w.expr(e.X, cWrite)
			return
		}
		if e.Op == token.ARROW {
			w.x.fail(e.Pos(), "channel receive")
		}
		w.expr(e.X, cRead)
	case *ast.BinaryExpr:
		w.expr(e.X, cRead)
		w.expr(e.Y, cRead)
	case *ast.KeyValueExpr:
		// struct literal keys are field names, not expressions
		if _, ok := e.Key.(*ast.Ident); !ok {
			w.expr(e.Key, cRead)
		}
		w.expr(e.Value, cRead)
	case *ast.CompositeLit:
		for _, el := range e.Elts {
			w.expr(el, cRead)
		}
	case *ast.TypeAssertExpr:
		w.expr(e.X, cRead)
	case *ast.FuncLit:
		// a closure passed to / called by someone: its body is walked in place
		sub := &walker{x: w.x, fn: w.fn, info: w.info, inLit: w.inLit + 1, asserted: w.asserted}
		sub.stmtList(e.Body.List, false)
		sub.flushDefers()
		w.out = append(w.out, sub.out...)
	case *ast.CallExpr:
		w.call(e, false)
	case *ast.ArrayType, *ast.StructType, *ast.FuncType, *ast.InterfaceType, *ast.MapType, *ast.ChanType, *ast.Ellipsis:
	default:
		w.x.fail(e.Pos(), "expression of type %T", e)
	}
}

// stripIndex: m.blockBytes[heapIndex] -> m.blockBytes
func stripIndex(e ast.Expr) (ast.Expr, []ast.Expr) {
	var idx []ast.Expr
	for {
		e = ast.Unparen(e)
		ie, ok := e.(*ast.IndexExpr)
		if !ok {
			return e, idx
		}
		idx = append(idx, ie.Index)
		e = ie.X
	}
}

func (w *walker) call(c *ast.CallExpr, deferredCall bool) {
	fun := ast.Unparen(c.Fun)
	// a lock operation that is not in statement position
	if li, op, _ := w.lockCall(c); li != nil {
		{
			w.x.fail(c.Pos(), "%s of %s in an expression / argument / unsupported position", op, li.name)
		}
	}
	builtin := ""
	var callee *types.Func
	switch f := fun.(type) {
	case *ast.Ident:
		switch o := w.info.Uses[f].(type) {
		case *types.Builtin:
			builtin = o.Name()
		case *types.Func:
			callee = o
		}
	case *ast.SelectorExpr:
		// atomic operation on an atomic field:  recv.field[i].Add(...)
		base, idx := stripIndex(f.X)
		if bs, ok := base.(*ast.SelectorExpr); ok {
			if sel := w.info.Selections[bs]; sel != nil && sel.Kind() == types.FieldVal {
				if fi := w.x.fieldBy[sel.Obj().(*types.Var)]; fi != nil && fi.atomic {
					w.expr(bs.X, cRead)
					for _, i := range idx {
						w.expr(i, cRead)
					}
					for _, a := range c.Args {
						w.expr(a, cRead)
					}
					w.access(sel.Obj().(*types.Var), cRead, c.Pos(), true)
					return
				}
			}
		}
		if sel := w.info.Selections[f]; sel != nil {
			w.expr(f.X, cRead)
			if fn, ok := sel.Obj().(*types.Func); ok {
				callee = fn
			}
		} else if id, ok := f.X.(*ast.Ident); ok && isPkgName(w.info, id) {
			// pkg.Func of a local package?
			if fn, ok := w.info.Uses[f.Sel].(*types.Func); ok {
				callee = fn
			}
		} else if fn := w.assertedMethod(f); fn != nil {
			callee = fn
		} else {
			w.expr(f.X, cRead)
			// unresolved receiver
			if lockishOps[f.Sel.Name] {
				tv, known := w.info.Types[f.X]
				if !(known && tv.Type != nil && tv.Type != types.Typ[types.Invalid]) {
					w.x.fail(c.Pos(), "call of %s on a receiver whose type is not known (%s)", f.Sel.Name, types.ExprString(f.X))
				}
			}
			if ms := w.x.methods[f.Sel.Name]; len(ms) > 0 {
				tv, known := w.info.Types[f.X]
				if !(known && tv.Type != nil && tv.Type != types.Typ[types.Invalid]) {
					w.x.ambiguous = append(w.x.ambiguous, fmt.Sprintf("%s: %s (receiver type unknown; a method of that name exists in vam)", w.x.pos(c.Pos()), types.ExprString(f)))
				}
			}
		}
	case *ast.FuncLit:
		// immediately invoked literal
		for _, a := range c.Args {
			w.expr(a, cRead)
		}
		w.expr(f, cRead)
		return
	default:
		w.expr(fun, cRead)
	}
	for _, a := range c.Args {
		ac := cRead
		if builtin != "len" && builtin != "cap" {
			// a tracked slice/array field handed to a callee (append, sort.Slice, ...) may be written through
			if se, ok := ast.Unparen(a).(*ast.SelectorExpr); ok {
				if sel := w.info.Selections[se]; sel != nil && sel.Kind() == types.FieldVal {
					if fi := w.x.fieldBy[sel.Obj().(*types.Var)]; fi != nil && !fi.atomic {
						switch sel.Obj().Type().Underlying().(type) {
						case *types.Slice, *types.Array, *types.Map:
							ac = cWrite
						}
					}
				}
			}
		}
		w.expr(a, ac)
	}
	if callee == nil {
		// memutils.DebugValidate(v) calls v.Validate() (in debug builds)
		if se, ok := fun.(*ast.SelectorExpr); ok && se.Sel.Name == "DebugValidate" && len(c.Args) == 1 {
			if tv, ok := w.info.Types[c.Args[0]]; ok && validType(tv.Type) {
				obj, _, _ := types.LookupFieldOrMethod(tv.Type, true, w.fn.pkg.tpkg, "Validate")
				if fn, ok := obj.(*types.Func); ok {
					if fi := w.x.funcBy[fn]; fi != nil {
						w.emit(event{kind: evCall, a: fi.id, line: w.x.line(c.Pos()), note: "via memutils.DebugValidate (debug builds)"})
					}
				}
			}
		}
		return
	}
	if fi := w.x.funcBy[callee]; fi != nil {
		w.emit(event{kind: evCall, a: fi.id, line: w.x.line(c.Pos())})
		return
	}
	// method of an interface declared in the three packages: every implementation by name
	if callee.Pkg() != nil && w.x.isLocalPkg(callee.Pkg()) {
		if sig, ok := callee.Type().(*types.Signature); ok && sig.Recv() != nil {
			if _, isIface := sig.Recv().Type().Underlying().(*types.Interface); isIface {
				impls := w.x.implementers(callee)
				for _, fi := range impls {
					w.emit(event{kind: evCall, a: fi.id, line: w.x.line(c.Pos()), note: "via interface " + callee.FullName()})
				}
				if len(impls) == 0 {
					w.x.notes = append(w.x.notes, fmt.Sprintf("%s: call of interface method %s has no implementation in the three packages", w.x.pos(c.Pos()), callee.FullName()))
				}
				return
			}
		}
		w.x.fail(c.Pos(), "call of local function %s that has no body in the analysed files", callee.FullName())
	}
}

// localType resolves the type expressions T and *T for a type T of the current package.
func (w *walker) localType(e ast.Expr) types.Type {
	ptr := false
	if st, ok := e.(*ast.StarExpr); ok {
		ptr = true
		e = st.X
	}
	id, ok := e.(*ast.Ident)
	if !ok {
		return nil
	}
	tn, ok := w.fn.pkg.tpkg.Scope().Lookup(id.Name).(*types.TypeName)
	if !ok {
		return nil
	}
	if ptr {
		return types.NewPointer(tn.Type())
	}
	return tn.Type()
}

// assertedMethod: x.M(...) where x was defined by x := e.(T) with e of unknown type
func (w *walker) assertedMethod(f *ast.SelectorExpr) *types.Func {
	id, ok := ast.Unparen(f.X).(*ast.Ident)
	if !ok || w.asserted == nil {
		return nil
	}
	t := w.asserted[w.info.Uses[id]]
	if t == nil {
		return nil
	}
	obj, _, _ := types.LookupFieldOrMethod(t, true, w.fn.pkg.tpkg, f.Sel.Name)
	fn, _ := obj.(*types.Func)
	if fn != nil {
		w.x.byNameRes = append(w.x.byNameRes, fmt.Sprintf("%s: %s resolved through the type assertion that defines %s", w.x.pos(f.Pos()), types.ExprString(f), id.Name))
	}
	return fn
}

func isPkgName(info *types.Info, id *ast.Ident) bool {
	_, ok := info.Uses[id].(*types.PkgName)
	return ok
}

func (x *extractor) isLocalPkg(p *types.Package) bool {
	for _, lp := range x.ld.pkgs {
		if lp.tpkg == p {
			return true
		}
	}
	return false
}

// implementers: local methods with the interface method's name whose receiver type (or a pointer
// to it) implements the interface according to go/types.
func (x *extractor) implementers(m *types.Func) []*funcInfo {
	sig := m.Type().(*types.Signature)
	iface := sig.Recv().Type().Underlying().(*types.Interface)
	var out []*funcInfo
	for _, fi := range x.methods[m.Name()] {
		rsig := fi.obj.Type().(*types.Signature)
		rt := rsig.Recv().Type()
		if p, ok := rt.(*types.Pointer); ok {
			rt = p.Elem()
		}
		named, ok := rt.(*types.Named)
		if !ok {
			continue
		}
		if _, isIface := named.Underlying().(*types.Interface); isIface {
			continue
		}
		all := types.Implements(named, iface) || types.Implements(types.NewPointer(named), iface)
		if all {
			out = append(out, fi)
		}
	}
	return out
}

func (x *extractor) walkAll() {
	for _, fi := range x.funcs {
		w := &walker{x: x, fn: fi, info: fi.pkg.info, single: len(fi.decl.Body.List) == 1}
		w.stmtList(fi.decl.Body.List, true)
		w.flushDefers()
		fi.body = w.out
	}
}

func validType(t types.Type) bool {
	if t == nil {
		return false
	}
	if b, ok := t.(*types.Basic); ok && b.Kind() == types.Invalid {
		return false
	}
	return true
}
