// lockskel: extracts the lock/access skeleton of vkngwrapper/arsenal/vam for property C12 and
// writes it as Coq data (coq/theories/GenSkeleton.v).  See /verif/tools/LOCKSKEL.md.
//
// usage: lockskel [-root /repo/vam] [-policy policy.txt] [-o GenSkeleton.v] [-dump]
// exit status: 0 ok, 2 = lock-relevant syntax that is not understood / table mismatch / unlisted
// uninitialised lock instance.
package main

import (
	"bufio"
	"bytes"
	"flag"
	"fmt"
	"os"
	"sort"
	"strings"
)

type policyEntry struct {
	kind   string // allow | known
	fn     string
	field  string
	reason string
	used   bool
}

type policy struct {
	entries   []*policyEntry
	exclude   map[string]string // entry point -> reason
	knownInst []struct{ sub, reason string }
}

func readPolicy(path string) *policy {
	p := &policy{exclude: map[string]string{}}
	f, err := os.Open(path)
	if err != nil {
		fatalf("cannot open policy file: %v", err)
	}
	defer f.Close()
	sc := bufio.NewScanner(f)
	ln := 0
	for sc.Scan() {
		ln++
		line := strings.TrimSpace(sc.Text())
		if line == "" || strings.HasPrefix(line, "#") {
			continue
		}
		parts := strings.Fields(line)
		switch parts[0] {
		case "allow", "known":
			if len(parts) < 4 {
				fatalf("%s:%d: expected: %s <function> <field> <reason>", path, ln, parts[0])
			}
			p.entries = append(p.entries, &policyEntry{kind: parts[0], fn: parts[1], field: parts[2], reason: strings.Join(parts[3:], " ")})
		case "exclude-entry":
			if len(parts) < 3 {
				fatalf("%s:%d: expected: exclude-entry <function> <reason>", path, ln)
			}
			p.exclude[parts[1]] = strings.Join(parts[2:], " ")
		case "known-instance":
			if len(parts) < 3 {
				fatalf("%s:%d: expected: known-instance <Struct.field> <reason>", path, ln)
			}
			p.knownInst = append(p.knownInst, struct{ sub, reason string }{parts[1], strings.Join(parts[2:], " ")})
		default:
			fatalf("%s:%d: unknown directive %q", path, ln, parts[0])
		}
	}
	return p
}

// deriveRanks: nested acquisitions through the call graph from the entry points (enabled locks
// only), then a topological order of the "held -> acquired" edges.  Ties are broken by the order of
// the lock table.  If the edges are cyclic the remaining locks get ranks in table order and the
// Coq check fails.
func (x *extractor) deriveRanks(entries []*funcInfo) (edges map[[2]int][]string) {
	edges = map[[2]int][]string{}
	var visit func(fi *funcInfo, stack []int, held []int) []int
	visit = func(fi *funcInfo, stack []int, held []int) []int {
		for _, s := range stack {
			if s == fi.id {
				return held
			}
		}
		stack = append(stack, fi.id)
		for _, e := range fi.body {
			switch e.kind {
			case evLock:
				if e.disabled {
					continue
				}
				for _, h := range held {
					k := [2]int{h, e.a}
					if h == e.a && len(edges[k]) == 0 {
						var chain []string
						for _, s := range stack {
							chain = append(chain, x.funcs[s].name)
						}
						x.notes = append(x.notes, fmt.Sprintf("re-acquisition of %s while held, call chain: %s", x.locks[h].name, strings.Join(chain, " -> ")))
					}
					if len(edges[k]) < 3 {
						edges[k] = append(edges[k], fmt.Sprintf("%s:%d", fi.file, e.line))
					}
				}
				held = append(append([]int{}, held...), e.a)
			case evUnlock:
				if e.disabled {
					continue
				}
				var nh []int
				removed := false
				for i := len(held) - 1; i >= 0; i-- {
					if held[i] == e.a && !removed {
						removed = true
						continue
					}
					nh = append([]int{held[i]}, nh...)
				}
				held = nh
			case evCall:
				held = visit(x.funcs[e.a], stack, held)
			}
		}
		return held
	}
	for _, fi := range entries {
		visit(fi, nil, nil)
	}
	n := len(x.locks)
	indeg := make([]int, n)
	for k := range edges {
		if k[0] != k[1] {
			indeg[k[1]]++
		}
	}
	done := make([]bool, n)
	rank := 1
	for {
		pick := -1
		for i := 0; i < n; i++ {
			if !done[i] && indeg[i] == 0 && x.locks[i].enabled {
				pick = i
				break
			}
		}
		if pick < 0 {
			break
		}
		done[pick] = true
		x.locks[pick].rank = rank
		rank++
		for k := range edges {
			if k[0] == pick && k[0] != k[1] {
				indeg[k[1]]--
			}
		}
	}
	for i := 0; i < n; i++ {
		if !done[i] {
			x.locks[i].rank = rank
			rank++
		}
	}
	return edges
}

func coqString(s string) string { return "\"" + strings.ReplaceAll(s, "\"", "\"\"") + "\"" }

func main() {
	root := flag.String("root", "/repo/vam", "directory of package vam")
	polPath := flag.String("policy", "/verif/tools/lockskel/policy.txt", "policy file (allow-list, known findings, excluded entry points)")
	out := flag.String("o", "", "output .v file (default: stdout)")
	dump := flag.Bool("dump", false, "print a readable dump of the skeleton on stderr")
	flag.Parse()

	ld := load(*root)
	x := &extractor{ld: ld}
	x.discover()
	x.findEnables()
	pol := readPolicy(*polPath)
	x.walkAll()

	byName := map[string]*funcInfo{}
	for _, fi := range x.funcs {
		byName[fi.name] = fi
	}
	fieldByName := map[string]*fieldInfo{}
	for _, f := range x.fields {
		fieldByName[f.name] = f
	}
	var entries []*funcInfo
	var excluded []string
	for _, fi := range x.funcs {
		if !fi.entry {
			continue
		}
		if r, ok := pol.exclude[fi.name]; ok {
			excluded = append(excluded, fi.name+": "+r)
			continue
		}
		entries = append(entries, fi)
	}
	for name := range pol.exclude {
		if fi := byName[name]; fi == nil || !fi.entry {
			fatalf("policy: exclude-entry %s is not a public entry point of package vam", name)
		}
	}
	for _, pe := range pol.entries {
		if byName[pe.fn] == nil {
			fatalf("policy: unknown function %s", pe.fn)
		}
		if fieldByName[pe.field] == nil {
			fatalf("policy: unknown field %s", pe.field)
		}
	}
	edges := x.deriveRanks(entries)

	// instance audit
	inst := x.instanceAudit()
	var instUnlisted []string
	for _, s := range inst {
		ok := false
		for _, k := range pol.knownInst {
			if strings.Contains(s, k.sub) {
				ok = true
			}
		}
		if !ok {
			instUnlisted = append(instUnlisted, s)
		}
	}

	var b bytes.Buffer
	w := func(format string, args ...any) { fmt.Fprintf(&b, format, args...) }
	w("(* GENERATED by tools/lockskel (bin/gen-skeleton) from the Go sources of vam. DO NOT EDIT.\n")
	w("   Lock/access skeleton for property C12; the checkers and theorems are in Conc.v / ConcProofs.v.\n")
	w("   Source files: non-test .go files of vam, vam/internal/vulkan, vam/internal/utils that are part\n")
	w("   of a default build (files with build tag verif / debug_mem_utils are skipped).\n\n")
	w("   LOCKS (id, name, kind, enabled = UseMutex is set somewhere, rank):\n")
	for _, li := range x.locks {
		kind := "Mutex"
		if li.rw {
			kind = "RWMutex"
		}
		en := "ENABLED at " + strings.Join(li.enableAt, ", ")
		if !li.enabled {
			en = "NEVER ENABLED: UseMutex of this field is never set, every operation on it is a no-op"
		}
		w("     %d %s (%s) rank %d — %s\n", li.id, li.name, kind, li.rank, en)
	}
	w("\n   NESTED ACQUISITIONS found from the entry points (held -> acquired, first sites):\n")
	var ek [][2]int
	for k := range edges {
		ek = append(ek, k)
	}
	sort.Slice(ek, func(i, j int) bool {
		if ek[i][0] != ek[j][0] {
			return ek[i][0] < ek[j][0]
		}
		return ek[i][1] < ek[j][1]
	})
	for _, k := range ek {
		w("     %s -> %s   (%s)\n", x.locks[k[0]].name, x.locks[k[1]].name, strings.Join(edges[k], ", "))
	}
	w("   LOCK ORDER (rank, derived from these edges, ties in table order):")
	ordered := append([]*lockInfo{}, x.locks...)
	sort.Slice(ordered, func(i, j int) bool { return ordered[i].rank < ordered[j].rank })
	for i, li := range ordered {
		if !li.enabled {
			continue
		}
		if i > 0 {
			w(" <")
		}
		w(" %s", li.name)
	}
	w("\n")
	if len(inst) > 0 {
		w("\n   LOCK INSTANCES THAT ARE NEVER SWITCHED ON (class-level analysis cannot see this; reported):\n")
		for _, s := range inst {
			w("     %s\n", s)
		}
	}
	// functions with lock operations or tracked accesses that no considered entry point reaches
	reach := map[int]bool{}
	var mark func(id int)
	mark = func(id int) {
		if reach[id] {
			return
		}
		reach[id] = true
		for _, e := range x.funcs[id].body {
			if e.kind == evCall {
				mark(e.a)
			}
		}
	}
	for _, fi := range entries {
		mark(fi.id)
	}
	var unreached []string
	for _, fi := range x.funcs {
		if reach[fi.id] {
			continue
		}
		n := 0
		for _, e := range fi.body {
			if e.kind != evCall && !e.disabled {
				n++
			}
		}
		if n > 0 {
			unreached = append(unreached, fmt.Sprintf("%s (%s:%d, %d lock/access events)", fi.name, fi.file, fi.line, n))
		}
	}
	if len(unreached) > 0 {
		w("\n   FUNCTIONS WITH LOCK OPERATIONS OR TRACKED ACCESSES THAT NO CONSIDERED ENTRY POINT REACHES (not checked):\n")
		for _, s := range unreached {
			w("     %s\n", s)
		}
	}
	if len(excluded) > 0 {
		w("\n   PUBLIC ENTRY POINTS NOT CONSIDERED (policy.txt):\n")
		sort.Strings(excluded)
		for _, s := range excluded {
			w("     %s\n", s)
		}
	}
	if len(x.byNameRes) > 0 {
		w("\n   RESOLVED BY FIELD NAME:\n")
		seen := map[string]bool{}
		for _, s := range x.byNameRes {
			if !seen[s] {
				seen[s] = true
				w("     %s\n", s)
			}
		}
	}
	if len(x.ambiguous) > 0 {
		w("\n   CALLS WITH UNKNOWN RECEIVER TYPE whose name is also a vam method name (treated as external):\n")
		seen := map[string]bool{}
		for _, s := range x.ambiguous {
			if !seen[s] {
				seen[s] = true
				w("     %s\n", s)
			}
		}
	}
	for _, s := range x.notes {
		w("   NOTE %s\n", s)
	}
	w("*)\n")
	w("From Coq Require Import List String Bool.\nFrom Arsenal Require Import Conc ConcProofs.\nImport ListNotations.\nLocal Open Scope string_scope.\n\n")

	w("Definition skel_locks : list slock := [\n")
	for i, li := range x.locks {
		sep := ";"
		if i == len(x.locks)-1 {
			sep = ""
		}
		w("  mkLk %s %v %v %d%s\n", coqString(li.name), li.rw, li.enabled, li.rank, sep)
	}
	w("].\n\n")
	w("Definition skel_fields : list sfield := [\n")
	for i, f := range x.fields {
		sep := ";"
		if i == len(x.fields)-1 {
			sep = ""
		}
		lk := "None"
		if f.lock >= 0 {
			lk = fmt.Sprintf("(Some %d)", f.lock)
		}
		w("  (* %2d *) mkFd %s %s%s\n", i, coqString(f.name), lk, sep)
	}
	w("].\n\n")
	for _, fi := range x.funcs {
		w("(* %d: %s  %s:%d%s *)\n", fi.id, fi.name, fi.file, fi.line, map[bool]string{true: "  [lock wrapper: leaves the lock state changed]", false: ""}[fi.wraps])
		w("Definition f%d : sfunc := mkF %s %s %d [", fi.id, coqString(fi.name), coqString(fi.file), fi.line)
		for i, e := range fi.body {
			if i > 0 {
				w(";")
			}
			w("\n  ")
			mode := "MW"
			if e.read {
				mode = "MR"
			}
			switch e.kind {
			case evLock:
				w("SLock %d %s %d (* %s%s *)", e.a, mode, e.line, x.locks[e.a].name, map[bool]string{true: " — disabled lock, no-op", false: ""}[e.disabled])
			case evUnlock:
				w("SUnlock %d %s %v %d (* %s%s *)", e.a, mode, e.deferred, e.line, x.locks[e.a].name, map[bool]string{true: " — disabled lock, no-op", false: ""}[e.disabled])
			case evAcc:
				w("SAcc %d %s %d (* %s *)", e.a, []string{"KRd", "KWr", "KAt"}[e.acc], e.line, x.fields[e.a].name)
			case evCall:
				note := ""
				if e.deferred {
					note = " deferred"
				}
				if e.note != "" {
					note += " " + e.note
				}
				w("SCall %d %d (* %s%s *)", e.a, e.line, x.funcs[e.a].name, note)
			}
		}
		w("].\n")
	}
	w("\nDefinition skel_funcs : list sfunc := [")
	for i := range x.funcs {
		if i > 0 {
			w("; ")
		}
		if i%12 == 0 {
			w("\n  ")
		}
		w("f%d", i)
	}
	w("].\n\n")
	w("(* public API entry points (exported functions and methods of exported types of package vam) *)\n")
	w("Definition skel_entries : list nat := [")
	for i, fi := range entries {
		if i > 0 {
			w("; ")
		}
		w("\n  %d (* %s *)", fi.id, fi.name)
	}
	w("].\n\n")
	emitPolicy := func(name, kind, doc string) {
		w("(* %s *)\nDefinition %s : list spolicy := [", doc, name)
		first := true
		for _, pe := range pol.entries {
			if pe.kind != kind {
				continue
			}
			if !first {
				w(";")
			}
			first = false
			w("\n  mkPe %d %d %s (* %s / %s *)", byName[pe.fn].id, fieldByName[pe.field].id, coqString(pe.reason), pe.fn, pe.field)
		}
		w("].\n\n")
	}
	emitPolicy("skel_allow", "allow", "allow-list (policy.txt): accesses made while the named function is on the call stack, to an object that is not shared at that point")
	emitPolicy("skel_known_unprotected", "known", "known unprotected accesses (policy.txt): candidate defects, listed so that skeleton_ok states what holds apart from them")
	w("Definition skel : skeleton := mkSk skel_locks skel_fields skel_funcs skel_entries skel_allow skel_known_unprotected.\n\n")
	w("%s", footer)

	if *dump {
		for _, fi := range x.funcs {
			if len(fi.body) == 0 {
				continue
			}
			fmt.Fprintf(os.Stderr, "%s (%s:%d)\n", fi.name, fi.file, fi.line)
			for _, e := range fi.body {
				switch e.kind {
				case evLock:
					fmt.Fprintf(os.Stderr, "   %d lock   %s read=%v disabled=%v\n", e.line, x.locks[e.a].name, e.read, e.disabled)
				case evUnlock:
					fmt.Fprintf(os.Stderr, "   %d unlock %s read=%v deferred=%v\n", e.line, x.locks[e.a].name, e.read, e.deferred)
				case evAcc:
					fmt.Fprintf(os.Stderr, "   %d %s %s\n", e.line, []string{"read ", "write", "atomic"}[e.acc], x.fields[e.a].name)
				case evCall:
					fmt.Fprintf(os.Stderr, "   %d call   %s\n", e.line, x.funcs[e.a].name)
				}
			}
		}
	}

	if len(instUnlisted) > 0 {
		for _, s := range instUnlisted {
			fmt.Fprintf(os.Stderr, "lockskel: UNLISTED uninitialised lock instance: %s\n", s)
		}
		fmt.Fprintf(os.Stderr, "lockskel: add a known-instance line to the policy file (after reporting it) or fix the code\n")
		os.Exit(2)
	}
	if *out == "" {
		os.Stdout.Write(b.Bytes())
	} else {
		old, err := os.ReadFile(*out)
		if err == nil && bytes.Equal(old, b.Bytes()) {
			fmt.Fprintf(os.Stderr, "lockskel: %s unchanged\n", *out)
		} else {
			if err := os.WriteFile(*out, b.Bytes(), 0o644); err != nil {
				fatalf("cannot write %s: %v", *out, err)
			}
			fmt.Fprintf(os.Stderr, "lockskel: wrote %s\n", *out)
		}
	}
	nacc := 0
	for _, fi := range x.funcs {
		for _, e := range fi.body {
			if e.kind == evAcc {
				nacc++
			}
		}
	}
	fmt.Fprintf(os.Stderr, "lockskel: %d locks, %d fields, %d functions, %d entry points, %d access sites, %d nested-acquisition edges\n",
		len(x.locks), len(x.fields), len(x.funcs), len(entries), nacc, len(edges))
}

const footer = `Local Close Scope string_scope.
Local Open Scope list_scope.
Local Open Scope bool_scope.

(* ---- the obligation: fails to compile when the regenerated data violates the disciplines *)
Theorem skeleton_ok : check_lock_order skel && check_locksets skel = true.
Proof. vm_compute. reflexivity. Qed.

(* any number of threads, each running any sequence of the entry points, never deadlocks *)
Theorem vam_no_deadlock : forall P m0 tr s,
  api_program skel P ->
  exec (init P m0) tr s ->
  (exists t, todo (thr s t) <> []) ->
  exists t a s', step t s = Some (a, s').
Proof.
  intros P m0 tr s HP. apply (skeleton_no_deadlock skel); [exact skeleton_ok | exact HP].
Qed.

(* ... and conflicting plain accesses to a tracked field are ordered through the field's lock;
   fields of sync/atomic type are never accessed plainly *)
Theorem vam_lockset_consistent : forall P m0 pre t a mid t' a' post s x l,
  api_program skel P ->
  exec (init P m0) (pre ++ (t, a) :: mid ++ (t', a') :: post) s ->
  t <> t' -> sk_prot skel x = Some l ->
  plain_access x a = true -> plain_access x a' = true ->
  is_write a || is_write a' = true ->
  exists m1 r m2 q m3,
    mid = m1 ++ (t, r) :: m2 ++ (t', q) :: m3 /\ is_rel l r = true /\ is_acq l q = true.
Proof.
  intros P m0 pre t a mid t' a' post s x l HP.
  apply (skeleton_lockset_consistent skel); [exact skeleton_ok | exact HP].
Qed.

Theorem vam_atomic_fields_atomic : forall P m0 tr s t a x,
  api_program skel P ->
  exec (init P m0) tr s -> In (t, a) tr -> sk_atomic skel x = true -> plain_access x a = false.
Proof.
  intros P m0 tr s t a x HP. apply (skeleton_atomic_only skel); [exact skeleton_ok | exact HP].
Qed.
`
