"""coqcases.py — turns muh trace histories into a Coq file that replays them with Corr.v inside
the kernel (vm_compute) and prints the list of mismatching case indices."""
import re

def zs(x):
    x = int(x)
    return '(%d)' % x if x < 0 else str(x)

def tok(t):
    return {'E': -2, 'P': -3, 'panic': -3, '?': -4, 'X': -5}.get(t, None)

def enc_line(l):
    f = l.split()
    w = f[0]
    if w == 'R':
        k = {'ok': 0, 'refused': 1, 'error': 2, 'panic': 3, 'nolive': 4}[f[1]]
        return [1, k] + [int(x) for x in f[2:]]
    if w == 'S':
        return [2] + [int(x.split('=')[1]) for x in f[1:]]
    if w in ('L', 'V'):
        out = [3 if w == 'L' else 4]
        for e in f[1:]:
            if e == 'panic':
                out.append(-3); continue
            for p in e.split(':'):
                t = tok(p)
                out.append(t if t is not None else int(p))
        return out
    if w in ('ST', 'DS'):
        out = [5 if w == 'ST' else 6]
        for p in f[1:]:
            t = tok(p)
            out.append(t if t is not None else int(p))
        return out
    if w == 'IT':
        out = [7]
        for p in f[1:]:
            t = tok(p)
            out.append(t if t is not None else int(p))
        return out
    if w == 'FL':
        # FL outer | c:v ... | idx:off,off ...
        parts = l.split('|')
        out = [8, int(parts[0].split()[1])]
        for e in parts[1].split():
            c, v = e.split(':')
            out += [int(c), int(v)]
        out.append(-1)
        for e in parts[2].split():
            i, offs = e.split(':')
            offs = [int(x) for x in offs.split(',')]
            out += [int(i), len(offs)] + offs
        return out
    return None

def tagc(t):
    t = int(t)
    return 'None' if t < 0 else '(Some %s)' % zs(t)

def maxoff(x):
    x = int(x)
    return '9223372036854775807' if x < 0 else zs(x)

def enc_op(l):
    f = l.split()
    if f[0] == 'A':
        return '(CA %s %s %s %s %s %s %s)' % (zs(f[1]), zs(f[2]), zs(f[3]), zs(f[4]), 'true' if f[5] == '1' else 'false', maxoff(f[6]), tagc(f[7]))
    if f[0] == 'Q':
        return '(CQ %s %s %s %s %s %s)' % (zs(f[1]), zs(f[2]), zs(f[3]), zs(f[4]), 'true' if f[5] == '1' else 'false', maxoff(f[6]))
    if f[0] == 'F':
        return '(CF %s)' % zs(f[1])
    if f[0] == 'U':
        return '(CU %s %s)' % (zs(f[1]), tagc(f[2]))
    if f[0] == 'C':
        return 'CC'
    if f[0] == 'M':
        return '(CM %s %s)' % (zs(f[1]), zs(f[2]))
    raise ValueError(l)

def zl(v):
    return '[' + '; '.join(zs(x) for x in v) + ']'

def write_cases(picked, path):
    """picked: list of (algo, history dict from checklib.split_histories)"""
    cases = []
    for algo, h in picked:
        cfg = dict(kv.split('=') for kv in h['head'][1].split()[1:])
        if int(cfg['size']) > (1 << 40):
            continue
        lines = []
        for l in h['lines']:
            if l.startswith(('H ', 'CFG', 'END', 'ORACLE-FAIL')) or not l.strip():
                continue
            if l.split()[0] in ('A', 'Q', 'F', 'U', 'C', 'M'):
                continue
            e = enc_line(l)
            if e is not None:
                lines.append(e)
        ops = '[' + '; '.join(enc_op(o) for o in h['ops']) + ']'
        exp = '[' + ';\n    '.join(zl(v) for v in lines) + ']'
        cases.append('(%s, %s, %s, %s, %s,\n   %s)' % ('true' if algo == 'linear' else 'false', 'true' if cfg['handler'] == 'vam' else 'false', zs(cfg['gran']), zs(cfg['size']), ops, exp))
    with open(path, 'w') as f:
        f.write('From Coq Require Import ZArith List.\nFrom Arsenal Require Import Util Gran Tlsf Corr.\nImport ListNotations.\nOpen Scope Z_scope.\n')
        f.write('Definition cases : list case := [\n' + ';\n'.join(cases) + '].\n')
        f.write('Definition M := Eval vm_compute in mismatches cases.\nPrint M.\n')
    return len(cases)
