# sourced by every script: offline Go environment + stub libvulkan
export VERIF=/verif
export GOFLAGS=-mod=mod GOPROXY=off GOTOOLCHAIN=local
export GOCACHE=${GOCACHE:-/verif/build/gocache}
if command -v go1.26 >/dev/null 2>&1; then GO=go1.26; else GO=go; unset GOTOOLCHAIN; fi
export GO
if [ ! -f /verif/build/stub/libvulkan.a ]; then
  mkdir -p /verif/build/stub
  gcc -c -fPIC /verif/stub/vulkan_stub.c -o /verif/build/stub/vs.o && ar rcs /verif/build/stub/libvulkan.a /verif/build/stub/vs.o
fi
export CGO_LDFLAGS=-L/verif/build/stub
