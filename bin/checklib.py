"""checklib.py — orchestration shared by bin/check: builds, gate, correspondence, oracles,
in-Coq sample, verdict, evidence."""
import hashlib, json, os, re, subprocess, sys, time, glob, shutil

V = '/verif'
B = V + '/build'
COQ = V + '/coq'
ENV = None

FORBIDDEN = re.compile(r'\b(Admitted|admit|Axiom|Axioms|Parameter|Parameters|Conjecture|Hypothesis|Variable)\b|Unset\s+Guard|bypass_check|type-in-type|impredicative-set|Admit\s+Obligations|Unset\s+Positivity|Unset\s+Universe')

# ---------------------------------------------------------------------------------------------
# property table: which components (engine, algo, profiles) a property depends on, and which
# oracle properties are reported by it.  n/ops = (quick, thorough).
MUH_TLSF = ['basic', 'gran', 'align', 'malformed', 'niltag', 'fill', 'churn']
MUH_LIN = ['basic', 'upper', 'ring', 'compact', 'malformed', 'niltag', 'gran']

VAMH_ALL = ['basic', 'map', 'pools', 'limits', 'defrag', 'gran', 'malformed', 'teardown']

# per property: muh = {algo: profiles}; eng = {engine: profiles} (generic engines, ENGINES.md);
# vamh = dict(profiles=[...], faults=[profiles], race=bool, extra=[other property ids whose vamh
# oracle signatures also count for this property])
PROPS = {
    'C01': dict(muh={'tlsf': MUH_TLSF, 'linear': MUH_LIN}),
    'C02': dict(vamh=dict(profiles=VAMH_ALL), muh={'tlsf': ['basic', 'align'], 'linear': ['basic', 'upper']}),
    'C03': dict(muh={'tlsf': MUH_TLSF, 'linear': MUH_LIN}, vamh=dict(profiles=['basic', 'pools', 'defrag']), special=['wrap16']),
    'C04': dict(vamh=dict(profiles=VAMH_ALL, faults=['basic', 'pools']), eng={'devh': ['limit', 'count', 'allocfault', 'budgetext']}),
    'C05': dict(muh={'tlsf': MUH_TLSF}),
    'C06': dict(muh={'tlsf': MUH_TLSF, 'linear': MUH_LIN}),
    'C07': dict(vamh=dict(profiles=['defrag', 'pools', 'gran']), eng={'dfh': None}),
    'C08': dict(vamh=dict(profiles=VAMH_ALL), eng={'devh': ['basic', 'hyst', 'persist', 'mapfault', 'malformed']}),
    'C09': dict(muh={'tlsf': ['gran', 'basic'], 'linear': ['gran', 'upper', 'ring']}, vamh=dict(profiles=['gran', 'defrag']), eng={'dfh': ['gran', 'commitfail']}),
    'C10': dict(vamh=dict(profiles=['basic'], faults=['basic', 'map', 'pools', 'limits', 'defrag']), eng={'devh': ['mapfault', 'allocfault', 'limit']}),
    'C11': dict(vamh=dict(profiles=['limits', 'pools', 'basic'], race=True), eng={'devh': ['limit', 'count', 'allocfault']}),
    'C12': dict(vamh=dict(profiles=['basic'], race=True)),
    'C13': dict(muh={'tlsf': MUH_TLSF, 'linear': MUH_LIN}, vamh=dict(profiles=VAMH_ALL)),
    'C14': dict(vamh=dict(profiles=['map', 'defrag', 'basic', 'pools']), eng={'devh': ['basic', 'hyst', 'persist', 'mapfault']}),
    'C15': dict(eng={'dfh': None}, vamh=dict(profiles=['defrag'])),
    'C16': dict(muh={'linear': MUH_LIN}),
    'C17': dict(muh={'tlsf': MUH_TLSF, 'linear': MUH_LIN}),
    'C18': dict(muh={'tlsf': MUH_TLSF, 'linear': MUH_LIN}),
    'C19': dict(eng={'selh': None}, vamh=dict(profiles=['basic', 'limits'])),
    'C20': dict(vamh=dict(profiles=['teardown', 'pools', 'basic', 'defrag'])),
}

TIMEOUTS = []   # commands that did not finish (reported by the verdict: possible non-termination)

def sh(cmd, timeout=3600, cwd=V, env=None):
    try:
        p = subprocess.run(cmd, shell=isinstance(cmd, str), cwd=cwd, capture_output=True, text=True, timeout=timeout, env=env)
    except subprocess.TimeoutExpired as e:
        def txt(x):
            return x.decode('utf-8', 'replace') if isinstance(x, bytes) else (x or '')
        TIMEOUTS.append(cmd if isinstance(cmd, str) else ' '.join(str(c) for c in cmd))
        return 124, txt(e.stdout), txt(e.stderr) + '\n[timeout after %ds]' % timeout
    return p.returncode, p.stdout, p.stderr

def goenv():
    global ENV
    if ENV is None:
        rc, out, err = sh("bash -c '. /verif/bin/env.sh >/dev/null 2>&1; env'")
        ENV = dict(l.split('=', 1) for l in out.split('\n') if '=' in l)
    return ENV

def ophash(lines):
    return hashlib.sha1('\n'.join(lines).encode()).hexdigest()[:12]

OPK = ('A', 'Q', 'F', 'U', 'C', 'M', 'LSC', 'LAL', 'LPG', 'LCF', 'LRU')
OBSK = ('R', 'S', 'L', 'V', 'ST', 'DS', 'IT', 'ORACLE-FAIL', 'H', 'CFG', 'END')

def split_histories(text, opk=OPK):
    """-> list of dict(head=[H,CFG], ops=[...], lines=[all lines incl observables], fails=[ORACLE lines])"""
    hs, cur = [], None
    for l in text.split('\n'):
        if l.startswith('H '):
            cur = dict(head=[l], ops=[], lines=[l], fails=[])
            hs.append(cur)
        elif cur is not None:
            cur['lines'].append(l)
            w = l.split(' ', 1)[0]
            if w == 'CFG':
                cur['head'].append(l)
            elif w in opk:
                cur['ops'].append(l)
            elif w == 'ORACLE-FAIL':
                cur['fails'].append(l)
    return hs

class Known:
    def __init__(self):
        self.findings, self.fixed = [], []
        p = V + '/known_findings.txt'
        if os.path.exists(p):
            for l in open(p):
                l = l.strip()
                if l.startswith('finding:'):
                    m = re.search(r'property=(\S+)\s+sig=(\S+)(?:\s+key=(\S+))?\s*(.*)', l)
                    if m:
                        self.findings.append(dict(prop=m.group(1), sig=m.group(2), key=m.group(3), text=m.group(4)))
                elif l.startswith('fixed:'):
                    self.fixed.append(l)

    def match(self, prop, line):
        for f in self.findings:
            if f['prop'] == prop and ('sig=' + f['sig'] + ' ') in line + ' ' and (not f['key'] or f['key'] in line):
                return f
        return None

class Check:
    def __init__(self, pid, tier, seed, t0):
        self.pid, self.tier, self.seed, self.t0 = pid, tier, seed, t0
        self.quick = tier == 'quick'
        self.rundir = '%s/run/%s' % (B, pid)
        shutil.rmtree(self.rundir, ignore_errors=True)
        os.makedirs(self.rundir, exist_ok=True)
        os.makedirs(V + '/evidence', exist_ok=True)
        os.makedirs(V + '/replays', exist_ok=True)
        self.known = Known()
        self.violations = []      # (replay_path, text, found_input: bool)
        self.known_hits = []
        self.cov = dict(evaluations=0, distinct_nontrivial=0, samples=[], traces_validated_against_impl=0,
                        distribution={}, corpus_entries=0, in_coq_cases=0, mismatches=0, oracle_failures=0)
        self.hashes = set()
        self.nontrivial = set()
        self.proof = dict(ok=False, obligations=0, discharged=0, assumptions='', cone=[], log='')
        self.engine_missing = []
        self.vamh_distinct = 0
        self.vamh_nontrivial = 0
        self.race_exit = None
        self.spec = PROPS.get(pid)

    # ------------------------------------------------------------------ builds
    def build(self):
        notes = []
        need = ['muh']
        if self.spec and self.spec.get('vamh'):
            need.append('vamh')
            if self.spec['vamh'].get('race'):
                need.append('vamh_race')
        for e in (self.spec or {}).get('eng', {}):
            if os.path.exists('%s/harness/cmd/%s/main.go' % (V, e)):
                need.append(e)
        rc, out, err = sh(['bash', V + '/bin/build-harness'] + need, timeout=1800)
        if rc != 0:
            notes.append('harness build failed: ' + (out + err)[-2000:])
            self.build_fail = 'harness'
        # the lock/access skeleton of vam (C12) is regenerated from /repo's current tree on every run
        self.skeleton_rc, sk_out, sk_err = sh(['bash', V + '/bin/gen-skeleton'], timeout=600)
        self.skeleton_log = (sk_out + sk_err)[-1500:]
        rc, out, err = sh(['bash', V + '/bin/build-model'], timeout=3400)
        self.proof['log'] = (out + err)[-4000:]
        self.model_ok = os.path.exists(B + '/ocaml/driver')
        return notes

    def proof_status(self):
        """cone of Props/<pid>.v, obligations, Print Assumptions, forbidden-pattern gate"""
        pfile = '%s/Props/%s.v' % (COQ, self.pid)
        pr = self.proof
        if not os.path.exists(pfile):
            pr['missing'] = True
            return
        files = [l.strip() for l in open(COQ + '/_CoqProject') if l.strip().endswith('.v') and os.path.exists(COQ + '/' + l.strip())]
        rc, out, err = sh(['coqdep', '-Q', 'theories', 'Arsenal', '-Q', 'Props', 'Arsenal.Props'] + files, cwd=COQ)
        deps = {}
        for l in out.split('\n'):
            if ':' not in l:
                continue
            tg, ds = l.split(':', 1)
            tgt = [t for t in tg.split() if t.endswith('.vo')]
            if not tgt:
                continue
            deps[tgt[0]] = [d for d in ds.split() if d.endswith('.vo')]
        cone, todo = set(), ['Props/%s.vo' % self.pid]
        while todo:
            x = todo.pop()
            if x in cone:
                continue
            cone.add(x)
            todo += deps.get(x, [])
        pr['cone'] = sorted(c[:-1] for c in cone)
        stmts = re.compile(r'^\s*(Lemma|Theorem|Corollary|Example|Fact|Remark|Proposition|Instance)\s+(\w+)', re.M)
        obl, dis, bad = 0, 0, []
        memo = {}

        def fresh(vf):
            # a compiled file counts only if it is newer than its source and than the (fresh) compiled
            # files it depends on: after a failed `make` the old .vo of a broken file is still there
            if vf in memo:
                return memo[vf]
            memo[vf] = False
            vo = COQ + '/' + vf + 'o'
            ok = os.path.exists(vo) and os.path.getmtime(vo) >= os.path.getmtime(COQ + '/' + vf)
            if ok:
                for d in deps.get(vf + 'o', []):
                    dv = d[:-1]
                    if not os.path.exists(COQ + '/' + dv):
                        continue    # library outside the development
                    if not fresh(dv) or os.path.getmtime(COQ + '/' + d) > os.path.getmtime(vo):
                        ok = False
                        break
            memo[vf] = ok
            return ok

        for vf in pr['cone']:
            src = open(COQ + '/' + vf).read()
            nocom = re.sub(r'\(\*.*?\*\)', '', src, flags=re.S)
            n = len(stmts.findall(nocom))
            obl += n
            if fresh(vf):
                dis += n
            else:
                bad.append(vf)
            for m in FORBIDDEN.finditer(nocom):
                # Variable/Hypothesis are fine inside sections; flag only outside
                if m.group(1) in ('Variable', 'Hypothesis') and re.search(r'^\s*Section\b', nocom, re.M):
                    continue
                bad.append('%s: forbidden "%s"' % (vf, m.group(0)))
        pr['obligations'], pr['discharged'], pr['bad'] = obl, dis, bad
        # second tie (translator): when the obligations about the code generated from the Go source no longer
        # check, look for a concrete input on which generated code and hand model differ
        if 'theories/GenLeafProofs.v' in pr['cone'] and any('GenLeaf' in b for b in bad):
            rc3, lout, lerr = sh(['python3', V + '/bin/leaf-search'], timeout=600)
            pr['leaf_diff'] = [l for l in lout.split('\n') if l.startswith('LEAF-DIFF')]
        # Print Assumptions: recompile the property file alone, capture output
        rc, out, err = sh('coqc -Q theories Arsenal -Q Props Arsenal.Props Props/%s.v' % self.pid, cwd=COQ, timeout=1800)
        pr['assumptions'] = out.strip()
        closed = out.count('Closed under the global context')
        axioms, in_ax = [], False
        for l in out.split('\n'):
            if l.startswith('Axioms:'):
                in_ax = True
                continue
            if in_ax:
                if l.strip() == '' or 'Closed under' in l or l.startswith('     =') or not l.startswith(' ') and ':' not in l:
                    in_ax = False
                else:
                    axioms.append(l.strip())
        pr['axioms'] = axioms
        pr['n_theorems'] = closed + (1 if axioms else 0)
        if self.pid == 'C12' and getattr(self, 'skeleton_rc', 0) != 0:
            bad.append('lock skeleton extractor failed on the current source: ' + getattr(self, 'skeleton_log', ''))
        pr['ok'] = (rc == 0 and not bad and closed > 0 and not axioms)
        if not self.quick and rc == 0:
            # thorough tier: independent re-check of the compiled property file and everything it depends on
            t1 = time.time()
            try:
                crc, cout, cerr = sh('coqchk -silent -o -Q theories Arsenal -Q Props Arsenal.Props Arsenal.Props.%s' % self.pid, cwd=COQ, timeout=5400)
            except subprocess.TimeoutExpired:
                crc, cout, cerr = 124, '', 'coqchk timed out after 5400 s'
            summ = ' '.join((cout + cerr).split())
            pr['coqchk'] = 'rc=%d %.0fs %s' % (crc, time.time() - t1, summ[-700:])
            if crc != 0:
                bad.append('coqchk rejects Props/%s.vo: %s' % (self.pid, summ[-1500:]))
                pr['ok'] = False
            elif '* Axioms: <none>' not in (cout + cerr):
                bad.append('coqchk reports axioms: %s' % summ[-1500:])
                pr['ok'] = False
        if rc != 0:
            pr['bad'].append('Props/%s.v does not compile: %s' % (self.pid, (out + err)[-1500:]))

    # ------------------------------------------------------------------ correspondence (muh)
    def run_impl(self, ops_text, tag):
        p = '%s/%s.ops' % (self.rundir, tag)
        open(p, 'w').write(ops_text)
        rc, out, err = sh([B + '/muh', 'run', p], timeout=600)
        return out, err

    def run_model(self, trace_path):
        rc, out, err = sh([B + '/ocaml/driver', trace_path], timeout=600)
        return out, rc, err

    def compare(self, impl_text, model_text):
        """returns list of (history_index, first differing impl line, model line)"""
        hi = split_histories(impl_text)
        hm = split_histories(model_text)
        mism = []
        for i, h in enumerate(hi):
            a = [l for l in h['lines'] if not l.startswith('ORACLE-FAIL')]
            b = hm[i]['lines'] if i < len(hm) else []
            if a != b:
                j = 0
                while j < len(a) and j < len(b) and a[j] == b[j]:
                    j += 1
                mism.append((i, a[j] if j < len(a) else '<end>', b[j] if j < len(b) else '<end>'))
        return hi, mism

    def nontrivial_history(self, h):
        """a history is non-trivial if it has >= 3 successful allocations and at least one free or
        refusal (reaches fragmentation / refusal logic)"""
        oks = sum(1 for l in h['lines'] if l.startswith('R ok'))
        return len(h['ops']) >= 5 and oks >= 4 and any(o.startswith('F ') for o in h['ops'])

    def account(self, hs, algo, prof):
        for h in hs:
            self.cov['evaluations'] += 1
            hh = ophash(h['head'][1:] + h['ops'])
            if hh not in self.hashes:
                self.hashes.add(hh)
                if self.nontrivial_history(h):
                    self.nontrivial.add(hh)
            for o in h['ops']:
                k = algo + ':' + o.split(' ', 1)[0]
                self.cov['distribution'][k] = self.cov['distribution'].get(k, 0) + 1
        if hs and len(self.cov['samples']) < 4:
            h = min(hs[:50], key=lambda x: abs(len(x['ops']) - 8))
            self.cov['samples'].append(dict(component=algo, profile=prof, history=h['head'][1:] + h['ops'][:12],
                                            observed=[l for l in h['lines'] if l[:2] in ('R ', 'S ')][:12]))

    def shrink(self, head, ops, pred):
        n = 2
        cnt = 0
        t_end = time.time() + 150     # shrinking is a convenience: never let it dominate a check
        while len(ops) >= 2 and cnt < 400 and time.time() < t_end:
            chunk = max(1, len(ops) // n)
            reduced = False
            i = 0
            while i < len(ops) and cnt < 400 and time.time() < t_end:
                cand = ops[:i] + ops[i + chunk:]
                cnt += 1
                if cand and pred(head, cand):
                    ops = cand; reduced = True
                else:
                    i += chunk
            if not reduced:
                if chunk == 1:
                    break
                n = min(len(ops), n * 2)
        return ops

    def history_fails(self, head, ops, sig):
        out, err = self.run_impl('\n'.join(head + ops + ['END']) + '\n', 'shrink')
        return any(l.startswith('ORACLE-FAIL') and sig in l for l in out.split('\n'))

    def history_mismatches(self, head, ops):
        text = '\n'.join(head + ops + ['END']) + '\n'
        out, err = self.run_impl(text, 'shrinkm')
        open(self.rundir + '/shrinkm.trace', 'w').write(out)
        mout, rc, merr = self.run_model(self.rundir + '/shrinkm.trace')
        hi, mism = self.compare(out, mout)
        return bool(mism) or rc != 0

    def handle_history(self, h, mismatch, source):
        """examine one history of the implementation trace: oracle failures of this property and
        correspondence mismatch"""
        mine = [l for l in h['fails'] if ('property=%s ' % self.pid) in l or 'property=HANG ' in l]
        self.cov['oracle_failures'] += len(mine)
        new = []
        for l in mine:
            kf = self.known.match(self.pid, l)
            if kf:
                self.known_hits.append((kf, l))
            else:
                new.append(l)
        if new:
            sig = re.search(r'sig=(\S+)', new[0]).group(1)
            ops = self.shrink(h['head'], h['ops'], lambda hd, o: self.history_fails(hd, o, 'sig=' + sig))
            text = '\n'.join(h['head'] + ops + ['END']) + '\n'
            out, err = self.run_impl(text, 'final')
            rp = '%s/replays/%s-%s.trace' % (V, self.pid, ophash(ops))
            open(rp, 'w').write('# %s: oracle failure on the real code (%s)\n# %s\n' % (self.pid, source, new[0]) + out)
            self.violations.append((rp, new[0], True))
        elif mismatch is not None:
            self.cov['mismatches'] += 1
            ops = self.shrink(h['head'], h['ops'], lambda hd, o: self.history_mismatches(hd, o))
            text = '\n'.join(h['head'] + ops + ['END']) + '\n'
            # the model and the code disagree here: search around this history for an input on which
            # the property itself fails (random continuations of the diverging history, oracle on the code)
            if self.extension_search(h['head'], ops, source):
                return
            out, err = self.run_impl(text, 'final')
            open(self.rundir + '/final.trace', 'w').write(out)
            mout, rc, merr = self.run_model(self.rundir + '/final.trace')
            rp = '%s/replays/%s-corr-%s.trace' % (V, self.pid, ophash(ops))
            open(rp, 'w').write('# %s: correspondence broken (%s): implementation and Coq model disagree; no oracle of this property fails on this history\n# first divergence: impl %r model %r\n# --- implementation trace\n%s# --- model trace\n%s' % (self.pid, source, mismatch[1], mismatch[2], out, mout))
            self.violations.append((rp, 'correspondence mismatch impl=%r model=%r' % (mismatch[1], mismatch[2]), False))

    def extension_search(self, head, ops, source):
        cfgl = [l for l in head if l.startswith('CFG')]
        if not cfgl or 'algo=leaf' in cfgl[0]:
            return False
        algo = 'linear' if 'algo=linear' in cfgl[0] else 'tlsf'
        pf = self.rundir + '/prefix.ops'
        open(pf, 'w').write('\n'.join(head + ops + ['END']) + '\n')
        for prof in ('fill', 'basic', 'churn'):
            rc, out, err = sh([B + '/muh', 'gen', '-algo', algo, '-seed', str(self.seed + 17), '-n', '150', '-ops', '40',
                               '-profile', prof, '-prefix', pf], timeout=900)
            for hh in split_histories(out):
                mine = [l for l in hh['fails'] if ('property=%s ' % self.pid) in l and not self.known.match(self.pid, l)]
                if mine:
                    sig = re.search(r'sig=(\S+)', mine[0]).group(1)
                    sops = self.shrink(hh['head'], hh['ops'], lambda hd, o: self.history_fails(hd, o, 'sig=' + sig))
                    o2, e2 = self.run_impl('\n'.join(hh['head'] + sops + ['END']) + '\n', 'final')
                    rp = '%s/replays/%s-%s.trace' % (V, self.pid, ophash(sops))
                    open(rp, 'w').write('# %s: oracle failure on the real code, found by extending a history on which model and code diverge (%s)\n# %s\n' % (self.pid, source, mine[0]) + o2)
                    self.violations.append((rp, mine[0], True))
                    return True
        return False

    def corr_text(self, impl_text, algo, prof, source):
        tp = '%s/%s-%s.trace' % (self.rundir, algo, prof)
        open(tp, 'w').write(impl_text)
        mout, rc, merr = self.run_model(tp)
        hi, mism = self.compare(impl_text, mout)
        self.cov['traces_validated_against_impl'] += len(hi) - len(mism)
        self.account(hi, algo, prof)
        mm = {i: (i, a, b) for i, a, b in mism}
        budget = 3   # examine at most 3 failing histories per component (each is shrunk)
        for i, h in enumerate(hi):
            bad = any(('property=%s ' % self.pid) in l or 'property=HANG ' in l for l in h['fails'])
            if (bad or i in mm) and budget > 0:
                before = len(self.violations) + len(self.known_hits)
                self.handle_history(h, mm.get(i), source)
                if len(self.violations) + len(self.known_hits) > before:
                    budget -= 1
        return hi

    def muh_component(self, algo, profiles):
        n, ops = (300, 80) if self.quick else (1500, 200)
        if algo == 'leaf':
            # pure helper functions (size classes, alignment, page test, conflict table, rounding):
            # boundary sweep + random arguments, implementation vs. model
            s = (self.seed * 31 + 7) % (1 << 62)
            rc, out, err = sh([B + '/muh', 'gen', '-algo', 'leaf', '-seed', str(s), '-n', str(400 if self.quick else 20000)], timeout=3000)
            self.corr_text(out, 'leaf', 'leaf', 'leaf functions seed=%d' % s)
            return
        for pi, prof in enumerate(profiles):
            s = (self.seed * 1000003 + pi * 7919 + (0 if algo == 'tlsf' else 104729)) % (1 << 62)
            rc, out, err = sh([B + '/muh', 'gen', '-algo', algo, '-seed', str(s), '-n', str(n), '-ops', str(ops), '-profile', prof], timeout=3000)
            self.corr_text(out, algo, prof, 'generated algo=%s profile=%s seed=%d' % (algo, prof, s))
            if self.pid == 'C16' and algo == 'linear':
                self.spec_compare('%s/%s-%s.trace' % (self.rundir, algo, prof), prof)

    # ------------------------------------------------------------------ generic engines (ENGINES.md)
    def engine_component(self, eng, profiles):
        ej = '%s/harness/cmd/%s/engine.json' % (V, eng)
        binp, drv = '%s/%s' % (B, eng), '%s/ocaml/drv_%s' % (B, eng)
        if not (os.path.exists(ej) and os.path.exists(binp)):
            self.engine_missing.append(eng)
            return
        meta = json.load(open(ej))
        opk = tuple(meta.get('ops', []))
        profs = profiles or meta.get('profiles', ['basic'])
        n, ops = (80, 60) if self.quick else (2500, 150)
        for pi, prof in enumerate(profs):
            s = (self.seed * 1000003 + pi * 7919 + sum(map(ord, eng))) % (1 << 62)
            rc, out, err = sh([binp, 'gen', '-seed', str(s), '-n', str(n), '-ops', str(ops), '-profile', prof], timeout=3000)
            tp = '%s/%s-%s.trace' % (self.rundir, eng, prof)
            open(tp, 'w').write(out)
            hi = split_histories(out, opk)
            if os.path.exists(drv):
                rc2, mout, merr = sh([drv, tp], timeout=1200)
                hm = split_histories(mout, opk)
            else:
                hm, rc2 = [], 1
                self.engine_missing.append(eng + ' (model driver)')
            for i, h in enumerate(hi):
                self.cov['evaluations'] += 1
                hh = ophash([eng] + h['head'][1:] + h['ops'])
                if hh not in self.hashes:
                    self.hashes.add(hh)
                    if len(h['ops']) >= meta.get('nontrivial_min_ops', 5):
                        self.nontrivial.add(hh)
                for o in h['ops']:
                    k = eng + ':' + o.split(' ', 1)[0]
                    self.cov['distribution'][k] = self.cov['distribution'].get(k, 0) + 1
                a = [l for l in h['lines'] if not l.startswith('ORACLE-FAIL')]
                b = hm[i]['lines'] if i < len(hm) else None
                mine = [l for l in h['fails'] if ('property=%s ' % self.pid) in l]
                self.cov['oracle_failures'] += len(mine)
                new = [l for l in mine if not self.known.match(self.pid, l)]
                for l in mine:
                    kf = self.known.match(self.pid, l)
                    if kf:
                        self.known_hits.append((kf, l))
                if new and len([v for v in self.violations if v[2]]) < 3:
                    rp = '%s/replays/%s-%s-%s.trace' % (V, self.pid, eng, ophash(h['ops']))
                    open(rp, 'w').write('# %s: oracle failure on the real code (engine %s profile %s seed %d)\n# %s\n' % (self.pid, eng, prof, s, new[0]) + '\n'.join(h['lines']) + '\n')
                    self.violations.append((rp, new[0], True))
                elif b is not None and a != b:
                    self.cov['mismatches'] += 1
                    if len([v for v in self.violations if not v[2]]) < 3:
                        j = 0
                        while j < len(a) and j < len(b) and a[j] == b[j]:
                            j += 1
                        rp = '%s/replays/%s-%s-corr-%s.trace' % (V, self.pid, eng, ophash(h['ops']))
                        open(rp, 'w').write('# %s: correspondence broken (engine %s): first divergence impl %r model %r\n# --- implementation trace\n%s\n# --- model trace\n%s\n' % (
                            self.pid, eng, a[j] if j < len(a) else '<end>', b[j] if j < len(b) else '<end>', '\n'.join(h['lines']), '\n'.join(b)))
                        self.violations.append((rp, 'correspondence mismatch (engine %s) impl=%r model=%r' % (eng, a[j] if j < len(a) else '<end>', b[j] if j < len(b) else '<end>'), False))
                elif b is not None:
                    self.cov['traces_validated_against_impl'] += 1
            if hi and len(self.cov['samples']) < 6:
                h = min(hi[:50], key=lambda x: abs(len(x['ops']) - 8))
                self.cov['samples'].append(dict(component=eng, profile=prof, history=h['head'][1:] + h['ops'][:12],
                                                observed=[l for l in h['lines'] if l.startswith('R ')][:12]))

    # ------------------------------------------------------------------ whole allocator (vamh)
    VAMH_ALSO = {'C10': ('C13',), 'C02': (), 'C20': ()}

    def vamh_failures(self, failures, source, under_faults=False, tracedir=None):
        for f in failures or []:
            prop, sig = f.get('property'), f.get('sig', '')
            if prop != self.pid:
                # C10: an operation whose driver call was made to fail must return an error; a panic
                # (reported by vamh under C13) in a fault-injection history is a C10 violation as well
                faulty = under_faults or 'core' in str(f.get('first_history', ''))    # every core profile arms driver faults
                if not (self.pid == 'C10' and prop == 'C13' and sig.startswith('panic') and faulty):
                    continue
                prop = 'C10'
            if under_faults and 'released-spare-block' in sig:
                continue    # giving back a spare block after a device fault is not a leak (C10)
            line = 'ORACLE-FAIL property=%s sig=%s %s' % (prop, sig, f.get('example_detail', ''))
            self.cov['oracle_failures'] += f.get('histories', 1)
            kf = self.known.match(self.pid, line)
            if kf:
                self.known_hits.append((kf, line))
                continue
            rp = '%s/replays/%s-vamh-%s.trace' % (V, self.pid, re.sub(r'[^A-Za-z0-9]+', '-', sig)[:60])
            mt = f.get('minimal_trace')
            if not (mt and os.path.exists(mt)) and tracedir and f.get('first_history'):
                mt = '%s/%s.trace' % (tracedir, f['first_history'])
            if mt and os.path.exists(mt):
                shutil.copy(mt, rp)
            else:
                open(rp, 'w').write('# %s\n' % line)
            self.violations.append((rp, line + ' [' + source + ']', True))

    def vamh_component(self, vs):
        if not os.path.exists(B + '/vamh'):
            self.engine_missing.append('vamh')
            return
        # corpus of minimal failing traces found earlier (all must be fixed/absent now)
        rc, out, err = sh([B + '/vamh', 'check', V + '/harness/cmd/vamh/corpus'], timeout=1800)
        for l in out.split('\n'):
            if 'STILL FAILS' in l or 'other failures' in l:
                sigs = l.split('FAILS')[-1] if 'STILL FAILS' in l else l.split('other failures')[-1]
                for ps in sigs.split():
                    if ps.startswith(self.pid + '/'):
                        line = 'ORACLE-FAIL property=%s sig=%s corpus trace %s' % (self.pid, ps.split('/', 1)[1], l.split()[0])
                        if self.known.match(self.pid, line):
                            self.known_hits.append((self.known.match(self.pid, line), line))
                        else:
                            rp = V + '/harness/cmd/vamh/corpus/' + l.split()[0]
                            self.violations.append((rp, line, True))
            if l.strip():
                self.cov['corpus_entries'] += 1
        npf = max(1, len(vs['profiles']))
        n, ops = (200 * npf, 80) if self.quick else (3000 * npf, 140)    # histories are split over the profiles
        outd = self.rundir + '/vamh'
        sj = self.rundir + '/vamh.json'
        rc, out, err = sh([B + '/vamh', 'gen', '-seed', str(self.seed % (1 << 62)), '-n', str(n), '-ops', str(ops), '-profile', ','.join(vs['profiles']),
                           '-out', outd, '-keep-traces=false', '-summary', sj], timeout=3300)
        try:
            d = json.load(open(sj))
        except Exception:
            self.violations.append((self.write_note('vamh-run', out + err), 'vamh gen did not produce a summary', False))
            return
        self.cov['evaluations'] += d.get('histories', 0)
        reach = d.get('histories_reaching', {})
        self.vamh_distinct = d.get('distinct_histories', 0)
        self.cov['distribution'].update({'vamh:' + k: v for k, v in d.get('op_kinds', {}).items()})
        self.cov['vamh'] = {k: d.get(k) for k in ('histories', 'distinct_histories', 'total_ops', 'results_by_op', 'error_codes', 'driver_calls',
                                                  'hysteresis_toggles', 'cross_block_defrag_moves', 'defrag_passes', 'max_live_allocs',
                                                  'max_blocks_in_one_list', 'histories_reaching', 'histories_per_profile')}
        self.vamh_nontrivial = max([0] + [v for k, v in reach.items() if k in ('three_or_more_device_memory_objects', 'device_memory_freed_before_teardown', 'allocator_destroyed')])
        self.vamh_failures(d.get('oracle_failures'), 'vamh gen seed=%d' % self.seed)
        if len(self.cov['samples']) < 6:
            self.cov['samples'].append(dict(component='vamh', profiles=vs['profiles'], note='op kinds and results of this run', ops=d.get('op_kinds'), results=d.get('results')))
        # fixed scenarios: vam.New with malformed / boundary CreateOptions (the histories use well-formed ones only)
        if self.pid in ('C13', 'C20'):
            rc, out, err = sh([B + '/vamh', 'newargs'], timeout=300)
            self.cov['evaluations'] += 7
            for l in out.split('\n'):
                if l.startswith('ORACLE-FAIL') and ('property=%s ' % self.pid) in l:
                    self.cov['oracle_failures'] += 1
                    self.violations.append((self.write_note('newargs', out), l, True))
        # correspondence of the whole-allocator model Vam.v (extracted: build/ocaml/drv_vamh) with the
        # real allocator on the profiles the model covers completely
        drv = B + '/ocaml/drv_vamh'
        if os.path.exists(drv):
            cn, co = (500, 70) if self.quick else (10000, 120)
            cd = self.rundir + '/vamh-core'
            sh([B + '/vamh', 'gen', '-seed', str((self.seed + 11) % (1 << 62)), '-n', str(cn), '-ops', str(co), '-profile', 'core,core2,core3,core4,core5',
                '-out', cd, '-shrink=false', '-summary', cd + '.json'], timeout=3300)
            try:
                self.vamh_failures(json.load(open(cd + '.json')).get('oracle_failures'), 'vamh gen core profiles seed=%d' % (self.seed + 11), tracedir=cd)
            except Exception:
                pass
            drvc = self.rundir + '/drv_vamh'
            shutil.copy(drv, drvc)
            for tf in sorted(glob.glob(cd + '/h*.trace')):
                impl = [l for l in open(tf).read().split('\n') if not l.startswith(('VIOL', 'NOTE', 'ORACLE-FAIL', '#'))]
                rc2, mout, merr = sh([drvc, tf], timeout=600)
                mod = mout.split('\n')
                self.cov['evaluations'] += 1
                hh = ophash(['vamh-core'] + [l for l in impl if l.startswith('OP ')])
                if hh not in self.hashes:
                    self.hashes.add(hh)
                    self.nontrivial.add(hh)
                if impl == mod:
                    self.cov['traces_validated_against_impl'] += 1
                else:
                    self.cov['mismatches'] += 1
                    if len([v for v in self.violations if not v[2]]) < 2:
                        j = 0
                        while j < len(impl) and j < len(mod) and impl[j] == mod[j]:
                            j += 1
                        rp = '%s/replays/%s-vamh-corr-%s' % (V, self.pid, os.path.basename(tf))
                        shutil.copy(tf, rp)
                        self.violations.append((rp, 'correspondence mismatch (whole-allocator model) at line %d: impl=%r model=%r' % (
                            j, impl[j] if j < len(impl) else '<end>', mod[j] if j < len(mod) else '<end>'), False))
        for prof in vs.get('faults', []):
            fn, fo = (6, 40) if self.quick else (60, 60)
            rc, out, err = sh([B + '/vamh', 'faults', '-seed', str((self.seed + 5) % (1 << 62)), '-n', str(fn), '-ops', str(fo), '-profile', prof, '-out', outd + '-faults'], timeout=3300)
            try:
                fd = json.loads(out[out.index('{'):])
            except Exception:
                continue
            self.cov['evaluations'] += sum((fd.get('faults_by_op') or {}).values())
            self.cov.setdefault('fault_points', {})[prof] = fd.get('faults_by_op')
            self.vamh_failures(fd.get('oracle_failures'), 'vamh faults profile=%s' % prof, under_faults=True)
        if vs.get('race') and os.path.exists(B + '/vamh_race'):
            dur = '5s' if self.quick else '60s'
            rc, out, err = sh([B + '/vamh_race', 'race', '-seed', str(self.seed % (1 << 62)), '-dur', dur, '-workers', '8'], timeout=1800)
            open(self.rundir + '/race.err', 'w').write(err)
            rc2, sout, serr = sh([B + '/vamh', 'racesum', self.rundir + '/race.err'], timeout=300)
            self.cov['race'] = dict(exit=rc, summary=sout[-3000:])
            self.race_exit, self.race_summary = rc, sout
            try:
                rj = json.loads(out[out.index('{'):])
                self.cov['race']['ops'] = rj.get('ops')
                self.cov['evaluations'] += sum((rj.get('ops') or {}).values())
                probs = []
                if rj.get('panics'): probs.append('panics: %s' % rj['panics'])
                if rj.get('valid_usage_violations'): probs.append('valid usage violations: %s' % rj['valid_usage_violations'])
                if rj.get('own_bytes_corrupted'): probs.append('own bytes corrupted: %s' % rj['own_bytes_corrupted'])
                if rj.get('hang'): probs.append('hang (deadlock?)')
                if rj.get('final_state_problems'): probs.append('final state: %s' % rj['final_state_problems'])
                self.cov['race']['map_cycles'] = rj.get('map_cycles')
                if rj.get('map_problems'): probs.append('concurrent map/unmap: %s' % rj['map_problems'][0])
                self.cov['race']['limit_rounds'] = rj.get('limit_rounds')
                if rj.get('limit_overruns'):
                    lo = 'heap limit overrun under concurrency (no sequential order allows it): %s' % rj['limit_overruns'][0]
                    if self.pid == 'C11':
                        rp = self.write_note('race-limit', '\n'.join(rj['limit_overruns']))
                        self.violations.append((rp, lo, True))
                    probs.insert(0, lo)
            except Exception as e:
                probs = ['race run produced no summary: %s' % e]
            if rc == 66 or 'DATA RACE' in err:
                probs.append('data race reported by the Go race detector: ' + sout[:600])
            if probs and self.pid == 'C12':
                rp = self.write_note('race', '\n'.join(probs) + '\n' + err[-4000:])
                self.violations.append((rp, 'concurrent stress run: ' + probs[0][:300], True))

    def rule_text(self):
        sp = self.spec or {}
        parts = []
        if sp.get('muh'):
            parts.append('muh (block metadata): histories from one splitmix64 stream per (algorithm, profile); distinct = sha1 of CFG + op lines; non-trivial = >= 5 ops, >= 4 successful results and at least one free; plus the boundary sweep of the leaf functions')
        for e in sp.get('eng', {}):
            parts.append('%s: histories from one splitmix64 stream per profile (harness/cmd/%s, profiles in engine.json); distinct = sha1 of CFG + op lines; non-trivial = at least nontrivial_min_ops operations' % (e, e))
        if sp.get('vamh'):
            parts.append('vamh (whole allocator over the simulated device): one stream per history; distinct = hash of the op lines; non-trivial = histories reaching >= 3 device memory objects / freeing device memory before teardown / destroying the allocator (histories_reaching); core profiles are additionally replayed on the extracted whole-allocator model; fault enumeration = every driver call of every operation of a history fails once')
        return '; '.join(parts)

    def modelled_text(self):
        sp = self.spec or {}
        parts = []
        if sp.get('muh'):
            parts.append('memutils/metadata/{tlsf,linear}.go and vam/granularity.go (Tlsf.v, Linear.v, Gran.v; sort.Find = binary search with the same probe sequence)')
        m = {'selh': 'memory type selection and fallback loop of vam/allocator.go (Select.v)', 'devh': 'vam/internal/vulkan/{sync_memory,device_memory}.go (SyncMem.v, Budget.v)', 'dfh': 'memutils/defrag/{pass,context}.go over TLSF blocks (Pass.v, Defrag.v)'}
        for e in sp.get('eng', {}):
            parts.append(m.get(e, e))
        if sp.get('vamh'):
            parts.append('the public API of vam (allocator.go, block_list.go, block.go, dedicated_list.go, pool.go, allocation.go, defrag.go, resource creation) over the simulated device (Vam*.v)')
        return 'modelled as hand-written Gallina, not verified code: ' + '; '.join(parts) + '. Not modelled: cgo bindings and the real driver, swiss.Map, sync.Pool, JSON writers, debug builds, allocation callbacks, the Go runtime and memory model'

    def write_note(self, tag, text):
        rp = '%s/replays/%s-%s.txt' % (V, self.pid, tag)
        open(rp, 'w').write(text[-6000:])
        return rp

    def spec_compare(self, tp, prof):
        """C16: the R lines of the real code against the reference semantics LinearSpec.v (extracted;
        driver in MUH_SPEC=1 mode prints only R lines)"""
        env = dict(os.environ); env['MUH_SPEC'] = '1'
        rc, mout, merr = sh([B + '/ocaml/driver', tp], timeout=600, env=env)
        impl_r = [l for l in open(tp).read().split('\n') if l.startswith('R ')]
        spec_r = [l for l in mout.split('\n') if l.startswith('R ')]
        self.cov['spec_r_lines'] = self.cov.get('spec_r_lines', 0) + len(impl_r)
        if impl_r != spec_r:
            j = 0
            while j < len(impl_r) and j < len(spec_r) and impl_r[j] == spec_r[j]:
                j += 1
            rp = '%s/replays/C16-spec-%s.trace' % (V, prof)
            shutil.copy(tp, rp)
            self.violations.append((rp, 'result %d differs from the reference semantics: impl=%r spec=%r (profile %s)' % (
                j, impl_r[j] if j < len(impl_r) else '<end>', spec_r[j] if j < len(spec_r) else '<end>', prof), True))

    def corpus(self):
        spec = self.spec
        for f in sorted(glob.glob(V + '/corpus/*.ops')):
            algo = os.path.basename(f).split('-')[0]
            if algo not in spec.get('muh', {}):
                continue
            self.cov['corpus_entries'] += 1
            rc, out, err = sh([B + '/muh', 'run', f], timeout=300)
            self.corr_text(out, algo, 'corpus', 'corpus ' + os.path.basename(f))

    # ------------------------------------------------------------------ in-Coq sample
    def in_coq(self):
        if not os.path.exists(COQ + '/theories/Corr.v'):
            return
        from coqcases import write_cases
        n = 12 if self.quick else 120
        picked = []
        for tp in sorted(glob.glob(self.rundir + '/*-*.trace')):
            algo = os.path.basename(tp).split('-')[0]
            if algo not in ('tlsf', 'linear'):
                continue
            hs = split_histories(open(tp).read())
            hs = [h for h in hs if len(h['ops']) <= 60]
            picked += [(algo, h) for h in hs[:max(1, n // 6)]]
        picked = picked[:n]
        if not picked:
            return
        cf = self.rundir + '/Cases.v'
        ncase = write_cases(picked, cf)
        rc, out, err = sh('coqc -Q %s/theories Arsenal Cases.v' % COQ, cwd=self.rundir, timeout=1800)
        self.cov['in_coq_cases'] = ncase
        ok = rc == 0 and re.search(r'=\s*\[\s*\]', out)
        if not ok:
            rp = '%s/replays/%s-incoq.txt' % (V, self.pid)
            open(rp, 'w').write('# in-Coq evaluation (vm_compute) of the model disagrees with the implementation trace or failed to compile\n' + out[-3000:] + err[-3000:])
            self.violations.append((rp, 'in-Coq correspondence sample failed', False))

    # ------------------------------------------------------------------ verdict
    def run(self):
        pid = self.pid
        if self.spec is None:
            print('unknown property', pid)
            return 2
        notes = self.build()
        if not os.path.exists(B + '/muh'):
            print('harness did not build:', notes)
            rp = '%s/replays/%s-build.txt' % (V, pid)
            open(rp, 'w').write('\n'.join(notes))
            print('VIOLATION property=%s replay=%s no-failing-input-found' % (pid, rp))
            self.evidence(1)
            return 1
        self.proof_status()
        if self.model_ok:
            self.corpus()
            for algo, profs in self.spec.get('muh', {}).items():
                self.muh_component(algo, profs)
            if self.spec.get('muh'):
                self.muh_component('leaf', ['leaf'])
            for sp in self.spec.get('special', []):
                # fixed scenarios that random histories cannot reach (e.g. 65536 allocations on one page)
                rc, out, err = sh([B + '/muh', sp], timeout=600)
                self.cov['evaluations'] += 1
                for l in out.split('\n'):
                    if l.startswith('ORACLE-FAIL') and ('property=%s ' % self.pid) in l:
                        self.cov['oracle_failures'] += 1
                        kf = self.known.match(self.pid, l)
                        if kf:
                            self.known_hits.append((kf, l))
                        else:
                            self.violations.append((self.write_note('special-' + sp, out), l, True))
            for eng, profs in self.spec.get('eng', {}).items():
                self.engine_component(eng, profs)
            if self.spec.get('vamh'):
                self.vamh_component(self.spec['vamh'])
            self.in_coq()
        else:
            # model does not build: still search the implementation with the oracles
            for algo, profs in self.spec.get('muh', {}).items():
                n, ops = (60, 70) if self.quick else (1500, 200)
                for pi, prof in enumerate(profs):
                    rc, out, err = sh([B + '/muh', 'gen', '-algo', algo, '-seed', str(self.seed + pi), '-n', str(n), '-ops', str(ops), '-profile', prof], timeout=3000)
                    for h in split_histories(out):
                        if any(('property=%s ' % pid) in l for l in h['fails']):
                            self.handle_history(h, None, 'generated (model build broken)')
                            break
        self.cov['distinct_nontrivial'] = len(self.nontrivial) + self.vamh_nontrivial
        harness_timeouts = [c for c in TIMEOUTS if '/build/' in c and 'coqc' not in c]
        if harness_timeouts and not [v for v in self.violations if v[2]]:
            self.violations.append((self.write_note('timeout', 'commands that did not finish (the code under test may not terminate on a generated input):\n' + '\n'.join(harness_timeouts)),
                                    'harness command did not finish: %s' % harness_timeouts[0][:200], False))
        if self.engine_missing:
            self.violations.append((self.write_note('engine-missing', 'engines that did not build: %s' % self.engine_missing), 'engine missing: %s' % self.engine_missing, False))
        rcode = 0
        for kf, l in {id(k): (k, l) for k, l in self.known_hits}.values():
            print('KNOWN-FINDING: property=%s %s [%s]' % (pid, kf['text'], kf['sig']))
        found = [v for v in self.violations if v[2]]
        notfound = [v for v in self.violations if not v[2]]
        pr = self.proof
        proof_broken = (not pr.get('ok')) or (not self.model_ok)
        if found:
            rp, text, _ = found[0]
            print('VIOLATION property=%s replay=%s' % (pid, rp))
            print('  ' + text)
            rcode = 1
        elif proof_broken:
            rp = '%s/replays/%s-proof.txt' % (V, pid)
            open(rp, 'w').write('# %s: proof obligation no longer checks; no failing input found by the search\n%s\n%s\n' % (pid, json.dumps({k: pr.get(k) for k in ('bad', 'axioms', 'missing', 'leaf_diff')}, indent=1), pr.get('log', '')))
            print('VIOLATION property=%s replay=%s no-failing-input-found' % (pid, rp))
            rcode = 1
        elif notfound:
            rp, text, _ = notfound[0]
            print('VIOLATION property=%s replay=%s no-failing-input-found' % (pid, rp))
            print('  ' + text)
            rcode = 1
        self.evidence(len(self.violations) + (1 if proof_broken and not self.violations else 0))
        if rcode == 0:
            print('OK property=%s tier=%s histories=%d distinct_nontrivial=%d validated=%d obligations=%d/%d wall=%.1fs' % (
                pid, self.tier, self.cov['evaluations'], self.cov['distinct_nontrivial'], self.cov['traces_validated_against_impl'],
                pr['discharged'], pr['obligations'], time.time() - self.t0))
        return rcode

    def replay(self, path):
        notes = self.build()
        text = open(path).read()
        base = os.path.basename(path)
        if base.endswith('.txt'):
            # a note (broken proof obligation, race summary, timeout): re-running the check is the replay
            print(text[:3000])
            print('replay: %s is a report, not a trace; re-run `bin/check %s %s` to re-evaluate it' % (path, self.pid, self.tier))
            return 1
        if '-vamh-' in base or '/vamh/corpus/' in path:
            rc, out, err = sh([B + '/vamh', 'replay', path], timeout=900)
            print(out[-3000:])
            # a DIVERGENCE only says that the code no longer behaves as when the trace was recorded;
            # the verdict is whether an oracle fails NOW
            m = re.search(r'(\d+) distinct oracle failures', out)
            fails = [l for l in out.split('\n') if 'ORACLE-FAIL' in l] if (m is None or int(m.group(1)) > 0) else []
            if m is None:
                fails.append('vamh replay produced no verdict')
            drv = B + '/ocaml/drv_vamh'
            mism = False
            if '-corr-' in base and os.path.exists(drv):
                impl = [l for l in text.split('\n') if not l.startswith(('VIOL', 'NOTE', 'ORACLE-FAIL', '#'))]
                rc2, mout, merr = sh([drv, path], timeout=600)
                mism = impl != mout.split('\n')
                if mism:
                    print('MISMATCH: whole-allocator model and recorded implementation trace differ')
            if fails or mism:
                print('VIOLATION property=%s replay=%s' % (self.pid, path))
                return 1
            print('replay: no oracle failure, no mismatch')
            return 0
        for eng in ('dfh', 'devh', 'selh'):
            if ('-%s-' % eng) in base or ('/%s/corpus/' % eng) in path:
                body = text
                if '# --- implementation trace' in text:
                    body = text.split('# --- implementation trace')[1].split('# --- model trace')[0]
                ops = '\n'.join(l for l in body.split('\n') if l and not l.startswith('#')) + '\n'
                tp = self.rundir + '/replay.ops'
                open(tp, 'w').write(ops)
                rc, out, err = sh(['%s/%s' % (B, eng), 'run', tp], timeout=900)
                open(self.rundir + '/replay.trace', 'w').write(out)
                rc2, mout, merr = sh(['%s/ocaml/drv_%s' % (B, eng), self.rundir + '/replay.trace'], timeout=600)
                fails = [l for l in out.split('\n') if l.startswith('ORACLE-FAIL')]
                a = [l for l in out.split('\n') if not l.startswith('ORACLE-FAIL')]
                for l in fails:
                    print(l)
                mism = a != mout.split('\n')
                if mism:
                    print('MISMATCH: model %s and implementation differ on this trace' % eng)
                if fails or mism:
                    print('VIOLATION property=%s replay=%s' % (self.pid, path))
                    return 1
                print('replay: no oracle failure, no mismatch')
                return 0
        if '# --- implementation trace' in text:
            text = text.split('# --- implementation trace')[1].split('# --- model trace')[0]
        out, err = self.run_impl('\n'.join(l for l in text.split('\n') if not l.startswith('#')) + '\n', 'replay')
        open(self.rundir + '/replay.trace', 'w').write(out)
        mout, rc, merr = self.run_model(self.rundir + '/replay.trace')
        hi, mism = self.compare(out, mout)
        fails = [l for l in out.split('\n') if l.startswith('ORACLE-FAIL')]
        for l in fails:
            print(l)
        for i, a, b in mism:
            print('MISMATCH history %d: impl %r model %r' % (i, a, b))
        if fails or mism:
            print('VIOLATION property=%s replay=%s' % (self.pid, path))
            return 1
        print('replay: no oracle failure, no mismatch')
        return 0

    def evidence(self, nviol):
        pr = self.proof
        cov = self.cov
        try:
            level = json.load(open(V + '/bin/levels.json')).get(self.pid, 'proof')
        except Exception:
            level = 'proof'
        c = dict(cov)
        c.update(dict(
            obligations=pr['obligations'], discharged=pr['discharged'] if pr.get('ok') else min(pr['discharged'], max(0, pr['obligations'] - 1)),
            checker_cmd='cd /verif/coq && coq_makefile -f _CoqProject -o Makefile.coq && make -f Makefile.coq -j16  (coqc 8.16.1, full .vo build); coqc Props/%s.v for Print Assumptions' % self.pid,
            trusted_base=[
                'Coq 8.16.1 kernel (coqc); vm_compute used for the in-Coq correspondence sample and finite sweeps; native_compute not used',
                'Print Assumptions of Props/%s.v on this run: %s' % (self.pid, (pr.get('assumptions') or 'n/a').replace('\n', ' | ')[:600]),
                'coqchk (thorough tier only): %s' % pr.get('coqchk', 'not run in this tier'),
                'translator tools/go2coq (Go AST -> Gallina with explicit Go integer semantics coq/theories/GoSem.v) for the leaf functions listed in tools/go2coq/funcs.txt; regenerated on every run into coq/theories/GenLeaf.v; equivalence with the hand model proved in GenLeafProofs.v (in the cone of this property: %s)' % ('theories/GenLeafProofs.v' in pr.get('cone', [])),
                'extraction: ExtrOcamlBasic only (bool, option, unit, list, prod, sumbool + inlined andb/orb/negb), Z/N/positive kept as extracted inductives, no Extract Constant of our own; OCaml 4.13.1; hand-written ocaml/driver.ml (parsing, int<->Z, printing, allocation-number table)',
                'correspondence check: Go harness harness/cmd/muh (generators, projection of observables, oracles) + line diff in bin/checklib.py; covers only the histories it runs',
                'model files in the cone of Props/%s.v: %s' % (self.pid, ', '.join(pr.get('cone', []))),
                self.modelled_text(),
            ],
            rule=self.rule_text(),
            proof_ok=bool(pr.get('ok')), proof_problems=pr.get('bad', []), known_findings_hit=len(self.known_hits),
            explanation=('theorems of Props/%s.v proved in Coq (obligations/discharged = lemmas and theorems in its dependency cone, checker_cmd) about executable models that are tied to the code on this run by correspondence (traces_validated_against_impl, mismatches) and, for the leaf functions, by the translator; the search for failing inputs (oracles on the real code: evaluations, distribution, oracle_failures) supports the tie and decides the clauses that MANIFEST.json marks as exploration / fault enumeration' % self.pid),
        ))
        ev = dict(property_id=self.pid, tier=self.tier, seed=self.seed, level=level, coverage=c,
                  assumptions=['Go toolchain, runtime and memory model', 'block size < 2^39 (uint32 first-level bitmap), alignments are powers of two', 'handles passed to operations are live (stale TLSF handles are raw addresses)'],
                  wall_s=round(time.time() - self.t0, 2), violations=nviol)
        json.dump(ev, open('%s/evidence/%s.json' % (V, self.pid), 'w'), indent=1)
