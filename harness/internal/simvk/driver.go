package simvk

import (
	"unsafe"

	"github.com/vkngwrapper/core/v3/common"
	"github.com/vkngwrapper/core/v3/core1_0"
	"github.com/vkngwrapper/core/v3/core1_1"
	"github.com/vkngwrapper/core/v3/core1_2"
	"github.com/vkngwrapper/core/v3/loader"
	"github.com/vkngwrapper/extensions/v3/ext_memory_budget"
	"github.com/vkngwrapper/extensions/v3/khr_dedicated_allocation"
)

// The fake drivers embed nil interfaces (one level deeper than the implementation structs, so that
// the implemented methods shadow the promoted nil ones) and implement only what vam calls. Calling
// anything else panics with a nil dereference, which the harness reports as a panic.

type nilInst10 struct{ core1_0.CoreInstanceDriver }
type nilInst11 struct{ core1_1.CoreInstanceDriver }
type nilDev10 struct{ core1_0.CoreDeviceDriver }
type nilDev11 struct{ core1_1.CoreDeviceDriver }
type nilDev12 struct{ core1_2.CoreDeviceDriver }

type instImpl struct {
	dev  *Device
	inst core1_0.Instance
}

type instImpl11 struct{ dev *Device }

type inst10 struct {
	*instImpl
	nilInst10
}

type inst11 struct {
	*instImpl
	*instImpl11
	nilInst11
}

type devImpl struct {
	dev     *Device
	inst    core1_0.CoreInstanceDriver
	device  core1_0.Device
	version common.APIVersion
}

type devImpl11 struct{ impl *devImpl }

type dev10 struct {
	*devImpl
	nilDev10
}

type dev11 struct {
	*devImpl
	*devImpl11
	nilDev11
}

type dev12 struct {
	*devImpl
	*devImpl11
	nilDev12
}

// Driver bundles what vam.New needs.
type Driver struct {
	Device         *Device
	Driver         core1_0.CoreDeviceDriver
	PhysicalDevice core1_0.PhysicalDevice
}

func apiVersion(api int) common.APIVersion {
	switch api {
	case 11:
		return common.Vulkan1_1
	case 12:
		return common.Vulkan1_2
	}
	return common.Vulkan1_0
}

// NewDriver creates the fake driver stack for a device.
func NewDriver(d *Device) *Driver {
	ver := apiVersion(d.Cfg.API)
	var devExts []string
	if d.Cfg.BudgetExt {
		devExts = append(devExts, ext_memory_budget.ExtensionName)
	}
	ii := &instImpl{dev: d, inst: core1_0.InternalInstance(loader.VkInstance(1), ver, nil)}
	var inst core1_0.CoreInstanceDriver
	if d.Cfg.API >= 11 {
		inst = &inst11{instImpl: ii, instImpl11: &instImpl11{dev: d}}
	} else {
		inst = &inst10{instImpl: ii}
	}
	di := &devImpl{dev: d, inst: inst, device: core1_0.InternalDevice(loader.VkDevice(1), ver, devExts), version: ver}
	var drv core1_0.CoreDeviceDriver
	switch {
	case d.Cfg.API >= 12:
		drv = &dev12{devImpl: di, devImpl11: &devImpl11{impl: di}}
	case d.Cfg.API == 11:
		drv = &dev11{devImpl: di, devImpl11: &devImpl11{impl: di}}
	default:
		drv = &dev10{devImpl: di}
	}
	return &Driver{
		Device:         d,
		Driver:         drv,
		PhysicalDevice: core1_0.InternalPhysicalDevice(loader.VkPhysicalDevice(1), ver, ver),
	}
}

// ---- instance ----

func (i *instImpl) Instance() core1_0.Instance { return i.inst }

func (i *instImpl) GetPhysicalDeviceProperties(core1_0.PhysicalDevice) (*core1_0.PhysicalDeviceProperties, error) {
	cfg := &i.dev.Cfg
	t := core1_0.PhysicalDeviceTypeDiscreteGPU
	if cfg.Integrated {
		t = core1_0.PhysicalDeviceTypeIntegratedGPU
	}
	return &core1_0.PhysicalDeviceProperties{
		DriverType: t,
		DriverName: "simvk",
		APIVersion: apiVersion(cfg.API),
		Limits: &core1_0.PhysicalDeviceLimits{
			MaxMemoryAllocationCount: cfg.MaxAllocCount,
			BufferImageGranularity:   cfg.Granularity,
			NonCoherentAtomSize:      cfg.AtomSize,
		},
		SparseProperties: &core1_0.PhysicalDeviceSparseProperties{},
	}, nil
}

func (i *instImpl) memProps() *core1_0.PhysicalDeviceMemoryProperties {
	cfg := &i.dev.Cfg
	p := &core1_0.PhysicalDeviceMemoryProperties{}
	for _, t := range cfg.Types {
		p.MemoryTypes = append(p.MemoryTypes, core1_0.MemoryType{PropertyFlags: core1_0.MemoryPropertyFlags(t.Flags), HeapIndex: t.Heap})
	}
	for _, h := range cfg.Heaps {
		var f core1_0.MemoryHeapFlags
		if h.DeviceLocal {
			f = core1_0.MemoryHeapDeviceLocal
		}
		p.MemoryHeaps = append(p.MemoryHeaps, core1_0.MemoryHeap{Size: h.Size, Flags: f})
	}
	return p
}

func (i *instImpl) GetPhysicalDeviceMemoryProperties(core1_0.PhysicalDevice) *core1_0.PhysicalDeviceMemoryProperties {
	return i.memProps()
}

func (i *instImpl11) GetPhysicalDeviceMemoryProperties2(_ core1_0.PhysicalDevice, out *core1_1.PhysicalDeviceMemoryProperties2) error {
	d := i.dev
	d.RecordMemProps2()
	out.MemoryProperties = *(&instImpl{dev: d}).memProps()
	for n := out.Next; n != nil; n = n.NextOutDataInChain() {
		if b, ok := n.(*ext_memory_budget.PhysicalDeviceMemoryBudgetProperties); ok {
			for h := range d.Cfg.Heaps {
				budget := d.Cfg.Heaps[h].Size
				if h < len(d.Cfg.HeapBudget) {
					budget = d.Cfg.HeapBudget[h]
				}
				other := 0
				if h < len(d.Cfg.HeapOtherUsage) {
					other = d.Cfg.HeapOtherUsage[h]
				}
				b.HeapBudget[h] = budget
				b.HeapUsage[h] = other + d.HeapBytes(h)
			}
		}
	}
	return nil
}

// ---- device 1.0 ----

func (v *devImpl) InstanceDriver() core1_0.CoreInstanceDriver { return v.inst }
func (v *devImpl) Device() core1_0.Device                     { return v.device }

func resErr(r int) (common.VkResult, error) {
	if r == 0 {
		return core1_0.VKSuccess, nil
	}
	res := common.VkResult(r)
	return res, res.ToError()
}

func (v *devImpl) AllocateMemory(_ *loader.AllocationCallbacks, o core1_0.MemoryAllocateInfo) (core1_0.DeviceMemory, common.VkResult, error) {
	ded := 0
	for n := o.Next; n != nil; n = n.NextOptionsInChain() {
		switch t := n.(type) {
		case khr_dedicated_allocation.MemoryDedicatedAllocateInfo:
			if t.Buffer.Initialized() {
				ded = int(t.Buffer.Handle())
			} else if t.Image.Initialized() {
				ded = int(t.Image.Handle())
			}
		case core1_1.MemoryDedicatedAllocateInfo:
			if t.Buffer.Initialized() {
				ded = int(t.Buffer.Handle())
			} else if t.Image.Initialized() {
				ded = int(t.Image.Handle())
			}
		}
	}
	m, r := v.dev.AllocateMemory(o.MemoryTypeIndex, o.AllocationSize, ded)
	if r != 0 {
		res, err := resErr(r)
		return core1_0.DeviceMemory{}, res, err
	}
	return core1_0.InternalDeviceMemory(v.device.Handle(), loader.VkDeviceMemory(m.ID), v.version, m.Size), core1_0.VKSuccess, nil
}

func (v *devImpl) FreeMemory(memory core1_0.DeviceMemory, _ *loader.AllocationCallbacks) {
	v.dev.FreeMemory(int(memory.Handle()))
}

func (v *devImpl) MapMemory(memory core1_0.DeviceMemory, offset int, size int, _ core1_0.MemoryMapFlags) (unsafe.Pointer, common.VkResult, error) {
	b, r := v.dev.MapMemory(int(memory.Handle()), offset, size)
	if r != 0 {
		res, err := resErr(r)
		return nil, res, err
	}
	return unsafe.Pointer(unsafe.SliceData(b)), core1_0.VKSuccess, nil
}

func (v *devImpl) UnmapMemory(memory core1_0.DeviceMemory) {
	v.dev.UnmapMemory(int(memory.Handle()))
}

func (v *devImpl) flushInval(ranges []core1_0.MappedMemoryRange, inval bool) (common.VkResult, error) {
	first := 0
	for _, r := range ranges {
		if res := v.dev.FlushOrInvalidate(int(r.Memory.Handle()), r.Offset, r.Size, inval); res != 0 && first == 0 {
			first = res
		}
	}
	return resErr(first)
}

func (v *devImpl) FlushMappedMemoryRanges(ranges ...core1_0.MappedMemoryRange) (common.VkResult, error) {
	return v.flushInval(ranges, false)
}

func (v *devImpl) InvalidateMappedMemoryRanges(ranges ...core1_0.MappedMemoryRange) (common.VkResult, error) {
	return v.flushInval(ranges, true)
}

func (v *devImpl) CreateBuffer(_ *loader.AllocationCallbacks, o core1_0.BufferCreateInfo) (core1_0.Buffer, common.VkResult, error) {
	fallback := ResReq{Size: o.Size, Alignment: 16, TypeBits: (uint32(1) << uint(len(v.dev.Cfg.Types))) - 1}
	r, res := v.dev.CreateResource(KindBuffer, fallback)
	if res != 0 {
		vr, err := resErr(res)
		return core1_0.Buffer{}, vr, err
	}
	return core1_0.InternalBuffer(v.device.Handle(), loader.VkBuffer(r.ID), v.version), core1_0.VKSuccess, nil
}

func (v *devImpl) CreateImage(_ *loader.AllocationCallbacks, o core1_0.ImageCreateInfo) (core1_0.Image, common.VkResult, error) {
	kind := KindImageLinear
	if o.Tiling == core1_0.ImageTilingOptimal {
		kind = KindImageOptimal
	}
	fallback := ResReq{Size: o.Extent.Width * o.Extent.Height * o.Extent.Depth * 4, Alignment: 256, TypeBits: (uint32(1) << uint(len(v.dev.Cfg.Types))) - 1}
	r, res := v.dev.CreateResource(kind, fallback)
	if res != 0 {
		vr, err := resErr(res)
		return core1_0.Image{}, vr, err
	}
	return core1_0.InternalImage(v.device.Handle(), loader.VkImage(r.ID), v.version), core1_0.VKSuccess, nil
}

func (v *devImpl) DestroyBuffer(b core1_0.Buffer, _ *loader.AllocationCallbacks) {
	v.dev.DestroyResource(int(b.Handle()), false)
}

func (v *devImpl) DestroyImage(i core1_0.Image, _ *loader.AllocationCallbacks) {
	v.dev.DestroyResource(int(i.Handle()), true)
}

func toReqs(r ResReq) core1_0.MemoryRequirements {
	return core1_0.MemoryRequirements{Size: r.Size, Alignment: r.Alignment, MemoryTypeBits: r.TypeBits}
}

func (v *devImpl) GetBufferMemoryRequirements(b core1_0.Buffer) *core1_0.MemoryRequirements {
	r := toReqs(v.dev.Requirements(int(b.Handle()), false))
	return &r
}

func (v *devImpl) GetImageMemoryRequirements(i core1_0.Image) *core1_0.MemoryRequirements {
	r := toReqs(v.dev.Requirements(int(i.Handle()), true))
	return &r
}

func (v *devImpl) BindBufferMemory(b core1_0.Buffer, m core1_0.DeviceMemory, offset int) (common.VkResult, error) {
	return resErr(v.dev.Bind(int(b.Handle()), int(m.Handle()), offset, false))
}

func (v *devImpl) BindImageMemory(i core1_0.Image, m core1_0.DeviceMemory, offset int) (common.VkResult, error) {
	return resErr(v.dev.Bind(int(i.Handle()), int(m.Handle()), offset, true))
}

// ---- device 1.1 ----

func fillDedicated(out *core1_1.MemoryRequirements2, r ResReq) {
	out.MemoryRequirements = toReqs(r)
	for n := out.Next; n != nil; n = n.NextOutDataInChain() {
		switch t := n.(type) {
		case *khr_dedicated_allocation.MemoryDedicatedRequirements:
			t.RequiresDedicatedAllocation = r.RequiresDedicated
			t.PrefersDedicatedAllocation = r.PrefersDedicated
		case *core1_1.MemoryDedicatedRequirements:
			t.RequiresDedicatedAllocation = r.RequiresDedicated
			t.PrefersDedicatedAllocation = r.PrefersDedicated
		}
	}
}

func (v *devImpl11) GetBufferMemoryRequirements2(o core1_1.BufferMemoryRequirementsInfo2, out *core1_1.MemoryRequirements2) error {
	fillDedicated(out, v.impl.dev.Requirements(int(o.Buffer.Handle()), false))
	return nil
}

func (v *devImpl11) GetImageMemoryRequirements2(o core1_1.ImageMemoryRequirementsInfo2, out *core1_1.MemoryRequirements2) error {
	fillDedicated(out, v.impl.dev.Requirements(int(o.Image.Handle()), true))
	return nil
}

func (v *devImpl11) BindBufferMemory2(o ...core1_1.BindBufferMemoryInfo) (common.VkResult, error) {
	first := 0
	for _, b := range o {
		if r := v.impl.dev.Bind(int(b.Buffer.Handle()), int(b.Memory.Handle()), b.MemoryOffset, false); r != 0 && first == 0 {
			first = r
		}
	}
	return resErr(first)
}

func (v *devImpl11) BindImageMemory2(o ...core1_1.BindImageMemoryInfo) (common.VkResult, error) {
	first := 0
	for _, b := range o {
		if r := v.impl.dev.Bind(int(b.Image.Handle()), int(b.Memory.Handle()), int(b.MemoryOffset), true); r != 0 && first == 0 {
			first = r
		}
	}
	return resErr(first)
}

// MemID extracts the simulated object id from a DeviceMemory handle.
func MemID(m core1_0.DeviceMemory) int { return int(m.Handle()) }

// BufferID extracts the simulated object id from a Buffer handle.
func BufferID(b core1_0.Buffer) int { return int(b.Handle()) }

// ImageID extracts the simulated object id from an Image handle.
func ImageID(i core1_0.Image) int { return int(i.Handle()) }
