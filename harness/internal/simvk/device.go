// Package simvk is a simulated Vulkan device used by the vam verification harness.
//
// It implements just enough of the vkngwrapper core driver interfaces for the
// vam allocator to run against it, keeps ground truth about every device memory
// object, buffer and image, logs every driver call abstractly (object ids, not
// pointers), checks Vulkan valid usage (recording violations instead of
// panicking) and supports deterministic fault injection.
//
// The device is safe for concurrent use. It deliberately avoids a global lock
// (only atomics on the hot path) so that it does not add happens-before edges
// that would hide data races of the code under test when running with -race.
package simvk

import (
	"fmt"
	"runtime"
	"sync"
	"sync/atomic"
)

// Vulkan memory property flag bits (numeric values of the C API).
const (
	PropDeviceLocal     = 0x01
	PropHostVisible     = 0x02
	PropHostCoherent    = 0x04
	PropHostCached      = 0x08
	PropLazilyAllocated = 0x10
	PropDeviceCoherent  = 0x40 // AMD
	PropDeviceUncached  = 0x80 // AMD
)

// VkResult values used by the simulator (numeric values of the C API).
const (
	ResSuccess           = 0
	ResOutOfHostMemory   = -1
	ResOutOfDeviceMemory = -2
	ResInitFailed        = -3
	ResDeviceLost        = -4
	ResMemoryMapFailed   = -5
	ResTooManyObjects    = -10
	ResUnknown           = -13
)

// ResultName gives the stable enum name used in traces for a VkResult value.
func ResultName(r int) string {
	switch r {
	case 0:
		return "Success"
	case 1:
		return "NotReady"
	case 2:
		return "Timeout"
	case 3:
		return "EventSet"
	case 4:
		return "EventReset"
	case 5:
		return "Incomplete"
	case -1:
		return "OutOfHostMemory"
	case -2:
		return "OutOfDeviceMemory"
	case -3:
		return "InitializationFailed"
	case -4:
		return "DeviceLost"
	case -5:
		return "MemoryMapFailed"
	case -6:
		return "LayerNotPresent"
	case -7:
		return "ExtensionNotPresent"
	case -8:
		return "FeatureNotPresent"
	case -9:
		return "IncompatibleDriver"
	case -10:
		return "TooManyObjects"
	case -11:
		return "FormatNotSupported"
	case -12:
		return "FragmentedPool"
	case -13:
		return "Unknown"
	}
	return fmt.Sprintf("VkResult%d", r)
}

// HeapCfg describes one memory heap.
type HeapCfg struct {
	Size        int
	DeviceLocal bool
}

// TypeCfg describes one memory type.
type TypeCfg struct {
	Heap  int
	Flags uint32 // Prop* bits
}

// Config describes the simulated device.
type Config struct {
	// Yield: every driver entry point yields the processor first (models driver latency; widens the windows of
	// check-then-act defects in the concurrent stress run)
	Yield         bool
	API           int // 10, 11 or 12
	Heaps         []HeapCfg
	Types         []TypeCfg
	Granularity   int // bufferImageGranularity
	AtomSize      int // nonCoherentAtomSize
	MaxAllocCount int // maxMemoryAllocationCount
	Integrated    bool
	// BudgetExt enables VK_EXT_memory_budget (requires API >= 11). HeapBudget[i] and
	// HeapOtherUsage[i] give, per heap, the budget reported by the "OS" and the bytes
	// used by "other processes" (reported usage = other usage + bytes allocated here).
	BudgetExt      bool
	HeapBudget     []int
	HeapOtherUsage []int

	// Log enables the per-step call log. Disable for race runs.
	Log bool
	// TableSize is the capacity of the object tables (0 = default).
	TableSize int
}

// ResKind is the kind of a resource.
type ResKind int

const (
	KindBuffer       ResKind = 1
	KindImageLinear  ResKind = 2
	KindImageOptimal ResKind = 3
)

func (k ResKind) Linear() bool { return k != KindImageOptimal }

// ResReq is the memory requirement the simulated device reports for a resource.
type ResReq struct {
	Size              int
	Alignment         int
	TypeBits          uint32
	RequiresDedicated bool
	PrefersDedicated  bool
	// IgnoreGranularity: the caller opted out of bufferImageGranularity handling for this resource
	// (custom pool created with the ignore flag); the device does not report page sharing for it.
	IgnoreGranularity bool
}

// Mem is a simulated VkDeviceMemory.
type Mem struct {
	ID   int
	Type int
	Heap int
	Size int
	// DedicatedRes is the resource id named in VkMemoryDedicatedAllocateInfo (0 = none).
	DedicatedRes int

	alive  atomic.Int32
	mapped atomic.Int32
	// mapOff/mapSize are written by the goroutine that wins the mapped CAS.
	mapOff  int
	mapSize int

	dataOnce sync.Once
	data     []byte
}

func (m *Mem) Alive() bool  { return m.alive.Load() != 0 }
func (m *Mem) Mapped() bool { return m.mapped.Load() != 0 }

// MapRange returns the currently mapped range (offset, size); size is the resolved size.
func (m *Mem) MapRange() (int, int) { return m.mapOff, m.mapSize }

// Data returns the backing store of the memory object (allocated lazily).
func (m *Mem) Data() []byte {
	m.dataOnce.Do(func() { m.data = make([]byte, m.Size) })
	return m.data
}

// Res is a simulated buffer or image.
type Res struct {
	ID   int
	Kind ResKind
	Req  ResReq

	alive atomic.Int32
	// binding
	bound   atomic.Int32
	BoundTo int // mem id
	BoundAt int
	// stale: the allocation this resource was bound to has been relocated by defragmentation; the
	// application must recreate the resource, and the vacated range may be handed out again
	stale atomic.Int32
}

func (r *Res) Alive() bool { return r.alive.Load() != 0 }
func (r *Res) Bound() bool { return r.bound.Load() != 0 }

// CallKind identifies a driver entry point.
type CallKind int

const (
	CallAlloc CallKind = iota
	CallFree
	CallMap
	CallUnmap
	CallBindBuffer
	CallBindImage
	CallCreateBuffer
	CallCreateImage
	CallDestroyBuffer
	CallDestroyImage
	CallFlush
	CallInvalidate
	CallBufferReqs
	CallImageReqs
	CallMemProps2
	NumCallKinds
)

var callNames = [...]string{"alloc", "free", "map", "unmap", "bindbuf", "bindimg", "cbuf", "cimg", "dbuf", "dimg", "flush", "inval", "reqbuf", "reqimg", "memprops2"}

func (k CallKind) String() string { return callNames[k] }

// CallKindByName parses a call kind name; ok is false for unknown names.
func CallKindByName(s string) (CallKind, bool) {
	for i, n := range callNames {
		if n == s {
			return CallKind(i), true
		}
	}
	return 0, false
}

// Fallible says whether a call of this kind can return an error (and so can be fault-injected).
func (k CallKind) Fallible() bool {
	switch k {
	case CallAlloc, CallMap, CallBindBuffer, CallBindImage, CallCreateBuffer, CallCreateImage, CallFlush, CallInvalidate:
		return true
	}
	return false
}

// Call is one logged driver call. Unused fields are zero.
//
//	alloc   Mem Type Size Ded  Result   (Mem = 0 when the call failed; Ded = id of resource in the dedicated-allocate info, 0 none)
//	free    Mem
//	map     Mem Off Size Result          (Size = -1 for VK_WHOLE_SIZE)
//	unmap   Mem
//	bindbuf Res Mem Off Result
//	bindimg Res Mem Off Result
//	cbuf    Res Result ; cimg Res Result (Res = 0 when the call failed)
//	dbuf    Res ; dimg Res
//	flush   Mem Off Size Result ; inval likewise (one Call per range)
//	reqbuf  Res ; reqimg Res
type Call struct {
	Kind   CallKind
	Mem    int
	Res    int
	Type   int
	Off    int
	Size   int
	Ded    int
	Result int
}

// Fields renders the integer fields of the call in the documented order.
func (c Call) Fields() []int {
	switch c.Kind {
	case CallAlloc:
		return []int{c.Mem, c.Type, c.Size, c.Ded, c.Result}
	case CallFree, CallUnmap:
		return []int{c.Mem}
	case CallMap, CallFlush, CallInvalidate:
		return []int{c.Mem, c.Off, c.Size, c.Result}
	case CallBindBuffer, CallBindImage:
		return []int{c.Res, c.Mem, c.Off, c.Result}
	case CallCreateBuffer, CallCreateImage:
		return []int{c.Res, c.Result}
	case CallDestroyBuffer, CallDestroyImage, CallBufferReqs, CallImageReqs:
		return []int{c.Res}
	}
	return nil
}

func (c Call) String() string {
	s := c.Kind.String()
	for _, f := range c.Fields() {
		s += fmt.Sprintf(" %d", f)
	}
	return s
}

// Violation is a recorded breach of Vulkan valid usage by the code under test.
type Violation struct {
	Code   string // short stable code, e.g. "map-already-mapped"
	Detail string
	Call   Call
}

func (v Violation) String() string { return v.Code + ": " + v.Detail + " [" + v.Call.String() + "]" }

// Device is the simulated device.
type Device struct {
	Cfg Config

	nextMem atomic.Int64
	nextRes atomic.Int64
	mems    []atomic.Pointer[Mem]
	ress    []atomic.Pointer[Res]

	liveMems  atomic.Int64
	heapBytes []atomic.Int64
	liveRes   atomic.Int64
	mappedCnt atomic.Int64

	// statistics
	CallCounts    [NumCallKinds]atomic.Int64
	totalFallible atomic.Int64

	// fault injection
	faultArmed     atomic.Int32
	faultKind      int32 // -1 any fallible
	faultCountdown atomic.Int64
	faultSticky    bool
	faultResult    int
	FaultsFired    atomic.Int64

	logMu      sync.Mutex
	log        []Call
	violations []Violation
	notes      []Violation
	nViol      atomic.Int64

	// pending requirement for the next created resource(s)
	pendMu  sync.Mutex
	pending *ResReq
}

// NewDevice creates a device.
func NewDevice(cfg Config) *Device {
	if cfg.TableSize == 0 {
		cfg.TableSize = 1 << 14
	}
	if cfg.API == 0 {
		cfg.API = 10
	}
	d := &Device{Cfg: cfg}
	d.mems = make([]atomic.Pointer[Mem], cfg.TableSize)
	d.ress = make([]atomic.Pointer[Res], cfg.TableSize)
	d.heapBytes = make([]atomic.Int64, len(cfg.Heaps))
	return d
}

// ---- logging ----

func (d *Device) record(c Call) {
	d.CallCounts[c.Kind].Add(1)
	if !d.Cfg.Log {
		return
	}
	d.logMu.Lock()
	d.log = append(d.log, c)
	d.logMu.Unlock()
}

func (d *Device) violate(code string, c Call, format string, args ...any) {
	d.nViol.Add(1)
	d.logMu.Lock()
	if len(d.violations) < 64 {
		d.violations = append(d.violations, Violation{Code: code, Detail: fmt.Sprintf(format, args...), Call: c})
	}
	d.logMu.Unlock()
}

func (d *Device) note(code string, c Call, format string, args ...any) {
	d.logMu.Lock()
	if len(d.notes) < 64 {
		d.notes = append(d.notes, Violation{Code: code, Detail: fmt.Sprintf(format, args...), Call: c})
	}
	d.logMu.Unlock()
}

// TakeLog returns and clears the call log.
func (d *Device) TakeLog() []Call {
	d.logMu.Lock()
	defer d.logMu.Unlock()
	l := d.log
	d.log = nil
	return l
}

// TakeViolations returns and clears recorded valid-usage violations.
func (d *Device) TakeViolations() []Violation {
	d.logMu.Lock()
	defer d.logMu.Unlock()
	v := d.violations
	d.violations = nil
	return v
}

// TakeNotes returns and clears recorded notes (legal but noteworthy behaviour).
func (d *Device) TakeNotes() []Violation {
	d.logMu.Lock()
	defer d.logMu.Unlock()
	v := d.notes
	d.notes = nil
	return v
}

// ViolationCount is the total number of violations ever recorded.
func (d *Device) ViolationCount() int64 { return d.nViol.Load() }

// ---- ground truth accessors ----

// MemByID returns the memory object with the given id (alive or dead), or nil.
func (d *Device) MemByID(id int) *Mem {
	if id <= 0 || id >= len(d.mems) {
		return nil
	}
	return d.mems[id].Load()
}

// ResByID returns the resource with the given id (alive or dead), or nil.
func (d *Device) ResByID(id int) *Res {
	if id <= 0 || id >= len(d.ress) {
		return nil
	}
	return d.ress[id].Load()
}

// LiveMems returns all live memory objects ordered by id.
func (d *Device) LiveMems() []*Mem {
	n := int(d.nextMem.Load())
	var out []*Mem
	for i := 1; i <= n && i < len(d.mems); i++ {
		if m := d.mems[i].Load(); m != nil && m.Alive() {
			out = append(out, m)
		}
	}
	return out
}

// LiveRes returns all live resources ordered by id.
func (d *Device) LiveRes() []*Res {
	n := int(d.nextRes.Load())
	var out []*Res
	for i := 1; i <= n && i < len(d.ress); i++ {
		if r := d.ress[i].Load(); r != nil && r.Alive() {
			out = append(out, r)
		}
	}
	return out
}

// LiveMemCount is the number of live memory objects.
func (d *Device) LiveMemCount() int { return int(d.liveMems.Load()) }

// HeapBytes is the number of bytes currently allocated from a heap.
func (d *Device) HeapBytes(h int) int { return int(d.heapBytes[h].Load()) }

// MappedCount is the number of currently mapped memory objects.
func (d *Device) MappedCount() int { return int(d.mappedCnt.Load()) }

// MemsCreated is the number of memory objects ever created.
func (d *Device) MemsCreated() int { return int(d.nextMem.Load()) }

// SetPendingReq sets the memory requirements that the next created buffer/image will report.
func (d *Device) SetPendingReq(r *ResReq) {
	d.pendMu.Lock()
	d.pending = r
	d.pendMu.Unlock()
}

// ---- fault injection ----

// ArmFault makes the k-th (1-based) call from now of the given kind fail with result.
// kind < 0 means "any fallible call". If sticky, all later matching calls fail too until DisarmFault.
func (d *Device) ArmFault(kind int, k int, result int, sticky bool) {
	d.faultKind = int32(kind)
	d.faultResult = result
	d.faultSticky = sticky
	d.faultCountdown.Store(int64(k))
	d.faultArmed.Store(1)
}

// DisarmFault cancels fault injection.
func (d *Device) DisarmFault() { d.faultArmed.Store(0) }

// FallibleCalls is the total number of fallible driver calls made so far.
func (d *Device) FallibleCalls() int64 { return d.totalFallible.Load() }

// DefaultFaultResult is the natural failure code for a call kind.
func DefaultFaultResult(k CallKind) int {
	switch k {
	case CallMap:
		return ResMemoryMapFailed
	case CallCreateBuffer, CallCreateImage, CallFlush, CallInvalidate:
		return ResOutOfHostMemory
	}
	return ResOutOfDeviceMemory
}

// fault decides whether the current call of kind k must fail; returns the result code (0 = no fault).
func (d *Device) fault(k CallKind) int {
	if k.Fallible() {
		d.totalFallible.Add(1)
	}
	if d.faultArmed.Load() == 0 {
		return 0
	}
	if d.faultKind >= 0 {
		if CallKind(d.faultKind) != k {
			return 0
		}
	} else if !k.Fallible() {
		return 0
	}
	n := d.faultCountdown.Add(-1)
	if n == 0 || (n < 0 && d.faultSticky) {
		d.FaultsFired.Add(1)
		r := d.faultResult
		if r == 0 {
			r = DefaultFaultResult(k)
		}
		if !d.faultSticky {
			d.faultArmed.Store(0)
		}
		return r
	}
	return 0
}

// ---- device operations (called by the fake drivers) ----

// AllocateMemory simulates vkAllocateMemory.
func (d *Device) AllocateMemory(typeIndex, size, dedicatedRes int) (*Mem, int) {
	c := Call{Kind: CallAlloc, Type: typeIndex, Size: size, Ded: dedicatedRes}
	if typeIndex < 0 || typeIndex >= len(d.Cfg.Types) {
		c.Result = ResUnknown
		d.violate("alloc-bad-type", c, "memoryTypeIndex %d out of range", typeIndex)
		d.record(c)
		return nil, c.Result
	}
	if size <= 0 {
		c.Result = ResUnknown
		d.violate("alloc-zero-size", c, "allocationSize %d must be > 0", size)
		d.record(c)
		return nil, c.Result
	}
	if r := d.fault(CallAlloc); r != 0 {
		c.Result = r
		d.record(c)
		return nil, r
	}
	if dedicatedRes != 0 {
		if r := d.ResByID(abs(dedicatedRes)); r == nil || !r.Alive() {
			d.violate("alloc-dedicated-dead-resource", c, "dedicated allocate info names dead resource %d", dedicatedRes)
		} else if r.Req.Size != size {
			d.violate("alloc-dedicated-size", c, "dedicated allocation size %d != resource requirement %d", size, r.Req.Size)
		}
	}
	heap := d.Cfg.Types[typeIndex].Heap
	if n := d.liveMems.Add(1); d.Cfg.MaxAllocCount > 0 && int(n) > d.Cfg.MaxAllocCount {
		d.liveMems.Add(-1)
		c.Result = ResTooManyObjects
		d.record(c)
		return nil, c.Result
	}
	if b := d.heapBytes[heap].Add(int64(size)); int(b) > d.Cfg.Heaps[heap].Size {
		d.heapBytes[heap].Add(-int64(size))
		d.liveMems.Add(-1)
		c.Result = ResOutOfDeviceMemory
		d.record(c)
		return nil, c.Result
	}
	id := int(d.nextMem.Add(1))
	if id >= len(d.mems) {
		d.heapBytes[heap].Add(-int64(size))
		d.liveMems.Add(-1)
		c.Result = ResOutOfHostMemory
		d.record(c)
		return nil, c.Result
	}
	m := &Mem{ID: id, Type: typeIndex, Heap: heap, Size: size, DedicatedRes: dedicatedRes}
	m.alive.Store(1)
	d.mems[id].Store(m)
	c.Mem = id
	d.record(c)
	return m, 0
}

// FreeMemory simulates vkFreeMemory.
func (d *Device) FreeMemory(id int) {
	c := Call{Kind: CallFree, Mem: id}
	m := d.MemByID(id)
	if m == nil {
		d.violate("free-unknown", c, "free of unknown memory object %d", id)
		d.record(c)
		return
	}
	if !m.alive.CompareAndSwap(1, 0) {
		d.violate("free-dead", c, "double free / free of dead memory object m%d", id)
		d.record(c)
		return
	}
	if m.mapped.CompareAndSwap(1, 0) {
		d.mappedCnt.Add(-1)
		d.note("free-while-mapped", c, "m%d freed while mapped (implicit unmap)", id)
	}
	for _, r := range d.LiveRes() {
		if r.Bound() && r.BoundTo == id {
			d.note("free-with-bound-resource", c, "m%d freed while resource %d still bound", id, r.ID)
		}
	}
	d.heapBytes[m.Heap].Add(-int64(m.Size))
	d.liveMems.Add(-1)
	d.record(c)
}

// MapMemory simulates vkMapMemory. It returns the backing slice starting at offset.
func (d *Device) MapMemory(id, offset, size int) ([]byte, int) {
	if d.Cfg.Yield {
		runtime.Gosched()
	}
	c := Call{Kind: CallMap, Mem: id, Off: offset, Size: size}
	m := d.MemByID(id)
	if m == nil || !m.Alive() {
		c.Result = ResMemoryMapFailed
		d.violate("map-dead", c, "map of dead/unknown memory object %d", id)
		d.record(c)
		return nil, c.Result
	}
	if d.Cfg.Types[m.Type].Flags&PropHostVisible == 0 {
		c.Result = ResMemoryMapFailed
		d.violate("map-not-host-visible", c, "map of m%d of non-host-visible type %d", id, m.Type)
		d.record(c)
		return nil, c.Result
	}
	if offset < 0 || offset >= m.Size || (size != -1 && (size <= 0 || offset+size > m.Size)) {
		c.Result = ResMemoryMapFailed
		d.violate("map-range", c, "map range off=%d size=%d outside m%d of size %d", offset, size, id, m.Size)
		d.record(c)
		return nil, c.Result
	}
	if r := d.fault(CallMap); r != 0 {
		c.Result = r
		d.record(c)
		return nil, r
	}
	if !m.mapped.CompareAndSwap(0, 1) {
		// Real drivers typically return a pointer anyway; we do the same so that the run can continue,
		// but this is a valid-usage violation.
		d.violate("map-already-mapped", c, "m%d is already mapped", id)
		d.record(c)
		return m.Data()[offset:], 0
	}
	d.mappedCnt.Add(1)
	m.mapOff = offset
	if size == -1 {
		m.mapSize = m.Size - offset
	} else {
		m.mapSize = size
	}
	d.record(c)
	return m.Data()[offset:], 0
}

// UnmapMemory simulates vkUnmapMemory.
func (d *Device) UnmapMemory(id int) {
	if d.Cfg.Yield {
		runtime.Gosched()
	}
	c := Call{Kind: CallUnmap, Mem: id}
	m := d.MemByID(id)
	if m == nil || !m.Alive() {
		d.violate("unmap-dead", c, "unmap of dead/unknown memory object %d", id)
		d.record(c)
		return
	}
	if !m.mapped.CompareAndSwap(1, 0) {
		d.violate("unmap-not-mapped", c, "m%d is not mapped", id)
		d.record(c)
		return
	}
	d.mappedCnt.Add(-1)
	d.record(c)
}

// CreateResource simulates vkCreateBuffer / vkCreateImage. fallback is used when no pending
// requirement has been set by the harness.
func (d *Device) CreateResource(kind ResKind, fallback ResReq) (*Res, int) {
	ck := CallCreateBuffer
	if kind != KindBuffer {
		ck = CallCreateImage
	}
	c := Call{Kind: ck}
	if r := d.fault(ck); r != 0 {
		c.Result = r
		d.record(c)
		return nil, r
	}
	d.pendMu.Lock()
	req := fallback
	if d.pending != nil {
		req = *d.pending
	}
	d.pendMu.Unlock()
	id := int(d.nextRes.Add(1))
	if id >= len(d.ress) {
		c.Result = ResOutOfHostMemory
		d.record(c)
		return nil, c.Result
	}
	r := &Res{ID: id, Kind: kind, Req: req}
	r.alive.Store(1)
	d.ress[id].Store(r)
	d.liveRes.Add(1)
	c.Res = id
	d.record(c)
	return r, 0
}

// DestroyResource simulates vkDestroyBuffer / vkDestroyImage.
func (d *Device) DestroyResource(id int, image bool) {
	ck := CallDestroyBuffer
	if image {
		ck = CallDestroyImage
	}
	c := Call{Kind: ck, Res: id}
	r := d.ResByID(id)
	if r == nil || !r.alive.CompareAndSwap(1, 0) {
		d.violate("destroy-dead-resource", c, "destroy of dead/unknown resource %d", id)
		d.record(c)
		return
	}
	if (r.Kind != KindBuffer) != image {
		d.violate("destroy-wrong-kind", c, "resource %d destroyed through the wrong entry point", id)
	}
	d.liveRes.Add(-1)
	d.record(c)
}

// ForgetBinding marks a resource's binding as dangling (the harness freed the memory range it was bound
// to without destroying the resource first, which is the caller's business, not the allocator's).
// MarkStale records that the memory range a resource is bound to no longer belongs to it (see Res.stale).
func (d *Device) MarkStale(id int) {
	if r := d.ResByID(id); r != nil {
		r.stale.Store(1)
	}
}

func (d *Device) ForgetBinding(id int) {
	if r := d.ResByID(id); r != nil {
		r.bound.Store(0)
	}
}

// Requirements simulates vkGet{Buffer,Image}MemoryRequirements.
func (d *Device) Requirements(id int, image bool) ResReq {
	ck := CallBufferReqs
	if image {
		ck = CallImageReqs
	}
	c := Call{Kind: ck, Res: id}
	r := d.ResByID(id)
	if r == nil || !r.Alive() {
		d.violate("reqs-dead-resource", c, "requirements query on dead/unknown resource %d", id)
		d.record(c)
		return ResReq{}
	}
	d.record(c)
	return r.Req
}

// Bind simulates vkBind{Buffer,Image}Memory.
func (d *Device) Bind(resID, memID, offset int, image bool) int {
	ck := CallBindBuffer
	if image {
		ck = CallBindImage
	}
	c := Call{Kind: ck, Res: resID, Mem: memID, Off: offset}
	r := d.ResByID(resID)
	m := d.MemByID(memID)
	if r == nil || !r.Alive() {
		c.Result = ResUnknown
		d.violate("bind-dead-resource", c, "bind of dead/unknown resource %d", resID)
		d.record(c)
		return c.Result
	}
	if m == nil || !m.Alive() {
		c.Result = ResUnknown
		d.violate("bind-dead-memory", c, "bind of resource %d to dead/unknown memory %d", resID, memID)
		d.record(c)
		return c.Result
	}
	if f := d.fault(ck); f != 0 {
		c.Result = f
		d.record(c)
		return f
	}
	if r.Bound() {
		d.violate("bind-already-bound", c, "resource %d is already bound to m%d", resID, r.BoundTo)
	}
	if r.Req.Alignment > 0 && offset%r.Req.Alignment != 0 {
		d.violate("bind-misaligned", c, "offset %d is not a multiple of the required alignment %d", offset, r.Req.Alignment)
	}
	if offset < 0 || offset+r.Req.Size > m.Size {
		d.violate("bind-out-of-range", c, "offset %d + size %d exceeds m%d size %d", offset, r.Req.Size, memID, m.Size)
	}
	if r.Req.TypeBits&(1<<uint(m.Type)) == 0 {
		d.violate("bind-wrong-type", c, "memory type %d not in resource memoryTypeBits %#x", m.Type, r.Req.TypeBits)
	}
	if r.Req.RequiresDedicated && (abs(m.DedicatedRes) != resID || offset != 0) {
		d.violate("bind-needs-dedicated", c, "resource %d requires a dedicated allocation", resID)
	}
	if m.DedicatedRes != 0 && (abs(m.DedicatedRes) != resID || offset != 0) {
		d.violate("bind-foreign-dedicated", c, "m%d is dedicated to resource %d", memID, m.DedicatedRes)
	}
	// bufferImageGranularity: linear and non-linear resources must not share a page
	if g := d.Cfg.Granularity; g > 1 && offset >= 0 {
		for _, o := range d.LiveRes() {
			if o.ID == resID || !o.Bound() || o.stale.Load() != 0 || o.BoundTo != memID || o.Kind.Linear() == r.Kind.Linear() || o.Req.IgnoreGranularity || r.Req.IgnoreGranularity {
				continue
			}
			if pagesOverlap(offset, r.Req.Size, o.BoundAt, o.Req.Size, g) {
				d.note("granularity-conflict", c, "resource %d (kind %d) at [%d,+%d) shares a %d-byte page with resource %d (kind %d) at [%d,+%d)",
					resID, r.Kind, offset, r.Req.Size, g, o.ID, o.Kind, o.BoundAt, o.Req.Size)
			}
		}
	}
	r.BoundTo = memID
	r.BoundAt = offset
	r.bound.Store(1)
	d.record(c)
	return 0
}

func pagesOverlap(aOff, aSize, bOff, bSize, g int) bool {
	if aSize <= 0 || bSize <= 0 {
		return false
	}
	aFirst, aLast := aOff/g, (aOff+aSize-1)/g
	bFirst, bLast := bOff/g, (bOff+bSize-1)/g
	return aFirst <= bLast && bFirst <= aLast
}

// FlushOrInvalidate simulates vk{Flush,Invalidate}MappedMemoryRanges for one range.
func (d *Device) FlushOrInvalidate(memID, offset, size int, invalidate bool) int {
	ck := CallFlush
	if invalidate {
		ck = CallInvalidate
	}
	c := Call{Kind: ck, Mem: memID, Off: offset, Size: size}
	m := d.MemByID(memID)
	if m == nil || !m.Alive() {
		c.Result = ResUnknown
		d.violate("flush-dead", c, "flush/invalidate of dead/unknown memory %d", memID)
		d.record(c)
		return c.Result
	}
	if f := d.fault(ck); f != 0 {
		c.Result = f
		d.record(c)
		return f
	}
	atom := d.Cfg.AtomSize
	if atom < 1 {
		atom = 1
	}
	if !m.Mapped() {
		d.violate("flush-unmapped", c, "m%d is not mapped", memID)
	} else {
		mo, ms := m.MapRange()
		if size == -1 {
			if offset < mo || offset > mo+ms {
				d.violate("flush-range", c, "offset %d outside mapped range [%d,+%d)", offset, mo, ms)
			}
		} else if offset < mo || offset+size > mo+ms {
			d.violate("flush-range", c, "range [%d,+%d) outside mapped range [%d,+%d)", offset, size, mo, ms)
		}
	}
	if offset%atom != 0 {
		d.violate("flush-offset-atom", c, "offset %d is not a multiple of nonCoherentAtomSize %d", offset, atom)
	}
	if size != -1 && size%atom != 0 && offset+size != m.Size {
		d.violate("flush-size-atom", c, "size %d is neither a multiple of nonCoherentAtomSize %d nor reaches the end of m%d (size %d)", size, atom, memID, m.Size)
	}
	if size != -1 && size <= 0 {
		d.violate("flush-size-zero", c, "size %d", size)
	}
	d.record(c)
	return 0
}

// RecordMemProps2 logs a vkGetPhysicalDeviceMemoryProperties2 query.
func (d *Device) RecordMemProps2() { d.CallCounts[CallMemProps2].Add(1) }

func abs(x int) int {
	if x < 0 {
		return -x
	}
	return x
}
