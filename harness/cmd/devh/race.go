package main

import (
	"encoding/json"
	"flag"
	"fmt"
	"os"
	"sync"
	"sync/atomic"

	"github.com/vkngwrapper/arsenal/vam"
	"github.com/vkngwrapper/core/v3/common"
	"github.com/vkngwrapper/core/v3/core1_0"
	"github.com/vkngwrapper/core/v3/loader"

	"verif/harness/internal/simvk"
)

type raceReport struct {
	Goroutines     int   `json:"goroutines"`
	Iters          int   `json:"iters_per_goroutine"`
	Limit          int   `json:"heap_limit"`
	Size           int   `json:"allocation_size"`
	Allocs         int64 `json:"allocations_succeeded"`
	Refused        int64 `json:"refused_by_limit"`
	Faulted        int64 `json:"driver_failures_rolled_back"`
	MaxDeviceBytes int64 `json:"max_device_bytes_seen"`
	MaxBlockBytes  int64 `json:"max_blockBytes_seen"`
	OverLimit      int64 `json:"observations_over_limit"`
	Violations     int64 `json:"valid_usage_violations"`
	Panics         int64 `json:"panics"`
	FinalBytes     int   `json:"final_blockBytes"`
	FinalCount     int   `json:"final_blockCount"`
	FinalMemCount  int   `json:"final_memoryCount"`
	FinalDevBytes  int   `json:"final_device_bytes"`
	FinalDevLive   int   `json:"final_device_objects"`
	OK             bool  `json:"ok"`
}

// faultyDriver makes every n-th vkAllocateMemory fail (atomically counted, so that it adds no data race of
// its own), so that the rollback path of AllocateVulkanMemory races with reservations too.
type faultyDriver struct {
	core1_0.CoreDeviceDriver
	n     atomic.Int64
	every int64
	fired atomic.Int64
}

func (d *faultyDriver) AllocateMemory(cb *loader.AllocationCallbacks, o core1_0.MemoryAllocateInfo) (core1_0.DeviceMemory, common.VkResult, error) {
	if d.every > 0 && d.n.Add(1)%d.every == 0 {
		d.fired.Add(1)
		return core1_0.DeviceMemory{}, core1_0.VKErrorOutOfDeviceMemory, core1_0.VKErrorOutOfDeviceMemory.ToError()
	}
	return d.CoreDeviceDriver.AllocateMemory(cb, o)
}

// cmdRace hammers ONE heap limit of one DeviceMemoryProperties from many goroutines: every goroutine
// repeatedly reserves+allocates (AllocateVulkanMemory), observes the totals, and frees again. A few
// allocations are made to fail in the driver so that the rollback path races with reservations too.
// Checked: neither the device's bytes in the heap nor blockBytes ever exceed the limit, and everything is
// back to zero at the end. Supporting evidence for C11 ("schedules"); the proof is
// BudgetProofs.cas_limit_all_interleavings. Build with -race to let the Go race detector watch.
func cmdRace(args []string) {
	fs := flag.NewFlagSet("race", flag.ExitOnError)
	gor := fs.Int("goroutines", 64, "")
	iters := fs.Int("iters", 2000, "iterations per goroutine")
	size := fs.Int("size", 100, "allocation size (each goroutine also uses size+g%3)")
	slots := fs.Int("slots", 5, "the limit is slots*size+1: room for about that many allocations")
	faultEvery := fs.Int("faultevery", 13, "every n-th vkAllocateMemory fails (0 = never)")
	fs.Parse(args)

	limit := *slots**size + 1
	cfg := simvk.Config{
		API:           10,
		Heaps:         []simvk.HeapCfg{{Size: 1 << 40}},
		Types:         []simvk.TypeCfg{{Heap: 0, Flags: simvk.PropHostVisible | simvk.PropHostCoherent}},
		Granularity:   1,
		AtomSize:      1,
		MaxAllocCount: 1 << 30,
		Log:           false,
		TableSize:     *gor**iters + 1024,
	}
	dev := simvk.NewDevice(cfg)
	drv := simvk.NewDriver(dev)
	fdrv := &faultyDriver{CoreDeviceDriver: drv.Driver, every: int64(*faultEvery)}
	dm, err := vam.VerifNewDeviceMemory(fdrv, drv.PhysicalDevice, []int{limit}, true)
	if err != nil {
		fmt.Fprintln(os.Stderr, "VerifNewDeviceMemory:", err)
		os.Exit(1)
	}
	rep := raceReport{Goroutines: *gor, Iters: *iters, Limit: limit, Size: *size}
	var allocs, refused, over, panics, maxDev, maxBB atomic.Int64
	observe := func() {
		d := int64(dev.HeapBytes(0))
		var b vam.VerifBudget
		dm.HeapBudget(0, &b)
		bb := int64(b.Statistics.BlockBytes)
		for {
			m := maxDev.Load()
			if d <= m || maxDev.CompareAndSwap(m, d) {
				break
			}
		}
		for {
			m := maxBB.Load()
			if bb <= m || maxBB.CompareAndSwap(m, bb) {
				break
			}
		}
		if d > int64(limit) || bb > int64(limit) || bb < 0 {
			over.Add(1)
		}
	}
	var wg sync.WaitGroup
	start := make(chan struct{})
	for g := 0; g < *gor; g++ {
		wg.Add(1)
		go func(g int) {
			defer wg.Done()
			defer func() {
				if r := recover(); r != nil {
					panics.Add(1)
					fmt.Fprintln(os.Stderr, "panic:", r)
				}
			}()
			sz := *size + g%3
			<-start
			for i := 0; i < *iters; i++ {
				mem, _, err := dm.AllocateVulkanMemory(fdrv, core1_0.MemoryAllocateInfo{AllocationSize: sz, MemoryTypeIndex: 0})
				observe()
				if err != nil {
					refused.Add(1) // limit refusal or injected driver failure
					continue
				}
				allocs.Add(1)
				observe()
				dm.FreeVulkanMemory(fdrv, 0, sz, mem)
				observe()
			}
		}(g)
	}
	close(start)
	wg.Wait()
	rep.Allocs, rep.Refused, rep.Faulted = allocs.Load(), refused.Load()-fdrv.fired.Load(), fdrv.fired.Load()
	rep.MaxDeviceBytes, rep.MaxBlockBytes, rep.OverLimit = maxDev.Load(), maxBB.Load(), over.Load()
	rep.Violations, rep.Panics = dev.ViolationCount(), panics.Load()
	bc, _, bb, _, mc := vam.VerifDeviceMemoryCounters(dm, 0)
	rep.FinalBytes, rep.FinalCount, rep.FinalMemCount = bb, bc, mc
	rep.FinalDevBytes, rep.FinalDevLive = dev.HeapBytes(0), dev.LiveMemCount()
	rep.OK = rep.OverLimit == 0 && rep.Violations == 0 && rep.Panics == 0 && bb == 0 && bc == 0 && mc == 0 &&
		rep.FinalDevBytes == 0 && rep.FinalDevLive == 0 && rep.MaxDeviceBytes <= int64(limit) && rep.MaxBlockBytes <= int64(limit) && rep.Allocs > 0
	out, _ := json.MarshalIndent(rep, "", "  ")
	fmt.Println(string(out))
	if !rep.OK {
		os.Exit(1)
	}
}
