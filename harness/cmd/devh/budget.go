package main

import (
	"bufio"
	"fmt"
	"os"
	"strconv"
	"strings"

	"github.com/vkngwrapper/arsenal/vam"
	"github.com/vkngwrapper/core/v3/core1_0"

	"verif/harness/internal/simvk"
)

// ---------------------------------------------------------------- component budget: DeviceMemoryProperties

type budgetCfg struct {
	heaps     []int // heap sizes; memory type i lives in heap i
	limits    []int // HeapSizeLimits (0 = none)
	maxCount  int   // maxMemoryAllocationCount
	budgetExt bool  // VK_EXT_memory_budget
	other     []int // bytes used by other processes, per heap (reported usage = other + allocated here)
	hbudget   []int // budget reported by the driver, per heap
}

func (c budgetCfg) line() string {
	return fmt.Sprintf("CFG comp=budget heaps=%s limits=%s maxcount=%d budgetext=%d other=%s hbudget=%s",
		joinInts(c.heaps), joinInts(c.limits), c.maxCount, b2i(c.budgetExt), joinInts(c.other), joinInts(c.hbudget))
}

func parseBudgetCfg(m map[string]string) budgetCfg {
	c := budgetCfg{heaps: splitInts(m["heaps"]), limits: splitInts(m["limits"]), other: splitInts(m["other"]), hbudget: splitInts(m["hbudget"])}
	c.maxCount, _ = strconv.Atoi(m["maxcount"])
	c.budgetExt = m["budgetext"] == "1"
	if len(c.heaps) == 0 {
		c.heaps = []int{1 << 20}
	}
	for len(c.limits) < len(c.heaps) {
		c.limits = append(c.limits, 0)
	}
	for len(c.other) < len(c.heaps) {
		c.other = append(c.other, 0)
	}
	for len(c.hbudget) < len(c.heaps) {
		c.hbudget = append(c.hbudget, 0)
	}
	return c
}

type bobj struct {
	mem        *vam.VerifSyncMemory
	heap, size int
	live       bool
}

type heapObs struct{ bc, ac, bb, ab, vu, vb, at int }

type budgetObs struct {
	mc, ops  int
	heaps    []heapObs
	devLive  int
	devBytes []int
	viol     int
}

func (a budgetObs) equal(b budgetObs) bool {
	if a.mc != b.mc || a.devLive != b.devLive || a.viol != b.viol {
		return false
	}
	for i := range a.heaps {
		x, y := a.heaps[i], b.heaps[i]
		if x.bc != y.bc || x.ac != y.ac || x.bb != y.bb || x.ab != y.ab || a.devBytes[i] != b.devBytes[i] {
			return false
		}
	}
	return true
}

type budgetHist struct {
	base
	c    budgetCfg
	dev  *simvk.Device
	drv  *simvk.Driver
	dm   *vam.VerifDeviceMemory
	objs []*bobj

	// ghost: live allocations registered with AddAllocation, per heap -> size -> count
	allocs  []map[int]int
	tainted bool
	fetches int64

	// generator
	unit int
}

func newBudgetHist(c budgetCfg, out *bufio.Writer, st *stats) *budgetHist {
	h := &budgetHist{c: c}
	h.out, h.st = out, st
	cfg := simvk.Config{API: 10, Granularity: 1, AtomSize: 1, MaxAllocCount: c.maxCount, Log: true, TableSize: 2048}
	if c.budgetExt {
		cfg.API = 11
		cfg.BudgetExt = true
		cfg.HeapBudget = c.hbudget
		cfg.HeapOtherUsage = c.other
	}
	for i, s := range c.heaps {
		cfg.Heaps = append(cfg.Heaps, simvk.HeapCfg{Size: s})
		cfg.Types = append(cfg.Types, simvk.TypeCfg{Heap: i, Flags: simvk.PropHostVisible | simvk.PropHostCoherent})
		h.allocs = append(h.allocs, map[int]int{})
	}
	h.dev = simvk.NewDevice(cfg)
	h.drv = simvk.NewDriver(h.dev)
	dm, err := vam.VerifNewDeviceMemory(h.drv.Driver, h.drv.PhysicalDevice, append([]int(nil), c.limits...), true)
	if err != nil {
		fmt.Fprintln(os.Stderr, "VerifNewDeviceMemory:", err)
		os.Exit(1)
	}
	h.dm = dm
	h.fetches = h.dev.CallCounts[simvk.CallMemProps2].Load()
	h.dev.TakeLog()
	return h
}

func (h *budgetHist) observe() budgetObs {
	var o budgetObs
	for i := range h.c.heaps {
		var x heapObs
		x.bc, x.ac, x.bb, x.ab, o.mc = vam.VerifDeviceMemoryCounters(h.dm, i)
		o.ops, x.vu, x.vb, x.at = vam.VerifDeviceMemoryBudgetState(h.dm, i)
		o.heaps = append(o.heaps, x)
		o.devBytes = append(o.devBytes, h.dev.HeapBytes(i))
	}
	o.devLive = h.dev.LiveMemCount()
	o.viol = int(h.dev.ViolationCount())
	return o
}

func (h *budgetHist) emit(o budgetObs) {
	fmt.Fprintf(h.out, "C mc=%d ops=%d\n", o.mc, o.ops)
	for i, x := range o.heaps {
		fmt.Fprintf(h.out, "HP %d %d %d %d %d %d %d %d\n", i, x.bc, x.ac, x.bb, x.ab, x.vu, x.vb, x.at)
	}
	fmt.Fprintf(h.out, "D live=%d viol=%d bytes=%s\n", o.devLive, o.viol, joinInts(o.devBytes))
}

func (h *budgetHist) header() { h.emit(h.observe()) }

func (h *budgetHist) validHeap(x int) bool { return x >= 0 && x < len(h.c.heaps) }

func (h *budgetHist) exec(f []string) {
	kind := f[0]
	var line string
	switch kind {
	case "A":
		line = fmt.Sprintf("A %d %d %d", atoi(f, 1), atoi(f, 2), atoi(f, 3))
	case "F":
		line = fmt.Sprintf("F %d %d %d", atoi(f, 1), atoi(f, 2), atoi(f, 3))
	case "AA", "RA":
		line = fmt.Sprintf("%s %d %d", kind, atoi(f, 1), atoi(f, 2))
	case "HB":
		line = fmt.Sprintf("HB %d", atoi(f, 1))
	default:
		return
	}
	// heap indices outside the device are outside the model (array index panics): never executed
	heapArg := atoi(f, 1)
	if kind == "F" {
		heapArg = atoi(f, 2)
	}
	if !h.validHeap(heapArg) {
		return
	}
	h.step++
	h.st.ops[kind]++
	fmt.Fprintln(h.out, line)

	// domain
	inDomain := true
	var obj *bobj
	switch kind {
	case "A":
		inDomain = atoi(f, 2) > 0
	case "F":
		k := atoi(f, 1)
		if k < 0 || k >= len(h.objs) {
			fmt.Fprintln(h.out, "R nolive")
			fmt.Fprintln(h.out, "CALLS")
			h.emit(h.observe())
			h.st.results["F:nolive"]++
			return
		}
		obj = h.objs[k]
		inDomain = obj.live && obj.heap == atoi(f, 2) && obj.size == atoi(f, 3)
	case "AA":
		inDomain = atoi(f, 2) >= 0
	case "RA":
		inDomain = h.allocs[atoi(f, 1)][atoi(f, 2)] > 0
	}
	if !inDomain {
		h.tainted = true
	}

	before := h.observe()
	h.dev.TakeLog()
	h.dev.TakeViolations()
	if kind == "A" && atoi(f, 3) == 1 {
		h.dev.ArmFault(int(simvk.CallAlloc), 1, simvk.ResOutOfDeviceMemory, false)
	}
	var err error
	var mem *vam.VerifSyncMemory
	var bud vam.VerifBudget
	panicked := guard(func() {
		switch kind {
		case "A":
			mem, _, err = h.dm.AllocateVulkanMemory(h.drv.Driver, core1_0.MemoryAllocateInfo{AllocationSize: atoi(f, 2), MemoryTypeIndex: atoi(f, 1)})
		case "F":
			h.dm.FreeVulkanMemory(h.drv.Driver, atoi(f, 2), atoi(f, 3), obj.mem)
		case "AA":
			h.dm.AddAllocation(atoi(f, 1), atoi(f, 2))
		case "RA":
			h.dm.RemoveAllocation(atoi(f, 1), atoi(f, 2))
		case "HB":
			h.dm.HeapBudget(atoi(f, 1), &bud)
		}
	})
	h.dev.DisarmFault()
	calls := h.dev.TakeLog()
	viols := h.dev.TakeViolations()

	var cs []string
	driverCalled := false
	allocFailRes := 0
	for _, c := range calls {
		switch c.Kind {
		case simvk.CallAlloc:
			driverCalled = true
			allocFailRes = c.Result
			if c.Result != 0 {
				cs = append(cs, "allocfail")
			} else {
				cs = append(cs, "alloc")
			}
		case simvk.CallFree:
			cs = append(cs, "free")
		default:
			cs = append(cs, c.Kind.String())
		}
	}
	if n := h.dev.CallCounts[simvk.CallMemProps2].Load(); n != h.fetches {
		for ; h.fetches < n; h.fetches++ {
			cs = append(cs, "fetch")
			h.st.refetches++
		}
	}

	res := ""
	switch {
	case panicked:
		res = "R panic"
	case kind == "A" && err != nil && driverCalled:
		res = "R err driver"
	case kind == "A" && err != nil && strings.Contains(strings.ToLower(err.Error()), "too many"):
		res = "R err count"
	case kind == "A" && err != nil:
		res = "R err limit"
	case kind == "A":
		h.objs = append(h.objs, &bobj{mem: mem, heap: atoi(f, 1), size: atoi(f, 2), live: true})
		res = fmt.Sprintf("R ok %d", len(h.objs)-1)
	case kind == "HB":
		s := bud.Statistics
		res = fmt.Sprintf("R ok %d %d %d %d %d %d", s.BlockCount, s.AllocationCount, s.BlockBytes, s.AllocationBytes, bud.Usage, bud.Budget)
	default:
		res = "R ok"
	}
	fmt.Fprintln(h.out, res)
	rf := strings.Fields(res)
	h.st.results[resKey(kind, rf)]++
	fmt.Fprintln(h.out, strings.TrimSpace("CALLS "+strings.Join(cs, " ")))
	after := h.observe()
	h.emit(after)

	// ghost update
	ok := !panicked && err == nil
	if kind == "F" && obj != nil {
		obj.live = false
	}
	if ok && inDomain {
		switch kind {
		case "AA":
			h.allocs[atoi(f, 1)][atoi(f, 2)]++
		case "RA":
			h.allocs[atoi(f, 1)][atoi(f, 2)]--
		}
	}

	// ---- oracles (in-domain histories only)
	if h.tainted {
		return
	}
	if panicked {
		h.fail("C13", "budget:"+kind+":panic", fmt.Sprintf("%s: %v", line, lastPanic))
		return
	}
	for _, v := range viols {
		h.fail("C08", "budget:"+v.Code, fmt.Sprintf("%s: %s", line, v.String()))
	}
	if kind == "A" && err != nil && !before.equal(after) {
		h.fail("C10", "budget:failed-alloc-left-trace", fmt.Sprintf("%s: %s", line, res))
	}
	// C11: the code's own limit checks must come before the driver's (a refusal by the device that was not
	// injected means the code let through what its limits forbid)
	if kind == "A" && atoi(f, 3) != 1 {
		if allocFailRes == simvk.ResTooManyObjects {
			h.fail("C11", "budget:count-limit-left-to-driver", line)
		}
		if allocFailRes == simvk.ResOutOfDeviceMemory && h.c.limits[atoi(f, 1)] > 0 {
			h.fail("C11", "budget:heap-limit-left-to-driver", line)
		}
	}
	// C04: counters equal device truth and the caller's truth
	liveObjs := make([]int, len(h.c.heaps))
	nLive := 0
	for _, o := range h.objs {
		if o.live {
			liveObjs[o.heap]++
			nLive++
		}
	}
	for i, x := range after.heaps {
		ac, ab := 0, 0
		for sz, n := range h.allocs[i] {
			ac += n
			ab += n * sz
		}
		if x.bb != after.devBytes[i] || x.bc != liveObjs[i] {
			h.fail("C04", "budget:block-counters", fmt.Sprintf("%s heap=%d blockCount=%d blockBytes=%d device: objects=%d bytes=%d", line, i, x.bc, x.bb, liveObjs[i], after.devBytes[i]))
		}
		if x.ac != ac || x.ab != ab {
			h.fail("C04", "budget:allocation-counters", fmt.Sprintf("%s heap=%d allocationCount=%d allocationBytes=%d truth: %d %d", line, i, x.ac, x.ab, ac, ab))
		}
		// C11: limits
		if lim := h.c.limits[i]; lim > 0 {
			if lim > h.c.heaps[i] {
				lim = h.c.heaps[i]
			}
			if after.devBytes[i] > lim {
				h.fail("C11", "budget:heap-limit-exceeded", fmt.Sprintf("%s heap=%d bytes=%d limit=%d", line, i, after.devBytes[i], lim))
			}
		}
	}
	if after.mc != after.devLive || nLive != after.devLive {
		h.fail("C04", "budget:memory-count", fmt.Sprintf("%s memoryCount=%d device=%d harness=%d", line, after.mc, after.devLive, nLive))
	}
	if after.devLive > h.c.maxCount {
		h.fail("C11", "budget:count-limit-exceeded", fmt.Sprintf("%s live=%d max=%d", line, after.devLive, h.c.maxCount))
	}
	if kind == "HB" {
		i := atoi(f, 1)
		wantUsage := after.devBytes[i]
		wantBudget := h.c.heaps[i] * 8 / 10
		if h.c.budgetExt {
			wantUsage += h.c.other[i]
			if b := h.c.hbudget[i]; b != 0 {
				wantBudget = b
				if wantBudget > h.c.heaps[i] {
					wantBudget = h.c.heaps[i]
				}
			}
		}
		s := bud.Statistics
		if bud.Usage != wantUsage || bud.Budget != wantBudget {
			h.fail("C04", "budget:usage", fmt.Sprintf("%s usage=%d budget=%d want %d %d", line, bud.Usage, bud.Budget, wantUsage, wantBudget))
		}
		x := after.heaps[i]
		if s.BlockCount != x.bc || s.AllocationCount != x.ac || s.BlockBytes != x.bb || s.AllocationBytes != x.ab {
			h.fail("C04", "budget:heapbudget-statistics", fmt.Sprintf("%s %s", line, res))
		}
	}
}

// ---------------------------------------------------------------- generator

func genBudgetCfg(r *rng, profile string) budgetCfg {
	var c budgetCfg
	n := r.rangeIncl(1, 3)
	c.maxCount = 64
	for i := 0; i < n; i++ {
		c.heaps = append(c.heaps, r.pick(1000, 4096, 1<<20))
		c.limits = append(c.limits, 0)
		c.other = append(c.other, 0)
		c.hbudget = append(c.hbudget, 0)
	}
	switch profile {
	case "limit":
		for i := range c.heaps {
			unit := r.pick(64, 100, 256)
			lim := unit*r.rangeIncl(2, 6) + r.pick(-1, 0, 0, 1)
			c.limits[i] = lim
			switch r.intn(4) {
			case 0:
				c.heaps[i] = lim - r.rangeIncl(1, unit) // heap smaller than its limit: the heap size binds
			case 1:
				c.heaps[i] = lim
			}
		}
	case "count":
		c.maxCount = r.rangeIncl(1, 5)
		for i := range c.heaps {
			c.heaps[i] = 1 << 20
		}
	case "budgetext":
		c.budgetExt = true
	default:
		for i := range c.heaps {
			if r.chance(50) {
				c.limits[i] = r.rangeIncl(100, c.heaps[i]+200)
			}
		}
		if r.chance(25) {
			c.maxCount = r.rangeIncl(2, 8)
		}
		c.budgetExt = r.chance(25)
	}
	if c.budgetExt {
		for i := range c.heaps {
			c.other[i] = r.pick(0, 0, 100, 5000)
			c.hbudget[i] = r.pick(0, c.heaps[i]/2, c.heaps[i]*2, c.heaps[i])
		}
	}
	return c
}

func (h *budgetHist) liveObjs() []int {
	var ks []int
	for k, o := range h.objs {
		if o.live {
			ks = append(ks, k)
		}
	}
	return ks
}

func (h *budgetHist) genSize(r *rng, heap int, profile string) int {
	lim := h.c.limits[heap]
	if profile == "limit" && lim > 0 {
		if h.unit == 0 {
			h.unit = r.pick(64, 100, 256)
		}
		switch r.intn(8) {
		case 0:
			return 1
		case 1:
			return h.unit + r.pick(-1, 1)
		case 2:
			// exactly what is left, or one more
			used, _, _ := h.heapUse(heap)
			left := min(lim, h.c.heaps[heap]) - used
			if left > 0 {
				return left + r.pick(0, 0, 1)
			}
			return 1
		default:
			return h.unit
		}
	}
	switch r.intn(6) {
	case 0:
		return r.rangeIncl(1, 8)
	case 1:
		return r.rangeIncl(1, h.c.heaps[heap]/2+1)
	default:
		return r.rangeIncl(1, h.c.heaps[heap]/6+1)
	}
}

func (h *budgetHist) heapUse(heap int) (bytes, count, total int) {
	for _, o := range h.objs {
		if o.live {
			total++
			if o.heap == heap {
				bytes += o.size
				count++
			}
		}
	}
	return
}

func (h *budgetHist) gen(r *rng, profile string, i, n int) ([]string, bool) {
	S := strconv.Itoa
	heap := r.intn(len(h.c.heaps))
	faultPct := 10
	hbPct := 12
	switch profile {
	case "allocfault":
		faultPct = 35
	case "budgetext":
		hbPct = 22
	}
	if profile == "malformed" && r.chance(15) {
		live := h.liveObjs()
		switch r.intn(5) {
		case 0: // double free
			for k, o := range h.objs {
				if !o.live {
					return []string{"F", S(k), S(o.heap), S(o.size)}, true
				}
			}
		case 1: // free with the wrong size
			if len(live) > 0 {
				o := h.objs[live[0]]
				return []string{"F", S(live[0]), S(o.heap), S(o.size + r.pick(-1, 1, 1000000))}, true
			}
		case 2: // remove what was never added
			return []string{"RA", S(heap), S(r.rangeIncl(1, 5000))}, true
		case 3: // free of an object that never existed
			return []string{"F", S(len(h.objs) + r.intn(3)), S(heap), "8"}, true
		default: // zero-size allocation
			return []string{"A", S(heap), "0", "0"}, true
		}
	}
	x := r.intn(100)
	switch {
	case x < hbPct:
		return []string{"HB", S(heap)}, true
	case x < hbPct+33:
		return []string{"A", S(heap), S(h.genSize(r, heap, profile)), S(b2i(r.chance(faultPct)))}, true
	case x < hbPct+55:
		live := h.liveObjs()
		if len(live) == 0 {
			return []string{"A", S(heap), S(h.genSize(r, heap, profile)), S(b2i(r.chance(faultPct)))}, true
		}
		k := live[r.intn(len(live))]
		return []string{"F", S(k), S(h.objs[k].heap), S(h.objs[k].size)}, true
	case x < hbPct+73:
		return []string{"AA", S(heap), S(r.pick(0, 1, 16, 100, 256, 4096, r.rangeIncl(1, 100000)))}, true
	default:
		// remove one registered allocation of this heap (any heap if this one has none)
		for d := 0; d < len(h.c.heaps); d++ {
			hp := (heap + d) % len(h.c.heaps)
			var sizes []int
			for sz, n := range h.allocs[hp] {
				if n > 0 {
					sizes = append(sizes, sz)
				}
			}
			if len(sizes) > 0 {
				// deterministic choice: sort
				for a := 0; a < len(sizes); a++ {
					for b := a + 1; b < len(sizes); b++ {
						if sizes[b] < sizes[a] {
							sizes[a], sizes[b] = sizes[b], sizes[a]
						}
					}
				}
				return []string{"RA", S(hp), S(sizes[r.intn(len(sizes))])}, true
			}
		}
		return []string{"AA", S(heap), S(r.rangeIncl(1, 4096))}, true
	}
}
