// devh: device-level harness. Drives two small state machines of vam/internal/vulkan directly
// (through the verif hooks), over the simulated Vulkan device simvk:
//
//	comp=sync    SynchronizedMemory: Map / Unmap / RecordSuballocSubfree / FreeMemory (mapping
//	             reference count + hysteresis), see sync.go
//	comp=budget  DeviceMemoryProperties: AllocateVulkanMemory / FreeVulkanMemory / AddAllocation /
//	             RemoveAllocation / HeapBudget (budget counters, heap and count limits), see budget.go
//
//	devh gen  -seed S -n N -ops K -profile P [-comp sync|budget]   (trace on stdout)
//	devh run  <file>      (re-executes H/CFG/op/END lines of a trace, prints the full trace)
//	devh race [-goroutines 64] [-iters 2000] ...   (build with -race; hammers one heap limit)
//
// Trace format: /verif/harness/DEVH_FORMAT.md.
package main

import (
	"bufio"
	"flag"
	"fmt"
	"os"
	"runtime/debug"
	"sort"
	"strconv"
	"strings"
)

// ---------------------------------------------------------------- PRNG (splitmix64)

type rng struct{ s uint64 }

func (r *rng) next() uint64 {
	r.s += 0x9e3779b97f4a7c15
	z := r.s
	z = (z ^ (z >> 30)) * 0xbf58476d1ce4e5b9
	z = (z ^ (z >> 27)) * 0x94d049bb133111eb
	return z ^ (z >> 31)
}
func (r *rng) intn(n int) int {
	if n <= 0 {
		return 0
	}
	return int(r.next() % uint64(n))
}
func (r *rng) rangeIncl(lo, hi int) int { return lo + r.intn(hi-lo+1) }
func (r *rng) chance(pct int) bool      { return r.intn(100) < pct }
func (r *rng) pick(xs ...int) int       { return xs[r.intn(len(xs))] }

// ---------------------------------------------------------------- stats / plumbing

type stats struct {
	ops        map[string]int
	results    map[string]int
	oracleFail int
	extraOn    int // sync: histories in which extraMapping was switched on
	extraOff   int // sync: histories in which extraMapping was switched off again
	refetches  int // budget: budget refetches
}

func newStats() *stats { return &stats{ops: map[string]int{}, results: map[string]int{}} }

var lastPanic any
var lastStack string

func guard(f func()) (panicked bool) {
	defer func() {
		if r := recover(); r != nil {
			panicked = true
			lastPanic = r
			lastStack = string(debug.Stack())
		}
	}()
	f()
	return false
}

// history is one running history of either component.
type history interface {
	// header prints the lines that follow the CFG line (initial observables)
	header()
	// exec runs one op line on the real code and prints op, R, CALLS, observables, oracle lines
	exec(f []string)
	// gen produces the next op line (fields) of a generated history; ok=false ends the history early
	gen(r *rng, profile string, i, n int) (f []string, ok bool)
}

type base struct {
	out  *bufio.Writer
	st   *stats
	step int
}

func (b *base) fail(prop, sig, detail string) {
	fmt.Fprintf(b.out, "ORACLE-FAIL property=%s sig=%s step=%d %s\n", prop, sig, b.step, detail)
	b.st.oracleFail++
}

// resKey is the statistics key of a result line: kind:ok, kind:ok:<0|1> for M and S, kind:err:<what>.
func resKey(kind string, rf []string) string {
	if len(rf) > 2 && (rf[1] == "err" || kind == "M" || kind == "S") {
		return kind + ":" + rf[1] + ":" + rf[2]
	}
	return kind + ":" + rf[1]
}

func b2i(b bool) int {
	if b {
		return 1
	}
	return 0
}

func atoi(f []string, i int) int {
	if i >= len(f) {
		return 0
	}
	v, _ := strconv.Atoi(f[i])
	return v
}

func joinInts(xs []int) string {
	s := make([]string, len(xs))
	for i, x := range xs {
		s[i] = strconv.Itoa(x)
	}
	return strings.Join(s, ",")
}

func splitInts(s string) []int {
	if s == "" {
		return nil
	}
	var out []int
	for _, p := range strings.Split(s, ",") {
		v, _ := strconv.Atoi(p)
		out = append(out, v)
	}
	return out
}

func cfgMap(line string) map[string]string {
	m := map[string]string{}
	for _, f := range strings.Fields(line)[1:] {
		kv := strings.SplitN(f, "=", 2)
		if len(kv) == 2 {
			m[kv[0]] = kv[1]
		}
	}
	return m
}

func newHistoryFromCfg(line string, out *bufio.Writer, st *stats) history {
	m := cfgMap(line)
	switch m["comp"] {
	case "sync":
		return newSyncHist(parseSyncCfg(m), out, st)
	case "budget":
		return newBudgetHist(parseBudgetCfg(m), out, st)
	}
	return nil
}

// profiles and the component they exercise ("" = either, chosen per history)
var profileComp = map[string]string{
	"basic": "", "malformed": "",
	"hyst": "sync", "persist": "sync", "mapfault": "sync",
	"limit": "budget", "count": "budget", "allocfault": "budget", "budgetext": "budget",
}

func printSummary(st *stats, nh int) {
	w := os.Stderr
	fmt.Fprintf(w, "SUMMARY histories=%d oracleFails=%d extraOn=%d extraOff=%d refetches=%d\n", nh, st.oracleFail, st.extraOn, st.extraOff, st.refetches)
	keys := []string{}
	for k := range st.ops {
		keys = append(keys, k)
	}
	sort.Strings(keys)
	for _, k := range keys {
		fmt.Fprintf(w, "OPS %s %d\n", k, st.ops[k])
	}
	keys = keys[:0]
	for k := range st.results {
		keys = append(keys, k)
	}
	sort.Strings(keys)
	for _, k := range keys {
		fmt.Fprintf(w, "RES %s %d\n", k, st.results[k])
	}
}

func main() {
	if len(os.Args) < 2 {
		fmt.Fprintln(os.Stderr, "usage: devh gen|run|race ...")
		os.Exit(2)
	}
	out := bufio.NewWriterSize(os.Stdout, 1<<20)
	defer out.Flush()
	st := newStats()
	switch os.Args[1] {
	case "gen":
		fs := flag.NewFlagSet("gen", flag.ExitOnError)
		seed := fs.Uint64("seed", 1, "")
		n := fs.Int("n", 10, "")
		ops := fs.Int("ops", 60, "")
		profile := fs.String("profile", "basic", "")
		comp := fs.String("comp", "", "sync|budget (default: what the profile implies; basic/malformed alternate)")
		fs.Parse(os.Args[2:])
		pc, ok := profileComp[*profile]
		if !ok {
			fmt.Fprintln(os.Stderr, "unknown profile", *profile)
			os.Exit(2)
		}
		r := &rng{s: *seed*0x9e3779b97f4a7c15 + 54321}
		for i := 0; i < *n; i++ {
			c := pc
			if *comp != "" {
				c = *comp
			}
			if c == "" {
				c = []string{"sync", "budget"}[r.intn(2)]
			}
			fmt.Fprintf(out, "H %d seed=%d profile=%s\n", i, *seed, *profile)
			var cfgLine string
			if c == "sync" {
				cfgLine = genSyncCfg(r, *profile).line()
			} else {
				cfgLine = genBudgetCfg(r, *profile).line()
			}
			fmt.Fprintln(out, cfgLine)
			h := newHistoryFromCfg(cfgLine, out, st)
			h.header()
			nops := r.rangeIncl(*ops/3, *ops)
			for j := 0; j < nops; j++ {
				f, ok := h.gen(r, *profile, j, nops)
				if !ok {
					break
				}
				h.exec(f)
			}
			fmt.Fprintln(out, "END")
		}
		printSummary(st, *n)
	case "run":
		if len(os.Args) < 3 {
			fmt.Fprintln(os.Stderr, "usage: devh run <file>")
			os.Exit(2)
		}
		f, err := os.Open(os.Args[2])
		if err != nil {
			fmt.Fprintln(os.Stderr, err)
			os.Exit(2)
		}
		sc := bufio.NewScanner(f)
		sc.Buffer(make([]byte, 1<<20), 1<<26)
		var h history
		nh := 0
		for sc.Scan() {
			line := sc.Text()
			fl := strings.Fields(line)
			if len(fl) == 0 {
				continue
			}
			switch fl[0] {
			case "H":
				fmt.Fprintln(out, line)
				nh++
			case "CFG":
				fmt.Fprintln(out, line)
				h = newHistoryFromCfg(line, out, st)
				if h != nil {
					h.header()
				}
			case "END":
				fmt.Fprintln(out, "END")
				h = nil
			case "M", "U", "S", "X", "A", "F", "AA", "RA", "HB":
				if h != nil {
					h.exec(fl)
				}
			}
		}
		printSummary(st, nh)
	case "race":
		out.Flush()
		cmdRace(os.Args[2:])
	default:
		fmt.Fprintln(os.Stderr, "usage: devh gen|run|race ...")
		os.Exit(2)
	}
}
