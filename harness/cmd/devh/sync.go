package main

import (
	"bufio"
	"fmt"
	"os"
	"strconv"
	"strings"

	"github.com/vkngwrapper/arsenal/vam"
	"github.com/vkngwrapper/core/v3/core1_0"

	"verif/harness/internal/simvk"
)

// ---------------------------------------------------------------- component sync: SynchronizedMemory

type syncCfg struct {
	size  int // size of the memory object
	mutex bool
}

func (c syncCfg) line() string {
	return fmt.Sprintf("CFG comp=sync size=%d mutex=%d", c.size, b2i(c.mutex))
}

func parseSyncCfg(m map[string]string) syncCfg {
	c := syncCfg{size: 4096}
	if v, err := strconv.Atoi(m["size"]); err == nil && v > 0 {
		c.size = v
	}
	c.mutex = m["mutex"] == "1"
	return c
}

func genSyncCfg(r *rng, profile string) syncCfg {
	return syncCfg{size: r.pick(256, 4096, 65536), mutex: r.chance(50)}
}

type syncObs struct {
	refs, delay, status int
	extra, mapped       bool
	devMapped, devAlive bool
	viol                int
}

type syncHist struct {
	base
	c   syncCfg
	dev *simvk.Device
	drv *simvk.Driver
	dm  *vam.VerifDeviceMemory
	mem *vam.VerifSyncMemory
	id  int // simvk id of the memory object

	// ghost state of the harness (what the callers know)
	outstanding int  // references handed out: successful Map refs - successful in-domain Unmap refs
	freed       bool // FreeMemory was called
	tainted     bool // an out-of-domain operation was executed: in-domain oracles are off from here on
	sawOn       bool
	sawOff      bool

	// generator state
	phase    int
	phaseLen int
	persist  int  // persist profile: number of persistent references held
	pendingP bool // persist profile: the Map just generated is a persistent one
}

func newSyncHist(c syncCfg, out *bufio.Writer, st *stats) *syncHist {
	h := &syncHist{c: c}
	h.out, h.st = out, st
	h.dev = simvk.NewDevice(simvk.Config{
		API:           10,
		Heaps:         []simvk.HeapCfg{{Size: 1 << 30}},
		Types:         []simvk.TypeCfg{{Heap: 0, Flags: simvk.PropHostVisible | simvk.PropHostCoherent}},
		Granularity:   1,
		AtomSize:      1,
		MaxAllocCount: 4096,
		Log:           true,
		TableSize:     64,
	})
	h.drv = simvk.NewDriver(h.dev)
	dm, err := vam.VerifNewDeviceMemory(h.drv.Driver, h.drv.PhysicalDevice, []int{0}, c.mutex)
	if err != nil {
		fmt.Fprintln(os.Stderr, "VerifNewDeviceMemory:", err)
		os.Exit(1)
	}
	h.dm = dm
	mem, _, err := dm.AllocateVulkanMemory(h.drv.Driver, core1_0.MemoryAllocateInfo{AllocationSize: c.size, MemoryTypeIndex: 0})
	if err != nil {
		fmt.Fprintln(os.Stderr, "AllocateVulkanMemory:", err)
		os.Exit(1)
	}
	h.mem = mem
	h.id = simvk.MemID(mem.VulkanDeviceMemory())
	h.dev.TakeLog()
	return h
}

func (h *syncHist) observe() syncObs {
	var o syncObs
	o.refs, o.extra, o.mapped, o.delay, o.status = vam.VerifSyncMemState(h.mem)
	if m := h.dev.MemByID(h.id); m != nil {
		o.devMapped, o.devAlive = m.Mapped(), m.Alive()
	}
	o.viol = int(h.dev.ViolationCount())
	return o
}

func (h *syncHist) emit(o syncObs) {
	fmt.Fprintf(h.out, "ST refs=%d extra=%d mapped=%d delay=%d status=%d\n", o.refs, b2i(o.extra), b2i(o.mapped), o.delay, o.status)
	fmt.Fprintf(h.out, "D mapped=%d alive=%d viol=%d\n", b2i(o.devMapped), b2i(o.devAlive), o.viol)
}

func (h *syncHist) header() { h.emit(h.observe()) }

func (h *syncHist) exec(f []string) {
	kind := f[0]
	var line string
	switch kind {
	case "M":
		line = fmt.Sprintf("M %d %d", atoi(f, 1), atoi(f, 2))
	case "U":
		line = fmt.Sprintf("U %d", atoi(f, 1))
	case "S", "X":
		line = kind
	default:
		return
	}
	h.step++
	h.st.ops[kind]++
	fmt.Fprintln(h.out, line)
	refs := atoi(f, 1)

	// domain of the operation, decided on the caller's knowledge only
	inDomain := !h.freed
	rejectable := false // out of domain, but documented to be refused without side effects
	switch kind {
	case "M":
		inDomain = inDomain && refs >= 0
	case "U":
		if !h.freed && refs > h.outstanding && refs >= 0 {
			inDomain, rejectable = false, true
		} else {
			inDomain = inDomain && refs >= 0
		}
	}
	if !inDomain && !rejectable {
		h.tainted = true
	}

	before := h.observe()
	h.dev.TakeLog()
	h.dev.TakeViolations()
	if kind == "M" && atoi(f, 2) == 1 {
		h.dev.ArmFault(int(simvk.CallMap), 1, simvk.ResMemoryMapFailed, false)
	}
	var err error
	ptrNonNil, subRes := false, false
	panicked := guard(func() {
		switch kind {
		case "M":
			p, _, e := h.mem.Map(h.drv.Driver, refs, 0, -1, 0)
			ptrNonNil, err = p != nil, e
		case "U":
			err = h.mem.Unmap(h.drv.Driver, refs)
		case "S":
			subRes = h.mem.RecordSuballocSubfree(h.drv.Driver)
		case "X":
			h.mem.FreeMemory(h.drv.Driver)
		}
	})
	h.dev.DisarmFault()
	calls := h.dev.TakeLog()
	viols := h.dev.TakeViolations()

	// CALLS
	var cs []string
	mapFailed, unmapCalled := false, false
	for _, c := range calls {
		switch c.Kind {
		case simvk.CallMap:
			if c.Result != 0 {
				cs = append(cs, "mapfail")
				mapFailed = true
			} else {
				cs = append(cs, "map")
			}
		case simvk.CallUnmap:
			cs = append(cs, "unmap")
			unmapCalled = true
		case simvk.CallFree:
			cs = append(cs, "free")
		default:
			cs = append(cs, c.Kind.String())
		}
	}

	// R
	res := ""
	switch {
	case panicked:
		res = "R panic"
	case err != nil && kind == "M" && mapFailed:
		res = "R err mapfailed"
	case err != nil && kind == "M":
		res = "R err nodata"
	case err != nil:
		res = "R err toomany"
	case kind == "M":
		res = fmt.Sprintf("R ok %d", b2i(ptrNonNil))
	case kind == "S":
		res = fmt.Sprintf("R ok %d", b2i(subRes))
	default:
		res = "R ok"
	}
	fmt.Fprintln(h.out, res)
	rf := strings.Fields(res)
	h.st.results[resKey(kind, rf)]++
	fmt.Fprintln(h.out, strings.TrimSpace("CALLS "+strings.Join(cs, " ")))
	after := h.observe()
	h.emit(after)
	if !before.extra && after.extra && !h.sawOn {
		h.sawOn = true
		h.st.extraOn++
	}
	if before.extra && !after.extra && !h.sawOff {
		h.sawOff = true
		h.st.extraOff++
	}

	// ghost update
	ok := !panicked && err == nil
	if kind == "X" {
		h.freed = true
	}
	if ok && inDomain {
		switch kind {
		case "M":
			h.outstanding += refs
		case "U":
			h.outstanding -= refs
		}
	}
	if h.pendingP && kind == "M" {
		if ok {
			h.persist++
		}
		h.pendingP = false
	}

	// ---- oracles
	if h.tainted {
		return
	}
	if rejectable {
		// the operation asks for more than the caller holds: it must change nothing
		if before != after || len(calls) > 0 {
			h.fail("C13", "sync:U:rejected-changed-state", line)
		}
		return
	}
	if panicked {
		h.fail("C13", "sync:"+kind+":panic", fmt.Sprintf("%s: %v", line, lastPanic))
		return
	}
	for _, v := range viols {
		h.fail("C08", "sync:"+v.Code, fmt.Sprintf("%s: %s", line, v.String()))
	}
	if h.freed {
		return
	}
	if kind == "M" && err != nil {
		// C10: a failed Map leaves no trace in the mapping state or on the device
		if before.refs != after.refs || before.extra != after.extra || before.mapped != after.mapped || before.devMapped != after.devMapped {
			h.fail("C10", "sync:failed-map-left-trace", fmt.Sprintf("%s: refs %d->%d extra %d->%d mapped %d->%d dev %d->%d", line,
				before.refs, after.refs, b2i(before.extra), b2i(after.extra), b2i(before.mapped), b2i(after.mapped), b2i(before.devMapped), b2i(after.devMapped)))
		}
		if !mapFailed {
			h.fail("C14", "sync:map-error-without-driver-failure", line)
		}
	}
	if kind == "M" && err == nil && refs > 0 && !ptrNonNil {
		h.fail("C14", "sync:map-ok-nil-pointer", line)
	}
	if kind == "U" && err != nil {
		h.fail("C14", "sync:balanced-unmap-rejected", fmt.Sprintf("%s outstanding=%d", line, h.outstanding))
	}
	// C14: references handed out keep the memory mapped; an unmap that leaves references makes no vkUnmapMemory
	if h.outstanding > 0 && (!after.devMapped || !after.mapped) {
		h.fail("C14", "sync:unmapped-with-references", fmt.Sprintf("%s outstanding=%d devMapped=%d mapData=%d", line, h.outstanding, b2i(after.devMapped), b2i(after.mapped)))
	}
	if h.outstanding > 0 && unmapCalled {
		h.fail("C14", "sync:unmap-while-others-hold", fmt.Sprintf("%s outstanding=%d", line, h.outstanding))
	}
	if after.refs != h.outstanding {
		h.fail("C14", "sync:refs-imbalance", fmt.Sprintf("%s mapReferences=%d outstanding=%d", line, after.refs, h.outstanding))
	}
	// the mapping invariant: device mapped <=> mapData != nil <=> (refs > 0 or extra)
	if after.devMapped != after.mapped || after.mapped != (after.refs > 0 || after.extra) {
		h.fail("C08", "sync:mapped-iff", fmt.Sprintf("%s devMapped=%d mapData=%d refs=%d extra=%d", line, b2i(after.devMapped), b2i(after.mapped), after.refs, b2i(after.extra)))
	}
}

// ---------------------------------------------------------------- generator

func (h *syncHist) opM(r *rng, refs, faultPct int) []string {
	return []string{"M", strconv.Itoa(refs), strconv.Itoa(b2i(r.chance(faultPct)))}
}

func (h *syncHist) opU(refs int) []string { return []string{"U", strconv.Itoa(refs)} }

// mapOrUnmap: a random in-domain map/unmap event
func (h *syncHist) mapOrUnmap(r *rng, faultPct int) []string {
	if h.outstanding > 0 && (r.chance(50) || h.outstanding > 6) {
		return h.opU(r.rangeIncl(1, min(3, h.outstanding)))
	}
	return h.opM(r, r.rangeIncl(1, 3), faultPct)
}

func (h *syncHist) gen(r *rng, profile string, i, n int) ([]string, bool) {
	if h.freed && profile != "malformed" {
		return nil, false
	}
	if i == n-1 && !h.freed && r.chance(80) {
		return []string{"X"}, true
	}
	faultPct := 10
	switch profile {
	case "mapfault":
		faultPct = 45
	case "persist":
		// the block list's usage: every suballocation is a RecordSuballocSubfree, followed by Map(1) for a
		// persistently mapped allocation; a free of such an allocation is Unmap(1) then RecordSuballocSubfree;
		// users map/unmap their allocations in between
		if h.phase == 1 { // a suballocation was just recorded: map it persistently?
			h.phase = 0
			if r.chance(60) {
				h.pendingP = true
				return h.opM(r, 1, faultPct), true
			}
		}
		if h.phase == 2 { // a persistent allocation was just unmapped: record its free
			h.phase = 0
			return []string{"S"}, true
		}
		switch x := r.intn(100); {
		case x < 25:
			h.phase = 1
			return []string{"S"}, true
		case x < 45 && h.persist > 0:
			h.persist--
			h.phase = 2 // pending S after this U
			return h.opU(1), true
		case x < 75:
			return h.opM(r, 1, faultPct), true
		case h.outstanding-h.persist > 0:
			return h.opU(1), true
		default:
			return []string{"S"}, true
		}
	case "malformed":
		if r.chance(15) {
			switch r.intn(6) {
			case 0, 1:
				return h.opU(h.outstanding + r.rangeIncl(1, 3)), true // more than the caller holds
			case 2:
				return h.opM(r, -r.rangeIncl(1, 2), 0), true
			case 3:
				return h.opU(-1), true
			case 4:
				return []string{"X"}, true // free in the middle, operations after it
			default:
				return h.opM(r, 0, 50), true
			}
		}
	}
	if profile == "hyst" || profile == "mapfault" {
		// alternate bursts: map/unmap churn (switches the extra mapping on), suballocation bursts (switches it off)
		if h.phaseLen <= 0 {
			h.phase = 1 - h.phase
			h.phaseLen = r.rangeIncl(7, 18)
		}
		h.phaseLen--
		if h.phase == 1 {
			if r.chance(85) {
				return h.mapOrUnmap(r, faultPct), true
			}
			return []string{"S"}, true
		}
		if r.chance(88) {
			return []string{"S"}, true
		}
		return h.mapOrUnmap(r, faultPct), true
	}
	// basic / malformed: uniform
	switch x := r.intn(100); {
	case x < 35:
		refs := r.rangeIncl(1, 3)
		if r.chance(5) {
			refs = 0
		}
		return h.opM(r, refs, faultPct), true
	case x < 65:
		if h.outstanding == 0 {
			if r.chance(50) {
				return h.opU(0), true
			}
			return h.opM(r, 1, faultPct), true
		}
		return h.opU(r.rangeIncl(0, min(3, h.outstanding))), true
	default:
		return []string{"S"}, true
	}
}
