package main

import (
	"errors"
	"math"
	"runtime/debug"
	"sort"

	"github.com/vkngwrapper/arsenal/memutils"
	"github.com/vkngwrapper/arsenal/memutils/defrag"
	"github.com/vkngwrapper/arsenal/memutils/metadata"
	"github.com/vkngwrapper/arsenal/vam"
)

// ---------------------------------------------------------------- fake granularity handler (accept all)

type fakeGran struct{}

func (fakeGran) AllocRegions(uint32, int, int) {}
func (fakeGran) FreeRegions(int, int)          {}
func (fakeGran) Clear()                        {}
func (fakeGran) CheckConflictAndAlignUp(o, s, ro, rs int, t uint32) (int, bool) {
	return o, false
}
func (fakeGran) RoundUpAllocRequest(t uint32, s int, a uint) (int, uint) { return s, a }
func (fakeGran) AllocationsConflict(uint32, uint32) bool                 { return false }
func (fakeGran) StartValidation() any                                    { return nil }
func (fakeGran) Validate(any, int, int) error                            { return nil }
func (fakeGran) FinishValidation(any) error                              { return nil }

// ---------------------------------------------------------------- the block list under test

// alloc is the allocation object of this BlockList (the T of defrag.BlockList[T]); it plays the
// role vam.Allocation plays for vam's memoryBlockList.
type alloc struct {
	slot   int // -1 until committed
	blk    *block
	handle metadata.BlockAllocationHandle
	size   int
	align  uint
	kind   uint32
	tag    int
	temp   bool // destination temporary of a defragmentation pass
	live   bool
	// what the planner handed to the block list for a temporary: the kind the destination request was
	// created under (AllocationRequest.AllocType), the flags and the kind given to the commit
	reqKind   uint32
	reqFlags  uint32
	commitKnd uint32
}

// moveFlags is the Flags value the block list reports for an allocation: never equal to a kind, so an
// interchange of the two adjacent uint32 arguments inside the planner is visible
func moveFlags(kind uint32) uint32 { return kind + 0x1000 }

type block struct {
	id   int
	size int
	md   *metadata.TLSFBlockMetadata
}

// refusal is a commit attempt of the current pass the block list refused (CF)
type refusal struct {
	k      int // index of the attempt among the commit attempts of the pass
	src    int // slot of the allocation the planner was relocating
	dstBlk int // id of the block the destination request was made in
}

type world struct {
	blocks   []*block
	slots    []*alloc // slot -> allocation object (never reused)
	sentinel bool     // temporaries carry the defrag context as metadata user data
	dead     bool     // a panic happened: the history is over
	gran     int      // bufferImageGranularity of the block list

	// refused commits: the attempts (counted from 0 within a pass) listed in failSet make
	// CommitDefragAllocationRequest return an error without touching any metadata
	failSet  map[int]bool
	attempt  int
	lastSrc  int // slot of the allocation MoveDataForUserData last described to the planner
	refusals []refusal

	ctx      *defrag.MetadataDefragContext[alloc]
	begun    bool
	maxBytes int
	maxAlloc int
	pass     *defrag.PassContext
	passOpen bool
	run      defrag.DefragmentationStats

	swaps     [][2]int // SwapBlocks calls of the current op
	swapIds   []int    // id of the block found at the left index of each call
	lockDepth int
	lockBad   bool
}

func newWorld(sizes []int, sentinel bool, gran int, handler string) *world {
	if gran < 1 {
		gran = 1
	}
	w := &world{sentinel: sentinel, gran: gran, lastSrc: -1}
	for i, s := range sizes {
		var gh metadata.GranularityCheck = fakeGran{}
		if handler == "vam" {
			// vam's real blockBufferImageGranularity, one per block as in vam's deviceMemoryBlock
			gh = vam.VerifNewGranularityHandler(uint(gran), s)
		}
		md := metadata.NewTLSFBlockMetadata(gran, gh)
		md.Init(s)
		w.blocks = append(w.blocks, &block{id: i, size: s, md: md})
	}
	return w
}

func (w *world) blockByID(id int) (int, *block) {
	for i, b := range w.blocks {
		if b.id == id {
			return i, b
		}
	}
	return -1, nil
}

func (w *world) MetadataForBlock(index int) metadata.BlockMetadata { return w.blocks[index].md }
func (w *world) BlockCount() int                                   { return len(w.blocks) }
func (w *world) BufferImageGranularity() int                       { return w.gran }
func (w *world) Lock()                                             { w.lockDepth++ }
func (w *world) Unlock() {
	w.lockDepth--
	if w.lockDepth < 0 {
		w.lockBad = true
	}
}
func (w *world) CreateAlloc() *alloc { return &alloc{slot: -1} }

func (w *world) AddStatistics(stats *memutils.Statistics) {
	for _, b := range w.blocks {
		b.md.AddStatistics(stats)
	}
}

func (w *world) MoveDataForUserData(userData any) defrag.MoveAllocationData[alloc] {
	a, ok := userData.(*alloc)
	if !ok || a == nil || a.temp {
		// not offered for relocation (this run's own temporaries)
		return defrag.MoveAllocationData[alloc]{}
	}
	w.lastSrc = a.slot
	return defrag.MoveAllocationData[alloc]{
		Alignment:         a.align,
		SuballocationType: a.kind,
		Flags:             moveFlags(a.kind),
		Move: defrag.DefragmentationMove[alloc]{
			Size:             a.size,
			SrcAllocation:    a,
			SrcBlockMetadata: a.blk.md,
		},
	}
}

func (w *world) CommitDefragAllocationRequest(req metadata.AllocationRequest, blockIndex int, alignment uint, flags uint32, userData any, suballocType uint32, out *alloc) error {
	b := w.blocks[blockIndex]
	k := w.attempt
	w.attempt++
	if w.failSet[k] {
		// the block list refuses this commit: no metadata is touched, no allocation object is filled in
		w.refusals = append(w.refusals, refusal{k: k, src: w.lastSrc, dstBlk: b.id})
		return errors.New("commit refused")
	}
	var ud any = out
	if w.sentinel {
		ud = userData
	}
	if err := b.md.Alloc(req, suballocType, ud); err != nil {
		return err
	}
	*out = alloc{slot: len(w.slots), blk: b, handle: req.BlockAllocationHandle, size: req.Size, align: alignment,
		kind: suballocType, tag: -1, temp: true, live: true, reqKind: req.AllocType, reqFlags: flags, commitKnd: suballocType}
	w.slots = append(w.slots, out)
	return nil
}

func (w *world) SwapBlocks(left, right int) {
	w.swaps = append(w.swaps, [2]int{left, right})
	w.swapIds = append(w.swapIds, w.blocks[left].id)
	w.blocks[left], w.blocks[right] = w.blocks[right], w.blocks[left]
}

// freeAlloc releases an allocation object's range in its block.
func (w *world) freeAlloc(a *alloc) error {
	if a == nil || !a.live {
		return errors.New("allocation is not live")
	}
	if err := a.blk.md.Free(a.handle); err != nil {
		return err
	}
	a.live = false
	return nil
}

// handler is the DefragmentOperationHandler of the reference block list (vam's completePassForMove):
// Copy = swap the block data of source and temporary, then free the temporary (which now holds the
// old place); Ignore = free the temporary; Destroy = free source and temporary.
func (w *world) handler(move defrag.DefragmentationMove[alloc]) error {
	src, tmp := move.SrcAllocation, move.DstTmpAllocation
	if src == nil || tmp == nil || !src.live || !tmp.live {
		return errors.New("move names a dead allocation")
	}
	switch move.MoveOperation {
	case defrag.DefragmentationMoveIgnore:
	case defrag.DefragmentationMoveDestroy:
		if err := w.freeAlloc(src); err != nil {
			return err
		}
	default:
		if err := src.blk.md.SetAllocationUserData(src.handle, tmp); err != nil {
			return err
		}
		src.blk, tmp.blk = tmp.blk, src.blk
		src.handle, tmp.handle = tmp.handle, src.handle
		if err := src.blk.md.SetAllocationUserData(src.handle, src); err != nil {
			return err
		}
	}
	return w.freeAlloc(tmp)
}

// ---------------------------------------------------------------- observation helpers

type region struct {
	off, size int
	free      bool
	ud        any
}

func (b *block) regions() (rs []region) {
	_ = b.md.VisitAllRegions(func(handle metadata.BlockAllocationHandle, offset int, size int, userData any, free bool) error {
		rs = append(rs, region{offset, size, free, userData})
		return nil
	})
	sort.SliceStable(rs, func(i, j int) bool {
		if rs[i].off != rs[j].off {
			return rs[i].off < rs[j].off
		}
		return rs[i].size < rs[j].size
	})
	return rs
}

func (a *alloc) offset() int {
	off, err := a.blk.md.AllocationOffset(a.handle)
	if err != nil {
		return -1
	}
	return off
}

var lastPanic any
var lastStack string

func guard(f func()) (panicked bool) {
	defer func() {
		if r := recover(); r != nil {
			panicked = true
			lastPanic = r
			lastStack = string(debug.Stack())
		}
	}()
	f()
	return false
}

func lim(v int) int {
	if v < 0 {
		return math.MaxInt
	}
	return v
}
