package main

import "fmt"

// ---------------------------------------------------------------- generators

type knobs struct {
	blocksLo, blocksHi int
	sentinelPct        int
	fastPct            int // AlgorithmFast; 10% of the rest leave Algorithm zero (Init defaults to Full)
	limitMode          int // 0 mostly unlimited, 1 mixed, 2 tiny limits
	nonCopyPct         int // per move: Ignore/Destroy instead of Copy
	betweenPct         int // user operations between passes
	inPassPct          int // user operations between PASS and END
	reusePct           int // BEGIN on the same context object
	runs               int
	zeroAllocs         bool // MaxPassAllocations = 0 (outside the documented domain)
	granPct            int  // the block list has vam's granularity handler and a granularity 2..65536
	mixedKindPct       int  // allocation kinds drawn from 1..5 instead of mostly buffers
	failPct            int  // a pass is preceded by CF (some of its commits are refused)
}

func profileKnobs(r *rng, profile string) knobs {
	k := knobs{blocksLo: 2, blocksHi: 5, sentinelPct: 20, fastPct: 40, limitMode: 1, nonCopyPct: 15, betweenPct: 15, inPassPct: 5, reusePct: 30, runs: 2}
	switch profile {
	case "copy": // undisturbed runs that only copy: termination
		k.nonCopyPct, k.betweenPct, k.inPassPct, k.runs, k.limitMode = 0, 0, 0, 1, 1
	case "limits":
		k.limitMode = 2
	case "single":
		k.blocksLo, k.blocksHi, k.fastPct = 1, 1, 15
	case "decide":
		k.nonCopyPct, k.blocksLo, k.blocksHi = 55, 3, 6
	case "reuse":
		k.reusePct, k.runs, k.nonCopyPct = 90, 3, 40
	case "userops":
		k.betweenPct, k.inPassPct = 60, 40
	case "sentinel":
		k.sentinelPct = 100
	case "zero":
		k.zeroAllocs = true
	case "gran": // vam's handler, granularities 2..65536, kinds 1..5 mixed
		k.granPct, k.mixedKindPct = 100, 70
	case "commitfail": // the block list refuses some commits; half of the histories with granularity
		k.failPct, k.granPct, k.mixedKindPct, k.nonCopyPct = 70, 50, 50, 10
	}
	return k
}

func genCfg(r *rng, profile string) cfg {
	k := profileKnobs(r, profile)
	n := r.rangeIncl(k.blocksLo, k.blocksHi)
	sizes := []int{256, 1000, 1024, 4096, 4096, 65536, 1 << 20}
	c := cfg{sentinel: r.chance(k.sentinelPct), gran: 1, handler: "fake"}
	if k.granPct > 0 && r.chance(k.granPct) {
		// (the older profiles have granPct = 0 and draw nothing here: their traces are unchanged)
		c.handler = "vam"
		switch r.intn(4) {
		case 0:
			c.gran = 1 << uint(r.rangeIncl(1, 8)) // 2..256: the handler rounds optimal images too
		case 1:
			c.gran = 1 << uint(r.rangeIncl(9, 12))
		case 2:
			c.gran = 1 << uint(r.rangeIncl(1, 16))
		default:
			c.gran = []int{64, 256, 512, 1024, 4096, 65536}[r.intn(6)]
		}
		if r.chance(8) {
			c.handler = "fake" // a granularity the accept-all handler ignores
		}
		if r.chance(60) {
			// blocks of a few pages
			sizes = []int{c.gran * 2, c.gran * 3, c.gran * 4, c.gran * 8, c.gran*5 + 100, c.gran * 16, 1 << 20}
		}
	}
	base := sizes[r.intn(len(sizes))]
	for i := 0; i < n; i++ {
		s := base
		if r.chance(30) {
			s = sizes[r.intn(len(sizes))]
		}
		if r.chance(10) {
			s = r.rangeIncl(64, 5000)
		}
		c.sizes = append(c.sizes, s)
	}
	return c
}

func (h *hist) op(format string, a ...any) {
	line := fmt.Sprintf(format, a...)
	f := []string{}
	cur := ""
	for _, ch := range line {
		if ch == ' ' {
			if cur != "" {
				f = append(f, cur)
				cur = ""
			}
		} else {
			cur += string(ch)
		}
	}
	if cur != "" {
		f = append(f, cur)
	}
	h.exec(f)
}

func genSize(r *rng, blockSize int) int {
	switch r.intn(10) {
	case 0:
		return r.rangeIncl(1, 8)
	case 1:
		return 1 << uint(r.rangeIncl(0, 10))
	case 2:
		m := blockSize / 2
		if m < 1 {
			m = 1
		}
		return r.rangeIncl(1, m)
	default:
		m := blockSize / 8
		if m < 1 {
			m = 1
		}
		return r.rangeIncl(1, m)
	}
}

func genAlign(r *rng) int {
	if r.chance(50) {
		return 1
	}
	return 1 << uint(r.rangeIncl(0, 8))
}

func (h *hist) genUserAlloc(r *rng) {
	w := h.w
	b := w.blocks[r.intn(len(w.blocks))]
	kind := 2
	if r.chance(20) {
		kind = r.rangeIncl(1, 5)
	}
	if h.mixedKindPct > 0 && r.chance(h.mixedKindPct) {
		kind = r.rangeIncl(1, 5)
	}
	h.op("A %d %d %d %d %d", b.id, genSize(r, b.size), genAlign(r), kind, r.rangeIncl(0, 999))
}

func (h *hist) genUserFree(r *rng) {
	var cand []int
	for _, a := range h.w.slots {
		if a.live && !a.temp {
			cand = append(cand, a.slot)
		}
	}
	if len(cand) == 0 {
		return
	}
	h.op("F %d", cand[r.intn(len(cand))])
}

func (h *hist) minUserSize() int {
	m := -1
	for _, a := range h.w.slots {
		if a.live && !a.temp && (m < 0 || a.size < m) {
			m = a.size
		}
	}
	return m
}

func (h *hist) genLimits(r *rng, k knobs) (int, int) {
	mb, ma := -1, -1
	tiny := func() {
		switch r.intn(5) {
		case 0:
			mb = 1
		case 1:
			mb = 0
		case 2:
			if m := h.minUserSize(); m > 0 {
				mb = m - 1
			}
		case 3:
			ma = 1
		case 4:
			if m := h.minUserSize(); m > 0 {
				mb = m
			}
		}
	}
	switch k.limitMode {
	case 0:
		if r.chance(15) {
			ma = r.rangeIncl(1, 6)
		}
	case 1:
		switch r.intn(6) {
		case 0:
			tiny()
		case 1, 2:
			ma = r.rangeIncl(1, 6)
		case 3:
			mb = r.rangeIncl(1, 1+h.w.blocks[0].size/2)
		case 4:
			mb, ma = r.rangeIncl(1, 1+h.w.blocks[0].size), r.rangeIncl(1, 4)
		}
	case 2:
		tiny()
		if r.chance(30) {
			ma = r.rangeIncl(1, 2)
		}
	}
	if k.zeroAllocs {
		ma = 0
		if mb == 0 {
			mb = -1
		}
	}
	return mb, ma
}

func genHistory(h *hist, r *rng, profile string, ops int) {
	k := profileKnobs(r, profile)
	w := h.w
	h.mixedKindPct = k.mixedKindPct
	budget := r.rangeIncl(ops/2, ops)
	used := func() int { return h.step }
	// phase 1: fill the blocks
	fill := budget * 45 / 100
	mode := r.intn(3) // 0 block after block, 1 round robin, 2 random
	for i := 0; used() < fill; i++ {
		var b *block
		switch mode {
		case 0:
			b = w.blocks[(i*len(w.blocks)/max(1, fill))%len(w.blocks)]
		case 1:
			b = w.blocks[i%len(w.blocks)]
		default:
			b = w.blocks[r.intn(len(w.blocks))]
		}
		kind := 2
		if r.chance(15) {
			kind = r.rangeIncl(1, 5)
		}
		if k.mixedKindPct > 0 && r.chance(k.mixedKindPct) {
			kind = r.rangeIncl(1, 5)
		}
		h.op("A %d %d %d %d %d", b.id, genSize(r, b.size), genAlign(r), kind, r.rangeIncl(0, 999))
	}
	// phase 2: free a random subset
	pct := r.rangeIncl(25, 75)
	for _, a := range append([]*alloc(nil), w.slots...) {
		if used() >= budget*70/100 {
			break
		}
		if a.live && r.chance(pct) {
			h.op("F %d", a.slot)
		}
	}
	// phase 3: defragmentation runs
	for run := 0; run < k.runs && used() < budget+10; run++ {
		algo := 2
		if r.chance(k.fastPct) {
			algo = 1
		} else if r.chance(10) {
			algo = 0
		}
		mb, ma := h.genLimits(r, k)
		reuse := 0
		if run > 0 && r.chance(k.reusePct) {
			reuse = 1
		}
		h.op("BEGIN %d %d %d %d", algo, mb, ma, reuse)
		maxPasses := 60
		if profile == "copy" {
			maxPasses = 100000
		}
		for p := 0; p < maxPasses && (used() < budget+10 || profile == "copy"); p++ {
			if k.failPct > 0 && r.chance(k.failPct) {
				line := "CF"
				switch r.intn(4) {
				case 0: // the first attempts
					for i, n := 0, r.rangeIncl(1, 3); i < n; i++ {
						line += fmt.Sprintf(" %d", i)
					}
				case 1: // every attempt
					for i := 0; i < 40; i++ {
						line += fmt.Sprintf(" %d", i)
					}
				default:
					for i := 0; i < 12; i++ {
						if r.chance(35) {
							line += fmt.Sprintf(" %d", i)
						}
					}
				}
				h.op("%s", line)
			}
			h.op("PASS")
			if w.dead {
				return
			}
			n := len(h.pending)
			for r.chance(k.inPassPct) {
				if r.chance(50) {
					h.genUserAlloc(r)
				} else {
					h.genUserFree(r)
				}
			}
			line := "END"
			for i := 0; i < n; i++ {
				d := 0
				if r.chance(k.nonCopyPct) {
					d = r.rangeIncl(1, 2)
				}
				line += fmt.Sprintf(" %d", d)
			}
			h.op("%s", line)
			if w.dead {
				return
			}
			if n == 0 {
				break
			}
			for r.chance(k.betweenPct) {
				if r.chance(50) {
					h.genUserAlloc(r)
				} else {
					h.genUserFree(r)
				}
			}
		}
		h.op("STATS")
		// disturb the state between runs
		for j := r.intn(6); j > 0; j-- {
			if r.chance(40) {
				h.genUserAlloc(r)
			} else {
				h.genUserFree(r)
			}
		}
	}
}
