// dfh: defragmentation-planner harness. Drives the real memutils/defrag code
// (MetadataDefragContext + PassContext) over a BlockList made of REAL TLSF block metadata,
// prints projected observables after every step and evaluates the C15/C07/C13 oracles on the
// real code's observables.
//
//	dfh gen -seed S -n N -ops K -profile P     (trace on stdout, SUMMARY/OPS/RES on stderr)
//	dfh run <file>                             (re-executes H/CFG/op/END lines, prints the full trace)
//
// Trace format: /verif/harness/DFH_FORMAT.md
package main

import (
	"bufio"
	"bytes"
	"flag"
	"fmt"
	"os"
	"reflect"
	"sort"
	"strconv"
	"strings"

	"github.com/vkngwrapper/arsenal/memutils/defrag"
	"github.com/vkngwrapper/arsenal/memutils/metadata"
)

// ---------------------------------------------------------------- PRNG (splitmix64)

type rng struct{ s uint64 }

func (r *rng) next() uint64 {
	r.s += 0x9e3779b97f4a7c15
	z := r.s
	z = (z ^ (z >> 30)) * 0xbf58476d1ce4e5b9
	z = (z ^ (z >> 27)) * 0x94d049bb133111eb
	return z ^ (z >> 31)
}
func (r *rng) intn(n int) int {
	if n <= 0 {
		return 0
	}
	return int(r.next() % uint64(n))
}
func (r *rng) rangeIncl(lo, hi int) int { return lo + r.intn(hi-lo+1) }
func (r *rng) chance(pct int) bool      { return r.intn(100) < pct }

// ---------------------------------------------------------------- history

type cfg struct {
	sizes    []int
	sentinel bool
	gran     int    // bufferImageGranularity (a power of two 1..65536; anything else reads as 1)
	handler  string // "fake" (accept-all granularity handler) or "vam" (vam's blockBufferImageGranularity)
}

func validGran(g int) bool { return g >= 1 && g <= 65536 && g&(g-1) == 0 }

func cfgLine(c cfg) string {
	ss := make([]string, len(c.sizes))
	for i, s := range c.sizes {
		ss[i] = strconv.Itoa(s)
	}
	sn := 0
	if c.sentinel {
		sn = 1
	}
	line := fmt.Sprintf("CFG blocks=%s sentinel=%d", strings.Join(ss, ","), sn)
	if c.gran != 1 || c.handler != "fake" {
		// the default (granularity 1, accept-all handler) is not printed: older traces stay as they are
		line += fmt.Sprintf(" gran=%d handler=%s", c.gran, c.handler)
	}
	return line
}

func parseCfg(line string) cfg {
	c := cfg{gran: 1, handler: "fake"}
	for _, f := range strings.Fields(line)[1:] {
		kv := strings.SplitN(f, "=", 2)
		if len(kv) != 2 {
			continue
		}
		switch kv[0] {
		case "blocks":
			for _, s := range strings.Split(kv[1], ",") {
				if v, err := strconv.Atoi(s); err == nil && v >= 0 {
					c.sizes = append(c.sizes, v)
				}
			}
		case "sentinel":
			c.sentinel = kv[1] == "1"
		case "gran":
			if v, err := strconv.Atoi(kv[1]); err == nil && validGran(v) {
				c.gran = v
			}
		case "handler":
			if kv[1] == "vam" {
				c.handler = "vam"
			}
		}
	}
	return c
}

type moveRec struct {
	src, tmp       int
	srcBlk, srcIdx int
	srcOff         int
	dstBlk, dstIdx int
	dstOff         int
	size           int
}

type slotSnap struct {
	blk, off, size, align, kind, tag int
	temp                             bool
}

type stats struct {
	ops        map[string]int
	results    map[string]int
	maxLive    int
	oracleFail int
	moves      int
	refused    int
}

func (s *stats) merge(o *stats) {
	for k, v := range o.ops {
		s.ops[k] += v
	}
	for k, v := range o.results {
		s.results[k] += v
	}
	if o.maxLive > s.maxLive {
		s.maxLive = o.maxLive
	}
	s.oracleFail += o.oracleFail
	s.moves += o.moves
	s.refused += o.refused
}

func newStats() *stats { return &stats{ops: map[string]int{}, results: map[string]int{}} }

type hist struct {
	c    cfg
	w    *world
	out  *bufio.Writer
	step int
	st   *stats

	pending []moveRec // moves of the open pass
	// oracle bookkeeping of the current run (since BEGIN)
	copyOnly       bool         // no user operation since BEGIN (the run is undisturbed)
	ignoredBlocks  map[int]bool // ids of the blocks with an ignored move in the current run
	passesWithMove int
	expect         defrag.DefragmentationStats // moved counters the run statistics must show
	expectValid    bool

	// replay: the ORD line recorded after the END being executed (nil = none) and whether the real
	// code took another order this time
	wantOrd     []string
	ordMismatch bool

	mixedKindPct int // generator only
}

func newHist(c cfg, out *bufio.Writer, st *stats) *hist {
	if !validGran(c.gran) {
		c.gran = 1
	}
	if c.handler != "vam" {
		c.handler = "fake"
	}
	return &hist{c: c, w: newWorld(c.sizes, c.sentinel, c.gran, c.handler), out: out, st: st, ignoredBlocks: map[int]bool{}}
}

func (h *hist) fail(prop, sig, detail string) {
	fmt.Fprintf(h.out, "ORACLE-FAIL property=%s sig=%s step=%d %s\n", prop, sig, h.step, detail)
	h.st.oracleFail++
}

func (h *hist) result(r string) {
	if r == "R panic" {
		h.w.dead = true
	}
	fmt.Fprintln(h.out, r)
	f := strings.Fields(r)
	if len(f) >= 2 {
		h.st.results[f[1]]++
	}
}

// ---------------------------------------------------------------- observables

func b2i(b bool) int {
	if b {
		return 1
	}
	return 0
}

func (h *hist) liveSlots() []*alloc {
	var ls []*alloc
	for _, a := range h.w.slots {
		if a.live {
			ls = append(ls, a)
		}
	}
	return ls
}

func (h *hist) snapshot() map[int]slotSnap {
	m := map[int]slotSnap{}
	for _, a := range h.liveSlots() {
		m[a.slot] = slotSnap{a.blk.id, a.offset(), a.size, int(a.align), int(a.kind), a.tag, a.temp}
	}
	return m
}

// emitObs prints the state lines and evaluates the state oracles.
func (h *hist) emitObs() {
	w := h.w
	var sb strings.Builder
	for idx, b := range w.blocks {
		val := 0
		if guard(func() {
			if b.md.Validate() == nil {
				val = 1
			}
		}) {
			val = 2
		}
		sb.Reset()
		fmt.Fprintf(&sb, "B %d %d %d cnt=%d free=%d val=%d :", idx, b.id, b.size, b.md.AllocationCount(), b.md.SumFreeSize(), val)
		regs := b.regions()
		for _, r := range regs {
			if r.size == 0 {
				continue
			}
			fmt.Fprintf(&sb, " %d:%d:%d", r.off, r.size, b2i(r.free))
		}
		fmt.Fprintln(h.out, sb.String())
		if val != 1 {
			h.fail("C07", "block-validate", fmt.Sprintf("block id=%d Validate failed (%d)", b.id, val))
		}
		// tiling + ownership: every taken region belongs to exactly one live allocation object
		pos := 0
		for _, r := range regs {
			if r.size == 0 {
				continue
			}
			if r.off != pos {
				h.fail("C07", "block-tiling", fmt.Sprintf("block id=%d region at %d expected %d", b.id, r.off, pos))
			}
			pos = r.off + r.size
			if !r.free {
				owners := 0
				for _, a := range w.slots {
					if a.live && a.blk == b && a.offset() == r.off && a.size == r.size {
						owners++
					}
				}
				if owners != 1 {
					h.fail("C07", "region-owner", fmt.Sprintf("block id=%d region %d:%d has %d owners", b.id, r.off, r.size, owners))
				}
			}
		}
		if pos != b.size {
			h.fail("C07", "block-tiling", fmt.Sprintf("block id=%d regions end at %d size %d", b.id, pos, b.size))
		}
	}
	h.checkPages()
	live := h.liveSlots()
	if len(live) > h.st.maxLive {
		h.st.maxLive = len(live)
	}
	for _, a := range live {
		fmt.Fprintf(h.out, "SL %d %d %d %d %d %d %d %d\n", a.slot, a.blk.id, a.offset(), a.size, a.align, a.kind, a.tag, b2i(a.temp))
	}
	var ps defrag.DefragmentationStats
	if w.pass != nil {
		ps = w.pass.Stats
	}
	fmt.Fprintf(h.out, "PS %d %d %d %d\n", ps.BytesMoved, ps.BytesFreed, ps.AllocationsMoved, ps.AllocationsFreed)
	if w.lockBad || w.lockDepth != 0 {
		h.fail("C07", "lock-unbalanced", fmt.Sprintf("depth=%d", w.lockDepth))
		w.lockBad, w.lockDepth = false, 0
	}
	if w.passOpen {
		h.checkReserved()
	}
}

// reservedRegion: the range [off,off+size) of block b is one taken region whose user data is ud
func reservedRegion(b *block, off, size int) (found bool, ud any) {
	for _, r := range b.regions() {
		if r.size != 0 && !r.free && r.off == off && r.size == size {
			return true, r.ud
		}
	}
	return false, nil
}

// C07: between collect and complete both ends of every move are reserved, by distinct allocations
func (h *hist) checkReserved() {
	w := h.w
	for i, m := range h.pending {
		src, tmp := w.slots[m.src], w.slots[m.tmp]
		if !src.live || !tmp.live {
			h.fail("C07", "end-not-reserved", fmt.Sprintf("move %d: source or destination allocation no longer live", i))
			continue
		}
		ok1, ud1 := reservedRegion(src.blk, m.srcOff, m.size)
		ok2, ud2 := reservedRegion(tmp.blk, m.dstOff, m.size)
		if !ok1 || src.blk.id != m.srcBlk || ud1 != any(src) {
			h.fail("C07", "end-not-reserved", fmt.Sprintf("move %d: source range %d:%d of block %d not held by slot %d", i, m.srcOff, m.size, m.srcBlk, m.src))
		}
		okUd := ud2 == any(tmp)
		if w.sentinel {
			okUd = ud2 == any(w.ctx)
		}
		if !ok2 || tmp.blk.id != m.dstBlk || !okUd {
			h.fail("C07", "end-not-reserved", fmt.Sprintf("move %d: destination range %d:%d of block %d not held by its temporary", i, m.dstOff, m.size, m.dstBlk))
		}
		if m.srcBlk == m.dstBlk && m.srcOff < m.dstOff+m.size && m.dstOff < m.srcOff+m.size {
			h.fail("C07", "ends-overlap", fmt.Sprintf("move %d: source and destination ranges overlap", i))
		}
	}
}

// ---------------------------------------------------------------- ops

func isPow2(a int) bool { return a >= 1 && a&(a-1) == 0 }

func atoi(f []string, i int) int {
	if i >= len(f) {
		return 0
	}
	v, _ := strconv.Atoi(f[i])
	return v
}

func (h *hist) userOp() { h.copyOnly = false }

// exec runs one op line. It returns false when the line is the history terminator.
func (h *hist) exec(f []string) bool {
	w := h.w
	if f[0] == "END" && !w.passOpen {
		fmt.Fprintln(h.out, "END")
		return false
	}
	if f[0] == "ORD" {
		return true // regenerated by END
	}
	h.step++
	h.st.ops[f[0]]++
	fmt.Fprintln(h.out, strings.Join(f, " "))
	if w.dead {
		// a panic left the real objects in an unknown state: nothing more is executed
		h.result("R dead")
		return true
	}
	defer func() {
		if w.dead {
			return
		}
		h.emitObs()
	}()
	switch f[0] {
	case "A":
		h.userOp()
		id, size, align, kind, tag := atoi(f, 1), atoi(f, 2), atoi(f, 3), atoi(f, 4), atoi(f, 5)
		_, b := w.blockByID(id)
		if b == nil {
			h.result("R noblock")
			break
		}
		if !isPow2(align) || kind < 0 || tag < 0 {
			h.result("R error")
			break
		}
		res := ""
		if guard(func() {
			ok, req, err := b.md.CreateAllocationRequest(size, uint(align), false, uint32(kind), 0, lim(-1))
			if err != nil {
				res = "R error"
				return
			}
			if !ok {
				res = "R refused"
				return
			}
			a := &alloc{slot: len(w.slots), blk: b, handle: req.BlockAllocationHandle, size: req.Size, align: uint(align), kind: uint32(kind), tag: tag, live: true}
			if err := b.md.Alloc(req, uint32(kind), a); err != nil {
				res = "R error"
				return
			}
			w.slots = append(w.slots, a)
			res = fmt.Sprintf("R ok %d %d", a.slot, a.offset())
		}) {
			res = "R panic"
			h.fail("C13", "panic:A", fmt.Sprint(lastPanic))
		}
		h.result(res)
	case "F":
		h.userOp()
		s := atoi(f, 1)
		if len(f) < 2 || s < 0 || s >= len(w.slots) || !w.slots[s].live || w.slots[s].temp {
			h.result("R nolive")
			break
		}
		busy := false
		if w.passOpen {
			for _, m := range h.pending {
				if m.src == s {
					busy = true
				}
			}
		}
		if busy {
			h.result("R busy")
			break
		}
		res := "R ok"
		if guard(func() {
			if err := w.freeAlloc(w.slots[s]); err != nil {
				res = "R error"
			}
		}) {
			res = "R panic"
			h.fail("C13", "panic:F", fmt.Sprint(lastPanic))
		}
		h.result(res)
	case "BEGIN":
		if w.passOpen {
			h.result("R busy")
			break
		}
		algo, mb, ma, reuse := atoi(f, 1), atoi(f, 2), atoi(f, 3), atoi(f, 4)
		if algo < 0 || algo > 2 {
			h.result("R error")
			break
		}
		fresh := w.ctx == nil || reuse != 1
		if fresh {
			w.ctx = &defrag.MetadataDefragContext[alloc]{BlockList: w}
		}
		w.ctx.Algorithm = defrag.Algorithm(algo)
		w.ctx.Handler = w.handler
		res := "R ok"
		if guard(func() {
			if err := w.ctx.Init(); err != nil {
				res = "R error"
			}
		}) {
			res = "R panic"
			h.fail("C13", "panic:BEGIN", fmt.Sprint(lastPanic))
		}
		w.begun = res == "R ok"
		w.maxBytes, w.maxAlloc = mb, ma
		w.pass = nil
		w.run = defrag.DefragmentationStats{}
		h.copyOnly, h.passesWithMove = true, 0
		h.ignoredBlocks = map[int]bool{}
		h.expect, h.expectValid = defrag.DefragmentationStats{}, true
		h.result(res)
		if w.begun && !fresh {
			// C15: an initialised context that was used before is indistinguishable from a fresh one
			cv := reflect.ValueOf(w.ctx).Elem()
			imm := cv.FieldByName("immovableBlockCount")
			mv := cv.FieldByName("moves")
			if imm.IsValid() && mv.IsValid() && (imm.Int() != 0 || mv.Len() != 0) {
				h.fail("C15", "reused-context-not-fresh", fmt.Sprintf("after Init: immovableBlockCount=%d len(moves)=%d", imm.Int(), mv.Len()))
			}
		}
	case "PASS":
		if !w.begun {
			h.result("R nobegin")
			break
		}
		if w.passOpen {
			h.result("R busy")
			break
		}
		w.pass = &defrag.PassContext{MaxPassBytes: lim(w.maxBytes), MaxPassAllocations: lim(w.maxAlloc)}
		h.pending = nil
		w.attempt, w.refusals, w.lastSrc = 0, nil, -1
		tempsBefore := h.liveTemps()
		idxOf := map[*block]int{}
		for i, b := range w.blocks {
			idxOf[b] = i
		}
		if guard(func() { w.ctx.BlockListCollectMoves(w.pass) }) {
			h.result("R panic")
			h.fail("C13", "panic:PASS", fmt.Sprint(lastPanic))
			w.lockDepth, w.lockBad = 0, false
			w.failSet = nil
		} else {
			moves := w.ctx.Moves()
			h.result(fmt.Sprintf("R ok %d", len(moves)))
			for i, m := range moves {
				src, tmp := m.SrcAllocation, m.DstTmpAllocation
				r := moveRec{src: src.slot, tmp: tmp.slot, srcBlk: src.blk.id, srcIdx: idxOf[src.blk], srcOff: src.offset(),
					dstBlk: tmp.blk.id, dstIdx: idxOf[tmp.blk], dstOff: tmp.offset(), size: m.Size}
				h.pending = append(h.pending, r)
				fmt.Fprintf(h.out, "MV %d %d %d %d %d %d %d\n", i, r.src, r.srcBlk, r.srcOff, r.dstBlk, r.dstOff, r.size)
				if m.SrcBlockMetadata != metadata.BlockMetadata(src.blk.md) || m.DstBlockMetadata != metadata.BlockMetadata(tmp.blk.md) {
					h.fail("C07", "move-metadata-mismatch", fmt.Sprintf("move %d: Src/DstBlockMetadata are not the blocks of the allocations", i))
				}
			}
			for _, rf := range w.refusals {
				fmt.Fprintf(h.out, "RF %d %d %d\n", rf.k, rf.src, rf.dstBlk)
			}
			h.st.moves += len(moves)
			h.st.refused += len(w.refusals)
			w.passOpen = true
			w.failSet = nil
			h.checkPass()
			h.checkRefusals(tempsBefore)
		}
	case "END":
		// complete the open pass
		moves := w.ctx.Moves()
		ds := make([]int, len(moves))
		for i := range moves {
			d := 0
			if i+1 < len(f) {
				d = atoi(f, i+1)
			}
			if d < 0 || d > 2 {
				d = 0
			}
			ds[i] = d
			moves[i].MoveOperation = defrag.DefragmentationMoveOperation(d)
		}
		before := h.snapshot()
		w.swaps, w.swapIds = nil, nil
		var err error
		panicked := guard(func() { err = w.ctx.BlockListCompletePass(w.pass) })
		ord := make([]string, len(w.swapIds))
		for i, id := range w.swapIds {
			ord[i] = strconv.Itoa(id)
		}
		fmt.Fprintln(h.out, strings.TrimSpace("ORD "+strings.Join(ord, " ")))
		if h.wantOrd != nil && len(h.wantOrd) == len(ord) && strings.Join(h.wantOrd, " ") != strings.Join(ord, " ") {
			h.ordMismatch = true
		}
		h.wantOrd = nil
		w.passOpen = false
		switch {
		case panicked:
			h.result("R panic")
			h.fail("C13", "panic:END", fmt.Sprint(lastPanic))
			w.lockDepth, w.lockBad = 0, false
		case err != nil:
			h.result("R error")
		default:
			h.result("R ok")
		}
		for _, s := range w.swaps {
			fmt.Fprintf(h.out, "SW %d %d\n", s[0], s[1])
		}
		w.run.Add(w.pass.Stats)
		if !panicked {
			h.checkOutcome(before, ds)
		}
		h.pending = nil
	case "CF":
		// the listed commit attempts (counted from 0) of the next pass are refused by the block list
		w.failSet = map[int]bool{}
		for i := 1; i < len(f); i++ {
			if k := atoi(f, i); k >= 0 {
				w.failSet[k] = true
			}
		}
		h.result("R ok")
	case "STATS":
		h.result("R ok")
		fmt.Fprintf(h.out, "RS %d %d %d %d\n", w.run.BytesMoved, w.run.BytesFreed, w.run.AllocationsMoved, w.run.AllocationsFreed)
		if h.expectValid && (w.run.BytesMoved != h.expect.BytesMoved || w.run.AllocationsMoved != h.expect.AllocationsMoved) {
			h.fail("C15", "run-stats-moved", fmt.Sprintf("run statistics moved=%d/%dB, carried out %d/%dB", w.run.AllocationsMoved, w.run.BytesMoved, h.expect.AllocationsMoved, h.expect.BytesMoved))
		}
	default:
		h.result("R badop")
	}
	return true
}

// ---------------------------------------------------------------- CLI

func printSummary(st *stats, nh int) {
	w := os.Stderr
	fmt.Fprintf(w, "SUMMARY histories=%d maxLive=%d moves=%d refused=%d oracleFails=%d\n", nh, st.maxLive, st.moves, st.refused, st.oracleFail)
	keys := []string{}
	for k := range st.ops {
		keys = append(keys, k)
	}
	sort.Strings(keys)
	for _, k := range keys {
		fmt.Fprintf(w, "OPS %s %d\n", k, st.ops[k])
	}
	keys = keys[:0]
	for k := range st.results {
		keys = append(keys, k)
	}
	sort.Strings(keys)
	for _, k := range keys {
		fmt.Fprintf(w, "RES %s %d\n", k, st.results[k])
	}
}

var opKinds = map[string]bool{"A": true, "F": true, "BEGIN": true, "PASS": true, "END": true, "ORD": true, "STATS": true, "CF": true}

func main() {
	if len(os.Args) < 2 {
		fmt.Fprintln(os.Stderr, "usage: dfh gen|run ...")
		os.Exit(2)
	}
	out := bufio.NewWriterSize(os.Stdout, 1<<20)
	defer out.Flush()
	st := newStats()
	switch os.Args[1] {
	case "gen":
		fs := flag.NewFlagSet("gen", flag.ExitOnError)
		seed := fs.Uint64("seed", 1, "")
		n := fs.Int("n", 10, "")
		ops := fs.Int("ops", 60, "")
		profile := fs.String("profile", "basic", "")
		fs.Parse(os.Args[2:])
		r := &rng{s: *seed*0x9e3779b97f4a7c15 + 777}
		for i := 0; i < *n; i++ {
			c := genCfg(r, *profile)
			fmt.Fprintf(out, "H %d seed=%d profile=%s\n", i, *seed, *profile)
			fmt.Fprintln(out, cfgLine(c))
			h := newHist(c, out, st)
			genHistory(h, r, *profile, *ops)
			if h.w.passOpen {
				h.exec([]string{"END"})
			}
			fmt.Fprintln(out, "END")
		}
		printSummary(st, *n)
	case "run":
		if len(os.Args) < 3 {
			fmt.Fprintln(os.Stderr, "usage: dfh run <file>")
			os.Exit(2)
		}
		fl, err := os.Open(os.Args[2])
		if err != nil {
			fmt.Fprintln(os.Stderr, err)
			os.Exit(2)
		}
		sc := bufio.NewScanner(fl)
		sc.Buffer(make([]byte, 1<<20), 1<<26)
		// group the input by history
		var hists [][][]string
		for sc.Scan() {
			f := strings.Fields(sc.Text())
			if len(f) == 0 {
				continue
			}
			if f[0] == "H" {
				hists = append(hists, nil)
			}
			if len(hists) > 0 && (f[0] == "H" || f[0] == "CFG" || opKinds[f[0]]) {
				hists[len(hists)-1] = append(hists[len(hists)-1], f)
			}
		}
		nh := len(hists)
		// The order in which BlockListCompletePass swaps several immovable blocks is not determined
		// by the program (Go map iteration).  To replay a recorded trace exactly, a history whose
		// observed ORD differs from the recorded ORD line is executed again from its start (the
		// real code is run every time; only an attempt that took the recorded order is printed).
		const maxAttempts = 20000
		for _, lines := range hists {
			var buf bytes.Buffer
			var hst *stats
			for attempt := 0; ; attempt++ {
				buf.Reset()
				w := bufio.NewWriter(&buf)
				hst = newStats()
				var h *hist
				mismatch := false
				for i, f := range lines {
					switch {
					case f[0] == "H":
						fmt.Fprintln(w, strings.Join(f, " "))
					case f[0] == "CFG":
						c := parseCfg(strings.Join(f, " "))
						fmt.Fprintln(w, cfgLine(c))
						h = newHist(c, w, hst)
					case h != nil:
						if f[0] == "END" && i+1 < len(lines) && lines[i+1][0] == "ORD" {
							h.wantOrd = append([]string{}, lines[i+1][1:]...)
						}
						h.exec(f)
						if h.ordMismatch {
							mismatch = true
						}
					case f[0] == "END":
						fmt.Fprintln(w, "END")
					}
					if mismatch {
						break
					}
				}
				w.Flush()
				if !mismatch || attempt >= maxAttempts {
					if mismatch {
						// give up: print one complete execution with the order it took
						buf.Reset()
						w = bufio.NewWriter(&buf)
						hst = newStats()
						h = nil
						for _, f := range lines {
							switch {
							case f[0] == "H":
								fmt.Fprintln(w, strings.Join(f, " "))
							case f[0] == "CFG":
								c := parseCfg(strings.Join(f, " "))
								fmt.Fprintln(w, cfgLine(c))
								h = newHist(c, w, hst)
							case h != nil:
								h.exec(f)
							case f[0] == "END":
								fmt.Fprintln(w, "END")
							}
						}
						w.Flush()
					}
					break
				}
			}
			out.Write(buf.Bytes())
			st.merge(hst)
		}
		printSummary(st, nh)
	default:
		fmt.Fprintln(os.Stderr, "usage: dfh gen|run ...")
		os.Exit(2)
	}
}
