package main

import (
	"fmt"
	"sort"
)

func (h *hist) userAllocCount() int {
	n := 0
	for _, a := range h.w.slots {
		if a.live && !a.temp {
			n++
		}
	}
	return n
}

// checkPass evaluates the oracles on the moves a pass proposed (right after BlockListCollectMoves).
func (h *hist) checkPass() {
	w := h.w
	bytes := 0
	seen := map[int]bool{}
	for i, m := range h.pending {
		// C15: moves go forward
		if !(m.dstIdx < m.srcIdx || (m.dstBlk == m.srcBlk && m.dstOff < m.srcOff)) {
			h.fail("C15", "backward-move", fmt.Sprintf("move %d: block index %d off %d -> block index %d off %d", i, m.srcIdx, m.srcOff, m.dstIdx, m.dstOff))
		}
		bytes += m.size
		// C07: the source is a live allocation of the caller, at most once per pass
		if m.src < 0 || m.src >= len(w.slots) || !w.slots[m.src].live || w.slots[m.src].temp {
			h.fail("C07", "source-not-user", fmt.Sprintf("move %d: source slot %d is not a live user allocation", i, m.src))
		}
		if seen[m.src] {
			h.fail("C07", "source-twice", fmt.Sprintf("move %d: slot %d is the source of two moves of one pass", i, m.src))
		}
		seen[m.src] = true
		if m.tmp < 0 || m.tmp >= len(w.slots) || !w.slots[m.tmp].live || !w.slots[m.tmp].temp {
			h.fail("C07", "destination-not-temporary", fmt.Sprintf("move %d", i))
		}
		if m.size != w.slots[m.src].size {
			h.fail("C07", "move-size", fmt.Sprintf("move %d: size %d, allocation size %d", i, m.size, w.slots[m.src].size))
		}
		// C07: the destination is requested, reserved and committed under the source's own kind, alignment and flags
		if m.src >= 0 && m.src < len(w.slots) && m.tmp >= 0 && m.tmp < len(w.slots) {
			sa, ta := w.slots[m.src], w.slots[m.tmp]
			if ta.reqKind != sa.kind || ta.commitKnd != sa.kind || ta.reqFlags != moveFlags(sa.kind) || ta.align != sa.align {
				h.fail("C07", "destination-kind", fmt.Sprintf("move %d: source kind %d align %d flags %d; destination requested as kind %d, committed as kind %d align %d flags %d",
					i, sa.kind, sa.align, moveFlags(sa.kind), ta.reqKind, ta.commitKnd, ta.align, ta.reqFlags))
			}
		}
	}
	// C15: per-pass limits
	if bytes > lim(w.maxBytes) {
		h.fail("C15", "pass-limit-bytes", fmt.Sprintf("%d bytes proposed, limit %d", bytes, lim(w.maxBytes)))
	}
	if len(h.pending) > lim(w.maxAlloc) {
		h.fail("C15", "pass-limit-allocs", fmt.Sprintf("%d moves proposed, limit %d", len(h.pending), lim(w.maxAlloc)))
	}
	if w.pass.Stats.BytesMoved != bytes || w.pass.Stats.AllocationsMoved != len(h.pending) {
		h.fail("C15", "pass-stats-collect", fmt.Sprintf("pass counters %d/%dB, moves %d/%dB", w.pass.Stats.AllocationsMoved, w.pass.Stats.BytesMoved, len(h.pending), bytes))
	}
	// C15: a block with an ignored move is immovable for the rest of the run: never a source again
	for i, m := range h.pending {
		if h.ignoredBlocks[m.srcBlk] {
			h.fail("C15", "ignored-block-source-again", fmt.Sprintf("move %d: source block %d had an ignored move earlier in this run", i, m.srcBlk))
		}
	}
	// C15: an undisturbed run (any decisions) finishes after finitely many passes
	if h.copyOnly && len(h.pending) > 0 {
		h.passesWithMove++
		if bound := 10*(h.userAllocCount()+len(w.blocks)) + 10; h.passesWithMove > bound {
			h.fail("C15", "no-termination", fmt.Sprintf("%d passes with moves, bound %d", h.passesWithMove, bound))
			h.passesWithMove = 0
		}
	}
}

// checkOutcome evaluates the per-decision outcome and the statistics after BlockListCompletePass.
func (h *hist) checkOutcome(before map[int]slotSnap, ds []int) {
	w := h.w
	after := h.snapshot()
	named := map[int]bool{}
	copies, copyBytes := 0, 0
	for i, m := range h.pending {
		named[m.src], named[m.tmp] = true, true
		d := 0
		if i < len(ds) {
			d = ds[i]
		}
		b, hadB := before[m.src]
		a, hasA := after[m.src]
		switch d {
		case 0:
			copies++
			copyBytes += m.size
			want := b
			want.blk, want.off = m.dstBlk, m.dstOff
			if !hadB || !hasA || a != want {
				h.fail("C07", "outcome-copy", fmt.Sprintf("move %d slot %d: after %+v, want %+v", i, m.src, a, want))
			}
		case 1:
			h.ignoredBlocks[m.srcBlk] = true
			if !hadB || !hasA || a != b {
				h.fail("C07", "outcome-ignore", fmt.Sprintf("move %d slot %d: after %+v, before %+v", i, m.src, a, b))
			}
		case 2:
			if hasA {
				h.fail("C07", "outcome-destroy", fmt.Sprintf("move %d slot %d still live", i, m.src))
			}
		}
		if _, ok := after[m.tmp]; ok {
			h.fail("C07", "temporary-leaked", fmt.Sprintf("move %d temporary slot %d still live", i, m.tmp))
		}
	}
	for s, b := range before {
		if named[s] {
			continue
		}
		if a, ok := after[s]; !ok || a != b {
			h.fail("C07", "bystander-changed", fmt.Sprintf("slot %d: before %+v after %+v", s, b, a))
		}
	}
	for s := range after {
		if _, ok := before[s]; !ok {
			h.fail("C07", "bystander-changed", fmt.Sprintf("slot %d appeared", s))
		}
	}
	// C15: statistics equal the moves actually carried out
	if w.pass.Stats.AllocationsMoved != copies || w.pass.Stats.BytesMoved != copyBytes {
		h.fail("C15", "pass-stats-moved", fmt.Sprintf("pass statistics %d/%dB, copies %d/%dB", w.pass.Stats.AllocationsMoved, w.pass.Stats.BytesMoved, copies, copyBytes))
	}
	h.expect.AllocationsMoved += copies
	h.expect.BytesMoved += copyBytes
}

func (h *hist) liveTemps() int {
	n := 0
	for _, a := range h.w.slots {
		if a.live && a.temp {
			n++
		}
	}
	return n
}

// checkRefusals: a commit the block list refused leaves nothing behind - the pass created exactly one
// temporary per proposed move, the blocks hold exactly one taken region per live allocation object
// (no reserved range without an owner), and every refused attempt named a block of the list.
func (h *hist) checkRefusals(tempsBefore int) {
	w := h.w
	if got := h.liveTemps() - tempsBefore; got != len(h.pending) {
		h.fail("C07", "refused-commit-left-temporary", fmt.Sprintf("%d new temporaries, %d moves proposed, %d commits refused", got, len(h.pending), len(w.refusals)))
	}
	taken := 0
	for _, b := range w.blocks {
		taken += b.md.AllocationCount()
	}
	if live := len(h.liveSlots()); taken != live {
		h.fail("C07", "refused-commit-left-range", fmt.Sprintf("%d taken regions in the blocks, %d live allocation objects, %d commits refused", taken, live, len(w.refusals)))
	}
	for _, rf := range w.refusals {
		if _, b := w.blockByID(rf.dstBlk); b == nil || rf.src < 0 || rf.src >= len(w.slots) || !w.slots[rf.src].live || w.slots[rf.src].temp {
			h.fail("C07", "refused-commit-unknown", fmt.Sprintf("attempt %d: source slot %d, destination block %d", rf.k, rf.src, rf.dstBlk))
		}
	}
}

// conflictKinds: the Vulkan buffer-image-granularity rule as vam documents it (independent statement)
func conflictKinds(a, b uint32) bool {
	if a > b {
		a, b = b, a
	}
	switch a {
	case 0:
		return false
	case 1:
		return true
	case 2:
		return b == 3 || b == 5
	case 3:
		return b == 3 || b == 4 || b == 5
	case 4:
		return b == 5
	}
	return false
}

// checkPages (C09 on the planner's block list): with vam's handler no bufferImageGranularity page
// holds bytes of two live allocations of conflicting kinds - users' or the planner's temporaries
func (h *hist) checkPages() {
	if h.c.handler != "vam" || h.c.gran <= 1 {
		return
	}
	g := h.c.gran
	for _, b := range h.w.blocks {
		var as []*alloc
		for _, a := range h.w.slots {
			if a.live && a.blk == b && a.kind >= 1 && a.kind <= 5 {
				as = append(as, a)
			}
		}
		sort.Slice(as, func(i, j int) bool { return as[i].offset() < as[j].offset() })
		for i := 0; i < len(as); i++ {
			iEnd := as[i].offset() + as[i].size
			for j := i + 1; j < len(as); j++ {
				if as[j].offset()/g > (iEnd-1)/g {
					break
				}
				if conflictKinds(as[i].kind, as[j].kind) {
					h.fail("C09", "page-shared", fmt.Sprintf("block %d: slot %d kind %d [%d,%d) and slot %d kind %d [%d,%d) share a page of %d",
						b.id, as[i].slot, as[i].kind, as[i].offset(), iEnd, as[j].slot, as[j].kind, as[j].offset(), as[j].offset()+as[j].size, g))
				}
			}
		}
	}
}
