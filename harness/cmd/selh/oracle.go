package main

import (
	"fmt"
	"math/bits"
)

// Property oracles for C19, evaluated on the results of the REAL code. They are written from the
// property statement, independently of the Coq model; the only thing taken from the implementation is the
// (preferred, notPreferred) pair reported by the verif hook, used solely to rank types for the fallback
// ORDER check in usage modes where the property statement does not define the ranking itself.

const (
	pDeviceLocal = 0x01
	pHostVisible = 0x02
	pHostCached  = 0x08
	pLazily      = 0x10
	pDevCoherent = 0x40
	pDevUncached = 0x80

	fSeqWrite = 128
	fRandom   = 256
	fXfer     = 512
)

type failure struct{ sig, detail string }

func isAuto(u uint32) bool { return u == 2 || u == 3 || u == 4 }

// deviceAccess: the resource is used by the device for more than transfers
func deviceAccess(q query) bool { return q.bufimg != nil && *q.bufimg&^3 != 0 }

// requiredSet is the set of properties the property statement demands of the chosen type.
func requiredSet(c cfg, q query) uint32 {
	r := q.req
	if q.usage == 1 {
		r |= pLazily
	}
	if isAuto(q.usage) && q.flags&(fSeqWrite|fRandom) != 0 {
		transferFallback := q.flags&fXfer != 0 && deviceAccess(q) && !c.integrated && q.usage != 4
		if !transferFallback {
			r |= pHostVisible
		}
	}
	return r
}

func permitted(c cfg, q query, k int) bool {
	if k < 0 || k >= len(c.types) {
		return false
	}
	if q.typeBits>>uint(k)&1 == 0 {
		return false
	}
	if q.ctb != 0 && q.ctb>>uint(k)&1 == 0 {
		return false
	}
	if !c.amd && c.types[k].Flags&pDevCoherent != 0 {
		return false
	}
	return true
}

func eligible(c cfg, q query, k int) bool {
	r := requiredSet(c, q)
	return permitted(c, q, k) && c.types[k].Flags&r == r
}

func askedAMD(q query) bool { return (q.req|q.pref)&(pDevCoherent|pDevUncached) != 0 }

// missCost: preferred properties missed, device-uncached memory counts as one extra miss unless asked for
func missCost(q query, f uint32) int {
	n := bits.OnesCount32(q.pref &^ f)
	if !askedAMD(q) && f&pDevUncached != 0 {
		n++
	}
	return n
}

func checkSelection(c cfg, q query, ok bool, idx int, vk int) []failure {
	var fs []failure
	anyEligible := false
	for k := range c.types {
		if eligible(c, q, k) {
			anyEligible = true
		}
	}
	if !ok {
		if vk != -8 {
			fs = append(fs, failure{"unexpected-error", fmt.Sprintf("vk=%d", vk)})
		} else if anyEligible {
			fs = append(fs, failure{"feature-not-present-but-eligible", ""})
		}
		return fs
	}
	if !anyEligible {
		fs = append(fs, failure{"chosen-but-none-eligible", fmt.Sprintf("idx=%d", idx)})
	}
	if !permitted(c, q, idx) {
		fs = append(fs, failure{"not-permitted", fmt.Sprintf("idx=%d", idx)})
		return fs
	}
	f := c.types[idx].Flags
	if r := requiredSet(c, q); f&r != r {
		fs = append(fs, failure{"missing-required", fmt.Sprintf("idx=%d flags=%d required=%d", idx, f, r)})
	}
	if q.usage == 0 {
		for k := range c.types {
			if !eligible(c, q, k) {
				continue
			}
			ck, ci := missCost(q, c.types[k].Flags), missCost(q, f)
			if ck < ci {
				fs = append(fs, failure{"not-min-cost", fmt.Sprintf("idx=%d cost=%d better=%d cost=%d", idx, ci, k, ck)})
				break
			}
			if ck == ci && k < idx {
				fs = append(fs, failure{"not-lowest-index", fmt.Sprintf("idx=%d cost=%d tie=%d", idx, ci, k)})
				break
			}
		}
	}
	if isAuto(q.usage) && q.flags&(fSeqWrite|fRandom) == 0 && q.pref == 0 {
		wantLocal := q.usage != 4
		for k := range c.types {
			fk := c.types[k].Flags
			if !eligible(c, q, k) || (fk&pDeviceLocal != 0) != wantLocal || (fk&pDevUncached != 0 && !askedAMD(q)) {
				continue
			}
			if (f&pDeviceLocal != 0) != wantLocal {
				sig := "not-device-local"
				if !wantLocal {
					sig = "not-host-side"
				}
				fs = append(fs, failure{sig, fmt.Sprintf("idx=%d flags=%d candidate=%d", idx, f, k)})
			}
			break
		}
	}
	return fs
}

func checkAlloc(c cfg, q query, r outcome) []failure {
	var fs []failure
	seen := map[int]bool{}
	rank := func(k int) int {
		f := c.types[k].Flags
		return bits.OnesCount32(r.ppref&^f) + bits.OnesCount32(r.pnpref&f)
	}
	for i, k := range r.tried {
		if k < 0 || k >= len(c.types) {
			fs = append(fs, failure{"tried-out-of-range", fmt.Sprintf("type=%d", k)})
			return fs
		}
		if seen[k] {
			fs = append(fs, failure{"type-retried", fmt.Sprintf("type=%d", k)})
		}
		seen[k] = true
		if !eligible(c, q, k) {
			fs = append(fs, failure{"tried-ineligible", fmt.Sprintf("type=%d", k)})
		}
		if i > 0 && r.hasPrefs {
			p := r.tried[i-1]
			if rank(p) > rank(k) || (rank(p) == rank(k) && p >= k) {
				fs = append(fs, failure{"tried-order", fmt.Sprintf("type=%d cost=%d before type=%d cost=%d", p, rank(p), k, rank(k))})
			}
		}
		if i < len(r.tried)-1 && q.oomMask>>uint(k)&1 == 0 {
			fs = append(fs, failure{"moved-on-after-success", fmt.Sprintf("type=%d", k)})
		}
	}
	if q.flags&1 != 0 && len(r.rawTried) != len(r.tried) {
		fs = append(fs, failure{"dedicated-retried-same-type", fmt.Sprintf("raw=%v", r.rawTried)})
	}
	if r.first.valid && len(r.tried) > 0 && (!r.first.ok || r.first.idx != r.tried[0]) {
		fs = append(fs, failure{"first-try-differs-from-find", fmt.Sprintf("find=%d first=%d", r.first.idx, r.tried[0])})
	}
	switch r.kind {
	case "ok":
		if len(r.tried) == 0 || r.tried[len(r.tried)-1] != r.idx || q.oomMask>>uint(r.idx)&1 != 0 {
			fs = append(fs, failure{"ok-mismatch", fmt.Sprintf("idx=%d tried=%v", r.idx, r.tried)})
		}
	case "err":
		if len(r.tried) == 0 {
			if r.vk == -8 {
				for k := range c.types {
					if eligible(c, q, k) {
						fs = append(fs, failure{"feature-not-present-but-eligible", fmt.Sprintf("type=%d", k)})
						break
					}
				}
			}
		} else if r.vk != -13 {
			for k := range c.types {
				if eligible(c, q, k) && !seen[k] {
					fs = append(fs, failure{"gave-up-early", fmt.Sprintf("vk=%d untried=%d tried=%v", r.vk, k, r.tried)})
					break
				}
			}
		}
	}
	return fs
}
