package main

import (
	"verif/harness/internal/simvk"
)

// ---------------------------------------------------------------- PRNG (splitmix64), one stream per run

type rng struct{ s uint64 }

func (r *rng) next() uint64 {
	r.s += 0x9e3779b97f4a7c15
	z := r.s
	z = (z ^ (z >> 30)) * 0xbf58476d1ce4e5b9
	z = (z ^ (z >> 27)) * 0x94d049bb133111eb
	return z ^ (z >> 31)
}
func (r *rng) intn(n int) int {
	if n <= 0 {
		return 0
	}
	return int(r.next() % uint64(n))
}
func (r *rng) rangeIncl(lo, hi int) int { return lo + r.intn(hi-lo+1) }
func (r *rng) chance(pct int) bool       { return r.intn(100) < pct }
func (r *rng) u32() uint32               { return uint32(r.next()) }
func (r *rng) pick(xs []uint32) uint32   { return xs[r.intn(len(xs))] }

var profiles = []string{"basic", "wide", "alloc", "small"}

var heapSizes = []int{1 << 20, 16 << 20, 256 << 20, 1 << 30, 2 << 30, 8 << 30, 16 << 30}

// realistic memory types
var realTypes = []uint32{
	0x01,               // DEVICE_LOCAL
	0x06,               // HOST_VISIBLE|HOST_COHERENT
	0x0e,               // HOST_VISIBLE|HOST_COHERENT|HOST_CACHED
	0x0a,               // HOST_VISIBLE|HOST_CACHED (non-coherent)
	0x07,               // DEVICE_LOCAL|HOST_VISIBLE|HOST_COHERENT (BAR)
	0x0f,               // DEVICE_LOCAL|HOST_VISIBLE|HOST_COHERENT|HOST_CACHED (integrated)
	0x11,               // DEVICE_LOCAL|LAZILY_ALLOCATED
	0x21,               // DEVICE_LOCAL|PROTECTED
	0xc1,               // DEVICE_LOCAL|DEVICE_COHERENT|DEVICE_UNCACHED
	0xc7,               // DEVICE_LOCAL|HOST_VISIBLE|HOST_COHERENT|DEVICE_COHERENT|DEVICE_UNCACHED
	0xc6,               // HOST_VISIBLE|HOST_COHERENT|DEVICE_COHERENT|DEVICE_UNCACHED
	0x81,               // DEVICE_LOCAL|DEVICE_UNCACHED
	0x86,               // HOST_VISIBLE|HOST_COHERENT|DEVICE_UNCACHED
	0x00,               // no properties
}

func genType(r *rng, profile string) uint32 {
	if profile == "basic" {
		return r.pick(realTypes)
	}
	switch r.intn(10) {
	case 0:
		return 0
	case 1, 2, 3, 4:
		return r.pick(realTypes)
	case 5, 6:
		return r.u32() & 0xff
	case 7:
		return r.u32() & r.u32() & 0xff
	case 8:
		return (r.u32() | r.u32()) & 0xff
	}
	return r.pick(realTypes) | (r.u32() & 0xc0 & r.u32())
}

func genCfg(r *rng, profile string) cfg {
	var c cfg
	c.integrated = r.chance(35)
	c.amd = r.chance(50)
	c.api = []int{10, 10, 11, 12}[r.intn(4)]
	nt := 0
	switch profile {
	case "basic":
		nt = r.rangeIncl(1, 8)
	default:
		switch r.intn(6) {
		case 0:
			nt = r.rangeIncl(1, 3)
		case 1:
			nt = 32
		case 2:
			nt = r.rangeIncl(17, 32)
		default:
			nt = r.rangeIncl(2, 16)
		}
	}
	nh := r.rangeIncl(1, 4)
	if r.chance(10) {
		nh = r.rangeIncl(1, 16)
	}
	for i := 0; i < nh; i++ {
		c.heaps = append(c.heaps, heapSizes[r.intn(len(heapSizes))])
	}
	for i := 0; i < nt; i++ {
		t := simvk.TypeCfg{Heap: r.intn(nh), Flags: genType(r, profile)}
		if i > 0 && r.chance(12) { // exact duplicate of an earlier type
			t.Flags = c.types[r.intn(i)].Flags
		}
		c.types = append(c.types, t)
	}
	return c
}

var hostCombos = []uint32{0, 128, 256, 384, 512, 640, 768, 896}

func genFlagSet(r *rng, c cfg) uint32 {
	switch r.intn(10) {
	case 0, 1, 2, 3:
		return 0
	case 4, 5:
		return c.types[r.intn(len(c.types))].Flags & r.u32()
	case 6:
		return c.types[r.intn(len(c.types))].Flags
	case 7:
		return 1 << uint(r.intn(8))
	case 8:
		return r.u32() & r.u32() & 0xff
	}
	if r.chance(20) {
		return r.u32() // arbitrary 32-bit set, including bits no type has
	}
	return r.u32() & 0xff
}

func genMask(r *rng, n int) uint32 {
	all := uint32(0xffffffff)
	low := uint32(uint64(1)<<uint(n) - 1)
	switch r.intn(8) {
	case 0, 1, 2:
		return all
	case 3:
		return low
	case 4:
		return r.u32()
	case 5:
		return r.u32() | r.u32()
	case 6:
		return 1 << uint(r.intn(n))
	}
	if r.chance(15) {
		return 0
	}
	return low &^ (1 << uint(r.intn(n)))
}

func genBufImg(r *rng, allocOp bool) uint32 {
	v := []uint32{0, 1, 2, 3, 0x80, 0x21, 0x10, 0x100, 0x42}[r.intn(9)]
	if r.chance(25) {
		v = r.u32() & 0x1ff
	}
	if !allocOp && r.chance(10) {
		v = r.u32()
	}
	return v
}

func genQueryArgs(r *rng, c cfg, allocOp bool) []uint64 {
	usage := uint32(r.intn(5))
	if r.chance(2) {
		usage = uint32(r.rangeIncl(5, 9))
	}
	flags := hostCombos[r.intn(8)]
	if allocOp {
		// most invalid host-access combinations (rejected by validation before any selection) are re-rolled
		for (flags&384 == 384 || flags&896 == 512) && r.chance(85) {
			flags = hostCombos[r.intn(8)]
		}
		if r.chance(45) {
			flags |= 1 // dedicated
		}
		if r.chance(15) {
			flags |= 4 // mapped
		}
		if r.chance(10) {
			flags |= []uint32{64, 1024, 2048, 4096}[r.intn(4)]
		}
		if r.chance(3) {
			flags |= 2 // never allocate: only supported together with dedicated / lazily allocated
		}
	} else if r.chance(30) {
		flags |= r.u32() & 0x1c7f
	}
	req, pref := genFlagSet(r, c), genFlagSet(r, c)
	if r.chance(30) {
		pref = 0
	}
	if allocOp && r.chance(50) {
		req = 0
	}
	ctb := uint32(0)
	if r.chance(35) {
		ctb = genMask(r, len(c.types))
	}
	return []uint64{uint64(usage), uint64(flags), uint64(req), uint64(pref), uint64(ctb), uint64(genMask(r, len(c.types)))}
}

var failCodes = []int{-2, -2, -2, -2, -2, -2, -1, -10, -3, -13}

func genOomMask(r *rng, n int) uint32 {
	switch r.intn(6) {
	case 0, 1:
		return 0xffffffff
	case 2:
		return r.u32()
	case 3:
		return r.u32() | r.u32()
	case 4:
		return 0
	}
	return uint32(uint64(1)<<uint(n)-1) &^ (1 << uint(r.intn(n)))
}

func genOp(r *rng, c cfg, profile string) op {
	pAlloc := 15
	if profile == "alloc" {
		pAlloc = 75
	}
	if r.chance(pAlloc) {
		a := genQueryArgs(r, c, true)
		size := uint64(r.rangeIncl(1, 4096))
		fc := uint64(uint32(int32(failCodes[r.intn(len(failCodes))])))
		if r.chance(30) {
			return op{name: "ALLOCBUF", a: append(a, size, uint64(genBufImg(r, true)), uint64(genOomMask(r, len(c.types))), fc)}
		}
		return op{name: "ALLOCSEQ", a: append(a, size, uint64(genOomMask(r, len(c.types))), fc)}
	}
	a := genQueryArgs(r, c, false)
	switch r.intn(4) {
	case 0:
		return op{name: "FINDBUF", a: append(a, uint64(genBufImg(r, false)))}
	case 1:
		return op{name: "FINDIMG", a: append(a, uint64(genBufImg(r, false)))}
	}
	return op{name: "FIND", a: a}
}

// ---------------------------------------------------------------- exhaustive small tables

var smallBits = []uint32{0x01, 0x02, 0x08, 0x10, 0x40, 0x80}

const smallTables = 64 + 64*64 + 64*64*64

func smallFlags(d int) uint32 {
	var f uint32
	for i, b := range smallBits {
		if d>>uint(i)&1 != 0 {
			f |= b
		}
	}
	return f
}

// smallTable returns the i-th table (0 <= i < smallTables) of the enumeration of all tables of 1..3 types
// whose flags are subsets of the six bits DEVICE_LOCAL, HOST_VISIBLE, HOST_CACHED, LAZILY_ALLOCATED,
// DEVICE_COHERENT_AMD, DEVICE_UNCACHED_AMD.
func smallTable(i int) []simvk.TypeCfg {
	n := 1
	switch {
	case i >= 64+64*64:
		i -= 64 + 64*64
		n = 3
	case i >= 64:
		i -= 64
		n = 2
	}
	ts := make([]simvk.TypeCfg, n)
	for k := 0; k < n; k++ {
		ts[k] = simvk.TypeCfg{Heap: 0, Flags: smallFlags(i & 63)}
		i >>= 6
	}
	return ts
}

func smallSubset(r *rng, maxBits int) uint32 {
	var f uint32
	for i := r.intn(maxBits + 1); i > 0; i-- {
		f |= smallBits[r.intn(len(smallBits))]
	}
	return f
}

// smallOps: every usage mode x every host-access flag combination for one table
func smallOps(r *rng, c cfg) []op {
	var ops []op
	n := len(c.types)
	for usage := 0; usage < 5; usage++ {
		for _, hf := range hostCombos {
			tb := uint32(0xffffffff)
			if r.chance(30) {
				tb = r.u32() & 7
			}
			ctb := uint32(0)
			if r.chance(20) {
				ctb = uint32(r.intn(1 << uint(n)))
			}
			a := []uint64{uint64(usage), uint64(hf), uint64(smallSubset(r, 1)), uint64(smallSubset(r, 2)), uint64(ctb), uint64(tb)}
			switch r.intn(3) {
			case 0:
				ops = append(ops, op{name: "FIND", a: a})
			case 1:
				ops = append(ops, op{name: "FINDBUF", a: append(a, uint64([]uint32{0, 2, 0x80, 0x22}[r.intn(4)]))})
			default:
				ops = append(ops, op{name: "FINDIMG", a: append(a, uint64([]uint32{1, 3, 0x10, 0x06}[r.intn(4)]))})
			}
		}
	}
	return ops
}
