package main

import (
	"fmt"
	"log/slog"
	"strconv"
	"strings"

	"github.com/vkngwrapper/arsenal/vam"
	"github.com/vkngwrapper/core/v3/common"
	"github.com/vkngwrapper/core/v3/core1_0"
	"github.com/vkngwrapper/core/v3/core1_1"
	"github.com/vkngwrapper/core/v3/core1_2"
	"github.com/vkngwrapper/core/v3/loader"
	"github.com/vkngwrapper/extensions/v3/amd_device_coherent_memory"

	"verif/harness/internal/simvk"
)

// ---------------------------------------------------------------- configuration

type cfg struct {
	integrated bool
	api        int // 10, 11, 12
	amd        bool
	types      []simvk.TypeCfg
	heaps      []int
}

func (c cfg) line() string {
	var ts, hs []string
	for _, t := range c.types {
		ts = append(ts, fmt.Sprintf("%d:%d", t.Flags, t.Heap))
	}
	for _, h := range c.heaps {
		hs = append(hs, strconv.Itoa(h))
	}
	return fmt.Sprintf("CFG integrated=%d api=%d amd=%d ntypes=%d types=%s nheaps=%d heaps=%s",
		b2i(c.integrated), c.api, b2i(c.amd), len(c.types), strings.Join(ts, ","), len(c.heaps), strings.Join(hs, ","))
}

func b2i(b bool) int {
	if b {
		return 1
	}
	return 0
}

func parseCfg(line string) (cfg, error) {
	var c cfg
	c.api = 10
	for _, f := range strings.Fields(line)[1:] {
		kv := strings.SplitN(f, "=", 2)
		if len(kv) != 2 {
			continue
		}
		switch kv[0] {
		case "integrated":
			c.integrated = kv[1] == "1"
		case "amd":
			c.amd = kv[1] == "1"
		case "api":
			c.api, _ = strconv.Atoi(kv[1])
		case "types":
			for _, t := range strings.Split(kv[1], ",") {
				if t == "" {
					continue
				}
				fh := strings.SplitN(t, ":", 2)
				if len(fh) != 2 {
					return c, fmt.Errorf("bad type %q", t)
				}
				fl, e1 := strconv.ParseUint(fh[0], 10, 32)
				hp, e2 := strconv.Atoi(fh[1])
				if e1 != nil || e2 != nil {
					return c, fmt.Errorf("bad type %q", t)
				}
				c.types = append(c.types, simvk.TypeCfg{Heap: hp, Flags: uint32(fl)})
			}
		case "heaps":
			for _, h := range strings.Split(kv[1], ",") {
				if h == "" {
					continue
				}
				v, e := strconv.Atoi(h)
				if e != nil {
					return c, fmt.Errorf("bad heap %q", h)
				}
				c.heaps = append(c.heaps, v)
			}
		}
	}
	if len(c.types) == 0 || len(c.types) > 32 || len(c.heaps) == 0 || len(c.heaps) > 16 {
		return c, fmt.Errorf("bad table sizes")
	}
	for _, t := range c.types {
		if t.Heap < 0 || t.Heap >= len(c.heaps) {
			return c, fmt.Errorf("heap index out of range")
		}
	}
	return c, nil
}

// ---------------------------------------------------------------- driver wrappers
//
// The wrappers sit between vam and the simvk driver. They (a) report a Device that has
// VK_AMD_device_coherent_memory enabled when the configuration says so (simvk has no switch for it) and
// (b) make vkAllocateMemory fail for the memory types in failMask by arming simvk's own fault injection
// for exactly that call, so that the attempt shows up in simvk's call log with its type index.

type hookState struct {
	sim      *simvk.Device
	dev      core1_0.Device
	failMask uint32
	failCode int
	calls    int // vkAllocateMemory calls since the current op started
}

// a fallback loop that never terminates must not take the harness down with it
const maxAllocCallsPerOp = 1000

func (h *hookState) arm(typeIndex int) {
	h.calls++
	if h.calls > maxAllocCallsPerOp {
		panic("selh: runaway allocation loop")
	}
	if typeIndex >= 0 && typeIndex < 32 && h.failMask>>uint(typeIndex)&1 != 0 {
		h.sim.ArmFault(int(simvk.CallAlloc), 1, h.failCode, false)
	}
}

type wrap10 struct {
	core1_0.CoreDeviceDriver
	h *hookState
}

func (w *wrap10) Device() core1_0.Device { return w.h.dev }
func (w *wrap10) AllocateMemory(cb *loader.AllocationCallbacks, o core1_0.MemoryAllocateInfo) (core1_0.DeviceMemory, common.VkResult, error) {
	w.h.arm(o.MemoryTypeIndex)
	defer w.h.sim.DisarmFault()
	return w.CoreDeviceDriver.AllocateMemory(cb, o)
}

type wrap11 struct {
	core1_1.CoreDeviceDriver
	h *hookState
}

func (w *wrap11) Device() core1_0.Device { return w.h.dev }
func (w *wrap11) AllocateMemory(cb *loader.AllocationCallbacks, o core1_0.MemoryAllocateInfo) (core1_0.DeviceMemory, common.VkResult, error) {
	w.h.arm(o.MemoryTypeIndex)
	defer w.h.sim.DisarmFault()
	return w.CoreDeviceDriver.AllocateMemory(cb, o)
}

type wrap12 struct {
	core1_2.CoreDeviceDriver
	h *hookState
}

func (w *wrap12) Device() core1_0.Device { return w.h.dev }
func (w *wrap12) AllocateMemory(cb *loader.AllocationCallbacks, o core1_0.MemoryAllocateInfo) (core1_0.DeviceMemory, common.VkResult, error) {
	w.h.arm(o.MemoryTypeIndex)
	defer w.h.sim.DisarmFault()
	return w.CoreDeviceDriver.AllocateMemory(cb, o)
}

// ---------------------------------------------------------------- world

var discardLogger = slog.New(slog.DiscardHandler)

// capacity of simvk's object tables for a history's allocator (bounds FINDBUF/FINDIMG ops per history)
const findTableSize = 1 << 13

type world struct {
	c     cfg
	sim   *simvk.Device
	hook  *hookState
	alloc *vam.Allocator
}

func apiVersion(api int) common.APIVersion {
	switch api {
	case 11:
		return common.Vulkan1_1
	case 12:
		return common.Vulkan1_2
	}
	return common.Vulkan1_0
}

// newWorld creates a simulated device with the configured memory-type table and a REAL vam.Allocator on it.
func newWorld(c cfg, log bool, tableSize int) (*world, error) {
	sc := simvk.Config{
		API:           c.api,
		Types:         append([]simvk.TypeCfg(nil), c.types...),
		Granularity:   1,
		AtomSize:      64,
		MaxAllocCount: 4096,
		Integrated:    c.integrated,
		Log:           log,
		TableSize:     tableSize,
	}
	for _, h := range c.heaps {
		sc.Heaps = append(sc.Heaps, simvk.HeapCfg{Size: h})
	}
	sim := simvk.NewDevice(sc)
	drv := simvk.NewDriver(sim)
	var exts []string
	if c.amd {
		exts = append(exts, amd_device_coherent_memory.ExtensionName)
	}
	h := &hookState{sim: sim, dev: core1_0.InternalDevice(loader.VkDevice(1), apiVersion(c.api), exts)}
	var d core1_0.CoreDeviceDriver
	switch inner := drv.Driver.(type) {
	case core1_2.CoreDeviceDriver:
		d = &wrap12{CoreDeviceDriver: inner, h: h}
	case core1_1.CoreDeviceDriver:
		d = &wrap11{CoreDeviceDriver: inner, h: h}
	default:
		d = &wrap10{CoreDeviceDriver: inner, h: h}
	}
	a, err := vam.New(discardLogger, d, drv.PhysicalDevice, vam.CreateOptions{})
	if err != nil {
		return nil, err
	}
	return &world{c: c, sim: sim, hook: h, alloc: a}, nil
}

// ---------------------------------------------------------------- ops

type op struct {
	name string
	a    []uint64
}

func (o op) String() string {
	s := o.name
	for i, v := range o.a {
		if (o.name == "ALLOCSEQ" && i == 8) || (o.name == "ALLOCBUF" && i == 9) {
			s += " " + strconv.Itoa(int(int32(uint32(v)))) // failCode: a (negative) VkResult
			continue
		}
		s += " " + strconv.FormatUint(v, 10)
	}
	return s
}

var opArity = map[string]int{"NEW": 0, "FIND": 6, "FINDBUF": 7, "FINDIMG": 7, "ALLOCSEQ": 9, "ALLOCBUF": 10}

func parseOp(f []string) (op, error) {
	n, ok := opArity[f[0]]
	if !ok || len(f) != n+1 {
		return op{}, fmt.Errorf("bad op %v", f)
	}
	o := op{name: f[0]}
	for _, s := range f[1:] {
		if strings.HasPrefix(s, "-") { // failCode is written as a negative VkResult
			v, err := strconv.ParseInt(s, 10, 32)
			if err != nil {
				return op{}, err
			}
			o.a = append(o.a, uint64(uint32(int32(v))))
			continue
		}
		v, err := strconv.ParseUint(s, 10, 32)
		if err != nil {
			return op{}, err
		}
		o.a = append(o.a, v)
	}
	return o, nil
}

// query is the selection-relevant content of an op.
type query struct {
	usage, flags, req, pref, ctb, typeBits uint32
	bufimg                                 *uint32 // buffer/image usage, nil for FIND / ALLOCSEQ
	alloc                                  bool
	size                                   int
	oomMask                                uint32
	failCode                               int
}

func (o op) query() query {
	u := func(i int) uint32 { return uint32(o.a[i]) }
	q := query{usage: u(0), flags: u(1), req: u(2), pref: u(3), ctb: u(4), typeBits: u(5)}
	switch o.name {
	case "FINDBUF", "FINDIMG":
		v := u(6)
		q.bufimg = &v
	case "ALLOCSEQ":
		q.alloc, q.size, q.oomMask, q.failCode = true, int(u(6)), u(7), int(int32(u(8)))
	case "ALLOCBUF":
		v := u(7)
		q.bufimg = &v
		q.alloc, q.size, q.oomMask, q.failCode = true, int(u(6)), u(8), int(int32(u(9)))
	}
	return q
}

func (q query) createInfo() vam.AllocationCreateInfo {
	return vam.AllocationCreateInfo{
		Flags:          vam.AllocationCreateFlags(int32(q.flags)),
		Usage:          vam.MemoryUsage(q.usage),
		RequiredFlags:  core1_0.MemoryPropertyFlags(int32(q.req)),
		PreferredFlags: core1_0.MemoryPropertyFlags(int32(q.pref)),
		MemoryTypeBits: q.ctb,
	}
}

// Allocation create flags an ALLOC* op may carry (the others change how/whether vkAllocateMemory is
// reached, which this engine does not model): Dedicated, Mapped, CanAlias, HostAccess*, Strategy*;
// NeverAllocate only together with Dedicated or the lazily-allocated usage (rejected by validation).
const allocFlagsAllowed = 1 | 4 | 64 | 128 | 256 | 512 | 1024 | 2048 | 4096

func (q query) allocSupported() bool {
	rest := q.flags &^ allocFlagsAllowed
	if rest == 2 && (q.flags&1 != 0 || q.usage == 1) {
		rest = 0
	}
	return rest == 0 && q.size >= 1 && q.size <= 4096 && q.failCode < 0 && (q.bufimg == nil || *q.bufimg&^0x1ff == 0)
}

// outcome of one op on the real code
type outcome struct {
	kind     string // ok, err, panic, skip
	idx      int
	vk       int
	tried    []int // ALLOC*: memory type of every vkAllocateMemory attempt, consecutive repeats collapsed
	rawTried []int
	hasPrefs bool
	preq     uint32
	ppref    uint32
	pnpref   uint32
	global   uint32
	first    outcomeFirst
}

// what Find* returns for the same request on the same fresh allocator (ALLOC* ops only, oracle use)
type outcomeFirst struct {
	valid bool
	ok    bool
	idx   int
}

func (r outcome) line() string {
	switch r.kind {
	case "ok":
		if r.idx < 0 {
			return "R ok"
		}
		return fmt.Sprintf("R ok %d", r.idx)
	case "err":
		return "R err " + simvk.ResultName(r.vk)
	}
	return "R " + r.kind
}

func guard(f func()) (panicked bool) {
	defer func() {
		if r := recover(); r != nil {
			panicked = true
		}
	}()
	f()
	return false
}

func (w *world) find(o op, q query) (idx int, res common.VkResult, err error) {
	ci := q.createInfo()
	switch o.name {
	case "FINDBUF", "ALLOCBUF":
		w.sim.SetPendingReq(&simvk.ResReq{Size: 256, Alignment: 16, TypeBits: q.typeBits})
		defer w.sim.SetPendingReq(nil)
		return w.alloc.FindMemoryTypeIndexForBufferInfo(core1_0.BufferCreateInfo{Size: 256, Usage: core1_0.BufferUsageFlags(int32(*q.bufimg))}, ci)
	case "FINDIMG":
		w.sim.SetPendingReq(&simvk.ResReq{Size: 256, Alignment: 16, TypeBits: q.typeBits})
		defer w.sim.SetPendingReq(nil)
		return w.alloc.FindMemoryTypeIndexForImageInfo(core1_0.ImageCreateInfo{
			ImageType: core1_0.ImageType2D, Extent: core1_0.Extent3D{Width: 8, Height: 8, Depth: 1},
			MipLevels: 1, ArrayLayers: 1, Usage: core1_0.ImageUsageFlags(int32(*q.bufimg))}, ci)
	}
	return w.alloc.FindMemoryTypeIndex(q.typeBits, ci)
}

// exec runs one op on the real code. FIND* ops use the history's allocator; ALLOC* ops run on a fresh
// device + allocator with the same configuration (so that earlier allocations cannot influence which
// driver calls are made).
func (w *world) exec(o op) outcome {
	var out outcome
	out.idx = -1
	if o.name == "NEW" {
		nw, err := newWorld(w.c, false, findTableSize)
		if err != nil {
			out.kind = "err"
			out.vk = simvk.ResUnknown
			return out
		}
		*w = *nw
		out.kind = "ok"
		out.global = vam.VerifGlobalMemoryTypeBits(w.alloc)
		return out
	}
	q := o.query()
	if !q.alloc {
		p := guard(func() {
			idx, res, err := w.find(o, q)
			if err != nil {
				out.kind, out.vk = "err", int(res)
			} else {
				out.kind, out.idx = "ok", idx
			}
			out.preq, out.ppref, out.pnpref = vam.VerifFindMemoryPreferences(w.alloc, q.createInfo(), q.bufimg)
			out.hasPrefs = true
		})
		if p {
			out = outcome{kind: "panic", idx: -1}
		}
		return out
	}
	if !q.allocSupported() {
		out.kind = "skip"
		return out
	}
	fw, err := newWorld(w.c, true, 64)
	if err != nil {
		out.kind = "skip"
		return out
	}
	p := guard(func() {
		// reference: what the Find* entry point answers for this request
		idx, _, ferr := fw.find(o, q)
		out.first = outcomeFirst{valid: true, ok: ferr == nil, idx: idx}
		out.preq, out.ppref, out.pnpref = vam.VerifFindMemoryPreferences(fw.alloc, q.createInfo(), q.bufimg)
		out.hasPrefs = true
		fw.sim.TakeLog()
		fw.hook.failMask, fw.hook.failCode, fw.hook.calls = q.oomMask, q.failCode, 0
		var al vam.Allocation
		var res common.VkResult
		var aerr error
		if o.name == "ALLOCBUF" {
			fw.sim.SetPendingReq(&simvk.ResReq{Size: q.size, Alignment: 64, TypeBits: q.typeBits})
			_, res, aerr = fw.alloc.CreateBuffer(core1_0.BufferCreateInfo{Size: q.size, Usage: core1_0.BufferUsageFlags(int32(*q.bufimg))}, q.createInfo(), &al)
			fw.sim.SetPendingReq(nil)
		} else {
			res, aerr = fw.alloc.AllocateMemory(&core1_0.MemoryRequirements{Size: q.size, Alignment: 64, MemoryTypeBits: q.typeBits}, q.createInfo(), &al)
		}
		fw.hook.failMask = 0
		for _, c := range fw.sim.TakeLog() {
			if c.Kind != simvk.CallAlloc {
				continue
			}
			out.rawTried = append(out.rawTried, c.Type)
			if n := len(out.tried); n == 0 || out.tried[n-1] != c.Type {
				out.tried = append(out.tried, c.Type)
			}
		}
		if aerr != nil {
			out.kind, out.vk = "err", int(res)
		} else {
			out.kind, out.idx = "ok", al.MemoryTypeIndex()
		}
	})
	if p {
		out.kind, out.idx = "panic", -1
	}
	return out
}
