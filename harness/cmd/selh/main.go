// selh is the memory-type-selection harness (property C19): it builds REAL vam.Allocators over a simulated
// device (internal/simvk) with generated memory-type tables, calls the real FindMemoryTypeIndex*,
// AllocateMemory and CreateBuffer entry points (with per-type vkAllocateMemory failures to observe the
// fallback order), prints a line-oriented trace (see SELH_FORMAT.md) and evaluates the C19 oracles.
//
//	selh gen -seed S -n N -ops K -profile basic|wide|alloc|small   trace on stdout, SUMMARY/OPS/RES on stderr
//	selh run FILE                                                   re-executes the H/CFG/op/END lines of a trace
//	selh sweep [-max N]                                             exhaustive oracle-only run over all small tables
package main

import (
	"bufio"
	"flag"
	"fmt"
	"os"
	"runtime"
	"sort"
	"strconv"
	"strings"
	"sync"
	"time"
)

type stats struct {
	ops, results map[string]int
	oracleFail   int
	fails        map[string]int
	histories    int
	failLines    []string // sweep: first failures with their configuration (there is no trace to look at)
}

func newStats() *stats {
	return &stats{ops: map[string]int{}, results: map[string]int{}, fails: map[string]int{}}
}

type hist struct {
	c    cfg
	w    *world
	out  *bufio.Writer
	st   *stats
	step int
	cur  op
}

func newHist(c cfg, out *bufio.Writer, st *stats) *hist {
	h := &hist{c: c, out: out, st: st}
	w, err := newWorld(c, false, findTableSize)
	if err != nil {
		fmt.Fprintf(os.Stderr, "selh: vam.New failed: %v\n", err)
		os.Exit(3)
	}
	h.w = w
	return h
}

func (h *hist) fail(sig, detail string) {
	prop := "C19"
	if sig == "panic" {
		prop = "C13" // "never panics" is its own property
	}
	h.st.oracleFail++
	h.st.fails[sig]++
	if h.out != nil {
		fmt.Fprintf(h.out, "ORACLE-FAIL property=%s sig=%s step=%d %s\n", prop, sig, h.step, detail)
	} else if len(h.st.failLines) < 20 {
		h.st.failLines = append(h.st.failLines, fmt.Sprintf("ORACLE-FAIL property=%s sig=%s %s | %s | %s", prop, sig, detail, h.c.line(), h.cur.String()))
	}
}

func ints(xs []int) string {
	var sb strings.Builder
	for _, x := range xs {
		sb.WriteByte(' ')
		sb.WriteString(strconv.Itoa(x))
	}
	return sb.String()
}

// exec runs one op on the real code, prints the op line and its observables, evaluates the oracles.
func (h *hist) exec(o op) {
	h.step++
	h.cur = o
	h.st.ops[o.name]++
	if h.out != nil {
		fmt.Fprintln(h.out, o.String())
	}
	r := h.w.exec(o)
	res := r.kind
	if r.kind == "err" {
		res = "err-" + strings.TrimPrefix(r.line(), "R err ")
	}
	h.st.results[o.name+"/"+res]++
	if h.out != nil {
		fmt.Fprintln(h.out, r.line())
		if o.name == "NEW" && r.kind == "ok" {
			fmt.Fprintf(h.out, "G %d\n", r.global)
		}
		if r.kind == "ok" || r.kind == "err" {
			if o.name == "ALLOCSEQ" || o.name == "ALLOCBUF" {
				fmt.Fprintf(h.out, "TRIED%s\n", ints(r.tried))
			}
			if r.hasPrefs {
				fmt.Fprintf(h.out, "P %d %d %d\n", r.preq, r.ppref, r.pnpref)
			}
		}
	}
	if o.name == "NEW" {
		// the device-level mask must exclude exactly the device-coherent types when the extension is off
		var want uint32
		for k, t := range h.c.types {
			if h.c.amd || t.Flags&pDevCoherent == 0 {
				want |= 1 << uint(k)
			}
		}
		if r.kind != "ok" || r.global != want {
			h.fail("global-mask", fmt.Sprintf("got=%d want=%d", r.global, want))
		}
		return
	}
	q := o.query()
	switch r.kind {
	case "panic":
		h.fail("panic", o.name)
	case "ok", "err":
		if q.alloc {
			for _, f := range checkAlloc(h.c, q, r) {
				h.fail(f.sig, f.detail)
			}
			if r.first.valid {
				for _, f := range checkSelection(h.c, q, r.first.ok, r.first.idx, -8) {
					h.fail(f.sig, f.detail)
				}
			}
		} else {
			for _, f := range checkSelection(h.c, q, r.kind == "ok", r.idx, r.vk) {
				h.fail(f.sig, f.detail)
			}
		}
	}
}

func printSummary(st *stats) {
	w := os.Stderr
	fmt.Fprintf(w, "SUMMARY histories=%d oracleFails=%d\n", st.histories, st.oracleFail)
	for _, m := range []struct {
		tag string
		m   map[string]int
	}{{"OPS", st.ops}, {"RES", st.results}, {"FAIL", st.fails}} {
		keys := []string{}
		for k := range m.m {
			keys = append(keys, k)
		}
		sort.Strings(keys)
		for _, k := range keys {
			fmt.Fprintf(w, "%s %s %d\n", m.tag, k, m.m[k])
		}
	}
}

func cmdGen(args []string, out *bufio.Writer, st *stats) {
	fs := flag.NewFlagSet("gen", flag.ExitOnError)
	seed := fs.Uint64("seed", 1, "")
	n := fs.Int("n", 10, "")
	nops := fs.Int("ops", 60, "")
	profile := fs.String("profile", "basic", "")
	fs.Parse(args)
	ok := false
	for _, p := range profiles {
		ok = ok || p == *profile
	}
	if !ok {
		fmt.Fprintf(os.Stderr, "selh: unknown profile %q (have %v)\n", *profile, profiles)
		os.Exit(2)
	}
	// the initial state is a mixed image of the seed: with state = seed*golden+const (as in muh) the streams
	// of two seeds are shifted copies of each other (seed 11 = seed 2 nine draws later)
	r := &rng{s: *seed}
	r.s = r.next() ^ 0x5851f42d4c957f2d
	for i := 0; i < *n; i++ {
		var c cfg
		var ops []op
		if *profile == "small" {
			// history i of seed S is table number ((S-1)*n + i) mod smallTables of the exhaustive enumeration
			ti := int((uint64(*seed-1)*uint64(*n) + uint64(i)) % smallTables)
			c = cfg{integrated: r.chance(50), amd: r.chance(50), api: 10, types: smallTable(ti), heaps: []int{256 << 20}}
			ops = smallOps(r, c)
		} else {
			c = genCfg(r, *profile)
		}
		fmt.Fprintf(out, "H %d seed=%d profile=%s\n", i, *seed, *profile)
		fmt.Fprintln(out, c.line())
		h := newHist(c, out, st)
		st.histories++
		h.exec(op{name: "NEW"})
		if *profile == "small" {
			for _, o := range ops {
				h.exec(o)
			}
		} else {
			k := r.rangeIncl(*nops/3, *nops)
			for j := 0; j < k; j++ {
				h.exec(genOp(r, c, *profile))
			}
		}
		fmt.Fprintln(out, "END")
	}
}

func cmdRun(path string, out *bufio.Writer, st *stats) {
	f, err := os.Open(path)
	if err != nil {
		fmt.Fprintln(os.Stderr, err)
		os.Exit(2)
	}
	defer f.Close()
	sc := bufio.NewScanner(f)
	sc.Buffer(make([]byte, 1<<20), 1<<26)
	var h *hist
	for sc.Scan() {
		line := sc.Text()
		fl := strings.Fields(line)
		if len(fl) == 0 {
			continue
		}
		switch fl[0] {
		case "H":
			fmt.Fprintln(out, line)
			st.histories++
			h = nil
		case "CFG":
			c, err := parseCfg(line)
			if err != nil {
				fmt.Fprintf(os.Stderr, "selh: %v: %s\n", err, line)
				os.Exit(2)
			}
			fmt.Fprintln(out, c.line())
			h = newHist(c, out, st)
		case "END":
			fmt.Fprintln(out, "END")
			h = nil
		default:
			if _, isOp := opArity[fl[0]]; isOp && h != nil {
				if o, err := parseOp(fl); err == nil {
					h.exec(o)
				}
			}
		}
	}
}

// cmdSweep checks the selection oracles exhaustively on the real code: every table of 1..3 types over six
// flag bits x integrated/discrete x extension on/off (all four for tables of <= 2 types, one combination
// per 3-type table chosen by table number) x every usage mode x every host-access flag combination x the
// three entry points, with required/preferred/mask variants cycling deterministically. No trace is printed.
func cmdSweep(args []string, st *stats) {
	fs := flag.NewFlagSet("sweep", flag.ExitOnError)
	max := fs.Int("max", smallTables, "number of tables")
	workers := fs.Int("workers", runtime.NumCPU(), "parallel workers")
	fs.Parse(args)
	if *workers < 1 {
		*workers = 1
	}
	start := time.Now()
	parts := make([]*stats, *workers)
	var wg sync.WaitGroup
	for wi := 0; wi < *workers; wi++ {
		parts[wi] = newStats()
		wg.Add(1)
		go func(wi int) {
			defer wg.Done()
			for ti := wi; ti < *max && ti < smallTables; ti += *workers {
				sweepTable(ti, parts[wi])
			}
		}(wi)
	}
	wg.Wait()
	for _, p := range parts {
		st.histories += p.histories
		st.oracleFail += p.oracleFail
		for k, v := range p.ops {
			st.ops[k] += v
		}
		for k, v := range p.results {
			st.results[k] += v
		}
		for k, v := range p.fails {
			st.fails[k] += v
		}
		for _, l := range p.failLines {
			if len(st.failLines) < 20 {
				st.failLines = append(st.failLines, l)
			}
		}
	}
	for _, l := range st.failLines {
		fmt.Println(l)
	}
	fmt.Fprintf(os.Stderr, "SWEEP tables=%d workers=%d seconds=%.1f\n", *max, *workers, time.Since(start).Seconds())
}

var sweepBufUsages = []uint32{0x80, 2, 0x22, 0}

func sweepTable(ti int, st *stats) {
	types := smallTable(ti)
	combos := []int{0, 1, 2, 3}
	if len(types) == 3 {
		combos = []int{ti % 4}
	}
	for _, cb := range combos {
		c := cfg{integrated: cb&1 != 0, amd: cb&2 != 0, api: 10, types: types, heaps: []int{256 << 20}}
		w, err := newWorld(c, false, 256)
		if err != nil {
			fmt.Fprintf(os.Stderr, "selh: vam.New failed: %v\n", err)
			os.Exit(3)
		}
		h := &hist{c: c, w: w, st: st}
		st.histories++
		variant := ti*4 + cb
		for usage := 0; usage < 5; usage++ {
			for _, hf := range hostCombos {
				variant += 7919
				v := variant * 2654435761
				req := uint32(0)
				if v&3 == 0 {
					req = smallBits[(v>>2)%6]
				}
				pref := uint32(0)
				if v>>5&1 == 0 {
					pref = smallBits[(v>>6)%6] | smallBits[(v>>9)%6]
				}
				tb := uint32(0xffffffff)
				if v>>12&3 == 0 {
					tb = uint32(v>>14) & 7
				}
				ctb := uint32(0)
				if v>>17&3 == 0 {
					ctb = uint32(v>>19) & 7
				}
				a := []uint64{uint64(usage), uint64(hf), uint64(req), uint64(pref), uint64(ctb), uint64(tb)}
				h.exec(op{name: "FIND", a: a})
				bu := uint64(sweepBufUsages[(v>>22)&3])
				h.exec(op{name: "FINDBUF", a: append(append([]uint64(nil), a...), bu)})
				h.exec(op{name: "FINDIMG", a: append(append([]uint64(nil), a...), bu)})
			}
		}
	}
}

func main() {
	if len(os.Args) < 2 {
		fmt.Fprintln(os.Stderr, "usage: selh gen -seed S -n N -ops K -profile P | selh run FILE | selh sweep [-max N]")
		os.Exit(2)
	}
	out := bufio.NewWriterSize(os.Stdout, 1<<20)
	defer out.Flush()
	st := newStats()
	switch os.Args[1] {
	case "gen":
		cmdGen(os.Args[2:], out, st)
	case "run":
		if len(os.Args) < 3 {
			fmt.Fprintln(os.Stderr, "usage: selh run FILE")
			os.Exit(2)
		}
		cmdRun(os.Args[2], out, st)
	case "sweep":
		cmdSweep(os.Args[2:], st)
	default:
		fmt.Fprintln(os.Stderr, "usage: selh gen|run|sweep ...")
		os.Exit(2)
	}
	printSummary(st)
}
