package main

import (
	"encoding/json"
	"flag"
	"fmt"
	"os"
	"path/filepath"
	"sort"
	"strings"
	"time"

	"verif/harness/internal/simvk"
)

type faultSummary struct {
	Seed         uint64         `json:"seed"`
	Profile      string         `json:"profile"`
	Histories    int            `json:"histories"`
	FaultPoints  int            `json:"fault_points_tried"`
	Fired        int            `json:"fault_points_fired"`
	OpFailed     int            `json:"op_returned_error"`
	OpAbsorbed   int            `json:"op_succeeded_despite_fault"`
	OpPanicked   int            `json:"op_panicked"`
	ByCallKind   map[string]int `json:"faults_by_call_kind"`
	ByOp         map[string]int `json:"faults_by_op"`
	Failures     []*failReport  `json:"oracle_failures"`
	Seconds      float64        `json:"seconds"`
	BaselineKeys []string       `json:"failures_also_present_without_faults"`
}

// cmdFaults enumerates fault points (property C10): for every op of every generated history it counts the
// fallible driver calls the op makes without faults (n) and then, for k = 1..n, re-executes the prefix on a
// fresh allocator with call k failing (one-shot and sticky), evaluating every oracle on the faulted step and
// on a follow-up allocation into the same Allocation object(s).
func cmdFaults(args []string) {
	fs := flag.NewFlagSet("faults", flag.ExitOnError)
	seed := fs.Uint64("seed", 1, "PRNG seed")
	n := fs.Int("n", 10, "number of histories")
	ops := fs.Int("ops", 40, "max ops per history")
	prof := fs.String("profile", "basic", "profile")
	out := fs.String("out", "", "output directory for failing traces")
	mode := fs.String("sticky", "both", "one | sticky | both")
	doShrink := fs.Bool("shrink", true, "shrink failing traces")
	fs.Parse(args)
	if *out != "" {
		os.MkdirAll(*out, 0o755)
	}
	start := time.Now()
	master := newRng(*seed)
	sum := &faultSummary{Seed: *seed, Profile: *prof, ByCallKind: map[string]int{}, ByOp: map[string]int{}}
	reports := map[string]*failReport{}
	witness := map[string]*history{}
	baselineSeen := map[string]bool{}

	var stickies []int
	switch *mode {
	case "one":
		stickies = []int{0}
	case "sticky":
		stickies = []int{1}
	default:
		stickies = []int{0, 1}
	}

	for i := 0; i < *n; i++ {
		hr := master.fork()
		cfg := makeCfg(*prof, hr.fork())
		g := newGenerator(*prof, hr.fork(), *ops)
		base := runHistory(cfg, g, *ops+4*maxSlots+100, "")
		sum.Histories++
		baseKeys := base.failKeys()
		for k := range baseKeys {
			baselineSeen[k] = true
		}
		opsList := base.ops()
		frng := hr.fork()
		for j := 1; j < len(opsList); j++ {
			// fallible calls of step j in the fault-free run
			var kinds []simvk.CallKind
			for _, l := range base.steps[j].calls {
				if l.Kind.Fallible() {
					kinds = append(kinds, l.Kind)
				}
			}
			for k := 1; k <= len(kinds); k++ {
				for _, st := range stickies {
					result := 0
					if kinds[k-1] == simvk.CallAlloc {
						result = frng.pick(simvk.ResOutOfDeviceMemory, simvk.ResOutOfDeviceMemory, simvk.ResOutOfHostMemory, simvk.ResTooManyObjects)
					}
					seq := append([]Op(nil), opsList[:j]...)
					seq = append(seq, mkOp("fault", -1, k, result, st), opsList[j])
					// follow-up: the Allocation objects the op targeted must be reusable
					for _, s := range allocTargets(opsList[j]) {
						seq = append(seq, mkOp("alloc", s, 64, 1, allTypesMask(len(cfg.Dev.Types)), 0, 0, 0, 0, 0, -1))
					}
					h := runHistoryTail(cfg, seq, j)
					sum.FaultPoints++
					fstep := &h.steps[j+1]
					fired := h.world.dev.FaultsFired.Load() > 0
					if fired {
						sum.Fired++
						sum.ByCallKind[kinds[k-1].String()]++
						sum.ByOp[opsList[j].Name]++
						switch fstep.res.Kind {
						case "err":
							sum.OpFailed++
						case "ok":
							sum.OpAbsorbed++
						case "panic", "hang":
							sum.OpPanicked++
						}
					}
					for t := j; t < len(h.steps); t++ {
						for _, f := range h.steps[t].fails {
							if _, inBase := baseKeys[f.key()]; inBase {
								continue
							}
							key := "C10/" + f.prop + "." + f.sig
							r := reports[key]
							if r == nil {
								r = &failReport{Property: "C10", Sig: f.prop + "." + f.sig, Example: fmt.Sprintf("fault at call %d (%s, sticky=%d) of op %q: %s", k, kinds[k-1], st, opsList[j].String(), f.detail),
									First: fmt.Sprintf("history %d op %d", i, j)}
								reports[key] = r
								witness[key] = h
							} else if len(h.steps) < len(witness[key].steps) {
								witness[key] = h
							}
							r.Count++
						}
					}
				}
			}
		}
	}
	keys := make([]string, 0, len(reports))
	for k := range reports {
		keys = append(keys, k)
	}
	sort.Strings(keys)
	for _, k := range keys {
		r := reports[k]
		// failures that also occur in some fault-free history are not attributable to the fault
		if baselineSeen[strings.Replace(r.Sig, ".", "/", 1)] {
			continue
		}
		if *out != "" {
			h := witness[k]
			// the witness was executed with oracles only on the tail: re-execute fully so that the trace is complete
			full := runHistory(h.cfg, &listSource{ops: h.ops()}, len(h.steps), "")
			origKey := ""
			for _, f := range full.failKeys() {
				if f.prop+"."+f.sig == r.Sig {
					origKey = f.key()
				}
			}
			if *doShrink && origKey != "" {
				full = shrink(full, origKey)
			}
			path := filepath.Join(*out, fmt.Sprintf("fail-C10-%s.trace", shortHash(r.Sig)))
			full.write(path, "fault-injection witness for C10 ("+r.Sig+")", "sig="+r.Sig)
			r.Trace = path
			r.MinOps = len(full.steps)
		}
		sum.Failures = append(sum.Failures, r)
	}
	for k := range baselineSeen {
		sum.BaselineKeys = append(sum.BaselineKeys, k)
	}
	sort.Strings(sum.BaselineKeys)
	sum.Seconds = time.Since(start).Seconds()
	js, _ := json.MarshalIndent(sum, "", "  ")
	fmt.Println(string(js))
}

// allocTargets lists the Allocation slots an op allocates into.
func allocTargets(op Op) []int {
	switch op.Name {
	case "alloc", "abuf", "aimg":
		return []int{op.arg(0)}
	case "cbuf", "cimg":
		return []int{op.arg(1)}
	case "allocn":
		var out []int
		for i := 0; i < op.arg(1); i++ {
			out = append(out, op.arg(0)+i)
		}
		return out
	}
	return nil
}
