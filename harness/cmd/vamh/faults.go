package main

import "fmt"

func cmdFaults(args []string) { fmt.Println("not yet implemented") }
