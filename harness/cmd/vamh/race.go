package main

import (
	"encoding/json"
	"flag"
	"fmt"
	"os"
	"sort"
	"sync"
	"sync/atomic"
	"time"
	"unsafe"

	"github.com/vkngwrapper/arsenal/vam"
	"github.com/vkngwrapper/core/v3/core1_0"

	"verif/harness/internal/simvk"
)

type raceSummary struct {
	Seed          uint64         `json:"seed"`
	Workers       int            `json:"workers"`
	Seconds       float64        `json:"seconds"`
	Ops           map[string]int `json:"ops"`
	Errors        int            `json:"ops_returning_error"`
	Panics        map[string]int `json:"panics"`
	Violations    map[string]int `json:"valid_usage_violations"`
	Corruptions   int            `json:"own_bytes_corrupted"`
	Hang          bool           `json:"hang"`
	FinalProblems []string       `json:"final_state_problems"`
	LimitRounds   int            `json:"limit_rounds"`
	LimitOverruns []string       `json:"limit_overruns"`
	MapCycles     int            `json:"map_cycles"`
	MapProblems   []string       `json:"map_problems"`
	DriverCalls   map[string]int `json:"driver_calls"`
	Note          string         `json:"note"`
}

// cmdRace is the C12 stress: goroutines allocate/free distinct allocations, map, create/destroy pools and read
// statistics concurrently on one internally synchronized allocator. Build with -race to let the Go race detector
// report data races (they go to stderr; the process exits with status 66 when any was seen).
func cmdRace(args []string) {
	fs := flag.NewFlagSet("race", flag.ExitOnError)
	seed := fs.Uint64("seed", 1, "PRNG seed (per-worker op choices)")
	dur := fs.Duration("dur", 3*time.Second, "duration")
	workers := fs.Int("workers", 8, "goroutines")
	fs.Parse(args)

	cfg := simvk.Config{
		API: 10,
		Heaps: []simvk.HeapCfg{
			{Size: 64 << 20, DeviceLocal: true},
			{Size: 32 << 20},
		},
		Types: []simvk.TypeCfg{
			{Heap: 0, Flags: simvk.PropDeviceLocal},
			{Heap: 1, Flags: simvk.PropHostVisible | simvk.PropHostCoherent},
			{Heap: 1, Flags: simvk.PropHostVisible | simvk.PropHostCached},
			{Heap: 0, Flags: simvk.PropDeviceLocal | simvk.PropHostVisible | simvk.PropHostCoherent},
		},
		Granularity: 64, AtomSize: 64, MaxAllocCount: 1 << 20,
		Log: false, TableSize: 1 << 22, Yield: true,
	}
	dev := simvk.NewDevice(cfg)
	drv := simvk.NewDriver(dev)
	// small blocks so that blocks are created and destroyed all the time
	alloc, err := vam.New(discardLogger, drv.Driver, drv.PhysicalDevice, vam.CreateOptions{})
	if err != nil {
		fmt.Fprintln(os.Stderr, "vam.New:", err)
		os.Exit(1)
	}
	sharedPools := make([]*vam.Pool, 0, 2)
	for _, t := range []int{1, 2} {
		p, _, err := alloc.CreatePool(vam.PoolCreateInfo{MemoryTypeIndex: t, BlockSize: 64 * kib, MaxBlockCount: 0})
		if err != nil {
			fmt.Fprintln(os.Stderr, "CreatePool:", err)
			os.Exit(1)
		}
		sharedPools = append(sharedPools, p)
	}

	sum := &raceSummary{Seed: *seed, Workers: *workers, Ops: map[string]int{}, Panics: map[string]int{}, Violations: map[string]int{}, DriverCalls: map[string]int{}}
	var mu sync.Mutex
	var errCount, corrupt atomic.Int64
	stop := make(chan struct{})
	var wg sync.WaitGroup
	master := newRng(*seed)

	for wi := 0; wi < *workers; wi++ {
		r := master.fork()
		wg.Add(1)
		go func(id int, r *rng) {
			defer wg.Done()
			const n = 48
			slots := make([]vam.Allocation, n)
			live := make([]bool, n)
			mapped := make([]int, n)
			hostVis := func(i int) bool {
				return cfg.Types[slots[i].MemoryTypeIndex()].Flags&simvk.PropHostVisible != 0
			}
			var myPools []*vam.Pool
			opCount := map[string]int{}
			panics := map[string]int{}
			do := func(name string, f func() error) {
				defer func() {
					if p := recover(); p != nil {
						panics[panicSig(p)]++
					}
				}()
				opCount[name]++
				if err := f(); err != nil {
					errCount.Add(1)
				}
			}
			pick := func(want bool) int {
				start := r.intn(n)
				for k := 0; k < n; k++ {
					i := (start + k) % n
					if live[i] == want {
						return i
					}
				}
				return -1
			}
			running := true
			for running {
				select {
				case <-stop:
					running = false
					continue
				default:
				}
				switch x := r.intn(100); {
				case x < 30: // allocate
					i := pick(false)
					if i < 0 {
						continue
					}
					ci := vam.AllocationCreateInfo{UserData: id*1000 + i}
					switch r.intn(5) {
					case 0:
						ci.Pool = sharedPools[r.intn(len(sharedPools))]
					case 1:
						if len(myPools) > 0 {
							ci.Pool = myPools[r.intn(len(myPools))]
						}
					case 2:
						ci.Flags = vam.AllocationCreateMapped
						ci.RequiredFlags = core1_0.MemoryPropertyHostVisible
					case 3:
						ci.RequiredFlags = core1_0.MemoryPropertyHostVisible
					}
					size := r.rangeIncl(16, 48*kib)
					if r.chance(3) {
						size = r.rangeIncl(3<<20, 5<<20) // dedicated
					}
					if ci.Pool != nil {
						size = r.rangeIncl(16, 24*kib)
					}
					mr := core1_0.MemoryRequirements{Size: size, Alignment: 1 << uint(r.intn(9)), MemoryTypeBits: 0xf}
					do("alloc", func() error {
						_, err := alloc.AllocateMemory(&mr, ci, &slots[i])
						if err == nil {
							live[i] = true
						}
						return err
					})
				case x < 55: // free
					i := pick(true)
					if i < 0 || mapped[i] > 0 {
						continue
					}
					do("free", func() error {
						err := slots[i].Free()
						if err == nil {
							live[i] = false
						}
						return err
					})
				case x < 75: // map, touch own bytes, unmap
					i := pick(true)
					if i < 0 || !hostVis(i) {
						continue
					}
					do("map-write-unmap", func() error {
						p, _, err := slots[i].Map()
						if err != nil || p == nil {
							return err
						}
						sz := slots[i].Size()
						if sz > 4096 {
							sz = 4096
						}
						b := unsafe.Slice((*byte)(p), sz)
						for k := range b {
							b[k] = byte(id*17 + i + k)
						}
						for k := range b {
							if b[k] != byte(id*17+i+k) {
								corrupt.Add(1)
								break
							}
						}
						return slots[i].Unmap()
					})
				case x < 80: // flush
					i := pick(true)
					if i < 0 || !hostVis(i) {
						continue
					}
					do("map-flush-unmap", func() error {
						if _, _, err := slots[i].Map(); err != nil {
							return err
						}
						_, err := slots[i].Flush(0, -1)
						if e2 := slots[i].Unmap(); err == nil {
							err = e2
						}
						return err
					})
				case x < 85: // pools
					if len(myPools) < 2 && r.chance(60) {
						do("create-pool", func() error {
							p, _, err := alloc.CreatePool(vam.PoolCreateInfo{MemoryTypeIndex: r.intn(len(cfg.Types)), BlockSize: 32 * kib, MinBlockCount: r.intn(2)})
							if err == nil {
								myPools = append(myPools, p)
							}
							return err
						})
					} else if len(myPools) > 0 {
						// destroy a pool of ours that holds none of our allocations
						p := myPools[len(myPools)-1]
						busy := false
						for k := range slots {
							if live[k] && vam.VerifAllocationInfo(&slots[k]).Pool == p {
								busy = true
							}
						}
						if !busy {
							do("destroy-pool", func() error {
								err := p.Destroy()
								if err == nil {
									myPools = myPools[:len(myPools)-1]
								}
								return err
							})
						}
					}
				case x < 92:
					do("calculate-statistics", func() error {
						var st vam.AllocatorStatistics
						return alloc.CalculateStatistics(&st)
					})
				case x < 96:
					do("build-stats-string", func() error {
						_ = alloc.BuildStatsString(r.chance(50))
						return nil
					})
				default: // slice allocation into consecutive free slots
					start := r.intn(n - 4)
					ok := true
					for k := start; k < start+3; k++ {
						ok = ok && !live[k]
					}
					if !ok {
						continue
					}
					mr := core1_0.MemoryRequirements{Size: r.rangeIncl(64, 8*kib), Alignment: 16, MemoryTypeBits: 0xf}
					do("alloc-slice", func() error {
						_, err := alloc.AllocateMemorySlice(&mr, vam.AllocationCreateInfo{}, slots[start:start+3])
						if err == nil {
							for k := start; k < start+3; k++ {
								live[k] = true
							}
						}
						return err
					})
				}
			}
			// wind down
			for i := range slots {
				if live[i] {
					do("free", func() error {
						err := slots[i].Free()
						if err == nil {
							live[i] = false
						}
						return err
					})
				}
			}
			for _, p := range myPools {
				do("destroy-pool", func() error { return p.Destroy() })
			}
			mu.Lock()
			for k, v := range opCount {
				sum.Ops[k] += v
			}
			for k, v := range panics {
				sum.Panics[k] += v
			}
			mu.Unlock()
		}(wi, r)
	}

	start := time.Now()
	time.Sleep(*dur)
	close(stop)
	doneCh := make(chan struct{})
	go func() { wg.Wait(); close(doneCh) }()
	select {
	case <-doneCh:
	case <-time.After(60 * time.Second):
		sum.Hang = true
	}
	sum.Seconds = time.Since(start).Seconds()
	sum.Errors = int(errCount.Load())
	sum.Corruptions = int(corrupt.Load())

	if !sum.Hang {
		problem := func(f string, a ...any) { sum.FinalProblems = append(sum.FinalProblems, fmt.Sprintf(f, a...)) }
		func() {
			defer func() {
				if p := recover(); p != nil {
					problem("final checks panicked: %s", panicSig(p))
				}
			}()
			// everything was freed: totals must equal device truth
			var st vam.AllocatorStatistics
			if err := alloc.CalculateStatistics(&st); err != nil {
				problem("CalculateStatistics: %v", err)
			}
			if st.Total.AllocationCount != 0 || st.Total.AllocationBytes != 0 {
				problem("statistics report %d allocations / %d bytes after everything was freed", st.Total.AllocationCount, st.Total.AllocationBytes)
			}
			mems := dev.LiveMems()
			if st.Total.BlockCount != len(mems) {
				problem("statistics report %d blocks, device holds %d memory objects", st.Total.BlockCount, len(mems))
			}
			for h := range cfg.Heaps {
				hs, usage, _ := vam.VerifHeapBudget(alloc, h)
				if hs.AllocationCount != 0 || hs.AllocationBytes != 0 {
					problem("heap %d budget reports %d allocations / %d bytes after everything was freed", h, hs.AllocationCount, hs.AllocationBytes)
				}
				if hs.BlockBytes != dev.HeapBytes(h) || usage != dev.HeapBytes(h) {
					problem("heap %d budget reports %d block bytes (usage %d), device holds %d", h, hs.BlockBytes, usage, dev.HeapBytes(h))
				}
			}
			if n := vam.VerifDeviceMemoryCount(alloc); n != len(mems) {
				problem("allocator counts %d device memory objects, device holds %d", n, len(mems))
			}
			for _, p := range sharedPools {
				if err := p.Destroy(); err != nil {
					problem("shared pool Destroy: %v", err)
				}
			}
			if err := alloc.Destroy(); err != nil {
				problem("Allocator.Destroy: %v", err)
			}
			if n := dev.LiveMemCount(); n != 0 {
				problem("%d device memory objects remain after Destroy", n)
			}
			if n := dev.MappedCount(); n != 0 {
				problem("%d mappings remain after Destroy", n)
			}
		}()
	}
	raceLimits(sum, *dur/3)
	raceMaps(sum, *dur/3)
	for _, v := range dev.TakeViolations() {
		sum.Violations[v.Code]++
	}
	if n := dev.ViolationCount(); n > 0 {
		sum.Violations["total"] = int(n)
	}
	for k := 0; k < int(simvk.NumCallKinds); k++ {
		sum.DriverCalls[simvk.CallKind(k).String()] = int(dev.CallCounts[k].Load())
	}
	sum.Note = "data races are reported by the Go race detector on stderr (build with -race); exit status 66 means at least one race"
	keys := make([]string, 0)
	for k := range sum.Panics {
		keys = append(keys, k)
	}
	sort.Strings(keys)
	js, _ := json.MarshalIndent(sum, "", "  ")
	fmt.Println(string(js))
	if sum.Hang {
		os.Exit(4)
	}
}

// raceLimits is the concurrent half of C11/C12's "totals equal those of some sequential execution": an
// allocator whose heap 0 is limited to 3 MiB; every round 16 goroutines request one dedicated 1 MiB
// allocation at the same moment.  In every sequential order exactly 3 succeed; more than 3 successes, or
// device bytes above the limit at any moment, is an overrun.
func raceLimits(sum *raceSummary, dur time.Duration) {
	const mib = 1 << 20
	cfg := simvk.Config{
		API:         10,
		Heaps:       []simvk.HeapCfg{{Size: 64 * mib, DeviceLocal: true}},
		Types:       []simvk.TypeCfg{{Heap: 0, Flags: simvk.PropDeviceLocal}, {Heap: 0, Flags: simvk.PropDeviceLocal | simvk.PropHostVisible | simvk.PropHostCoherent}},
		Granularity: 1, AtomSize: 1, MaxAllocCount: 1 << 20, Log: false, TableSize: 1 << 16,
	}
	dev := simvk.NewDevice(cfg)
	drv := simvk.NewDriver(dev)
	limit := 3 * mib
	alloc, err := vam.New(discardLogger, drv.Driver, drv.PhysicalDevice, vam.CreateOptions{HeapSizeLimits: []int{limit}})
	if err != nil {
		sum.LimitOverruns = append(sum.LimitOverruns, "vam.New with HeapSizeLimits: "+err.Error())
		return
	}
	const g = 16
	end := time.Now().Add(dur)
	for time.Now().Before(end) && len(sum.LimitOverruns) < 3 {
		sum.LimitRounds++
		slots := make([]vam.Allocation, g)
		okv := make([]bool, g)
		var peak atomic.Int64
		startCh := make(chan struct{})
		var wg sync.WaitGroup
		for i := 0; i < g; i++ {
			wg.Add(1)
			go func(i int) {
				defer wg.Done()
				defer func() { _ = recover() }()
				<-startCh
				mr := core1_0.MemoryRequirements{Size: mib, Alignment: 256, MemoryTypeBits: uint32(1+i%2*2) | 1}
				_, err := alloc.AllocateMemory(&mr, vam.AllocationCreateInfo{Flags: vam.AllocationCreateDedicatedMemory}, &slots[i])
				okv[i] = err == nil
				if b := int64(dev.HeapBytes(0)); b > peak.Load() {
					peak.Store(b)
				}
			}(i)
		}
		close(startCh)
		wg.Wait()
		n := 0
		for i := range okv {
			if okv[i] {
				n++
			}
		}
		hs, _, _ := vam.VerifHeapBudget(alloc, 0)
		if n > 3 || int(peak.Load()) > limit || dev.HeapBytes(0) > limit || hs.BlockBytes > limit {
			sum.LimitOverruns = append(sum.LimitOverruns, fmt.Sprintf("round %d: %d of %d concurrent 1 MiB dedicated allocations succeeded under a 3 MiB heap limit; device holds %d bytes (peak %d), allocator counts %d",
				sum.LimitRounds, n, g, dev.HeapBytes(0), peak.Load(), hs.BlockBytes))
		}
		for i := range slots {
			if okv[i] {
				_ = slots[i].Free()
			}
		}
	}
	_ = alloc.Destroy()
}

// raceMaps: many goroutines map and unmap DISTINCT allocations that share blocks, with allocation/free traffic that
// keeps the mapping hysteresis off, so that blocks go from one map reference to none and back all the time.  In every
// sequential order the driver sees vkMapMemory / vkUnmapMemory on a memory object strictly alternate; the simulated
// device reports a map of mapped memory and an unmap of unmapped memory; nothing may stay mapped after Destroy.
func raceMaps(sum *raceSummary, dur time.Duration) {
	cfg := simvk.Config{
		API:         10,
		Heaps:       []simvk.HeapCfg{{Size: 64 << 20}},
		Types:       []simvk.TypeCfg{{Heap: 0, Flags: simvk.PropHostVisible | simvk.PropHostCoherent}},
		Granularity: 1, AtomSize: 1, MaxAllocCount: 1 << 20, Log: false, TableSize: 1 << 18, Yield: true,
	}
	dev := simvk.NewDevice(cfg)
	drv := simvk.NewDriver(dev)
	alloc, err := vam.New(discardLogger, drv.Driver, drv.PhysicalDevice, vam.CreateOptions{})
	if err != nil {
		sum.MapProblems = append(sum.MapProblems, "vam.New: "+err.Error())
		return
	}
	const pools, perPool = 4, 3
	var ps []*vam.Pool
	for i := 0; i < pools; i++ {
		p, _, err := alloc.CreatePool(vam.PoolCreateInfo{MemoryTypeIndex: 0, BlockSize: 64 * kib})
		if err != nil {
			sum.MapProblems = append(sum.MapProblems, "CreatePool: "+err.Error())
			return
		}
		ps = append(ps, p)
	}
	var cycles, bad atomic.Int64
	stop := make(chan struct{})
	var wg sync.WaitGroup
	for w := 0; w < pools*perPool; w++ {
		wg.Add(1)
		go func(w int) {
			defer wg.Done()
			defer func() {
				if p := recover(); p != nil {
					bad.Add(1)
				}
			}()
			pool := ps[w%pools]
			mr := core1_0.MemoryRequirements{Size: 256, Alignment: 16, MemoryTypeBits: 1}
			for {
				select {
				case <-stop:
					return
				default:
				}
				var a, b vam.Allocation
				if _, err := alloc.AllocateMemory(&mr, vam.AllocationCreateInfo{Pool: pool}, &a); err != nil {
					continue
				}
				if _, err := alloc.AllocateMemory(&mr, vam.AllocationCreateInfo{Pool: pool}, &b); err != nil {
					_ = a.Free()
					continue
				}
				if p, _, err := a.Map(); err == nil && p != nil {
					bs := unsafe.Slice((*byte)(p), 16)
					for k := range bs {
						bs[k] = byte(w)
					}
					_ = a.Unmap()
				}
				_ = a.Free()
				_ = b.Free()
				cycles.Add(1)
			}
		}(w)
	}
	time.Sleep(dur)
	close(stop)
	wg.Wait()
	sum.MapCycles = int(cycles.Load())
	if n := bad.Load(); n > 0 {
		sum.MapProblems = append(sum.MapProblems, fmt.Sprintf("%d workers panicked", n))
	}
	for _, v := range dev.TakeViolations() {
		if len(sum.MapProblems) < 4 {
			sum.MapProblems = append(sum.MapProblems, "driver: "+v.String())
		}
	}
	// (a block may legitimately stay mapped without references: the mapping hysteresis keeps an extra mapping after
	// enough map/unmap traffic; whether it is on depends on the interleaving, so it is not checked here)
	for _, p := range ps {
		_ = p.Destroy()
	}
	_ = alloc.Destroy()
	if n := dev.MappedCount(); n != 0 {
		sum.MapProblems = append(sum.MapProblems, fmt.Sprintf("%d memory objects are still mapped after the allocator was destroyed", n))
	}
}

// cmdRaceSum summarizes Go race detector output (stderr of `vamh race` built with -race): one line per distinct
// pair of source locations, most frequent first.
func cmdRaceSum(args []string) {
	if len(args) != 1 {
		usage()
	}
	data, err := os.ReadFile(args[0])
	if err != nil {
		fmt.Fprintln(os.Stderr, err)
		os.Exit(1)
	}
	counts := map[string]int{}
	lines := splitLines(string(data))
	for i := 0; i < len(lines); i++ {
		if !hasPrefixTrim(lines[i], "WARNING: DATA RACE") {
			continue
		}
		var frames []string
		for j := i + 1; j < len(lines) && len(frames) < 2 && !hasPrefixTrim(lines[j], "=================="); j++ {
			l := trim(lines[j])
			for _, k := range []string{"Read at", "Write at", "Previous read at", "Previous write at", "Atomic"} {
				if len(l) >= len(k) && l[:len(k)] == k && j+2 < len(lines) {
					fn := trim(lines[j+1])
					loc := trim(lines[j+2])
					if sp := indexByte(loc, ' '); sp > 0 {
						loc = loc[:sp]
					}
					if p := indexByte(fn, '('); p > 0 && fn[len(fn)-1] == ')' {
						fn = fn[:len(fn)-2]
					}
					frames = append(frames, k[:len(k)-3]+" "+loc+" ("+fn+")")
					break
				}
			}
		}
		if len(frames) == 2 {
			counts[frames[0]+"  <->  "+frames[1]]++
		}
	}
	type kv struct {
		k string
		v int
	}
	var all []kv
	for k, v := range counts {
		all = append(all, kv{k, v})
	}
	sort.Slice(all, func(i, j int) bool { return all[i].v > all[j].v || all[i].v == all[j].v && all[i].k < all[j].k })
	fmt.Printf("%d distinct racing location pairs\n", len(all))
	for _, e := range all {
		fmt.Printf("%6d  %s\n", e.v, e.k)
	}
}

func splitLines(s string) []string {
	var out []string
	start := 0
	for i := 0; i < len(s); i++ {
		if s[i] == '\n' {
			out = append(out, s[start:i])
			start = i + 1
		}
	}
	return append(out, s[start:])
}

func trim(s string) string {
	for len(s) > 0 && (s[0] == ' ' || s[0] == '\t') {
		s = s[1:]
	}
	for len(s) > 0 && (s[len(s)-1] == ' ' || s[len(s)-1] == '\t' || s[len(s)-1] == '\r') {
		s = s[:len(s)-1]
	}
	return s
}

func hasPrefixTrim(s, p string) bool {
	s = trim(s)
	return len(s) >= len(p) && s[:len(p)] == p
}

func indexByte(s string, b byte) int {
	for i := 0; i < len(s); i++ {
		if s[i] == b {
			return i
		}
	}
	return -1
}
