package main

import "fmt"

func cmdRace(args []string) { fmt.Println("not yet implemented") }
