package main

import (
	"fmt"
	"strings"

	"github.com/vkngwrapper/arsenal/memutils"
	"github.com/vkngwrapper/arsenal/vam"

	"verif/harness/internal/simvk"
)

type allocObs struct {
	slot  int // user slot, or -1 for a defragmentation temporary
	d, di int // defrag slot / move index for temporaries
	mem   int
	off   int
	size  int
	align int
	typ   int
	pool  int
	info  vam.VerifAllocation
	maps  int // outstanding user Map() calls + 1 if persistently mapped
}

type listObs struct {
	pool   int // -1 for a default list
	typ    int
	info   vam.VerifBlockListInfo
	blocks []vam.VerifBlock
	ded    int
}

type heapObs struct {
	st     memutils.Statistics
	usage  int
	budget int
}

type snapshot struct {
	allocs   []allocObs // live user allocations, by slot
	temps    []allocObs
	lost     []int // slots the harness believes live but the Allocation object is not allocated
	zombies  []int // slots the harness believes dead but the Allocation object is allocated
	lists    []listObs
	heaps    []heapObs
	stats    vam.AllocatorStatistics
	statsErr bool
	validate error
	poolIDs  map[int]int
	devMems  []*simvk.Mem
	lines    []string
	stateKey string
	obsPanic string
}

func b2i(b bool) int {
	if b {
		return 1
	}
	return 0
}

func statLine(tag string, idx int, s *memutils.DetailedStatistics) string {
	amin, amax, umin, umax := s.AllocationSizeMin, s.AllocationSizeMax, s.UnusedRangeSizeMin, s.UnusedRangeSizeMax
	if s.AllocationCount == 0 {
		amin, amax = 0, 0
	}
	if s.UnusedRangeCount == 0 {
		umin, umax = 0, 0
	}
	body := fmt.Sprintf("%d %d %d %d %d %d %d %d %d", s.BlockCount, s.AllocationCount, s.BlockBytes, s.AllocationBytes, s.UnusedRangeCount, amin, amax, umin, umax)
	if idx < 0 {
		return tag + " " + body
	}
	return fmt.Sprintf("%s %d %s", tag, idx, body)
}

func (w *World) observeAlloc(a *vam.Allocation, slot int) allocObs {
	o := allocObs{slot: slot, info: vam.VerifAllocationInfo(a)}
	o.mem = simvk.MemID(a.Memory())
	o.off = a.FindOffset()
	o.size = a.Size()
	o.align = int(a.Alignment())
	o.typ = a.MemoryTypeIndex()
	o.pool = w.poolSlotOf(o.info.Pool)
	if o.info.PersistentMap {
		o.maps = 1
	}
	if slot >= 0 {
		o.maps += w.sinfo[slot].userMaps
	}
	return o
}

// observe collects the observable state of the real allocator and the simulated device.
func (w *World) observe() (snap *snapshot) {
	snap = &snapshot{poolIDs: map[int]int{}}
	defer func() {
		if r := recover(); r != nil {
			snap.obsPanic = panicSig(r)
			snap.lines = append(snap.lines, "OBSPANIC")
			snap.stateKey = strings.Join(snap.lines, "\n")
		}
	}()
	var L []string
	if w.alloc != nil && !w.poisoned {
		for s := range w.sinfo {
			si := &w.sinfo[s]
			info := vam.VerifAllocationInfo(&w.slots[s])
			switch {
			case si.live && !info.Allocated:
				snap.lost = append(snap.lost, s)
			case !si.live && info.Allocated:
				snap.zombies = append(snap.zombies, s)
			case si.live:
				o := w.observeAlloc(&w.slots[s], s)
				snap.allocs = append(snap.allocs, o)
				L = append(L, fmt.Sprintf("A %d %d %d %d %d %d %d %d %d %d %d", s, o.mem, o.off, o.size, o.align, o.typ, o.info.SuballocationType,
					si.userMaps, b2i(o.info.PersistentMap), b2i(o.info.Type == 2), o.pool))
			}
		}
		for d := range w.defrag {
			di := &w.defrag[d]
			if !di.inPass {
				continue
			}
			for i := range di.raw {
				t := di.raw[i].DstTmpAllocation
				if t == nil || !vam.VerifAllocationInfo(t).Allocated {
					continue
				}
				o := w.observeAlloc(t, -1)
				o.d, o.di = d, i
				snap.temps = append(snap.temps, o)
				L = append(L, fmt.Sprintf("T %d %d %d %d %d %d", d, i, o.mem, o.off, o.size, o.typ))
			}
		}
	}
	snap.devMems = w.dev.LiveMems()
	for _, m := range snap.devMems {
		L = append(L, fmt.Sprintf("DEV %d %d %d %d", m.ID, m.Type, m.Size, b2i(m.Mapped())))
	}
	for r := range w.res {
		ri := &w.res[r]
		if !ri.live {
			continue
		}
		dr := w.dev.ResByID(ri.id)
		bm, bo := 0, 0
		if dr != nil && dr.Bound() {
			bm, bo = dr.BoundTo, dr.BoundAt
		}
		L = append(L, fmt.Sprintf("RES %d %d %d %d %d", r, ri.id, int(ri.kind), bm, bo))
	}
	if w.alloc != nil && !w.poisoned {
		for h := range w.cfg.Dev.Heaps {
			st, usage, budget := vam.VerifHeapBudget(w.alloc, h)
			snap.heaps = append(snap.heaps, heapObs{st: st, usage: usage, budget: budget})
			L = append(L, fmt.Sprintf("HEAP %d %d %d %d %d %d %d", h, st.BlockCount, st.BlockBytes, st.AllocationCount, st.AllocationBytes, usage, budget))
		}
		if err := w.alloc.CalculateStatistics(&snap.stats); err != nil {
			snap.statsErr = true
		}
		for t := range w.cfg.Dev.Types {
			L = append(L, statLine("STATT", t, &snap.stats.MemoryTypes[t]))
		}
		for h := range w.cfg.Dev.Heaps {
			L = append(L, statLine("STATH", h, &snap.stats.MemoryHeaps[h]))
		}
		L = append(L, statLine("STATA", -1, &snap.stats.Total))
		for p := range w.pools {
			if w.pools[p].live {
				id := w.pools[p].p.ID()
				snap.poolIDs[p] = id
				L = append(L, fmt.Sprintf("POOL %d %d %d", p, id, w.pools[p].typ))
			}
		}
		addList := func(kind, idx int, lo listObs) {
			snap.lists = append(snap.lists, lo)
			L = append(L, fmt.Sprintf("LIST %d %d %d %d", kind, idx, len(lo.blocks), lo.ded))
			for i, b := range lo.blocks {
				L = append(L, fmt.Sprintf("BLK %d %d %d %d %d %d %d %d %d %d %d %d", kind, idx, i, b.ID, int(b.MemoryHandle), b.Size, b2i(b.Empty),
					b.AllocCount, b.SumFreeSize, b.MapReferences, b2i(b.ExtraMapping), b2i(b.Mapped)))
			}
		}
		if !w.destroyed {
			for t := range w.cfg.Dev.Types {
				info, blocks, ok := vam.VerifDefaultBlockList(w.alloc, t)
				if !ok {
					continue
				}
				addList(0, t, listObs{pool: -1, typ: t, info: info, blocks: blocks, ded: vam.VerifDedicatedCount(w.alloc, t)})
			}
			for p := range w.pools {
				if !w.pools[p].live {
					continue
				}
				info, blocks := vam.VerifPoolBlockList(w.pools[p].p)
				addList(1, p, listObs{pool: p, typ: info.MemoryTypeIndex, info: info, blocks: blocks, ded: vam.VerifPoolDedicatedCount(w.pools[p].p)})
			}
			snap.validate = vam.VerifValidateBlockLists(w.alloc)
		}
	}
	snap.lines = L
	snap.stateKey = strings.Join(L, "\n")
	return snap
}
