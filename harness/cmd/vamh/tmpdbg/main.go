package main

import (
	"fmt"

	"github.com/vkngwrapper/arsenal/vam"
)

func main() {
	defer func() { fmt.Println("recovered:", recover()) }()
	h := vam.VerifNewGranularityHandler(512, 2048)
	h.AllocRegions(5, 0, 603)
	h.AllocRegions(5, 603, 512)
	h.AllocRegions(5, 1115, 933)
	h.FreeRegions(603, 512)
	fmt.Println(vam.VerifGranularityRegions(h))
	off, c := h.CheckConflictAndAlignUp(603, 86, 603, 512, 2)
	fmt.Println(off, c)
}
