package main

import (
	"sort"

	"verif/harness/internal/simvk"
)

const kib = 1024

// typePalette: property flag combinations used to build memory types.
var typePalette = []uint32{
	simvk.PropDeviceLocal,
	simvk.PropHostVisible | simvk.PropHostCoherent,
	simvk.PropHostVisible | simvk.PropHostCoherent | simvk.PropHostCached,
	simvk.PropHostVisible,                        // non-coherent
	simvk.PropHostVisible | simvk.PropHostCached, // non-coherent cached
	simvk.PropDeviceLocal | simvk.PropHostVisible | simvk.PropHostCoherent,
	0,
	simvk.PropDeviceLocal | simvk.PropLazilyAllocated,
}

var hostPalette = []uint32{
	simvk.PropHostVisible | simvk.PropHostCoherent,
	simvk.PropHostVisible,
	simvk.PropHostVisible | simvk.PropHostCached,
	simvk.PropHostVisible | simvk.PropHostCoherent | simvk.PropHostCached,
	simvk.PropDeviceLocal | simvk.PropHostVisible,
}

// generator produces ops online, looking at the world's state.
type generator struct {
	r         *rng
	prof      string
	maxOps    int
	emitted   int
	started   bool
	finish    bool // in teardown phase
	finStage  int
	sloppy    bool // teardown deliberately leaves things behind
	sloppyDed bool
	nextVer   int
	weights   []wop
	blockMin  int // smallest preferred block size of the device
	script    []Op
	// defrag driving state
	dMovesLeft int
	ignBlock   int // core3: memory id of the block that got ignored moves in the current pass, or -1
	keep       map[int]bool
	poolTried  map[int]bool
}

type wop struct {
	name string
	w    int
}

func pow2(r *rng, loExp, hiExp int) int { return 1 << uint(r.rangeIncl(loExp, hiExp)) }

func allTypesMask(n int) int { return (1 << uint(n)) - 1 }

// ---- device configurations ----

func baseCfg(r *rng, nheapsMax, ntypesMax int, palette []uint32) WorldCfg {
	var c WorldCfg
	d := &c.Dev
	d.API = 10
	nh := r.rangeIncl(1, nheapsMax)
	for i := 0; i < nh; i++ {
		block := r.pick(16, 32, 64, 128, 256) * kib
		d.Heaps = append(d.Heaps, simvk.HeapCfg{Size: block * 8, DeviceLocal: i == 0})
	}
	nt := r.rangeIncl(1, ntypesMax)
	for i := 0; i < nt; i++ {
		h := i % nh
		if i >= nh {
			h = r.intn(nh)
		}
		d.Types = append(d.Types, simvk.TypeCfg{Heap: h, Flags: palette[r.intn(len(palette))]})
	}
	d.Granularity = r.pick(1, 1, 1, 16, 64)
	d.AtomSize = r.pick(1, 1, 4, 64, 256)
	d.MaxAllocCount = 4096
	d.Integrated = r.chance(30)
	c.ExtSync = r.chance(50)
	return c
}

func makeCfg(prof string, r *rng) WorldCfg {
	switch prof {
	case "map":
		c := baseCfg(r, 2, 4, hostPalette)
		c.Dev.AtomSize = pow2(r, 0, 8)
		if r.chance(40) {
			// one memory type that must never be mapped
			c.Dev.Types = append(c.Dev.Types, simvk.TypeCfg{Heap: 0, Flags: simvk.PropDeviceLocal})
		}
		return c
	case "pools":
		c := baseCfg(r, 2, 4, typePalette[:6])
		return c
	case "limits":
		c := baseCfg(r, 2, 3, typePalette[:6])
		c.Dev.MaxAllocCount = r.pick(3, 5, 8, 12, 4096)
		c.HeapLimits = make([]int, len(c.Dev.Heaps))
		for i, h := range c.Dev.Heaps {
			block := h.Size / 8
			switch r.intn(4) {
			case 0:
				c.HeapLimits[i] = 0
			default:
				c.HeapLimits[i] = r.rangeIncl(1, 6)*block + r.pick(-1, 0, 1)
			}
		}
		if r.chance(35) {
			// API 1.1 with the memory budget extension; keep #types <= #heaps (see defect: external memory table)
			c.Dev.API = r.pick(11, 12)
			if len(c.Dev.Types) > len(c.Dev.Heaps) {
				c.Dev.Types = c.Dev.Types[:len(c.Dev.Heaps)]
			}
			c.Dev.BudgetExt = r.chance(70)
			for _, h := range c.Dev.Heaps {
				c.Dev.HeapBudget = append(c.Dev.HeapBudget, h.Size*r.pick(3, 5, 8, 10)/10)
				c.Dev.HeapOtherUsage = append(c.Dev.HeapOtherUsage, h.Size*r.pick(0, 0, 1, 2)/10)
			}
		}
		return c
	case "defrag":
		c := baseCfg(r, 2, 3, typePalette[:6])
		c.Dev.Granularity = r.pick(1, 1, 1, 64)
		return c
	case "gran":
		c := baseCfg(r, 2, 3, typePalette[:6])
		c.Dev.Granularity = r.pick(1, 16, 256, 512, 1024, 4096, 65536)
		if r.chance(30) {
			c.Dev.API = 11
			if len(c.Dev.Types) > len(c.Dev.Heaps) {
				c.Dev.Types = c.Dev.Types[:len(c.Dev.Heaps)]
			}
		}
		return c
	case "malformed":
		c := baseCfg(r, 3, 6, typePalette)
		if r.chance(15) {
			// a device-coherent (AMD) type is excluded from the allocator's global mask
			c.Dev.Types[r.intn(len(c.Dev.Types))].Flags |= simvk.PropDeviceCoherent
		}
		if r.chance(25) {
			c.Dev.API = r.pick(11, 12) // may have more types than heaps
		}
		return c
	case "teardown":
		c := baseCfg(r, 2, 4, typePalette[:6])
		if r.chance(10) {
			c.Dev.Types[r.intn(len(c.Dev.Types))].Flags |= simvk.PropDeviceCoherent
		}
		return c
	case "core", "core2", "core3", "core4", "core5":
		return coreCfg(prof, r)
	}
	return baseCfg(r, 3, 6, typePalette[:7])
}

func newGenerator(prof string, r *rng, maxOps int) *generator {
	g := &generator{r: r, prof: prof, maxOps: maxOps, keep: map[int]bool{}, poolTried: map[int]bool{}}
	g.sloppy = r.chance(30)
	switch prof {
	case "basic":
		g.weights = []wop{{"alloc", 40}, {"allocn", 6}, {"free", 30}, {"freen", 3}, {"stats", 1}, {"rw", 4}}
	case "map":
		g.weights = []wop{{"alloc", 22}, {"allocm", 8}, {"free", 18}, {"map", 16}, {"unmap", 16}, {"rw", 10}, {"flush", 8}, {"inval", 4}, {"allocn", 2}}
	case "pools":
		g.weights = []wop{{"mkpool", 8}, {"rmpool", 3}, {"palloc", 40}, {"alloc", 8}, {"free", 30}, {"rw", 4}, {"allocn", 3}, {"freen", 2}, {"stats", 1}}
	case "limits":
		g.weights = []wop{{"alloc", 30}, {"lalloc", 25}, {"free", 25}, {"allocn", 6}, {"mkpool", 3}, {"palloc", 8}, {"stats", 1}}
	case "defrag":
		g.weights = []wop{{"alloc", 10}, {"palloc", 20}, {"free", 22}, {"rw", 8}, {"mkpool", 3}, {"defrag", 30}, {"map", 3}, {"unmap", 3}, {"allocm", 3}}
	case "gran":
		g.weights = []wop{{"cbuf", 25}, {"cimg", 25}, {"dres", 25}, {"alloc", 8}, {"free", 8}, {"rawres", 6}, {"ares", 6}, {"bind", 6}, {"rdres", 3}, {"mkpool", 2}, {"rw", 2}, {"alias", 6}}
	case "malformed":
		g.weights = []wop{{"bad", 45}, {"alloc", 15}, {"palloc", 8}, {"free", 12}, {"mkpool", 4}, {"map", 3}, {"unmap", 3}, {"flush", 4}, {"defrag", 4}, {"stats", 1}, {"alias", 5}, {"rdres", 2}}
	case "teardown":
		g.weights = []wop{{"alloc", 30}, {"palloc", 15}, {"free", 20}, {"mkpool", 6}, {"rmpool", 4}, {"cbuf", 5}, {"dres", 4}, {"map", 4}, {"allocm", 4}, {"destroy", 2}, {"rmpoolbusy", 2}, {"lalloc", 10}}
	case "core":
		g.weights = []wop{{"alloc", 24}, {"lalloc", 12}, {"allocm", 6}, {"palloct", 14}, {"allocn", 5}, {"free", 22}, {"freen", 3},
			{"map", 6}, {"unmap", 6}, {"rw", 3}, {"mkpoolt", 4}, {"rmpool", 2}, {"stats", 1}, {"fault", 3}}
	case "core2":
		g.weights = []wop{{"alloc", 18}, {"lalloc", 10}, {"allocm", 8}, {"palloc", 18}, {"allocn", 5}, {"free", 22}, {"freen", 3},
			{"map", 6}, {"unmap", 6}, {"rw", 3}, {"flush", 5}, {"inval", 3}, {"mkpool", 5}, {"rmpool", 2}, {"stats", 2}, {"fault", 3}}
	case "core3":
		g.weights = []wop{{"alloc", 12}, {"palloc", 14}, {"allocm", 4}, {"free", 20}, {"rw", 5}, {"map", 3}, {"unmap", 3}, {"mkpool", 3},
			{"rmpool", 1}, {"defragc", 24}, {"cbuf", 8}, {"cimg", 8}, {"dres", 10}, {"rawres", 4}, {"ares", 4}, {"bind", 4}, {"rdres", 2},
			{"allocn", 2}, {"freen", 1}, {"stats", 1}, {"faultc", 2}, {"flush", 2}}
	case "core4": // core3 with driver faults while a defragmentation run is active (failing commits inside BeginDefragPass)
		g.weights = []wop{{"alloc", 12}, {"palloc", 14}, {"allocm", 8}, {"free", 20}, {"rw", 5}, {"map", 3}, {"unmap", 3}, {"mkpool", 3},
			{"rmpool", 1}, {"defragc", 24}, {"cbuf", 6}, {"cimg", 6}, {"dres", 8}, {"rawres", 3}, {"ares", 3}, {"bind", 3}, {"rdres", 2},
			{"allocn", 2}, {"freen", 1}, {"stats", 1}, {"fault", 3}, {"flush", 2}}
	case "core5": // defragmentation on devices with bufferImageGranularity > 1: buffers, linear and optimal images share the blocks
		g.weights = []wop{{"alloc", 8}, {"palloc", 8}, {"allocm", 4}, {"free", 18}, {"rw", 4}, {"map", 2}, {"unmap", 2}, {"mkpool", 3},
			{"rmpool", 1}, {"defragc", 28}, {"cbuf", 16}, {"cimg", 18}, {"dres", 12}, {"rawres", 3}, {"ares", 5}, {"bind", 3}, {"rdres", 2},
			{"allocn", 2}, {"freen", 1}, {"stats", 1}, {"fault", 2}, {"flush", 1}}
	default:
		g.prof = "basic"
		g.weights = []wop{{"alloc", 40}, {"free", 30}}
	}
	return g
}

// ---- helpers looking at world state ----

func (g *generator) liveSlots(w *World, pred func(int) bool) []int {
	var out []int
	for s := range w.sinfo {
		if w.sinfo[s].live && (pred == nil || pred(s)) {
			out = append(out, s)
		}
	}
	return out
}

func (g *generator) freeSlot(w *World) int {
	start := g.r.intn(maxSlots)
	for i := 0; i < maxSlots; i++ {
		s := (start + i) % maxSlots
		if !w.sinfo[s].live {
			return s
		}
	}
	return -1
}

// freeRun finds n consecutive free slots.
func (g *generator) freeRun(w *World, n int) int {
	start := g.r.intn(maxSlots)
	for i := 0; i < maxSlots; i++ {
		s := (start + i) % maxSlots
		if s+n > maxSlots {
			continue
		}
		ok := true
		for j := s; j < s+n; j++ {
			ok = ok && !w.sinfo[j].live
		}
		if ok {
			return s
		}
	}
	return -1
}

func (g *generator) livePools(w *World) []int {
	var out []int
	for p := range w.pools {
		if w.pools[p].live {
			out = append(out, p)
		}
	}
	return out
}

func (g *generator) pickOf(xs []int) int {
	if len(xs) == 0 {
		return -1
	}
	return xs[g.r.intn(len(xs))]
}

func (g *generator) blockSizeOfType(w *World, t int) int {
	return w.cfg.Dev.Heaps[w.cfg.Dev.Types[t].Heap].Size / 8
}

func (g *generator) minBlock(w *World) int {
	if g.blockMin == 0 {
		g.blockMin = 1 << 40
		for _, h := range w.cfg.Dev.Heaps {
			if h.Size/8 < g.blockMin {
				g.blockMin = h.Size / 8
			}
		}
	}
	return g.blockMin
}

func (g *generator) allocSize(bs int) int {
	r := g.r
	switch x := r.intn(100); {
	case x < 45:
		return r.rangeIncl(1, 1024)
	case x < 75:
		return r.rangeIncl(1024, max(1025, bs/8))
	case x < 93:
		return r.rangeIncl(max(1, bs/8), max(2, bs/2))
	default:
		return r.rangeIncl(bs/2+1, bs+bs/4)
	}
}

func (g *generator) strategyBits() int {
	switch g.r.intn(8) {
	case 0:
		return fStratMinMemory
	case 1:
		return fStratMinTime
	case 2:
		return fStratMinOffset
	}
	return 0
}

// genAlloc builds a plain AllocateMemory op.
func (g *generator) genAlloc(w *World, pool int, extraFlags int) (Op, bool) {
	r := g.r
	a := g.freeSlot(w)
	if a < 0 {
		return Op{}, false
	}
	nt := len(w.cfg.Dev.Types)
	bs := g.minBlock(w)
	if pool >= 0 {
		bs = w.pools[pool].blockSize
		if bs == 0 {
			bs = g.blockSizeOfType(w, w.pools[pool].typ)
		}
	}
	size := g.allocSize(bs)
	if pool >= 0 && w.pools[pool].blockSize > 0 && r.chance(85) {
		size = r.rangeIncl(1, max(1, bs/3))
	}
	align := pow2(r, 0, 8)
	if r.chance(8) {
		align = pow2(r, 9, 12)
	}
	reqTB := allTypesMask(nt)
	if r.chance(25) {
		reqTB = r.rangeIncl(1, allTypesMask(nt))
	}
	ctb := 0
	if r.chance(10) {
		ctb = r.rangeIncl(1, allTypesMask(nt))
	}
	usage, flags, req, pref := uUnknown, g.strategyBits()|extraFlags, 0, 0
	switch r.intn(10) {
	case 0, 1:
		usage = r.pick(uAuto, uAutoPreferDevice, uAutoPreferHost)
		switch r.intn(4) {
		case 0:
			flags |= fHostRandom
		case 1:
			flags |= fHostSeqWrite
		case 2:
			flags |= fHostSeqWrite | fHostAllowTransfer
		}
	case 2, 3:
		req = int(r.pick(simvk.PropHostVisible, simvk.PropDeviceLocal, simvk.PropHostVisible|simvk.PropHostCoherent))
	case 4:
		pref = int(r.pick(simvk.PropHostCached, simvk.PropDeviceLocal, simvk.PropHostVisible))
	}
	if flags&fMapped != 0 && usage >= uAuto && flags&(fHostRandom|fHostSeqWrite) == 0 {
		flags |= fHostRandom
	}
	return mkOp("alloc", a, size, align, reqTB, usage, flags, req, pref, ctb, pool), true
}

func (g *generator) genAllocN(w *World) (Op, bool) {
	n := g.r.rangeIncl(2, 6)
	a0 := g.freeRun(w, n)
	if a0 < 0 {
		return Op{}, false
	}
	pool := -1
	if ps := g.livePools(w); len(ps) > 0 && g.r.chance(40) {
		pool = g.pickOf(ps)
	}
	op, ok := g.genAlloc(w, pool, 0)
	if !ok {
		return Op{}, false
	}
	A := op.Args
	return mkOp("allocn", a0, n, A[1], A[2], A[3], A[4], A[5], A[6], A[7], A[8], A[9]), true
}

func (g *generator) genFree(w *World) (Op, bool) {
	s := g.pickOf(g.liveSlots(w, func(s int) bool { return w.sinfo[s].res < 0 && !w.inPendingMove(s) && w.sinfo[s].userMaps == 0 }))
	if s < 0 {
		return Op{}, false
	}
	return mkOp("free", s), true
}

func (g *generator) genFreeN(w *World) (Op, bool) {
	ok := func(s int) bool {
		return w.sinfo[s].live && w.sinfo[s].res < 0 && !w.inPendingMove(s) && w.sinfo[s].userMaps == 0
	}
	start := g.r.intn(maxSlots)
	for i := 0; i < maxSlots; i++ {
		s := (start + i) % maxSlots
		n := 0
		for s+n < maxSlots && ok(s+n) && n < 6 {
			n++
		}
		if n >= 2 {
			return mkOp("freen", s, n), true
		}
	}
	return Op{}, false
}

func (g *generator) hostVisibleSlots(w *World) []int {
	return g.liveSlots(w, func(s int) bool {
		return w.typeFlags(w.slots[s].MemoryTypeIndex())&simvk.PropHostVisible != 0
	})
}

func (g *generator) genMkPool(w *World) (Op, bool) {
	r := g.r
	p := -1
	for i := range w.pools {
		if !w.pools[i].live {
			p = i
			break
		}
	}
	if p < 0 {
		return Op{}, false
	}
	t := r.intn(len(w.cfg.Dev.Types))
	flags := 0
	if r.chance(30) {
		flags |= pfLinear
	}
	if r.chance(20) {
		flags |= pfIgnoreGranularity
	}
	blockSize := 0
	if r.chance(70) {
		blockSize = r.pick(4, 8, 16, 16, 32, 64) * kib
	}
	minB := r.pick(0, 0, 0, 1, 2)
	maxB := 0
	if r.chance(60) {
		maxB = r.rangeIncl(max(1, minB), 4)
	}
	if flags&pfLinear != 0 && r.chance(50) {
		maxB = 1
		if minB > 1 {
			minB = 1
		}
	}
	minAlign := 0
	if r.chance(30) {
		minAlign = pow2(r, 0, 10)
	}
	return mkOp("mkpool", p, t, flags, blockSize, minB, maxB, minAlign), true
}

func (g *generator) genRes(w *World, image bool) (Op, bool) {
	r := g.r
	rs := -1
	for i := range w.res {
		if !w.res[i].live {
			rs = i
			break
		}
	}
	a := g.freeSlot(w)
	if rs < 0 || a < 0 {
		return Op{}, false
	}
	nt := len(w.cfg.Dev.Types)
	bs := g.minBlock(w)
	size := r.rangeIncl(1, max(2, bs/6))
	if r.chance(60) {
		size = r.rangeIncl(1, 3000)
	}
	align := pow2(r, 0, 9)
	tb := allTypesMask(nt)
	if r.chance(20) {
		tb = r.rangeIncl(1, tb)
	}
	reqDed, prefDed := 0, 0
	if w.cfg.Dev.API >= 11 {
		if r.chance(8) {
			reqDed = 1
		}
		if r.chance(10) {
			prefDed = 1
		}
	}
	pool := -1
	if ps := g.livePools(w); len(ps) > 0 && r.chance(25) {
		pool = g.pickOf(ps)
		if w.pools[pool].blockSize > 0 {
			reqDed = 0
		}
		tb |= 1 << uint(w.pools[pool].typ)
	}
	usage, flags := uUnknown, g.strategyBits()
	if r.chance(20) {
		usage = r.pick(uAuto, uAutoPreferDevice, uAutoPreferHost)
	}
	if r.chance(5) {
		flags |= fDontBind
	}
	if r.chance(5) && pool < 0 {
		flags |= fDedicated
	}
	resUsage := r.pick(0, 1, 2, 0x10, 0x80) // transfer src/dst, uniform/sampled, vertex/...
	if !image {
		minAlign := 0
		if r.chance(10) {
			minAlign = pow2(r, 4, 10)
		}
		return mkOp("cbuf", rs, a, size, align, tb, reqDed, prefDed, resUsage, usage, flags, 0, 0, 0, pool, minAlign), true
	}
	tiling := r.pick(0, 0, 1)
	return mkOp("cimg", rs, a, tiling, size, align, tb, reqDed, prefDed, resUsage, usage, flags, 0, 0, 0, pool), true
}

// ---- defragmentation driving ----

func (g *generator) activeDefrag(w *World) int {
	for d := range w.defrag {
		if w.defrag[d].begun {
			return d
		}
	}
	return -1
}

func (g *generator) genDefrag(w *World) (Op, bool) {
	r := g.r
	d := g.activeDefrag(w)
	if d < 0 {
		// begin a run; prefer reusing context 0
		d = 0
		if r.chance(20) {
			d = r.intn(maxDefrag)
		}
		pool := -1
		if ps := g.livePools(w); len(ps) > 0 && r.chance(70) {
			pool = g.pickOf(ps)
		}
		flags := r.pick(dfFast, dfFull, dfFull)
		maxBytes := r.pick(0, 0, 0, 1, 1000, 3000, 6000, 20000)
		maxAllocs := r.pick(0, 0, 0, 1, 2, 5)
		return mkOp("dbegin", d, flags, pool, maxBytes, maxAllocs), true
	}
	di := &w.defrag[d]
	if !di.inPass {
		if di.passes > 0 && len(di.moves) == 0 {
			return mkOp("dfin", d), true
		}
		if di.passes > 0 && r.chance(6) {
			return mkOp("dfin", d), true // abandon early
		}
		g.dMovesLeft = -1
		return mkOp("dpass", d), true
	}
	// in pass: decide moves one by one, then end
	if g.dMovesLeft < 0 {
		g.dMovesLeft = len(di.moves)
	}
	for g.dMovesLeft > 0 {
		g.dMovesLeft--
		i := g.dMovesLeft
		if x := r.intn(100); x < 15 {
			return mkOp("dmove", d, i, mvIgnore), true
		} else if x < 28 {
			return mkOp("dmove", d, i, mvDestroy), true
		}
	}
	if len(di.moves) == 0 {
		// nothing proposed: finished
		di.moves = di.moves[:0]
	}
	return mkOp("dend", d), true
}

// ---- malformed requests ----

func (g *generator) genBad(w *World) (Op, bool) {
	r := g.r
	nt := len(w.cfg.Dev.Types)
	a := g.freeSlot(w)
	if a < 0 {
		return Op{}, false
	}
	all := allTypesMask(nt)
	bs := g.minBlock(w)
	ps := g.livePools(w)
	pool := -1
	if len(ps) > 0 && r.chance(50) {
		pool = g.pickOf(ps)
	}
	switch r.intn(24) {
	case 0: // oversize
		return mkOp("alloc", a, r.pick(1<<40, 1<<62, bs*64, bs*9), 1, all, 0, 0, 0, 0, 0, pool), true
	case 1: // zero / negative size
		return mkOp("alloc", a, r.pick(0, -1, -4096), 16, all, 0, 0, 0, 0, 0, pool), true
	case 2: // non power of two alignment
		return mkOp("alloc", a, 100, r.pick(0, 3, 24, -8, 1000), all, 0, 0, 0, 0, 0, pool), true
	case 3: // impossible type masks
		return mkOp("alloc", a, 100, 4, r.pick(0, 1<<uint(nt), 1<<31), 0, 0, 0, 0, 0, -1), true
	case 4: // impossible required flags
		return mkOp("alloc", a, 100, 4, all, 0, 0, int(simvk.PropLazilyAllocated|simvk.PropHostVisible|simvk.PropHostCached|0x20), 0, 0, -1), true
	case 5: // upper address on TLSF / default lists
		return mkOp("alloc", a, 100, 4, all, 0, fUpperAddress, 0, 0, 0, pool), true
	case 6: // contradictory flags
		return mkOp("alloc", a, 100, 4, all, r.pick(uUnknown, uAuto, uAutoPreferDevice, uAutoPreferHost), r.pick(fDedicated|fNeverAllocate, fHostRandom|fHostSeqWrite, fHostAllowTransfer), 0, 0, 0, pool), true
	case 7: // every auto usage + mapped without host access (default lists, pools, dedicated)
		return mkOp("alloc", a, r.pick(100, 100, bs), 4, all, r.pick(uAuto, uAutoPreferDevice, uAutoPreferHost), fMapped|r.pick(0, 0, fDedicated), 0, 0, 0, r.pick(-1, pool)), true
	case 8: // never allocate on empty allocator / huge never allocate / with an implied dedicated allocation (lazily allocated usage)
		return mkOp("alloc", a, r.pick(100, bs*2), 4, all, r.pick(0, 0, uLazy), fNeverAllocate, 0, 0, 0, pool), true
	case 9: // double free
		for s := range w.sinfo {
			if w.sinfo[s].everUsed && !w.sinfo[s].live {
				return mkOp("free", s), true
			}
		}
	case 10: // allocate into a live allocation
		if s := g.pickOf(g.liveSlots(w, nil)); s >= 0 {
			return mkOp("alloc", s, 100, 4, all, 0, 0, 0, 0, 0, -1), true
		}
	case 11: // bad pools
		p := -1
		for i := range w.pools {
			if !w.pools[i].live {
				p = i
			}
		}
		if p >= 0 {
			switch r.intn(6) {
			case 0:
				return mkOp("mkpool", p, r.pick(nt, 31, 32, 40, 64, nt+1, 33, -1), 0, 0, 0, 0, 0), true
			case 1:
				return mkOp("mkpool", p, 0, 0, 4096, 3, 2, 0), true
			case 2:
				return mkOp("mkpool", p, 0, 0, 4096, 0, 0, r.pick(3, 24, 1000)), true
			case 3:
				return mkOp("mkpool", p, r.intn(nt), 0, r.pick(1<<40, bs*16), 1, 2, 0), true // preallocation cannot fit
			case 4:
				return mkOp("mkpool", p, r.intn(nt), r.pick(4, 8, 6, -1), 4096, 0, 0, 0), true // unknown flag bits
			case 5:
				return mkOp("mkpool", p, r.intn(nt), 0, r.pick(-4096, 1, 7), 0, 1, 0), true
			}
		}
	case 12: // dedicated in explicit-block pool
		if pool >= 0 {
			return mkOp("alloc", a, 100, 4, all, 0, fDedicated, 0, 0, 0, pool), true
		}
	case 13: // flush/invalidate with bad ranges
		if s := g.pickOf(g.hostVisibleSlots(w)); s >= 0 {
			sz := w.slots[s].Size()
			return mkOp(r.pick2("flush", "inval"), s, r.pick(sz+1, sz, 0, -5, sz/2), r.pick(sz, sz*2, -1, -7, 0, 1)), true
		}
	case 14: // zero-length / oversized slice
		if a0 := g.freeRun(w, 3); a0 >= 0 {
			return mkOp("allocn", a0, r.pick(0, 3), r.pick(1<<40, 100), 4, all, 0, 0, 0, 0, 0, pool), true
		}
	case 15: // defragment a linear pool / bad flags
		if pool >= 0 && g.activeDefrag(w) < 0 {
			fl := r.pick(dfFast, dfFull)
			if r.chance(12) {
				fl = r.pick(0, 3, 8)
			}
			return mkOp("dbegin", 0, fl, pool, 0, 0), true
		}
	case 16:
		if g.activeDefrag(w) < 0 {
			fl := r.pick(dfFast, dfFull)
			if r.chance(12) {
				fl = r.pick(0, 3, 4)
			}
			return mkOp("dbegin", 1, fl, -1, r.pick(0, -1), r.pick(0, -1)), true
		}
	case 17: // buffers of size zero / impossible requirements
		rs := -1
		for i := range w.res {
			if !w.res[i].live {
				rs = i
			}
		}
		if rs >= 0 {
			if r.chance(50) {
				return mkOp("cbuf", rs, a, r.pick(0, 64, 1<<40), r.pick(16, 3, 0), r.pick(all, 0), 0, 0, 0, 0, 0, 0, 0, 0, pool, r.pick(0, 3)), true
			}
			return mkOp("cimg", rs, a, r.intn(2), r.pick(0, 64, 1<<40), r.pick(16, 3), r.pick(all, 0), 0, 0, 0, 0, 0, 0, 0, 0, pool), true
		}
	case 18: // lazily allocated usage
		return mkOp("alloc", a, 100, 4, all, uLazy, 0, 0, 0, 0, -1), true
	case 19: // within budget + dedicated of huge size
		return mkOp("alloc", a, bs*7, 4, all, 0, fDedicated|fWithinBudget, 0, 0, 0, -1), true
	case 20: // unknown usage value / unknown flag bits
		return mkOp("alloc", a, 100, 4, all, r.pick(5, 99, -1), r.pick(1<<13, 1<<20, -1), 0, 0, 0, pool), true
	case 21: // map something not mappable
		if s := g.pickOf(g.liveSlots(w, nil)); s >= 0 {
			return mkOp("map", s), true
		}
	case 22: // pool priority outside [0,1] (with and without preallocated blocks); a valid one now and then
		for p := 0; p < maxPools; p++ {
			if !w.pools[p].live {
				return mkOp("mkpoolp", p, r.intn(nt), r.pick(0, bs), r.pick(0, 0, 1, 2), r.pick(-1000, -1, 1001, 1500, 2000, 700)), true
			}
		}
	case 23: // allocate from a pool (a pool wrongly accepted with an invalid priority panics here)
		if len(ps) > 0 {
			return mkOp("alloc", a, r.rangeIncl(16, max(16, bs/4)), 4, all, 0, 0, 0, 0, 0, g.pickOf(ps)), true
		}
	}
	return Op{}, false
}

func (r *rng) pick2(a, b string) string {
	if r.intn(2) == 0 {
		return a
	}
	return b
}

// ---- main dispatch ----

func (g *generator) next(w *World) (Op, bool) {
	if !g.started {
		g.started = true
		return mkOp("new"), true
	}
	if w.poisoned || w.destroyed || w.alloc == nil {
		return Op{}, false
	}
	g.emitted++
	if len(g.script) > 0 {
		op := g.script[0]
		g.script = g.script[1:]
		return op, true
	}
	if !g.finish && g.emitted >= g.maxOps {
		g.finish = true
	}
	if g.finish {
		return g.teardown(w)
	}
	// a pass in progress is driven to its end with high priority
	if d := g.activeDefrag(w); d >= 0 && (w.defrag[d].inPass && g.r.chance(85) || g.r.chance(55)) {
		if (g.prof == "core4" && g.r.chance(35) || g.prof == "core5" && g.r.chance(10)) && !w.defrag[d].inPass && w.pendingFault == nil {
			// arm a vkMapMemory fault for the next BeginDefragPass: the commit of a move of a persistently mapped
			// allocation into a block that is not mapped fails, and the planner goes on
			k := g.r.pick(1, 1, 1, 2, 3)
			sticky := 0
			if g.r.chance(40) {
				sticky = 1
			}
			return mkOp("fault", g.r.pick(2, 2, -1), k, simvk.ResMemoryMapFailed, sticky), true
		}
		if g.prof == "core3" || g.prof == "core4" || g.prof == "core5" {
			return g.genDefragCore(w)
		}
		return g.genDefrag(w)
	}
	if g.prof == "gran" && g.emitted < 3 && w.cfg.Dev.Granularity > 256 && g.r.chance(40) {
		g.script = g.granPreamble(w)
		if len(g.script) > 0 {
			return g.next(w)
		}
	}
	if (g.prof == "pools" || g.prof == "limits" || g.prof == "core") && g.emitted < 3 && g.r.chance(35) {
		// scripted pool-bounds preamble: a pool at its minimum, multi-allocations that overrun its maximum
		g.script = g.poolBoundsPreamble(w)
		if len(g.script) > 0 {
			return g.next(w)
		}
	}
	if (g.prof == "core3" || g.prof == "core4" || g.prof == "core5") && g.emitted < 3 && g.r.chance(50) {
		g.script = g.defragPreamble(w)
		if len(g.script) > 0 {
			return g.next(w)
		}
	}
	if g.prof == "defrag" && g.emitted < 3 {
		// scripted fragmentation preamble: a pool with small explicit blocks, many equal allocations, holes
		g.script = g.defragPreamble(w)
		if len(g.script) > 0 {
			return g.next(w)
		}
	}
	if w.pendingFault != nil && g.activeDefrag(w) >= 0 && (g.prof == "core4" || g.prof == "core5") && g.r.chance(70) {
		// the armed fault is meant for the next pass
		if op, ok := g.genDefragCore(w); ok {
			return op, true
		}
	}
	if w.pendingFault != nil && (g.prof == "core" || g.prof == "core2" || g.prof == "core3" || g.prof == "core4" || g.prof == "core5") && g.r.chance(75) {
		// an armed fault is wasted on an op that makes no driver call: prefer ops that do
		names := []string{"lalloc", "allocm", "map", "rw", "mkpoolt", "lalloc", "allocn", "cbuf"}
		if g.prof == "core" {
			names = names[:7]
		}
		if op, ok := g.genNamed(w, names[g.r.intn(len(names))]); ok {
			return op, true
		}
	}
	total := 0
	for _, x := range g.weights {
		total += x.w
	}
	for try := 0; try < 20; try++ {
		n := g.r.intn(total)
		name := ""
		for _, x := range g.weights {
			if n < x.w {
				name = x.name
				break
			}
			n -= x.w
		}
		if op, ok := g.genNamed(w, name); ok {
			return op, true
		}
	}
	if op, ok := g.genAlloc(w, -1, 0); ok {
		return op, true
	}
	return g.teardown(w)
}

// granPreamble builds a TLSF block whose granularity pages are densely populated with optimal images, leaves a
// hole between two of them and then asks for a small linear resource.
func (g *generator) granPreamble(w *World) []Op {
	r := g.r
	gr := w.cfg.Dev.Granularity
	if gr > 16*kib {
		return nil
	}
	nt := len(w.cfg.Dev.Types)
	t := r.intn(nt)
	pages := r.rangeIncl(3, 5)
	block := pages * gr
	all := allTypesMask(nt)
	ops := []Op{mkOp("mkpool", 0, t, 0, block, 1, 1, 0)}
	// images: A covers page 0 and a bit of page 1; X is the hole; B runs to the end of the block
	sm := r.rangeIncl(16, gr/4)
	a := gr + sm
	x := gr
	b := block - a - x
	img := func(rs, slot, size int) Op {
		return mkOp("cimg", rs, slot, 0, size, 1, all, 0, 0, 0, 0, 0, 0, 0, 0, 0)
	}
	ops = append(ops, img(0, 0, a), img(1, 1, x), img(2, 2, b), mkOp("dimg", 1, 1))
	ops = append(ops, mkOp("cbuf", 3, 3, r.rangeIncl(1, sm+8), 1, all, 0, 0, 0, 0, 0, 0, 0, 0, 0, 0))
	return ops
}

// poolBoundsPreamble creates a custom pool with an explicit block size and tight min/max block counts and
// drives it over its maximum with multi-allocations, so that the unwind paths (release of blocks created by
// a failed request, retention of the minimum) are exercised; then fills it with single allocations and
// frees them oldest-first.
func (g *generator) poolBoundsPreamble(w *World) []Op {
	r := g.r
	nt := len(w.cfg.Dev.Types)
	t := r.intn(nt)
	blockSize := r.pick(4, 8, 16) * kib
	mn := r.pick(0, 1, 1, 2)
	mx := mn + r.pick(0, 1, 1, 2)
	if mx == 0 {
		mx = 1
	}
	all := allTypesMask(nt)
	ops := []Op{mkOp("mkpool", 0, t, 0, blockSize, mn, mx, 0)}
	size := blockSize*6/10 + r.intn(blockSize/10)
	// one element per block: mx+1 elements cannot be placed, the request must roll back completely
	ops = append(ops, mkOp("allocn", 0, mx+1, size, pow2(r, 0, 4), all, 0, 0, 0, 0, 0, 0))
	if r.chance(60) {
		ops = append(ops, mkOp("allocn", 8, mx+2, size, 1, all, 0, 0, 0, 0, 0, 0))
	}
	for i := 0; i < mx; i++ {
		ops = append(ops, mkOp("alloc", 16+i, size, 1, all, 0, 0, 0, 0, 0, 0))
	}
	ops = append(ops, mkOp("alloc", 30, size, 1, all, 0, 0, 0, 0, 0, 0)) // over the maximum: refused
	for i := 0; i < mx; i++ {
		ops = append(ops, mkOp("free", 16+i))
	}
	return ops
}

func (g *generator) defragPreamble(w *World) []Op {
	r := g.r
	nt := len(w.cfg.Dev.Types)
	t := r.intn(nt)
	blockSize := r.pick(8, 16, 16, 32) * kib
	n := r.rangeIncl(8, 24)
	size := r.rangeIncl(blockSize/8, blockSize/4)
	var ops []Op
	pool := -1
	if r.chance(75) {
		pool = 0
		ops = append(ops, mkOp("mkpool", 0, t, 0, blockSize, r.pick(0, 0, 1), 0, 0))
	}
	flags := 0
	hv := w.typeFlags(t)&simvk.PropHostVisible != 0
	preKind := map[int]int{} // core5: 1 = buffer, 2 = image created by the preamble in slot i (resource i)
	for i := 0; i < n; i++ {
		f := flags
		mp := 15
		if g.prof == "core4" {
			mp = 40 // persistently mapped sources make BeginDefragPass map the destination blocks
		}
		if hv && r.chance(mp) {
			f |= fMapped
		}
		sz := size
		if r.chance(30) {
			sz = r.rangeIncl(64, blockSize/3)
		}
		tb := allTypesMask(nt)
		if pool < 0 {
			tb = 1 << uint(t)
		}
		if g.prof == "core5" && i < maxRes && r.chance(65) {
			// buffers, linear and optimal images next to each other: the granularity bookkeeping decides where they may go
			ptb := tb
			if pool >= 0 {
				ptb = 1 << uint(t)
			}
			if r.chance(45) {
				ops = append(ops, mkOp("cbuf", i, i, sz, pow2(r, 0, 6), ptb, 0, 0, r.pick(0, 1, 2, 0x10, 0x80), uUnknown, f&^fMapped, 0, 0, 0, pool, 0))
				preKind[i] = 1
			} else {
				ops = append(ops, mkOp("cimg", i, i, r.pick(0, 0, 1), sz, pow2(r, 0, 6), ptb, 0, 0, r.pick(0, 1, 2, 0x10, 0x80), uUnknown, f&^fMapped, 0, 0, 0, pool))
				preKind[i] = 2
			}
			continue
		}
		ops = append(ops, mkOp("alloc", i, sz, pow2(r, 0, 6), tb, 0, f, 0, 0, 0, pool))
		if hv && r.chance(50) {
			g.nextVer++
			ops = append(ops, mkOp("rw", i, g.nextVer))
		}
	}
	for i := 0; i < n; i++ {
		if r.chance(50) {
			if preKind[i] == 1 {
				ops = append(ops, mkOp("dbuf", i, i))
				continue
			}
			if preKind[i] == 2 {
				ops = append(ops, mkOp("dimg", i, i))
				continue
			}
			ops = append(ops, mkOp("free", i))
		}
	}
	return ops
}

func (g *generator) genNamed(w *World, name string) (Op, bool) {
	r := g.r
	switch name {
	case "alloc":
		return g.genAlloc(w, -1, 0)
	case "allocm": // persistently mapped
		pool := -1
		if ps := g.livePools(w); len(ps) > 0 && r.chance(40) {
			pool = g.pickOf(ps)
		}
		// a quarter of the persistently mapped requests are dedicated ones: the dedicated path decides
		// on its own whether to map (memory types that are not host-visible must not be mapped)
		extra := fMapped
		if r.chance(25) && !(pool >= 0 && w.pools[pool].blockSize > 0) {
			extra |= fDedicated
		}
		op, ok := g.genAlloc(w, pool, extra)
		if ok && pool < 0 && r.chance(30) {
			// aim a mapped request at a memory type that is not host-visible (the flag is then ignored)
			for t := range w.cfg.Dev.Types {
				if w.typeFlags(t)&simvk.PropHostVisible == 0 {
					op.Args[3], op.Args[4], op.Args[6], op.Args[7] = 1<<uint(t), uUnknown, 0, 0
					op.Args[5] &^= fHostRandom | fHostSeqWrite | fHostAllowTransfer
					break
				}
			}
		}
		return op, ok
	case "lalloc": // limits-flavoured flags
		pool := -1
		if ps := g.livePools(w); len(ps) > 0 && r.chance(25) {
			pool = g.pickOf(ps)
		}
		extra := r.pick(fNeverAllocate, fDedicated, fWithinBudget, fDedicated|fWithinBudget, fNeverAllocate|fWithinBudget)
		if pool >= 0 && w.pools[pool].blockSize > 0 {
			extra &^= fDedicated
		}
		op, ok := g.genAlloc(w, pool, extra)
		if ok && extra&fDedicated != 0 && r.chance(50) {
			op.Args[1] = r.rangeIncl(g.minBlock(w)/2, g.minBlock(w)*3)
		}
		if ok && extra&fNeverAllocate != 0 && r.chance(20) {
			// NeverAllocate together with a usage that implies a dedicated allocation: must be refused
			// without any vkAllocateMemory
			op.Args[4], op.Args[5] = uLazy, op.Args[5]&^(fHostRandom|fHostSeqWrite|fHostAllowTransfer|fMapped)
		}
		return op, ok
	case "palloc":
		ps := g.livePools(w)
		if len(ps) == 0 {
			return g.genMkPool(w)
		}
		p := g.pickOf(ps)
		extra := 0
		if w.pools[p].flags&pfLinear != 0 && w.pools[p].maxBlocks == 1 && r.chance(35) {
			extra = fUpperAddress // double stack
		}
		return g.genAlloc(w, p, extra)
	case "allocn":
		return g.genAllocN(w)
	case "free":
		return g.genFree(w)
	case "freen":
		return g.genFreeN(w)
	case "map":
		if s := g.pickOf(g.hostVisibleSlots(w)); s >= 0 {
			return mkOp("map", s), true
		}
	case "unmap":
		if s := g.pickOf(g.liveSlots(w, func(s int) bool { return w.sinfo[s].userMaps > 0 })); s >= 0 {
			return mkOp("unmap", s), true
		}
	case "rw":
		if s := g.pickOf(g.hostVisibleSlots(w)); s >= 0 {
			g.nextVer++
			return mkOp("rw", s, g.nextVer), true
		}
	case "flush", "inval":
		// only allocations the caller has mapped (or that are persistently mapped)
		cands := g.liveSlots(w, func(s int) bool {
			return w.typeFlags(w.slots[s].MemoryTypeIndex())&simvk.PropHostVisible != 0 &&
				(w.sinfo[s].userMaps > 0 || w.sinfo[s].flags&fMapped != 0)
		})
		if s := g.pickOf(cands); s >= 0 {
			sz := w.slots[s].Size()
			off, size := 0, -1
			if r.chance(60) {
				off = r.intn(sz)
				size = r.rangeIncl(1, sz-off)
				if r.chance(30) {
					size = -1
				}
			}
			return mkOp(name, s, off, size), true
		}
	case "mkpool":
		return g.genMkPool(w)
	case "rmpool":
		// only pools without live allocations
		for _, p := range g.livePools(w) {
			if len(g.liveSlots(w, func(s int) bool { return w.sinfo[s].pool == p })) == 0 && g.activeDefrag(w) < 0 {
				return mkOp("rmpool", p), true
			}
		}
	case "rmpoolbusy":
		for _, p := range g.livePools(w) {
			if len(g.liveSlots(w, func(s int) bool { return w.sinfo[s].pool == p })) > 0 && g.activeDefrag(w) < 0 {
				return mkOp("rmpool", p), true
			}
		}
	case "cbuf":
		return g.genRes(w, false)
	case "cimg":
		return g.genRes(w, true)
	case "dres":
		if s := g.pickOf(g.liveSlots(w, func(s int) bool { return w.sinfo[s].res >= 0 && !w.inPendingMove(s) && w.sinfo[s].userMaps == 0 })); s >= 0 {
			rs := w.sinfo[s].res
			if w.res[rs].image {
				return mkOp("dimg", rs, s), true
			}
			return mkOp("dbuf", rs, s), true
		}
	case "rawres":
		rs := -1
		for i := range w.res {
			if !w.res[i].live {
				rs = i
				break
			}
		}
		if rs >= 0 {
			nt := len(w.cfg.Dev.Types)
			size, align, tb := r.rangeIncl(1, 4000), pow2(r, 0, 9), allTypesMask(nt)
			rd, pd := 0, 0
			if w.cfg.Dev.API >= 11 && r.chance(15) {
				rd = 1
			}
			if r.chance(50) {
				return mkOp("rbuf", rs, size, align, tb, rd, pd), true
			}
			return mkOp("rimg", rs, r.intn(2), size, align, tb, rd, pd), true
		}
	case "ares":
		var raws []int
		for i := range w.res {
			if w.res[i].live && w.res[i].owner < 0 && !w.res[i].bound {
				raws = append(raws, i)
			}
		}
		rs, a := g.pickOf(raws), g.freeSlot(w)
		if rs >= 0 && a >= 0 {
			nm := "abuf"
			if w.res[rs].image {
				nm = "aimg"
			}
			return mkOp(nm, a, rs, 0, g.strategyBits(), 0, 0, 0, -1), true
		}
	case "bind":
		for rs := range w.res {
			ri := &w.res[rs]
			if !ri.live || ri.bound || ri.owner >= 0 {
				continue
			}
			// find an allocation made for it (same size/alignment) that has no resource yet
			for _, s := range g.liveSlots(w, nil) {
				si := &w.sinfo[s]
				if si.res < 0 && si.reqSize == ri.req.Size && si.reqAlign == ri.req.Alignment && (si.kindExp == kindBuffer) == !ri.image && si.kindExp != kindUnknown {
					nm := "bbuf"
					if ri.image {
						nm = "bimg"
					}
					return mkOp(nm, s, rs, r.pick(-1, -1, 0)), true
				}
			}
		}
	case "rdres":
		for rs := range w.res {
			if w.res[rs].live && w.res[rs].owner < 0 && r.chance(50) {
				return mkOp("rdres", rs), true
			}
		}
	case "defrag":
		return g.genDefrag(w)
	case "stats":
		return mkOp("stats", r.intn(2)), true
	case "bad":
		return g.genBad(w)
	case "destroy":
		if g.activeDefrag(w) < 0 {
			return mkOp("destroy"), true
		}
	case "alias": // aliasing buffer / image inside a live allocation, mostly valid, sometimes out of range
		a := g.pickOf(g.liveSlots(w, func(s int) bool { return !w.inPendingMove(s) }))
		rs := -1
		for i := range w.res {
			if !w.res[i].live {
				rs = i
				break
			}
		}
		if a < 0 || rs < 0 {
			return Op{}, false
		}
		sz := w.slots[a].Size()
		off, size := 0, r.rangeIncl(1, max(1, sz))
		switch r.intn(10) {
		case 0:
			off = -2000000 // whole-allocation variant
		case 1:
			off, size = r.pick(-1, -16, -sz), r.rangeIncl(1, max(1, sz/2)) // negative offset
		case 2:
			off, size = r.rangeIncl(0, sz), r.rangeIncl(1, sz+64) // may overrun
		case 3:
			size = 0
		default:
			off = r.rangeIncl(0, max(0, sz-1))
			size = r.rangeIncl(1, max(1, sz-off))
		}
		if r.chance(50) {
			return mkOp("xbuf", rs, a, off, size), true
		}
		return mkOp("ximg", rs, a, off, size, r.intn(2)), true
	case "mkpoolt", "palloct", "fault":
		return g.genCore(w, name)
	case "defragc":
		return g.genDefragCore(w)
	case "faultc": // the model does not cover a fault inside a defragmentation pass
		if g.activeDefrag(w) < 0 {
			return g.genCore(w, "fault")
		}
	}
	return Op{}, false
}

// teardown emits the ops that wind the world down, one per call.
func (g *generator) teardown(w *World) (Op, bool) {
	if g.emitted > g.maxOps+3*maxSlots+64 {
		return Op{}, false
	}
	// finish defragmentation
	if d := g.activeDefrag(w); d >= 0 {
		if w.defrag[d].inPass {
			return mkOp("dend", d), true
		}
		return mkOp("dfin", d), true
	}
	if g.sloppy && g.finStage == 0 && !g.sloppyDed {
		// half of the sloppy teardowns first make one dedicated allocation in the highest memory type and
		// leave it behind: Destroy has to notice live dedicated allocations in EVERY memory type
		g.sloppyDed = true
		if a := g.freeSlot(w); a >= 0 && g.r.chance(50) {
			nt := len(w.cfg.Dev.Types)
			g.keep[a] = true
			return mkOp("alloc", a, g.r.rangeIncl(64, 4096), 16, 1<<uint(nt-1), uUnknown, fDedicated, 0, 0, 0, -1), true
		}
	}
	if g.sloppy && g.finStage == 0 {
		// leave things behind deliberately: go straight to destroying pools / the allocator
		g.finStage = 1
		keep := g.r.rangeIncl(1, 3)
		live := g.liveSlots(w, nil)
		sort.Ints(live)
		// put allocations that demanded dedicated memory outside pools first, highest memory type first:
		// Destroy has to notice a live dedicated allocation in every memory type
		sort.SliceStable(live, func(i, j int) bool {
			di := w.sinfo[live[i]].wantDed && w.sinfo[live[i]].pool < 0
			dj := w.sinfo[live[j]].wantDed && w.sinfo[live[j]].pool < 0
			if di != dj {
				return di
			}
			return di && w.slots[live[i]].MemoryTypeIndex() > w.slots[live[j]].MemoryTypeIndex()
		})
		if len(live) > keep {
			// free all but a few through the normal path first
			g.finStage = 0
			g.sloppy = false
			for i := 0; i < keep; i++ {
				g.keep[live[i]] = true
			}
		}
	}
	keepMarked := func(s int) bool { return g.keep[s] }
	if g.finStage == 0 {
		if s := g.pickOf(g.liveSlots(w, func(s int) bool { return w.sinfo[s].userMaps > 0 && !keepMarked(s) })); s >= 0 {
			return mkOp("unmap", s), true
		}
		for _, s := range g.liveSlots(w, func(s int) bool { return !keepMarked(s) }) {
			if rs := w.sinfo[s].res; rs >= 0 {
				if w.res[rs].image {
					return mkOp("dimg", rs, s), true
				}
				return mkOp("dbuf", rs, s), true
			}
			return mkOp("free", s), true
		}
		for rs := range w.res {
			if w.res[rs].live && w.res[rs].owner < 0 {
				return mkOp("rdres", rs), true
			}
		}
		g.finStage = 1
	}
	if g.finStage == 1 {
		for _, p := range g.livePools(w) {
			if !g.poolTried[p] {
				g.poolTried[p] = true
				return mkOp("rmpool", p), true
			}
		}
		g.finStage = 2
	}
	if g.finStage == 2 {
		g.finStage = 3
		return mkOp("destroy"), true
	}
	return Op{}, false
}

// ---- profiles for the whole-allocator model (coq/theories/Vam*.v): only ops and configurations the model covers ----

// coreCfg: core = no budget extension; core2 = API 1.1/1.2 with the budget extension most of the time.
func coreCfg(prof string, r *rng) WorldCfg {
	c := baseCfg(r, 3, 5, typePalette[:6])
	if r.chance(35) {
		c.Dev.MaxAllocCount = r.pick(3, 5, 8, 12, 20)
	}
	if r.chance(40) {
		c.HeapLimits = make([]int, len(c.Dev.Heaps))
		for i, h := range c.Dev.Heaps {
			block := h.Size / 8
			if r.intn(4) != 0 {
				c.HeapLimits[i] = r.rangeIncl(1, 6)*block + r.pick(-1, 0, 1)
			}
		}
	}
	if r.chance(20) {
		c.LargeBlock = r.pick(64, 256) * kib // only matters for heaps above 1 GiB (none here): must stay unobservable
	}
	if prof == "core3" || prof == "core4" {
		c.Dev.Granularity = r.pick(1, 1, 16, 64, 256, 512, 1024, 4096)
	}
	if prof == "core5" {
		c.Dev.Granularity = r.pick(16, 64, 1024, 4096)
	}
	if prof != "core" && r.chance(75) {
		c.Dev.API = r.pick(11, 12)
		c.Dev.BudgetExt = r.chance(85)
		for _, h := range c.Dev.Heaps {
			c.Dev.HeapBudget = append(c.Dev.HeapBudget, h.Size*r.pick(3, 5, 8, 10)/10)
			c.Dev.HeapOtherUsage = append(c.Dev.HeapOtherUsage, h.Size*r.pick(0, 0, 1, 2)/10)
		}
	}
	return c
}

func (g *generator) genCore(w *World, name string) (Op, bool) {
	r := g.r
	switch name {
	case "mkpoolt": // TLSF pools only
		op, ok := g.genMkPool(w)
		if ok {
			op.Args[2] &^= pfLinear
		}
		return op, ok
	case "palloct":
		ps := g.livePools(w)
		if len(ps) == 0 {
			return g.genCore(w, "mkpoolt")
		}
		return g.genAlloc(w, g.pickOf(ps), 0)
	case "fault":
		if w.pendingFault != nil {
			return Op{}, false
		}
		kind := r.pick(-1, -1, -1, 0, 2)
		k := r.pick(1, 1, 1, 2, 3)
		result := r.pick(0, 0, 0, simvk.ResOutOfDeviceMemory, simvk.ResOutOfHostMemory, simvk.ResTooManyObjects, simvk.ResMemoryMapFailed)
		sticky := 0
		if r.chance(30) {
			sticky = 1
		}
		return mkOp("fault", kind, k, result, sticky), true
	}
	return Op{}, false
}

// genDefragCore drives a defragmentation run like genDefrag, but keeps the run inside what the model determines:
// the real code moves the blocks with ignored moves to the front in Go map iteration order, so at most one block
// gets ignored moves per pass.
func (g *generator) genDefragCore(w *World) (Op, bool) {
	r := g.r
	d := g.activeDefrag(w)
	if d < 0 || !w.defrag[d].inPass {
		g.ignBlock = -1
		return g.genDefrag(w)
	}
	di := &w.defrag[d]
	if g.dMovesLeft < 0 {
		g.dMovesLeft = len(di.moves)
		g.ignBlock = -1
	}
	for g.dMovesLeft > 0 {
		g.dMovesLeft--
		i := g.dMovesLeft
		if x := r.intn(100); x < 15 {
			if g.ignBlock < 0 || g.ignBlock == di.moves[i].srcBlock {
				g.ignBlock = di.moves[i].srcBlock
				return mkOp("dmove", d, i, mvIgnore), true
			}
		} else if x < 28 {
			return mkOp("dmove", d, i, mvDestroy), true
		}
	}
	return mkOp("dend", d), true
}
