package main

import (
	"fmt"
	"strconv"
	"strings"
)

// splitmix64 PRNG: every random choice of the harness derives from one of these.
type rng struct{ s uint64 }

func newRng(seed uint64) *rng { return &rng{s: seed} }

func (r *rng) next() uint64 {
	r.s += 0x9e3779b97f4a7c15
	z := r.s
	z = (z ^ (z >> 30)) * 0xbf58476d1ce4e5b9
	z = (z ^ (z >> 27)) * 0x94d049bb133111eb
	return z ^ (z >> 31)
}

// intn returns a value in [0,n).
func (r *rng) intn(n int) int {
	if n <= 1 {
		return 0
	}
	return int(r.next() % uint64(n))
}

// rangeIncl returns a value in [lo,hi].
func (r *rng) rangeIncl(lo, hi int) int {
	if hi <= lo {
		return lo
	}
	return lo + r.intn(hi-lo+1)
}

func (r *rng) chance(pct int) bool { return r.intn(100) < pct }

func (r *rng) pick(xs ...int) int { return xs[r.intn(len(xs))] }

// fork derives an independent stream.
func (r *rng) fork() *rng { return newRng(r.next()) }

// Op is one abstract operation: a name and integer arguments.
type Op struct {
	Name string
	Args []int
}

func (o Op) String() string {
	var sb strings.Builder
	sb.WriteString(o.Name)
	for _, a := range o.Args {
		sb.WriteByte(' ')
		sb.WriteString(strconv.Itoa(a))
	}
	return sb.String()
}

func (o Op) arg(i int) int {
	if i < len(o.Args) {
		return o.Args[i]
	}
	return 0
}

// opArity gives the number of integer arguments of each op.
var opArity = map[string]int{
	"new":     0,
	"alloc":   10, // a size align reqTypeBits usage flags required preferred createTypeBits pool
	"allocn":  11, // a0 count size align reqTypeBits usage flags required preferred createTypeBits pool
	"free":    1,  // a
	"freen":   2,  // a0 count
	"map":     1,  // a
	"unmap":   1,  // a
	"rw":      2,  // a version
	"flush":   3,  // a off size
	"inval":   3,  // a off size
	"mkpool":  7,  // p type poolFlags blockSize minBlocks maxBlocks minAlign
	"mkpoolp": 5,  // p type blockSize minBlocks priorityPermille (malformed profile only: PoolCreateInfo.Priority = permille / 1000)
	"rmpool":  1,  // p
	"cbuf":    15, // r a size align reqTypeBits requiresDed prefersDed bufUsage usage flags required preferred createTypeBits pool minAlign
	"cimg":    15, // r a tiling size align reqTypeBits requiresDed prefersDed imgUsage usage flags required preferred createTypeBits pool
	"dbuf":    2,  // r a
	"dimg":    2,  // r a
	"rbuf":    6,  // r size align reqTypeBits requiresDed prefersDed
	"xbuf":    4,  // r a offset size        CreateAliasingBufferWithOffset on allocation a (offset < -1000000: CreateAliasingBuffer)
	"ximg":    5,  // r a offset width linear CreateAliasingImageWithOffset
	"rimg":    7,  // r tiling size align reqTypeBits requiresDed prefersDed
	"rdres":   1,  // r
	"abuf":    8,  // a r usage flags required preferred createTypeBits pool
	"aimg":    8,  // a r usage flags required preferred createTypeBits pool
	"bbuf":    3,  // a r off
	"bimg":    3,  // a r off
	"dbegin":  5,  // d flags pool maxBytes maxAllocs
	"dpass":   1,  // d
	"dmove":   3,  // d index decision
	"dend":    1,  // d
	"dfin":    1,  // d
	"stats":   1,  // detailed
	"destroy": 0,
	"fault":   4, // callKind(-1 = any fallible) k result(0 = natural code for the call kind) sticky
}

func parseOp(fields []string) (Op, error) {
	if len(fields) == 0 {
		return Op{}, fmt.Errorf("empty op")
	}
	n, ok := opArity[fields[0]]
	if !ok {
		return Op{}, fmt.Errorf("unknown op %q", fields[0])
	}
	if len(fields)-1 != n {
		return Op{}, fmt.Errorf("op %s wants %d args, got %d", fields[0], n, len(fields)-1)
	}
	op := Op{Name: fields[0]}
	for _, f := range fields[1:] {
		v, err := strconv.Atoi(f)
		if err != nil {
			return Op{}, fmt.Errorf("op %s: bad integer %q", fields[0], f)
		}
		op.Args = append(op.Args, v)
	}
	return op, nil
}

func mkOp(name string, args ...int) Op {
	if n, ok := opArity[name]; !ok || n != len(args) {
		panic(fmt.Sprintf("mkOp(%s): arity mismatch: have %d", name, len(args)))
	}
	return Op{Name: name, Args: args}
}

// AllocationCreateFlags bits (same numeric values as vam.AllocationCreateFlags).
const (
	fDedicated = 1 << iota
	fNeverAllocate
	fMapped
	fUpperAddress
	fDontBind
	fWithinBudget
	fCanAlias
	fHostSeqWrite
	fHostRandom
	fHostAllowTransfer
	fStratMinMemory
	fStratMinTime
	fStratMinOffset
)

// MemoryUsage values (same numeric values as vam.MemoryUsage).
const (
	uUnknown = iota
	uLazy
	uAuto
	uAutoPreferDevice
	uAutoPreferHost
)

// Pool create flags.
const (
	pfIgnoreGranularity = 1
	pfLinear            = 2
)

// Defragmentation flags.
const (
	dfFast = 1
	dfFull = 2
)

// Defragmentation move decisions.
const (
	mvCopy    = 0
	mvIgnore  = 1
	mvDestroy = 2
)

// Suballocation kinds as reported in A lines (vam's suballocationType).
const (
	kindFree = iota
	kindUnknown
	kindBuffer
	kindImageUnknown
	kindImageLinear
	kindImageOptimal
)
