// vamh is the vam-level verification harness: it generates histories of allocator operations,
// executes them on the real vam code against a simulated Vulkan device (internal/simvk), records
// observables in a line-oriented trace format (see VAMH_FORMAT.md) and evaluates property oracles.
package main

import (
	"encoding/json"
	"flag"
	"fmt"
	"os"
	"path/filepath"
	"sort"
	"strings"
	"time"

	"verif/harness/internal/simvk"
)

var allProfiles = []string{"basic", "map", "pools", "limits", "defrag", "gran", "malformed", "teardown"}

func usage() {
	fmt.Fprintln(os.Stderr, `usage:
  vamh gen    -seed S -n N -ops K -profile P[,P..]|all -out DIR [-summary FILE] [-shrink=true] [-keep-traces=true]
  vamh replay TRACE [-v]
  vamh faults -seed S -n N -ops K -profile P [-out DIR] [-sticky both|one|sticky]
  vamh race   -seed S -dur 5s [-workers 8]      (build with -race -gcflags=all=-d=checkptr=0)
  vamh racesum RACE_DETECTOR_STDERR_FILE
  vamh check  CORPUS_DIR...                     (re-run failing traces; exit 1 if any recorded failure still occurs)`)
	os.Exit(2)
}

func main() {
	if len(os.Args) < 2 {
		usage()
	}
	switch os.Args[1] {
	case "gen":
		cmdGen(os.Args[2:])
	case "replay":
		cmdReplay(os.Args[2:])
	case "faults":
		cmdFaults(os.Args[2:])
	case "race":
		cmdRace(os.Args[2:])
	case "racesum":
		cmdRaceSum(os.Args[2:])
	case "check":
		cmdCheck(os.Args[2:])
	case "newargs":
		cmdNewArgs()
	default:
		usage()
	}
}

// ---- summary ----

type failReport struct {
	Property string `json:"property"`
	Sig      string `json:"sig"`
	Count    int    `json:"histories"`
	Example  string `json:"example_detail"`
	Trace    string `json:"minimal_trace,omitempty"`
	MinOps   int    `json:"minimal_ops,omitempty"`
	First    string `json:"first_history"`
}

type summary struct {
	Seed             uint64                    `json:"seed"`
	Profiles         []string                  `json:"profiles"`
	Histories        int                       `json:"histories"`
	DistinctHist     int                       `json:"distinct_histories"`
	TotalOps         int                       `json:"total_ops"`
	OpKinds          map[string]int            `json:"op_kinds"`
	Results          map[string]int            `json:"results"`
	ResultsByOp      map[string]map[string]int `json:"results_by_op"`
	ErrCodes         map[string]int            `json:"error_codes"`
	DriverCalls      map[string]int64          `json:"driver_calls"`
	BlocksCreated    int64                     `json:"device_memory_created"`
	BlocksDestroyed  int64                     `json:"device_memory_freed"`
	HysteresisFlips  int                       `json:"hysteresis_toggles"`
	MapEvents        int                       `json:"map_unmap_events"`
	DefragMoves      int                       `json:"defrag_moves"`
	CrossBlockMoves  int                       `json:"cross_block_defrag_moves"`
	DefragPasses     int                       `json:"defrag_passes"`
	DefragRuns       int                       `json:"defrag_runs"`
	CtxReuse         int                       `json:"defrag_context_reuses"`
	Dedicated        int                       `json:"dedicated_requests_ok"`
	MaxLiveAllocs    int                       `json:"max_live_allocs"`
	MaxBlocksInList  int                       `json:"max_blocks_in_one_list"`
	Deep             map[string]int            `json:"histories_reaching"`
	FailingHistories int                       `json:"failing_histories"`
	Fails            []*failReport             `json:"oracle_failures"`
	Seconds          float64                   `json:"seconds"`
	PerProfile       map[string]int            `json:"histories_per_profile"`
}

func newSummary() *summary {
	return &summary{OpKinds: map[string]int{}, Results: map[string]int{}, ResultsByOp: map[string]map[string]int{}, ErrCodes: map[string]int{},
		DriverCalls: map[string]int64{}, Deep: map[string]int{}, PerProfile: map[string]int{}}
}

func (s *summary) addHistory(h *history) {
	s.Histories++
	s.TotalOps += len(h.steps)
	for i := range h.steps {
		st := &h.steps[i]
		s.OpKinds[st.op.Name]++
		s.Results[st.res.Kind]++
		if s.ResultsByOp[st.op.Name] == nil {
			s.ResultsByOp[st.op.Name] = map[string]int{}
		}
		s.ResultsByOp[st.op.Name][st.res.Kind]++
		if st.res.Kind == "err" {
			s.ErrCodes[strings.TrimPrefix(st.res.line(), "R err ")]++
		}
	}
	for k := 0; k < int(simvk.NumCallKinds); k++ {
		s.DriverCalls[simvk.CallKind(k).String()] += h.callCnt[k]
	}
	s.BlocksCreated += int64(h.world.dev.MemsCreated())
	s.BlocksDestroyed += h.callCnt[simvk.CallFree]
	d := h.world.stats
	s.HysteresisFlips += d.hysteresisFlips
	s.MapEvents += d.mapEvents
	s.DefragMoves += d.defragMoves
	s.CrossBlockMoves += d.crossBlockMoves
	s.DefragPasses += d.defragPasses
	s.DefragRuns += d.defragRuns
	s.CtxReuse += d.ctxReuse
	s.Dedicated += d.dedicated
	if d.maxLiveAllocs > s.MaxLiveAllocs {
		s.MaxLiveAllocs = d.maxLiveAllocs
	}
	if d.maxBlocksInList > s.MaxBlocksInList {
		s.MaxBlocksInList = d.maxBlocksInList
	}
	deep := func(name string, ok bool) {
		if ok {
			s.Deep[name]++
		} else if _, present := s.Deep[name]; !present {
			s.Deep[name] = 0
		}
	}
	deep("three_or_more_blocks_in_a_list", d.maxBlocksInList >= 3)
	deep("device_memory_freed_before_teardown", h.callCnt[simvk.CallFree] > 0)
	deep("hysteresis_toggled", d.hysteresisFlips > 0)
	deep("seven_or_more_map_events", d.mapEvents >= 7)
	deep("cross_block_defrag_move", d.crossBlockMoves > 0)
	deep("two_or_more_defrag_passes", d.defragPasses >= 2)
	deep("defrag_context_reused", d.ctxReuse > 0)
	deep("dedicated_allocation", d.dedicated > 0)
	deep("twenty_or_more_live_allocs", d.maxLiveAllocs >= 20)
	oom := false
	for i := range h.steps {
		if h.steps[i].res.Kind == "err" && (h.steps[i].res.Vk == simvk.ResOutOfDeviceMemory || h.steps[i].res.Vk == simvk.ResTooManyObjects) {
			oom = true
		}
	}
	deep("out_of_memory_or_too_many_objects", oom)
	deep("allocator_destroyed", h.world.destroyed)
}

func cmdGen(args []string) {
	fs := flag.NewFlagSet("gen", flag.ExitOnError)
	seed := fs.Uint64("seed", 1, "PRNG seed")
	n := fs.Int("n", 100, "number of histories")
	ops := fs.Int("ops", 80, "max ops per history (before teardown)")
	prof := fs.String("profile", "basic", "profile name, comma separated list, or all")
	out := fs.String("out", "", "output directory for traces")
	sumPath := fs.String("summary", "", "write summary JSON here (default stdout)")
	doShrink := fs.Bool("shrink", true, "shrink failing histories")
	keep := fs.Bool("keep-traces", true, "write one trace per history (false: only failing/minimal traces)")
	fs.Parse(args)

	profiles := strings.Split(*prof, ",")
	if *prof == "all" {
		profiles = allProfiles
	}
	if *out != "" {
		if err := os.MkdirAll(*out, 0o755); err != nil {
			fmt.Fprintln(os.Stderr, err)
			os.Exit(1)
		}
	}
	start := time.Now()
	master := newRng(*seed)
	sum := newSummary()
	sum.Seed = *seed
	sum.Profiles = profiles
	distinct := map[string]bool{}
	reports := map[string]*failReport{}
	firstFail := map[string]*history{}

	for i := 0; i < *n; i++ {
		p := profiles[i%len(profiles)]
		hr := master.fork()
		cfg := makeCfg(p, hr.fork())
		g := newGenerator(p, hr.fork(), *ops)
		h := runHistory(cfg, g, *ops+4*maxSlots+100, "")
		sum.PerProfile[p]++
		sum.addHistory(h)
		distinct[h.opHash()] = true
		name := fmt.Sprintf("h%05d-%s", i, p)
		fk := h.failKeys()
		if len(fk) > 0 {
			sum.FailingHistories++
		}
		for k, f := range fk {
			r := reports[k]
			if r == nil {
				r = &failReport{Property: f.prop, Sig: f.sig, Example: f.detail, First: name}
				reports[k] = r
				firstFail[k] = h
			} else if len(h.steps) < len(firstFail[k].steps) {
				firstFail[k] = h // prefer shrinking from the shortest witness
			}
			r.Count++
		}
		if *out != "" && (*keep || len(fk) > 0) {
			if err := h.write(filepath.Join(*out, name+".trace"), fmt.Sprintf("seed %d history %d profile %s", *seed, i, p)); err != nil {
				fmt.Fprintln(os.Stderr, err)
				os.Exit(1)
			}
		}
	}
	sum.DistinctHist = len(distinct)

	keys := make([]string, 0, len(reports))
	for k := range reports {
		keys = append(keys, k)
	}
	sort.Strings(keys)
	for _, k := range keys {
		r := reports[k]
		if *doShrink && *out != "" {
			h := shrink(firstFail[k], k)
			path := filepath.Join(*out, fmt.Sprintf("fail-%s-%s.trace", r.Property, shortHash(r.Sig)))
			h.write(path, "minimal failing history for "+k, "sig="+r.Sig)
			r.Trace = path
			r.MinOps = len(h.steps)
		}
		sum.Fails = append(sum.Fails, r)
	}
	sum.Seconds = time.Since(start).Seconds()
	js, _ := json.MarshalIndent(sum, "", "  ")
	if *sumPath != "" {
		os.WriteFile(*sumPath, append(js, '\n'), 0o644)
	} else {
		fmt.Println(string(js))
	}
}

func shortHash(s string) string {
	h := uint32(2166136261)
	for i := 0; i < len(s); i++ {
		h ^= uint32(s[i])
		h *= 16777619
	}
	// keep a readable prefix of the signature plus a hash for uniqueness
	p := s
	if len(p) > 40 {
		p = p[:40]
	}
	return fmt.Sprintf("%s-%08x", p, h)
}

func cmdReplay(args []string) {
	fs := flag.NewFlagSet("replay", flag.ExitOnError)
	verbose := fs.Bool("v", false, "print all oracle failures of the re-execution")
	rewrite := fs.String("rewrite", "", "write the re-executed trace to this file")
	if len(args) == 0 {
		usage()
	}
	path := args[0]
	fs.Parse(args[1:])
	t, err := readTrace(path)
	if err != nil {
		fmt.Fprintln(os.Stderr, "replay:", err)
		os.Exit(1)
	}
	h := runHistory(t.cfg, &listSource{ops: t.ops}, len(t.ops), "")
	if *rewrite != "" {
		h.write(*rewrite, "re-executed from "+path)
	}
	diverged := false
	recorded := false
	for i := range t.lines {
		recorded = recorded || len(t.lines[i]) > 0
	}
	if !recorded {
		fmt.Println("trace has no recorded observables: executing only")
	}
	for i := range t.ops {
		if !recorded {
			break
		}
		if i >= len(h.steps) {
			fmt.Printf("DIVERGENCE at op %d (%s): re-execution stopped early\n", i, t.ops[i].String())
			diverged = true
			break
		}
		rec, got := t.lines[i], h.steps[i].lines
		m := len(rec)
		if len(got) > m {
			m = len(got)
		}
		for j := 0; j < m; j++ {
			var a, b string
			if j < len(rec) {
				a = rec[j]
			}
			if j < len(got) {
				b = got[j]
			}
			if a != b {
				fmt.Printf("DIVERGENCE at op %d (%s), observable line %d:\n  recorded: %s\n  replayed: %s\n", i, t.ops[i].String(), j, a, b)
				diverged = true
				break
			}
		}
		if diverged {
			break
		}
	}
	fk := h.failKeys()
	keys := make([]string, 0, len(fk))
	for k := range fk {
		keys = append(keys, k)
	}
	sort.Strings(keys)
	fmt.Printf("replayed %d ops, %d distinct oracle failures\n", len(h.steps), len(keys))
	for _, k := range keys {
		if *verbose {
			fmt.Println("  " + fk[k].line())
		} else {
			fmt.Println("  " + k)
		}
	}
	if diverged {
		os.Exit(3)
	}
	if !diverged {
		fmt.Println("no divergence from recorded observables")
	}
}

// cmdCheck re-executes every trace of a directory (a corpus of failing histories) and reports, per file,
// whether the failure named in its "# sig=" comment still occurs on the code under test.
func cmdCheck(args []string) {
	if len(args) == 0 {
		usage()
	}
	stillFailing := 0
	for _, dir := range args {
		files, _ := filepath.Glob(filepath.Join(dir, "*.trace"))
		sort.Strings(files)
		for _, f := range files {
			t, err := readTrace(f)
			if err != nil {
				fmt.Printf("%-78s ERROR %v\n", filepath.Base(f), err)
				continue
			}
			want := ""
			if data, err := os.ReadFile(f); err == nil {
				for _, l := range strings.Split(string(data), "\n") {
					if strings.HasPrefix(l, "# sig=") {
						want = strings.TrimPrefix(l, "# sig=")
					}
				}
			}
			h := runHistory(t.cfg, &listSource{ops: t.ops}, len(t.ops), "")
			fk := h.failKeys()
			keys := make([]string, 0, len(fk))
			hit := false
			for k, v := range fk {
				keys = append(keys, k)
				// fault-injection witnesses are recorded as "<prop>.<sig>"
				if v.sig == want || v.prop+"."+v.sig == want {
					hit = true
				}
			}
			sort.Strings(keys)
			status := "fixed/absent"
			switch {
			case want == "" && len(keys) > 0:
				status = "FAILS"
			case want == "":
				status = "no failure"
			case hit:
				status = "STILL FAILS"
			case len(keys) > 0:
				status = "other failures"
			}
			if hit || (want == "" && len(keys) > 0) {
				stillFailing++
			}
			fmt.Printf("%-78s %-14s %s\n", filepath.Base(f), status, strings.Join(keys, " "))
		}
	}
	if stillFailing > 0 {
		os.Exit(1)
	}
}
