package main

import (
	"fmt"
	"log/slog"
	"regexp"
	"runtime/debug"
	"strings"
	"time"
	"unsafe"

	"github.com/vkngwrapper/arsenal/memutils/defrag"
	"github.com/vkngwrapper/arsenal/vam"
	"github.com/vkngwrapper/core/v3/common"
	"github.com/vkngwrapper/core/v3/core1_0"

	"verif/harness/internal/simvk"
)

const (
	maxSlots  = 160
	maxPools  = 8
	maxRes    = 64
	maxDefrag = 4
)

// WorldCfg is everything needed to create the simulated device and the allocator.
type WorldCfg struct {
	Dev        simvk.Config
	HeapLimits []int // per heap; empty = option not passed
	LargeBlock int   // CreateOptions.PreferredLargeHeapBlockSize (0 = default)
	ExtSync    bool  // AllocatorCreateExternallySynchronized
}

func (c *WorldCfg) headerLines() []string {
	d := &c.Dev
	b2i := func(b bool) int {
		if b {
			return 1
		}
		return 0
	}
	lines := []string{
		"VAMH 1",
		fmt.Sprintf("CFG %d %d %d %d %d %d %d %d %d %d", d.API, b2i(d.Integrated), d.Granularity, d.AtomSize, d.MaxAllocCount,
			b2i(d.BudgetExt), c.LargeBlock, b2i(c.ExtSync), len(d.Heaps), len(d.Types)),
	}
	for i, h := range d.Heaps {
		limit, budget, other := -1, h.Size, 0
		if i < len(c.HeapLimits) {
			limit = c.HeapLimits[i]
		}
		if i < len(d.HeapBudget) {
			budget = d.HeapBudget[i]
		}
		if i < len(d.HeapOtherUsage) {
			other = d.HeapOtherUsage[i]
		}
		lines = append(lines, fmt.Sprintf("HEAPCFG %d %d %d %d %d %d", i, h.Size, b2i(h.DeviceLocal), limit, budget, other))
	}
	for i, t := range d.Types {
		lines = append(lines, fmt.Sprintf("TYPECFG %d %d %d", i, t.Heap, t.Flags))
	}
	return lines
}

type slotInfo struct {
	live     bool
	everUsed bool // the Allocation object has been initialised by vam at least once
	reqSize  int
	reqAlign int
	typeBits uint32 // permitted memory types (after intersecting the masks of the request); 0 = unknown
	pool     int    // pool slot or -1
	flags    int
	kindExp  int // expected suballocation kind
	userMaps int
	written  bool
	ver      int
	res      int  // resource slot created together with this allocation, or -1
	wantDed  bool // request demanded a dedicated allocation
}

type poolInfo struct {
	live      bool
	p         *vam.Pool
	typ       int
	flags     int
	blockSize int
	minBlocks int
	maxBlocks int
	minAlign  int
}

type resInfo struct {
	live  bool
	id    int
	image bool
	kind  simvk.ResKind
	buf   core1_0.Buffer
	img   core1_0.Image
	req   simvk.ResReq
	owner int  // allocation slot that owns it (cbuf/cimg) or -1 for raw
	bound bool // harness belief
	at    int  // allocation slot it is bound to (raw binds), or -1
}

type moveInfo struct {
	src      int // slot of the source allocation, -1 if it is not a user allocation
	srcMem   int
	srcOff   int
	dstMem   int
	dstOff   int
	size     int
	decision int
	srcBlock int // memory id of the block that really holds the source (differs from srcMem if Memory() is stale)
}

type defragInfo struct {
	ctx       *vam.DefragmentationContext
	begun     bool
	inPass    bool
	raw       []defrag.DefragmentationMove[vam.Allocation]
	moves     []moveInfo
	pool      int
	flags     int
	maxBytes  int
	maxAllocs int
	copies    int
	copyBytes int
	runs      int
	passes    int
}

// StepResult is the outcome of executing one op on the real code.
type StepResult struct {
	Kind     string // ok | err | panic | skip | hang
	Vk       int    // VkResult for err (0 when the API returned only an error value)
	PanicMsg string
	Extra    []string
}

func (r StepResult) line() string {
	switch r.Kind {
	case "err":
		if r.Vk == 0 {
			return "R err Error"
		}
		return "R err " + simvk.ResultName(r.Vk)
	}
	return "R " + r.Kind
}

// World is one simulated device plus one real allocator plus the harness' bookkeeping.
type World struct {
	cfg   WorldCfg
	dev   *simvk.Device
	drv   *simvk.Driver
	alloc *vam.Allocator

	destroyed bool
	poisoned  bool // a panic or hang happened; nothing more can be trusted

	slots  []vam.Allocation
	sinfo  []slotInfo
	pools  []poolInfo
	res    []resInfo
	defrag []defragInfo

	// counters for the distribution report
	stats *distStats

	// scratch for oracles: set by exec for the current step
	cur stepCtx

	// fault injection requested by a "fault" op for the next step
	pendingFault *Op
	// slots whose allocation failed under an injected fault (must be reusable)
	faultFailedSlots map[int]bool
}

// stepCtx carries facts about the op being executed to the oracles.
type stepCtx struct {
	op           Op
	aliasAt      int // allocation slot an aliasing resource was created in by this op (-1: none), with the offset/size asked for
	aliasOff     int
	aliasSize    int
	neverAlloc   bool
	dedSlots     []int // slots whose request demanded dedicated memory (and succeeded)
	dedSize      int
	movedSlots   map[int]moveInfo // copy-moved slots completed by this dend
	ignoredSlots map[int]bool
	destroyed    map[int]bool
	defragEnd    bool
	defragBegin  int // defrag slot begun this step, or -1
	defragFin    int
	faulted      bool // a fault was armed for this step
	faultsFired  int
	finStats     defrag.DefragmentationStats
	finCopies    int
	finBytes     int
	c14fail      []string
}

var discardLogger = slog.New(slog.DiscardHandler)

func newWorld(cfg WorldCfg) *World {
	cfg.Dev.Log = true
	w := &World{cfg: cfg}
	w.dev = simvk.NewDevice(cfg.Dev)
	w.drv = simvk.NewDriver(w.dev)
	w.slots = make([]vam.Allocation, maxSlots)
	w.sinfo = make([]slotInfo, maxSlots)
	for i := range w.sinfo {
		w.sinfo[i].pool = -1
		w.sinfo[i].res = -1
	}
	w.pools = make([]poolInfo, maxPools)
	w.res = make([]resInfo, maxRes)
	w.defrag = make([]defragInfo, maxDefrag)
	w.stats = &distStats{}
	return w
}

func (w *World) slotOf(a *vam.Allocation) int {
	if a == nil || len(w.slots) == 0 {
		return -1
	}
	base := uintptr(unsafe.Pointer(&w.slots[0]))
	p := uintptr(unsafe.Pointer(a))
	sz := unsafe.Sizeof(w.slots[0])
	if p < base || p >= base+sz*uintptr(len(w.slots)) || (p-base)%sz != 0 {
		return -1
	}
	return int((p - base) / sz)
}

func (w *World) poolSlotOf(p *vam.Pool) int {
	if p == nil {
		return -1
	}
	for i := range w.pools {
		if w.pools[i].p == p {
			return i
		}
	}
	return -2
}

var digitsRe = regexp.MustCompile(`[0-9]+`)
var hexRe = regexp.MustCompile(`0x[0-9a-fA-F]+`)

// panicSig turns a panic value into a short stable signature.
func panicSig(v any) string {
	s := fmt.Sprint(v)
	if i := strings.IndexByte(s, '\n'); i >= 0 {
		s = s[:i]
	}
	s = hexRe.ReplaceAllString(s, "X")
	s = digitsRe.ReplaceAllString(s, "N")
	f := strings.Fields(s)
	if len(f) > 9 {
		f = f[:9]
	}
	s = strings.Join(f, "-")
	s = strings.Map(func(r rune) rune {
		if r >= 'a' && r <= 'z' || r >= 'A' && r <= 'Z' || r >= '0' && r <= '9' || r == '-' {
			return r
		}
		return -1
	}, s)
	return "panic-" + s
}

var siteRe = regexp.MustCompile(`arsenal/(?:vam|memutils)\S*?\.([A-Za-z0-9_]+)\(`)

// panicSite names the innermost function of the code under test on the panicking stack ("-in-Func").
func panicSite() string {
	st := string(debug.Stack())
	// skip everything up to the runtime's panic frames
	if i := strings.Index(st, "panic("); i >= 0 {
		st = st[i:]
	}
	if m := siteRe.FindStringSubmatch(st); m != nil {
		return "-in-" + m[1]
	}
	return ""
}

// Step executes one op under recover() with a watchdog.
func (w *World) Step(op Op) StepResult {
	w.cur = stepCtx{op: op, defragBegin: -1, defragFin: -1, aliasAt: -1}
	if w.poisoned {
		return StepResult{Kind: "skip"}
	}
	if op.Name == "fault" {
		o := op
		w.pendingFault = &o
		return StepResult{Kind: "ok"}
	}
	if f := w.pendingFault; f != nil {
		w.pendingFault = nil
		w.cur.faulted = true
		before := w.dev.FaultsFired.Load()
		w.dev.ArmFault(f.arg(0), f.arg(1), f.arg(2), f.arg(3) != 0)
		defer func() {
			w.dev.DisarmFault()
			w.cur.faultsFired = int(w.dev.FaultsFired.Load() - before)
		}()
	}
	done := make(chan StepResult, 1)
	go func() {
		defer func() {
			if r := recover(); r != nil {
				done <- StepResult{Kind: "panic", PanicMsg: panicSig(r) + panicSite()}
			}
		}()
		done <- w.exec(op)
	}()
	select {
	case r := <-done:
		if r.Kind == "panic" {
			w.poisoned = true
		}
		return r
	case <-time.After(20 * time.Second):
		w.poisoned = true
		return StepResult{Kind: "hang"}
	}
}

func skip() StepResult { return StepResult{Kind: "skip"} }

func result(res common.VkResult, err error) StepResult {
	if err != nil {
		return StepResult{Kind: "err", Vk: int(res)}
	}
	return StepResult{Kind: "ok"}
}

func errOnly(err error) StepResult {
	if err != nil {
		return StepResult{Kind: "err"}
	}
	return StepResult{Kind: "ok"}
}

func (w *World) slotOK(a int) bool { return a >= 0 && a < maxSlots }

func (w *World) createInfo(usage, flags, req, pref, ctb, pool, userData int) (vam.AllocationCreateInfo, bool) {
	ci := vam.AllocationCreateInfo{
		Flags:          vam.AllocationCreateFlags(flags),
		Usage:          vam.MemoryUsage(usage),
		RequiredFlags:  core1_0.MemoryPropertyFlags(req),
		PreferredFlags: core1_0.MemoryPropertyFlags(pref),
		MemoryTypeBits: uint32(ctb),
		UserData:       userData,
	}
	if pool >= 0 {
		if pool >= maxPools || !w.pools[pool].live {
			return ci, false
		}
		ci.Pool = w.pools[pool].p
	}
	return ci, true
}

func (w *World) noteAlloc(a int, size, align int, reqTB, ctb uint32, pool, flags, kind int, wantDed bool, res int) {
	tb := reqTB
	if ctb != 0 {
		tb &= ctb
	}
	if pool >= 0 {
		tb = 1 << uint(w.pools[pool].typ)
	}
	w.sinfo[a] = slotInfo{live: true, everUsed: true, reqSize: size, reqAlign: align, typeBits: tb, pool: pool, flags: flags, kindExp: kind, res: res, wantDed: wantDed}
	if wantDed {
		w.cur.dedSlots = append(w.cur.dedSlots, a)
		w.cur.dedSize = size
	}
}

func (w *World) markDead(a int) {
	si := &w.sinfo[a]
	for r := range w.res {
		if w.res[r].live && w.res[r].bound && w.res[r].at == a {
			w.dev.ForgetBinding(w.res[r].id) // the memory under a bound raw resource went away
		}
	}
	si.live = false
	si.userMaps = 0
	si.written = false
	if si.res >= 0 {
		si.res = -1
	}
}

// inPendingMove reports whether slot a is the source of a move of a pass in progress.
func (w *World) inPendingMove(a int) bool {
	for d := range w.defrag {
		if w.defrag[d].inPass {
			for _, m := range w.defrag[d].moves {
				if m.src == a {
					return true
				}
			}
		}
	}
	return false
}

func (w *World) exec(op Op) StepResult {
	if op.Name == "new" {
		if w.alloc != nil {
			return skip()
		}
		opts := vam.CreateOptions{PreferredLargeHeapBlockSize: w.cfg.LargeBlock}
		if w.cfg.ExtSync {
			opts.Flags = vam.AllocatorCreateExternallySynchronized
		}
		if len(w.cfg.HeapLimits) > 0 {
			opts.HeapSizeLimits = append([]int(nil), w.cfg.HeapLimits...)
		}
		a, err := vam.New(discardLogger, w.drv.Driver, w.drv.PhysicalDevice, opts)
		if err != nil {
			return StepResult{Kind: "err"}
		}
		w.alloc = a
		return StepResult{Kind: "ok"}
	}
	if w.alloc == nil || w.destroyed {
		return skip()
	}
	A := op.arg
	switch op.Name {
	case "alloc":
		a := A(0)
		if !w.slotOK(a) {
			return skip()
		}
		ci, ok := w.createInfo(A(4), A(5), A(6), A(7), A(8), A(9), a)
		if !ok {
			return skip()
		}
		wasLive := w.sinfo[a].live
		w.cur.neverAlloc = A(5)&fNeverAllocate != 0
		mr := core1_0.MemoryRequirements{Size: A(1), Alignment: A(2), MemoryTypeBits: uint32(A(3))}
		res, err := w.alloc.AllocateMemory(&mr, ci, &w.slots[a])
		if err == nil && !wasLive {
			w.noteAlloc(a, A(1), A(2), uint32(A(3)), uint32(A(8)), A(9), A(5), kindUnknown, A(5)&fDedicated != 0 || A(4) == uLazy, -1)
		}
		return result(res, err)
	case "allocn":
		a0, n := A(0), A(1)
		if !w.slotOK(a0) || n < 0 || !w.slotOK(a0+n-1) && n > 0 {
			return skip()
		}
		ci, ok := w.createInfo(A(5), A(6), A(7), A(8), A(9), A(10), a0)
		if !ok {
			return skip()
		}
		anyLive := false
		for i := a0; i < a0+n; i++ {
			anyLive = anyLive || w.sinfo[i].live
		}
		w.cur.neverAlloc = A(6)&fNeverAllocate != 0
		mr := core1_0.MemoryRequirements{Size: A(2), Alignment: A(3), MemoryTypeBits: uint32(A(4))}
		res, err := w.alloc.AllocateMemorySlice(&mr, ci, w.slots[a0:a0+n])
		if err == nil && !anyLive {
			for i := a0; i < a0+n; i++ {
				w.noteAlloc(i, A(2), A(3), uint32(A(4)), uint32(A(9)), A(10), A(6), kindUnknown, A(6)&fDedicated != 0 || A(5) == uLazy, -1)
				w.slots[i].SetUserData(i)
			}
		}
		return result(res, err)
	case "free":
		a := A(0)
		if !w.slotOK(a) || !w.sinfo[a].everUsed || w.inPendingMove(a) {
			return skip()
		}
		if w.sinfo[a].live && (w.sinfo[a].res >= 0 || w.sinfo[a].userMaps > 0) {
			// an owned resource must go through dbuf/dimg; freeing an allocation the caller still has mapped
			// is a caller error
			return skip()
		}
		err := w.slots[a].Free()
		if err == nil {
			w.markDead(a)
		}
		return errOnly(err)
	case "freen":
		a0, n := A(0), A(1)
		if !w.slotOK(a0) || n <= 0 || !w.slotOK(a0+n-1) {
			return skip()
		}
		for i := a0; i < a0+n; i++ {
			if !w.sinfo[i].live || w.inPendingMove(i) || w.sinfo[i].res >= 0 || w.sinfo[i].userMaps > 0 {
				return skip()
			}
		}
		err := w.alloc.FreeAllocationSlice(w.slots[a0 : a0+n])
		if err == nil {
			for i := a0; i < a0+n; i++ {
				w.markDead(i)
			}
		}
		return errOnly(err)
	case "map":
		a := A(0)
		if !w.slotOK(a) || !w.sinfo[a].live {
			return skip()
		}
		if w.typeFlags(w.slots[a].MemoryTypeIndex())&simvk.PropHostVisible == 0 {
			return skip() // mapping non-host-visible memory is a caller error
		}
		if w.inPendingMove(a) {
			return skip() // documented: Map of an allocation being relocated blocks until EndDefragPass
		}
		_, res, err := w.slots[a].Map()
		if err == nil {
			w.sinfo[a].userMaps++
			w.stats.mapEvents++
		}
		return result(res, err)
	case "unmap":
		a := A(0)
		if !w.slotOK(a) || !w.sinfo[a].live || w.sinfo[a].userMaps == 0 {
			return skip()
		}
		err := w.slots[a].Unmap()
		if err == nil {
			w.sinfo[a].userMaps--
			w.stats.mapEvents++
		}
		return errOnly(err)
	case "rw":
		a := A(0)
		if !w.slotOK(a) || !w.sinfo[a].live {
			return skip()
		}
		if w.typeFlags(w.slots[a].MemoryTypeIndex())&simvk.PropHostVisible == 0 {
			return skip()
		}
		return w.execRW(a, A(1))
	case "flush", "inval":
		a := A(0)
		if !w.slotOK(a) || !w.sinfo[a].live {
			return skip()
		}
		if w.sinfo[a].userMaps == 0 && !vam.VerifAllocationInfo(&w.slots[a]).PersistentMap {
			return skip()
		}
		var res common.VkResult
		var err error
		if op.Name == "flush" {
			res, err = w.slots[a].Flush(A(1), A(2))
		} else {
			res, err = w.slots[a].Invalidate(A(1), A(2))
		}
		return result(res, err)
	case "mkpool":
		p := A(0)
		if p < 0 || p >= maxPools || w.pools[p].live {
			return skip()
		}
		pool, res, err := w.alloc.CreatePool(vam.PoolCreateInfo{
			MemoryTypeIndex:        A(1),
			Flags:                  vam.PoolCreateFlags(A(2)),
			BlockSize:              A(3),
			MinBlockCount:          A(4),
			MaxBlockCount:          A(5),
			MinAllocationAlignment: uint(A(6)),
		})
		if err == nil {
			w.pools[p] = poolInfo{live: true, p: pool, typ: A(1), flags: A(2), blockSize: A(3), minBlocks: A(4), maxBlocks: A(5), minAlign: A(6)}
		}
		return result(res, err)
	case "mkpoolp":
		p := A(0)
		if p < 0 || p >= maxPools || w.pools[p].live {
			return skip()
		}
		pool, res, err := w.alloc.CreatePool(vam.PoolCreateInfo{MemoryTypeIndex: A(1), BlockSize: A(2), MinBlockCount: A(3), Priority: float32(A(4)) / 1000})
		if err == nil {
			w.pools[p] = poolInfo{live: true, p: pool, typ: A(1), blockSize: A(2), minBlocks: A(3)}
		}
		return result(res, err)
	case "rmpool":
		p := A(0)
		if p < 0 || p >= maxPools || !w.pools[p].live {
			return skip()
		}
		for d := range w.defrag {
			if w.defrag[d].begun && w.defrag[d].pool == p {
				return skip()
			}
		}
		err := w.pools[p].p.Destroy()
		if err == nil {
			w.pools[p].live = false
		}
		return errOnly(err)
	case "cbuf", "cimg":
		return w.execCreateResource(op)
	case "dbuf", "dimg":
		r, a := A(0), A(1)
		if r < 0 || r >= maxRes || !w.res[r].live || !w.slotOK(a) || !w.sinfo[a].live || w.sinfo[a].res != r || w.inPendingMove(a) || w.sinfo[a].userMaps > 0 {
			return skip()
		}
		var err error
		if op.Name == "dbuf" {
			if w.res[r].image {
				return skip()
			}
			err = w.slots[a].DestroyBuffer(w.res[r].buf)
		} else {
			if !w.res[r].image {
				return skip()
			}
			err = w.slots[a].DestroyImage(w.res[r].img)
		}
		// the resource is destroyed before the free is attempted
		w.res[r].live = false
		if err == nil {
			w.markDead(a)
		} else {
			w.sinfo[a].res = -1
		}
		return errOnly(err)
	case "rbuf", "rimg":
		return w.execRawResource(op)
	case "rdres":
		r := A(0)
		if r < 0 || r >= maxRes || !w.res[r].live || w.res[r].owner >= 0 {
			return skip()
		}
		if w.res[r].image {
			w.drv.Driver.DestroyImage(w.res[r].img, nil)
		} else {
			w.drv.Driver.DestroyBuffer(w.res[r].buf, nil)
		}
		w.res[r].live = false
		return StepResult{Kind: "ok"}
	case "abuf", "aimg":
		a, r := A(0), A(1)
		if !w.slotOK(a) || w.sinfo[a].live || r < 0 || r >= maxRes || !w.res[r].live || w.res[r].image != (op.Name == "aimg") {
			return skip()
		}
		ci, ok := w.createInfo(A(2), A(3), A(4), A(5), A(6), A(7), a)
		if !ok {
			return skip()
		}
		w.cur.neverAlloc = A(3)&fNeverAllocate != 0
		var res common.VkResult
		var err error
		kind := kindBuffer
		if op.Name == "abuf" {
			res, err = w.alloc.AllocateMemoryForBuffer(w.res[r].buf, ci, &w.slots[a])
		} else {
			kind = kindImageUnknown
			res, err = w.alloc.AllocateMemoryForImage(w.res[r].img, ci, &w.slots[a])
		}
		if err == nil {
			rq := w.res[r].req
			wantDed := A(3)&fDedicated != 0 || A(2) == uLazy || (rq.RequiresDedicated && w.cfg.Dev.API >= 11)
			w.noteAlloc(a, rq.Size, rq.Alignment, rq.TypeBits, uint32(A(6)), A(7), A(3), kind, wantDed, -1)
		}
		return result(res, err)
	case "xbuf", "ximg":
		// aliasing resources: the library creates the resource and binds it inside the allocation
		r, a, off := A(0), A(1), A(2)
		if r < 0 || r >= maxRes || w.res[r].live || !w.slotOK(a) || !w.sinfo[a].live || w.inPendingMove(a) {
			return skip()
		}
		al := &w.slots[a]
		if m := w.dev.MemByID(simvk.MemID(al.Memory())); m != nil && m.DedicatedRes != 0 {
			// memory allocated for one specific resource (VkMemoryDedicatedAllocateInfo): aliasing it is the
			// caller's mistake, outside the API domain
			return skip()
		}
		if op.Name == "ximg" && off >= 0 && off+A(3) > al.Size() {
			// the library cannot know an image's size before the device reports it and, like VMA, leaves it
			// to the caller that an aliasing image fits its allocation (only the buffer variant checks)
			return skip()
		}
		req := simvk.ResReq{Size: A(3), Alignment: 1, TypeBits: 1 << uint(al.MemoryTypeIndex()), IgnoreGranularity: true}
		w.dev.SetPendingReq(&req)
		defer w.dev.SetPendingReq(nil)
		var res common.VkResult
		var err error
		if op.Name == "xbuf" {
			var buf core1_0.Buffer
			if off < -1000000 {
				buf, res, err = al.CreateAliasingBuffer(core1_0.BufferCreateInfo{Size: A(3)})
			} else {
				buf, res, err = al.CreateAliasingBufferWithOffset(off, core1_0.BufferCreateInfo{Size: A(3)})
			}
			if err == nil {
				w.res[r] = resInfo{live: true, id: simvk.BufferID(buf), kind: simvk.KindBuffer, buf: buf, req: req, owner: -1, bound: true, at: a}
			}
		} else {
			tiling, rk := core1_0.ImageTilingOptimal, simvk.KindImageOptimal
			if A(4) != 0 {
				tiling, rk = core1_0.ImageTilingLinear, simvk.KindImageLinear
			}
			info := core1_0.ImageCreateInfo{Extent: core1_0.Extent3D{Width: A(3), Height: 1, Depth: 1}, MipLevels: 1, ArrayLayers: 1, Tiling: tiling}
			var img core1_0.Image
			if off < -1000000 {
				img, res, err = al.CreateAliasingImage(info)
			} else {
				img, res, err = al.CreateAliasingImageWithOffset(off, info)
			}
			if err == nil {
				w.res[r] = resInfo{live: true, id: simvk.ImageID(img), image: true, kind: rk, img: img, req: req, owner: -1, bound: true, at: a}
			}
		}
		if err == nil {
			w.cur.aliasAt, w.cur.aliasOff, w.cur.aliasSize = a, off, A(3)
		}
		return result(res, err)
	case "bbuf", "bimg":
		a, r, off := A(0), A(1), A(2)
		if !w.slotOK(a) || !w.sinfo[a].live || r < 0 || r >= maxRes || !w.res[r].live || w.res[r].bound || w.res[r].image != (op.Name == "bimg") {
			return skip()
		}
		// the caller is responsible for a compatible allocation: check before calling
		rq := w.res[r].req
		al := &w.slots[a]
		o := off
		if o < 0 {
			o = 0
		}
		if rq.TypeBits&(1<<uint(al.MemoryTypeIndex())) == 0 || o+rq.Size > al.Size() ||
			(rq.Alignment > 0 && (o%rq.Alignment != 0 || w.sinfo[a].reqAlign%rq.Alignment != 0)) {
			return skip()
		}
		if rq.RequiresDedicated && w.cfg.Dev.API >= 11 && !(w.sinfo[a].wantDed && o == 0) {
			return skip()
		}
		var res common.VkResult
		var err error
		switch {
		case op.Name == "bbuf" && off < 0:
			res, err = al.BindBufferMemory(w.res[r].buf)
		case op.Name == "bbuf":
			res, err = al.BindBufferMemoryWithOffset(off, w.res[r].buf, nil)
		case off < 0:
			res, err = al.BindImageMemory(w.res[r].img)
		default:
			res, err = al.BindImageMemoryWithOffset(off, w.res[r].img, nil)
		}
		if err == nil {
			w.res[r].bound = true
			w.res[r].at = a
		}
		return result(res, err)
	case "dbegin", "dpass", "dmove", "dend", "dfin":
		return w.execDefrag(op)
	case "stats":
		s := w.alloc.BuildStatsString(A(0) != 0)
		if len(s) == 0 {
			return StepResult{Kind: "err"}
		}
		return StepResult{Kind: "ok"}
	case "destroy":
		for d := range w.defrag {
			if w.defrag[d].begun {
				return skip()
			}
		}
		err := w.alloc.Destroy()
		if err == nil {
			w.destroyed = true
		}
		return errOnly(err)
	}
	return skip()
}

// pattern byte i of (slot, version)
func pat(slot, ver, i int) byte {
	return byte((slot*131 + ver*31 + i*7 + (i >> 8)) ^ 0x5a)
}

// locate finds the live memory object whose backing store contains p.
func (w *World) locate(p unsafe.Pointer) (*simvk.Mem, int) {
	for _, m := range w.dev.LiveMems() {
		d := m.Data()
		if len(d) == 0 {
			continue
		}
		base := uintptr(unsafe.Pointer(unsafe.SliceData(d)))
		if uintptr(p) >= base && uintptr(p) < base+uintptr(len(d)) {
			return m, int(uintptr(p) - base)
		}
	}
	return nil, 0
}

func (w *World) execRW(a, ver int) StepResult {
	al := &w.slots[a]
	ptr, res, err := al.Map()
	if err != nil {
		return result(res, err)
	}
	size := al.Size()
	memID := simvk.MemID(al.Memory())
	off := al.FindOffset()
	fail := func(sig, f string, args ...any) {
		w.cur.c14fail = append(w.cur.c14fail, sig+" "+fmt.Sprintf(f, args...))
	}
	m, at := w.locate(ptr)
	switch {
	case ptr == nil:
		fail("map-nil-pointer", "slot %d Map returned nil", a)
	case m == nil:
		fail("map-pointer-outside-live-memory", "slot %d Map pointer is not inside any live memory object (reported m%d off %d)", a, memID, off)
	case at+size > m.Size:
		fail("map-pointer-overruns-object", "slot %d pointer at m%d+%d size %d overruns object size %d", a, m.ID, at, size, m.Size)
	default:
		if m.ID != memID || at != off {
			fail("map-pointer-wrong-location", "slot %d pointer addresses m%d+%d but allocation reports m%d+%d", a, m.ID, at, memID, off)
		}
		// does the pointer range overlap another live allocation?
		for s := range w.sinfo {
			if s == a || !w.sinfo[s].live {
				continue
			}
			o := &w.slots[s]
			if vam.VerifAllocationInfo(o).Allocated && simvk.MemID(o.Memory()) == m.ID {
				oo, os := o.FindOffset(), o.Size()
				if at < oo+os && oo < at+size {
					fail("map-pointer-into-other-allocation", "slot %d pointer range m%d[%d,+%d) overlaps slot %d [%d,+%d)", a, m.ID, at, size, s, oo, os)
				}
			}
		}
		if !m.Mapped() {
			fail("map-not-mapped-on-device", "slot %d mapped by user but m%d is not mapped on the device", a, m.ID)
		}
		b := unsafe.Slice((*byte)(ptr), size)
		for i := range b {
			b[i] = pat(a, ver, i)
		}
		w.sinfo[a].written = true
		w.sinfo[a].ver = ver
	}
	if err := al.Unmap(); err != nil {
		return StepResult{Kind: "err"}
	}
	return StepResult{Kind: "ok"}
}

func (w *World) execCreateResource(op Op) StepResult {
	A := op.arg
	r, a := A(0), A(1)
	if r < 0 || r >= maxRes || w.res[r].live || !w.slotOK(a) || w.sinfo[a].live {
		return skip()
	}
	if op.Name == "cbuf" {
		// r a size align reqTypeBits requiresDed prefersDed bufUsage usage flags required preferred createTypeBits pool minAlign
		ci, ok := w.createInfo(A(8), A(9), A(10), A(11), A(12), A(13), a)
		if !ok {
			return skip()
		}
		req := simvk.ResReq{Size: A(2), Alignment: A(3), TypeBits: uint32(A(4)), RequiresDedicated: A(5) != 0, PrefersDedicated: A(6) != 0}
		if p := A(13); p >= 0 && req.TypeBits&(1<<uint(w.pools[p].typ)) == 0 {
			return skip() // choosing a pool whose memory type the resource cannot use is a caller error
		}
		devReq := req
		devReq.IgnoreGranularity = A(13) >= 0 && w.pools[A(13)].flags&pfIgnoreGranularity != 0
		w.dev.SetPendingReq(&devReq)
		defer w.dev.SetPendingReq(nil)
		w.cur.neverAlloc = A(9)&fNeverAllocate != 0
		info := core1_0.BufferCreateInfo{Size: A(2), Usage: core1_0.BufferUsageFlags(A(7))}
		var buf core1_0.Buffer
		var res common.VkResult
		var err error
		if A(14) > 0 {
			buf, res, err = w.alloc.CreateBufferWithAlignment(info, ci, A(14), &w.slots[a])
		} else {
			buf, res, err = w.alloc.CreateBuffer(info, ci, &w.slots[a])
		}
		if err == nil {
			w.res[r] = resInfo{live: true, id: simvk.BufferID(buf), kind: simvk.KindBuffer, buf: buf, req: req, owner: a, bound: A(9)&fDontBind == 0, at: a}
			align := A(3)
			if A(14) > align {
				align = A(14)
			}
			wantDed := A(9)&fDedicated != 0 || A(8) == uLazy || (req.RequiresDedicated && w.cfg.Dev.API >= 11)
			w.noteAlloc(a, A(2), align, uint32(A(4)), uint32(A(12)), A(13), A(9), kindBuffer, wantDed, r)
		}
		return result(res, err)
	}
	// cimg: r a tiling size align reqTypeBits requiresDed prefersDed imgUsage usage flags required preferred createTypeBits pool
	ci, ok := w.createInfo(A(9), A(10), A(11), A(12), A(13), A(14), a)
	if !ok {
		return skip()
	}
	req := simvk.ResReq{Size: A(3), Alignment: A(4), TypeBits: uint32(A(5)), RequiresDedicated: A(6) != 0, PrefersDedicated: A(7) != 0}
	if p := A(14); p >= 0 && req.TypeBits&(1<<uint(w.pools[p].typ)) == 0 {
		return skip()
	}
	devReq := req
	devReq.IgnoreGranularity = A(14) >= 0 && w.pools[A(14)].flags&pfIgnoreGranularity != 0
	w.dev.SetPendingReq(&devReq)
	defer w.dev.SetPendingReq(nil)
	w.cur.neverAlloc = A(10)&fNeverAllocate != 0
	tiling := core1_0.ImageTilingOptimal
	kind, rk := kindImageOptimal, simvk.KindImageOptimal
	if A(2) != 0 {
		tiling = core1_0.ImageTilingLinear
		kind, rk = kindImageLinear, simvk.KindImageLinear
	}
	info := core1_0.ImageCreateInfo{Extent: core1_0.Extent3D{Width: A(3), Height: 1, Depth: 1}, MipLevels: 1, ArrayLayers: 1, Tiling: tiling, Usage: core1_0.ImageUsageFlags(A(8))}
	img, res, err := w.alloc.CreateImage(info, ci, &w.slots[a])
	if err == nil {
		w.res[r] = resInfo{live: true, id: simvk.ImageID(img), image: true, kind: rk, img: img, req: req, owner: a, bound: A(10)&fDontBind == 0, at: a}
		wantDed := A(10)&fDedicated != 0 || A(9) == uLazy || (req.RequiresDedicated && w.cfg.Dev.API >= 11)
		w.noteAlloc(a, A(3), A(4), uint32(A(5)), uint32(A(13)), A(14), A(10), kind, wantDed, r)
	}
	return result(res, err)
}

func (w *World) execRawResource(op Op) StepResult {
	A := op.arg
	r := A(0)
	if r < 0 || r >= maxRes || w.res[r].live {
		return skip()
	}
	if op.Name == "rbuf" {
		req := simvk.ResReq{Size: A(1), Alignment: A(2), TypeBits: uint32(A(3)), RequiresDedicated: A(4) != 0, PrefersDedicated: A(5) != 0}
		w.dev.SetPendingReq(&req)
		defer w.dev.SetPendingReq(nil)
		buf, res, err := w.drv.Driver.CreateBuffer(nil, core1_0.BufferCreateInfo{Size: A(1)})
		if err == nil {
			w.res[r] = resInfo{live: true, id: simvk.BufferID(buf), kind: simvk.KindBuffer, buf: buf, req: req, owner: -1, at: -1}
		}
		return result(res, err)
	}
	req := simvk.ResReq{Size: A(2), Alignment: A(3), TypeBits: uint32(A(4)), RequiresDedicated: A(5) != 0, PrefersDedicated: A(6) != 0}
	w.dev.SetPendingReq(&req)
	defer w.dev.SetPendingReq(nil)
	tiling, rk := core1_0.ImageTilingOptimal, simvk.KindImageOptimal
	if A(1) != 0 {
		tiling, rk = core1_0.ImageTilingLinear, simvk.KindImageLinear
	}
	img, res, err := w.drv.Driver.CreateImage(nil, core1_0.ImageCreateInfo{Extent: core1_0.Extent3D{Width: A(2), Height: 1, Depth: 1}, MipLevels: 1, ArrayLayers: 1, Tiling: tiling})
	if err == nil {
		w.res[r] = resInfo{live: true, id: simvk.ImageID(img), image: true, kind: rk, img: img, req: req, owner: -1, at: -1}
	}
	return result(res, err)
}

func (w *World) execDefrag(op Op) StepResult {
	A := op.arg
	d := A(0)
	if d < 0 || d >= maxDefrag {
		return skip()
	}
	di := &w.defrag[d]
	switch op.Name {
	case "dbegin":
		if di.begun {
			return skip()
		}
		// only one run at a time per block list: keep it simple and allow one run at a time overall
		for i := range w.defrag {
			if w.defrag[i].begun {
				return skip()
			}
		}
		info := vam.DefragmentationInfo{Flags: vam.DefragmentationFlags(A(1)), MaxBytesPerPass: A(3), MaxAllocationsPerPass: A(4)}
		if A(2) >= 0 {
			if A(2) >= maxPools || !w.pools[A(2)].live {
				return skip()
			}
			info.Pool = w.pools[A(2)].p
		}
		if di.ctx == nil {
			di.ctx = &vam.DefragmentationContext{}
		}
		res, err := w.alloc.BeginDefragmentation(info, di.ctx)
		if err == nil {
			di.begun = true
			di.inPass = false
			di.pool = A(2)
			di.flags, di.maxBytes, di.maxAllocs = A(1), A(3), A(4)
			di.copies, di.copyBytes, di.passes = 0, 0, 0
			w.cur.defragBegin = d
		}
		return result(res, err)
	case "dpass":
		if !di.begun || di.inPass {
			return skip()
		}
		// API domain: Map holds a read lock on the Allocation until Unmap, and BeginDefragPass
		// write-locks the allocations it relocates, so a pass cannot begin (it would block) while
		// the caller has outstanding user mappings
		for i := range w.sinfo {
			if w.sinfo[i].live && w.sinfo[i].userMaps > 0 {
				return skip()
			}
		}
		raw := di.ctx.BeginDefragPass()
		di.raw = raw
		di.moves = di.moves[:0]
		di.inPass = true
		di.passes++
		extra := []string{fmt.Sprintf("MOVES %d", len(raw))}
		for i := range raw {
			mv := moveInfo{src: w.slotOf(raw[i].SrcAllocation), size: raw[i].Size, decision: mvCopy, srcMem: -1, dstMem: -1}
			if s := raw[i].SrcAllocation; s != nil && vam.VerifAllocationInfo(s).Allocated {
				mv.srcMem, mv.srcOff = simvk.MemID(s.Memory()), s.FindOffset()
				mv.srcBlock = int(vam.VerifAllocationInfo(s).BlockMemoryHandle)
			}
			if t := raw[i].DstTmpAllocation; t != nil && vam.VerifAllocationInfo(t).Allocated {
				mv.dstMem, mv.dstOff = simvk.MemID(t.Memory()), t.FindOffset()
			}
			di.moves = append(di.moves, mv)
			extra = append(extra, fmt.Sprintf("MV %d %d %d %d %d %d %d", i, mv.src, mv.srcMem, mv.srcOff, mv.dstMem, mv.dstOff, mv.size))
		}
		return StepResult{Kind: "ok", Extra: extra}
	case "dmove":
		i, dec := A(1), A(2)
		if !di.inPass || i < 0 || i >= len(di.moves) || dec < 0 || dec > 2 {
			return skip()
		}
		di.moves[i].decision = dec
		di.raw[i].MoveOperation = defrag.DefragmentationMoveOperation(dec)
		return StepResult{Kind: "ok"}
	case "dend":
		if !di.inPass {
			return skip()
		}
		w.cur.movedSlots = map[int]moveInfo{}
		w.cur.ignoredSlots = map[int]bool{}
		w.cur.destroyed = map[int]bool{}
		w.cur.defragEnd = true
		// the user performs the copies before ending the pass
		for _, mv := range di.moves {
			if mv.decision == mvCopy && mv.srcMem > 0 && mv.dstMem > 0 {
				sm, dm := w.dev.MemByID(mv.srcMem), w.dev.MemByID(mv.dstMem)
				if sm != nil && dm != nil && sm.Alive() && dm.Alive() && mv.srcOff+mv.size <= sm.Size && mv.dstOff+mv.size <= dm.Size {
					copy(dm.Data()[mv.dstOff:mv.dstOff+mv.size], sm.Data()[mv.srcOff:mv.srcOff+mv.size])
				}
			}
		}
		done, err := di.ctx.EndDefragPass()
		di.inPass = false
		for _, mv := range di.moves {
			switch mv.decision {
			case mvCopy:
				di.copies++
				di.copyBytes += mv.size
				if mv.src >= 0 {
					w.cur.movedSlots[mv.src] = mv
					// a resource bound to the place the allocation has left is stale from here on: the
					// application has to recreate it at the new place (a Vulkan resource cannot be rebound).
					// The simulated device must not count the stale binding as an occupant of the vacated
					// range, which the allocator may hand out again.
					for r := range w.res {
						if w.res[r].live && (w.res[r].owner == mv.src || w.res[r].bound && w.res[r].at == mv.src) {
							w.dev.MarkStale(w.res[r].id)
						}
					}
					w.stats.defragMoves++
					if mv.srcMem != mv.dstMem {
						w.stats.crossBlockMoves++
					}
				}
			case mvIgnore:
				if mv.src >= 0 {
					w.cur.ignoredSlots[mv.src] = true
				}
			case mvDestroy:
				if mv.src >= 0 {
					w.cur.destroyed[mv.src] = true
					if r := w.sinfo[mv.src].res; r >= 0 {
						// the resource stays alive on the device; it becomes a raw resource the harness destroys itself
						w.res[r].owner = -1
					}
					w.markDead(mv.src)
				}
			}
		}
		di.raw = nil
		b := 0
		if done {
			b = 1
		}
		r := errOnly(err)
		r.Extra = []string{fmt.Sprintf("DEND %d", b)}
		return r
	case "dfin":
		if !di.begun || di.inPass {
			return skip()
		}
		var st defrag.DefragmentationStats
		di.ctx.Finish(&st)
		di.begun = false
		di.runs++
		w.cur.defragFin = d
		w.cur.finStats = st
		w.cur.finCopies, w.cur.finBytes = di.copies, di.copyBytes
		return StepResult{Kind: "ok", Extra: []string{fmt.Sprintf("DSTATS %d %d %d %d", st.BytesMoved, st.BytesFreed, st.AllocationsMoved, st.AllocationsFreed)}}
	}
	return skip()
}
