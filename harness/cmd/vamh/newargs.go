package main

import (
	"fmt"

	"github.com/vkngwrapper/arsenal/vam"
	"github.com/vkngwrapper/extensions/v3/khr_external_memory_capabilities"

	"verif/harness/internal/simvk"
)

// cmdNewArgs: vam.New with malformed CreateOptions must return an error (never panic, never succeed), and with
// well-formed boundary options must succeed (C13).  A fixed list: the generated histories create their allocator
// from well-formed options only.
func cmdNewArgs() {
	cfg := simvk.Config{
		API:   11,
		Heaps: []simvk.HeapCfg{{Size: 64 << 20, DeviceLocal: true}, {Size: 32 << 20}},
		Types: []simvk.TypeCfg{{Heap: 0, Flags: simvk.PropDeviceLocal}, {Heap: 1, Flags: simvk.PropHostVisible | simvk.PropHostCoherent}, {Heap: 1, Flags: simvk.PropHostVisible}},
		Granularity: 64, AtomSize: 64, MaxAllocCount: 4096, TableSize: 1 << 12,
	}
	type tc struct {
		name    string
		opts    vam.CreateOptions
		wantErr bool
	}
	ext := func(n int) []khr_external_memory_capabilities.ExternalMemoryHandleTypeFlags {
		return make([]khr_external_memory_capabilities.ExternalMemoryHandleTypeFlags, n)
	}
	cases := []tc{
		{"defaults", vam.CreateOptions{}, false},
		{"heap-limits-exact-length", vam.CreateOptions{HeapSizeLimits: []int{1 << 20, 0}}, false},
		{"heap-limits-too-short", vam.CreateOptions{HeapSizeLimits: []int{1 << 20}}, true},
		{"heap-limits-too-long", vam.CreateOptions{HeapSizeLimits: []int{1, 2, 3}}, true},
		{"external-types-exact-length", vam.CreateOptions{ExternalMemoryHandleTypes: ext(3)}, false},
		{"external-types-heap-count", vam.CreateOptions{ExternalMemoryHandleTypes: ext(2)}, true},
		{"external-types-too-long", vam.CreateOptions{ExternalMemoryHandleTypes: ext(4)}, true},
	}
	bad := 0
	for _, c := range cases {
		dev := simvk.NewDevice(cfg)
		drv := simvk.NewDriver(dev)
		var a *vam.Allocator
		var err error
		panicked := func() (p bool) {
			defer func() {
				if r := recover(); r != nil {
					p = true
					fmt.Printf("ORACLE-FAIL property=C13 sig=new-panic-%s vam.New panicked: %v\n", c.name, r)
				}
			}()
			a, err = vam.New(discardLogger, drv.Driver, drv.PhysicalDevice, c.opts)
			return false
		}()
		switch {
		case panicked:
			bad++
		case c.wantErr && err == nil:
			bad++
			fmt.Printf("ORACLE-FAIL property=C13 sig=new-accepted-%s vam.New accepted malformed options\n", c.name)
		case !c.wantErr && err != nil:
			bad++
			fmt.Printf("ORACLE-FAIL property=C13 sig=new-refused-%s vam.New refused well-formed options: %v\n", c.name, err)
		}
		if a != nil && err == nil {
			if derr := a.Destroy(); derr != nil {
				fmt.Printf("ORACLE-FAIL property=C20 sig=destroy-after-new-%s Destroy of a fresh allocator failed: %v\n", c.name, derr)
			}
		}
	}
	fmt.Printf("newargs: %d cases, %d problems\n", len(cases), bad)
}
