package main

// shrink reduces a failing history to a small one that still fails with the same (property, sig) key.
// Strategy: truncate after the first failing step, then delta-debug the op list (dropping chunks of
// decreasing size), then halve sizes of allocation requests, always re-executing on the real code.
func shrink(h *history, key string) *history {
	cfg := h.cfg
	budget := 600

	fails := func(ops []Op) *history {
		if budget <= 0 {
			return nil
		}
		budget--
		r := runHistory(cfg, &listSource{ops: ops}, len(ops), key)
		if _, ok := r.failKeys()[key]; ok {
			return r
		}
		return nil
	}

	// truncate at first failure
	ops := h.ops()
	for i := range h.steps {
		hit := false
		for _, f := range h.steps[i].fails {
			hit = hit || f.key() == key
		}
		if hit {
			ops = ops[:i+1]
			break
		}
	}
	best := fails(ops)
	if best == nil {
		return h // not reproducible deterministically: keep the original
	}
	ops = best.ops()

	// delta debugging on the op list (never drop op 0 = "new")
	for chunk := len(ops) / 2; chunk >= 1; {
		removed := false
		for start := 1; start < len(ops); {
			end := start + chunk
			if end > len(ops) {
				end = len(ops)
			}
			cand := append(append([]Op(nil), ops[:start]...), ops[end:]...)
			if r := fails(cand); r != nil {
				best = r
				ops = r.ops()
				removed = true
			} else {
				start = end
			}
			if budget <= 0 {
				break
			}
		}
		if budget <= 0 {
			break
		}
		if !removed || chunk > len(ops)/2 {
			chunk /= 2
		}
	}

	// drop skipped ops (they do nothing)
	var cand []Op
	for i := range best.steps {
		if best.steps[i].res.Kind != "skip" {
			cand = append(cand, best.steps[i].op)
		}
	}
	if len(cand) < len(ops) {
		if r := fails(cand); r != nil {
			best, ops = r, r.ops()
		}
	}

	// halve sizes
	sizeArg := map[string]int{"alloc": 1, "allocn": 2, "cbuf": 2, "cimg": 3, "rbuf": 1, "rimg": 2}
	for pass := 0; pass < 3 && budget > 0; pass++ {
		for i := 0; i < len(ops); i++ {
			idx, ok := sizeArg[ops[i].Name]
			if !ok || ops[i].Args[idx] < 2 {
				continue
			}
			cand := append([]Op(nil), ops...)
			cand[i] = Op{Name: ops[i].Name, Args: append([]int(nil), ops[i].Args...)}
			cand[i].Args[idx] /= 2
			if r := fails(cand); r != nil {
				best, ops = r, r.ops()
			}
			if budget <= 0 {
				break
			}
		}
	}
	return best
}
