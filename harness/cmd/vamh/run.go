package main

import (
	"bufio"
	"fmt"
	"hash/fnv"
	"os"
	"strconv"
	"strings"

	"verif/harness/internal/simvk"
)

// distStats counts what a history exercised (for the summary JSON).
type distStats struct {
	mapEvents       int
	defragMoves     int
	crossBlockMoves int
	hysteresisFlips int
	maxLiveAllocs   int
	maxBlocksInList int
	defragPasses    int
	defragRuns      int
	ctxReuse        int
	dedicated       int
}

type stepRecord struct {
	op    Op
	calls []simvk.Call
	res   StepResult
	lines []string // everything after the OP line
	fails []oracleFail
}

type history struct {
	cfg     WorldCfg
	steps   []stepRecord
	world   *World
	callCnt [simvk.NumCallKinds]int64
}

// opSource yields the next op given the current world (online generation) or from a list (replay).
type opSource interface {
	next(w *World) (Op, bool)
}

type listSource struct {
	ops []Op
	i   int
}

func (l *listSource) next(*World) (Op, bool) {
	if l.i >= len(l.ops) {
		return Op{}, false
	}
	l.i++
	return l.ops[l.i-1], true
}

// runHistory executes ops from src on a fresh world, evaluating observables and oracles after each step.
// If stopAtFail is non-empty, the run stops as soon as a failure with that key ("Cxx/sig") was seen.
func runHistory(cfg WorldCfg, src opSource, maxOps int, stopAtFail string) *history {
	w := newWorld(cfg)
	h := &history{cfg: cfg, world: w}
	var prev *snapshot
	extraPrev := map[int]bool{}
	for n := 0; n < maxOps; n++ {
		op, ok := src.next(w)
		if !ok {
			break
		}
		res := w.Step(op)
		calls := w.dev.TakeLog()
		viols := w.dev.TakeViolations()
		notes := w.dev.TakeNotes()
		cur := w.observe()
		w.dev.TakeLog() // drop anything the observation itself caused
		fails := w.checkStep(prev, cur, res, calls, viols, notes)

		rec := stepRecord{op: op, res: res, fails: fails, calls: calls}
		L := []string{res.line()}
		L = append(L, res.Extra...)
		if w.cur.faulted {
			L = append(L, fmt.Sprintf("FAULTS %d", w.cur.faultsFired))
		}
		for _, c := range calls {
			L = append(L, "CALL "+c.String())
		}
		for _, v := range viols {
			L = append(L, "VIOL "+v.Code)
		}
		for _, v := range notes {
			L = append(L, "NOTE "+v.Code)
		}
		L = append(L, cur.lines...)
		for _, f := range fails {
			L = append(L, f.line())
		}
		rec.lines = L
		h.steps = append(h.steps, rec)

		// distribution counters
		if len(cur.allocs) > w.stats.maxLiveAllocs {
			w.stats.maxLiveAllocs = len(cur.allocs)
		}
		extraNow := map[int]bool{}
		for _, l := range cur.lists {
			if len(l.blocks) > w.stats.maxBlocksInList {
				w.stats.maxBlocksInList = len(l.blocks)
			}
			for _, b := range l.blocks {
				extraNow[int(b.MemoryHandle)] = b.ExtraMapping
				if was, ok := extraPrev[int(b.MemoryHandle)]; ok && was != b.ExtraMapping || (!ok && b.ExtraMapping) {
					w.stats.hysteresisFlips++
				}
			}
		}
		extraPrev = extraNow
		if res.Kind == "ok" {
			switch op.Name {
			case "dpass":
				w.stats.defragPasses++
			case "dfin":
				w.stats.defragRuns++
			case "dbegin":
				if w.defrag[op.arg(0)].runs > 0 {
					w.stats.ctxReuse++
				}
			}
		}
		for _, s := range w.cur.dedSlots {
			_ = s
			w.stats.dedicated++
		}
		prev = cur
		if stopAtFail != "" {
			for _, f := range fails {
				if f.key() == stopAtFail {
					goto done
				}
			}
		}
		if cur.obsPanic != "" {
			w.poisoned = true
		}
		if w.poisoned {
			break
		}
	}
done:
	for k := 0; k < int(simvk.NumCallKinds); k++ {
		h.callCnt[k] = w.dev.CallCounts[k].Load()
	}
	return h
}

// runHistoryTail executes ops on a fresh world; observables and oracles are evaluated only from step
// index from-1 on (the prefix is executed without observation, which is much faster).
func runHistoryTail(cfg WorldCfg, ops []Op, from int) *history {
	w := newWorld(cfg)
	h := &history{cfg: cfg, world: w}
	var prev *snapshot
	for i, op := range ops {
		res := w.Step(op)
		calls := w.dev.TakeLog()
		viols := w.dev.TakeViolations()
		notes := w.dev.TakeNotes()
		rec := stepRecord{op: op, res: res, calls: calls}
		if i >= from-1 {
			cur := w.observe()
			w.dev.TakeLog()
			if i >= from {
				rec.fails = w.checkStep(prev, cur, res, calls, viols, notes)
			}
			prev = cur
			if cur.obsPanic != "" {
				w.poisoned = true
			}
		}
		h.steps = append(h.steps, rec)
		if w.poisoned {
			// keep the step list aligned with the op list
			for _, rest := range ops[i+1:] {
				h.steps = append(h.steps, stepRecord{op: rest, res: StepResult{Kind: "skip"}})
			}
			break
		}
	}
	return h
}

func (h *history) ops() []Op {
	out := make([]Op, len(h.steps))
	for i := range h.steps {
		out[i] = h.steps[i].op
	}
	return out
}

// opHash hashes the configuration and op lines (identity of a history).
func (h *history) opHash() string {
	f := fnv.New64a()
	for _, l := range h.cfg.headerLines() {
		f.Write([]byte(l))
		f.Write([]byte{'\n'})
	}
	for i := range h.steps {
		f.Write([]byte(h.steps[i].op.String()))
		f.Write([]byte{'\n'})
	}
	return fmt.Sprintf("%016x", f.Sum64())
}

func (h *history) failKeys() map[string]oracleFail {
	m := map[string]oracleFail{}
	for i := range h.steps {
		for _, f := range h.steps[i].fails {
			if _, ok := m[f.key()]; !ok {
				m[f.key()] = f
			}
		}
	}
	return m
}

func (h *history) write(path string, comments ...string) error {
	f, err := os.Create(path)
	if err != nil {
		return err
	}
	defer f.Close()
	bw := bufio.NewWriter(f)
	for _, l := range h.cfg.headerLines() {
		fmt.Fprintln(bw, l)
	}
	for _, c := range comments {
		fmt.Fprintln(bw, "# "+c)
	}
	for i := range h.steps {
		fmt.Fprintln(bw, "OP "+h.steps[i].op.String())
		for _, l := range h.steps[i].lines {
			fmt.Fprintln(bw, l)
		}
	}
	fmt.Fprintln(bw, "END")
	return bw.Flush()
}

// traceFile is a parsed trace.
type traceFile struct {
	cfg   WorldCfg
	ops   []Op
	lines [][]string // recorded observable lines per op
}

func atoi(s string) int {
	v, _ := strconv.Atoi(s)
	return v
}

func readTrace(path string) (*traceFile, error) {
	f, err := os.Open(path)
	if err != nil {
		return nil, err
	}
	defer f.Close()
	t := &traceFile{}
	sc := bufio.NewScanner(f)
	sc.Buffer(make([]byte, 1<<20), 1<<24)
	var nh, nt int
	for sc.Scan() {
		line := strings.TrimSpace(sc.Text())
		if line == "" || line[0] == '#' {
			continue
		}
		fl := strings.Fields(line)
		switch fl[0] {
		case "VAMH":
		case "CFG":
			if len(fl) != 11 {
				return nil, fmt.Errorf("bad CFG line %q", line)
			}
			d := &t.cfg.Dev
			d.API, d.Integrated, d.Granularity, d.AtomSize, d.MaxAllocCount = atoi(fl[1]), atoi(fl[2]) != 0, atoi(fl[3]), atoi(fl[4]), atoi(fl[5])
			d.BudgetExt = atoi(fl[6]) != 0
			t.cfg.LargeBlock = atoi(fl[7])
			t.cfg.ExtSync = atoi(fl[8]) != 0
			nh, nt = atoi(fl[9]), atoi(fl[10])
			d.Heaps = make([]simvk.HeapCfg, nh)
			d.Types = make([]simvk.TypeCfg, nt)
			d.HeapBudget = make([]int, nh)
			d.HeapOtherUsage = make([]int, nh)
		case "HEAPCFG":
			i := atoi(fl[1])
			if len(fl) != 7 || i < 0 || i >= nh {
				return nil, fmt.Errorf("bad HEAPCFG line %q", line)
			}
			t.cfg.Dev.Heaps[i] = simvk.HeapCfg{Size: atoi(fl[2]), DeviceLocal: atoi(fl[3]) != 0}
			if lim := atoi(fl[4]); lim >= 0 {
				if t.cfg.HeapLimits == nil {
					t.cfg.HeapLimits = make([]int, nh)
				}
				t.cfg.HeapLimits[i] = lim
			}
			t.cfg.Dev.HeapBudget[i] = atoi(fl[5])
			t.cfg.Dev.HeapOtherUsage[i] = atoi(fl[6])
		case "TYPECFG":
			i := atoi(fl[1])
			if len(fl) != 4 || i < 0 || i >= nt {
				return nil, fmt.Errorf("bad TYPECFG line %q", line)
			}
			t.cfg.Dev.Types[i] = simvk.TypeCfg{Heap: atoi(fl[2]), Flags: uint32(atoi(fl[3]))}
		case "OP":
			op, err := parseOp(fl[1:])
			if err != nil {
				return nil, err
			}
			t.ops = append(t.ops, op)
			t.lines = append(t.lines, nil)
		case "END":
		default:
			if len(t.ops) == 0 {
				return nil, fmt.Errorf("observable line before first OP: %q", line)
			}
			t.lines[len(t.ops)-1] = append(t.lines[len(t.ops)-1], line)
		}
	}
	return t, sc.Err()
}
