package main

import (
	"fmt"
	"sort"
	"strings"

	"github.com/vkngwrapper/arsenal/vam"

	"verif/harness/internal/simvk"
)

type oracleFail struct {
	prop   string
	sig    string
	detail string
}

func (f oracleFail) line() string {
	return fmt.Sprintf("ORACLE-FAIL property=%s sig=%s %s", f.prop, f.sig, f.detail)
}

func (f oracleFail) key() string { return f.prop + "/" + f.sig }

type failSink struct {
	fails []oracleFail
	seen  map[string]bool
}

func (s *failSink) add(prop, sig, format string, args ...any) {
	k := prop + "/" + sig
	if s.seen == nil {
		s.seen = map[string]bool{}
	}
	if s.seen[k] {
		return // one report per (property, signature) per step
	}
	s.seen[k] = true
	s.fails = append(s.fails, oracleFail{prop: prop, sig: sig, detail: fmt.Sprintf(format, args...)})
}

func (w *World) typeFlags(t int) uint32 {
	if t < 0 || t >= len(w.cfg.Dev.Types) {
		return 0
	}
	return w.cfg.Dev.Types[t].Flags
}

func (w *World) heapOf(t int) int {
	if t < 0 || t >= len(w.cfg.Dev.Types) {
		return -1
	}
	return w.cfg.Dev.Types[t].Heap
}

func isNonCoherent(flags uint32) bool {
	return flags&(simvk.PropHostVisible|simvk.PropHostCoherent) == simvk.PropHostVisible
}

// kindConflict: may two allocations of these suballocation kinds share a granularity page?
// Ground truth: linear resources (buffers, linear images) vs optimal images conflict; anything of unknown
// kind conflicts with everything (the allocator cannot know what will be bound there).
func kindConflict(a, b int) bool {
	if a > b {
		a, b = b, a
	}
	switch a {
	case kindUnknown:
		return true
	case kindBuffer:
		return b == kindImageUnknown || b == kindImageOptimal
	case kindImageUnknown:
		return true
	case kindImageLinear:
		return b == kindImageOptimal
	}
	return false
}

// checkStep evaluates every per-step oracle.
func (w *World) checkStep(prev, cur *snapshot, res StepResult, calls []simvk.Call, viols, notes []simvk.Violation) []oracleFail {
	var fs failSink
	op := w.cur.op

	// ---- C13: panics, hangs, observation panics ----
	switch res.Kind {
	case "panic":
		fs.add("C13", res.PanicMsg, "op %q panicked", op.String())
	case "hang":
		fs.add("C13", "hang", "op %q did not return within the watchdog time", op.String())
	}
	if cur.obsPanic != "" {
		fs.add("C13", "observe-"+cur.obsPanic, "reading observables panicked after op %q", op.String())
		return fs.fails
	}
	if w.poisoned {
		// after a panic only the device-level facts are meaningful
		for _, v := range viols {
			fs.add("C08", v.Code, "%s", v.String())
		}
		return fs.fails
	}

	// ---- C08: valid usage ----
	for _, v := range viols {
		fs.add("C08", v.Code, "%s", v.String())
	}
	for _, n := range notes {
		if n.Code == "granularity-conflict" {
			fs.add("C09", "bound-resources-share-page", "%s", n.Detail)
		}
	}
	if w.alloc == nil {
		return fs.fails
	}

	// ---- C08: an aliasing resource the library created and bound lies inside the allocation ----
	if a := w.cur.aliasAt; a >= 0 && res.Kind == "ok" {
		off := w.cur.aliasOff
		if off < -1000000 {
			off = 0
		}
		// (for an image the library cannot know the size before the device reports it: only the buffer variant
		// promises that the range fits; a negative offset is refused for both)
		if off < 0 || op.Name == "xbuf" && off+w.cur.aliasSize > w.slots[a].Size() {
			fs.add("C08", "alias-outside-allocation", "op %q bound an aliasing resource at local range [%d,+%d) of an allocation of %d bytes", op.String(), off, w.cur.aliasSize, w.slots[a].Size())
		}
	}

	// ---- C13: a refused op changes nothing ----
	// (an operation that failed because an injected driver fault fired is not a refused request: what it may
	// leave behind - e.g. the new block kept as an empty spare block - is C10's subject, checked below)
	if res.Kind == "err" && prev != nil && op.Name != "dend" && op.Name != "dbuf" && op.Name != "dimg" && prev.stateKey != cur.stateKey &&
		!(w.cur.faulted && w.cur.faultsFired > 0) {
		// the property speaks of live allocations, their locations, device memory held and counters:
		// the order of blocks inside a list is not part of it (a refused request may re-sort blocks)
		pl, cl := refusalView(prev.lines), refusalView(cur.lines)
		if strings.Join(pl, "\n") != strings.Join(cl, "\n") {
			kind, detail := firstDiff(pl, cl)
			if releasedOnlySpareBlocks(prev.lines, cur.lines) {
				kind = "released-spare-block"
			}
			fs.add("C13", "refused-"+op.Name+"-changed-"+kind, "op %q returned an error but state changed: %s", op.String(), detail)
		}
	}

	// ---- C10: an operation that failed under an injected fault leaves reusable Allocation objects ----
	targetSlots := func() []int {
		switch op.Name {
		case "alloc", "abuf", "aimg":
			return []int{op.arg(0)}
		case "cbuf", "cimg":
			return []int{op.arg(1)}
		case "allocn":
			var out []int
			for i := 0; i < op.arg(1); i++ {
				out = append(out, op.arg(0)+i)
			}
			return out
		}
		return nil
	}
	if w.cur.faulted && w.cur.faultsFired > 0 && res.Kind == "err" {
		if w.faultFailedSlots == nil {
			w.faultFailedSlots = map[int]bool{}
		}
		for _, s := range targetSlots() {
			w.faultFailedSlots[s] = true
		}
	} else if !w.cur.faulted && op.Name == "alloc" && w.faultFailedSlots[op.arg(0)] {
		delete(w.faultFailedSlots, op.arg(0))
		// VKErrorUnknown is also what argument validation returns (contradictory flags, NeverAllocate with an
		// implied dedicated allocation, ...): only a plain, valid request tells something about the slot itself
		A := op.arg
		plain := A(1) > 0 && A(2) > 0 && A(2)&(A(2)-1) == 0 && A(3) != 0 && (A(4) == uUnknown || A(4) == uAuto) &&
			A(5)&^(fStratMinMemory|fStratMinTime|fStratMinOffset) == 0 && A(9) < 0
		if res.Kind == "err" && res.Vk == simvk.ResUnknown && plain {
			fs.add("C10", "slot-not-reusable-after-failed-operation", "slot %d cannot be allocated into after an operation on it failed (op %q)", op.arg(0), op.String())
		}
	}

	// ---- C10 / C13: harness belief vs Allocation objects ----
	for _, s := range cur.lost {
		fs.add("C06", "live-allocation-lost", "slot %d should be live but its Allocation is not allocated (after %q)", s, op.String())
	}
	for _, s := range cur.zombies {
		fs.add("C10", "dead-slot-still-allocated", "slot %d is not a live allocation for the caller but Allocation.memory != nil (after %q)", s, op.String())
	}

	all := append(append([]allocObs(nil), cur.allocs...), cur.temps...)
	byMem := map[int][]allocObs{}
	for _, o := range all {
		byMem[o.mem] = append(byMem[o.mem], o)
	}
	name := func(o allocObs) string {
		if o.slot >= 0 {
			return fmt.Sprintf("slot %d", o.slot)
		}
		return fmt.Sprintf("defrag temp %d/%d", o.d, o.di)
	}

	// ---- C02 ----
	atom := w.cfg.Dev.AtomSize
	for _, o := range all {
		m := w.dev.MemByID(o.mem)
		if m == nil || !m.Alive() {
			fs.add("C02", "memory-not-live", "%s reports m%d which is not a live device memory object", name(o), o.mem)
			continue
		}
		if m.Type != o.typ {
			fs.add("C02", "memory-type-mismatch", "%s reports type %d but m%d has type %d", name(o), o.typ, o.mem, m.Type)
		}
		if o.off < 0 || o.size <= 0 || o.off+o.size > m.Size {
			fs.add("C02", "range-outside-object", "%s range [%d,+%d) outside m%d of size %d", name(o), o.off, o.size, o.mem, m.Size)
		}
		if o.info.Type == 1 && o.info.MemoryHandle != o.info.BlockMemoryHandle {
			fs.add("C02", "stale-memory-field", "%s: Allocation.Memory() is m%d but its block's memory is m%d", name(o), o.info.MemoryHandle, o.info.BlockMemoryHandle)
		}
		if o.slot >= 0 {
			si := &w.sinfo[o.slot]
			if si.typeBits != 0 && si.typeBits&(1<<uint(o.typ)) == 0 {
				fs.add("C02", "type-not-permitted", "slot %d got type %d, permitted mask %#x", o.slot, o.typ, si.typeBits)
			}
			if si.reqAlign > 0 && o.off%si.reqAlign != 0 {
				fs.add("C02", "misaligned", "slot %d offset %d is not a multiple of requested alignment %d", o.slot, o.off, si.reqAlign)
			}
			if si.pool >= 0 && w.pools[si.pool].minAlign > 0 && o.off%w.pools[si.pool].minAlign != 0 {
				fs.add("C02", "pool-min-alignment", "slot %d offset %d is not a multiple of pool min alignment %d", o.slot, o.off, w.pools[si.pool].minAlign)
			}
			if si.pool != o.pool {
				fs.add("C02", "wrong-pool", "slot %d requested pool %d but belongs to pool %d", o.slot, si.pool, o.pool)
			}
			if o.size < si.reqSize {
				fs.add("C02", "too-small", "slot %d size %d < requested %d", o.slot, o.size, si.reqSize)
			}
			if ud, ok := w.slots[o.slot].UserData().(int); !ok || ud != o.slot {
				fs.add("C07", "user-data-changed", "slot %d user data is %v", o.slot, w.slots[o.slot].UserData())
			}
			if o.info.SuballocationType != si.kindExp {
				fs.add("C07", "kind-changed", "slot %d suballocation kind %d, expected %d", o.slot, o.info.SuballocationType, si.kindExp)
			}
		}
		if atom > 1 && isNonCoherent(w.typeFlags(o.typ)) && o.off%atom != 0 {
			fs.add("C02", "noncoherent-atom-misaligned", "%s at offset %d in host-visible non-coherent type %d is not aligned to nonCoherentAtomSize %d", name(o), o.off, o.typ, atom)
		}
	}
	memKeys := make([]int, 0, len(byMem))
	for mem := range byMem {
		memKeys = append(memKeys, mem)
	}
	sort.Ints(memKeys)
	for _, mem := range memKeys {
		list := byMem[mem]
		sort.SliceStable(list, func(i, j int) bool { return list[i].off < list[j].off })
		for i := 1; i < len(list); i++ {
			if list[i-1].off+list[i-1].size > list[i].off {
				p := "C02"
				if list[i-1].slot < 0 || list[i].slot < 0 {
					p = "C07"
				}
				fs.add(p, "overlap", "%s [%d,+%d) overlaps %s [%d,+%d) in m%d", name(list[i-1]), list[i-1].off, list[i-1].size, name(list[i]), list[i].off, list[i].size, mem)
			}
		}
		byMem[mem] = list
	}

	// ---- C09: granularity pages ----
	if g := w.cfg.Dev.Granularity; g > 1 {
		for _, mem := range memKeys {
			list := byMem[mem]
			for i := 0; i < len(list); i++ {
				for j := i + 1; j < len(list); j++ {
					a, b := list[i], list[j]
					if b.off/g > (a.off+a.size-1)/g {
						break
					}
					if a.pool >= 0 && w.pools[a.pool].flags&pfIgnoreGranularity != 0 {
						continue
					}
					if a.info.Type != 1 || b.info.Type != 1 {
						continue
					}
					if kindConflict(a.info.SuballocationType, b.info.SuballocationType) {
						fs.add("C09", "conflicting-kinds-share-page", "%s (kind %d, [%d,+%d)) and %s (kind %d, [%d,+%d)) share a %d-byte page of m%d",
							name(a), a.info.SuballocationType, a.off, a.size, name(b), b.info.SuballocationType, b.off, b.size, g, mem)
					}
				}
			}
		}
	}

	// ---- C04: counters equal truth ----
	nh, nt := len(w.cfg.Dev.Heaps), len(w.cfg.Dev.Types)
	type agg struct{ blocks, blockBytes, allocs, allocBytes, amin, amax int }
	heapT := make([]agg, nh)
	typeT := make([]agg, nt)
	var total agg
	addAlloc := func(a *agg, size int) {
		if a.allocs == 0 || size < a.amin {
			a.amin = size
		}
		if size > a.amax {
			a.amax = size
		}
		a.allocs++
		a.allocBytes += size
	}
	for _, m := range cur.devMems {
		heapT[m.Heap].blocks++
		heapT[m.Heap].blockBytes += m.Size
		typeT[m.Type].blocks++
		typeT[m.Type].blockBytes += m.Size
		total.blocks++
		total.blockBytes += m.Size
	}
	for _, o := range all {
		if h := w.heapOf(o.typ); h >= 0 {
			addAlloc(&heapT[h], o.size)
			addAlloc(&typeT[o.typ], o.size)
			addAlloc(&total, o.size)
		}
	}
	if !w.destroyed {
		for h, ho := range cur.heaps {
			e := heapT[h]
			if ho.st.BlockCount != e.blocks || ho.st.BlockBytes != e.blockBytes {
				fs.add("C04", "heap-block-counters", "heap %d reports %d blocks / %d bytes, device truth %d / %d (after %q)", h, ho.st.BlockCount, ho.st.BlockBytes, e.blocks, e.blockBytes, op.String())
			}
			if ho.st.AllocationCount != e.allocs || ho.st.AllocationBytes != e.allocBytes {
				fs.add("C04", "heap-allocation-counters", "heap %d reports %d allocations / %d bytes, truth %d / %d (after %q)", h, ho.st.AllocationCount, ho.st.AllocationBytes, e.allocs, e.allocBytes, op.String())
			}
			if e.blockBytes != w.dev.HeapBytes(h) {
				fs.add("C04", "harness-internal", "heap %d device bytes %d vs sum %d", h, w.dev.HeapBytes(h), e.blockBytes)
			}
			if !w.cfg.Dev.BudgetExt {
				if ho.usage != e.blockBytes {
					fs.add("C04", "heap-usage", "heap %d usage %d, device truth %d", h, ho.usage, e.blockBytes)
				}
				if want := w.cfg.Dev.Heaps[h].Size * 8 / 10; ho.budget != want {
					fs.add("C04", "heap-budget", "heap %d budget %d, expected %d", h, ho.budget, want)
				}
			}
		}
		cmp := func(what string, idx int, gotBlocks, gotAllocs, gotBB, gotAB, gotMin, gotMax int, e agg) {
			if gotBlocks != e.blocks || gotBB != e.blockBytes {
				fs.add("C04", "stat-"+what+"-blocks", "%s %d statistics: %d blocks / %d bytes, device truth %d / %d (after %q)", what, idx, gotBlocks, gotBB, e.blocks, e.blockBytes, op.String())
			}
			if gotAllocs != e.allocs || gotAB != e.allocBytes {
				fs.add("C04", "stat-"+what+"-allocations", "%s %d statistics: %d allocations / %d bytes, truth %d / %d (after %q)", what, idx, gotAllocs, gotAB, e.allocs, e.allocBytes, op.String())
			}
			if e.allocs > 0 && (gotMin != e.amin || gotMax != e.amax) && gotAllocs == e.allocs {
				fs.add("C04", "stat-"+what+"-minmax", "%s %d statistics: allocation size min/max %d/%d, truth %d/%d", what, idx, gotMin, gotMax, e.amin, e.amax)
			}
		}
		if cur.statsErr {
			fs.add("C04", "calculate-statistics-error", "CalculateStatistics returned an error")
		} else {
			for t := 0; t < nt; t++ {
				s := &cur.stats.MemoryTypes[t]
				cmp("type", t, s.BlockCount, s.AllocationCount, s.BlockBytes, s.AllocationBytes, s.AllocationSizeMin, s.AllocationSizeMax, typeT[t])
			}
			for h := 0; h < nh; h++ {
				s := &cur.stats.MemoryHeaps[h]
				cmp("heap", h, s.BlockCount, s.AllocationCount, s.BlockBytes, s.AllocationBytes, s.AllocationSizeMin, s.AllocationSizeMax, heapT[h])
			}
			s := &cur.stats.Total
			cmp("total", 0, s.BlockCount, s.AllocationCount, s.BlockBytes, s.AllocationBytes, s.AllocationSizeMin, s.AllocationSizeMax, total)
		}
		if n := vam.VerifDeviceMemoryCount(w.alloc); n != len(cur.devMems) {
			fs.add("C04", "device-memory-count", "allocator counts %d device memory objects, device has %d", n, len(cur.devMems))
		}
		if cur.validate != nil {
			fs.add("C03", "block-validate", "vam's own block validation failed: %s", sanitize(cur.validate.Error()))
		}
	}

	// ---- lists vs device: ownership, mapping balance, limits ----
	if !w.destroyed {
		owned := map[int]string{}
		for _, l := range cur.lists {
			lname := fmt.Sprintf("default list of type %d", l.typ)
			if l.pool >= 0 {
				lname = fmt.Sprintf("pool %d", l.pool)
			}
			empties := 0
			for i, b := range l.blocks {
				mid := int(b.MemoryHandle)
				m := w.dev.MemByID(mid)
				if m == nil || !m.Alive() {
					fs.add("C02", "block-memory-not-live", "%s block #%d (id %d) references m%d which is not live", lname, i, b.ID, mid)
					continue
				}
				if prevOwner, dup := owned[mid]; dup {
					fs.add("C04", "memory-owned-twice", "m%d owned by %s and %s", mid, prevOwner, lname)
				}
				owned[mid] = lname
				if m.Size != b.Size {
					fs.add("C04", "block-size-mismatch", "%s block id %d size %d but m%d has size %d", lname, b.ID, b.Size, mid, m.Size)
				}
				if m.Type != l.typ {
					fs.add("C02", "block-type-mismatch", "%s block id %d is of type %d", lname, b.ID, m.Type)
				}
				inBlock := byMem[mid]
				if b.AllocCount != len(inBlock) {
					fs.add("C04", "block-allocation-count", "%s block id %d (m%d) holds %d allocations but %d live allocations report m%d (after %q)", lname, b.ID, mid, b.AllocCount, len(inBlock), mid, op.String())
				}
				if b.Empty {
					empties++
				}
				want := 0
				for _, o := range inBlock {
					want += o.maps
				}
				if b.MapReferences != want {
					fs.add("C14", "map-reference-count", "%s block id %d (m%d) has %d map references, callers hold %d (after %q)", lname, b.ID, mid, b.MapReferences, want, op.String())
				}
				if b.Mapped != m.Mapped() {
					fs.add("C14", "block-mapped-state-diverges", "%s block id %d believes mapped=%v but device m%d mapped=%v (after %q)", lname, b.ID, b.Mapped, mid, m.Mapped(), op.String())
				}
				if m.Mapped() && b.MapReferences == 0 && !b.ExtraMapping {
					fs.add("C14", "mapping-left-behind", "%s block id %d: m%d is still mapped on the device although there are no map references and no hysteresis mapping (after %q)", lname, b.ID, mid, op.String())
				}
				if b.ExtraMapping && !b.Mapped {
					fs.add("C14", "hysteresis-mapping-without-mapped-memory", "%s block id %d (m%d) records a hysteresis mapping but holds no mapped pointer (after %q)", lname, b.ID, mid, op.String())
				}
				if want > 0 && !m.Mapped() {
					fs.add("C14", "mapped-allocation-unmapped-on-device", "m%d has %d outstanding mappings but is not mapped on the device (after %q)", mid, want, op.String())
				}
			}
			if l.pool >= 0 {
				pi := &w.pools[l.pool]
				maxB := pi.maxBlocks
				if maxB > 0 && len(l.blocks) > maxB {
					fs.add("C11", "pool-above-max-blocks", "pool %d has %d blocks, max %d", l.pool, len(l.blocks), maxB)
				}
				if len(l.blocks) < pi.minBlocks {
					fs.add("C11", "pool-below-min-blocks", "pool %d has %d blocks, min %d", l.pool, len(l.blocks), pi.minBlocks)
				}
				if pi.blockSize > 0 {
					for _, b := range l.blocks {
						if b.Size != pi.blockSize {
							fs.add("C11", "pool-block-size", "pool %d has explicit block size %d but block id %d has size %d", l.pool, pi.blockSize, b.ID, b.Size)
						}
					}
				}
			}
			lim := l.info.MinBlockCount
			if lim < 1 {
				lim = 1
			}
			inRun := false
			for d := range w.defrag {
				inRun = inRun || w.defrag[d].begun
			}
			if empties > lim && !inRun {
				fs.add("C20", "too-many-empty-blocks", "%s keeps %d empty blocks (min block count %d) after %q", lname, empties, l.info.MinBlockCount, op.String())
			}
		}
		for _, o := range all {
			if o.info.Type == 2 {
				if prevOwner, dup := owned[o.mem]; dup {
					fs.add("C11", "dedicated-memory-shared", "dedicated %s shares m%d with %s", name(o), o.mem, prevOwner)
				}
				owned[o.mem] = name(o)
				if m := w.dev.MemByID(o.mem); m != nil && m.Alive() && o.maps > 0 && !m.Mapped() {
					fs.add("C14", "mapped-allocation-unmapped-on-device", "dedicated %s has %d outstanding mappings but m%d is not mapped (after %q)", name(o), o.maps, o.mem, op.String())
				}
			}
		}
		for _, m := range cur.devMems {
			if _, ok := owned[m.ID]; !ok {
				fs.add("C04", "orphan-device-memory", "m%d (type %d, %d bytes) is live on the device but owned by no block list and no dedicated allocation (after %q)", m.ID, m.Type, m.Size, op.String())
			}
		}
		// distinct pool ids
		seen := map[int]int{}
		for p := 0; p < maxPools; p++ {
			id, ok := cur.poolIDs[p]
			if !ok {
				continue
			}
			if q, dup := seen[id]; dup {
				a, b := p, q
				if a > b {
					a, b = b, a
				}
				fs.add("C20", "pool-ids-not-distinct", "pools %d and %d both have ID() == %d", a, b, id)
			}
			seen[id] = p
		}
	}

	// ---- C11: limits ----
	for h := range w.cfg.Dev.Heaps {
		if h < len(w.cfg.HeapLimits) && w.cfg.HeapLimits[h] > 0 && w.dev.HeapBytes(h) > w.cfg.HeapLimits[h] {
			fs.add("C11", "heap-limit-exceeded", "heap %d holds %d bytes, limit %d", h, w.dev.HeapBytes(h), w.cfg.HeapLimits[h])
		}
	}
	if w.cur.neverAlloc {
		for _, c := range calls {
			if c.Kind == simvk.CallAlloc {
				fs.add("C11", "never-allocate-allocated", "op %q has NeverAllocate but called vkAllocateMemory", op.String())
			}
		}
	}
	for _, s := range w.cur.dedSlots {
		for _, o := range cur.allocs {
			if o.slot != s {
				continue
			}
			m := w.dev.MemByID(o.mem)
			if o.info.Type != 2 {
				fs.add("C11", "dedicated-not-honoured", "slot %d demanded dedicated memory but is a block suballocation (op %q)", s, op.String())
			} else if m != nil && (m.Size != w.cur.dedSize || len(byMem[o.mem]) != 1 || o.off != 0) {
				fs.add("C11", "dedicated-not-exact", "slot %d dedicated memory m%d has size %d (requested %d), %d allocations inside", s, o.mem, m.Size, w.cur.dedSize, len(byMem[o.mem]))
			}
		}
	}

	// ---- C19 (light): chosen type honours masks and required flags ----
	if res.Kind == "ok" && (op.Name == "alloc" || op.Name == "allocn") {
		usage, flags, reqF := op.arg(4), op.arg(5), op.arg(6)
		a0, n := op.arg(0), 1
		if op.Name == "allocn" {
			usage, flags, reqF = op.arg(5), op.arg(6), op.arg(7)
			n = op.arg(1)
		}
		for _, o := range cur.allocs {
			if o.slot < a0 || o.slot >= a0+n || w.sinfo[o.slot].pool >= 0 {
				continue
			}
			tf := w.typeFlags(o.typ)
			if uint32(reqF)&^tf != 0 {
				fs.add("C19", "required-flags-missing", "slot %d type %d flags %#x lacks required %#x", o.slot, o.typ, tf, reqF)
			}
			if usage == uLazy && tf&simvk.PropLazilyAllocated == 0 {
				fs.add("C19", "lazy-not-lazily-allocated", "slot %d type %d is not lazily allocated", o.slot, o.typ)
			}
			if usage >= uAuto && flags&(fHostRandom|fHostSeqWrite) != 0 && flags&fHostAllowTransfer == 0 && tf&simvk.PropHostVisible == 0 {
				fs.add("C19", "auto-host-access-not-visible", "slot %d type %d is not host visible", o.slot, o.typ)
			}
		}
	}

	// ---- C06/C07: nobody moves unless defragmentation says so ----
	if prev != nil {
		pm := map[int]allocObs{}
		for _, o := range prev.allocs {
			pm[o.slot] = o
		}
		for _, o := range cur.allocs {
			p, ok := pm[o.slot]
			if !ok {
				continue
			}
			if mv, moved := w.cur.movedSlots[o.slot]; moved {
				if o.mem != mv.dstMem || o.off != mv.dstOff {
					fs.add("C07", "copy-not-at-destination", "slot %d was copied to m%d+%d but now reports m%d+%d", o.slot, mv.dstMem, mv.dstOff, o.mem, o.off)
				}
			} else if o.mem != p.mem || o.off != p.off {
				sig := "allocation-moved-unexpectedly"
				if w.cur.ignoredSlots[o.slot] {
					sig = "ignored-move-moved"
				}
				fs.add("C07", sig, "slot %d moved from m%d+%d to m%d+%d during %q", o.slot, p.mem, p.off, o.mem, o.off, op.String())
			}
			if o.size != p.size || o.typ != p.typ || o.align != p.align {
				fs.add("C07", "allocation-attributes-changed", "slot %d size/type/align changed from %d/%d/%d to %d/%d/%d during %q", o.slot, p.size, p.typ, p.align, o.size, o.typ, o.align, op.String())
			}
		}
	}

	// ---- C07/C15: a freshly collected pass ----
	if op.Name == "dpass" && res.Kind == "ok" {
		di := &w.defrag[op.arg(0)]
		seen := map[int]bool{}
		bytes := 0
		for i, mv := range di.moves {
			if mv.src < 0 || !w.sinfo[mv.src].live {
				fs.add("C07", "move-source-not-user-allocation", "move %d source is not a live allocation of the caller", i)
				continue
			}
			if seen[mv.src] {
				fs.add("C07", "move-source-twice", "slot %d proposed twice in one pass", mv.src)
			}
			seen[mv.src] = true
			bytes += mv.size
			if mv.dstMem <= 0 {
				fs.add("C07", "move-without-destination", "move %d has no allocated destination", i)
				continue
			}
			if mv.size != w.slots[mv.src].Size() {
				fs.add("C07", "move-size-mismatch", "move %d size %d but slot %d has size %d", i, mv.size, mv.src, w.slots[mv.src].Size())
			}
			// forward only
			si, dj := w.blockIndex(cur, mv.srcBlock), w.blockIndex(cur, mv.dstMem)
			if si >= 0 && dj >= 0 && !(dj < si || (mv.srcBlock == mv.dstMem && mv.dstOff < mv.srcOff)) {
				fs.add("C15", "move-not-forward", "move %d goes from block #%d offset %d to block #%d offset %d", i, si, mv.srcOff, dj, mv.dstOff)
			}
		}
		if di.maxAllocs > 0 && len(di.moves) > di.maxAllocs {
			fs.add("C15", "pass-exceeds-max-allocations", "%d moves, limit %d", len(di.moves), di.maxAllocs)
		}
		if di.maxBytes > 0 && bytes > di.maxBytes {
			fs.add("C15", "pass-exceeds-max-bytes", "%d bytes, limit %d", bytes, di.maxBytes)
		}
		if di.passes > 4*maxSlots {
			fs.add("C15", "defragmentation-does-not-terminate", "%d passes", di.passes)
		}
	}
	if w.cur.defragBegin >= 0 {
		di := &w.defrag[w.cur.defragBegin]
		if di.runs > 0 {
			prog, _, st := vam.VerifDefragState(di.ctx)
			if prog != 0 || st.AllocationsMoved != 0 || st.BytesMoved != 0 || st.BytesFreed != 0 || st.AllocationsFreed != 0 {
				fs.add("C15", "reused-context-not-reset", "context reused for run %d starts with progress %d and stats %+v", di.runs+1, prog, st)
			}
		}
	}
	if w.cur.defragFin >= 0 {
		st := w.cur.finStats
		if st.AllocationsMoved != w.cur.finCopies || st.BytesMoved != w.cur.finBytes {
			fs.add("C15", "final-stats-differ-from-moves", "Finish reports %d allocations / %d bytes moved, the caller carried out %d / %d", st.AllocationsMoved, st.BytesMoved, w.cur.finCopies, w.cur.finBytes)
		}
	}

	// ---- C14: byte patterns ----
	for _, f := range w.cur.c14fail {
		sp := strings.SplitN(f, " ", 2)
		fs.add("C14", sp[0], "%s", sp[1])
	}
	full := op.Name == "rw" || op.Name == "dend" || op.Name == "destroy"
	for _, o := range cur.allocs {
		si := &w.sinfo[o.slot]
		if !si.written {
			continue
		}
		m := w.dev.MemByID(o.mem)
		if m == nil || !m.Alive() || o.off < 0 || o.off+o.size > m.Size {
			continue
		}
		data := m.Data()[o.off : o.off+o.size]
		bad := -1
		chk := func(lo, hi int) {
			for i := lo; i < hi && bad < 0; i++ {
				if data[i] != pat(o.slot, si.ver, i) {
					bad = i
				}
			}
		}
		if full || o.size <= 512 {
			chk(0, o.size)
		} else {
			chk(0, 192)
			chk(o.size/2-32, o.size/2+32)
			chk(o.size-192, o.size)
		}
		if bad >= 0 {
			sig := "contents-changed"
			if w.cur.defragEnd {
				sig = "contents-lost-after-defragmentation"
			}
			fs.add("C14", sig, "slot %d byte %d at m%d+%d no longer holds the caller's data (after %q)", o.slot, bad, o.mem, o.off, op.String())
			si.written = false // report once
		}
	}

	// ---- C20: teardown ----
	if op.Name == "destroy" {
		liveUser := len(prev.allocs) > 0 || len(prev.temps) > 0
		livePools := false
		for p := range w.pools {
			livePools = livePools || w.pools[p].live
		}
		switch {
		case res.Kind == "ok" && (liveUser || livePools):
			fs.add("C20", "destroy-succeeded-with-live-objects", "Destroy succeeded with %d live allocations (pools live: %v)", len(prev.allocs), livePools)
		case res.Kind == "ok":
			if n := w.dev.LiveMemCount(); n != 0 {
				fs.add("C20", "destroy-leaks-device-memory", "%d device memory objects remain after Destroy", n)
			}
			if n := w.dev.MappedCount(); n != 0 {
				fs.add("C20", "destroy-leaves-mappings", "%d mappings remain after Destroy", n)
			}
		case res.Kind == "err" && !liveUser && !livePools:
			fs.add("C20", "destroy-failed-without-live-objects", "Destroy failed although everything was freed")
		case res.Kind == "err":
			// nothing in use may have been released
			for _, o := range prev.allocs {
				if m := w.dev.MemByID(o.mem); m == nil || !m.Alive() {
					fs.add("C20", "destroy-released-memory-in-use", "failed Destroy released m%d still used by slot %d", o.mem, o.slot)
				}
			}
		}
	}
	if op.Name == "rmpool" && prev != nil {
		p := op.arg(0)
		n := 0
		for _, o := range prev.allocs {
			if o.pool == p {
				n++
			}
		}
		if res.Kind == "ok" && n > 0 {
			fs.add("C20", "pool-destroy-succeeded-with-live-allocations", "pool %d destroyed with %d live allocations", p, n)
		}
		if res.Kind == "err" && n == 0 {
			fs.add("C20", "pool-destroy-failed-when-empty", "pool %d Destroy failed with no live allocations", p)
		}
	}
	return fs.fails
}

// blockIndex finds the position of a memory object within its block list.
func (w *World) blockIndex(s *snapshot, mem int) int {
	for _, l := range s.lists {
		for i, b := range l.blocks {
			if int(b.MemoryHandle) == mem {
				return i
			}
		}
	}
	return -1
}

// refusalView canonicalises the state dump for the "refusal changes nothing" comparison: the position
// of a block inside its list is dropped and the blocks of a list are sorted by block id.
func refusalView(lines []string) []string {
	out := make([]string, 0, len(lines))
	var blk []string
	flush := func() {
		sort.Strings(blk)
		out = append(out, blk...)
		blk = blk[:0]
	}
	// memory objects of blocks without any map reference: whether they are mapped at the moment depends on
	// the mapping hysteresis alone (an internal heuristic; nobody holds a pointer into them)
	unref := map[string]bool{}
	for _, l := range lines {
		f := strings.Fields(l)
		if len(f) > 12 && f[0] == "BLK" && f[10] == "0" {
			unref[f[5]] = true
		}
	}
	for _, l := range lines {
		f := strings.Fields(l)
		if len(f) > 4 && f[0] == "BLK" {
			// BLK kind idx pos blockId mem size empty allocCount sumFree mapRefs extraMapping mapped
			// -> drop pos and the hysteresis flag (an internal heuristic, not a counter the caller can see),
			//    and the mapped flag while there is no map reference
			g := append(append([]string{}, f[:3]...), f[4:]...)
			if len(g) > 10 {
				g = append(g[:10], g[11:]...)
			}
			if len(f) > 12 && f[10] == "0" {
				g = g[:len(g)-1]
			}
			blk = append(blk, strings.Join(g, " "))
			continue
		}
		flush()
		if len(f) == 5 && f[0] == "DEV" && unref[f[1]] {
			l = strings.Join(f[:4], " ")
		}
		out = append(out, l)
	}
	flush()
	return out
}

// releasedOnlySpareBlocks: the allocations are unchanged and every device memory object that
// disappeared backed a block that was empty before the op (a spare block was given back).
func releasedOnlySpareBlocks(prev, cur []string) bool {
	emptyMem := map[string]bool{}
	var pa, ca []string
	pdev, cdev := map[string]bool{}, map[string]bool{}
	for _, l := range prev {
		f := strings.Fields(l)
		switch {
		case len(f) > 7 && f[0] == "BLK" && f[7] == "1":
			emptyMem[f[5]] = true
		case f[0] == "A":
			pa = append(pa, l)
		case f[0] == "DEV":
			pdev[f[1]] = true
		}
	}
	for _, l := range cur {
		f := strings.Fields(l)
		switch {
		case f[0] == "A":
			ca = append(ca, l)
		case f[0] == "DEV":
			cdev[f[1]] = true
		}
	}
	if strings.Join(pa, "\n") != strings.Join(ca, "\n") || len(cdev) >= len(pdev) {
		return false
	}
	for m := range cdev {
		if !pdev[m] {
			return false
		}
	}
	for m := range pdev {
		if !cdev[m] && !emptyMem[m] {
			return false
		}
	}
	return true
}

func firstDiff(a, b []string) (kind, detail string) {
	n := len(a)
	if len(b) < n {
		n = len(b)
	}
	for i := 0; i < n; i++ {
		if a[i] != b[i] {
			return strings.Fields(b[i])[0], fmt.Sprintf("%q -> %q", a[i], b[i])
		}
	}
	if len(b) > len(a) {
		return strings.Fields(b[n])[0], fmt.Sprintf("new line %q", b[n])
	}
	if len(a) > len(b) {
		return strings.Fields(a[n])[0], fmt.Sprintf("line %q disappeared", a[n])
	}
	return "none", ""
}

func sanitize(s string) string {
	s = strings.ReplaceAll(s, "\n", " ")
	if len(s) > 160 {
		s = s[:160]
	}
	return s
}
