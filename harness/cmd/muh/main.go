// muh: memutils harness. Drives the real memutils block metadata (TLSF, linear) with
// generated or replayed operation histories, prints projected observables after every step
// and evaluates property oracles on the real code's observables.
//
//	muh gen  -algo tlsf|linear -seed S -n N -ops K -profile P   (trace on stdout)
//	muh run  <file>     (re-executes CFG/H/op lines of a trace, prints full trace)
//
// Trace format (see /verif/harness/MUH_FORMAT.md).
package main

import (
	"bufio"
	"flag"
	"fmt"
	"io"
	"math"
	"os"
	"runtime/debug"
	"sort"
	"strconv"
	"strings"
	"sync/atomic"
	"time"

	"github.com/vkngwrapper/arsenal/memutils"
	"github.com/vkngwrapper/arsenal/memutils/metadata"
	"github.com/vkngwrapper/arsenal/vam"
)

// ---------------------------------------------------------------- PRNG (splitmix64)

type rng struct{ s uint64 }

func (r *rng) next() uint64 {
	r.s += 0x9e3779b97f4a7c15
	z := r.s
	z = (z ^ (z >> 30)) * 0xbf58476d1ce4e5b9
	z = (z ^ (z >> 27)) * 0x94d049bb133111eb
	return z ^ (z >> 31)
}
func (r *rng) intn(n int) int {
	if n <= 0 {
		return 0
	}
	return int(r.next() % uint64(n))
}
func (r *rng) rangeIncl(lo, hi int) int { return lo + r.intn(hi-lo+1) }
func (r *rng) chance(pct int) bool       { return r.intn(100) < pct }

// ---------------------------------------------------------------- fake handler (accept all)

type fakeGran struct{}

func (fakeGran) AllocRegions(uint32, int, int) {}
func (fakeGran) FreeRegions(int, int)          {}
func (fakeGran) Clear()                        {}
func (fakeGran) CheckConflictAndAlignUp(o, s, ro, rs int, t uint32) (int, bool) {
	return o, false
}
func (fakeGran) RoundUpAllocRequest(t uint32, s int, a uint) (int, uint) { return s, a }
func (fakeGran) AllocationsConflict(uint32, uint32) bool                  { return false }
func (fakeGran) StartValidation() any                                     { return nil }
func (fakeGran) Validate(any, int, int) error                             { return nil }
func (fakeGran) FinishValidation(any) error                               { return nil }

// ---------------------------------------------------------------- history state

type cfg struct {
	algo    string // tlsf | linear
	size    int
	gran    int
	handler string // fake | vam
}

type rec struct {
	k        int
	handle   metadata.BlockAllocationHandle
	off      int
	size     int // granted size
	reqSize  int
	reqAlign int
	atype    uint32
	tag      int // -1 = nil user data
}

type hist struct {
	c     cfg
	md    metadata.BlockMetadata
	gh    metadata.GranularityCheck
	live  map[int]*rec
	nextK int
	out   *bufio.Writer
	step  int
	// observables of the freshly initialised block
	fresh *obs
	// oracle failures in this history
	fails []string
	// stats
	st *stats
	// C18: a freshly initialised twin block that receives every operation issued after this block became
	// empty; an emptied block must answer exactly like it
	twin    *hist
	isTwin  bool
	lastRes string
	lastObs obs
}

type stats struct {
	ops        map[string]int
	results    map[string]int
	maxLive    int
	deep       map[string]int
	oracleFail int
}

func newStats() *stats {
	return &stats{ops: map[string]int{}, results: map[string]int{}, deep: map[string]int{}}
}

func newHist(c cfg, out *bufio.Writer, st *stats) *hist {
	h := &hist{c: c, live: map[int]*rec{}, out: out, st: st}
	if c.handler == "vam" {
		h.gh = vam.VerifNewGranularityHandler(uint(c.gran), c.size)
	} else {
		h.gh = fakeGran{}
	}
	switch c.algo {
	case "tlsf":
		h.md = metadata.NewTLSFBlockMetadata(c.gran, h.gh)
	case "linear":
		h.md = metadata.NewLinearBlockMetadata(c.gran, h.gh)
	default:
		panic("algo")
	}
	h.md.Init(c.size)
	if !guard(func() { o := h.observe(); h.fresh = &o }) && h.fresh != nil && h.fresh.regPanic {
		h.fresh = nil
	}
	return h
}

func tagAny(tag int) any {
	if tag < 0 {
		return nil
	}
	return tag
}

func anyTag(a any) string {
	if a == nil {
		return "-1"
	}
	if v, ok := a.(int); ok {
		return strconv.Itoa(v)
	}
	return "X"
}

// ---------------------------------------------------------------- observables

type region struct {
	off, size int
	free      bool
	tag       string
}

func (h *hist) regions() (rs []region, panicked bool) {
	defer func() {
		if r := recover(); r != nil {
			panicked = true
		}
	}()
	_ = h.md.VisitAllRegions(func(handle metadata.BlockAllocationHandle, offset int, size int, userData any, free bool) error {
		rs = append(rs, region{offset, size, free, anyTag(userData)})
		return nil
	})
	sort.SliceStable(rs, func(i, j int) bool {
		if rs[i].off != rs[j].off {
			return rs[i].off < rs[j].off
		}
		return rs[i].size < rs[j].size
	})
	return rs, false
}

type obs struct {
	s, l, v, st, ds, it, fl string
	regs                []region
	regPanic            bool
	valid               bool
}

var lastPanic any
var lastStack string

func guard(f func()) (panicked bool) {
	defer func() {
		if r := recover(); r != nil {
			panicked = true
			lastPanic = r
			lastStack = string(debug.Stack())
		}
	}()
	f()
	return false
}

func (h *hist) observe() obs {
	var o obs
	md := h.md
	val := 0
	if guard(func() {
		if md.Validate() == nil {
			val = 1
		}
	}) {
		val = 2
	}
	o.valid = val == 1
	empty := 0
	if md.IsEmpty() {
		empty = 1
	}
	fr := md.FreeRegionsCount()
	if fr == math.MaxInt {
		fr = -1
	}
	o.s = fmt.Sprintf("S cnt=%d free=%d empty=%d fr=%d val=%d", md.AllocationCount(), md.SumFreeSize(), empty, fr, val)
	// live allocations by handle
	ks := make([]int, 0, len(h.live))
	for k := range h.live {
		ks = append(ks, k)
	}
	sort.Ints(ks)
	var sb strings.Builder
	sb.WriteString("L")
	for _, k := range ks {
		r := h.live[k]
		offS, tagS := "E", "E"
		if guard(func() {
			off, err := md.AllocationOffset(r.handle)
			if err == nil {
				offS = strconv.Itoa(off)
			}
		}) {
			offS = "P"
		}
		if guard(func() {
			ud, err := md.AllocationUserData(r.handle)
			if err == nil {
				tagS = anyTag(ud)
			}
		}) {
			tagS = "P"
		}
		fmt.Fprintf(&sb, " %d:%s:%d:%s", k, offS, r.size, tagS)
	}
	o.l = sb.String()
	// regions
	o.regs, o.regPanic = h.regions()
	sb.Reset()
	sb.WriteString("V")
	if o.regPanic {
		sb.WriteString(" panic")
	} else {
		for _, r := range o.regs {
			if r.size == 0 {
				continue // the empty TLSF null block
			}
			f := 0
			if r.free {
				f = 1
			}
			fmt.Fprintf(&sb, " %d:%d:%d:%s", r.off, r.size, f, r.tag)
		}
	}
	o.v = sb.String()
	// statistics
	var st memutils.Statistics
	if guard(func() { md.AddStatistics(&st) }) {
		o.st = "ST panic"
	} else {
		o.st = fmt.Sprintf("ST %d %d %d %d", st.BlockCount, st.AllocationCount, st.BlockBytes, st.AllocationBytes)
	}
	var ds memutils.DetailedStatistics
	ds.Clear()
	if guard(func() { md.AddDetailedStatistics(&ds) }) {
		o.ds = "DS panic"
	} else {
		mn := func(x int) int {
			if x == math.MaxInt {
				return -1
			}
			return x
		}
		o.ds = fmt.Sprintf("DS %d %d %d %d %d %d %d %d %d", ds.BlockCount, ds.AllocationCount, ds.BlockBytes, ds.AllocationBytes,
			ds.UnusedRangeCount, mn(ds.AllocationSizeMin), ds.AllocationSizeMax, mn(ds.UnusedRangeSizeMin), ds.UnusedRangeSizeMax)
	}
	// iteration
	if h.c.algo == "tlsf" {
		sb.Reset()
		sb.WriteString("IT")
		byHandle := map[metadata.BlockAllocationHandle]int{}
		for k, r := range h.live {
			byHandle[r.handle] = k
		}
		if guard(func() {
			hd, err := md.AllocationListBegin()
			n := 0
			for err == nil && hd != metadata.NoAllocation && n < len(h.live)+5 {
				if k, ok := byHandle[hd]; ok {
					fmt.Fprintf(&sb, " %d", k)
				} else {
					sb.WriteString(" ?")
				}
				n++
				hd, err = md.FindNextAllocation(hd)
			}
			if err != nil {
				sb.WriteString(" E")
			}
		}) {
			sb.WriteString(" P")
		}
		o.it = sb.String()
		// free-list structure (hook): first-level bitmap, non-zero second-level bitmaps, non-empty lists in list order
		if t, ok := h.md.(*metadata.TLSFBlockMetadata); ok {
			lists, outer, inner := t.VerifFreeLists()
			var fb strings.Builder
			fmt.Fprintf(&fb, "FL %d |", outer)
			for c, v := range inner {
				if v != 0 {
					fmt.Fprintf(&fb, " %d:%d", c, v)
				}
			}
			fb.WriteString(" |")
			for i, l := range lists {
				if len(l) > 0 {
					fmt.Fprintf(&fb, " %d:", i)
					for j, off := range l {
						if j > 0 {
							fb.WriteString(",")
						}
						fmt.Fprintf(&fb, "%d", off)
					}
				}
			}
			o.fl = fb.String()
		}
	}
	return o
}

func (h *hist) emitObs(o obs) {
	w := h.out
	fmt.Fprintln(w, o.s)
	fmt.Fprintln(w, o.l)
	fmt.Fprintln(w, o.v)
	fmt.Fprintln(w, o.st)
	fmt.Fprintln(w, o.ds)
	if o.it != "" {
		fmt.Fprintln(w, o.it)
	}
	if o.fl != "" {
		fmt.Fprintln(w, o.fl)
	}
}

func (h *hist) fail(prop, sig, detail string) {
	line := fmt.Sprintf("ORACLE-FAIL property=%s sig=%s step=%d %s", prop, sig, h.step, detail)
	h.fails = append(h.fails, line)
	fmt.Fprintln(h.out, line)
	h.st.oracleFail++
}

// ---------------------------------------------------------------- oracles

func conflictKinds(a, b uint32) bool {
	// independent statement of the Vulkan buffer-image-granularity rule as vam documents it
	if a > b {
		a, b = b, a
	}
	switch a {
	case 0:
		return false
	case 1:
		return true
	case 2:
		return b == 3 || b == 5
	case 3:
		return b == 3 || b == 4 || b == 5
	case 4:
		return b == 5
	}
	return false
}

func (h *hist) checkState(o obs, opKind string) {
	size := h.c.size
	// C01: bounds, alignment, size, disjointness of live allocations (by handle lookups)
	ks := make([]int, 0, len(h.live))
	for k := range h.live {
		ks = append(ks, k)
	}
	sort.Ints(ks)
	type iv struct{ k, off, end int }
	ivs := []iv{}
	for _, k := range ks {
		r := h.live[k]
		off, err := safeOffset(h.md, r.handle)
		if err != nil {
			h.fail("C17", h.c.algo+":lookup:offset-error", fmt.Sprintf("k=%d", k))
			continue
		}
		if off != r.off {
			h.fail("C06", h.c.algo+":moved", fmt.Sprintf("k=%d off %d -> %d after %s", k, r.off, off, opKind))
		}
		if off < 0 || off+r.size > size {
			h.fail("C01", h.c.algo+":bounds", fmt.Sprintf("k=%d off=%d size=%d block=%d", k, off, r.size, size))
		}
		if r.reqAlign > 0 && off%r.reqAlign != 0 {
			h.fail("C01", h.c.algo+":align", fmt.Sprintf("k=%d off=%d align=%d", k, off, r.reqAlign))
		}
		if r.size < r.reqSize {
			h.fail("C01", h.c.algo+":size", fmt.Sprintf("k=%d size=%d req=%d", k, r.size, r.reqSize))
		}
		ivs = append(ivs, iv{k, off, off + r.size})
		// C17 lookup
		tagS := "E"
		if guard(func() {
			ud, e := h.md.AllocationUserData(r.handle)
			if e == nil {
				tagS = anyTag(ud)
			}
		}) {
			tagS = "P"
		}
		if tagS != strconv.Itoa(r.tag) {
			h.fail("C17", h.c.algo+":lookup:userdata", fmt.Sprintf("k=%d want=%d got=%s", k, r.tag, tagS))
		}
	}
	sort.Slice(ivs, func(i, j int) bool { return ivs[i].off < ivs[j].off })
	for i := 1; i < len(ivs); i++ {
		if ivs[i].off < ivs[i-1].end {
			h.fail("C01", h.c.algo+":overlap", fmt.Sprintf("k=%d [%d,%d) k=%d [%d,%d)", ivs[i-1].k, ivs[i-1].off, ivs[i-1].end, ivs[i].k, ivs[i].off, ivs[i].end))
		}
	}
	// C09: conflicting kinds never share a page
	if g := h.c.gran; g > 1 && h.c.handler == "vam" {
		for i := 0; i < len(ivs); i++ {
			for j := i + 1; j < len(ivs); j++ {
				a, b := h.live[ivs[i].k], h.live[ivs[j].k]
				if !conflictKinds(a.atype, b.atype) {
					continue
				}
				if ivs[j].off/g > (ivs[i].end-1)/g {
					break
				}
				// a ends on page >= b's first page: share
				h.fail("C09", h.c.algo+":page-shared", fmt.Sprintf("k=%d type=%d [%d,%d) k=%d type=%d [%d,%d) gran=%d", a.k, a.atype, ivs[i].off, ivs[i].end, b.k, b.atype, ivs[j].off, ivs[j].end, g))
			}
		}
	}
	// C03: regions tile the block, counters match
	if o.regPanic {
		h.fail("C03", h.c.algo+":visit:panic", "VisitAllRegions panicked")
	} else {
		pos := 0
		nAlloc, allocBytes, nFree := 0, 0, 0
		ok := true
		for _, r := range o.regs {
			if r.size == 0 {
				continue
			}
			if r.off != pos {
				ok = false
			}
			pos = r.off + r.size
			if r.free {
				nFree++
			} else {
				nAlloc++
				allocBytes += r.size
			}
		}
		if pos != size {
			ok = false
		}
		if !ok {
			h.fail("C03", h.c.algo+":tiling", o.v)
		}
		if nAlloc != len(h.live) {
			h.fail("C03", h.c.algo+":visit:count", fmt.Sprintf("regions say %d allocations, live %d", nAlloc, len(h.live)))
		}
		// region list must be exactly the live allocations
		if nAlloc == len(h.live) {
			idx := 0
			for _, r := range o.regs {
				if r.size == 0 || r.free {
					continue
				}
				if idx < len(ivs) && (ivs[idx].off != r.off || ivs[idx].end != r.off+r.size) {
					h.fail("C03", h.c.algo+":visit:mismatch", fmt.Sprintf("region %d:%d vs live k=%d [%d,%d)", r.off, r.size, ivs[idx].k, ivs[idx].off, ivs[idx].end))
					break
				}
				idx++
			}
		}
		if h.c.algo == "tlsf" {
			// C18: no two adjacent free regions
			prevFree := false
			for _, r := range o.regs {
				if r.size == 0 {
					continue
				}
				if r.free && prevFree {
					h.fail("C18", "tlsf:adjacent-free", o.v)
					break
				}
				prevFree = r.free
			}
			if h.md.FreeRegionsCount() != nFree {
				h.fail("C03", "tlsf:freeRegionsCount", fmt.Sprintf("reported %d counted %d", h.md.FreeRegionsCount(), nFree))
			}
		}
	}
	liveBytes := 0
	for _, r := range h.live {
		liveBytes += r.size
	}
	if h.md.AllocationCount() != len(h.live) {
		h.fail("C03", h.c.algo+":allocCount", fmt.Sprintf("reported %d live %d", h.md.AllocationCount(), len(h.live)))
	}
	if h.md.SumFreeSize() != size-liveBytes {
		h.fail("C03", h.c.algo+":sumFree", fmt.Sprintf("reported %d expected %d", h.md.SumFreeSize(), size-liveBytes))
	}
	if h.md.IsEmpty() != (len(h.live) == 0) {
		h.fail("C03", h.c.algo+":isEmpty", fmt.Sprintf("reported %v live %d", h.md.IsEmpty(), len(h.live)))
	}
	if !o.valid {
		h.fail("C03", h.c.algo+":validate", o.s)
	}
	// statistics
	wantST := fmt.Sprintf("ST 1 %d %d %d", len(h.live), size, liveBytes)
	if o.st != wantST {
		h.fail("C03", h.c.algo+":statistics", fmt.Sprintf("got %q want %q", o.st, wantST))
	}
	if !o.regPanic {
		mn, mx := -1, 0
		for _, r := range h.live {
			if mn < 0 || r.size < mn {
				mn = r.size
			}
			if r.size > mx {
				mx = r.size
			}
		}
		// unused ranges from our own view: gaps between live allocations
		gaps := []int{}
		pos := 0
		for _, v := range ivs {
			if v.off > pos {
				gaps = append(gaps, v.off-pos)
			}
			if v.end > pos {
				pos = v.end
			}
		}
		if pos < size {
			gaps = append(gaps, size-pos)
		}
		umn, umx := -1, 0
		for _, g := range gaps {
			if umn < 0 || g < umn {
				umn = g
			}
			if g > umx {
				umx = g
			}
		}
		wantDS := fmt.Sprintf("DS 1 %d %d %d %d %d %d %d %d", len(h.live), size, liveBytes, len(gaps), mn, mx, umn, umx)
		if o.ds != wantDS {
			h.fail("C03", h.c.algo+":detailed-statistics", fmt.Sprintf("got %q want %q", o.ds, wantDS))
		}
	}
	// C17 iteration exact (TLSF)
	if h.c.algo == "tlsf" {
		f := strings.Fields(o.it)[1:]
		seen := map[string]bool{}
		bad := len(f) != len(h.live)
		for _, x := range f {
			if seen[x] || x == "?" || x == "E" || x == "P" {
				bad = true
			}
			seen[x] = true
		}
		if bad {
			h.fail("C17", "tlsf:iteration", fmt.Sprintf("%s live=%d", o.it, len(h.live)))
		}
	}
	// C18: an emptied block is indistinguishable from a freshly initialised one
	if len(h.live) == 0 && h.fresh != nil {
		if o.s != h.fresh.s || o.v != h.fresh.v || o.st != h.fresh.st || o.ds != h.fresh.ds || o.it != h.fresh.it {
			h.fail("C18", h.c.algo+":empty-not-fresh", fmt.Sprintf("%s | %s  (fresh: %s | %s)", o.s, o.v, h.fresh.s, h.fresh.v))
		}
	}
	if len(h.live) > h.st.maxLive {
		h.st.maxLive = len(h.live)
	}
}

func safeOffset(md metadata.BlockMetadata, hd metadata.BlockAllocationHandle) (off int, err error) {
	defer func() {
		if r := recover(); r != nil {
			err = fmt.Errorf("panic")
		}
	}()
	return md.AllocationOffset(hd)
}

// fitsSomewhere: independent statement of "a free range can hold the request".
// Used as C05 oracle when the TLSF block refuses. Returns lowest feasible offset or -1.
func (h *hist) lowestFeasible(o obs, size int, align int, atype uint32, bound int) int {
	if o.regPanic {
		return -1
	}
	g := h.c.gran
	// rounding rules in force (documented behaviour of the vam handler)
	if h.c.handler == "vam" && g > 1 {
		if atype == 3 || atype == 1 || (g <= 256 && atype == 5) {
			if align < g {
				align = g
			}
			size = (size + g - 1) / g * g
		}
	}
	pageCheck := h.c.handler == "vam" && g > 256
	ks := []*rec{}
	for _, r := range h.live {
		ks = append(ks, r)
	}
	for _, r := range o.regs {
		if !r.free || r.size < size {
			continue
		}
		// candidate offsets: aligned offsets in the region; with page rules only the first
		// aligned one and page-aligned successors matter
		cands := []int{(r.off + align - 1) / align * align}
		if pageCheck {
			c := cands[0]
			for i := 0; i < 4; i++ {
				c = (c/g + 1) * g
				c = (c + align - 1) / align * align
				cands = append(cands, c)
			}
		}
		for _, c := range cands {
			if c+size > r.off+r.size {
				continue
			}
			if c >= bound {
				continue
			}
			if pageCheck {
				bad := false
				for _, a := range ks {
					if !conflictKinds(a.atype, atype) {
						continue
					}
					aFirst, aLast := a.off/g, (a.off+a.size-1)/g
					cFirst, cLast := c/g, (c+size-1)/g
					if aFirst <= cLast && cFirst <= aLast {
						bad = true
						break
					}
				}
				if bad {
					continue
				}
			}
			return c
		}
	}
	return -1
}

// ---------------------------------------------------------------- operations

type op struct {
	kind    string // A Q F U C M
	size    int
	align   int
	atype   uint32
	strat   uint32
	upper   bool
	maxOff  int // -1 = MaxInt
	tag     int
	k       int
}

func (p op) String() string {
	up := 0
	if p.upper {
		up = 1
	}
	switch p.kind {
	case "A":
		return fmt.Sprintf("A %d %d %d %d %d %d %d", p.size, p.align, p.atype, p.strat, up, p.maxOff, p.tag)
	case "Q":
		return fmt.Sprintf("Q %d %d %d %d %d %d", p.size, p.align, p.atype, p.strat, up, p.maxOff)
	case "F":
		return fmt.Sprintf("F %d", p.k)
	case "U":
		return fmt.Sprintf("U %d %d", p.k, p.tag)
	case "C":
		return "C"
	case "M":
		return fmt.Sprintf("M %d %d", p.atype, p.size)
	}
	return "?"
}

func parseOp(f []string) (op, error) {
	var p op
	p.kind = f[0]
	geti := func(i int) int {
		if i >= len(f) {
			return 0
		}
		v, _ := strconv.Atoi(f[i])
		return v
	}
	switch p.kind {
	case "A":
		p.size, p.align, p.atype, p.strat, p.upper, p.maxOff, p.tag = geti(1), geti(2), uint32(geti(3)), uint32(geti(4)), geti(5) == 1, geti(6), geti(7)
	case "Q":
		p.size, p.align, p.atype, p.strat, p.upper, p.maxOff = geti(1), geti(2), uint32(geti(3)), uint32(geti(4)), geti(5) == 1, geti(6)
	case "F":
		p.k = geti(1)
	case "U":
		p.k, p.tag = geti(1), geti(2)
	case "C":
	case "M":
		p.atype, p.size = uint32(geti(1)), geti(2)
	default:
		return p, fmt.Errorf("bad op %v", f)
	}
	return p, nil
}

// exec runs one op on the real code and prints OP / R / observables / oracle lines.
// watchdog: an operation of the code under test that does not return within hangLimit is reported as
// a failure of its own (the library is single-threaded and cannot be interrupted, so the process ends).
var (
	opStart  atomic.Int64 // unix nanoseconds of the running operation, 0 when idle
	opLine   atomic.Value // its op line
	opStepNo atomic.Int64
)

const hangLimit = 8 * time.Second

func startWatchdog(out *bufio.Writer) {
	go func() {
		for {
			time.Sleep(200 * time.Millisecond)
			t0 := opStart.Load()
			if t0 == 0 || time.Since(time.Unix(0, t0)) < hangLimit {
				continue
			}
			// the main goroutine is stuck inside the library and is not writing
			out.Flush()
			line, _ := opLine.Load().(string)
			fmt.Fprintf(os.Stdout, "R hang\nORACLE-FAIL property=HANG sig=hang step=%d operation %q did not return within %v\nEND\n", opStepNo.Load(), line, hangLimit)
			os.Exit(0)
		}
	}()
}

func (h *hist) exec(p op) {
	opLine.Store(p.String())
	opStepNo.Store(int64(h.step + 1))
	opStart.Store(time.Now().UnixNano())
	defer opStart.Store(0)
	h.step++
	h.st.ops[p.kind]++
	fmt.Fprintln(h.out, p.String())
	before := h.observe()
	res := ""
	maxOff := p.maxOff
	if maxOff < 0 {
		maxOff = math.MaxInt
	}
	panicked := guard(func() {
		switch p.kind {
		case "A", "Q":
			ok, req, err := h.md.CreateAllocationRequest(p.size, uint(p.align), p.upper, p.atype, metadata.AllocationStrategy(p.strat), maxOff)
			if err != nil {
				res = "R error"
				return
			}
			if !ok {
				res = "R refused"
				return
			}
			var off int
			if h.c.algo == "tlsf" {
				off = int(req.AlgorithmData)
			} else {
				off = int(req.BlockAllocationHandle) - 1
			}
			if p.kind == "Q" {
				res = fmt.Sprintf("R ok %d %d", off, req.Size)
				return
			}
			err = h.md.Alloc(req, p.atype, tagAny(p.tag))
			if err != nil {
				res = "R error"
				return
			}
			k := h.nextK
			h.nextK++
			hd := req.BlockAllocationHandle
			h.live[k] = &rec{k: k, handle: hd, off: off, size: req.Size, reqSize: p.size, reqAlign: p.align, atype: p.atype, tag: p.tag}
			res = fmt.Sprintf("R ok %d %d", off, req.Size)
		case "F":
			r := h.live[p.k]
			if r == nil {
				res = "R nolive"
				return
			}
			err := h.md.Free(r.handle)
			if err != nil {
				res = "R error"
				return
			}
			delete(h.live, p.k)
			res = "R ok"
		case "U":
			r := h.live[p.k]
			if r == nil {
				res = "R nolive"
				return
			}
			err := h.md.SetAllocationUserData(r.handle, tagAny(p.tag))
			if err != nil {
				res = "R error"
				return
			}
			r.tag = p.tag
			res = "R ok"
		case "C":
			h.md.Clear()
			h.live = map[int]*rec{}
			res = "R ok"
		case "M":
			if h.md.MayHaveFreeBlock(p.atype, p.size) {
				res = "R ok 1"
			} else {
				res = "R ok 0"
			}
		}
	})
	if panicked {
		res = "R panic"
	}
	fmt.Fprintln(h.out, res)
	h.st.results[p.kind+":"+strings.Fields(res)[1]]++
	after := h.observe()
	h.emitObs(after)
	h.lastRes, h.lastObs = res, after
	if h.isTwin {
		return
	}
	if h.twin != nil {
		t := h.twin
		t.exec(p)
		if t.lastRes != res || t.lastObs.s != after.s || t.lastObs.l != after.l || t.lastObs.v != after.v ||
			t.lastObs.st != after.st || t.lastObs.ds != after.ds || t.lastObs.it != after.it {
			h.fail("C18", h.c.algo+":emptied-differs-from-fresh", fmt.Sprintf("%s: emptied block %q / %s, fresh block %q / %s", p.String(), res, after.s, t.lastRes, t.lastObs.s))
			h.twin = nil
		}
	}
	if len(h.live) == 0 && !panicked && (p.kind == "C" || p.kind == "F" && res == "R ok") {
		// the block has just been emptied: from here on a fresh block runs alongside
		t := newHist(h.c, bufio.NewWriter(io.Discard), newStats())
		t.isTwin, t.nextK, t.step = true, h.nextK, h.step
		h.twin = t
	}

	// ---- oracles on this step
	if panicked {
		h.fail("C13", h.c.algo+":"+p.kind+":panic", p.String())
		if os.Getenv("MUH_PANICMSG") != "" {
			fmt.Fprintf(os.Stderr, "PANIC %v\n%s\n", lastPanic, lastStack)
		}
	}
	kind := strings.Fields(res)[1]
	if (p.kind == "A" || p.kind == "Q") && (kind == "refused" || kind == "error") || p.kind == "M" {
		// refusal changes nothing (Q may reorder free lists, not observable here)
		if before.s != after.s || before.l != after.l || before.v != after.v || before.st != after.st || before.ds != after.ds || before.it != after.it {
			h.fail("C13", h.c.algo+":"+p.kind+":refusal-changed-state", p.String())
		}
	}
	if p.kind == "F" && kind == "error" {
		h.fail("C06", h.c.algo+":free-rejected", fmt.Sprintf("k=%d", p.k))
	}
	if p.kind == "F" && kind == "ok" {
		// all others unchanged is checked by checkState (offset), sizes are harness-recorded
	}
	if h.c.algo == "tlsf" && (p.kind == "A" || p.kind == "Q") && !p.upper && p.size >= 1 {
		// "a bounded search never returns an offset at or beyond its bound": every strategy
		bound := math.MaxInt
		if p.maxOff >= 0 {
			bound = p.maxOff
		}
		minOffset := p.strat&4 != 0 && p.strat&3 == 0
		if kind == "refused" {
			if c := h.lowestFeasible(before, p.size, p.align, p.atype, bound); c >= 0 {
				h.fail("C05", "tlsf:refused-but-fits", fmt.Sprintf("%s feasible at %d", p.String(), c))
			}
		}
		if kind == "ok" {
			off, _ := strconv.Atoi(strings.Fields(res)[2])
			if off >= bound {
				h.fail("C05", "tlsf:bound", fmt.Sprintf("%s granted %d", p.String(), off))
			} else if minOffset {
				if c := h.lowestFeasible(before, p.size, p.align, p.atype, bound); c >= 0 && c < off {
					h.fail("C05", "tlsf:minoffset:not-lowest", fmt.Sprintf("%s granted %d feasible %d", p.String(), off, c))
				}
			}
		}
	}
	if h.c.algo == "tlsf" && p.kind == "M" && kind == "ok" && strings.Fields(res)[2] == "0" {
		if c := h.lowestFeasible(before, p.size, 1, p.atype, math.MaxInt); c >= 0 {
			h.fail("C05", "tlsf:mayhave-false-negative", fmt.Sprintf("%s feasible at %d", p.String(), c))
		}
	}
	h.checkState(after, p.kind)
}

// ---------------------------------------------------------------- generators

var pow2 = []int{1, 1, 1, 2, 4, 8, 16, 16, 32, 64, 64, 128, 256, 256, 512, 1024, 4096}

func genCfg(r *rng, algo, profile string) cfg {
	c := cfg{algo: algo, handler: "fake", gran: 1}
	sizes := []int{64, 100, 256, 1000, 1024, 4096, 5000, 65536, 1 << 20, 1<<20 + 17, 1 << 24}
	c.size = sizes[r.intn(len(sizes))]
	if r.chance(10) {
		c.size = r.rangeIncl(1, 3000)
	}
	if r.chance(3) {
		c.size = 1 << uint(r.rangeIncl(25, 38))
	}
	switch profile {
	case "gran":
		c.handler = "vam"
		c.gran = 1 << uint(r.rangeIncl(0, 16))
		if c.size < 4*c.gran && r.chance(80) {
			c.size = c.gran * r.rangeIncl(3, 40)
		}
	default:
		if r.chance(30) {
			c.handler = "vam"
			c.gran = 1 << uint(r.rangeIncl(0, 16))
			if c.size < 4*c.gran && r.chance(80) {
				c.size = c.gran * r.rangeIncl(3, 40)
			}
		} else if r.chance(20) {
			c.gran = 1 << uint(r.rangeIncl(0, 12)) // gran > 1 with accept-all handler (linear scans use it)
		}
	}
	if profile == "compact" && c.size < 65536 {
		c.size = 65536 << uint(r.intn(5))
	}
	if c.handler == "vam" && c.gran > 256 && c.size/c.gran > 4096 {
		c.size = c.gran*r.rangeIncl(3, 4096) + r.intn(c.gran)
	}
	return c
}

func (h *hist) pickLive(r *rng, how int) int {
	if len(h.live) == 0 {
		return -1
	}
	ks := make([]int, 0, len(h.live))
	for k := range h.live {
		ks = append(ks, k)
	}
	sort.Ints(ks)
	switch how {
	case 0: // oldest
		return ks[0]
	case 1: // newest
		return ks[len(ks)-1]
	default:
		return ks[r.intn(len(ks))]
	}
}

func genSize(r *rng, c cfg, scale int) int {
	// scale: typical fraction of the block
	switch r.intn(10) {
	case 0:
		return r.rangeIncl(1, 8)
	case 1, 2:
		return r.rangeIncl(1, 300)
	case 3:
		return 1 << uint(r.rangeIncl(0, 12))
	default:
		m := c.size / scale
		if m < 1 {
			m = 1
		}
		return r.rangeIncl(1, m)
	}
}

func (h *hist) genOp(r *rng, profile string, i, n int) op {
	c := h.c
	var p op
	p.maxOff = -1
	p.atype = uint32(r.rangeIncl(1, 5))
	if profile != "gran" && c.handler == "fake" && r.chance(70) {
		p.atype = 2
	}
	p.tag = r.rangeIncl(0, 999)
	if profile == "niltag" && r.chance(30) {
		p.tag = -1
	}
	allocPct := 55
	scale := 12
	switch profile {
	case "fill":
		allocPct, scale = 75, 40
	case "churn":
		allocPct, scale = 50, 6
	case "compact":
		// many small allocs then mostly frees
		scale = 120
		if i < n*5/10 {
			allocPct = 95
		} else {
			allocPct = 15
		}
	case "ring":
		scale = 5
		allocPct = 55
	}
	x := r.intn(100)
	switch {
	case x < allocPct:
		p.kind = "A"
		p.size = genSize(r, c, scale)
		p.align = pow2[r.intn(len(pow2))]
		if profile == "align" {
			p.align = 1 << uint(r.rangeIncl(0, 14))
		}
		switch r.intn(8) {
		case 0:
			p.strat = 1
		case 1:
			p.strat = 2
		case 2:
			p.strat = 4
		case 3:
			p.strat = uint32(r.intn(8))
		}
		if c.algo == "linear" {
			p.strat = 0
			switch profile {
			case "upper":
				p.upper = r.chance(50)
			case "ring":
				p.upper = false
			default:
				p.upper = r.chance(15)
			}
		} else if r.chance(1) {
			p.upper = true
		}
		if (p.strat == 4 && r.chance(50)) || r.chance(4) {
			p.maxOff = r.rangeIncl(0, c.size)
		}
		if r.chance(6) {
			p.kind = "Q"
		}
	case x < allocPct+3:
		p.kind = "M"
		p.size = genSize(r, c, 4)
	case x < allocPct+7:
		p.kind = "U"
		p.k = h.pickLive(r, 2)
		if p.k < 0 {
			p.kind = "M"
			p.size = 1
		}
	case x < allocPct+8 && profile != "compact":
		p.kind = "C"
	default:
		p.kind = "F"
		how := 2
		switch profile {
		case "ring":
			if r.chance(75) {
				how = 0
			}
		case "upper":
			how = r.intn(3)
		default:
			if c.algo == "linear" {
				how = r.intn(4)
			}
		}
		p.k = h.pickLive(r, how)
		if p.k < 0 {
			p.kind = "A"
			p.size = genSize(r, c, scale)
			p.align = 1
		}
	}
	if profile == "malformed" && r.chance(25) {
		p.kind = "A"
		switch r.intn(5) {
		case 0:
			p.size = c.size + r.rangeIncl(1, 100)
		case 1:
			p.size = 0
		case 2:
			p.size = -r.rangeIncl(1, 5)
		case 3:
			p.size = c.size
		case 4:
			p.size = c.size * 3
		}
		p.align = pow2[r.intn(len(pow2))]
		p.upper = r.chance(30)
		if c.algo == "linear" && r.chance(10) {
			p.atype = 0
		}
	}
	return p
}

// ---------------------------------------------------------------- leaf functions

// execLeaf evaluates one pure helper of the real code and prints the op line and its result.
func execLeaf(out *bufio.Writer, f []string, st *stats) {
	geti := func(i int) int {
		if i >= len(f) {
			return 0
		}
		v, _ := strconv.Atoi(f[i])
		return v
	}
	fmt.Fprintln(out, strings.Join(f, " "))
	st.ops[f[0]]++
	res := ""
	if guard(func() {
		switch f[0] {
		case "LSC":
			mc, sli, idx, next := metadata.VerifTLSFSizeClass(geti(1))
			res = fmt.Sprintf("R sc %d %d %d %d", mc, sli, idx, next)
		case "LAL":
			res = fmt.Sprintf("R al %d %d", memutils.AlignUp(geti(1), uint(geti(2))), memutils.AlignDown(geti(1), uint(geti(2))))
		case "LPG":
			b := metadata.VerifBlocksOnSamePage(geti(1), geti(2), geti(3), geti(4))
			x := 0
			if b {
				x = 1
			}
			res = fmt.Sprintf("R pg %d", x)
		case "LCF":
			h := vam.VerifNewGranularityHandler(1024, 4096)
			x := 0
			if h.AllocationsConflict(uint32(geti(1)), uint32(geti(2))) {
				x = 1
			}
			res = fmt.Sprintf("R cf %d", x)
		case "LRU":
			h := vam.VerifNewGranularityHandler(uint(geti(1)), 1)
			s2, a2 := h.RoundUpAllocRequest(uint32(geti(2)), geti(3), uint(geti(4)))
			res = fmt.Sprintf("R ru %d %d", s2, a2)
		}
	}) {
		res = "R panic"
	}
	fmt.Fprintln(out, res)
	st.results[f[0]+":"+strings.Fields(res)[1]]++
}

func genLeaf(out *bufio.Writer, r *rng, st *stats, n int) {
	fmt.Fprintln(out, "H 0 leaf functions")
	fmt.Fprintln(out, "CFG algo=leaf size=0 gran=1 handler=vam")
	emit := func(format string, a ...any) {
		execLeaf(out, strings.Fields(fmt.Sprintf(format, a...)), st)
	}
	// size classes: every small size, every class and second-level boundary up to 2^38, random sizes
	for s := 1; s <= 1100; s++ {
		emit("LSC %d", s)
	}
	for k := 8; k <= 38; k++ {
		for j := 0; j <= 32; j++ {
			base := 1<<uint(k) + j*(1<<uint(k-5))
			for d := -1; d <= 1; d++ {
				emit("LSC %d", base+d)
			}
		}
	}
	for i := 0; i < n; i++ {
		emit("LSC %d", 1+r.intn(1<<uint(r.rangeIncl(1, 38))))
	}
	// alignment
	for i := 0; i < n; i++ {
		a := 1 << uint(r.rangeIncl(0, 20))
		v := r.intn(1 << uint(r.rangeIncl(1, 39)))
		if r.chance(30) {
			v = a*r.intn(1000) + r.rangeIncl(-1, 1)
			if v < 0 {
				v = 0
			}
		}
		emit("LAL %d %d", v, a)
	}
	// same-page test
	for i := 0; i < n; i++ {
		pg := 1 << uint(r.rangeIncl(0, 16))
		o1 := r.intn(4 * pg)
		s1 := r.rangeIncl(1, 2*pg)
		o2 := o1 + s1 + r.intn(2*pg)
		if r.chance(5) {
			o2 = o1 + s1 - r.rangeIncl(1, 3) // precondition violated: panic
		}
		emit("LPG %d %d %d %d", o1, s1, o2, pg)
	}
	for a := 0; a <= 7; a++ {
		for b := 0; b <= 7; b++ {
			emit("LCF %d %d", a, b)
		}
	}
	for i := 0; i < n; i++ {
		emit("LRU %d %d %d %d", 1<<uint(r.rangeIncl(0, 16)), r.rangeIncl(0, 6), r.rangeIncl(1, 100000), 1<<uint(r.rangeIncl(0, 14)))
	}
	fmt.Fprintln(out, "END")
}

// ---------------------------------------------------------------- main

func cfgLine(c cfg) string {
	return fmt.Sprintf("CFG algo=%s size=%d gran=%d handler=%s", c.algo, c.size, c.gran, c.handler)
}

func parseCfg(line string) cfg {
	var c cfg
	for _, f := range strings.Fields(line)[1:] {
		kv := strings.SplitN(f, "=", 2)
		switch kv[0] {
		case "algo":
			c.algo = kv[1]
		case "size":
			c.size, _ = strconv.Atoi(kv[1])
		case "gran":
			c.gran, _ = strconv.Atoi(kv[1])
		case "handler":
			c.handler = kv[1]
		}
	}
	return c
}

func printSummary(st *stats, nh int, fails []string) {
	w := os.Stderr
	fmt.Fprintf(w, "SUMMARY histories=%d maxLive=%d oracleFails=%d\n", nh, st.maxLive, st.oracleFail)
	keys := []string{}
	for k := range st.ops {
		keys = append(keys, k)
	}
	sort.Strings(keys)
	for _, k := range keys {
		fmt.Fprintf(w, "OPS %s %d\n", k, st.ops[k])
	}
	keys = keys[:0]
	for k := range st.results {
		keys = append(keys, k)
	}
	sort.Strings(keys)
	for _, k := range keys {
		fmt.Fprintf(w, "RES %s %d\n", k, st.results[k])
	}
}

func main() {
	if len(os.Args) < 2 {
		fmt.Fprintln(os.Stderr, "usage: muh gen|run ...")
		os.Exit(2)
	}
	out := bufio.NewWriterSize(os.Stdout, 1<<20)
	defer out.Flush()
	st := newStats()
	startWatchdog(out)
	switch os.Args[1] {
	case "wrap16":
		// known finding (C03): 65536 one-byte allocations on one 64 KiB granularity page wrap the
		// handler's uint16 page counter to 0; Validate then reports an inconsistency that is not there
		gh := vam.VerifNewGranularityHandler(65536, 131072)
		md := metadata.NewTLSFBlockMetadata(65536, gh)
		md.Init(131072)
		n := 65536
		if len(os.Args) > 2 {
			n, _ = strconv.Atoi(os.Args[2])
		}
		for i := 0; i < n; i++ {
			ok, req, err := md.CreateAllocationRequest(1, 1, false, 2, 0, math.MaxInt)
			if err != nil || !ok {
				fmt.Fprintf(out, "alloc %d refused\n", i)
				break
			}
			if err := md.Alloc(req, 2, i); err != nil {
				fmt.Fprintf(out, "alloc %d failed\n", i)
				break
			}
		}
		verr := md.Validate()
		fmt.Fprintf(out, "allocations=%d count=%d validate_ok=%v\n", n, md.AllocationCount(), verr == nil)
		if verr != nil {
			fmt.Fprintf(out, "ORACLE-FAIL property=C03 sig=tlsf:validate:uint16-page-counter-wrap step=%d %v\n", n, verr)
		}
		return
	case "gen":
		fs := flag.NewFlagSet("gen", flag.ExitOnError)
		algo := fs.String("algo", "tlsf", "")
		seed := fs.Uint64("seed", 1, "")
		n := fs.Int("n", 10, "")
		ops := fs.Int("ops", 60, "")
		profile := fs.String("profile", "basic", "")
		prefix := fs.String("prefix", "", "ops file whose history is replayed before generation continues")
		fs.Parse(os.Args[2:])
		// mix the seed so that the streams of neighbouring seeds are unrelated
		r := &rng{s: (*seed ^ 0x5DEECE66D) * 0xbf58476d1ce4e5b9}
		r.next()
		r.s ^= r.next() << 1
		if *algo == "leaf" {
			genLeaf(out, r, st, *n)
			printSummary(st, 1, nil)
			return
		}
		if *prefix != "" {
			// extension search: replay one history, then continue it with generated operations
			data, err := os.ReadFile(*prefix)
			if err != nil {
				fmt.Fprintln(os.Stderr, err)
				os.Exit(2)
			}
			var cfgl string
			var pops []op
			for _, line := range strings.Split(string(data), "\n") {
				fl := strings.Fields(line)
				if len(fl) == 0 {
					continue
				}
				switch fl[0] {
				case "CFG":
					cfgl = line
				case "A", "Q", "F", "U", "C", "M":
					if p, err := parseOp(fl); err == nil {
						pops = append(pops, p)
					}
				}
			}
			c := parseCfg(cfgl)
			for i := 0; i < *n; i++ {
				fmt.Fprintf(out, "H %d seed=%d extension of %s\n", i, *seed, *prefix)
				fmt.Fprintln(out, cfgLine(c))
				h := newHist(c, out, st)
				for _, p := range pops {
					h.exec(p)
				}
				nops := r.rangeIncl(3, *ops)
				for j := 0; j < nops; j++ {
					h.exec(h.genOp(r, *profile, j, nops))
				}
				fmt.Fprintln(out, "END")
			}
			printSummary(st, *n, nil)
			return
		}
		for i := 0; i < *n; i++ {
			c := genCfg(r, *algo, *profile)
			fmt.Fprintf(out, "H %d seed=%d profile=%s\n", i, *seed, *profile)
			fmt.Fprintln(out, cfgLine(c))
			h := newHist(c, out, st)
			nops := r.rangeIncl(*ops/3, *ops)
			if *profile == "compact" && nops < 110 {
				// compaction needs > 32 entries in one vector and 60% of them freed
				nops = r.rangeIncl(110, 160)
			}
			for j := 0; j < nops; j++ {
				h.exec(h.genOp(r, *profile, j, nops))
			}
			fmt.Fprintln(out, "END")
		}
		printSummary(st, *n, nil)
	case "run":
		f, err := os.Open(os.Args[2])
		if err != nil {
			fmt.Fprintln(os.Stderr, err)
			os.Exit(2)
		}
		sc := bufio.NewScanner(f)
		sc.Buffer(make([]byte, 1<<20), 1<<26)
		var h *hist
		nh := 0
		for sc.Scan() {
			line := sc.Text()
			fl := strings.Fields(line)
			if len(fl) == 0 {
				continue
			}
			switch fl[0] {
			case "H":
				fmt.Fprintln(out, line)
				nh++
			case "CFG":
				fmt.Fprintln(out, line)
				if c := parseCfg(line); c.algo != "leaf" {
					h = newHist(c, out, st)
				}
			case "END":
				fmt.Fprintln(out, "END")
			case "LSC", "LAL", "LPG", "LCF", "LRU":
				execLeaf(out, fl, st)
			case "A", "Q", "F", "U", "C", "M":
				p, err := parseOp(fl)
				if err == nil && h != nil {
					h.exec(p)
				}
			}
		}
		printSummary(st, nh, nil)
	}
}
