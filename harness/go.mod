module verif/harness

go 1.25

require (
	github.com/vkngwrapper/arsenal/memutils v1.1.3
	github.com/vkngwrapper/arsenal/vam v0.0.0
	github.com/vkngwrapper/core/v3 v3.0.2
	github.com/vkngwrapper/extensions/v3 v3.0.4
)

require (
	github.com/CannibalVox/cgoparam v1.1.0 // indirect
	github.com/dolthub/maphash v0.1.0 // indirect
	github.com/dolthub/swiss v0.2.1 // indirect
	github.com/google/uuid v1.6.0 // indirect
	github.com/launchdarkly/go-jsonstream/v3 v3.1.0 // indirect
	github.com/pkg/errors v0.9.1 // indirect
)

replace github.com/vkngwrapper/arsenal/vam => /repo/vam

replace github.com/vkngwrapper/arsenal/memutils => /repo/memutils
