(* drv_dfh.ml — runs the extracted Coq model of the defragmentation planner (Defrag.wstep_f: the
   protocol of Defrag.wstep plus refused commits) on the op lines of a dfh trace and prints the lines dfh prints for the real code (except ORACLE-FAIL).
   Hand-written glue (trusted): line parsing, int <-> Z conversion, printing. *)
open Datatypes
open BinNums

let rec pos_of_int n = if n = 1 then Coq_xH else if n land 1 = 0 then Coq_xO (pos_of_int (n lsr 1)) else Coq_xI (pos_of_int (n lsr 1))
let z_of_int n = if n = 0 then Z0 else if n > 0 then Zpos (pos_of_int n) else Zneg (pos_of_int (-n))
let rec int_of_pos = function Coq_xH -> 1 | Coq_xO p -> 2 * int_of_pos p | Coq_xI p -> 2 * int_of_pos p + 1
let int_of_z = function Z0 -> 0 | Zpos p -> int_of_pos p | Zneg p -> - (int_of_pos p)
let rec int_of_nat = function O -> 0 | S n -> 1 + int_of_nat n
let bool_int b = if b then 1 else 0

let fields line = Stdlib.List.filter (fun s -> s <> "") (String.split_on_char ' ' line)
let atoi f i = match Stdlib.List.nth_opt f i with Some s -> (try int_of_string s with _ -> 0) | None -> 0

let valid_gran g = g >= 1 && g <= 65536 && g land (g - 1) = 0

let parse_cfg f =
  let sizes = ref [] and sentinel = ref false and gran = ref 1 and vam = ref false in
  Stdlib.List.iter (fun tok ->
      match String.split_on_char '=' tok with
      | [ "blocks"; v ] ->
        sizes := Stdlib.List.filter_map (fun s -> match int_of_string_opt s with Some n when n >= 0 -> Some n | _ -> None)
            (String.split_on_char ',' v)
      | [ "sentinel"; v ] -> sentinel := (v = "1")
      | [ "gran"; v ] -> (match int_of_string_opt v with Some g when valid_gran g -> gran := g | _ -> ())
      | [ "handler"; v ] -> if v = "vam" then vam := true
      | _ -> ()) f;
  (!sizes, !sentinel, !gran, !vam)

let cfg_line (sizes, sentinel, gran, vam) =
  Printf.sprintf "CFG blocks=%s sentinel=%d" (String.concat "," (Stdlib.List.map string_of_int sizes)) (bool_int sentinel)
  ^ (if gran <> 1 || vam then Printf.sprintf " gran=%d handler=%s" gran (if vam then "vam" else "fake") else "")

let kind_str = function Util.ROk -> "ok" | Util.RRefused -> "refused" | Util.RError -> "error" | Util.RPanic -> "panic"

let print_obs (w : Defrag.world) =
  let st = w.Defrag.w_st in
  Stdlib.List.iteri (fun idx (id, t) ->
      let v = match Tlsf.validate t with Some true -> 1 | Some false -> 0 | None -> 2 in
      Printf.printf "B %d %d %d cnt=%d free=%d val=%d :" idx (int_of_z id) (int_of_z t.Tlsf.t_size)
        (int_of_z (Tlsf.allocation_count t)) (int_of_z (Tlsf.sum_free_size t)) v;
      Stdlib.List.iter (fun b ->
          let sz = int_of_z b.Tlsf.b_size in
          if sz <> 0 then Printf.printf " %d:%d:%d" (int_of_z b.Tlsf.b_off) sz (bool_int b.Tlsf.b_free))
        (Tlsf.regions t);
      print_newline ()) st.Defrag.d_blocks;
  Stdlib.List.iteri (fun s e ->
      match e with
      | None -> ()
      | Some e ->
        Printf.printf "SL %d %d %d %d %d %d %d %d\n" s (int_of_z e.Defrag.u_blk) (int_of_z e.Defrag.u_off)
          (int_of_z e.Defrag.u_size) (int_of_z e.Defrag.u_align) (int_of_z e.Defrag.u_kind) (int_of_z e.Defrag.u_tag)
          (bool_int e.Defrag.u_temp)) st.Defrag.d_table;
  let ps = match w.Defrag.w_pass with Some p -> p.Pass.p_stats | None -> Pass.ps_zero in
  Printf.printf "PS %d %d %d %d\n" (int_of_z ps.Pass.ps_bytes_moved) (int_of_z ps.Pass.ps_bytes_freed)
    (int_of_z ps.Pass.ps_allocs_moved) (int_of_z ps.Pass.ps_allocs_freed)

let () =
  let ic = open_in Sys.argv.(1) in
  let w : Defrag.worldf option ref = ref None in
  let pend_end : int list option ref = ref None in   (* decisions of an END line waiting for its ORD line *)
  let exec_opf (wd : Defrag.worldf) opf =
    let ((wf', out), log) = Defrag.wstep_f wd opf in
    w := Some wf';
    let w' = wf'.Defrag.wf_w in
    (match out with
     | Defrag.OutKind k -> Printf.printf "R %s\n" (kind_str k)
     | Defrag.OutAlloc (s, off) -> Printf.printf "R ok %d %d\n" (int_of_nat s) (int_of_z off)
     | Defrag.OutNoBlock -> print_endline "R noblock"
     | Defrag.OutNoLive -> print_endline "R nolive"
     | Defrag.OutBusy -> print_endline "R busy"
     | Defrag.OutNoBegin -> print_endline "R nobegin"
     | Defrag.OutDead -> print_endline "R dead"
     | Defrag.OutPass ms ->
       Printf.printf "R ok %d\n" (Stdlib.List.length ms);
       Stdlib.List.iteri (fun i m ->
           Printf.printf "MV %d %d %d %d %d %d %d\n" i (int_of_nat m.Defrag.m_src) (int_of_z m.Defrag.m_srcblk)
             (int_of_z m.Defrag.m_srcoff) (int_of_z m.Defrag.m_dstblk) (int_of_z m.Defrag.m_dstoff) (int_of_z m.Defrag.m_size)) ms;
       (* the refused commit attempts of the pass, with their index among all attempts *)
       Stdlib.List.iteri (fun k a ->
           match a with
           | Defrag.AtFail (slot, dst) -> Printf.printf "RF %d %d %d\n" k (int_of_nat slot) (int_of_z dst)
           | Defrag.AtOk _ -> ()) log
     | Defrag.OutEnd (k, sws) ->
       Printf.printf "R %s\n" (kind_str k);
       Stdlib.List.iter (fun (l, r) -> Printf.printf "SW %d %d\n" (int_of_z l) (int_of_z r)) sws
     | Defrag.OutStats s ->
       print_endline "R ok";
       Printf.printf "RS %d %d %d %d\n" (int_of_z s.Pass.ps_bytes_moved) (int_of_z s.Pass.ps_bytes_freed)
         (int_of_z s.Pass.ps_allocs_moved) (int_of_z s.Pass.ps_allocs_freed));
    let dead_out = (match out with Defrag.OutDead -> true | _ -> false) in
    if not w'.Defrag.w_dead && not dead_out then print_obs w'
  in
  let exec_op wd op = exec_opf wd (Defrag.OpF op) in
  let flush_end ord =
    match !pend_end, !w with
    | Some ds, Some wd ->
      pend_end := None;
      print_endline (String.trim ("ORD " ^ String.concat " " (Stdlib.List.map string_of_int ord)));
      exec_op wd (Defrag.OpEnd (Stdlib.List.map z_of_int ds, Stdlib.List.map z_of_int ord))
    | _ -> ()
  in
  let ints l = Stdlib.List.map (fun s -> try int_of_string s with _ -> 0) l in
  let dispatch f =
    match f with
    | "H" :: _ -> print_endline (String.concat " " f); w := None
    | "CFG" :: _ ->
      let c = parse_cfg f in
      print_endline (cfg_line c);
      let (sizes, sentinel, gran, vam) = c in
      w := Some { Defrag.wf_w = Defrag.world_init_g (if vam then Gran.HVam else Gran.HFake) (z_of_int gran)
                      (Stdlib.List.map z_of_int sizes) sentinel;
                  Defrag.wf_fail = [] }
    | "END" :: rest ->
      (match !w with
       | Some wd when wd.Defrag.wf_w.Defrag.w_open ->
         print_endline (String.concat " " f);
         if wd.Defrag.wf_w.Defrag.w_dead then exec_op wd (Defrag.OpEnd ([], []))
         else pend_end := Some (ints rest)
       | _ -> print_endline "END")
    | k :: _ ->
      (match !w with
       | None -> ()
       | Some wd ->
         print_endline (String.concat " " f);
         let z i = z_of_int (atoi f i) in
         (match k with
          | "A" -> exec_op wd (Defrag.OpAlloc (z 1, z 2, z 3, z 4, z 5))
          | "F" -> if Stdlib.List.length f < 2 then exec_op wd (Defrag.OpFree (z_of_int (-1))) else exec_op wd (Defrag.OpFree (z 1))
          | "BEGIN" -> exec_op wd (Defrag.OpBegin (z 1, z 2, z 3, z 4))
          | "PASS" -> exec_op wd Defrag.OpPass
          | "STATS" -> exec_op wd Defrag.OpStats
          | "CF" ->
            exec_opf wd (Defrag.OpCF (Stdlib.List.filter_map (fun s ->
                match int_of_string_opt s with Some k when k >= 0 -> Some (z_of_int k) | _ -> None) (Stdlib.List.tl f)))
          | _ -> ()))
    | [] -> ()
  in
  (try
     while true do
       let line = input_line ic in
       let f = fields line in
       match f with
       | [] -> ()
       | "ORD" :: rest -> flush_end (ints rest)
       | ("A" | "F" | "BEGIN" | "PASS" | "END" | "STATS" | "CF" | "H" | "CFG") :: _ ->
         (* an END line without its ORD line (hand-written trace): canonical order *)
         if !pend_end <> None then flush_end [];
         dispatch f
       | _ -> ()
     done
   with End_of_file -> ());
  if !pend_end <> None then flush_end []
