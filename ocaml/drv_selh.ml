(* drv_selh.ml — runs the extracted Coq model of memory type selection (Select.v) on the CFG/op lines of a
   selh trace and prints the same lines the Go harness prints for the real code (except ORACLE-FAIL).
   Hand-written glue (trusted): line parsing, int <-> N/Z/nat conversion, printing, the rule deciding which
   ALLOC* ops are supported (must match query.allocSupported in harness/cmd/selh/world.go). *)
open Datatypes
open BinNums

let rec pos_of_int n =
  if n = 1 then Coq_xH
  else if n land 1 = 0 then Coq_xO (pos_of_int (n lsr 1))
  else Coq_xI (pos_of_int (n lsr 1))
let n_of_int n = if n = 0 then N0 else Npos (pos_of_int n)
let z_of_int n = if n = 0 then Z0 else if n > 0 then Zpos (pos_of_int n) else Zneg (pos_of_int (-n))
let rec int_of_pos = function Coq_xH -> 1 | Coq_xO p -> 2 * int_of_pos p | Coq_xI p -> 2 * int_of_pos p + 1
let int_of_n = function N0 -> 0 | Npos p -> int_of_pos p
let int_of_z = function Z0 -> 0 | Zpos p -> int_of_pos p | Zneg p -> - (int_of_pos p)
let rec int_of_nat = function O -> 0 | S n -> 1 + int_of_nat n

let result_name r =
  match r with
  | 0 -> "Success" | 1 -> "NotReady" | 2 -> "Timeout" | 3 -> "EventSet" | 4 -> "EventReset" | 5 -> "Incomplete"
  | -1 -> "OutOfHostMemory" | -2 -> "OutOfDeviceMemory" | -3 -> "InitializationFailed" | -4 -> "DeviceLost"
  | -5 -> "MemoryMapFailed" | -6 -> "LayerNotPresent" | -7 -> "ExtensionNotPresent" | -8 -> "FeatureNotPresent"
  | -9 -> "IncompatibleDriver" | -10 -> "TooManyObjects" | -11 -> "FormatNotSupported" | -12 -> "FragmentedPool"
  | -13 -> "Unknown"
  | _ -> Printf.sprintf "VkResult%d" r

type cfg = { integrated : bool; api : int; amd : bool; types : (int * int) list; heaps : int list }

let split_nonempty c s = Stdlib.List.filter (fun x -> x <> "") (String.split_on_char c s)

let parse_cfg line =
  let c = ref { integrated = false; api = 10; amd = false; types = []; heaps = [] } in
  Stdlib.List.iter (fun f ->
      match String.index_opt f '=' with
      | None -> ()
      | Some i ->
        let k = String.sub f 0 i and v = String.sub f (i + 1) (String.length f - i - 1) in
        (match k with
         | "integrated" -> c := { !c with integrated = (v = "1") }
         | "amd" -> c := { !c with amd = (v = "1") }
         | "api" -> c := { !c with api = int_of_string v }
         | "types" ->
           c := { !c with types =
                            Stdlib.List.map (fun t ->
                                match String.split_on_char ':' t with
                                | [ fl; hp ] -> (int_of_string fl, int_of_string hp)
                                | _ -> failwith "bad type") (split_nonempty ',' v) }
         | "heaps" -> c := { !c with heaps = Stdlib.List.map int_of_string (split_nonempty ',' v) }
         | _ -> ()))
    (split_nonempty ' ' line);
  !c

let cfg_line c =
  Printf.sprintf "CFG integrated=%d api=%d amd=%d ntypes=%d types=%s nheaps=%d heaps=%s"
    (if c.integrated then 1 else 0) c.api (if c.amd then 1 else 0) (Stdlib.List.length c.types)
    (String.concat "," (Stdlib.List.map (fun (f, h) -> Printf.sprintf "%d:%d" f h) c.types))
    (Stdlib.List.length c.heaps)
    (String.concat "," (Stdlib.List.map string_of_int c.heaps))

let device_of c =
  { Select.d_integrated = c.integrated; Select.d_amd = c.amd;
    Select.d_types = Stdlib.List.map (fun (f, _) -> n_of_int f) c.types }

let request_of a =
  { Select.r_usage = n_of_int a.(0); Select.r_flags = n_of_int a.(1); Select.r_req = n_of_int a.(2);
    Select.r_pref = n_of_int a.(3); Select.r_ctb = n_of_int a.(4) }

let print_prefs d rq bufimg =
  let ((rq', pf), np) = Select.prefs_of d rq bufimg in
  Printf.printf "P %d %d %d\n" (int_of_n rq') (int_of_n pf) (int_of_n np)

let alloc_flags_allowed = 1 lor 4 lor 64 lor 128 lor 256 lor 512 lor 1024 lor 2048 lor 4096

let alloc_supported usage flags size fail_code bufimg =
  let rest = flags land (lnot alloc_flags_allowed) in
  let rest = if rest = 2 && (flags land 1 <> 0 || usage = 1) then 0 else rest in
  rest = 0 && size >= 1 && size <= 4096 && fail_code < 0
  && (match bufimg with None -> true | Some u -> u land (lnot 0x1ff) = 0)

let arity = function
  | "NEW" -> Some 0 | "FIND" -> Some 6 | "FINDBUF" -> Some 7 | "FINDIMG" -> Some 7
  | "ALLOCSEQ" -> Some 9 | "ALLOCBUF" -> Some 10 | _ -> None

(* arguments are unsigned 32-bit values, except that a leading '-' denotes a negative VkResult (failCode) *)
let parse_arg s =
  let v = int_of_string s in
  if v < 0 then v else v land 0xffffffff

let exec_op c name (a : int array) =
  let d = device_of c in
  (* op line, normalised exactly like the harness prints it *)
  print_string name;
  Array.iter (fun v -> Printf.printf " %d" v) a;
  print_newline ();
  match name with
  | "NEW" ->
    print_endline "R ok";
    Printf.printf "G %d\n" (int_of_n (Select.global_bits d.Select.d_amd d.Select.d_types))
  | "FIND" | "FINDBUF" | "FINDIMG" ->
    let rq = request_of a in
    let bufimg = if name = "FIND" then None else Some (n_of_int a.(6)) in
    (match Select.select d rq (n_of_int a.(5)) bufimg with
     | Some i -> Printf.printf "R ok %d\n" (int_of_nat i)
     | None -> print_endline "R err FeatureNotPresent");
    print_prefs d rq bufimg
  | "ALLOCSEQ" | "ALLOCBUF" ->
    let rq = request_of a in
    let size = a.(6) in
    let bufimg_i, oom, fc =
      if name = "ALLOCSEQ" then (None, a.(7), a.(8)) else (Some a.(7), a.(8), a.(9)) in
    if not (alloc_supported a.(0) a.(1) size fc bufimg_i) then print_endline "R skip"
    else begin
      let bufimg = match bufimg_i with None -> None | Some u -> Some (n_of_int u) in
      let (tried, res) =
        Select.allocate d rq (n_of_int a.(5)) bufimg (Select.mask_oracle (n_of_int oom) (z_of_int fc)) in
      (match res with
       | Select.ROk i -> Printf.printf "R ok %d\n" (int_of_nat i)
       | Select.RErr code -> Printf.printf "R err %s\n" (result_name (int_of_z code))
       | Select.RFuel -> print_endline "R fuel");
      print_string "TRIED";
      Stdlib.List.iter (fun i -> Printf.printf " %d" (int_of_nat i)) tried;
      print_newline ();
      print_prefs d rq bufimg
    end
  | _ -> ()

let () =
  let ic = open_in Sys.argv.(1) in
  let cur = ref None in
  (try
     while true do
       let line = input_line ic in
       match split_nonempty ' ' line with
       | [] -> ()
       | "H" :: _ -> print_endline line; cur := None
       | "CFG" :: _ ->
         let c = parse_cfg line in
         print_endline (cfg_line c);
         cur := Some c
       | "END" :: _ -> print_endline "END"; cur := None
       | name :: args ->
         (match arity name, !cur with
          | Some n, Some c when Stdlib.List.length args = n ->
            (match (try Some (Array.of_list (Stdlib.List.map parse_arg args)) with _ -> None) with
             | Some a -> exec_op c name a
             | None -> ())
          | _ -> ())
     done
   with End_of_file -> ());
  close_in ic
