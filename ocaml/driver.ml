(* driver.ml — runs the extracted Coq models on the operation lines of a muh trace and prints
   the same observable lines muh prints for the real code.  Hand-written glue (trusted): line
   parsing, int <-> Z conversion, printing, the allocation-number -> handle table. *)
open Datatypes
open BinNums

let rec pos_of_int n = if n = 1 then Coq_xH else if n land 1 = 0 then Coq_xO (pos_of_int (n lsr 1)) else Coq_xI (pos_of_int (n lsr 1))
let z_of_int n = if n = 0 then Z0 else if n > 0 then Zpos (pos_of_int n) else Zneg (pos_of_int (-n))
let rec int_of_pos = function Coq_xH -> 1 | Coq_xO p -> 2 * int_of_pos p | Coq_xI p -> 2 * int_of_pos p + 1
let int_of_z = function Z0 -> 0 | Zpos p -> int_of_pos p | Zneg p -> - (int_of_pos p)

let int_of_n = function N0 -> 0 | Npos p -> int_of_pos p

let tag_of_int t = if t < 0 then None else Some (z_of_int t)
let tag_str = function None -> "-1" | Some z -> string_of_int (int_of_z z)
let bool_int b = if b then 1 else 0

let max_int_z = z_of_int max_int

type cfg = { algo : string; size : int; gran : int; handler : string }

let parse_cfg line =
  let c = ref { algo = "tlsf"; size = 0; gran = 1; handler = "fake" } in
  Stdlib.List.iter (fun f ->
      match String.split_on_char '=' f with
      | [ "algo"; v ] -> c := { !c with algo = v }
      | [ "size"; v ] -> c := { !c with size = int_of_string v }
      | [ "gran"; v ] -> c := { !c with gran = int_of_string v }
      | [ "handler"; v ] -> c := { !c with handler = v }
      | _ -> ())
    (String.split_on_char ' ' line);
  !c

(* ------------------------------------------------------------------ TLSF *)

module T = struct
  type st = { mutable t : Tlsf.tlsf; live : (int, int * int) Hashtbl.t; mutable next_k : int }

  let init c =
    let h = if c.handler = "vam" then Gran.HVam else Gran.HFake in
    { t = Tlsf.tlsf_init h (z_of_int c.gran) (z_of_int c.size); live = Hashtbl.create 16; next_k = 0 }

  let print_obs s =
    let t = s.t in
    let v = match Tlsf.validate t with Some true -> 1 | Some false -> 0 | None -> 2 in
    Printf.printf "S cnt=%d free=%d empty=%d fr=%d val=%d\n"
      (int_of_z (Tlsf.allocation_count t)) (int_of_z (Tlsf.sum_free_size t))
      (bool_int (Tlsf.is_empty t)) (int_of_z (Tlsf.free_regions_count t)) v;
    let ks = Stdlib.List.sort compare (Hashtbl.fold (fun k _ acc -> k :: acc) s.live []) in
    print_string "L";
    Stdlib.List.iter (fun k ->
        let (h, sz) = Hashtbl.find s.live k in
        let off = match Tlsf.find_blk (z_of_int h) t.Tlsf.t_chain with
          | Some b -> string_of_int (int_of_z b.Tlsf.b_off) | None -> "E" in
        let tg = match Tlsf.get_user_data t (z_of_int h) with
          | Some tg -> tag_str tg | None -> "E" in
        Printf.printf " %d:%s:%d:%s" k off sz tg) ks;
    print_newline ();
    print_string "V";
    Stdlib.List.iter (fun b ->
        let sz = int_of_z b.Tlsf.b_size in
        if sz <> 0 then
          Printf.printf " %d:%d:%d:%s" (int_of_z b.Tlsf.b_off) sz (bool_int b.Tlsf.b_free) (tag_str b.Tlsf.b_tag))
      (Tlsf.regions t);
    print_newline ();
    let st = Tlsf.add_statistics t in
    Printf.printf "ST %d %d %d %d\n" (int_of_z st.Tlsf.s_blocks) (int_of_z st.Tlsf.s_allocs)
      (int_of_z st.Tlsf.s_block_bytes) (int_of_z st.Tlsf.s_alloc_bytes);
    let d = Tlsf.add_detailed_statistics t in
    let om = function None -> -1 | Some z -> int_of_z z in
    let ds = d.Tlsf.d_stats in
    Printf.printf "DS %d %d %d %d %d %d %d %d %d\n" (int_of_z ds.Tlsf.s_blocks) (int_of_z ds.Tlsf.s_allocs)
      (int_of_z ds.Tlsf.s_block_bytes) (int_of_z ds.Tlsf.s_alloc_bytes) (int_of_z d.Tlsf.d_unused_count)
      (om d.Tlsf.d_alloc_min) (int_of_z d.Tlsf.d_alloc_max) (om d.Tlsf.d_unused_min) (int_of_z d.Tlsf.d_unused_max);
    (* iteration: map handles back to allocation numbers *)
    let by_h = Hashtbl.create 16 in
    Hashtbl.iter (fun k (h, _) -> Hashtbl.replace by_h h k) s.live;
    print_string "IT";
    Stdlib.List.iter (fun h ->
        match Hashtbl.find_opt by_h (int_of_z h) with
        | Some k -> Printf.printf " %d" k
        | None -> print_string " ?") (Tlsf.iterate t);
    print_newline ();
    (* free-list structure: first-level bitmap | non-zero second-level bitmaps | non-empty lists in list order *)
    Printf.printf "FL %d |" (int_of_n t.Tlsf.t_bitmap);
    Stdlib.List.iteri (fun c v -> let v = int_of_n v in if v <> 0 then Printf.printf " %d:%d" c v) t.Tlsf.t_inner;
    print_string " |";
    Stdlib.List.iteri (fun i l ->
        if l <> [] then begin
          Printf.printf " %d:" i;
          Stdlib.List.iteri (fun j off -> if j > 0 then print_string ","; print_string (string_of_int (int_of_z off))) l
        end) t.Tlsf.t_lists;
    print_newline ()

  let kind_str = function Util.ROk -> "ok" | Util.RRefused -> "refused" | Util.RError -> "error" | Util.RPanic -> "panic"

  let exec s (f : string list) =
    let i n = int_of_string (Stdlib.List.nth f n) in
    let zi n = z_of_int (i n) in
    let maxoff n = if i n < 0 then max_int_z else zi n in
    (match Stdlib.List.hd f with
     | "A" ->
       let op = Tlsf.OAlloc (zi 1, zi 2, zi 3, zi 4, i 5 = 1, maxoff 6, tag_of_int (i 7)) in
       let (t', o) = Tlsf.step s.t op in
       s.t <- t';
       (match o.Tlsf.o_kind with
        | Util.ROk ->
          let k = s.next_k in
          s.next_k <- k + 1;
          Hashtbl.replace s.live k (int_of_z o.Tlsf.o_off, int_of_z o.Tlsf.o_size);
          Printf.printf "R ok %d %d\n" (int_of_z o.Tlsf.o_off) (int_of_z o.Tlsf.o_size)
        | k -> Printf.printf "R %s\n" (kind_str k))
     | "Q" ->
       let op = Tlsf.ORequest (zi 1, zi 2, zi 3, zi 4, i 5 = 1, maxoff 6) in
       let (t', o) = Tlsf.step s.t op in
       s.t <- t';
       (match o.Tlsf.o_kind with
        | Util.ROk -> Printf.printf "R ok %d %d\n" (int_of_z o.Tlsf.o_off) (int_of_z o.Tlsf.o_size)
        | k -> Printf.printf "R %s\n" (kind_str k))
     | "F" ->
       (match Hashtbl.find_opt s.live (i 1) with
        | None -> print_endline "R nolive"
        | Some (h, _) ->
          let (t', o) = Tlsf.step s.t (Tlsf.OFree (z_of_int h)) in
          s.t <- t';
          if o.Tlsf.o_kind = Util.ROk then Hashtbl.remove s.live (i 1);
          Printf.printf "R %s\n" (kind_str o.Tlsf.o_kind))
     | "U" ->
       (match Hashtbl.find_opt s.live (i 1) with
        | None -> print_endline "R nolive"
        | Some (h, _) ->
          let (t', o) = Tlsf.step s.t (Tlsf.OSetUD (z_of_int h, tag_of_int (i 2))) in
          s.t <- t';
          Printf.printf "R %s\n" (kind_str o.Tlsf.o_kind))
     | "C" ->
       let (t', _) = Tlsf.step s.t Tlsf.OClear in
       s.t <- t';
       Hashtbl.reset s.live;
       print_endline "R ok"
     | "M" ->
       let (_, o) = Tlsf.step s.t (Tlsf.OMayHave (zi 1, zi 2)) in
       Printf.printf "R ok %d\n" (int_of_z o.Tlsf.o_off)
     | _ -> ());
    print_obs s
end

(* ------------------------------------------------------------------ linear *)

module L = struct
  (* live: allocation number -> (handle, granted size); the handle is offset+1 as in Go *)
  type st = { mutable l : Linear.linear; live : (int, int * int) Hashtbl.t; mutable next_k : int }

  let init c =
    let h = if c.handler = "vam" then Gran.HVam else Gran.HFake in
    { l = Linear.linear_init h (z_of_int c.gran) (z_of_int c.size); live = Hashtbl.create 16; next_k = 0 }

  let print_obs s =
    let l = s.l in
    let v = match Linear.validate l with Some true -> 1 | Some false -> 0 | None -> 2 in
    Printf.printf "S cnt=%d free=%d empty=%d fr=-1 val=%d\n"
      (int_of_z (Linear.allocation_count l)) (int_of_z (Linear.sum_free_size l))
      (bool_int (Linear.is_empty l)) v;
    let ks = Stdlib.List.sort compare (Hashtbl.fold (fun k _ acc -> k :: acc) s.live []) in
    print_string "L";
    Stdlib.List.iter (fun k ->
        let (h, sz) = Hashtbl.find s.live k in
        let off = int_of_z (Linear.allocation_offset (z_of_int h)) in
        let tg = match Linear.get_user_data l (z_of_int h) with
          | Linear.UDOk tg -> tag_str tg | Linear.UDError -> "E" | Linear.UDPanic -> "P" in
        Printf.printf " %d:%d:%d:%s" k off sz tg) ks;
    print_newline ();
    print_string "V";
    (match Linear.visit_regions l with
     | None -> print_string " panic"
     | Some rs ->
       let rs = Stdlib.List.map (fun (((off, sz), free), tg) -> (int_of_z off, int_of_z sz, free, tg)) rs in
       (* muh sorts the visited regions by (offset, size), stable *)
       let rs = Stdlib.List.stable_sort (fun (o1, s1, _, _) (o2, s2, _, _) ->
           if o1 <> o2 then compare o1 o2 else compare s1 s2) rs in
       Stdlib.List.iter (fun (off, sz, free, tg) ->
           if sz <> 0 then Printf.printf " %d:%d:%d:%s" off sz (bool_int free) (tag_str tg)) rs);
    print_newline ();
    (match Linear.add_statistics l with
     | None -> print_endline "ST panic"
     | Some st ->
       Printf.printf "ST %d %d %d %d\n" (int_of_z st.Linear.s_blocks) (int_of_z st.Linear.s_allocs)
         (int_of_z st.Linear.s_block_bytes) (int_of_z st.Linear.s_alloc_bytes));
    (match Linear.add_detailed_statistics l with
     | None -> print_endline "DS panic"
     | Some d ->
       let om = function None -> -1 | Some z -> int_of_z z in
       let ds = d.Linear.d_stats in
       Printf.printf "DS %d %d %d %d %d %d %d %d %d\n" (int_of_z ds.Linear.s_blocks) (int_of_z ds.Linear.s_allocs)
         (int_of_z ds.Linear.s_block_bytes) (int_of_z ds.Linear.s_alloc_bytes) (int_of_z d.Linear.d_unused_count)
         (om d.Linear.d_alloc_min) (int_of_z d.Linear.d_alloc_max) (om d.Linear.d_unused_min) (int_of_z d.Linear.d_unused_max))

  let kind_str = function Util.ROk -> "ok" | Util.RRefused -> "refused" | Util.RError -> "error" | Util.RPanic -> "panic"

  let exec s (f : string list) =
    let i n = int_of_string (Stdlib.List.nth f n) in
    let zi n = z_of_int (i n) in
    let maxoff n = if i n < 0 then max_int_z else zi n in
    (match Stdlib.List.hd f with
     | "A" ->
       let op = Linear.OAlloc (zi 1, zi 2, zi 3, zi 4, i 5 = 1, maxoff 6, tag_of_int (i 7)) in
       let (l', o) = Linear.step s.l op in
       s.l <- l';
       (match o.Linear.o_kind with
        | Util.ROk ->
          let k = s.next_k in
          s.next_k <- k + 1;
          Hashtbl.replace s.live k (int_of_z o.Linear.o_off + 1, int_of_z o.Linear.o_size);
          Printf.printf "R ok %d %d\n" (int_of_z o.Linear.o_off) (int_of_z o.Linear.o_size)
        | k -> Printf.printf "R %s\n" (kind_str k))
     | "Q" ->
       let op = Linear.ORequest (zi 1, zi 2, zi 3, zi 4, i 5 = 1, maxoff 6) in
       let (l', o) = Linear.step s.l op in
       s.l <- l';
       (match o.Linear.o_kind with
        | Util.ROk -> Printf.printf "R ok %d %d\n" (int_of_z o.Linear.o_off) (int_of_z o.Linear.o_size)
        | k -> Printf.printf "R %s\n" (kind_str k))
     | "F" ->
       (match Hashtbl.find_opt s.live (i 1) with
        | None -> print_endline "R nolive"
        | Some (h, _) ->
          let (l', o) = Linear.step s.l (Linear.OFree (z_of_int h)) in
          s.l <- l';
          if o.Linear.o_kind = Util.ROk then Hashtbl.remove s.live (i 1);
          Printf.printf "R %s\n" (kind_str o.Linear.o_kind))
     | "U" ->
       (match Hashtbl.find_opt s.live (i 1) with
        | None -> print_endline "R nolive"
        | Some (h, _) ->
          let (l', o) = Linear.step s.l (Linear.OSetUD (z_of_int h, tag_of_int (i 2))) in
          s.l <- l';
          Printf.printf "R %s\n" (kind_str o.Linear.o_kind))
     | "C" ->
       let (l', _) = Linear.step s.l Linear.OClear in
       s.l <- l';
       Hashtbl.reset s.live;
       print_endline "R ok"
     | "M" ->
       let (_, o) = Linear.step s.l (Linear.OMayHave (zi 1, zi 2)) in
       Printf.printf "R ok %d\n" (int_of_z o.Linear.o_off)
     | _ -> ());
    print_obs s
end

(* ------------------------------------------------------------------ linear reference model (LinearSpec.v) *)

(* MUH_SPEC=1: linear histories are replayed on the reference semantics LinearSpec.spec_step and ONLY
   the R lines are printed (no H/CFG/op/state lines; histories of other algorithms and leaf lines
   print nothing), to be diffed against `grep '^R'` of the real-code trace. *)
module S = struct
  type st = { mutable sp : LinearSpec.spec; live : (int, int * int) Hashtbl.t; mutable next_k : int }

  let init c =
    let h = if c.handler = "vam" then Gran.HVam else Gran.HFake in
    { sp = LinearSpec.spec_init h (z_of_int c.gran) (z_of_int c.size); live = Hashtbl.create 16; next_k = 0 }

  let exec s (f : string list) =
    let i n = int_of_string (Stdlib.List.nth f n) in
    let zi n = z_of_int (i n) in
    let maxoff n = if i n < 0 then max_int_z else zi n in
    match Stdlib.List.hd f with
    | "A" ->
      let op = Linear.OAlloc (zi 1, zi 2, zi 3, zi 4, i 5 = 1, maxoff 6, tag_of_int (i 7)) in
      let (sp', o) = LinearSpec.spec_step s.sp op in
      s.sp <- sp';
      (match o.Linear.o_kind with
       | Util.ROk ->
         let k = s.next_k in
         s.next_k <- k + 1;
         Hashtbl.replace s.live k (int_of_z o.Linear.o_off + 1, int_of_z o.Linear.o_size);
         Printf.printf "R ok %d %d\n" (int_of_z o.Linear.o_off) (int_of_z o.Linear.o_size)
       | k -> Printf.printf "R %s\n" (L.kind_str k))
    | "Q" ->
      let op = Linear.ORequest (zi 1, zi 2, zi 3, zi 4, i 5 = 1, maxoff 6) in
      let (_, o) = LinearSpec.spec_step s.sp op in
      (match o.Linear.o_kind with
       | Util.ROk -> Printf.printf "R ok %d %d\n" (int_of_z o.Linear.o_off) (int_of_z o.Linear.o_size)
       | k -> Printf.printf "R %s\n" (L.kind_str k))
    | "F" ->
      (match Hashtbl.find_opt s.live (i 1) with
       | None -> print_endline "R nolive"
       | Some (h, _) ->
         let (sp', o) = LinearSpec.spec_step s.sp (Linear.OFree (z_of_int h)) in
         s.sp <- sp';
         if o.Linear.o_kind = Util.ROk then Hashtbl.remove s.live (i 1);
         Printf.printf "R %s\n" (L.kind_str o.Linear.o_kind))
    | "U" ->
      (match Hashtbl.find_opt s.live (i 1) with
       | None -> print_endline "R nolive"
       | Some (h, _) ->
         let (sp', o) = LinearSpec.spec_step s.sp (Linear.OSetUD (z_of_int h, tag_of_int (i 2))) in
         s.sp <- sp';
         Printf.printf "R %s\n" (L.kind_str o.Linear.o_kind))
    | "C" ->
      let (sp', _) = LinearSpec.spec_step s.sp Linear.OClear in
      s.sp <- sp';
      Hashtbl.reset s.live;
      print_endline "R ok"
    | "M" ->
      let (_, o) = LinearSpec.spec_step s.sp (Linear.OMayHave (zi 1, zi 2)) in
      Printf.printf "R ok %d\n" (int_of_z o.Linear.o_off)
    | _ -> ()
end

(* ------------------------------------------------------------------ leaf functions (stateless) *)

module Leaf = struct
  let exec (f : string list) =
    let i n = int_of_string (Stdlib.List.nth f n) in
    let zi n = z_of_int (i n) in
    match Stdlib.List.hd f with
    | "LSC" ->
      let s = zi 1 in
      let mc = Tlsf.size_to_class s in
      let sli = Tlsf.size_to_sli s mc in
      Printf.printf "R sc %d %d %d %d\n" (int_of_z mc) (int_of_z sli) (int_of_z (Tlsf.list_index mc sli))
        (int_of_z (Tlsf.size_for_next_list s))
    | "LAL" ->
      Printf.printf "R al %d %d\n" (int_of_z (Util.align_up (zi 1) (zi 2))) (int_of_z (Util.align_down (zi 1) (zi 2)))
    | "LPG" ->
      (match Linear.blocks_on_same_page (zi 1) (zi 2) (zi 3) (zi 4) with
       | None -> print_endline "R panic"
       | Some b -> Printf.printf "R pg %d\n" (bool_int b))
    | "LCF" -> Printf.printf "R cf %d\n" (bool_int (Gran.conflict (zi 1) (zi 2)))
    | "LRU" ->
      let g = { Gran.g_h = Gran.HVam; Gran.g_g = zi 1; Gran.g_regions = [] } in
      let (s', a') = Gran.round_up g (zi 2) (zi 3) (zi 4) in
      Printf.printf "R ru %d %d\n" (int_of_z s') (int_of_z a')
    | _ -> ()
end

(* ------------------------------------------------------------------ main loop *)

type anyst = NoSt | LeafSt | TSt of T.st | LSt of L.st | SSt of S.st

let spec_mode = (try Sys.getenv "MUH_SPEC" = "1" with Not_found -> false)

let () =
  let ic = if Array.length Sys.argv > 1 then open_in Sys.argv.(1) else stdin in
  let st = ref NoSt in
  (try
     while true do
       let line = input_line ic in
       let f = Stdlib.List.filter (fun x -> x <> "") (String.split_on_char ' ' line) in
       match f with
       | [] -> ()
       | _ when spec_mode ->
         (match f with
          | "CFG" :: _ ->
            let c = parse_cfg line in
            st := (match c.algo with "linear" -> SSt (S.init c) | _ -> NoSt)
          | ("A" | "Q" | "F" | "U" | "C" | "M") :: _ ->
            (match !st with SSt s -> S.exec s f | _ -> ())
          | _ -> ())
       | "H" :: _ -> print_endline line
       | "CFG" :: _ ->
         print_endline line;
         let c = parse_cfg line in
         st := (match c.algo with "tlsf" -> TSt (T.init c) | "linear" -> LSt (L.init c) | _ -> NoSt)
       | "END" :: _ -> print_endline "END"
       | ("A" | "Q" | "F" | "U" | "C" | "M") :: _ ->
         (match !st with
          | TSt s -> print_endline line; T.exec s f
          | LSt s -> print_endline line; L.exec s f
          | _ -> ())
       | ("LSC" | "LAL" | "LPG" | "LCF" | "LRU") :: _ -> print_endline line; Leaf.exec f
       | _ -> ()
     done
   with End_of_file -> ())
