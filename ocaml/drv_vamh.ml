(* drv_vamh.ml — runs the extracted whole-allocator model (Vam*.v) on the header and OP lines of a vamh
   trace and prints the same lines vamh prints for the real code, except VIOL / NOTE / ORACLE-FAIL / #.
   Hand-written glue (trusted): line parsing, int <-> Z conversion, printing. *)
open BinNums

let rec pos_of_i64 (n : int64) =
  if n = 1L then Coq_xH
  else if Int64.logand n 1L = 0L then Coq_xO (pos_of_i64 (Int64.shift_right_logical n 1))
  else Coq_xI (pos_of_i64 (Int64.shift_right_logical n 1))
let z_of_i64 (n : int64) =
  if n = 0L then Z0 else if n > 0L then Zpos (pos_of_i64 n)
  else if n = Int64.min_int then Zneg (Coq_xO (pos_of_i64 (Int64.shift_right_logical n 1)))
  else Zneg (pos_of_i64 (Int64.neg n))
let rec i64_of_pos = function
  | Coq_xH -> 1L
  | Coq_xO p -> Int64.mul 2L (i64_of_pos p)
  | Coq_xI p -> Int64.add (Int64.mul 2L (i64_of_pos p)) 1L
let i64_of_z = function Z0 -> 0L | Zpos p -> i64_of_pos p | Zneg p -> Int64.neg (i64_of_pos p)
let zs z = Int64.to_string (i64_of_z z)
let z_of_string s = z_of_i64 (try Int64.of_string s with _ -> 0L)
let z_of_int n = z_of_i64 (Int64.of_int n)

let fields line = Stdlib.List.filter (fun x -> x <> "") (String.split_on_char ' ' (String.trim line))

let result_name code =
  match Int64.to_int (i64_of_z code) with
  | 0 -> "Error"
  | -1 -> "OutOfHostMemory" | -2 -> "OutOfDeviceMemory" | -3 -> "InitializationFailed"
  | -4 -> "DeviceLost" | -5 -> "MemoryMapFailed" | -6 -> "LayerNotPresent"
  | -7 -> "ExtensionNotPresent" | -8 -> "FeatureNotPresent" | -9 -> "IncompatibleDriver"
  | -10 -> "TooManyObjects" | -11 -> "FormatNotSupported" | -12 -> "FragmentedPool"
  | -13 -> "Unknown"
  | 1 -> "NotReady" | 2 -> "Timeout" | 3 -> "EventSet" | 4 -> "EventReset" | 5 -> "Incomplete"
  | n -> Printf.sprintf "VkResult%d" n

let call_line = function
  | VamDev.CAlloc (m, t, s, d, r) -> Printf.sprintf "CALL alloc %s %s %s %s %s" (zs m) (zs t) (zs s) (zs d) (zs r)
  | VamDev.CFree m -> Printf.sprintf "CALL free %s" (zs m)
  | VamDev.CMap (m, o, s, r) -> Printf.sprintf "CALL map %s %s %s %s" (zs m) (zs o) (zs s) (zs r)
  | VamDev.CUnmap m -> Printf.sprintf "CALL unmap %s" (zs m)
  | VamDev.CFlush (inval, m, o, s, r) ->
    Printf.sprintf "CALL %s %s %s %s %s" (if inval then "inval" else "flush") (zs m) (zs o) (zs s) (zs r)
  | VamDev.CCreate (image, res, r) -> Printf.sprintf "CALL %s %s %s" (if image then "cimg" else "cbuf") (zs res) (zs r)
  | VamDev.CDestroy (image, res) -> Printf.sprintf "CALL %s %s" (if image then "dimg" else "dbuf") (zs res)
  | VamDev.CReq (image, res) -> Printf.sprintf "CALL %s %s" (if image then "reqimg" else "reqbuf") (zs res)
  | VamDev.CBind (image, res, m, o, r) ->
    Printf.sprintf "CALL %s %s %s %s %s" (if image then "bindimg" else "bindbuf") (zs res) (zs m) (zs o) (zs r)

let tag_name = function
  | VamWorld.LA -> "A" | VamWorld.LT -> "T" | VamWorld.LRES -> "RES" | VamWorld.LMOVES -> "MOVES" | VamWorld.LMV -> "MV"
  | VamWorld.LDEND -> "DEND" | VamWorld.LDSTATS -> "DSTATS"
  | VamWorld.LDEV -> "DEV" | VamWorld.LHEAP -> "HEAP" | VamWorld.LSTATT -> "STATT"
  | VamWorld.LSTATH -> "STATH" | VamWorld.LSTATA -> "STATA" | VamWorld.LPOOLL -> "POOL"
  | VamWorld.LLIST -> "LIST" | VamWorld.LBLK -> "BLK" | VamWorld.LOBSPANIC -> "OBSPANIC"

let print_line (tag, ints) =
  print_endline (String.concat " " (tag_name tag :: Stdlib.List.map zs ints))

let parse_op f =
  let a = Array.of_list (Stdlib.List.map z_of_string (Stdlib.List.tl f)) in
  let n = Array.length a in
  let open VamWorld in
  match Stdlib.List.hd f with
  | "new" when n = 0 -> WNew
  | "alloc" when n = 10 -> WAlloc (a.(0), a.(1), a.(2), a.(3), a.(4), a.(5), a.(6), a.(7), a.(8), a.(9))
  | "allocn" when n = 11 -> WAllocN (a.(0), a.(1), a.(2), a.(3), a.(4), a.(5), a.(6), a.(7), a.(8), a.(9), a.(10))
  | "free" when n = 1 -> WFree a.(0)
  | "freen" when n = 2 -> WFreeN (a.(0), a.(1))
  | "map" when n = 1 -> WMap a.(0)
  | "unmap" when n = 1 -> WUnmap a.(0)
  | "rw" when n = 2 -> WRw a.(0)
  | "flush" when n = 3 -> WFlush (false, a.(0), a.(1), a.(2))
  | "inval" when n = 3 -> WFlush (true, a.(0), a.(1), a.(2))
  | "mkpool" when n = 7 -> WMkPool (a.(0), a.(1), a.(2), a.(3), a.(4), a.(5), a.(6))
  | "rmpool" when n = 1 -> WRmPool a.(0)
  | "stats" when n = 1 -> WStats a.(0)
  | "destroy" when n = 0 -> WDestroy
  | "fault" when n = 4 -> WFault (a.(0), a.(1), a.(2), a.(3))
  | "dbegin" when n = 5 -> WDBegin (a.(0), a.(1), a.(2), a.(3), a.(4))
  | "dpass" when n = 1 -> WDPass a.(0)
  | "dmove" when n = 3 -> WDMove (a.(0), a.(1), a.(2))
  | "dend" when n = 1 -> WDEnd a.(0)
  | "dfin" when n = 1 -> WDFin a.(0)
  | "cbuf" when n = 15 -> WCBuf (a.(0), a.(1), a.(2), a.(3), a.(4), a.(5), a.(6), a.(7), a.(8), a.(9), a.(10), a.(11), a.(12), a.(13), a.(14))
  | "cimg" when n = 15 -> WCImg (a.(0), a.(1), a.(2), a.(3), a.(4), a.(5), a.(6), a.(7), a.(8), a.(9), a.(10), a.(11), a.(12), a.(13), a.(14))
  | "dbuf" when n = 2 -> WDRes (false, a.(0), a.(1))
  | "dimg" when n = 2 -> WDRes (true, a.(0), a.(1))
  | "rbuf" when n = 6 -> WRRes (false, a.(0), Z0, a.(1), a.(2), a.(3), a.(4), a.(5))
  | "rimg" when n = 7 -> WRRes (true, a.(0), a.(1), a.(2), a.(3), a.(4), a.(5), a.(6))
  | "rdres" when n = 1 -> WRdRes a.(0)
  | "abuf" when n = 8 -> WARes (false, a.(0), a.(1), a.(2), a.(3), a.(4), a.(5), a.(6), a.(7))
  | "aimg" when n = 8 -> WARes (true, a.(0), a.(1), a.(2), a.(3), a.(4), a.(5), a.(6), a.(7))
  | "bbuf" when n = 3 -> WBRes (false, a.(0), a.(1), a.(2))
  | "bimg" when n = 3 -> WBRes (true, a.(0), a.(1), a.(2))
  | _ -> WUnsupported

let () =
  let ic = if Array.length Sys.argv > 1 then open_in Sys.argv.(1) else stdin in
  let cfgline = ref [] and heaps = ref [] and types = ref [] in
  let cfg = ref None and world = ref VamWorld.world_init in
  let get_cfg () =
    match !cfg with
    | Some c -> c
    | None ->
      let g i = match Stdlib.List.nth_opt !cfgline i with Some s -> z_of_string s | None -> Z0 in
      let b i = (match Stdlib.List.nth_opt !cfgline i with Some s -> s <> "0" | None -> false) in
      let c = { VamDev.c_api = g 1; c_integrated = b 2; c_gran = g 3; c_atom = g 4; c_maxcount = g 5;
                c_budgetext = b 6; c_large = g 7; c_extsync = b 8;
                c_heaps = Stdlib.List.rev !heaps; c_types = Stdlib.List.rev !types } in
      cfg := Some c; c in
  (try
     while true do
       let line = input_line ic in
       let f = fields line in
       match f with
       | [] -> ()
       | "VAMH" :: _ -> print_endline (String.trim line)
       | "CFG" :: _ -> print_endline (String.trim line); cfgline := f
       | "HEAPCFG" :: [_; size; dl; limit; budget; other] ->
         print_endline (String.trim line);
         heaps := { VamDev.h_size = z_of_string size; h_devlocal = dl <> "0"; h_limit = z_of_string limit;
                    h_budget = z_of_string budget; h_other = z_of_string other } :: !heaps
       | "TYPECFG" :: [_; heap; flags] ->
         print_endline (String.trim line);
         types := { VamDev.ty_heap = z_of_string heap; ty_flags = z_of_string flags } :: !types
       | "END" :: _ -> print_endline "END"
       | "OP" :: rest when rest <> [] ->
         print_endline (String.trim line);
         let c = get_cfg () in
         let (w1, so) = VamWorld.wstep c !world (parse_op rest) in
         (match so.VamWorld.so_res with
          | VamWorld.WOk -> print_endline "R ok"
          | VamWorld.WErr code -> print_endline ("R err " ^ result_name code)
          | VamWorld.WPanic -> print_endline "R panic"
          | VamWorld.WSkip -> print_endline "R skip"
          | VamWorld.WStuck -> print_endline "R stuck");
         Stdlib.List.iter print_line so.VamWorld.so_extra;
         (match so.VamWorld.so_faults with Some n -> print_endline ("FAULTS " ^ zs n) | None -> ());
         Stdlib.List.iter (fun k -> print_endline (call_line k)) so.VamWorld.so_calls;
         let (w2, lines) = VamWorld.observe c w1 in
         world := w2;
         Stdlib.List.iter print_line lines
       | _ -> ()
     done
   with End_of_file -> ())
