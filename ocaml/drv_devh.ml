(* drv_devh.ml — runs the extracted Coq models SyncMem (mapping state machine) and Budget (budget counters)
   on the operation lines of a devh trace and prints the same lines devh prints for the real code, except
   ORACLE-FAIL lines.  Hand-written glue (trusted): line parsing, int <-> Z conversion, printing. *)
open BinNums

let rec pos_of_int n = if n = 1 then Coq_xH else if n land 1 = 0 then Coq_xO (pos_of_int (n lsr 1)) else Coq_xI (pos_of_int (n lsr 1))
let z_of_int n = if n = 0 then Z0 else if n > 0 then Zpos (pos_of_int n) else Zneg (pos_of_int (-n))
let rec int_of_pos = function Coq_xH -> 1 | Coq_xO p -> 2 * int_of_pos p | Coq_xI p -> 2 * int_of_pos p + 1
let int_of_z = function Z0 -> 0 | Zpos p -> int_of_pos p | Zneg p -> - (int_of_pos p)
let bool_int b = if b then 1 else 0

let fields line = Stdlib.List.filter (fun x -> x <> "") (String.split_on_char ' ' line)

let cfg_assoc line =
  Stdlib.List.filter_map (fun f ->
      match String.index_opt f '=' with
      | Some i -> Some (String.sub f 0 i, String.sub f (i + 1) (String.length f - i - 1))
      | None -> None)
    (fields line)

let cfg_get kv k d = match Stdlib.List.assoc_opt k kv with Some v -> v | None -> d
let ints_of s = if s = "" then [] else Stdlib.List.map int_of_string (String.split_on_char ',' s)
let rec pad l n = if Stdlib.List.length l >= n then l else pad (l @ [0]) n

let arg f n = match Stdlib.List.nth_opt f n with Some s -> (try int_of_string s with _ -> 0) | None -> 0

(* ------------------------------------------------------------------ comp=sync *)

module Sy = struct
  type st = { mutable w : SyncMem.sm * (SyncMem.devstate * coq_Z) }

  let init () = { w = SyncMem.sim_init }

  let print_obs s =
    let (m, (d, v)) = s.w in
    Printf.printf "ST refs=%d extra=%d mapped=%d delay=%d status=%d\n"
      (int_of_z m.SyncMem.mapRefs) (bool_int m.SyncMem.extra) (bool_int m.SyncMem.mapped)
      (int_of_z m.SyncMem.delayCounter) (int_of_z m.SyncMem.statusCounter);
    Printf.printf "D mapped=%d alive=%d viol=%d\n" (bool_int d.SyncMem.d_mapped) (bool_int d.SyncMem.d_alive) (int_of_z v)

  let call_str = function
    | SyncMem.DMap true -> "map" | SyncMem.DMap false -> "mapfail"
    | SyncMem.DUnmap -> "unmap" | SyncMem.DFree -> "free"

  let exec s f =
    let kind = Stdlib.List.hd f in
    let op, line = match kind with
      | "M" -> SyncMem.OMap (z_of_int (arg f 1), arg f 2 = 1), Printf.sprintf "M %d %d" (arg f 1) (arg f 2)
      | "U" -> SyncMem.OUnmap (z_of_int (arg f 1)), Printf.sprintf "U %d" (arg f 1)
      | "S" -> SyncMem.OSubAllocFree, "S"
      | _ -> SyncMem.OFree, "X" in
    print_endline line;
    let ((w', r), cs) = SyncMem.sim_step s.w op in
    s.w <- w';
    (match r, kind with
     | SyncMem.ROk p, "M" -> Printf.printf "R ok %d\n" (bool_int p)
     | SyncMem.ROk _, _ -> print_endline "R ok"
     | SyncMem.ROkB b, _ -> Printf.printf "R ok %d\n" (bool_int b)
     | SyncMem.RErrMapFailed, _ -> print_endline "R err mapfailed"
     | SyncMem.RErrNoData, _ -> print_endline "R err nodata"
     | SyncMem.RErrTooManyUnmaps, _ -> print_endline "R err toomany");
    print_endline (String.trim ("CALLS " ^ String.concat " " (Stdlib.List.map call_str cs)));
    print_obs s
end

(* ------------------------------------------------------------------ comp=budget *)

module Bu = struct
  type st = { cfg : Budget.bcfg; sc : Budget.simcfg; nheaps : int; mutable w : Budget.bstate * Budget.bdev }

  let init kv =
    let heaps = ints_of (cfg_get kv "heaps" "") in
    let heaps = if heaps = [] then [ 1 lsl 20 ] else heaps in
    let n = Stdlib.List.length heaps in
    let limits = pad (ints_of (cfg_get kv "limits" "")) n in
    let other = pad (ints_of (cfg_get kv "other" "")) n in
    let hbudget = pad (ints_of (cfg_get kv "hbudget" "")) n in
    let ext = cfg_get kv "budgetext" "0" = "1" in
    let zs = Stdlib.List.map z_of_int in
    let cfg = Budget.cfg_of_lists (zs heaps) (zs limits) (z_of_int (int_of_string (cfg_get kv "maxcount" "0"))) ext in
    (* without the extension the simulated device reports nothing; the lists are unused then *)
    let sc = { Budget.sim_other = zs (if ext then other else pad [] n); Budget.sim_hbudget = zs (if ext then hbudget else pad [] n) } in
    { cfg; sc; nheaps = n; w = Budget.sim_binit cfg sc }

  let print_obs s =
    let (b, d) = s.w in
    Printf.printf "C mc=%d ops=%d\n" (int_of_z b.Budget.memCount) (int_of_z b.Budget.opsSince);
    for i = 0 to s.nheaps - 1 do
      let zi = z_of_int i in
      let c = b.Budget.heaps zi in
      Printf.printf "HP %d %d %d %d %d %d %d %d\n" i (int_of_z c.Budget.bc) (int_of_z c.Budget.ac)
        (int_of_z c.Budget.bb) (int_of_z c.Budget.ab) (int_of_z (b.Budget.vUsage zi))
        (int_of_z (b.Budget.vBudget zi)) (int_of_z (b.Budget.bbAtFetch zi))
    done;
    let bytes = Stdlib.List.init s.nheaps (fun i -> string_of_int (int_of_z (Budget.dv_bytes d.Budget.dv_live (z_of_int i)))) in
    Printf.printf "D live=%d viol=%d bytes=%s\n" (int_of_z (Budget.dv_count d.Budget.dv_live)) (int_of_z d.Budget.dv_viol)
      (String.concat "," bytes)

  let call_str = function
    | Budget.BAlloc true -> "alloc" | Budget.BAlloc false -> "allocfail"
    | Budget.BFreeCall -> "free" | Budget.BFetch -> "fetch"

  let exec s f =
    let kind = Stdlib.List.hd f in
    let z n = z_of_int (arg f n) in
    let op, line, heap = match kind with
      | "A" -> Budget.SAlloc (z 1, z 2, arg f 3 = 1), Printf.sprintf "A %d %d %d" (arg f 1) (arg f 2) (arg f 3), arg f 1
      | "F" -> Budget.SFree (z 1, z 2, z 3), Printf.sprintf "F %d %d %d" (arg f 1) (arg f 2) (arg f 3), arg f 2
      | "AA" -> Budget.SAdd (z 1, z 2), Printf.sprintf "AA %d %d" (arg f 1) (arg f 2), arg f 1
      | "RA" -> Budget.SRemove (z 1, z 2), Printf.sprintf "RA %d %d" (arg f 1) (arg f 2), arg f 1
      | _ -> Budget.SBudget (z 1), Printf.sprintf "HB %d" (arg f 1), arg f 1 in
    if heap >= 0 && heap < s.nheaps then begin
      print_endline line;
      let ((w', r), cs) = Budget.sim_bstep s.cfg s.sc s.w op in
      s.w <- w';
      (match r with
       | Budget.SNoLive -> print_endline "R nolive"
       | Budget.SRes (Budget.BOk, k) -> if kind = "A" then Printf.printf "R ok %d\n" (int_of_z k) else print_endline "R ok"
       | Budget.SRes (Budget.BErrTooManyObjects, _) -> print_endline "R err count"
       | Budget.SRes (Budget.BErrOutOfDeviceMemory, _) -> print_endline "R err limit"
       | Budget.SRes (Budget.BErrDriver, _) -> print_endline "R err driver"
       | Budget.SRes (Budget.BPanic, _) -> print_endline "R panic"
       | Budget.SRes (Budget.BBudget (a, b, c, d, u, bu), _) ->
         Printf.printf "R ok %d %d %d %d %d %d\n" (int_of_z a) (int_of_z b) (int_of_z c) (int_of_z d) (int_of_z u) (int_of_z bu));
      print_endline (String.trim ("CALLS " ^ String.concat " " (Stdlib.List.map call_str cs)));
      print_obs s
    end
end

(* ------------------------------------------------------------------ main loop *)

type anyst = NoSt | SySt of Sy.st | BuSt of Bu.st

let () =
  let ic = if Array.length Sys.argv > 1 then open_in Sys.argv.(1) else stdin in
  let st = ref NoSt in
  (try
     while true do
       let line = input_line ic in
       let f = fields line in
       match f with
       | [] -> ()
       | "H" :: _ -> print_endline line
       | "CFG" :: _ ->
         print_endline line;
         let kv = cfg_assoc line in
         (match cfg_get kv "comp" "" with
          | "sync" -> let s = Sy.init () in st := SySt s; Sy.print_obs s
          | "budget" -> let s = Bu.init kv in st := BuSt s; Bu.print_obs s
          | _ -> st := NoSt)
       | "END" :: _ -> print_endline "END"; st := NoSt
       | ("M" | "U" | "S" | "X") :: _ -> (match !st with SySt s -> Sy.exec s f | _ -> ())
       | ("A" | "F" | "AA" | "RA" | "HB") :: _ -> (match !st with BuSt s -> Bu.exec s f | _ -> ())
       | _ -> ()
     done
   with End_of_file -> ())
