int vk_stub_unused;
