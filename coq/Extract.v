(* Extract.v — extraction of the executable models to OCaml (ExtrOcamlBasic only: bool, option,
   unit, list, prod, sumbool mapped to OCaml's own; Z/N/positive stay extracted inductives). *)
From Coq Require Extraction ExtrOcamlBasic.
From Arsenal Require Import Util Gran Tlsf Linear LinearSpec.
Extraction Language OCaml.
Separate Extraction Util.align_up Util.align_down Gran.gran_init Tlsf.tlsf_init Tlsf.step Tlsf.regions
  Tlsf.allocation_count Tlsf.sum_free_size Tlsf.is_empty Tlsf.free_regions_count Tlsf.validate
  Tlsf.add_statistics Tlsf.add_detailed_statistics Tlsf.iterate Tlsf.get_user_data Tlsf.find_blk
  Tlsf.list_of_size Tlsf.size_to_class Tlsf.size_to_sli Tlsf.list_index Tlsf.size_for_next_list
  Gran.conflict Gran.round_up Gran.mkGran Linear.blocks_on_same_page
  Linear.linear_init Linear.step Linear.allocation_count Linear.sum_free_size Linear.is_empty
  Linear.validate Linear.visit_regions Linear.add_statistics Linear.add_detailed_statistics
  Linear.get_user_data Linear.set_user_data Linear.may_have_free Linear.allocation_offset
  Linear.first Linear.second
  LinearSpec.spec_init LinearSpec.spec_step LinearSpec.spec_items LinearSpec.free_bytes.
