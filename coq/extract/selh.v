(* extract/selh.v — extraction of the memory type selection model for the selh driver (ocaml/drv_selh.ml).
   ExtrOcamlBasic only: bool, option, unit, list, prod mapped to OCaml's own; nat/N/Z/positive stay
   extracted inductives. *)
From Coq Require Extraction ExtrOcamlBasic.
From Arsenal Require Import Select.
Extraction Language OCaml.
Separate Extraction Select.global_bits Select.prefs_of Select.select Select.allocate Select.mask_oracle
  Select.find_prefs Select.find_type Select.params_invalid.
