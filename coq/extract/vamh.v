(* extract/vamh.v — extraction of the whole-allocator model (VamDev, VamBlockList, Vam) and of the harness
   bookkeeping (VamWorld) for the vamh driver (ocaml/drv_vamh.ml).  ExtrOcamlBasic only: bool, option,
   unit, list, prod mapped to OCaml's own; nat/Z/N/positive stay extracted inductives. *)
From Coq Require Extraction ExtrOcamlBasic.
From Arsenal Require Import VamDev VamBlockList Vam VamWorld.
Extraction Language OCaml.
Separate Extraction VamWorld.world_init VamWorld.wstep VamWorld.observe VamDev.mkVcfg VamDev.mkHeap VamDev.mkType.
