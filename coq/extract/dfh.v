(* dfh.v — extraction of the defragmentation model for the dfh driver (ExtrOcamlBasic only). *)
From Coq Require Extraction ExtrOcamlBasic.
From Arsenal Require Import Util Gran Tlsf Pass Defrag.
Extraction Language OCaml.
Separate Extraction Defrag.world_init Defrag.world_init_g Defrag.wstep Defrag.wstep_f Defrag.pending
  Tlsf.regions Tlsf.validate Tlsf.allocation_count Tlsf.sum_free_size Pass.ps_zero.
