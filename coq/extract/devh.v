(* extract/devh.v — extraction of the mapping state machine (SyncMem) and the budget counters (Budget) for
   the devh driver (ocaml/drv_devh.ml).  ExtrOcamlBasic only: bool, option, unit, list, prod mapped to
   OCaml's own; nat/Z/positive stay extracted inductives. *)
From Coq Require Extraction ExtrOcamlBasic.
From Arsenal Require Import SyncMem Budget.
Extraction Language OCaml.
Separate Extraction SyncMem.sim_init SyncMem.sim_step SyncMem.step SyncMem.dev_step
  Budget.cfg_of_lists Budget.sim_binit Budget.sim_bstep Budget.bstep Budget.dv_bytes Budget.dv_count
  Budget.cas_run Budget.cas_init Budget.held.
