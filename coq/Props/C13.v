(* C13 — Unsatisfiable or invalid requests are reported as errors, never panics.
   Linear half: in every reachable state no admissible operation panics — requests with ANY size
   (zero, negative, larger than the block), any power-of-two alignment, any allocation type
   (including 0), upper or lower address, any strategy and offset bound; frees and user-data
   updates of live handles; Clear; MayHaveFreeBlock — and every operation that does not succeed
   leaves the whole state exactly as it was (equality of states, not only of observables). *)
From Coq Require Import ZArith List Lia.
From Arsenal Require Import Util Bits Gran.
From Arsenal Require Import Linear LinearInv LinearAlloc LinearFree LinearStep LinearSwap LinearVisit LinearProps.
Import ListNotations.
Open Scope Z_scope.

Theorem C13_linear_no_panic : forall h gr size l o,
  lcfg_ok gr size -> lreach h gr size l -> LinearStep.op_ok l o -> Linear.o_kind (snd (Linear.step l o)) <> RPanic.
Proof. exact linear_no_panic. Qed.
Print Assumptions C13_linear_no_panic.

Theorem C13_linear_refused_noop : forall (l : linear) (o : Linear.op),
  Linear.o_kind (snd (Linear.step l o)) <> ROk -> fst (Linear.step l o) = l.
Proof. exact linear_refused_noop. Qed.
Print Assumptions C13_linear_refused_noop.

(* non-vacuity (linear): an admissible history through ring buffer, lazy deletion and vector swap *)
Example C13_linear_nonvacuous :
  lcfg_ok 1 100 /\ lreach HVam 1 100 (lrun (linear_init HVam 1 100) LinearStep.ex_ops) /\
  map s_off (LinearInv.live (lrun (linear_init HVam 1 100) LinearStep.ex_ops)) = [0; 24]%Z.
Proof.
  split; [split; [lia|exists 0; split; [lia|reflexivity]]|].
  split; [exists LinearStep.ex_ops; split; [exact (proj1 LinearStep.ex_ops_ok)|reflexivity]|].
  exact (proj1 (proj2 LinearStep.ex_ops_ok)).
Qed.
