(* C13 — Unsatisfiable or invalid requests are reported as errors, never panics.
   TLSF half: in every reachable state (block size 1 <= size < 2^39) no operation panics —
   requests with ANY size (<= 0, > block), any power-of-two alignment, any type, any strategy
   bits, upper address, any offset bound; Free / SetUserData with ANY handle (a handle that is not
   live yields an error and the identical state) — a granted request always commits, and every
   refused or failed operation returns the identical state (equality of whole states).
   Linear half: the same for every admissible operation in every reachable linear state. *)
From Coq Require Import ZArith NArith List Lia Permutation.
From Arsenal Require Import Util Bits Gran Tlsf TlsfGeom TlsfInv1 TlsfStep TlsfProps SizeClass TlsfInv2 TlsfStep2 TlsfProps2 GranInv GranTlsf.
From Arsenal Require Linear LinearInv LinearAlloc LinearFree LinearStep LinearSwap LinearVisit LinearProps.
From Arsenal Require VamDev VamBlockList Vam VamInv VamInvMeta VamInvThm VamAcctThm VamBal VamBalThm VamNpThm VamFailProps VamRefused VamDefrag VamDefragThm VamDefragBal VamDefragNp VamKindThm VamShapeStep VamMemStable VamRefusedMem VamInvUpd.
Import ListNotations.
Open Scope Z_scope.

Theorem C13_tlsf_no_panic : forall h gr size ops,
  cfg2_ok gr size -> Forall op_ok ops ->
  let t := run (tlsf_init h gr size) ops in
  forall o, op_ok o -> o_kind (snd (step t o)) <> RPanic.
Proof. exact tlsf_reach_no_panic. Qed.
Print Assumptions C13_tlsf_no_panic.

Theorem C13_tlsf_refused_noop : forall t o,
  (o_kind (snd (step t o)) = RRefused \/ o_kind (snd (step t o)) = RError) -> fst (step t o) = t.
Proof. exact tlsf_refused_noop. Qed.
Print Assumptions C13_tlsf_refused_noop.

Theorem C13_tlsf_granted_request_commits : forall h gr size ops,
  cfg2_ok gr size -> Forall op_ok ops ->
  let t := run (tlsf_init h gr size) ops in
  forall sz align atype strat upper mo tag t1 r,
    pow2 align -> create_request t sz align upper atype strat mo = QGranted t1 r ->
    exists t2 hd, step t (OAlloc sz align atype strat upper mo tag) = (t2, mkOut ROk hd (rq_size r)).
Proof. exact tlsf_reach_alloc_no_error. Qed.
Print Assumptions C13_tlsf_granted_request_commits.

Theorem C13_tlsf_bad_handle_is_error : forall h gr size ops,
  cfg2_ok gr size -> Forall op_ok ops ->
  let t := run (tlsf_init h gr size) ops in
  forall hd, (forall a, In a (live t) -> b_off a <> hd) ->
    step t (OFree hd) = (t, out RError) /\ forall tag, step t (OSetUD hd tag) = (t, out RError).
Proof. exact tlsf_reach_bad_handle. Qed.
Print Assumptions C13_tlsf_bad_handle_is_error.

(* non-vacuity (TLSF): the hypotheses are met by a concrete history ending with three live blocks *)
Example C13_tlsf_nonvacuous :
  cfg2_ok 1024 4096 /\ Forall op_ok ex_ops /\ length (live (run (tlsf_init HVam 1024 4096) ex_ops)) = 3%nat.
Proof.
  split; [split; [lia|exists 10; split; [lia|reflexivity]]|]. exact (conj ex_ops_ok ex_live_three).
Qed.

Module LinearHalf.
Import Linear LinearInv LinearAlloc LinearFree LinearStep LinearSwap LinearVisit LinearProps.
Import ListNotations.

Theorem C13_linear_no_panic : forall h gr size l o,
  lcfg_ok gr size -> lreach h gr size l -> LinearStep.op_ok l o -> Linear.o_kind (snd (Linear.step l o)) <> RPanic.
Proof. exact linear_no_panic. Qed.
Print Assumptions C13_linear_no_panic.

Theorem C13_linear_refused_noop : forall (l : linear) (o : Linear.op),
  Linear.o_kind (snd (Linear.step l o)) <> ROk -> fst (Linear.step l o) = l.
Proof. exact linear_refused_noop. Qed.
Print Assumptions C13_linear_refused_noop.

(* non-vacuity (linear): an admissible history through ring buffer, lazy deletion and vector swap *)
Example C13_linear_nonvacuous :
  lcfg_ok 1 100 /\ lreach HVam 1 100 (lrun (linear_init HVam 1 100) LinearStep.ex_ops) /\
  map s_off (LinearInv.live (lrun (linear_init HVam 1 100) LinearStep.ex_ops)) = [0; 24]%Z.
Proof.
  split; [split; [lia|exists 0; split; [lia|reflexivity]]|].
  split; [exists LinearStep.ex_ops; split; [exact (proj1 LinearStep.ex_ops_ok)|reflexivity]|].
  exact (proj1 (proj2 LinearStep.ex_ops_ok)).
Qed.

End LinearHalf.

(* ---------------------------------------------------------------- whole allocator (model Vam*.v)
   No operation of the public API panics (or reaches a state the model cannot continue from): for every state
   reachable by histories whose callers obey the map discipline (reachB), every operation whose slots exist
   (op_ok), whose sizes are below 2^62 (op_dom), that does not Unmap without a Map or Free with outstanding user
   maps (op_bal) and whose pool handle is that of a live pool (op_live; a stale *Pool is a dangling Go pointer) -
   with ANY other arguments (sizes <= 0, alignments that are not powers of two, contradictory flags, unknown
   usages ... reach the error branches) and ANY driver-fault oracle - returns success or an error.  The panic
   branches of the modelled code are proved dead inside this domain.  Defragmentation operations:
   decided by the vamh exploration (every op runs under recover()) until dstep_never_panics lands.
   "A refusal changes nothing": C10_allocator_failed_alloc_no_trace / _same_regions / _failed_create_* (Props/C10.v)
   state it for every failed allocation-type operation. *)
Module Allocator.
Import VamDev VamBlockList Vam VamInv VamInvThm VamAcctThm VamBal VamBalThm VamNpThm.

Theorem C13_allocator_never_panics : forall c v G o f v' r calls,
  cfg_acct c -> reachB c v G -> op_ok v o -> op_dom o -> op_bal G o -> op_live v o ->
  step c v o f = (v', r, calls) -> r <> RPanic /\ r <> RStuck.
Proof. intros c v G o f v' r calls Ha. exact (step_never_panics c Ha v G o f v' r calls). Qed.
Print Assumptions C13_allocator_never_panics.
(* A refused request changes nothing the caller can observe: for every allocation-type operation (AllocateMemory,
   AllocateMemorySlice, AllocateMemoryFor*, CreateBuffer, CreateImage, CreatePool) that returns an error - for any
   reason, at any fault position - the resulting state is again reachable, the set of allocated Allocation objects,
   the pools and their configuration, the dedicated lists, the per-heap allocation counters and the set of device
   memory objects holding a live allocation (with their types) are exactly as before; the only device memory
   that can differ is EMPTY blocks (a block created for the request and kept as a spare, or a spare released by an
   unwinding multi-allocation) - with C10_allocator_same_regions: every live region is where it was. *)
Theorem C13_allocator_refused_changes_nothing : forall c v G o f v' code calls,
  cfg_acct c -> reachB c v G -> op_ok v o -> op_dom o -> VamRefused.refused_op o ->
  step c v o f = (v', RErr code, calls) ->
  reachB c v' G /\ VamFailProps.same_slots v v' /\ VamRefused.pools_same v v' /\
  (forall lr s, List.In s (get_dedlist v' lr) <-> List.In s (get_dedlist v lr)) /\
  (forall h, alloc_count c v' h = alloc_count c v h /\ alloc_bytes c v' h = alloc_bytes c v h /\
             Budget.ac (Budget.heaps (m_bud (v_m v')) h) = Budget.ac (Budget.heaps (m_bud (v_m v)) h) /\
             Budget.ab (Budget.heaps (m_bud (v_m v')) h) = Budget.ab (Budget.heaps (m_bud (v_m v)) h)) /\
  (forall id, VamRefused.mem_used v' id <-> VamRefused.mem_used v id) /\
  (forall id, VamRefused.mem_used v id ->
     exists d d', find_mem (m_mems (v_m v)) id = Some d /\ find_mem (m_mems (v_m v')) id = Some d' /\ dm_type d' = dm_type d) /\
  (forall d, List.In d (m_mems (v_m v')) -> ~ VamRefused.mem_used v' (dm_id d) ->
     exists lr l b, get_blist v' lr = Some l /\ List.In b (bl_blocks l) /\ bk_mem b = dm_id d /\
                    VamInvMeta.meta_live (bk_meta b) = nil).
Proof. intros c v G o f v' code calls Ha. exact (VamRefused.refused_changes_nothing c Ha v G o f v' code calls). Qed.
Print Assumptions C13_allocator_refused_changes_nothing.
(* Defragmentation entry points (BeginDefragmentation, BeginDefragPass, EndDefragPass with any decisions, Finish)
   and ordinary calls while a run is open never panic, with ANY fault oracle.  PARTIAL (named so): for
   BeginDefragPass the state hypothesis dop_live (the lists of the run are alive, hold TLSF blocks and the run's
   algorithm is Fast or Full; persistently mapped allocations allow mapping) is assumed, not yet shown to be an
   invariant of the histories; and the model has no continuation (RStuck) for a BeginDefragPass during which a
   vkMapMemory of that very call failed (the Go code skips the move and goes on; decided by the vamh fault
   enumeration). *)
Theorem C13_allocator_defrag_never_panics_partial : forall c v run G o f v' run' r calls dr,
  cfg_acct c -> VamDefragBal.reachDB c v run G -> VamDefragThm.dop_ok v run o -> VamDefragBal.dop_bal G run o ->
  VamDefragNp.dop_live v run o -> Vam.dstep c v run o f = (v', run', r, calls, dr) ->
  r <> RPanic /\
  (r = RStuck -> o = DPass /\ exists mem off size code, code <> 0 /\ List.In (CMap mem off size code) calls).
Proof. intros c v run G o f v' run' r calls dr Ha. exact (VamDefragNp.dstep_never_panics c Ha v run G o f v' run' r calls dr). Qed.
Print Assumptions C13_allocator_defrag_never_panics_partial.

Theorem C13_allocator_never_panics_during_defrag : forall c v run G o f v' r calls,
  cfg_acct c -> VamDefragBal.reachDB c v run G -> op_ok v o -> op_dom o -> op_bal G o -> op_live v o ->
  step c v o f = (v', r, calls) -> r <> RPanic /\ r <> RStuck.
Proof. intros c v run G o f v' r calls Ha. exact (VamDefragNp.step_never_panics_defrag c Ha v run G o f v' r calls). Qed.
Print Assumptions C13_allocator_never_panics_during_defrag.
(* The same WITHOUT any hypothesis on the state: reachDK = reachDB histories in which no Pool.Destroy is issued for
   a pool under defragmentation and BeginDefragmentation gets the handle of a live pool; drun_exists: a context
   exists for BeginDefragPass / EndDefragPass / Finish.  The remaining RStuck disjunct is the model gap described
   above (a vkMapMemory failure inside BeginDefragPass), not a panic. *)
Theorem C13_allocator_defrag_never_panics : forall c v run G o f v' run' r calls dr,
  cfg_acct c -> VamKindThm.reachDK c v run G -> VamDefragThm.dop_ok v run o -> VamDefragBal.dop_bal G run o ->
  VamKindThm.drun_exists run o -> Vam.dstep c v run o f = (v', run', r, calls, dr) ->
  r <> RPanic /\
  (r = RStuck -> o = DPass /\ exists mem off size code, code <> 0 /\ List.In (CMap mem off size code) calls).
Proof. intros c v run G o f v' run' r calls dr Ha. exact (VamKindThm.dstep_never_panics_full c Ha v run G o f v' run' r calls dr). Qed.
Print Assumptions C13_allocator_defrag_never_panics.
(* Exact form for the single requests: an AllocateMemory / AllocateMemoryFor* / CreateBuffer / CreateImage that
   returns an error without having reached vkBind*Memory leaves EXACTLY the same device memory objects (id, type,
   size; as a multiset) and every block list holds the same (block id, memory object) pairs, possibly reordered by
   the incremental sort.  (A Create* whose bind fails is the one refusal that may keep the block it created as
   the empty spare, see above; reachL: pools created with MinBlockCount >= 0.) *)
Theorem C13_allocator_refused_same_memory : forall c v G o f v' code calls,
  cfg_acct c -> reachB c v G -> VamShapeStep.reachL c v -> op_ok v o -> op_dom o -> VamRefusedMem.single_refused o ->
  step c v o f = (v', RErr code, calls) ->
  (forall image res mem off bcode, ~ List.In (CBind image res mem off bcode) calls) ->
  Permutation.Permutation (List.map VamInvUpd.mem_key (m_mems (v_m v'))) (List.map VamInvUpd.mem_key (m_mems (v_m v))) /\
  (forall lr, Permutation.Permutation (VamRefusedMem.ims v' lr) (VamRefusedMem.ims v lr)).
Proof.
  intros c v G o f v' code calls Ha RB RL.
  exact (VamRefusedMem.refused_same_memory c Ha v G o f v' code calls RB (VamRefusedMem.reachL_LBv c Ha v RL)).
Qed.
Print Assumptions C13_allocator_refused_same_memory.
(* FINAL form (the model now follows the Go code when a vkMapMemory fails while BeginDefragPass commits a move:
   the planner goes on to the next candidate): every defragmentation call returns success or an error - no panic,
   no state without continuation - for ANY fault oracle, with no hypothesis on the state. *)
Theorem C13_allocator_defrag_never_fails : forall c v run G o f v' run' r calls dr,
  cfg_acct c -> VamKindThm.reachDK c v run G -> VamDefragThm.dop_ok v run o -> VamDefragBal.dop_bal G run o ->
  VamKindThm.drun_exists run o -> Vam.dstep c v run o f = (v', run', r, calls, dr) ->
  r <> RPanic /\ r <> RStuck.
Proof. intros c v run G o f v' run' r calls dr Ha. exact (VamKindThm.dstep_never_fails_full c Ha v run G o f v' run' r calls dr). Qed.
Print Assumptions C13_allocator_defrag_never_fails.
End Allocator.
