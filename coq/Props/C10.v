From Coq Require Import ZArith List Bool Lia.
From Arsenal Require Import Util.
From Arsenal Require VamDev VamBlockList Vam VamInv VamInvMeta VamInvStep VamInvThm VamFailProps VamAcctThm VamBal VamBalThm VamFailBal VamInvUpd VamRefused VamDefrag VamKindThm VamDefragErr.
From Arsenal Require Import SyncMem SyncMemProofs Budget BudgetProofs.
Import ListNotations.
Open Scope Z_scope.
(* C10 — A failed operation leaves no trace.
   Component theorems: a failed vkAllocateMemory (or a refusal by a limit) leaves every counter of
   the device-memory bookkeeping exactly as it was; a failed vkMapMemory leaves reference count,
   mapped flag and hysteresis mapping exactly as they were and the device state untouched.  The
   operation-level statement (every allocator operation, a fault at its first, k-th and last driver
   call, every error kind: error returned, caller's Allocation objects unallocated and reusable,
   counters = truth, created device objects released or kept as an empty spare block) is decided
   by the fault enumeration of the whole-allocator harness (vamh faults): for each history and each
   operation the prefix is re-run with driver call k failing, for every k. *)

Theorem C10_failed_alloc_exact : forall cfg rep0 ops h sz f s' r cs,
  in_bdomain cfg rep0 (ops ++ [OAllocMem h sz f]) = true ->
  bstep cfg (bfinal cfg rep0 ops) (OAllocMem h sz f) = (s', r, cs) -> r <> BOk ->
  (forall x, heaps s' x = heaps (bfinal cfg rep0 ops) x) /\
  memCount s' = memCount (bfinal cfg rep0 ops).
Proof. exact failed_alloc_exact. Qed.
Print Assumptions C10_failed_alloc_exact.

Theorem C10_failed_map_no_trace : forall s d n f s' r cs,
  reachable s d -> freed s = false -> 0 <= n ->
  SyncMem.step s (OMap n f) = (s', r, cs) -> (forall p, r <> ROk p) ->
  mapRefs s' = mapRefs s /\ mapped s' = mapped s /\ extra s' = extra s /\
  dev_run d cs = Some d.
Proof. exact failed_map_no_trace. Qed.
Print Assumptions C10_failed_map_no_trace.

Example C10_nonvacuous : in_domain ex_ops = true /\ in_bdomain ex_cfg ex_rep ex_bops = true.
Proof. exact (conj ex_in_domain ex_in_bdomain). Qed.

(* ---------------------------------------------------------------- whole allocator (model Vam*.v)
   An AllocateMemory / AllocateMemorySlice that returns an error - for ANY reason incl. ANY injected driver
   failure at ANY call position (the fault oracle f is universally quantified) - from any state satisfying the
   allocator invariant: the invariant still holds, every Allocation object other than the requested ones is
   untouched, the requested ones are as allocated as before, and if they were unallocated the set of allocated
   objects is exactly the one before; C10_allocator_same_regions: then every live region of every block is
   still there, in the block with the same id and the same device memory object (the two states differ at most
   in empty blocks, block order and map counts).  Counters = device truth and the retention bound after the
   failure are C04 / C20 (a failed step is a step of `reach`).  CreateBuffer/CreateImage and the other
   operations are decided by the fault enumeration (vamh faults). *)
Module Allocator.
Import VamDev VamBlockList Vam VamInv VamInvThm VamFailProps.

Theorem C10_allocator_failed_alloc_no_trace : forall c v o f v' code calls,
  cfg_ok c -> VamInv c v -> op_ok v o -> step c v o f = (v', RErr code, calls) ->
  match o with
  | OAlloc slot _ _ _ _ _ _ _ _ _ =>
      VamInv c v' /\ VamInvStep.tab_frame v v' (slot :: nil) /\
      a_allocated (get_alloc v' slot) = a_allocated (get_alloc v slot) /\
      (a_allocated (get_alloc v slot) = false -> same_slots v v')
  | OAllocN slot n _ _ _ _ _ _ _ _ _ =>
      VamInv c v' /\ VamInvStep.tab_frame v v' (slot_range slot (Z.to_nat n)) /\
      (forall s, List.In s (slot_range slot (Z.to_nat n)) -> a_allocated (get_alloc v' s) = a_allocated (get_alloc v s)) /\
      ((forall s, List.In s (slot_range slot (Z.to_nat n)) -> a_allocated (get_alloc v s) = false) -> same_slots v v')
  | _ => True
  end.
Proof. intros c v o f v' code calls Hc. exact (failed_alloc_no_trace c Hc v o f v' code calls). Qed.
Print Assumptions C10_allocator_failed_alloc_no_trace.

Theorem C10_allocator_same_regions : forall c v v',
  VamInv c v -> VamInv c v' -> same_slots v v' ->
  forall lr l b rg, get_blist v lr = Some l -> List.In b (bl_blocks l) -> List.In rg (VamInvMeta.meta_live (bk_meta b)) ->
  exists l' b' rg', get_blist v' lr = Some l' /\ List.In b' (bl_blocks l') /\ bk_id b' = bk_id b /\ bk_mem b' = bk_mem b /\
    List.In rg' (VamInvMeta.meta_live (bk_meta b')) /\ VamInvMeta.rg_handle rg' = VamInvMeta.rg_handle rg /\
    VamInvMeta.rg_tag rg' = VamInvMeta.rg_tag rg /\ VamInvMeta.rg_size rg' = VamInvMeta.rg_size rg /\
    VamInvMeta.rg_align rg' = VamInvMeta.rg_align rg.
Proof. exact same_slots_same_regions. Qed.
Print Assumptions C10_allocator_same_regions.
(* CreatePool that fails (for any reason, any fault position): invariant kept, no Allocation object changed, the
   pool is not linked, pool ids and the id counter are as before (every device memory object of the resulting
   state is owned by a block of a linked list or a dedicated allocation: none is left behind). *)
Theorem C10_allocator_failed_create_pool_no_trace : forall c v ty flags blockSize minB maxB minAlign f v' code calls,
  cfg_ok c -> VamInv c v -> step c v (OMkPool ty flags blockSize minB maxB minAlign) f = (v', RErr code, calls) ->
  VamInv c v' /\ same_slots v v' /\ find_pool (v_pools v') (v_next_uid v) = None /\
  List.map p_id (v_pools v') = List.map p_id (v_pools v) /\ v_next_pool_id v' = v_next_pool_id v.
Proof. intros c v ty flags blockSize minB maxB minAlign f v' code calls Hc. exact (failed_create_pool_no_trace c Hc v ty flags blockSize minB maxB minAlign f v' code calls). Qed.
Print Assumptions C10_allocator_failed_create_pool_no_trace.

(* CreateBuffer / CreateImage that fail (resource creation, allocation, or bind failure at any fault position):
   the caller's Allocation object stays unallocated and the set of allocated objects is unchanged; stated on
   reachB (callers obey the map/unmap discipline): the deferred clean-up frees the allocation and only LOGS an
   error of that free, which can fail only when map references were unbalanced by a rogue Unmap. *)
Theorem C10_allocator_failed_create_no_trace : forall c v G o f v' code calls,
  VamAcctThm.cfg_acct c -> VamBalThm.reachB c v G -> op_ok v o -> VamAcctThm.op_dom o ->
  step c v o f = (v', RErr code, calls) ->
  match o with
  | OCreateBuf slot _ _ _ _ _ _ _ _ _ _ | OCreateImg slot _ _ _ _ _ _ _ _ _ _ =>
      a_allocated (get_alloc v slot) = false -> same_slots v v' /\ VamBalThm.reachB c v' G
  | _ => True
  end.
Proof. intros c v G o f v' code calls Ha. exact (VamFailBal.failed_create_no_trace c Ha v G o f v' code calls). Qed.
Print Assumptions C10_allocator_failed_create_no_trace.
(* failed CreatePool, exact: the device holds the same memory objects (id, type, size, order) as before - every
   block created for the pool was destroyed again - and the pools are as before *)
Theorem C10_allocator_failed_create_pool_same_memory : forall c v ty flags blockSize minB maxB minAlign f v' code calls,
  cfg_ok c -> VamInv c v -> step c v (OMkPool ty flags blockSize minB maxB minAlign) f = (v', RErr code, calls) ->
  VamInvUpd.mems_same (m_mems (v_m v)) (m_mems (v_m v')) /\ VamRefused.pools_same v v'.
Proof. intros c v ty flags blockSize minB maxB minAlign f v' code calls Hc. exact (VamRefused.failed_create_pool_same_memory c Hc v ty flags blockSize minB maxB minAlign f v' code calls). Qed.
Print Assumptions C10_allocator_failed_create_pool_same_memory.
(* Defragmentation entry points.  Only BeginDefragmentation can return an error (bad arguments: negative limits,
   both algorithm flags, a linear pool), and then the allocator state is literally the state before: Allocation
   objects, pools, block lists, dedicated lists, device memory objects, budget, resources, the run - all equal, no
   driver call.  BeginDefragPass, EndDefragPass and Finish have no error result at all, for any state and any fault
   oracle: a vkMapMemory that fails while a move is committed makes the planner try elsewhere and the call still
   returns its moves (no temporary of a refused attempt ever exists). *)
Theorem C10_allocator_defrag_error_same : forall c v run G o f v' run' code calls dr,
  VamAcctThm.cfg_acct c -> VamKindThm.reachDK c v run G ->
  Vam.dstep c v run o f = (v', run', RErr code, calls, dr) ->
  v_tab v' = v_tab v /\ v_pools v' = v_pools v /\ v_lists v' = v_lists v /\ v_ded v' = v_ded v /\
  v_global v' = v_global v /\ m_mems (v_m v') = m_mems (v_m v) /\ m_bud (v_m v') = m_bud (v_m v) /\
  m_res (v_m v') = m_res (v_m v) /\ m_next (v_m v') = m_next (v_m v) /\ run' = run /\ calls = nil.
Proof. intros c v run G o f v' run' code calls dr Ha. exact (VamDefragErr.dstep_error_same c Ha v run G o f v' run' code calls dr). Qed.
Print Assumptions C10_allocator_defrag_error_same.

Theorem C10_allocator_no_error_after_begin : forall c v run o f v' run' r calls dr,
  Vam.dstep c v run o f = (v', run', r, calls, dr) ->
  (forall flags pool mb ma, o <> DBegin flags pool mb ma) -> forall code, r <> RErr code.
Proof. exact VamDefragErr.no_error_after_begin. Qed.
Print Assumptions C10_allocator_no_error_after_begin.
End Allocator.
