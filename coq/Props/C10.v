From Coq Require Import ZArith List Bool Lia.
From Arsenal Require Import Util.
From Arsenal Require Import SyncMem SyncMemProofs Budget BudgetProofs.
Import ListNotations.
Open Scope Z_scope.
(* C10 — A failed operation leaves no trace.
   Component theorems: a failed vkAllocateMemory (or a refusal by a limit) leaves every counter of
   the device-memory bookkeeping exactly as it was; a failed vkMapMemory leaves reference count,
   mapped flag and hysteresis mapping exactly as they were and the device state untouched.  The
   operation-level statement (every allocator operation, a fault at its first, k-th and last driver
   call, every error kind: error returned, caller's Allocation objects unallocated and reusable,
   counters = truth, created device objects released or kept as an empty spare block) is decided
   by the fault enumeration of the whole-allocator harness (vamh faults): for each history and each
   operation the prefix is re-run with driver call k failing, for every k. *)

Theorem C10_failed_alloc_exact : forall cfg rep0 ops h sz f s' r cs,
  in_bdomain cfg rep0 (ops ++ [OAllocMem h sz f]) = true ->
  bstep cfg (bfinal cfg rep0 ops) (OAllocMem h sz f) = (s', r, cs) -> r <> BOk ->
  (forall x, heaps s' x = heaps (bfinal cfg rep0 ops) x) /\
  memCount s' = memCount (bfinal cfg rep0 ops).
Proof. exact failed_alloc_exact. Qed.
Print Assumptions C10_failed_alloc_exact.

Theorem C10_failed_map_no_trace : forall s d n f s' r cs,
  reachable s d -> freed s = false -> 0 <= n ->
  SyncMem.step s (OMap n f) = (s', r, cs) -> (forall p, r <> ROk p) ->
  mapRefs s' = mapRefs s /\ mapped s' = mapped s /\ extra s' = extra s /\
  dev_run d cs = Some d.
Proof. exact failed_map_no_trace. Qed.
Print Assumptions C10_failed_map_no_trace.

Example C10_nonvacuous : in_domain ex_ops = true /\ in_bdomain ex_cfg ex_rep ex_bops = true.
Proof. exact (conj ex_in_domain ex_in_bdomain). Qed.
