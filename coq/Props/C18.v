(* C18 — Free space is fully coalesced and an emptied block is as good as new.
   First part (TLSF): in every reachable state no two physically adjacent regions (the null block
   included) are both free. *)
From Coq Require Import ZArith List.
From Coq Require Import Lia.
From Arsenal Require Import Util Bits Gran Tlsf TlsfGeom TlsfInv1 TlsfStep TlsfProps SizeClass TlsfInv2 TlsfStep2 TlsfProps2 GranInv GranTlsf.
From Arsenal Require Linear LinearInv LinearAlloc LinearFree LinearStep LinearSwap LinearVisit LinearProps.
Import ListNotations.
Open Scope Z_scope.

Theorem C18_tlsf_no_adjacent_free : forall h gr size ops,
  cfg_ok gr size -> Forall op_ok ops ->
  let t := run (tlsf_init h gr size) ops in
  forall i a b, nth_error (regions t) i = Some a -> nth_error (regions t) (S i) = Some b ->
                b_free a = true -> b_free b = false.
Proof. exact tlsf_no_adjacent_free. Qed.
Print Assumptions C18_tlsf_no_adjacent_free.

(* Second part, TLSF: a reachable state without live blocks is literally the freshly initialised
   block (every field: chain, null block, free lists, both bitmaps, counters, granularity table),
   so every future operation sequence is answered exactly as by a fresh block; Clear gives the same
   state.  With vam's handler this uses the page-table invariant (kinds 1..5, granularity <= 64 KiB). *)
Theorem C18_tlsf_fake_empty_is_init : forall gr size ops,
  cfg2_ok gr size -> Forall op_ok ops ->
  let t := run (tlsf_init HFake gr size) ops in
  live t = [] -> t = tlsf_init HFake gr size /\ forall ops', run t ops' = run (tlsf_init HFake gr size) ops'.
Proof. exact tlsf_fake_empty_is_init. Qed.
Print Assumptions C18_tlsf_fake_empty_is_init.

Theorem C18_tlsf_vam_empty_is_init : forall gr size ops,
  cfg2_ok gr size -> 1 <= gr <= 65536 -> Forall op_ok ops -> Forall op_kind_ok ops ->
  let t := run (tlsf_init HVam gr size) ops in
  live t = [] -> t = tlsf_init HVam gr size /\ forall ops', run t ops' = run (tlsf_init HVam gr size) ops'.
Proof. exact tlsf_vam_empty_is_init. Qed.
Print Assumptions C18_tlsf_vam_empty_is_init.

Theorem C18_tlsf_clear_is_fresh : forall h gr size ops,
  cfg2_ok gr size -> Forall op_ok ops ->
  let t := run (tlsf_init h gr size) ops in
  tlsf_clear t = fresh_with (gran_clear (t_gran t)) size.
Proof. exact tlsf_reach_clear_is_fresh. Qed.
Print Assumptions C18_tlsf_clear_is_fresh.

Module LinearHalf.
Import Linear LinearInv LinearAlloc LinearFree LinearStep LinearSwap LinearVisit LinearProps.
Import ListNotations.

(* Second part, linear: a reachable state without live items IS the freshly initialised block
   (every field equal, except possibly which physical vector is "first"), Clear changes nothing
   on it, and two states that differ only in that flag give identical outcomes for every future
   operation sequence. *)
Theorem C18_linear_empty_is_fresh : forall h gr size l,
  lcfg_ok gr size -> lreach h gr size l -> LinearInv.live l = [] ->
  l = set_swapped (linear_init h gr size) (l_swapped l) /\ lin_clear l = l.
Proof. exact linear_empty_is_fresh. Qed.
Print Assumptions C18_linear_empty_is_fresh.

Theorem C18_linear_swapped_is_unobservable : forall l1 l2 ops,
  eqv l1 l2 ->
  eqv (lrun l1 ops) (lrun l2 ops) /\
  forall o, snd (Linear.step (lrun l1 ops) o) = snd (Linear.step (lrun l2 ops) o).
Proof. exact linear_eqv_future. Qed.
Print Assumptions C18_linear_swapped_is_unobservable.

(* non-vacuity (linear): an admissible history through ring buffer, lazy deletion and vector swap *)
Example C18_linear_nonvacuous :
  lcfg_ok 1 100 /\ lreach HVam 1 100 (lrun (linear_init HVam 1 100) LinearStep.ex_ops) /\
  map s_off (LinearInv.live (lrun (linear_init HVam 1 100) LinearStep.ex_ops)) = [0; 24]%Z.
Proof.
  split; [split; [lia|exists 0; split; [lia|reflexivity]]|].
  split; [exists LinearStep.ex_ops; split; [exact (proj1 LinearStep.ex_ops_ok)|reflexivity]|].
  exact (proj1 (proj2 LinearStep.ex_ops_ok)).
Qed.

End LinearHalf.
