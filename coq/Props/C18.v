(* C18 — Free space is fully coalesced and an emptied block is as good as new.
   First part (TLSF): in every reachable state no two physically adjacent regions (the null block
   included) are both free. *)
From Coq Require Import ZArith List.
From Arsenal Require Import Util Bits Gran Tlsf TlsfStep TlsfProps.
Open Scope Z_scope.

Theorem C18_tlsf_no_adjacent_free : forall h gr size ops,
  cfg_ok gr size -> Forall op_ok ops ->
  let t := run (tlsf_init h gr size) ops in
  forall i a b, nth_error (regions t) i = Some a -> nth_error (regions t) (S i) = Some b ->
                b_free a = true -> b_free b = false.
Proof. exact tlsf_no_adjacent_free. Qed.
Print Assumptions C18_tlsf_no_adjacent_free.
