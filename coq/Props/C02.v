(* C02 — An allocation denotes a valid range of live device memory.
   Whole-allocator level (model Vam*.v, tied to the Go code by the vamh correspondence runs).
   For EVERY reachable state of the allocator model (allocator creation followed by any sequence of API calls
   in the API domain — AllocateMemory, AllocateMemorySlice, Free, FreeAllocationSlice, Map/Unmap,
   Flush/Invalidate, CreatePool/Destroy, CreateBuffer/CreateImage/..., BuildStatsString, Allocator.Destroy —
   each with ANY fault oracle for its driver calls) and every allocated Allocation object:
     - the memory it reports is a live VkDeviceMemory of the allocation's memory type; for an allocation made
       from a custom pool that type is the pool's (alloc_list_type),
     - the range [FindOffset, +Size) lies inside that memory object, the size is positive,
     - a block allocation's offset satisfies the alignment it was placed with; a dedicated allocation starts
       at 0 and has exactly the size of its own memory object,
     - no two allocated Allocation objects overlap inside one memory object (block, pool, dedicated and
       multi allocations alike).
   The component facts come from the TLSF / linear metadata theorems through VamInvMeta.meta_live_sound.
   C02_placed_alignment: every successful allocation call (multiAllocateMemory, which AllocateMemory,
   AllocateMemorySlice, CreateBuffer/Image and AllocateMemoryFor* go through) places each block allocation with
   alignment max(requested alignment, minimum alignment of its block list); with the first theorem
   (offset mod a_align = 0) the offset is a multiple of both.
   Defragmentation (theorems C02_defrag_...): the same three statements hold in every state of a history that also
   contains BeginDefragmentation / BeginDefragPass / EndDefragPass (any MoveOperation per move) / Finish, each
   with any fault oracle (VamDefragThm.reachD), in particular between BeginDefragPass and EndDefragPass (the
   temporaries are ordinary block allocations there) and after the moves were completed, for ANY bufferImageGranularity
   (a power of two up to 2^32, cfg_ok; C02_defrag_gran_bookkeeping: the granularity bookkeeping of every TLSF block - vam's
   handler, page table, rounded sizes - is sound in every state, which is what the planner needs on top of VamInv).
   Explicit in reachD: an ordinary call while a pass is open leaves the objects of the pending moves alone; BeginDefragPass
   only while no pass is open (C02_defrag_domain_gran1, kept under its name: dop_ok is just that).  The move collection itself is
   Defrag.collect_moves (C15/C07 development), run on the projection of the block list; the bridge
   (VamDefragPass.project_wf, writeback_inv) shows that the allocator invariant gives the planner's
   precondition and that the planner's postcondition gives the allocator invariant back. *)
From Coq Require Import ZArith List Lia.
From Arsenal Require Import VamDev VamBlockList VamDefrag Vam VamInvMeta VamInv VamInvStep VamInvThm VamProps VamPropsOps
  VamDefragStep VamDefragPass VamDefragThm.
From Arsenal Require Bits Defrag VamGran.
Import ListNotations.
Open Scope Z_scope.

Theorem C02_alloc_denotes_valid_range : forall c v,
  cfg_ok c -> reach c v -> forall s a, slot_is v s a ->
  exists d off,
    find_mem (m_mems (v_m v)) (a_mem a) = Some d /\ dm_type d = a_type a /\
    find_offset v a = Some off /\ 0 <= off /\ 0 < a_size a /\ off + a_size a <= dm_size d /\
    (a_kind a = 1 -> 0 < a_align a /\ off mod a_align a = 0) /\
    (a_kind a = 2 -> off = 0 /\ a_size a = dm_size d).
Proof. intros c v Hc R. apply (alloc_denotes_valid_range c). apply reach_inv; auto. Qed.
Print Assumptions C02_alloc_denotes_valid_range.

Theorem C02_alloc_no_overlap : forall c v,
  cfg_ok c -> reach c v ->
  forall s1 a1 s2 a2, slot_is v s1 a1 -> slot_is v s2 a2 -> s1 <> s2 -> a_mem a1 = a_mem a2 ->
  forall o1 o2, find_offset v a1 = Some o1 -> find_offset v a2 = Some o2 ->
  o1 + a_size a1 <= o2 \/ o2 + a_size a2 <= o1.
Proof. intros c v Hc R. apply (alloc_no_overlap c). apply reach_inv; auto. Qed.
Print Assumptions C02_alloc_no_overlap.

Theorem C02_alloc_list_type : forall c v,
  cfg_ok c -> reach c v -> forall s a, slot_is v s a ->
  exists l, get_blist v (a_lref a) = Some l /\ bl_type l = a_type a.
Proof. intros c v Hc R. apply (alloc_list_type c). apply reach_inv; auto. Qed.
Print Assumptions C02_alloc_list_type.

Theorem C02_placed_alignment : forall c v size align typeBits reqDed prefDed ded bufimg usage flags0 req pref ctb pool sub slots v',
  cfg_ok c -> reach c v -> NoDup slots -> dead_slots v slots ->
  multi_allocate c v size align typeBits reqDed prefDed ded bufimg usage flags0 req pref ctb pool sub slots = (v', OK tt) ->
  forall s, In s slots -> a_kind (get_alloc v' s) = 1 ->
  exists l, get_blist v' (a_lref (get_alloc v' s)) = Some l /\ a_align (get_alloc v' s) = Z.max align (bl_minalign l).
Proof. intros c v size align typeBits reqDed prefDed ded bufimg usage flags0 req pref ctb pool sub slots v' Hc R. apply placed_alignment; auto. apply reach_inv; auto. Qed.
Print Assumptions C02_placed_alignment.

(* non-vacuity: a device with one 1 MiB heap and two memory types; create the allocator, make a block
   allocation, a dedicated one and a failing one (injected vkAllocateMemory fault): the state is reachable and
   holds two allocated objects *)
Definition ex_cfg : vcfg :=
  mkVcfg 10 false 1 1 4096 false 0 true [mkHeap 1048576 true (-1) 1048576 0] [mkType 0 1; mkType 0 6].

Lemma ex_cfg_ok : cfg_ok ex_cfg.
Proof.
  constructor; cbn.
  - constructor; [cbn; lia|constructor].
  - constructor; [cbn; lia|constructor; [cbn; lia|constructor]].
  - right. apply Bits.pow2_1.
  - lia.
  - right. apply Bits.pow2_1.
Qed.

Definition ex_ops : list (op * fault) :=
  [ (OAlloc 0 1000 16 3 0 0 0 0 0 None, no_fault);
    (OAlloc 1 5000 64 3 0 1 0 0 0 None, no_fault);
    (OAlloc 2 200000 4 3 0 0 0 0 0 None, mkFault true (-1) 1 0 true) ].

Fixpoint ex_run (v : vam) (ops : list (op * fault)) : vam :=
  match ops with
  | [] => v
  | (o, f) :: tl => let '(v', _, _) := step ex_cfg v o f in ex_run v' tl
  end.

Definition ex_state : vam :=
  match vam_new ex_cfg 4 with OK v => ex_run v ex_ops | _ => mkVam (mkMach [] 0 no_fault 0 Budget.bzero [] [] 0) 0%N [] [] [] 0 1 [] end.

Example C02_nonvacuous :
  reach ex_cfg ex_state /\
  map (fun a => (a_allocated a, a_kind a)) (v_tab ex_state) = [(true, 1); (true, 2); (false, 0); (false, 0)].
Proof.
  split; [|vm_compute; reflexivity].
  unfold ex_state. destruct (vam_new ex_cfg 4) as [v0| | |] eqn:E0; try (vm_compute in E0; discriminate).
  pose proof (reach_new ex_cfg 4 v0 E0) as R0.
  assert (Ev0 : v0 = match vam_new ex_cfg 4 with OK v => v | _ => v0 end) by (rewrite E0; reflexivity).
  cbn [ex_run ex_ops].
  destruct (step ex_cfg v0 (OAlloc 0 1000 16 3 0 0 0 0 0 None) no_fault) as ((v1 & r1) & c1) eqn:E1.
  assert (R1 : reach ex_cfg v1).
  { eapply reach_step; [exact R0| |exact E1| |]; [rewrite Ev0; vm_compute; split; [discriminate|reflexivity]|..];
      (assert (r1 = ROk) by (rewrite Ev0 in E1; vm_compute in E1; congruence); subst; discriminate). }
  assert (Ev1 : v1 = fst (fst (step ex_cfg v0 (OAlloc 0 1000 16 3 0 0 0 0 0 None) no_fault))) by (rewrite E1; reflexivity).
  destruct (step ex_cfg v1 (OAlloc 1 5000 64 3 0 1 0 0 0 None) no_fault) as ((v2 & r2) & c2) eqn:E2.
  assert (R2 : reach ex_cfg v2).
  { eapply reach_step; [exact R1| |exact E2| |]; [rewrite Ev1, Ev0; vm_compute; split; [discriminate|reflexivity]|..];
      (assert (r2 = ROk) by (rewrite Ev1, Ev0 in E2; vm_compute in E2; congruence); subst; discriminate). }
  assert (Ev2 : v2 = fst (fst (step ex_cfg v1 (OAlloc 1 5000 64 3 0 1 0 0 0 None) no_fault))) by (rewrite E2; reflexivity).
  destruct (step ex_cfg v2 (OAlloc 2 200000 4 3 0 0 0 0 0 None) (mkFault true (-1) 1 0 true)) as ((v3 & r3) & c3) eqn:E3.
  eapply reach_step; [exact R2| |exact E3| |]; [rewrite Ev2, Ev1, Ev0; vm_compute; split; [discriminate|reflexivity]|..];
    (assert (r3 = RErr (-2)) by (rewrite Ev2, Ev1, Ev0 in E3; vm_compute in E3; congruence); subst; discriminate).
Qed.

(* ---------------------------------------------------------------- histories with defragmentation *)

Theorem C02_defrag_valid_range : forall c v run,
  cfg_ok c -> reachD c v run -> forall s a, slot_is v s a ->
  exists d off,
    find_mem (m_mems (v_m v)) (a_mem a) = Some d /\ dm_type d = a_type a /\
    find_offset v a = Some off /\ 0 <= off /\ 0 < a_size a /\ off + a_size a <= dm_size d /\
    (a_kind a = 1 -> 0 < a_align a /\ off mod a_align a = 0) /\
    (a_kind a = 2 -> off = 0 /\ a_size a = dm_size d).
Proof. intros c v run Hc R. apply (alloc_denotes_valid_range c). apply (reachD_inv c Hc v run R). Qed.
Print Assumptions C02_defrag_valid_range.

Theorem C02_defrag_no_overlap : forall c v run,
  cfg_ok c -> reachD c v run ->
  forall s1 a1 s2 a2, slot_is v s1 a1 -> slot_is v s2 a2 -> s1 <> s2 -> a_mem a1 = a_mem a2 ->
  forall o1 o2, find_offset v a1 = Some o1 -> find_offset v a2 = Some o2 ->
  o1 + a_size a1 <= o2 \/ o2 + a_size a2 <= o1.
Proof. intros c v run Hc R. apply (alloc_no_overlap c). apply (reachD_inv c Hc v run R). Qed.
Print Assumptions C02_defrag_no_overlap.

Theorem C02_defrag_list_type : forall c v run,
  cfg_ok c -> reachD c v run -> forall s a, slot_is v s a ->
  exists l, get_blist v (a_lref a) = Some l /\ bl_type l = a_type a.
Proof. intros c v run Hc R. apply (alloc_list_type c). apply (reachD_inv c Hc v run R). Qed.
Print Assumptions C02_defrag_list_type.

(* while a pass is open, every pending move is between two distinct allocated block allocations of the list, of
   equal size and alignment, and no Allocation object takes part in two moves *)
Theorem C02_defrag_pending_moves : forall c v rn,
  cfg_ok c -> reachD c v (Some rn) ->
  forall dc, nth_z (dr_ctxs rn) (dr_progress rn) = Some dc -> moves_ok v (dc_lr dc) (Defrag.c_moves (dc_ctx dc)).
Proof.
  intros c v rn Hc R dc Hn. destruct (reachD_inv c Hc v (Some rn) R) as (_ & (_ & _ & H)). apply (H _ _ Hn). reflexivity.
Qed.
Print Assumptions C02_defrag_pending_moves.

(* the domain condition of BeginDefragPass is just "no pass is open" (for any granularity; the hypothesis is vestigial) *)
Theorem C02_defrag_domain_gran1 : forall c v run o,
  cfg_ok c -> eff_granularity c = 1 -> reachD c v run -> drun_idle run -> dop_ok v run o.
Proof. intros c v run o Hc E R Hi. apply (dop_ok_eff c); auto. apply (reachD_inv c Hc v run R). Qed.
Print Assumptions C02_defrag_domain_gran1.

(* every TLSF block of every list carries GranTlsf.GInv for its list's granularity, every block Allocation has a suballocation
   type 1..5 and a size that RoundUpAllocRequest leaves alone, in every state of every history with defragmentation *)
Theorem C02_defrag_gran_bookkeeping : forall c v run,
  cfg_ok c -> reachD c v run -> VamGran.GV c v.
Proof. intros c v run Hc. exact (reachD_gv c Hc v run). Qed.
Print Assumptions C02_defrag_gran_bookkeeping.

(* non-vacuity: two block allocations, the first is freed, a defragmentation run moves the second one from
   offset 1008 to offset 0 (BeginDefragPass proposes the move, EndDefragPass with MoveOperation copy completes
   it); the states between and after the calls are reachable *)
Definition dx0 : vam := Eval vm_compute in
  match vam_new ex_cfg 4 with OK v => v | _ => mkVam (mkMach [] 0 no_fault 0 Budget.bzero [] [] 0) 0%N [] [] [] 0 1 [] end.
Definition dx1 := Eval vm_compute in fst (fst (step ex_cfg dx0 (OAlloc 0 1000 16 3 0 0 0 0 0 None) no_fault)).
Definition dx2 := Eval vm_compute in fst (fst (step ex_cfg dx1 (OAlloc 1 1000 16 3 0 0 0 0 0 None) no_fault)).
Definition dx3 := Eval vm_compute in fst (fst (step ex_cfg dx2 (OFree 0) no_fault)).
Definition dd1 := Eval vm_compute in dstep ex_cfg dx3 None (DBegin 0 None 0 0) no_fault.
Definition dx4 := Eval vm_compute in fst (fst (fst (fst dd1))).
Definition dr4 := Eval vm_compute in snd (fst (fst (fst dd1))).
Definition dd2 := Eval vm_compute in dstep ex_cfg dx4 dr4 DPass no_fault.
Definition dx5 := Eval vm_compute in fst (fst (fst (fst dd2))).
Definition dr5 := Eval vm_compute in snd (fst (fst (fst dd2))).
Definition dd3 := Eval vm_compute in dstep ex_cfg dx5 dr5 (DEnd [0]) no_fault.
Definition dx6 := Eval vm_compute in fst (fst (fst (fst dd3))).
Definition dr6 := Eval vm_compute in snd (fst (fst (fst dd3))).

Example C02_defrag_nonvacuous :
  reachD ex_cfg dx5 dr5 /\ reachD ex_cfg dx6 dr6 /\
  map (fun a => (a_allocated a, a_handle a, a_temp a)) (v_tab dx5) =
    [(false, 0, false); (true, 1008, false); (false, 0, false); (false, 0, false); (true, 0, true)] /\
  map (fun a => (a_allocated a, a_handle a, a_temp a)) (v_tab dx6) =
    [(false, 0, false); (true, 0, false); (false, 0, false); (false, 0, false); (false, 1008, true)].
Proof.
  assert (R0 : reachD ex_cfg dx0 None) by (eapply reachD_new with (nslots := 4%nat); vm_compute; reflexivity).
  assert (R1 : reachD ex_cfg dx1 None).
  { eapply reachD_step with (r := ROk) (o := OAlloc 0 1000 16 3 0 0 0 0 0 None) (f := no_fault)
      (calls := snd (step ex_cfg dx0 (OAlloc 0 1000 16 3 0 0 0 0 0 None) no_fault));
      [exact R0|apply idle_avoids; exact I| |vm_compute; reflexivity|discriminate|discriminate]. vm_compute. split; [discriminate|reflexivity]. }
  assert (R2 : reachD ex_cfg dx2 None).
  { eapply reachD_step with (r := ROk) (o := OAlloc 1 1000 16 3 0 0 0 0 0 None) (f := no_fault)
      (calls := snd (step ex_cfg dx1 (OAlloc 1 1000 16 3 0 0 0 0 0 None) no_fault));
      [exact R1|apply idle_avoids; exact I| |vm_compute; reflexivity|discriminate|discriminate]. vm_compute. split; [discriminate|reflexivity]. }
  assert (R3 : reachD ex_cfg dx3 None).
  { eapply reachD_step with (r := ROk) (o := OFree 0) (f := no_fault) (calls := snd (step ex_cfg dx2 (OFree 0) no_fault));
      [exact R2|apply idle_avoids; exact I|exact I|vm_compute; reflexivity|discriminate|discriminate]. }
  assert (R4 : reachD ex_cfg dx4 dr4).
  { eapply reachD_dstep with (r := ROk) (o := DBegin 0 None 0 0) (f := no_fault) (calls := snd (fst dd1)) (dr := snd dd1);
      [exact R3|exact I|vm_compute; reflexivity|discriminate|discriminate]. }
  assert (R5 : reachD ex_cfg dx5 dr5).
  { eapply reachD_dstep with (r := ROk) (o := DPass) (f := no_fault) (calls := snd (fst dd2)) (dr := snd dd2);
      [exact R4| |vm_compute; reflexivity|discriminate|discriminate].
    apply (C02_defrag_domain_gran1 ex_cfg dx4 dr4 DPass ex_cfg_ok eq_refl R4).
    intros i dc Hn. apply nth_z_in in Hn. vm_compute in Hn. destruct Hn as [<-|[<-|[]]]; reflexivity. }
  split; [exact R5|]. split; [|split; vm_compute; reflexivity].
  eapply reachD_dstep with (r := ROk) (o := DEnd [0]) (f := no_fault) (calls := snd (fst dd3)) (dr := snd dd3);
    [exact R5|exact I|vm_compute; reflexivity|discriminate|discriminate].
Qed.

(* ordinary calls while a pass is open: between BeginDefragPass and EndDefragPass the application allocates into
   another Allocation object (slot 2; the pending move uses slots 1 and 4); the pass is then completed *)
Definition dx5b := Eval vm_compute in fst (fst (step ex_cfg dx5 (OAlloc 2 500 16 3 0 0 0 0 0 None) no_fault)).
Definition dd3b := Eval vm_compute in dstep ex_cfg dx5b dr5 (DEnd [0]) no_fault.
Definition dx6b := Eval vm_compute in fst (fst (fst (fst dd3b))).
Definition dr6b := Eval vm_compute in snd (fst (fst (fst dd3b))).

Example C02_defrag_open_pass_nonvacuous :
  VamDefragThm.pending_slots dr5 = [1; 4] /\ reachD ex_cfg dx5b dr5 /\ reachD ex_cfg dx6b dr6b /\
  map (fun a => (a_allocated a, a_handle a, a_temp a)) (v_tab dx6b) =
    [(false, 0, false); (true, 0, false); (true, 2016, false); (false, 0, false); (false, 1008, true)].
Proof.
  destruct C02_defrag_nonvacuous as (R5 & _).
  assert (R5b : reachD ex_cfg dx5b dr5).
  { eapply reachD_step with (r := ROk) (o := OAlloc 2 500 16 3 0 0 0 0 0 None) (f := no_fault)
      (calls := snd (step ex_cfg dx5 (OAlloc 2 500 16 3 0 0 0 0 0 None) no_fault));
      [exact R5| | |vm_compute; reflexivity|discriminate|discriminate].
    - intros s [<-|[]] H. vm_compute in H. destruct H as [H|[H|[]]]; discriminate.
    - vm_compute. split; [discriminate|reflexivity]. }
  split; [vm_compute; reflexivity|]. split; [exact R5b|]. split; [|vm_compute; reflexivity].
  eapply reachD_dstep with (r := ROk) (o := DEnd [0]) (f := no_fault) (calls := snd (fst dd3b)) (dr := snd dd3b);
    [exact R5b|exact I|vm_compute; reflexivity|discriminate|discriminate].
Qed.
Print Assumptions C02_defrag_open_pass_nonvacuous.


(* ---------------------------------------------------------------- the memory type against memoryTypeBits (C02 / C08)
   C02_type_permitted: AllocateMemory, AllocateMemoryForBuffer/Image, CreateBuffer, CreateImage WITHOUT a custom pool, on every
   reachable state, with any fault oracle: when the call succeeds, the Allocation's memory object has a memory type that is an
   index of the device's type table and whose bit is set in the memoryTypeBits of the requirements the call was made for
   (VamTypeBits.op_type_bits: the caller's for AllocateMemory; what vkGet*MemoryRequirements reports for the resource
   otherwise - for CreateBuffer/CreateImage the resource the call itself has just created, whose handle is fresh:
   VamMemStable.reachA_res_inv).  With VamBindCreate.create_bind_valid (C08) the vkBind*Memory of CreateBuffer/CreateImage
   therefore binds type-compatible memory.
   C02_type_permitted_pool_refuted: FALSE with a custom pool.  multiAllocateMemory takes the pool's memory type without
   looking at memoryTypeBits (allocator.go: `if options.Pool != nil { return a.allocateMemoryOfType(...) }`), so CreateBuffer
   into a pool of memory type 1 for a buffer that admits only memory type 0 succeeds and binds the buffer to type-1 memory.
   (Upstream VMA behaves the same; it is the caller's duty to pick a compatible pool.) *)
From Arsenal Require VamAcctThm VamTypeBits.
Module TypeBits.
Import VamAcctThm VamTypeBits.

Theorem C02_type_permitted : forall c v o f v' calls slot bits,
  cfg_acct c -> reachA c v -> op_ok v o -> op_dom o -> step c v o f = (v', ROk, calls) -> op_type_bits v o = Some (slot, bits) ->
  exists a d, slot_is v' slot a /\ 0 <= a_type a < ntypes c /\ type_bit bits (a_type a) /\
              find_mem (m_mems (v_m v')) (a_mem a) = Some d /\ dm_type d = a_type a.
Proof. intros c v o f v' calls slot bits Ha. exact (type_permitted_step c Ha v o f v' calls slot bits). Qed.
Print Assumptions C02_type_permitted.

Theorem C02_multi_allocate_type_permitted : forall c v size align typeBits reqDed prefDed ded bufimg usage flags0 req pref ctb sub slots v',
  cfg_ok c -> VamInv c v -> NoDup slots -> dead_slots v slots ->
  multi_allocate c v size align typeBits reqDed prefDed ded bufimg usage flags0 req pref ctb None sub slots = (v', OK tt) ->
  exists ty, 0 <= ty < ntypes c /\ type_bit typeBits ty /\
             forall s, In s slots -> a_type (get_alloc v' s) = ty /\ a_lref (get_alloc v' s) = LDef ty.
Proof. intros c v size align typeBits reqDed prefDed ded bufimg usage flags0 req pref ctb sub slots v' Hc. exact (multi_allocate_type_permitted c Hc v size align typeBits reqDed prefDed ded bufimg usage flags0 req pref ctb sub slots v'). Qed.
Print Assumptions C02_multi_allocate_type_permitted.

Theorem C02_type_permitted_pool_refuted :
  reachA exA_cfg tb_v1 /\ op_ok tb_v1 tb_op /\ op_dom tb_op /\
  tb_op = OCreateBuf 0 1000 (mkResreq 1000 16 1 false false) 128 0 0 0 0 0 0 (Some 1) /\
  exists v' calls a d,
    step exA_cfg tb_v1 tb_op no_fault = (v', ROk, calls) /\ slot_is v' 0 a /\
    find_mem (m_mems (v_m v')) (a_mem a) = Some d /\ dm_type d = a_type a /\
    ~ type_bit 1 (a_type a) /\ In (CBind false 1 (a_mem a) 0 0) calls.
Proof.
  destruct type_permitted_pool_refuted as (A & B & C0 & D). split; [exact A|]. split; [exact B|]. split; [exact C0|]. split; [reflexivity|exact D].
Qed.
Print Assumptions C02_type_permitted_pool_refuted.
End TypeBits.
