(* C02 — An allocation denotes a valid range of live device memory.
   Whole-allocator level (model Vam*.v, tied to the Go code by the vamh correspondence runs).
   For EVERY reachable state of the allocator model (allocator creation followed by any sequence of API calls
   in the API domain — AllocateMemory, AllocateMemorySlice, Free, FreeAllocationSlice, Map/Unmap,
   Flush/Invalidate, CreatePool/Destroy, CreateBuffer/CreateImage/..., BuildStatsString, Allocator.Destroy —
   each with ANY fault oracle for its driver calls) and every allocated Allocation object:
     - the memory it reports is a live VkDeviceMemory of the allocation's memory type; for an allocation made
       from a custom pool that type is the pool's (alloc_list_type),
     - the range [FindOffset, +Size) lies inside that memory object, the size is positive,
     - a block allocation's offset satisfies the alignment it was placed with; a dedicated allocation starts
       at 0 and has exactly the size of its own memory object,
     - no two allocated Allocation objects overlap inside one memory object (block, pool, dedicated and
       multi allocations alike).
   The component facts come from the TLSF / linear metadata theorems through VamInvMeta.meta_live_sound.
   OPEN (not yet covered by this file): the steps of a defragmentation run (Vam.dstep), and the statement that
   the placement alignment is at least the requested alignment and the list's minimum alignment (it is
   max(request, minimum) by construction in VamBlockList.bl_allocate; not yet carried in the invariant). *)
From Coq Require Import ZArith List Lia.
From Arsenal Require Import VamDev VamBlockList Vam VamInvMeta VamInv VamInvThm VamProps.
From Arsenal Require Bits.
Import ListNotations.
Open Scope Z_scope.

Theorem C02_alloc_denotes_valid_range : forall c v,
  cfg_ok c -> reach c v -> forall s a, slot_is v s a ->
  exists d off,
    find_mem (m_mems (v_m v)) (a_mem a) = Some d /\ dm_type d = a_type a /\
    find_offset v a = Some off /\ 0 <= off /\ 0 < a_size a /\ off + a_size a <= dm_size d /\
    (a_kind a = 1 -> 0 < a_align a /\ off mod a_align a = 0) /\
    (a_kind a = 2 -> off = 0 /\ a_size a = dm_size d).
Proof. intros c v Hc R. apply (alloc_denotes_valid_range c). apply reach_inv; auto. Qed.
Print Assumptions C02_alloc_denotes_valid_range.

Theorem C02_alloc_no_overlap : forall c v,
  cfg_ok c -> reach c v ->
  forall s1 a1 s2 a2, slot_is v s1 a1 -> slot_is v s2 a2 -> s1 <> s2 -> a_mem a1 = a_mem a2 ->
  forall o1 o2, find_offset v a1 = Some o1 -> find_offset v a2 = Some o2 ->
  o1 + a_size a1 <= o2 \/ o2 + a_size a2 <= o1.
Proof. intros c v Hc R. apply (alloc_no_overlap c). apply reach_inv; auto. Qed.
Print Assumptions C02_alloc_no_overlap.

Theorem C02_alloc_list_type : forall c v,
  cfg_ok c -> reach c v -> forall s a, slot_is v s a ->
  exists l, get_blist v (a_lref a) = Some l /\ bl_type l = a_type a.
Proof. intros c v Hc R. apply (alloc_list_type c). apply reach_inv; auto. Qed.
Print Assumptions C02_alloc_list_type.

(* non-vacuity: a device with one 1 MiB heap and two memory types; create the allocator, make a block
   allocation, a dedicated one and a failing one (injected vkAllocateMemory fault): the state is reachable and
   holds two allocated objects *)
Definition ex_cfg : vcfg :=
  mkVcfg 10 false 1 1 4096 false 0 true [mkHeap 1048576 true (-1) 1048576 0] [mkType 0 1; mkType 0 6].

Lemma ex_cfg_ok : cfg_ok ex_cfg.
Proof.
  constructor; cbn.
  - constructor; [cbn; lia|constructor].
  - constructor; [cbn; lia|constructor; [cbn; lia|constructor]].
  - right. apply Bits.pow2_1.
  - right. apply Bits.pow2_1.
Qed.

Definition ex_ops : list (op * fault) :=
  [ (OAlloc 0 1000 16 3 0 0 0 0 0 None, no_fault);
    (OAlloc 1 5000 64 3 0 1 0 0 0 None, no_fault);
    (OAlloc 2 200000 4 3 0 0 0 0 0 None, mkFault true (-1) 1 0 true) ].

Fixpoint ex_run (v : vam) (ops : list (op * fault)) : vam :=
  match ops with
  | [] => v
  | (o, f) :: tl => let '(v', _, _) := step ex_cfg v o f in ex_run v' tl
  end.

Definition ex_state : vam :=
  match vam_new ex_cfg 4 with OK v => ex_run v ex_ops | _ => mkVam (mkMach [] 0 no_fault 0 Budget.bzero [] [] 0) 0%N [] [] [] 0 1 [] end.

Example C02_nonvacuous :
  reach ex_cfg ex_state /\
  map (fun a => (a_allocated a, a_kind a)) (v_tab ex_state) = [(true, 1); (true, 2); (false, 0); (false, 0)].
Proof.
  split; [|vm_compute; reflexivity].
  unfold ex_state. destruct (vam_new ex_cfg 4) as [v0| | |] eqn:E0; try (vm_compute in E0; discriminate).
  pose proof (reach_new ex_cfg 4 v0 E0) as R0.
  assert (Ev0 : v0 = match vam_new ex_cfg 4 with OK v => v | _ => v0 end) by (rewrite E0; reflexivity).
  cbn [ex_run ex_ops].
  destruct (step ex_cfg v0 (OAlloc 0 1000 16 3 0 0 0 0 0 None) no_fault) as ((v1 & r1) & c1) eqn:E1.
  assert (R1 : reach ex_cfg v1).
  { eapply reach_step; [exact R0| |exact E1| |]; [rewrite Ev0; vm_compute; split; [discriminate|reflexivity]|..];
      (assert (r1 = ROk) by (rewrite Ev0 in E1; vm_compute in E1; congruence); subst; discriminate). }
  assert (Ev1 : v1 = fst (fst (step ex_cfg v0 (OAlloc 0 1000 16 3 0 0 0 0 0 None) no_fault))) by (rewrite E1; reflexivity).
  destruct (step ex_cfg v1 (OAlloc 1 5000 64 3 0 1 0 0 0 None) no_fault) as ((v2 & r2) & c2) eqn:E2.
  assert (R2 : reach ex_cfg v2).
  { eapply reach_step; [exact R1| |exact E2| |]; [rewrite Ev1, Ev0; vm_compute; split; [discriminate|reflexivity]|..];
      (assert (r2 = ROk) by (rewrite Ev1, Ev0 in E2; vm_compute in E2; congruence); subst; discriminate). }
  assert (Ev2 : v2 = fst (fst (step ex_cfg v1 (OAlloc 1 5000 64 3 0 1 0 0 0 None) no_fault))) by (rewrite E2; reflexivity).
  destruct (step ex_cfg v2 (OAlloc 2 200000 4 3 0 0 0 0 0 None) (mkFault true (-1) 1 0 true)) as ((v3 & r3) & c3) eqn:E3.
  eapply reach_step; [exact R2| |exact E3| |]; [rewrite Ev2, Ev1, Ev0; vm_compute; split; [discriminate|reflexivity]|..];
    (assert (r3 = RErr (-2)) by (rewrite Ev2, Ev1, Ev0 in E3; vm_compute in E3; congruence); subst; discriminate).
Qed.
