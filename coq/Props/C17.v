(* C17 — Handles resolve to their own allocation; enumeration is exact.  TLSF half: in every
   reachable state the handle (offset) of a live block finds that very block, its user data is
   the block's own, setting user data touches only that block (C06's live_effect), and the
   AllocationListBegin/FindNextAllocation iteration is the list of live handles, each once. *)
From Coq Require Import ZArith List.
From Arsenal Require Import Util Bits Gran Tlsf TlsfStep TlsfProps.
Open Scope Z_scope.

Theorem C17_tlsf_lookup_own : forall h gr size ops,
  cfg_ok gr size -> Forall op_ok ops ->
  let t := run (tlsf_init h gr size) ops in
  forall a, In a (live t) ->
    find_blk (b_off a) (t_chain t) = Some a /\ get_user_data t (b_off a) = Some (b_tag a).
Proof. exact tlsf_lookup_own. Qed.
Print Assumptions C17_tlsf_lookup_own.

Theorem C17_tlsf_iteration_exact : forall t, iterate t = rev (map b_off (live t)).
Proof. exact tlsf_iteration_exact. Qed.
Print Assumptions C17_tlsf_iteration_exact.

Theorem C17_tlsf_iteration_nodup : forall h gr size ops,
  cfg_ok gr size -> Forall op_ok ops ->
  let t := run (tlsf_init h gr size) ops in NoDup (iterate t).
Proof. exact tlsf_iteration_nodup. Qed.
Print Assumptions C17_tlsf_iteration_nodup.

Theorem C17_tlsf_setud_only : forall h gr size ops o,
  cfg_ok gr size -> Forall op_ok ops -> op_ok o ->
  let t := run (tlsf_init h gr size) ops in
  live_effect t o (fst (step t o)) (snd (step t o)).
Proof. exact tlsf_step_exact. Qed.
Print Assumptions C17_tlsf_setud_only.
