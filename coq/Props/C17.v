(* C17 — Handles resolve to their own allocation; enumeration is exact.  TLSF half: in every
   reachable state the handle (offset) of a live block finds that very block, its user data is
   the block's own, setting user data touches only that block (C06's live_effect), and the
   AllocationListBegin/FindNextAllocation iteration is the list of live handles, each once. *)
From Coq Require Import ZArith List.
From Coq Require Import Lia.
From Arsenal Require Import Util Bits Gran Tlsf TlsfStep TlsfProps.
From Arsenal Require Linear LinearInv LinearAlloc LinearFree LinearStep LinearSwap LinearVisit LinearProps.
Import ListNotations.
Open Scope Z_scope.

Theorem C17_tlsf_lookup_own : forall h gr size ops,
  cfg_ok gr size -> Forall op_ok ops ->
  let t := run (tlsf_init h gr size) ops in
  forall a, In a (live t) ->
    find_blk (b_off a) (t_chain t) = Some a /\ get_user_data t (b_off a) = Some (b_tag a).
Proof. exact tlsf_lookup_own. Qed.
Print Assumptions C17_tlsf_lookup_own.

Theorem C17_tlsf_iteration_exact : forall t, iterate t = rev (map b_off (live t)).
Proof. exact tlsf_iteration_exact. Qed.
Print Assumptions C17_tlsf_iteration_exact.

Theorem C17_tlsf_iteration_nodup : forall h gr size ops,
  cfg_ok gr size -> Forall op_ok ops ->
  let t := run (tlsf_init h gr size) ops in NoDup (iterate t).
Proof. exact tlsf_iteration_nodup. Qed.
Print Assumptions C17_tlsf_iteration_nodup.

Theorem C17_tlsf_setud_only : forall h gr size ops o,
  cfg_ok gr size -> Forall op_ok ops -> op_ok o ->
  let t := run (tlsf_init h gr size) ops in
  live_effect t o (fst (step t o)) (snd (step t o)).
Proof. exact tlsf_step_exact. Qed.
Print Assumptions C17_tlsf_setud_only.

Module LinearHalf.
Import Linear LinearInv LinearAlloc LinearFree LinearStep LinearSwap LinearVisit LinearProps.
Import ListNotations.

(* Linear half: the handle (offset+1) of a live item resolves to that item's own user data and
   offset; OSetUD on a live handle changes exactly that item's tag (LinearStep.live_effect /
   retag_effect); the linear algorithm has no allocation iteration (AllocationListBegin errors). *)
Theorem C17_linear_lookup_own : forall h gr size l x,
  lcfg_ok gr size -> lreach h gr size l -> In x (LinearInv.live l) ->
  Linear.get_user_data l (s_off x + 1) = UDOk (s_tag x) /\ allocation_offset (s_off x + 1) = s_off x.
Proof. exact linear_lookup_own. Qed.
Print Assumptions C17_linear_lookup_own.

Theorem C17_linear_setud_only : forall h gr size l o,
  lcfg_ok gr size -> lreach h gr size l -> LinearStep.op_ok l o ->
  LinearStep.live_effect l o (fst (Linear.step l o)) (snd (Linear.step l o)).
Proof. exact linear_step_exact. Qed.
Print Assumptions C17_linear_setud_only.

(* non-vacuity (linear): an admissible history through ring buffer, lazy deletion and vector swap *)
Example C17_linear_nonvacuous :
  lcfg_ok 1 100 /\ lreach HVam 1 100 (lrun (linear_init HVam 1 100) LinearStep.ex_ops) /\
  map s_off (LinearInv.live (lrun (linear_init HVam 1 100) LinearStep.ex_ops)) = [0; 24]%Z.
Proof.
  split; [split; [lia|exists 0; split; [lia|reflexivity]]|].
  split; [exists LinearStep.ex_ops; split; [exact (proj1 LinearStep.ex_ops_ok)|reflexivity]|].
  exact (proj1 (proj2 LinearStep.ex_ops_ok)).
Qed.

End LinearHalf.
