(* C09 — Conflicting resource kinds never share a buffer-image-granularity page.
   TLSF half (block model Tlsf.v calling the vam handler model Gran.v exactly where tlsf.go calls
   it): for every power-of-two granularity 1 .. 65536, every block size, every finite history of
   allocations (any sizes, power-of-two alignments, any strategy, kinds Unknown / Buffer /
   ImageUnknown / ImageLinear / ImageOptimal), frees, user-data changes, Clear and the query
   operations, any two different live blocks whose kinds conflict have no byte on a common page.
   b_kind is the kind passed to the OAlloc that created the block (TlsfStep.live_effect / C06).

   Hypothesis op_kind_ok: the kind passed to an allocation is one of the five non-Free values of
   Go's (unexported) suballocationType enum.  The model takes any integer there; the theorem is
   false of the model for integers outside the enum (C09_kinds_outside_enum_refuted) — not a
   defect of the Go code, whose callers cannot produce such a value.

   The page counters are uint32 (mod 2^32 in Gran.v).  At most g allocations can be counted on a
   page of g bytes, so for g <= 2^32 a counter never wraps; C09_tlsf_wide states the theorem for
   that whole range, C09_tlsf is its restriction to the range of the property (1 .. 64 KiB). *)
From Coq Require Import ZArith List Bool Lia.
From Arsenal Require Import Util Bits Gran Tlsf TlsfStep TlsfProps GranInv GranTlsf.
From Arsenal Require Linear LinearInv LinearStep GranLinear.
Import ListNotations.
Open Scope Z_scope.

Theorem C09_tlsf_wide : forall gr size ops,
  cfg_ok gr size -> 1 <= gr <= 4294967296 -> Forall op_ok ops -> Forall op_kind_ok ops ->
  let t := run (tlsf_init HVam gr size) ops in
  forall a b, In a (live t) -> In b (live t) -> a <> b ->
    conflict (b_kind a) (b_kind b) = true ->
    forall x y, b_off a <= x < b_off a + b_size a -> b_off b <= y < b_off b + b_size b ->
                x / gr <> y / gr.
Proof.
  exact (fun gr size ops Hc Hr Hok Hk =>
           tlsf_gran_sound gr _ (reach_GInv_wide gr size ops Hc Hr Hok Hk)).
Qed.
Print Assumptions C09_tlsf_wide.

Theorem C09_tlsf : forall gr size ops,
  cfg_ok gr size -> 1 <= gr <= 65536 -> Forall op_ok ops -> Forall op_kind_ok ops ->
  let t := run (tlsf_init HVam gr size) ops in
  forall a b, In a (live t) -> In b (live t) -> a <> b ->
    conflict (b_kind a) (b_kind b) = true ->
    forall x y, b_off a <= x < b_off a + b_size a -> b_off b <= y < b_off b + b_size b ->
                x / gr <> y / gr.
Proof.
  exact (fun gr size ops Hc Hr Hok Hk =>
           C09_tlsf_wide gr size ops Hc ltac:(lia) Hok Hk).
Qed.
Print Assumptions C09_tlsf.

(* the same with the handler's own page functions (getStartSlot / getEndSlot) *)
Theorem C09_tlsf_slots : forall gr size ops,
  cfg_ok gr size -> 1 <= gr <= 65536 -> Forall op_ok ops -> Forall op_kind_ok ops ->
  let t := run (tlsf_init HVam gr size) ops in
  forall a b, In a (live t) -> In b (live t) -> a <> b ->
    conflict (b_kind a) (b_kind b) = true ->
    end_slot (t_gran t) (b_off a) (b_size a) < start_slot (t_gran t) (b_off b) \/
    end_slot (t_gran t) (b_off b) (b_size b) < start_slot (t_gran t) (b_off a).
Proof.
  intros gr size ops Hc Hr Hok Hk t a b Ha Hb Hne Hcf.
  pose proof (reach_GInv gr size ops Hc Hr Hok Hk) as HG. fold t in HG.
  pose proof HG as [[Hinv Hp2] _ Hg _ _ _ _ _].
  destruct (live_geometry t a Hinv Ha) as (_ & Hsa & _).
  destruct (live_geometry t b Hinv Hb) as (_ & Hsb & _).
  apply no_shared_page_slots; auto. rewrite Hg. apply (tlsf_gran_sound gr t HG); auto.
Qed.
Print Assumptions C09_tlsf_slots.

(* the two mechanisms separately *)
Theorem C09_tlsf_low_gran : forall gr size ops,
  cfg_ok gr size -> 1 < gr <= 256 -> Forall op_ok ops -> Forall op_kind_ok ops ->
  let t := run (tlsf_init HVam gr size) ops in
  forall a b, In a (live t) -> In b (live t) -> a <> b ->
    conflict (b_kind a) (b_kind b) = true -> no_shared_page gr a b.
Proof.
  exact (fun gr size ops Hc Hr Hok Hk =>
           tlsf_low_gran gr _ (reach_GInv gr size ops Hc ltac:(lia) Hok Hk) Hr).
Qed.
Print Assumptions C09_tlsf_low_gran.

Theorem C09_tlsf_high_gran : forall gr size ops,
  cfg_ok gr size -> 256 < gr <= 65536 -> Forall op_ok ops -> Forall op_kind_ok ops ->
  let t := run (tlsf_init HVam gr size) ops in
  forall a b, In a (live t) -> In b (live t) -> a <> b ->
    conflict (b_kind a) (b_kind b) = true -> no_shared_page gr a b.
Proof.
  exact (fun gr size ops Hc Hr Hok Hk =>
           tlsf_high_gran gr _ (reach_GInv gr size ops Hc ltac:(lia) Hok Hk) ltac:(lia)).
Qed.
Print Assumptions C09_tlsf_high_gran.

(* the page table of a block without live allocations is all (Free, 0) *)
Theorem C09_tlsf_empty_table : forall gr size ops,
  cfg_ok gr size -> 1 <= gr <= 65536 -> Forall op_ok ops -> Forall op_kind_ok ops ->
  let t := run (tlsf_init HVam gr size) ops in
  live t = [] -> Forall (fun r => r = (0, 0)) (g_regions (t_gran t)).
Proof.
  exact (fun gr size ops Hc Hr Hok Hk =>
           regions_all_zero_when_empty gr _ (reach_GInv gr size ops Hc Hr Hok Hk)).
Qed.
Print Assumptions C09_tlsf_empty_table.

(* ------------------------------------------------------------------ non-vacuity *)

Definition M : Z := 4611686018427387904.

(* buffers, an optimal image, a linear image, a raw allocation, an image of unknown tiling,
   a free, a MinOffset allocation into the hole, a two-page optimal image, a user-data change *)
Definition c09_ops : list op :=
  [ OAlloc 100 16 2 0 false M (Some 1);
    OAlloc 50 1 5 0 false M (Some 2);
    OAlloc 300 64 4 0 false M (Some 3);
    OAlloc 10 1 1 0 false M (Some 4);
    OAlloc 700 4 3 0 false M (Some 5);
    OFree 0;
    OAlloc 40 8 2 4 false M (Some 6);
    OAlloc 2000 8 5 0 false M (Some 7);
    OSetUD 1024 (Some 9) ].

Lemma c09_ops_ok : Forall op_ok c09_ops /\ Forall op_kind_ok c09_ops.
Proof.
  split; repeat constructor; cbn; unfold kind_ok; try lia.
  - exists 4; split; [lia|reflexivity].
  - exists 0; split; [lia|reflexivity].
  - exists 6; split; [lia|reflexivity].
  - exists 0; split; [lia|reflexivity].
  - exists 2; split; [lia|reflexivity].
  - exists 3; split; [lia|reflexivity].
  - exists 3; split; [lia|reflexivity].
Qed.

Lemma c09_cfg gr k : gr = 2 ^ k -> 0 <= k -> cfg_ok gr 16384.
Proof. intros -> Hk. split; [lia|exists k; auto]. Qed.

Definition spans_of (t : tlsf) : list (Z * Z * Z) := map (fun b => (b_off b, b_size b, b_kind b)) (live t).

(* granularity 1024 (page table in use): the optimal image was pushed from offset 100 to the
   next page; Unknown / ImageUnknown own whole pages; the table counts first and last pages *)
Example C09_nonvacuous_high :
  cfg_ok 1024 16384 /\ Forall op_ok c09_ops /\ Forall op_kind_ok c09_ops /\
  let t := run (tlsf_init HVam 1024 16384) c09_ops in
  spans_of t = [(0, 40, 2); (128, 300, 4); (1024, 50, 5); (2048, 1024, 1); (3072, 1024, 3); (4096, 2000, 5)] /\
  firstn 7 (g_regions (t_gran t)) = [(2, 2); (5, 1); (1, 1); (3, 1); (5, 1); (5, 1); (0, 0)] /\
  conflict 2 5 = true /\ conflict 4 5 = true /\ conflict 1 3 = true.
Proof.
  split; [apply (c09_cfg 1024 10); [reflexivity|lia]|].
  split; [apply c09_ops_ok|]. split; [apply c09_ops_ok|]. vm_compute. repeat split; reflexivity.
Qed.

(* granularity 64 (rounding only): the optimal image got a whole page (64 bytes at 128) *)
Example C09_nonvacuous_low :
  cfg_ok 64 16384 /\
  let t := run (tlsf_init HVam 64 16384) c09_ops in
  spans_of t = [(0, 40, 2); (128, 64, 5); (192, 300, 4); (512, 64, 1); (576, 704, 3); (1280, 2048, 5)] /\
  g_regions (t_gran t) = [].
Proof.
  split; [apply (c09_cfg 64 6); [reflexivity|lia]|]. vm_compute. split; reflexivity.
Qed.

(* granularity 1: nothing is rounded, blocks are packed *)
Example C09_nonvacuous_one :
  cfg_ok 1 16384 /\
  let t := run (tlsf_init HVam 1 16384) c09_ops in
  spans_of t = [(0, 40, 2); (100, 50, 5); (192, 300, 4); (492, 10, 1); (504, 700, 3); (1208, 2000, 5)].
Proof.
  split; [apply (c09_cfg 1 0); [reflexivity|lia]|]. vm_compute. reflexivity.
Qed.

(* ------------------------------------------------------------------ why op_kind_ok is there *)

(* With an integer outside the enum as first occupant of a page the model lets a buffer and an
   optimal image follow on the same page (7 conflicts with neither).  Model only: Go's
   suballocationType has no such value. *)
Theorem C09_kinds_outside_enum_refuted :
  exists gr size ops,
    cfg_ok gr size /\ 1 <= gr <= 65536 /\ Forall op_ok ops /\
    let t := run (tlsf_init HVam gr size) ops in
    exists a b, In a (live t) /\ In b (live t) /\ a <> b /\
                conflict (b_kind a) (b_kind b) = true /\
                b_off a / gr = b_off b / gr.
Proof.
  exists 1024, 4096,
    [ OAlloc 100 1 7 0 false M None; OAlloc 100 1 2 0 false M None; OAlloc 100 1 5 0 false M None ].
  split; [split; [lia|exists 10; split; [lia|reflexivity]]|]. split; [lia|].
  split; [repeat constructor; exists 0; split; try lia; reflexivity|].
  exists (mkBlk 100 100 false None 2 100 1), (mkBlk 200 100 false None 5 100 1).
  vm_compute. repeat split; auto; try discriminate.
Qed.

(* ================================================================== the linear algorithm *)

(* Linear half (block model Linear.v; the linear metadata only ever calls AllocationsConflict and
   does its own page scans): for every power-of-two granularity (no upper bound needed: there is
   no counter), every block size, every history of allocations at the lower end, at the upper end
   (double stack) and wrapped around (ring buffer), frees of live handles, user-data changes and
   Clear — ops_ok: each operation is admissible in the state it is applied to, i.e. alignments are
   powers of two and Free is called with the handle of a live allocation (LinearStep.op_ok) — two
   different live items whose types conflict have no byte on a common page.  No restriction on
   the type values here: every neighbour on the page is compared with the new item directly. *)
Module Lin.
Import Linear LinearInv LinearStep GranLinear.

Theorem C09_linear : forall gr size ops,
  0 <= size -> pow2 gr -> ops_ok (linear_init HVam gr size) ops ->
  let l := lrun (linear_init HVam gr size) ops in
  forall x y, In x (live l) -> In y (live l) -> x <> y ->
    conflict (s_type x) (s_type y) = true ->
    forall a b, s_off x <= a < s_off x + s_size x -> s_off y <= b < s_off y + s_size y ->
                a / gr <> b / gr.
Proof. exact linear_gran. Qed.
Print Assumptions C09_linear.

Definition spans_of (l : linear) : list (Z * Z * Z) := map (fun b => (s_off b, s_size b, s_type b)) (live l).

Ltac p2 k := exists k; split; [lia|reflexivity].

(* lower and upper (double stack) placements, granularity 1024: the optimal image is pushed from
   100 to the next page; the second upper item (optimal image) is pushed down from 15964 to 14336
   because the linear image above it starts on the page where it would have ended *)
Definition c09_lin_ops1 : list op :=
  [ OAlloc 100 16 2 0 false 0 (Some 1);
    OAlloc 50 1 5 0 false 0 (Some 2);
    OAlloc 300 64 4 0 true 0 (Some 3);
    OAlloc 100 1 5 0 true 0 (Some 4);
    OAlloc 10 1 1 0 false 0 (Some 5);
    OAlloc 10 1 2 0 false 0 (Some 6);
    OSetUD 1025 (Some 9) ].

Example C09_linear_nonvacuous_double :
  pow2 1024 /\ ops_ok (linear_init HVam 1024 16384) c09_lin_ops1 /\
  let l := lrun (linear_init HVam 1024 16384) c09_lin_ops1 in
  spans_of l = [(0, 100, 2); (1024, 50, 5); (2048, 10, 1); (3072, 10, 2); (16064, 300, 4); (14336, 100, 5)] /\
  l_mode l = MDouble.
Proof.
  split; [p2 10|]. split.
  - cbn [ops_ok c09_lin_ops1 op_ok]. repeat split; try p2 4; try p2 0; try p2 6.
  - vm_compute. split; reflexivity.
Qed.

(* ring buffer, granularity 1024: after the first item is freed the next allocations wrap around to
   offset 0; the optimal image is pushed from 100 to 1024, the last buffer from 1124 to 2048 (it may
   share page 2 with the buffer at 3000) *)
Definition c09_lin_ops2 : list op :=
  [ OAlloc 3000 16 2 0 false 0 (Some 1);
    OAlloc 3000 1 2 0 false 0 (Some 2);
    OAlloc 2000 1 5 0 false 0 (Some 3);
    OFree 1;
    OAlloc 100 4 4 0 false 0 (Some 4);
    OAlloc 100 4 5 0 false 0 (Some 5);
    OAlloc 900 4 2 0 false 0 (Some 6) ].

Example C09_linear_nonvacuous_ring :
  ops_ok (linear_init HVam 1024 8192) c09_lin_ops2 /\
  let l := lrun (linear_init HVam 1024 8192) c09_lin_ops2 in
  spans_of l = [(3000, 3000, 2); (6144, 2000, 5); (0, 100, 4); (1024, 100, 5); (2048, 900, 2)] /\
  l_mode l = MRing.
Proof.
  split.
  - cbn [ops_ok c09_lin_ops2 op_ok]. repeat split; try p2 4; try p2 0; try p2 2.
    vm_compute. eexists. split; [left; reflexivity|reflexivity].
  - vm_compute. split; reflexivity.
Qed.
End Lin.

(* ---------------------------------------------------------------- second tie: translated code
   GenLeaf.v is REGENERATED from /repo's Go source on every run (tools/go2coq, explicit Go integer
   semantics GoSem.v); the theorems below say that the generated definitions equal the model's
   functions on the stated ranges, so an edit of these Go functions breaks an obligation of this file. *)
From Arsenal Require GoSem GenLeaf GenLeafProofs.

Theorem C09_code_AllocationsConflict : forall a b, GenLeaf.AllocationsConflict a b = Gran.conflict a b.
Proof. exact GenLeafProofs.gen_AllocationsConflict_eq. Qed.
Print Assumptions C09_code_AllocationsConflict.

Theorem C09_code_RoundUpAllocRequest : forall gr regs atype size align,
  0 <= gr < 2 ^ 63 -> -2 ^ 63 < size + gr <= 2 ^ 63 ->
  GenLeaf.RoundUpAllocRequest gr atype size align = Gran.round_up (Gran.mkGran Gran.HVam gr regs) atype size align.
Proof. exact GenLeafProofs.gen_RoundUpAllocRequest_eq. Qed.
Print Assumptions C09_code_RoundUpAllocRequest.

Theorem C09_code_IsEnabled : forall gr regs, GenLeaf.IsEnabled gr = Gran.enabled (Gran.mkGran Gran.HVam gr regs).
Proof. exact GenLeafProofs.gen_IsEnabled_eq. Qed.
Print Assumptions C09_code_IsEnabled.

Theorem C09_code_getStartSlot : forall h gr regs off, 1 <= gr <= 2 ^ 63 ->
  GenLeaf.getStartSlot gr off = GoSem.Ret (Gran.start_slot (Gran.mkGran h gr regs) off).
Proof. exact GenLeafProofs.gen_getStartSlot_eq. Qed.
Print Assumptions C09_code_getStartSlot.

Theorem C09_code_getEndSlot : forall h gr regs off size,
  1 <= gr <= 2 ^ 63 -> -2 ^ 63 <= size < 2 ^ 63 -> -2 ^ 63 < off + size <= 2 ^ 63 ->
  GenLeaf.getEndSlot gr off size = GoSem.Ret (Gran.end_slot (Gran.mkGran h gr regs) off size).
Proof. exact GenLeafProofs.gen_getEndSlot_eq. Qed.
Print Assumptions C09_code_getEndSlot.

Theorem C09_code_blocksOnSamePage : forall off1 size1 off2 pagesize,
  -2 ^ 63 < off1 + size1 < 2 ^ 63 -> -2 ^ 63 < pagesize <= 2 ^ 63 ->
  GenLeaf.blocksOnSamePage off1 size1 off2 pagesize
  = GenLeafProofs.page_outcome (Linear.blocks_on_same_page off1 size1 off2 pagesize).
Proof. exact GenLeafProofs.gen_blocksOnSamePage_eq. Qed.
Print Assumptions C09_code_blocksOnSamePage.
