(* C05 — The free-space search is complete: a refusal means there is no room.
   TLSF.  For every block size 1 <= size < 2^39, granularity a power of two, either handler and
   every finite history with power-of-two alignments:
   - size classes are monotone in the size and sizeForNextList moves exactly one list up;
   - the two-level bitmap scan (findFreeBlock) never panics and returns the LOWEST non-empty free
     list at or after the list of the requested size (or reports that all of them are empty);
   - if CreateAllocationRequest refuses (any of the four strategy paths MinTime, MinMemory,
     MinOffset, default), then EVERY free region of the block — every free chain block and the
     null block — fails the code's own fit test checkBlock for the rounded size and alignment and
     that maxOffset; for a disabled granularity handler that test fails exactly when the region
     cannot hold the bytes at a multiple of the alignment below maxOffset, so for the accept-all
     handler a refusal means there is no room at all;
   - MayHaveFreeBlock = false implies the request is refused for every alignment and strategy;
   - with MinOffset alone the granted offset is the lowest offset checkBlock grants in any region;
   - a granted offset is always below maxOffset. *)
From Coq Require Import ZArith NArith List Lia.
From Arsenal Require Import Util Bits Gran Tlsf TlsfStep TlsfProps SizeClass TlsfInv2 TlsfSearch TlsfStep2 TlsfProps2.
Import ListNotations.
Open Scope Z_scope.

Theorem C05_list_of_size_mono : forall s1 s2, 1 <= s1 <= s2 -> list_of_size s1 <= list_of_size s2.
Proof. exact list_of_size_mono. Qed.
Print Assumptions C05_list_of_size_mono.

Theorem C05_next_list_exact : forall s, 1 <= s -> list_of_size (size_for_next_list s) = list_of_size s + 1.
Proof. exact next_list_exact. Qed.
Print Assumptions C05_next_list_exact.

Theorem C05_find_free_block : forall h gr size ops,
  cfg2_ok gr size -> Forall op_ok ops ->
  let t := run (tlsf_init h gr size) ops in
  forall sz, 1 <= sz < 2 ^ 41 ->
    match find_free_block t sz with
    | FFPanic => False
    | FFList idx => list_of_size sz <= idx /\ list_at t idx <> [] /\
                    (forall i, list_of_size sz <= i < idx -> list_at t i = [])
    | FFNone => forall i, list_of_size sz <= i -> list_at t i = []
    end.
Proof. exact tlsf_reach_find_free_block. Qed.
Print Assumptions C05_find_free_block.

Theorem C05_request_complete : forall h gr size ops,
  cfg2_ok gr size -> Forall op_ok ops ->
  let t := run (tlsf_init h gr size) ops in
  forall sz align ty strat mo,
    pow2 align -> create_request t sz align false ty strat mo = QRefused ->
    forall f li, free_region t f ->
      check_block t f li (fst (round_up (t_gran t) ty sz align)) (snd (round_up (t_gran t) ty sz align)) ty mo = CBFail.
Proof. exact tlsf_reach_request_complete. Qed.
Print Assumptions C05_request_complete.

Theorem C05_check_block_semantic : forall h gr size ops,
  cfg2_ok gr size -> Forall op_ok ops ->
  let t := run (tlsf_init h gr size) ops in
  forall b li a al ty mo,
    enabled (t_gran t) = false -> pow2 al -> free_region t b ->
    (check_block t b li a al ty mo = CBFail <->
     ~ exists off, b_off b <= off /\ off mod al = 0 /\ off + a <= b_off b + b_size b /\ off < mo).
Proof. exact tlsf_reach_check_block_semantic. Qed.
Print Assumptions C05_check_block_semantic.

Theorem C05_fake_refusal_means_no_room : forall gr size ops sz align ty strat mo,
  cfg2_ok gr size -> Forall op_ok ops -> pow2 align ->
  let t := run (tlsf_init HFake gr size) ops in
  create_request t sz align false ty strat mo = QRefused ->
  forall f, free_region t f ->
    ~ exists off, b_off f <= off /\ off mod align = 0 /\ off + sz <= b_off f + b_size f /\ off < mo.
Proof. exact tlsf_fake_refusal_means_no_room. Qed.
Print Assumptions C05_fake_refusal_means_no_room.

Theorem C05_may_have_sound : forall h gr size ops,
  cfg2_ok gr size -> Forall op_ok ops ->
  let t := run (tlsf_init h gr size) ops in
  forall ty sz align strat mo,
    pow2 align -> may_have_free t ty sz = false -> create_request t sz align false ty strat mo = QRefused.
Proof. exact tlsf_reach_may_have_sound. Qed.
Print Assumptions C05_may_have_sound.

Theorem C05_min_offset_lowest : forall h gr size ops,
  cfg2_ok gr size -> Forall op_ok ops ->
  let t := run (tlsf_init h gr size) ops in
  forall sz align ty strat mo t' r,
    pow2 align -> Z.testbit strat 2 = true -> Z.testbit strat 1 = false -> Z.testbit strat 0 = false ->
    create_request t sz align false ty strat mo = QGranted t' r ->
    forall f li t'' r'', free_region t f ->
      check_block t f li (fst (round_up (t_gran t) ty sz align)) (snd (round_up (t_gran t) ty sz align)) ty mo
      = CBOk t'' r'' ->
      rq_offset r <= rq_offset r''.
Proof. exact tlsf_reach_min_offset_lowest. Qed.
Print Assumptions C05_min_offset_lowest.

Theorem C05_bounded_below_bound : forall t size0 align0 upper ty strat mo t' r,
  create_request t size0 align0 upper ty strat mo = QGranted t' r -> rq_offset r < mo.
Proof. exact bounded_below_bound. Qed.
Print Assumptions C05_bounded_below_bound.

(* non-vacuity: after TlsfProps.ex_ops the 4096-byte block (granularity 1024, vam handler) has three
   free regions (88 bytes at 40, 596 at 428, the null block 3022 at 1074; 3706 free bytes in all);
   3600 bytes are refused; a 3000-byte buffer is refused too although the null block has 3022
   bytes, because its first page also holds an optimal-tiling image; MayHaveFreeBlock says no
   for 3700; MinOffset places 30 bytes at the lowest free offset 40 *)
Definition ex_t : tlsf := run (tlsf_init HVam 1024 4096) ex_ops.

Lemma ex_cfg2_ok : cfg2_ok 1024 4096.
Proof. split; [lia|exists 10; split; [lia|reflexivity]]. Qed.

Example C05_nonvacuous :
  cfg2_ok 1024 4096 /\ Forall op_ok ex_ops /\
  map (fun b => (b_off b, b_size b)) (filter b_free (regions ex_t)) = [(40, 88); (428, 596); (1074, 3022)] /\
  create_request ex_t 3600 1 false 2 0 4611686018427387904 = QRefused /\
  create_request ex_t 3000 1 false 2 0 4611686018427387904 = QRefused /\
  may_have_free ex_t 2 3700 = false /\
  (exists t' r, create_request ex_t 30 1 false 2 4 4611686018427387904 = QGranted t' r /\ rq_offset r = 40).
Proof.
  split; [exact ex_cfg2_ok|]. split; [exact ex_ops_ok|].
  split; [vm_compute; reflexivity|]. split; [vm_compute; reflexivity|].
  split; [vm_compute; reflexivity|]. split; [vm_compute; reflexivity|].
  vm_compute. eexists _, _. split; reflexivity.
Qed.

(* ---------------------------------------------------------------- second tie: translated code
   GenLeaf.v is REGENERATED from /repo's Go source on every run (tools/go2coq, explicit Go integer
   semantics GoSem.v); the theorems below say that the generated definitions equal the model's
   functions on the stated ranges, so an edit of these Go functions breaks an obligation of this file. *)
From Arsenal Require GoSem GenLeaf GenLeafProofs.

Theorem C05_code_sizeToMemoryClass : forall s, -2 ^ 63 <= s < 2 ^ 63 -> GenLeaf.sizeToMemoryClass s = Tlsf.size_to_class s.
Proof. exact GenLeafProofs.gen_sizeToMemoryClass_eq. Qed.
Print Assumptions C05_code_sizeToMemoryClass.

Theorem C05_code_sizeToSecondIndex : forall s mc, 0 <= s < 2 ^ 63 -> 0 <= mc <= 248 -> (mc = 0 -> s <= 2 ^ 22) ->
  GenLeaf.sizeToSecondIndex s mc = Tlsf.size_to_sli s mc.
Proof. exact GenLeafProofs.gen_sizeToSecondIndex_eq. Qed.
Print Assumptions C05_code_sizeToSecondIndex.

Theorem C05_code_getListIndex : forall mc sli, 0 <= mc < 256 -> 0 <= sli < 65536 -> GenLeaf.getListIndex mc sli = Tlsf.list_index mc sli.
Proof. exact GenLeafProofs.gen_getListIndex_eq. Qed.
Print Assumptions C05_code_getListIndex.

Theorem C05_code_getListIndexFromSize : forall s, 0 <= s < 2 ^ 63 -> GenLeaf.getListIndexFromSize s = Tlsf.list_of_size s.
Proof. exact GenLeafProofs.gen_getListIndexFromSize_eq. Qed.
Print Assumptions C05_code_getListIndexFromSize.

Theorem C05_code_sizeForNextList : forall s, -2 ^ 63 <= s < 2 ^ 62 -> GenLeaf.sizeForNextList s = GoSem.Ret (Tlsf.size_for_next_list s).
Proof. exact GenLeafProofs.gen_sizeForNextList_eq. Qed.
Print Assumptions C05_code_sizeForNextList.
