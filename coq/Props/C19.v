(* C19 — Memory type selection honours masks, required flags and stated preferences.
   Restatements of the main theorems of SelectProofs.v (model: Select.v), each followed by
   Print Assumptions (must print "Closed under the global context"), then non-vacuity examples. *)
From Coq Require Import NArith ZArith List Bool Sorted.
From Arsenal Require Import Select SelectProofs.
Import ListNotations.
Local Open Scope N_scope.

(* ---- the chosen type is permitted by the caller's and the device's type masks *)
Theorem C19_chosen_permitted d rq typeBits bufimg j :
  select d rq typeBits bufimg = Some j ->
  exists f, type_flags d j = Some f /\
    N.testbit typeBits (N.of_nat j) = true /\
    (rq.(r_ctb) <> 0 -> N.testbit rq.(r_ctb) (N.of_nat j) = true) /\
    (N.testbit f 6 = true -> d.(d_amd) = true).
Proof. exact (chosen_permitted d rq typeBits bufimg j). Qed.
Print Assumptions C19_chosen_permitted.

(* ---- it has every required property (incl. host-visible and lazily-allocated cases) *)
Theorem C19_chosen_has_required d rq typeBits bufimg j :
  select d rq typeBits bufimg = Some j ->
  exists f, type_flags d j = Some f /\
    N.land (required_of d rq bufimg) f = required_of d rq bufimg /\
    N.land rq.(r_req) f = rq.(r_req) /\
    (rq.(r_usage) = USAGE_LAZY -> N.testbit f 4 = true) /\
    (needs_host_visible d rq bufimg = true -> N.testbit f 1 = true) /\
    (is_auto rq.(r_usage) = true -> host_access rq = true ->
     N.testbit rq.(r_flags) ACF_ALLOW_TRANSFER_BIT = false -> N.testbit f 1 = true).
Proof. exact (chosen_has_required d rq typeBits bufimg j). Qed.
Print Assumptions C19_chosen_has_required.

(* the required set is exactly: caller's flags, + lazily-allocated / host-visible where the usage demands *)
Theorem C19_required_of_eq d rq bufimg :
  required_of d rq bufimg =
  N.lor rq.(r_req)
        (if rq.(r_usage) =? USAGE_LAZY then LAZILY_ALLOCATED
         else if needs_host_visible d rq bufimg then HOST_VISIBLE else 0).
Proof. exact (required_of_eq d rq bufimg). Qed.
Print Assumptions C19_required_of_eq.

(* ---- "feature not present" exactly when no permitted type has the required properties *)
Theorem C19_none_iff_no_eligible d rq typeBits bufimg :
  select d rq typeBits bufimg = None <->
  forall k f, type_flags d k = Some f -> permitted d rq typeBits k f ->
              N.land (required_of d rq bufimg) f <> required_of d rq bufimg.
Proof. exact (none_iff_no_eligible d rq typeBits bufimg). Qed.
Print Assumptions C19_none_iff_no_eligible.

(* ---- no usage mode: minimal number of missed preferred properties, lowest index on ties *)
Theorem C19_unknown_usage_min_cost_lowest_index d rq typeBits bufimg j fj :
  rq.(r_usage) = USAGE_UNKNOWN ->
  select d rq typeBits bufimg = Some j -> type_flags d j = Some fj ->
  forall k fk, type_flags d k = Some fk -> permitted d rq typeBits k fk ->
    N.land rq.(r_req) fk = rq.(r_req) ->
    (total_misses rq fj < total_misses rq fk)%nat \/
    (total_misses rq fj = total_misses rq fk /\ (j <= k)%nat).
Proof. exact (unknown_usage_min_cost_lowest_index d rq typeBits bufimg j fj). Qed.
Print Assumptions C19_unknown_usage_min_cost_lowest_index.

(* ---- automatic usage, no host access, no explicit preferences: device-local is chosen *)
Theorem C19_auto_prefers_device_local d rq typeBits bufimg j fj :
  rq.(r_usage) = USAGE_AUTO \/ rq.(r_usage) = USAGE_AUTO_DEVICE ->
  host_access rq = false -> rq.(r_pref) = 0 ->
  select d rq typeBits bufimg = Some j -> type_flags d j = Some fj ->
  (exists k fk, type_flags d k = Some fk /\ permitted d rq typeBits k fk /\
                N.land rq.(r_req) fk = rq.(r_req) /\
                N.testbit fk 0 = true /\ (N.testbit fk 7 = true -> asked_amd rq = true)) ->
  N.testbit fj 0 = true /\ (N.testbit fj 7 = true -> asked_amd rq = true).
Proof. exact (auto_prefers_device_local d rq typeBits bufimg j fj). Qed.
Print Assumptions C19_auto_prefers_device_local.

(* ---- host-preferring dual *)
Theorem C19_auto_host_prefers_non_device_local d rq typeBits bufimg j fj :
  rq.(r_usage) = USAGE_AUTO_HOST ->
  host_access rq = false -> rq.(r_pref) = 0 ->
  select d rq typeBits bufimg = Some j -> type_flags d j = Some fj ->
  (exists k fk, type_flags d k = Some fk /\ permitted d rq typeBits k fk /\
                N.land rq.(r_req) fk = rq.(r_req) /\
                N.testbit fk 0 = false /\ (N.testbit fk 7 = true -> asked_amd rq = true)) ->
  N.testbit fj 0 = false /\ (N.testbit fj 7 = true -> asked_amd rq = true).
Proof. exact (auto_host_prefers_non_device_local d rq typeBits bufimg j fj). Qed.
Print Assumptions C19_auto_host_prefers_non_device_local.

(* ---- fallback: remaining eligible types are tried before the request fails *)
Theorem C19_fallback_tries_all_eligible d rq typeBits bufimg attempt t r :
  params_invalid rq.(r_usage) rq.(r_flags) = false ->
  allocate d rq typeBits bufimg attempt = (t, r) ->
  r <> RFuel /\
  (forall k, In k t -> eligible_type d rq typeBits bufimg k) /\
  StronglySorted (better d rq bufimg) t /\
  (forall j, r = ROk j ->
     exists pre, t = pre ++ [j] /\ attempt j = 0%Z /\ forall k, In k pre -> retryable (attempt k)) /\
  (forall code, r = RErr code ->
     (t = [] /\ code = VK_FEATURE_NOT_PRESENT /\ forall k, ~ eligible_type d rq typeBits bufimg k) \/
     (exists pre l, t = pre ++ [l] /\ attempt l = code /\ code <> 0%Z /\
        (forall k, In k pre -> retryable (attempt k)) /\
        (code <> VK_UNKNOWN -> forall k, eligible_type d rq typeBits bufimg k -> In k t))).
Proof. exact (fallback_tries_all_eligible d rq typeBits bufimg attempt t r). Qed.
Print Assumptions C19_fallback_tries_all_eligible.

Theorem C19_fallback_order d rq typeBits bufimg attempt t r :
  params_invalid rq.(r_usage) rq.(r_flags) = false ->
  allocate d rq typeBits bufimg attempt = (t, r) ->
  NoDup t /\ StronglySorted (fun a b => (cost_of d rq bufimg a <= cost_of d rq bufimg b)%nat) t.
Proof. exact (fallback_order d rq typeBits bufimg attempt t r). Qed.
Print Assumptions C19_fallback_order.

Theorem C19_oom_only_after_all_tried d rq typeBits bufimg attempt t :
  params_invalid rq.(r_usage) rq.(r_flags) = false ->
  allocate d rq typeBits bufimg attempt = (t, RErr VK_OOM) ->
  forall k, eligible_type d rq typeBits bufimg k -> In k t /\ attempt k <> 0%Z.
Proof. exact (oom_only_after_all_tried d rq typeBits bufimg attempt t). Qed.
Print Assumptions C19_oom_only_after_all_tried.

(* ------------------------------------------------------------------ non-vacuity *)

(* a discrete GPU with the AMD extension disabled:
     0 DEVICE_LOCAL                      1 HOST_VISIBLE|HOST_COHERENT          2 HOST_VISIBLE|COHERENT|CACHED
     3 DEVICE_LOCAL|HOST_VISIBLE|COHERENT 4 DEVICE_LOCAL|LAZILY_ALLOCATED
     5 DEVICE_LOCAL|DEVICE_COHERENT|DEVICE_UNCACHED (excluded from the global mask)
     6 DEVICE_LOCAL|DEVICE_UNCACHED       7 DEVICE_LOCAL (duplicate of 0) *)
Definition ex_dev : device :=
  {| d_integrated := false; d_amd := false; d_types := [1; 6; 14; 7; 17; 193; 129; 1] |}.
Definition ex_rq (usage aflags req pref ctb : N) : request :=
  {| r_usage := usage; r_flags := aflags; r_req := req; r_pref := pref; r_ctb := ctb |}.

Ltac perm := repeat split; try reflexivity; try (intros Hx; try discriminate Hx; exfalso; apply Hx; reflexivity).

(* chosen_permitted / chosen_has_required: a selection that succeeds, with a non-trivial caller mask *)
Example ex_select_some : select ex_dev (ex_rq USAGE_UNKNOWN 0 HOST_VISIBLE HOST_CACHED 14) 255 None = Some 2%nat.
Proof. vm_compute. reflexivity. Qed.

(* lazily-allocated usage *)
Example ex_select_lazy : select ex_dev (ex_rq USAGE_LAZY 0 0 0 0) 255 None = Some 4%nat.
Proof. vm_compute. reflexivity. Qed.

(* automatic usage with sequential-write host access and no transfer fallback: host-visible is required *)
Example ex_select_auto_host_access :
  let rq := ex_rq USAGE_AUTO 128 0 0 0 in
  is_auto rq.(r_usage) = true /\ host_access rq = true /\
  N.testbit rq.(r_flags) ACF_ALLOW_TRANSFER_BIT = false /\
  needs_host_visible ex_dev rq (Some 128) = true /\
  select ex_dev rq 255 (Some 128) = Some 3%nat.
Proof. vm_compute. repeat split; reflexivity. Qed.

(* none_iff_no_eligible: both sides are inhabited *)
Example ex_select_none : select ex_dev (ex_rq USAGE_UNKNOWN 0 PROTECTED 0 0) 255 None = None.
Proof. vm_compute. reflexivity. Qed.
Example ex_select_none_masked : select ex_dev (ex_rq USAGE_UNKNOWN 0 DEVICE_COHERENT_AMD 0 0) 255 None = None.
Proof. vm_compute. reflexivity. Qed.

(* unknown usage: hypotheses satisfiable, with a competing eligible type of equal cost and higher index *)
Example ex_unknown_usage :
  let rq := ex_rq USAGE_UNKNOWN 0 DEVICE_LOCAL HOST_VISIBLE 0 in
  rq.(r_usage) = USAGE_UNKNOWN /\
  select ex_dev rq 255 None = Some 3%nat /\ type_flags ex_dev 3 = Some 7 /\
  type_flags ex_dev 6 = Some 129 /\ permitted ex_dev rq 255 6 129 /\
  N.land rq.(r_req) 129 = rq.(r_req) /\
  total_misses rq 7 = 0%nat /\ total_misses rq 129 = 2%nat.
Proof. cbv zeta. split; [reflexivity|]. split; [vm_compute; reflexivity|]. perm. Qed.

(* automatic usage without host access: an eligible non-uncached device-local type exists, and is chosen
   although the caller's mask excludes types 0 and 3 *)
Example ex_auto_device_local :
  let rq := ex_rq USAGE_AUTO 0 0 0 0 in
  (rq.(r_usage) = USAGE_AUTO \/ rq.(r_usage) = USAGE_AUTO_DEVICE) /\
  host_access rq = false /\ rq.(r_pref) = 0 /\
  select ex_dev rq 246 None = Some 4%nat /\ type_flags ex_dev 4 = Some 17 /\
  (exists k fk, type_flags ex_dev k = Some fk /\ permitted ex_dev rq 246 k fk /\
                N.land rq.(r_req) fk = rq.(r_req) /\
                N.testbit fk 0 = true /\ (N.testbit fk 7 = true -> asked_amd rq = true)).
Proof.
  cbv zeta. split; [now left|]. split; [reflexivity|]. split; [reflexivity|].
  split; [vm_compute; reflexivity|]. split; [reflexivity|].
  exists 7%nat, 1. perm.
Qed.

(* host-preferring dual *)
Example ex_auto_host :
  let rq := ex_rq USAGE_AUTO_HOST 0 0 0 0 in
  rq.(r_usage) = USAGE_AUTO_HOST /\ host_access rq = false /\ rq.(r_pref) = 0 /\
  select ex_dev rq 255 None = Some 1%nat /\ type_flags ex_dev 1 = Some 6 /\
  (exists k fk, type_flags ex_dev k = Some fk /\ permitted ex_dev rq 255 k fk /\
                N.land rq.(r_req) fk = rq.(r_req) /\
                N.testbit fk 0 = false /\ (N.testbit fk 7 = true -> asked_amd rq = true)).
Proof.
  cbv zeta. split; [reflexivity|]. split; [reflexivity|]. split; [reflexivity|].
  split; [vm_compute; reflexivity|]. split; [reflexivity|].
  exists 2%nat, 14. perm.
Qed.

(* fallback: all host-visible types are out of memory -> every eligible type is tried, in cost order
   (cost 0: type 2; cost 1: types 1 and 3), then the request fails with out-of-device-memory *)
Example ex_fallback_all_oom :
  let rq := ex_rq USAGE_UNKNOWN 0 HOST_VISIBLE HOST_CACHED 0 in
  params_invalid rq.(r_usage) rq.(r_flags) = false /\
  allocate ex_dev rq 255 None (mask_oracle 255 VK_OOM) = ([2; 1; 3]%nat, RErr VK_OOM).
Proof. vm_compute. split; reflexivity. Qed.

(* fallback: the second choice succeeds *)
Example ex_fallback_second :
  let rq := ex_rq USAGE_AUTO_DEVICE 0 0 0 0 in
  params_invalid rq.(r_usage) rq.(r_flags) = false /\
  allocate ex_dev rq 255 None (mask_oracle 1 VK_OOM) = ([0; 3]%nat, ROk 3%nat).
Proof. vm_compute. split; reflexivity. Qed.

(* VK_ERROR_UNKNOWN aborts the loop: this is why the "all eligible types tried" clause excludes it *)
Example ex_fallback_unknown_aborts :
  let rq := ex_rq USAGE_UNKNOWN 0 HOST_VISIBLE HOST_CACHED 0 in
  allocate ex_dev rq 255 None (mask_oracle 255 VK_UNKNOWN) = ([2]%nat, RErr VK_UNKNOWN).
Proof. vm_compute. reflexivity. Qed.

(* nothing eligible: FeatureNotPresent without any attempt *)
Example ex_fallback_none :
  allocate ex_dev (ex_rq USAGE_UNKNOWN 0 PROTECTED 0 0) 255 None (mask_oracle 0 VK_OOM)
  = ([], RErr VK_FEATURE_NOT_PRESENT).
Proof. vm_compute. reflexivity. Qed.

(* ---------------------------------------------------------------- second tie: translated code
   GenLeaf.v is REGENERATED from /repo's Go source on every run (tools/go2coq, explicit Go integer
   semantics GoSem.v); the theorems below say that the generated definitions equal the model's
   functions on the stated ranges, so an edit of these Go functions breaks an obligation of this file. *)
From Arsenal Require GoSem GenLeaf GenLeafProofs2.
Local Open Scope Z_scope.

(* vam/allocator.go findMemoryPreferences: usage, creation flags, required / preferred flags, buffer-or-image
   usage -> (required, preferred, notPreferred); the Vulkan flag constants are read from the vendored headers *)
Theorem C19_code_findMemoryPreferences : forall d rq bufimg,
  (forall u, bufimg = Some u -> (u < 2 ^ 32)%N) ->
  GenLeaf.findMemoryPreferences (d_integrated d) (Z.of_N (r_usage rq)) (Z.of_N (r_flags rq))
      (Z.of_N (r_req rq)) (Z.of_N (r_pref rq)) (GenLeafProofs2.bufimg_has bufimg) (GenLeafProofs2.bufimg_val bufimg)
  = GenLeafProofs2.triple_of_N (prefs_of d rq bufimg).
Proof. exact GenLeafProofs2.gen_findMemoryPreferences_eq. Qed.
Print Assumptions C19_code_findMemoryPreferences.

(* vam/allocator.go findMemoryTypeIndex incl. its loop over the memory type table (any length): the index it
   returns (or FeatureNotPresent) is the model's `select`; the loop neither panics nor diverges *)
Theorem C19_code_findMemoryTypeIndex : forall d rq typeBits bufimg,
  (forall u, bufimg = Some u -> (u < 2 ^ 32)%N) ->
  (r_req rq < 2 ^ 32)%N -> (r_pref rq < 2 ^ 32)%N -> (typeBits < 2 ^ 32)%N ->
  Forall (fun f => (f < 2 ^ 32)%N) (d_types d) -> Z.of_nat (length (d_types d)) < 2 ^ 62 ->
  GenLeaf.findMemoryTypeIndex (Z.of_N (global_bits (d_amd d) (d_types d))) (d_integrated d)
      (Z.of_N (r_usage rq)) (Z.of_N (r_flags rq)) (Z.of_N (r_req rq)) (Z.of_N (r_pref rq))
      (GenLeafProofs2.bufimg_has bufimg) (GenLeafProofs2.bufimg_val bufimg) (Z.of_N (r_ctb rq))
      (map Z.of_N (d_types d)) (Z.of_N typeBits)
  = GenLeafProofs2.found_outcome (select d rq typeBits bufimg).
Proof. exact GenLeafProofs2.gen_findMemoryTypeIndex_select. Qed.
Print Assumptions C19_code_findMemoryTypeIndex.
