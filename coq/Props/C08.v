From Coq Require Import ZArith List Bool Lia.
From Arsenal Require Import Util.
From Arsenal Require VamDev VamBlockList Vam VamInv VamInvThm VamAcctThm VamMap VamMapThm VamDefrag VamDefragThm VamDefragAcct VamDefragMap VamHvThm VamDefragHv VamFlush VamFlushThm VamBindCreate VamAllocArgs VamValidUsage.
From Arsenal Require Import SyncMem SyncMemProofs.
Import ListNotations.
Open Scope Z_scope.
(* C08 — The allocator only issues driver calls that satisfy Vulkan valid usage.
   Component theorem (mapping state machine, vam/internal/vulkan/sync_memory.go as repaired):
   for EVERY sequence of Map / Unmap / RecordSuballocSubfree / FreeMemory calls that respects the
   API domain (no use after free, Unmap only of outstanding references) the driver calls made
   (vkMapMemory, vkUnmapMemory, vkFreeMemory) are accepted by the device automaton: never map
   mapped memory, never unmap unmapped memory, free once; and the device is mapped exactly when the
   block records references or holds the hysteresis mapping.  The remaining clauses of C08 (bind
   offsets, flush ranges, use after free across block lists and defragmentation) are decided by
   the whole-allocator exploration (vamh) against the simulated device's valid-usage checker. *)

Theorem C08_map_unmap_free_calls_valid : forall ops,
  in_domain ops = true -> exists df, dev_run dev_init (trace ops) = Some df.
Proof. exact driver_calls_valid. Qed.
Print Assumptions C08_map_unmap_free_calls_valid.

Theorem C08_device_mapped_iff_referenced : forall ops,
  in_weak_domain ops = true ->
  exists df, dev_run dev_init (trace ops) = Some df /\
             (freed (final ops) = false ->
              d_alive df = true /\
              (d_mapped df = true <-> mapped (final ops) = true) /\
              (mapped (final ops) = true <-> (0 < mapRefs (final ops) \/ extra (final ops) = true))).
Proof. exact mapped_iff. Qed.
Print Assumptions C08_device_mapped_iff_referenced.

(* non-vacuity: a 31-operation history through the hysteresis threshold in both directions, a failed map and a free *)
Example C08_nonvacuous : in_domain ex_ops = true.
Proof. exact ex_in_domain. Qed.

(* ---------------------------------------------------------------- second tie: translated code
   GenLeaf.v is REGENERATED from /repo's Go source on every run (tools/go2coq, explicit Go integer
   semantics GoSem.v); the theorems below say that the generated definitions equal the model's
   functions on the stated ranges, so an edit of these Go functions breaks an obligation of this file. *)
From Arsenal Require GoSem GenLeaf GenLeafProofs.

Theorem C08_code_postMapUnmap : forall s,
  GenLeaf.postMapUnmap (SyncMem.delayCounter s) (SyncMem.statusCounter s) (SyncMem.extra s)
  = (snd (SyncMem.post_map_unmap s), SyncMem.delayCounter (fst (SyncMem.post_map_unmap s)),
     SyncMem.statusCounter (fst (SyncMem.post_map_unmap s)), SyncMem.extra (fst (SyncMem.post_map_unmap s)))
  /\ fst (SyncMem.post_map_unmap s)
     = SyncMem.set_extra (SyncMem.set_counters s (SyncMem.delayCounter (fst (SyncMem.post_map_unmap s))) (SyncMem.statusCounter (fst (SyncMem.post_map_unmap s))))
                 (SyncMem.extra (fst (SyncMem.post_map_unmap s))).
Proof. exact GenLeafProofs.gen_postMapUnmap_eq. Qed.
Print Assumptions C08_code_postMapUnmap.

(* ---------------------------------------------------------------- whole allocator (model Vam*.v)
   Every driver call the allocator issues during ANY API operation from ANY reachable state under ANY fault
   oracle is valid when it is issued: `replay ms calls ms'` says that the calls, oldest first, are accepted one
   by one by the device objects ms (vkMapMemory only on a live, unmapped object; vkUnmapMemory only on a live,
   mapped one; vkFreeMemory only on a live one: no double map, no unmap of unmapped memory, no use after free)
   and lead to ms'.  Not covered by this theorem (decided by the vamh exploration with the simulated device's
   valid-usage checker): host-visibility of mapped types, bind offsets and types, flush/invalidate ranges,
   defragmentation calls. *)
Module Allocator.
Import VamDev VamBlockList Vam VamInv VamInvThm VamAcctThm VamMap VamMapThm.

Theorem C08_allocator_driver_calls_valid : forall c v o f v' r calls,
  cfg_acct c -> reachA c v -> op_ok v o -> op_dom o -> step c v o f = (v', r, calls) ->
  r <> RPanic -> r <> RStuck -> replay (m_mems (v_m v)) calls (m_mems (v_m v')).
Proof. intros c v o f v' r calls Ha. exact (driver_calls_valid c Ha v o f v' r calls). Qed.
Print Assumptions C08_allocator_driver_calls_valid.

Theorem C08_allocator_each_call_valid : forall ms cs ms' pre k post,
  replay ms cs ms' -> cs = (pre ++ k :: post)%list -> exists ms1, replay ms pre ms1 /\ call_ok ms1 k.
Proof. intros ms cs ms' pre k post R. exact (replay_call ms cs ms' R pre k post). Qed.
Print Assumptions C08_allocator_each_call_valid.
(* the same for the defragmentation entry points (BeginDefragmentation, BeginDefragPass, EndDefragPass with any
   decisions, Finish) from every state of a history with defragmentation: the Map of a destination block for a
   persistently mapped source, the hysteresis Unmaps, the Frees of blocks emptied by completed moves. *)
Theorem C08_allocator_defrag_calls_valid : forall c v run o f v' run' r calls dr,
  cfg_acct c -> VamDefragAcct.reachDA c v run -> VamDefragThm.dop_ok v run o ->
  Vam.dstep c v run o f = (v', run', r, calls, dr) -> r <> RPanic -> r <> RStuck ->
  replay (m_mems (v_m v)) calls (m_mems (v_m v')).
Proof. intros c v run o f v' run' r calls dr Ha. exact (VamDefragMap.dstep_calls_valid c Ha v run o f v' run' r calls dr). Qed.
Print Assumptions C08_allocator_defrag_calls_valid.
(* never maps memory that is not host-visible: every vkMapMemory issued during any API operation (user Map /
   read-write only of allocations that live in host-visible memory: op_map_ok) or defragmentation operation,
   from any reachable state under any fault oracle, addresses an object whose memory type is HOST_VISIBLE (the
   object is looked up in the device state in which the call is issued); persistently mapped allocations live
   in host-visible memory. *)
Theorem C08_allocator_maps_only_host_visible : forall c v o f v' r calls,
  cfg_acct c -> reachA c v -> op_ok v o -> op_dom o -> VamHvThm.op_map_ok c v o ->
  step c v o f = (v', r, calls) -> r <> RPanic -> r <> RStuck -> VamHvThm.maps_hv c (m_mems (v_m v)) calls.
Proof. intros c v o f v' r calls Ha. exact (VamHvThm.maps_only_host_visible c Ha v o f v' r calls). Qed.
Print Assumptions C08_allocator_maps_only_host_visible.

Theorem C08_allocator_defrag_maps_host_visible : forall c v run o f v' run' r calls dr,
  cfg_acct c -> VamDefragAcct.reachDA c v run -> VamDefragThm.dop_ok v run o ->
  Vam.dstep c v run o f = (v', run', r, calls, dr) -> r <> RPanic -> r <> RStuck ->
  VamHvThm.maps_hv c (m_mems (v_m v)) calls.
Proof. intros c v run o f v' run' r calls dr Ha. exact (VamDefragHv.dstep_maps_host_visible c Ha v run o f v' run' r calls dr). Qed.
Print Assumptions C08_allocator_defrag_maps_host_visible.
(* Flush / Invalidate of any allocation in any reachable state never panics and issues at most one call, whose
   range lies inside the live memory object, starts at a multiple of nonCoherentAtomSize and has a size that is
   a multiple of it or ends at the end of the object.  BindBufferMemory / BindImageMemory: the call names the
   allocation's own live memory object at offset = caller's offset + the allocation's offset inside it, the
   allocation's range lies inside the object and is aligned as placed.  (For the bind inside
   CreateBuffer/CreateImage and for calls inside other operations, C08_allocator_driver_calls_valid gives
   "live object" and "range inside the object".) *)
Theorem C08_allocator_flush_valid : forall c v inval s off size f v' r calls,
  cfg_acct c -> reachA c v -> step c v (OFlush inval s off size) f = (v', r, calls) ->
  r <> RPanic /\ r <> RStuck /\ VamFlush.flushes_ok c (m_mems (v_m v)) calls.
Proof. intros c v inval s off size f v' r calls Ha. exact (VamFlushThm.flush_never_panics c Ha v inval s off size f v' r calls). Qed.
Print Assumptions C08_allocator_flush_valid.

Theorem C08_allocator_bind_valid : forall c v s image res off f v' r calls,
  cfg_acct c -> reachA c v -> step c v (OBind s image res off) f = (v', r, calls) ->
  r <> RPanic /\ r <> RStuck /\
  (calls = nil \/
   exists o code d,
     calls = (CBind image res (a_mem (get_alloc v s)) (off + o) code :: nil)%list /\
     a_allocated (get_alloc v s) = true /\ find_offset v (get_alloc v s) = Some o /\
     find_mem (m_mems (v_m v)) (a_mem (get_alloc v s)) = Some d /\
     0 <= o /\ o + a_size (get_alloc v s) <= dm_size d /\
     (a_kind (get_alloc v s) = 1 -> o mod a_align (get_alloc v s) = 0)).
Proof. intros c v s image res off f v' r calls Ha. exact (VamFlushThm.bind_never_panics c Ha v s image res off f v' r calls). Qed.
Print Assumptions C08_allocator_bind_valid.
(* the bind inside CreateBuffer / CreateImage (without DontBind): the last driver call of a successful creation is
   the bind of the new resource to the new Allocation's own live memory object at the Allocation's own offset;
   the range lies inside the object; a block allocation is aligned as placed, a dedicated one starts at 0 *)
Theorem C08_allocator_create_bind_valid : forall c v o f v' calls,
  cfg_acct c -> reachA c v -> op_ok v o -> step c v o f = (v', ROk, calls) ->
  match o with
  | OCreateBuf slot _ _ _ _ _ flags _ _ _ _ => fl flags F_DONTBIND = false -> VamBindCreate.bound_last v' slot false calls
  | OCreateImg slot _ _ _ _ _ flags _ _ _ _ => fl flags F_DONTBIND = false -> VamBindCreate.bound_last v' slot true calls
  | _ => True
  end.
Proof. intros c v o f v' calls Ha. exact (VamBindCreate.create_bind_valid c Ha v o f v' calls). Qed.
Print Assumptions C08_allocator_create_bind_valid.
(* SUMMARY: every driver call the library issues during one API operation, from any state of any history (with
   defragmentation), for any fault oracle, satisfies the valid-usage rules the simulated device enforces:
   - replay: map only of a live unmapped object, unmap only of a live mapped one, free only of a live one, bind and
     flush only on live objects with the range inside the object (no use after free, no double map);
   - maps_hv: only host-visible memory is mapped;  flushes_ok: flush ranges atom-aligned or ending at the object's end;
   - call_args_ok: vkAllocateMemory with size > 0, a valid memory type index, dedicated-allocation info only on the
     resource entry points, naming their own resource, with exactly the size of its requirement; create / destroy /
     requirements / bind through the entry point of the resource's own kind, on the operation's own resource;
   - op_bind_usage (successful CreateBuffer / CreateImage / AllocateMemoryForBuffer|Image): the resource is fresh and unbound
     until its bind, the bind names the new allocation's own memory object at its own offset, the offset is a
     multiple of the RESOURCE's required alignment, offset + required size fits the object, outside custom pools the
     memory type is in the resource's memoryTypeBits, a dedicated allocation is bound at 0 and was allocated for
     this resource, and a resource that requires a dedicated allocation gets one (API >= 1.1);
   - op_bind_direct: a user Bind*Memory names the allocation's own live object at caller offset + allocation offset.
   Domain: heaps of at least 8 bytes (heaps_min), user Map only of allocations in host-visible memory, pools chosen
   compatible with the resource (caller's obligation, C02_type_permitted_pool_refuted), CanAlias not combined with a
   resource that requires a dedicated allocation. *)
Theorem C08_allocator_library_calls_valid_usage : forall c v run o f v' r calls,
  cfg_acct c -> VamAllocArgs.heaps_min c -> VamDefragAcct.reachDA c v run -> op_ok v o -> op_dom o ->
  VamHvThm.op_map_ok c v o -> step c v o f = (v', r, calls) -> r <> RPanic -> r <> RStuck ->
  replay (m_mems (v_m v)) calls (m_mems (v_m v')) /\
  VamHvThm.maps_hv c (m_mems (v_m v)) calls /\
  VamFlush.flushes_ok c (m_mems (v_m v)) calls /\
  List.Forall (VamAllocArgs.call_args_ok c (VamAllocArgs.op_res v o) (VamAllocArgs.op_ded c v o) (VamAllocArgs.op_flushes o)) calls /\
  (r = ROk -> VamValidUsage.op_bind_usage c v v' calls o) /\ VamValidUsage.op_bind_direct v calls o.
Proof. intros c v run o f v' r calls Ha Hm. exact (VamValidUsage.library_calls_valid_usage c Ha Hm v run o f v' r calls). Qed.
Print Assumptions C08_allocator_library_calls_valid_usage.

Theorem C08_allocator_library_calls_valid_usage_defrag : forall c v run o f v' run' r calls dr,
  cfg_acct c -> VamDefragAcct.reachDA c v run -> VamDefragThm.dop_ok v run o ->
  Vam.dstep c v run o f = (v', run', r, calls, dr) -> r <> RPanic -> r <> RStuck ->
  replay (m_mems (v_m v)) calls (m_mems (v_m v')) /\ VamHvThm.maps_hv c (m_mems (v_m v)) calls /\
  List.Forall VamAllocArgs.mem_call calls.
Proof. intros c v run o f v' run' r calls dr Ha. exact (VamValidUsage.library_calls_valid_usage_dstep c Ha v run o f v' run' r calls dr). Qed.
Print Assumptions C08_allocator_library_calls_valid_usage_defrag.
End Allocator.

(* second tie, allocator level: the flush / invalidate range computation of vam/allocation.go and the minimum
   alignment of non-coherent memory types (device_memory.go), regenerated from the Go source on every run,
   equal the whole-allocator model's functions (nonCoherentAtomSize a power of two, magnitudes below 2^60;
   for atom size 0, which Vulkan excludes, Go divides by zero: GenLeafProofsVam.gen_flush_atom0_discrepancy). *)
From Arsenal Require GenLeafProofsVam.

Theorem C08_code_flushOrInvalidateRange : forall c v a offset size aoff bsize off0 sz0,
  Bits.pow2 (VamDev.c_atom c) -> VamDev.c_atom c <= 2 ^ 60 ->
  0 <= VamBlockList.a_size a <= 2 ^ 60 -> -2 ^ 60 <= offset <= 2 ^ 60 -> -2 ^ 60 <= size <= 2 ^ 60 ->
  0 <= aoff <= 2 ^ 60 -> -2 ^ 60 <= bsize <= 2 ^ 60 ->
  (VamBlockList.a_kind a = 1 -> Vam.find_offset v a = Some aoff /\
     exists b, VamBlockList.get_block v (VamBlockList.a_lref a) (VamBlockList.a_blk a) = Some b /\
               VamBlockList.meta_size (VamBlockList.bk_meta b) = bsize) ->
  GenLeafProofsVam.flush_view
    (GenLeaf.flushOrInvalidateRange (VamBlockList.a_kind a) (VamDev.non_coherent c (VamBlockList.a_type a)) (VamDev.c_atom c)
       (VamBlockList.a_size a) aoff bsize off0 sz0 offset size)
  = Vam.flush_range c v a offset size.
Proof. exact GenLeafProofsVam.gen_flushOrInvalidateRange_eq. Qed.
Print Assumptions C08_code_flushOrInvalidateRange.

Theorem C08_code_MemoryTypeMinimumAlignment : forall c t,
  0 <= VamDev.c_atom c < 2 ^ 63 ->
  GenLeaf.MemoryTypeMinimumAlignment (VamDev.c_atom c) (VamDev.type_flags c t) t = Vam.type_min_alignment c t.
Proof. exact GenLeafProofsVam.gen_MemoryTypeMinimumAlignment_eq. Qed.
Print Assumptions C08_code_MemoryTypeMinimumAlignment.
