(* C03 — Block bookkeeping always matches the true contents of the block.
   TLSF half: for every block size 1 <= size < 2^39 (the uint32 first-level bitmap covers exactly
   these), every power-of-two granularity, either handler and every history with power-of-two
   alignments: allocation count, free bytes, emptiness flag, free-region count, both statistics are
   the figures recomputed from the region list, the regions tile [0, size), free lists, both
   bitmaps and the running counters are exact, and Validate reports no inconsistency (with vam's
   handler for every granularity 1 .. 64 KiB and allocation kinds of vam's enum: the page counters
   are uint32 and a page of g bytes has at most g allocations counted on it, so no counter wraps;
   with the former uint16 counters Validate really failed at 65536 one-byte allocations on one
   64 KiB page, see DESIGN.md / known_findings).
   Linear half: the same for every reachable linear state. *)
From Coq Require Import ZArith NArith List Lia.
From Arsenal Require Import Util Bits Gran Tlsf TlsfGeom TlsfInv1 TlsfStep TlsfProps SizeClass TlsfInv2 TlsfStep2 TlsfProps2 GranInv GranTlsf.
From Arsenal Require Linear LinearInv LinearAlloc LinearFree LinearStep LinearSwap LinearVisit LinearProps.
Import ListNotations.
Open Scope Z_scope.

Theorem C03_tlsf_bookkeeping : forall h gr size ops,
  cfg2_ok gr size -> Forall op_ok ops ->
  let t := run (tlsf_init h gr size) ops in
  allocation_count t = zlen (live t) /\
  sum_free_size t = size - sum_sizes (live t) /\
  (is_empty t = true <-> live t = []) /\
  free_regions_count t = zlen (free_regions_pos t) /\
  (tiles 0 (regions t) /\ chain_end 0 (regions t) = size /\ sum_sizes (regions t) = size) /\
  add_statistics t = mkStats 1 (zlen (taken_regions t)) size (sum_sizes (taken_regions t)) /\
  add_detailed_statistics t = dspec (taken_regions t) (free_regions_pos t) size.
Proof. exact tlsf_reach_bookkeeping. Qed.
Print Assumptions C03_tlsf_bookkeeping.

Theorem C03_tlsf_validate_disabled : forall h gr size ops,
  cfg2_ok gr size -> Forall op_ok ops ->
  let t := run (tlsf_init h gr size) ops in
  enabled (t_gran t) = false -> validate t = Some true.
Proof. exact tlsf_reach_validate_disabled. Qed.
Print Assumptions C03_tlsf_validate_disabled.

Theorem C03_tlsf_validate : forall h gr size ops,
  cfg2_ok gr size -> Forall op_ok ops ->
  let t := run (tlsf_init h gr size) ops in
  gran_validate (t_gran t) (map (fun b => (b_off b, b_size b)) (live t)) = Some true ->
  validate t = Some true.
Proof. exact tlsf_reach_validate. Qed.
Print Assumptions C03_tlsf_validate.

Theorem C03_tlsf_vam_validate : forall gr size ops,
  cfg2_ok gr size -> 1 <= gr <= 65536 -> Forall op_ok ops -> Forall op_kind_ok ops ->
  validate (run (tlsf_init HVam gr size) ops) = Some true.
Proof. exact tlsf_vam_validate. Qed.
Print Assumptions C03_tlsf_vam_validate.

(* non-vacuity (TLSF): the hypotheses are met by a concrete history ending with three live blocks *)
Example C03_tlsf_nonvacuous :
  cfg2_ok 1024 4096 /\ Forall op_ok ex_ops /\ length (live (run (tlsf_init HVam 1024 4096) ex_ops)) = 3%nat.
Proof.
  split; [split; [lia|exists 10; split; [lia|reflexivity]]|]. exact (conj ex_ops_ok ex_live_three).
Qed.

Module LinearHalf.
Import Linear LinearInv LinearAlloc LinearFree LinearStep LinearSwap LinearVisit LinearProps.
Import ListNotations.

Theorem C03_linear : forall h gr size l,
  lcfg_ok gr size -> lreach h gr size l ->
  allocation_count l = zlen (LinearInv.live l) /\
  sum_free_size l = size - sum_sizes (LinearInv.live l) /\
  (is_empty l = true <-> LinearInv.live l = []) /\
  validate l = Some true /\
  (exists rs, visit_regions l = Some rs /\ tiles 0 rs size /\ allocs rs = map region_of (live_ordered l)) /\
  add_statistics l = Some (mkStats 1 (zlen (LinearInv.live l)) size (sum_sizes (LinearInv.live l))) /\
  (exists d, add_detailed_statistics l = Some d /\ d_stats d = mkStats 1 (zlen (LinearInv.live l)) size (sum_sizes (LinearInv.live l))).
Proof. exact linear_bookkeeping. Qed.
Print Assumptions C03_linear.

(* non-vacuity (linear): an admissible history through ring buffer, lazy deletion and vector swap *)
Example C03_linear_nonvacuous :
  lcfg_ok 1 100 /\ lreach HVam 1 100 (lrun (linear_init HVam 1 100) LinearStep.ex_ops) /\
  map s_off (LinearInv.live (lrun (linear_init HVam 1 100) LinearStep.ex_ops)) = [0; 24]%Z.
Proof.
  split; [split; [lia|exists 0; split; [lia|reflexivity]]|].
  split; [exists LinearStep.ex_ops; split; [exact (proj1 LinearStep.ex_ops_ok)|reflexivity]|].
  exact (proj1 (proj2 LinearStep.ex_ops_ok)).
Qed.

End LinearHalf.
