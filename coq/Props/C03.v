(* C03 — Block bookkeeping always matches the true contents of the block.
   Linear half: in every state reachable by an admissible history, the allocation count, the free
   byte total, the emptiness flag, both statistics and the self-check (Validate) are what the list
   of live items implies, and the enumerated regions tile [0, size) with the non-free regions being
   exactly the live items in address order. (FreeRegionsCount is the constant MaxInt for this
   algorithm.)  The TLSF half is added by TlsfStep2.v (second invariant layer). *)
From Coq Require Import ZArith List Lia.
From Arsenal Require Import Util Bits Gran.
From Arsenal Require Import Linear LinearInv LinearAlloc LinearFree LinearStep LinearSwap LinearVisit LinearProps.
Import ListNotations.
Open Scope Z_scope.

Theorem C03_linear : forall h gr size l,
  lcfg_ok gr size -> lreach h gr size l ->
  allocation_count l = zlen (LinearInv.live l) /\
  sum_free_size l = size - sum_sizes (LinearInv.live l) /\
  (is_empty l = true <-> LinearInv.live l = []) /\
  validate l = Some true /\
  (exists rs, visit_regions l = Some rs /\ tiles 0 rs size /\ allocs rs = map region_of (live_ordered l)) /\
  add_statistics l = Some (mkStats 1 (zlen (LinearInv.live l)) size (sum_sizes (LinearInv.live l))) /\
  (exists d, add_detailed_statistics l = Some d /\ d_stats d = mkStats 1 (zlen (LinearInv.live l)) size (sum_sizes (LinearInv.live l))).
Proof. exact linear_bookkeeping. Qed.
Print Assumptions C03_linear.

(* non-vacuity (linear): an admissible history through ring buffer, lazy deletion and vector swap *)
Example C03_linear_nonvacuous :
  lcfg_ok 1 100 /\ lreach HVam 1 100 (lrun (linear_init HVam 1 100) LinearStep.ex_ops) /\
  map s_off (LinearInv.live (lrun (linear_init HVam 1 100) LinearStep.ex_ops)) = [0; 24]%Z.
Proof.
  split; [split; [lia|exists 0; split; [lia|reflexivity]]|].
  split; [exists LinearStep.ex_ops; split; [exact (proj1 LinearStep.ex_ops_ok)|reflexivity]|].
  exact (proj1 (proj2 LinearStep.ex_ops_ok)).
Qed.
