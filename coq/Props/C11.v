From Coq Require Import ZArith List Bool Lia.
From Arsenal Require Import Util.
From Arsenal Require Import Budget BudgetProofs.
From Arsenal Require VamDev VamBlockList Vam VamInv VamInvStep VamInvThm VamProps VamPropsOps VamShapeStep VamAcct VamAcctThm VamDefrag VamDefragThm VamDefragAcct VamDefragShape.
Import ListNotations.
Open Scope Z_scope.
(* C11 — Configured limits and allocation-mode flags are always respected.
   Component theorems (device_memory.go): for every in-domain history the bytes of device memory
   held in a heap never exceed min(heap size limit, heap size) when a limit is configured, and the
   number of memory objects never exceeds maxMemoryAllocationCount; and for EVERY interleaving of
   N goroutines racing through the compare-and-swap reservation loop
   (addBlockAllocationWithBudget) the reserved total never exceeds the limit and equals the sum of
   the successful reservations (the schedule is an arbitrary list of thread ids; the Go atomics
   themselves are trusted).  Pool block-count bounds, NeverAllocate and Dedicated are decided by
   the whole-allocator exploration (vamh limits/pools profiles) with the simulated device's totals
   as oracle. *)

Theorem C11_heap_limit_respected : forall cfg rep0 ops h,
  in_bdomain cfg rep0 ops = true ->
  0 < heapLimit cfg h -> 0 <= heapSize cfg h ->
  bb (heaps (bfinal cfg rep0 ops) h) <= Z.min (heapLimit cfg h) (heapSize cfg h) /\
  sum (g_mems (btruth cfg rep0 ops)) h <= Z.min (heapLimit cfg h) (heapSize cfg h).
Proof. exact heap_limit_respected. Qed.
Print Assumptions C11_heap_limit_respected.

Theorem C11_count_limit_respected : forall cfg rep0 ops,
  in_bdomain cfg rep0 ops = true -> 0 <= maxCount cfg ->
  memCount (bfinal cfg rep0 ops) <= maxCount cfg /\
  len (g_mems (btruth cfg rep0 ops)) <= maxCount cfg.
Proof. exact count_limit_respected. Qed.
Print Assumptions C11_count_limit_respected.

Theorem C11_cas_limit_all_interleavings : forall maxv sizes bb0 (sched : list nat),
  bb0 <= maxv -> Forall (fun sz => 0 <= sz) sizes ->
  let st := cas_run maxv sizes (cas_init bb0 (length sizes)) sched in
  c_bb st <= maxv /\ c_bb st = bb0 + held (c_ph st) sizes.
Proof. exact cas_limit_all_interleavings. Qed.
Print Assumptions C11_cas_limit_all_interleavings.

Example C11_nonvacuous : in_bdomain ex_cfg ex_rep ex_bops = true.
Proof. exact ex_in_bdomain. Qed.

(* ---------------------------------------------------------------- whole allocator (model Vam*.v)
   For EVERY state reachable from vam.New by any sequence of API calls (any fault oracle; sizes below 2^62):
   the bytes of device memory live on the device in a heap never exceed min(HeapSizeLimits[h], heap size)
   when a limit is configured, never the heap size, and the number of live memory objects never exceeds
   maxMemoryAllocationCount.  OPEN: pool minimum / maximum block counts, NeverAllocate and Dedicated
   exactness (decided by the vamh exploration, limits / pools profiles with the pool-bounds preamble). *)
Module Allocator.
Import VamDev VamBlockList Vam VamInv VamInvThm VamProps VamPropsOps VamShapeStep VamAcct VamAcctThm.

Theorem C11_allocator_heap_limit_respected : forall c v h,
  cfg_acct c -> reachA c v -> 0 <= h -> 0 < heapLimit (bcfg_of c) h ->
  dev_bytes c v h <= Z.min (heapLimit (bcfg_of c) h) (heap_size c h).
Proof. intros c v h Ha. exact (VamAcctThm.heap_limit_respected c Ha v h). Qed.
Print Assumptions C11_allocator_heap_limit_respected.

Theorem C11_allocator_heap_size_respected : forall c v h,
  cfg_acct c -> reachA c v -> dev_bytes c v h <= heap_size c h.
Proof. intros c v h Ha. exact (heap_size_respected c Ha v h). Qed.
Print Assumptions C11_allocator_heap_size_respected.

Theorem C11_allocator_count_limit_respected : forall c v,
  cfg_acct c -> reachA c v -> zlen (m_mems (v_m v)) <= c_maxcount c.
Proof. intros c v Ha. exact (VamAcctThm.count_limit_respected c Ha v). Qed.
Print Assumptions C11_allocator_count_limit_respected.

Example C11_allocator_nonvacuous : cfg_acct exA_cfg.
Proof. exact exA_cfg_acct. Qed.

(* Pool block counts: in every state reachable by API calls (pools created with MinBlockCount >= 0; any fault
   oracle; also right after failed or refused operations) every block list holds at least its minimum and at
   most its maximum number of blocks. *)
Theorem C11_allocator_pool_block_bounds : forall c v lr l,
  cfg_ok c -> reachL c v -> get_blist v lr = Some l ->
  bl_min l <= zlen (bl_blocks l) /\ zlen (bl_blocks l) <= bl_max l.
Proof. intros c v lr l Hc. exact (pool_block_bounds c Hc v lr l). Qed.
Print Assumptions C11_allocator_pool_block_bounds.

(* NeverAllocate: whatever the state and whatever the outcome, an allocation call carrying the flag issues no
   vkAllocateMemory (multi_allocate is what AllocateMemory, AllocateMemorySlice, CreateBuffer/Image and
   AllocateMemoryFor* all run). *)
Theorem C11_allocator_never_allocate_no_device_call :
  forall c v size align typeBits reqDed prefDed ded bufimg usage flags0 req pref ctb pool sub slots,
  fl flags0 F_NEVER = true ->
  let '(v', _) := multi_allocate c v size align typeBits reqDed prefDed ded bufimg usage flags0 req pref ctb pool sub slots in
  exists l, m_calls (v_m v') = (l ++ m_calls (v_m v))%list /\ List.Forall not_alloc_call l.
Proof. exact never_allocate_no_device_call. Qed.
Print Assumptions C11_allocator_never_allocate_no_device_call.

(* Dedicated: a successful request that carries the Dedicated flag (or whose resource requires a dedicated
   allocation) yields dedicated allocations of exactly the requested size, each owning a memory object of
   exactly that size that nothing else lives in. *)
Theorem C11_allocator_dedicated_exact :
  forall c v size align typeBits reqDed prefDed ded bufimg usage flags0 req pref ctb pool sub slots v',
  cfg_ok c -> reach c v -> List.NoDup slots -> VamInvStep.dead_slots v slots ->
  multi_allocate c v size align typeBits reqDed prefDed ded bufimg usage flags0 req pref ctb pool sub slots = (v', OK tt) ->
  fl flags0 F_DEDICATED = true \/ reqDed = true \/ usage = 1 ->
  forall s, List.In s slots -> exists a, slot_is v' s a /\ a_kind a = 2 /\ a_size a = size.
Proof.
  intros c v size align typeBits reqDed prefDed ded bufimg usage flags0 req pref ctb pool sub slots v' Hc R.
  apply dedicated_exact; [exact Hc|apply reach_inv; assumption].
Qed.
Print Assumptions C11_allocator_dedicated_exact.

Theorem C11_allocator_dedicated_own_memory : forall c v s a,
  cfg_ok c -> reach c v -> slot_is v s a -> a_kind a = 2 ->
  (exists d, find_mem (m_mems (v_m v)) (a_mem a) = Some d /\ dm_size d = a_size a /\ dm_type d = a_type a) /\
  find_offset v a = Some 0 /\
  (forall s' a', slot_is v s' a' -> s' <> s -> a_mem a' <> a_mem a) /\
  (forall lr l b, get_blist v lr = Some l -> List.In b (bl_blocks l) -> bk_mem b <> a_mem a).
Proof. intros c v s a Hc R. apply (dedicated_own_memory c). apply reach_inv; assumption. Qed.
Print Assumptions C11_allocator_dedicated_own_memory.
(* limits along histories that contain defragmentation runs *)
Theorem C11_allocator_pool_block_bounds_defrag : forall c v run lr l,
  cfg_ok c -> VamDefragShape.reachDL c v run -> get_blist v lr = Some l ->
  bl_min l <= zlen (bl_blocks l) /\ zlen (bl_blocks l) <= bl_max l.
Proof. intros c v run lr l Hc. exact (VamDefragShape.pool_block_bounds_defrag c Hc v run lr l). Qed.
Print Assumptions C11_allocator_pool_block_bounds_defrag.

Theorem C11_allocator_heap_size_respected_defrag : forall c v run h,
  cfg_acct c -> VamDefragAcct.reachDA c v run -> dev_bytes c v h <= heap_size c h.
Proof. intros c v run h Ha. exact (VamDefragAcct.heap_size_respected_defrag c Ha v run h). Qed.
Print Assumptions C11_allocator_heap_size_respected_defrag.

Theorem C11_allocator_count_limit_respected_defrag : forall c v run,
  cfg_acct c -> VamDefragAcct.reachDA c v run -> zlen (m_mems (v_m v)) <= c_maxcount c.
Proof. intros c v run Ha. exact (VamDefragAcct.count_limit_respected_defrag c Ha v run). Qed.
Print Assumptions C11_allocator_count_limit_respected_defrag.
End Allocator.
