From Coq Require Import ZArith List Bool Lia.
From Arsenal Require Import Util.
From Arsenal Require Import Budget BudgetProofs.
From Arsenal Require VamDev VamBlockList Vam VamInv VamInvThm VamProps VamAcct VamAcctThm.
Import ListNotations.
Open Scope Z_scope.
(* C11 — Configured limits and allocation-mode flags are always respected.
   Component theorems (device_memory.go): for every in-domain history the bytes of device memory
   held in a heap never exceed min(heap size limit, heap size) when a limit is configured, and the
   number of memory objects never exceeds maxMemoryAllocationCount; and for EVERY interleaving of
   N goroutines racing through the compare-and-swap reservation loop
   (addBlockAllocationWithBudget) the reserved total never exceeds the limit and equals the sum of
   the successful reservations (the schedule is an arbitrary list of thread ids; the Go atomics
   themselves are trusted).  Pool block-count bounds, NeverAllocate and Dedicated are decided by
   the whole-allocator exploration (vamh limits/pools profiles) with the simulated device's totals
   as oracle. *)

Theorem C11_heap_limit_respected : forall cfg rep0 ops h,
  in_bdomain cfg rep0 ops = true ->
  0 < heapLimit cfg h -> 0 <= heapSize cfg h ->
  bb (heaps (bfinal cfg rep0 ops) h) <= Z.min (heapLimit cfg h) (heapSize cfg h) /\
  sum (g_mems (btruth cfg rep0 ops)) h <= Z.min (heapLimit cfg h) (heapSize cfg h).
Proof. exact heap_limit_respected. Qed.
Print Assumptions C11_heap_limit_respected.

Theorem C11_count_limit_respected : forall cfg rep0 ops,
  in_bdomain cfg rep0 ops = true -> 0 <= maxCount cfg ->
  memCount (bfinal cfg rep0 ops) <= maxCount cfg /\
  len (g_mems (btruth cfg rep0 ops)) <= maxCount cfg.
Proof. exact count_limit_respected. Qed.
Print Assumptions C11_count_limit_respected.

Theorem C11_cas_limit_all_interleavings : forall maxv sizes bb0 (sched : list nat),
  bb0 <= maxv -> Forall (fun sz => 0 <= sz) sizes ->
  let st := cas_run maxv sizes (cas_init bb0 (length sizes)) sched in
  c_bb st <= maxv /\ c_bb st = bb0 + held (c_ph st) sizes.
Proof. exact cas_limit_all_interleavings. Qed.
Print Assumptions C11_cas_limit_all_interleavings.

Example C11_nonvacuous : in_bdomain ex_cfg ex_rep ex_bops = true.
Proof. exact ex_in_bdomain. Qed.

(* ---------------------------------------------------------------- whole allocator (model Vam*.v)
   For EVERY state reachable from vam.New by any sequence of API calls (any fault oracle; sizes below 2^62):
   the bytes of device memory live on the device in a heap never exceed min(HeapSizeLimits[h], heap size)
   when a limit is configured, never the heap size, and the number of live memory objects never exceeds
   maxMemoryAllocationCount.  OPEN: pool minimum / maximum block counts, NeverAllocate and Dedicated
   exactness (decided by the vamh exploration, limits / pools profiles with the pool-bounds preamble). *)
Module Allocator.
Import VamDev VamBlockList Vam VamInv VamInvThm VamProps VamAcct VamAcctThm.

Theorem C11_allocator_heap_limit_respected : forall c v h,
  cfg_acct c -> reachA c v -> 0 <= h -> 0 < heapLimit (bcfg_of c) h ->
  dev_bytes c v h <= Z.min (heapLimit (bcfg_of c) h) (heap_size c h).
Proof. intros c v h Ha. exact (VamAcctThm.heap_limit_respected c Ha v h). Qed.
Print Assumptions C11_allocator_heap_limit_respected.

Theorem C11_allocator_heap_size_respected : forall c v h,
  cfg_acct c -> reachA c v -> dev_bytes c v h <= heap_size c h.
Proof. intros c v h Ha. exact (heap_size_respected c Ha v h). Qed.
Print Assumptions C11_allocator_heap_size_respected.

Theorem C11_allocator_count_limit_respected : forall c v,
  cfg_acct c -> reachA c v -> zlen (m_mems (v_m v)) <= c_maxcount c.
Proof. intros c v Ha. exact (VamAcctThm.count_limit_respected c Ha v). Qed.
Print Assumptions C11_allocator_count_limit_respected.

Example C11_allocator_nonvacuous : cfg_acct exA_cfg.
Proof. exact exA_cfg_acct. Qed.
End Allocator.
