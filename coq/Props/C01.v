(* C01 — Suballocations are exclusive, in-bounds and aligned within a block.
   TLSF half: for every configuration (block size >= 0, granularity a power of two, either
   handler), every finite operation sequence with power-of-two alignments, every live block of the
   resulting state lies inside the block, starts at a multiple of the requested alignment, is at
   least as large as requested, and is disjoint from every other live block.  The ghost fields
   b_reqalign / b_reqsize are exactly the alignment and size passed to the OAlloc that created the
   block (TlsfStep.live_effect / C06), and never change while the block is live. *)
From Coq Require Import ZArith List.
From Coq Require Import Lia.
From Arsenal Require Import Util Bits Gran Tlsf TlsfStep TlsfProps.
From Arsenal Require Linear LinearInv LinearAlloc LinearFree LinearStep LinearSwap LinearVisit LinearProps.
Import ListNotations.
Open Scope Z_scope.

Theorem C01_tlsf : forall h gr size ops,
  cfg_ok gr size -> Forall op_ok ops ->
  let t := run (tlsf_init h gr size) ops in
  forall a, In a (live t) ->
    0 <= b_off a /\ b_off a + b_size a <= size /\
    0 < b_reqalign a /\ b_off a mod b_reqalign a = 0 /\ b_reqsize a <= b_size a /\
    forall b, In b (live t) -> a <> b ->
      b_off a + b_size a <= b_off b \/ b_off b + b_size b <= b_off a.
Proof. exact tlsf_alloc_sound. Qed.
Print Assumptions C01_tlsf.

(* non-vacuity: the hypotheses are met by a concrete history that ends with three live blocks *)
Example C01_tlsf_nonvacuous :
  cfg_ok 1024 4096 /\ Forall op_ok ex_ops /\ length (live (run (tlsf_init HVam 1024 4096) ex_ops)) = 3%nat.
Proof. exact (conj ex_cfg_ok (conj ex_ops_ok ex_live_three)). Qed.

Module LinearHalf.
Import Linear LinearInv LinearAlloc LinearFree LinearStep LinearSwap LinearVisit LinearProps.
Import ListNotations.

(* Linear half: every state reachable from a fresh linear block by an admissible history (any mix
   of lower / upper / ring-buffer requests, frees in any order, clears; power-of-two alignments;
   any granularity that is a power of two, either handler) has only in-bounds, aligned, large
   enough, pairwise disjoint live items. *)
Theorem C01_linear : forall h gr size l,
  lcfg_ok gr size -> lreach h gr size l ->
  forall x, In x (LinearInv.live l) ->
    0 <= s_off x /\ s_off x + s_size x <= size /\ 0 < s_reqalign x /\ s_off x mod s_reqalign x = 0 /\
    s_reqsize x <= s_size x /\
    forall y, In y (LinearInv.live l) -> x <> y -> disjoint x y.
Proof. exact linear_alloc_sound. Qed.
Print Assumptions C01_linear.

(* non-vacuity (linear): an admissible history through ring buffer, lazy deletion and vector swap *)
Example C01_linear_nonvacuous :
  lcfg_ok 1 100 /\ lreach HVam 1 100 (lrun (linear_init HVam 1 100) LinearStep.ex_ops) /\
  map s_off (LinearInv.live (lrun (linear_init HVam 1 100) LinearStep.ex_ops)) = [0; 24]%Z.
Proof.
  split; [split; [lia|exists 0; split; [lia|reflexivity]]|].
  split; [exists LinearStep.ex_ops; split; [exact (proj1 LinearStep.ex_ops_ok)|reflexivity]|].
  exact (proj1 (proj2 LinearStep.ex_ops_ok)).
Qed.

End LinearHalf.

(* ---------------------------------------------------------------- second tie: translated code
   GenLeaf.v is REGENERATED from /repo's Go source on every run (tools/go2coq, explicit Go integer
   semantics GoSem.v); the theorems below say that the generated definitions equal the model's
   functions on the stated ranges, so an edit of these Go functions breaks an obligation of this file. *)
From Arsenal Require GoSem GenLeaf GenLeafProofs.

Theorem C01_code_AlignUp : forall v a, 0 <= a < 2 ^ 63 -> -2 ^ 63 < v + a <= 2 ^ 63 ->
  GenLeaf.AlignUp v a = Util.align_up v a.
Proof. exact GenLeafProofs.gen_AlignUp_eq. Qed.
Print Assumptions C01_code_AlignUp.

Theorem C01_code_AlignDown : forall v a, 0 <= a <= 2 ^ 63 -> GenLeaf.AlignDown v a = Util.align_down v a.
Proof. exact GenLeafProofs.gen_AlignDown_eq. Qed.
Print Assumptions C01_code_AlignDown.
