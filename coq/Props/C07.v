(* C07 — Defragmentation never loses, corrupts or overlaps allocations.

   What is proved here is the memutils level: the planner memutils/defrag over REAL TLSF block
   models (Tlsf.v) and the reference BlockList of the harness `dfh` (it mirrors vam's
   memoryBlockList; the operation handler is vam's completePassForMove: Copy = swap the block data
   of source and temporary, then free the temporary; Ignore = free the temporary; Destroy = free
   both).  WF is the block-list invariant: distinct block ids, every block satisfies both TLSF
   invariants (TInv: geometry, Inv2: free lists and counters), the allocation objects and the
   taken regions of all blocks correspond one to one by (block, offset), with matching size and
   user data.
     - C07_sources_are_user_allocs_once: the source of every proposed move is a live allocation of
       the caller (never one of the run's temporaries), at the place the move says, and no slot is
       the source of two moves of a pass.
     - C07_both_ends_reserved (+ the two keeps_reserved lemmas): between collect and complete,
       also across the caller's own allocations and frees, both ends of every pending move are
       taken regions of their blocks, owned by two different allocation objects, not overlapping
       (Inv1 makes all taken regions of a block disjoint: nothing else can be placed there).
     - C07_move_outcome: per decision: Copy -> the slot is now at the proposed destination with its
       size, alignment, kind, tag unchanged; Ignore -> unchanged; Destroy -> gone; every temporary
       is gone; slots not named in any move are untouched.  The pass completes without error.
     - C07_complete_pass_wf / C07_wstep_preserves / C07_wstep_safe / C07_world_init: the invariant
       holds again at every pass boundary, and along arbitrary histories of the harness protocol
       (user operations at any time, BEGIN with fresh or reused context, PASS, END with any
       decisions); no operation of such a history panics (collect, complete, user alloc/free).
   What remains for the vam wrapper (vam/defrag.go and allocation.go: several block lists with
   blockListProgress, Allocation.swapBlockAllocation incl. the device memory object and map
   reference counts, the write lock on the source allocations, freeing of emptied device memory
   blocks): not modelled here; it is covered by the vamh exploration (harness/cmd/vamh,
   VamDefrag.v) whose oracles check the same properties on the whole allocator. *)
From Coq Require Import ZArith List Lia Permutation.
From Arsenal Require Import Util Tlsf Pass PassProofs Defrag DefragProofs.
From Arsenal Require VamDev VamBlockList Vam VamInv VamInvStep VamDefrag VamDefragStep.
Import ListNotations.
Open Scope Z_scope.

Theorem C07_sources_are_user_allocs_once : forall st c mb ma,
  WF st -> 0 <= ma -> 0 <= mb -> c_moves c = [] ->
  let cs := fst (collect_moves st c (pass_init mb ma)) in
  (forall m, In m (cs_moves cs) ->
     exists es, entry st (m_src m) = Some es /\ entry (cs_st cs) (m_src m) = Some es /\ u_temp es = false /\
                u_blk es = m_srcblk m /\ u_off es = m_srcoff m /\ u_size es = m_size m) /\
  NoDup (map m_src (cs_moves cs)) /\ NoDup (map m_tmp (cs_moves cs)) /\
  (forall m m', In m (cs_moves cs) -> In m' (cs_moves cs) -> m_src m <> m_tmp m').
Proof. exact sources_are_user_allocs_once. Qed.
Print Assumptions C07_sources_are_user_allocs_once.

Theorem C07_collect_reserves : forall st c mb ma,
  WF st -> 0 <= ma -> 0 <= mb -> c_moves c = [] ->
  let cs := fst (collect_moves st c (pass_init mb ma)) in
  WF (cs_st cs) /\ ext st (cs_st cs) /\ Forall (reserved (cs_st cs)) (cs_moves cs).
Proof. exact collect_reserves. Qed.
Print Assumptions C07_collect_reserves.

Theorem C07_both_ends_reserved : forall st m,
  WF st -> reserved st m ->
  exists bs bd,
    holds st (m_srcblk m) (m_srcoff m) bs /\ b_size bs = m_size m /\
    holds st (m_dstblk m) (m_dstoff m) bd /\ b_size bd = m_size m /\
    m_src m <> m_tmp m /\
    (forall s e, entry st s = Some e -> u_blk e = m_srcblk m -> u_off e = m_srcoff m -> s = m_src m) /\
    (forall s e, entry st s = Some e -> u_blk e = m_dstblk m -> u_off e = m_dstoff m -> s = m_tmp m) /\
    (m_srcblk m = m_dstblk m ->
     m_srcoff m + m_size m <= m_dstoff m \/ m_dstoff m + m_size m <= m_srcoff m).
Proof. exact both_ends_reserved. Qed.
Print Assumptions C07_both_ends_reserved.

Theorem C07_user_alloc_keeps_reserved : forall st id size align kind tag st' r m,
  WF st -> user_alloc st id size align kind tag = (st', r) -> reserved st m -> reserved st' m.
Proof. exact user_alloc_keeps_reserved. Qed.
Print Assumptions C07_user_alloc_keeps_reserved.

Theorem C07_free_keeps_reserved : forall st s st' k m,
  WF st -> free_slot st s = (st', k) -> s <> m_src m -> s <> m_tmp m -> reserved st m -> reserved st' m.
Proof. exact free_keeps_reserved. Qed.
Print Assumptions C07_free_keeps_reserved.

Theorem C07_move_outcome : forall st c p ds ord,
  WF st -> Forall (reserved st) (c_moves c) -> NoDup (map m_src (c_moves c) ++ map m_tmp (c_moves c)) ->
  r_kind (complete_pass st c p ds ord) = ROk /\
  outcomes st (r_st (complete_pass st c p ds ord)) (c_moves c) ds /\
  (forall s, ~ In s (map m_src (c_moves c)) -> ~ In s (map m_tmp (c_moves c)) ->
             entry (r_st (complete_pass st c p ds ord)) s = entry st s).
Proof.
  intros st c p ds ord HW Hres Hnd.
  exact (conj (complete_pass_ok st c p ds ord HW Hres Hnd) (move_outcome st c p ds ord HW Hres Hnd)).
Qed.
Print Assumptions C07_move_outcome.

Theorem C07_complete_pass_wf : forall st c p ds ord,
  WF st -> Forall (reserved st) (c_moves c) -> NoDup (map m_src (c_moves c) ++ map m_tmp (c_moves c)) ->
  WF (r_st (complete_pass st c p ds ord)) /\
  Permutation (map fst (d_blocks (r_st (complete_pass st c p ds ord)))) (map fst (d_blocks st)) /\
  d_sentinel (r_st (complete_pass st c p ds ord)) = d_sentinel st /\
  length (d_table (r_st (complete_pass st c p ds ord))) = length (d_table st) /\
  c_moves (r_ctx (complete_pass st c p ds ord)) = [].
Proof. exact complete_pass_wf. Qed.
Print Assumptions C07_complete_pass_wf.

Theorem C07_wstep_preserves : forall w o,
  WInv w -> w_dead (fst (wstep w o)) = false -> WInv (fst (wstep w o)).
Proof. exact wstep_preserves. Qed.
Print Assumptions C07_wstep_preserves.

Theorem C07_wstep_safe : forall w o,
  WInv w -> algo_ok w -> w_dead w = false ->
  WInv (fst (wstep w o)) /\ algo_ok (fst (wstep w o)) /\ w_dead (fst (wstep w o)) = false.
Proof. exact wstep_safe. Qed.
Print Assumptions C07_wstep_safe.

Theorem C07_world_init : forall sizes sentinel,
  Forall (fun s => 1 <= s < 2 ^ 39) sizes -> WInv (world_init sizes sentinel).
Proof. exact world_init_inv. Qed.
Print Assumptions C07_world_init.

Theorem C07_world_init_algo : forall sizes sentinel, algo_ok (world_init sizes sentinel).
Proof. exact world_init_algo. Qed.

(* non-vacuity: a well-formed fragmented two-block state whose first pass proposes three moves
   (so the statements above speak about real moves), and the meaning of `outcomes` for one move *)
Example C07_nonvacuous :
  WF ex_world /\
  length (cs_moves (fst (collect_moves ex_world (ctx_init (mkC 0 [] 0) 2) (pass_init max_int max_int)))) = 3%nat /\
  snd (collect_moves ex_world (ctx_init (mkC 0 [] 0) 2) (pass_init max_int max_int)) = WCont.
Proof. split; [exact ex_world_wf|exact ex_collect_three]. Qed.

Example C07_outcomes_meaning : forall st0 st' m d,
  outcomes st0 st' [m] [d] <->
  ((norm_decision d = 0 -> exists es, entry st0 (m_src m) = Some es /\ entry st' (m_src m) = Some (moved_to es m)) /\
   (norm_decision d = 1 -> entry st' (m_src m) = entry st0 (m_src m)) /\
   (norm_decision d = 2 -> entry st' (m_src m) = None) /\
   entry st' (m_tmp m) = None /\ True).
Proof. intros. cbn [outcomes hd tl]. tauto. Qed.

(* ---------------------------------------------------------------- any granularity, failing commits
   The same statements for the general domain (DefragGranProofs.v): granularity handler gh (HFake
   or HVam = vam's blockBufferImageGranularity), any power-of-two bufferImageGranularity gg, and a
   block list that may refuse any commit (planner parameterised by Env / att, see Props/C15.v).
   WFg gh gg: as WF, plus every block has granularity gg (handler gh when 1 < gg) and the table's
   sizes are fixed points of RoundUpAllocRequest for their kind.  WFp gg (vam's handler, kinds
   1..5) carries in addition GranTlsf.GInv for every block: the page table is exact.
     - C07_no_conflicting_kinds_share_a_page / C07_history_pages: in every block, at every moment of
       every history (user operations, passes with refused commits, completions with any decisions),
       no bufferImageGranularity page holds bytes of two live regions of conflicting kinds - the
       planner's temporaries included.
     - a refused commit leaves nothing behind: C07_refused_commits_leave_nothing (the table grows by
       exactly the committed attempts, all live regions of the blocks are the old ones plus the
       committed destinations). *)
From Arsenal Require DefragGranProofs.
Module General.
Import Gran GranInv GranTlsf DefragGranProofs.

Theorem C07_sources_are_user_allocs_once_gran : forall gh gg Env att st c mb ma (env : Env),
  WFg gh gg st -> 0 <= ma -> 0 <= mb -> c_moves c = [] ->
  let cs := fst (res_f (collect_moves_f Env att st c (pass_init mb ma) env)) in
  (forall m, In m (cs_moves cs) ->
     exists es, entry st (m_src m) = Some es /\ entry (cs_st cs) (m_src m) = Some es /\ u_temp es = false /\
                u_blk es = m_srcblk m /\ u_off es = m_srcoff m /\ u_size es = m_size m) /\
  NoDup (map m_src (cs_moves cs)) /\ NoDup (map m_tmp (cs_moves cs)) /\
  (forall m m', In m (cs_moves cs) -> In m' (cs_moves cs) -> m_src m <> m_tmp m').
Proof. intros gh gg. exact (sources_are_user_allocs_once_f gh gg QT KT QT_step). Qed.
Print Assumptions C07_sources_are_user_allocs_once_gran.

Theorem C07_collect_reserves_gran : forall gh gg Env att st c mb ma (env : Env),
  WFg gh gg st -> 0 <= ma -> 0 <= mb -> c_moves c = [] ->
  let cs := fst (res_f (collect_moves_f Env att st c (pass_init mb ma) env)) in
  WFg gh gg (cs_st cs) /\ ext st (cs_st cs) /\ Forall (reserved (cs_st cs)) (cs_moves cs).
Proof. intros gh gg. exact (collect_reserves_f gh gg QT KT QT_step). Qed.
Print Assumptions C07_collect_reserves_gran.

(* any running pass state: the new moves are the committed attempts; the state is well formed,
   extends the old one, and its live regions are the old ones plus one per committed attempt
   (CReg: table, temporaries, live lists) - a refused attempt leaves no temporary, no region *)
Theorem C07_refused_commits_leave_nothing : forall gh gg Env att st c p (env : Env),
  WFg gh gg st -> pass_running p -> 0 <= c_immovable c ->
  let X := collect_moves_f Env att st c p env in
  let cs := fst (res_f X) in
  let new := log_moves (log_f X) in
  cs_moves cs = c_moves c ++ new /\
  WFg gh gg (cs_st cs) /\ ext st (cs_st cs) /\
  CReg st (cs_st cs) new /\
  Forall (move_ok st (cs_st cs) (indexed st)) new /\
  Forall (fun a => In (at_dst a) (map fst (d_blocks st))) (log_f X).
Proof. intros gh gg. exact (collect_moves_f_regions gh gg QT KT QT_step). Qed.
Print Assumptions C07_refused_commits_leave_nothing.

(* the log is the trace of the attempt function: att is consulted exactly once per logged attempt, in
   log order; an attempt is logged AtOk exactly when att answered true (a commit the block list
   accepts never fails in the metadata); the environment returned is att folded over the log; the
   source slot of every attempt - refused ones too - is a non-temporary entry of the original table *)
Theorem C07_attempt_log_is_trace : forall gh gg Env att st c p (env : Env),
  WFg gh gg st -> pass_running p ->
  let X := collect_moves_f Env att st c p env in
  strace Env att env (log_f X) (env_f X) /\
  Forall (fun a => exists e, entry st (at_slot a) = Some e /\ u_temp e = false) (log_f X).
Proof. intros gh gg. exact (collect_moves_f_strace gh gg QT KT QT_step). Qed.
Print Assumptions C07_attempt_log_is_trace.

Theorem C07_both_ends_reserved_gran : forall gh gg st m,
  WFg gh gg st -> reserved st m ->
  exists bs bd,
    holds st (m_srcblk m) (m_srcoff m) bs /\ b_size bs = m_size m /\
    holds st (m_dstblk m) (m_dstoff m) bd /\ b_size bd = m_size m /\
    m_src m <> m_tmp m /\
    (forall s e, entry st s = Some e -> u_blk e = m_srcblk m -> u_off e = m_srcoff m -> s = m_src m) /\
    (forall s e, entry st s = Some e -> u_blk e = m_dstblk m -> u_off e = m_dstoff m -> s = m_tmp m) /\
    (m_srcblk m = m_dstblk m ->
     m_srcoff m + m_size m <= m_dstoff m \/ m_dstoff m + m_size m <= m_srcoff m).
Proof. intros gh gg. exact (both_ends_reserved gh gg QT KT). Qed.
Print Assumptions C07_both_ends_reserved_gran.

Theorem C07_user_alloc_keeps_reserved_gran : forall gh gg st id size align kind tag st' r m,
  WFg gh gg st -> user_alloc st id size align kind tag = (st', r) -> reserved st m -> reserved st' m.
Proof. intros gh gg st id size align kind tag st' r m HW. exact (user_alloc_keeps_reserved gh gg QT KT QT_step st id size align kind tag st' r m HW I). Qed.
Print Assumptions C07_user_alloc_keeps_reserved_gran.

Theorem C07_free_keeps_reserved_gran : forall gh gg st s st' k m,
  WFg gh gg st -> free_slot st s = (st', k) -> s <> m_src m -> s <> m_tmp m -> reserved st m -> reserved st' m.
Proof. intros gh gg. exact (free_keeps_reserved gh gg QT KT QT_step). Qed.
Print Assumptions C07_free_keeps_reserved_gran.

Theorem C07_move_outcome_gran : forall gh gg st c p ds ord,
  WFg gh gg st -> Forall (reserved st) (c_moves c) -> NoDup (map m_src (c_moves c) ++ map m_tmp (c_moves c)) ->
  r_kind (complete_pass st c p ds ord) = ROk /\
  outcomes st (r_st (complete_pass st c p ds ord)) (c_moves c) ds /\
  (forall s, ~ In s (map m_src (c_moves c)) -> ~ In s (map m_tmp (c_moves c)) ->
             entry (r_st (complete_pass st c p ds ord)) s = entry st s).
Proof.
  intros gh gg st c p ds ord HW Hres Hnd.
  exact (conj (complete_pass_ok gh gg QT KT QT_step st c p ds ord HW Hres Hnd)
              (move_outcome gh gg QT KT QT_step st c p ds ord HW Hres Hnd)).
Qed.
Print Assumptions C07_move_outcome_gran.

Theorem C07_complete_pass_wf_gran : forall gh gg st c p ds ord,
  WFg gh gg st -> Forall (reserved st) (c_moves c) -> NoDup (map m_src (c_moves c) ++ map m_tmp (c_moves c)) ->
  WFg gh gg (r_st (complete_pass st c p ds ord)) /\
  Permutation (map fst (d_blocks (r_st (complete_pass st c p ds ord)))) (map fst (d_blocks st)) /\
  d_sentinel (r_st (complete_pass st c p ds ord)) = d_sentinel st /\
  length (d_table (r_st (complete_pass st c p ds ord))) = length (d_table st) /\
  c_moves (r_ctx (complete_pass st c p ds ord)) = [].
Proof. intros gh gg. exact (complete_pass_wf gh gg QT KT QT_step). Qed.
Print Assumptions C07_complete_pass_wf_gran.

(* arbitrary histories of the harness protocol with refused commits (wstep_f: the operations of
   wstep plus  CF k1 k2 ... = "the k-th commit attempts of the next pass are refused") *)
Theorem C07_wstep_safe_gran : forall gh gg wf o,
  WInvg gh gg (wf_w wf) -> algo_ok (wf_w wf) -> w_dead (wf_w wf) = false ->
  let wf' := fst (fst (wstep_f wf o)) in
  WInvg gh gg (wf_w wf') /\ algo_ok (wf_w wf') /\ w_dead (wf_w wf') = false.
Proof.
  intros gh gg wf o HI Ha Hd.
  exact (wstep_f_safe gh gg QT KT QT_step wf o HI Ha (wopf_ok_KT o) Hd).
Qed.
Print Assumptions C07_wstep_safe_gran.

Theorem C07_world_init_gran : forall gh gg sizes sentinel,
  Bits.pow2 gg -> Forall (fun s => 1 <= s < 2 ^ 39) sizes -> WInvg gh gg (world_init_g gh gg sizes sentinel).
Proof.
  intros gh gg sizes sentinel Hp Hs. apply (world_init_inv gh gg QT KT sizes sentinel Hp).
  apply Forall_forall. intros s Hin. rewrite Forall_forall in Hs. split; [exact (Hs s Hin)|exact I].
Qed.
Print Assumptions C07_world_init_gran.

(* the page statement *)
Theorem C07_no_conflicting_kinds_share_a_page : forall gg st id offa offb a b,
  WFp gg st -> holds st id offa a -> holds st id offb b -> a <> b ->
  conflict (b_kind a) (b_kind b) = true -> no_shared_page gg a b.
Proof. exact wf_no_shared_page. Qed.
Print Assumptions C07_no_conflicting_kinds_share_a_page.

Theorem C07_history_pages : forall gg sizes sentinel fl ops,
  Bits.pow2 gg -> 1 <= gg <= 65536 -> Forall (fun s => 1 <= s < 2 ^ 39) sizes ->
  Forall (wopf_ok kind_ok) ops ->
  let wf := runf (mkWf (world_init_g HVam gg sizes sentinel) fl) ops in
  w_dead (wf_w wf) = false /\ WFp gg (w_st (wf_w wf)) /\
  forall id offa offb a b, holds (w_st (wf_w wf)) id offa a -> holds (w_st (wf_w wf)) id offb b -> a <> b ->
    conflict (b_kind a) (b_kind b) = true -> no_shared_page gg a b.
Proof. exact history_pages. Qed.
Print Assumptions C07_history_pages.

(* the old invariant is the instance granularity 1; an old statement re-derived *)
Theorem C07_wf_is_gran1 : forall gh st, DefragProofs.WF st <-> WFg gh 1 st.
Proof. exact wf_gran1_iff. Qed.

Theorem C07_move_outcome_from_gran : forall st c p ds ord,
  DefragProofs.WF st -> Forall (DefragProofs.reserved st) (c_moves c) -> NoDup (map m_src (c_moves c) ++ map m_tmp (c_moves c)) ->
  r_kind (complete_pass st c p ds ord) = ROk /\
  DefragProofs.outcomes st (r_st (complete_pass st c p ds ord)) (c_moves c) ds /\
  (forall s, ~ In s (map m_src (c_moves c)) -> ~ In s (map m_tmp (c_moves c)) ->
             entry (r_st (complete_pass st c p ds ord)) s = entry st s).
Proof.
  intros st c p ds ord HW. exact (C07_move_outcome_gran HFake 1 st c p ds ord (proj1 (wf_gran1_iff HFake st) HW)).
Qed.
Print Assumptions C07_move_outcome_from_gran.

Example C07_gran_nonvacuous :
  WFp 1024 exg_world /\
  map (fun o => match o with Some e => u_size e | None => 0 end) (d_table exg_world) = [100; 0; 1024; 0; 50; 1024] /\
  match run_copy 10 exg_world (mkC 2 [] 0) max_int max_int ps_zero 0 [] with
  | RunDone _ passes acc log => passes = 1%nat /\ ps_allocs_moved acc = 2 /\ ps_bytes_moved acc = 1074
  | _ => False
  end.
Proof. split; [exact exg_world_wf|split; [exact exg_sizes_rounded|exact exg_run_done]]. Qed.
End General.

(* ---------------------------------------------------------------- whole allocator (model Vam*.v)
   EndDefragPass in the whole-allocator model (vam/defrag.go completePassForMove, allocation.go
   swapBlockAllocation): for every state satisfying the allocator invariant with a valid open pass, a successful
   End leaves every Allocation object that is not named in a move untouched (tab_frame), unallocates every
   temporary, and per move: copy = the caller's object now holds the temporary's former place (and
   C07_allocator_copied_location: that place is the destination block and offset of the move; size, alignment,
   type, kind, persistent-map flag kept), ignore = source unchanged, destroy = source unallocated.  That the
   invariant (valid ranges, no overlap) holds at every pass boundary is C02_defrag_* (Props/C02.v). *)
Module Allocator.
Import VamDev VamBlockList Vam VamInv VamDefragStep.

Theorem C07_allocator_end_effect : forall c v run ds dc,
  VamInv c v -> run_ok v run ->
  VamDev.nth_z (VamDefrag.dr_ctxs run) (VamDefrag.dr_progress run) = Some dc ->
  match VamDefrag.defrag_end c v run ds with
  | (v', _, OK _) =>
      moves_effect v v' (Defrag.c_moves (VamDefrag.dc_ctx dc)) ds /\
      VamInvStep.tab_frame v v' (mv_slots (Defrag.c_moves (VamDefrag.dc_ctx dc)))
  | _ => True
  end.
Proof. exact defrag_end_effect. Qed.
Print Assumptions C07_allocator_end_effect.

Theorem C07_allocator_copied_location : forall v v' lr m,
  mv_ok v lr m -> move_effect v v' m 0 ->
  let a := get_alloc v (src_of m) in
  let a' := get_alloc v' (src_of m) in
  a_allocated a' = true /\ a_kind a' = 1 /\ a_lref a' = lr /\
  a_blk a' = Defrag.m_dstblk m /\ a_handle a' = Defrag.m_dstoff m /\
  a_size a' = a_size a /\ a_align a' = a_align a /\ a_type a' = a_type a /\ a_sub a' = a_sub a /\
  a_persist a' = a_persist a /\ a_mapallowed a' = a_mapallowed a /\ a_temp a' = false.
Proof. exact copied_location. Qed.
Print Assumptions C07_allocator_copied_location.
End Allocator.
