(* C16 — The linear algorithm behaves exactly like a stack / double stack / ring buffer.
   Reference semantics: theories/LinearSpec.v (live items only: a lower stack, an upper stack or the
   wrapped half of a ring; no lazy deletion, counters, compaction, vector swap or binary search).
   Refinement: theories/LinearRefine.v.  For every configuration (block size >= 0, granularity a power
   of two, either conflict relation) and every history of lower/upper requests and allocations of any
   size, type and power-of-two alignment, frees of live handles in any order, Clear and
   MayHaveFreeBlock (and SetUserData on live or unknown handles), the code model Linear.v answers
   every operation exactly as the reference model: same success / refusal / error, same granted
   offset and size, and the live items of the two vectors are the reference state.
   The one place where the statement over LinearStep.op_ok fails is SetUserData on the handle of a
   lazily deleted item that still lingers in a vector (LinearRefine.setud_lingering_refuted). *)
From Coq Require Import ZArith List Lia.
From Arsenal Require Import Util Bits Gran Linear LinearInv LinearStep LinearProps LinearSpec LinearRefine.
Import ListNotations.
Open Scope Z_scope.

(* one step *)
Theorem C16_step : forall l o,
  LInv l -> rop_ok l o ->
  snd (step l o) = snd (spec_step (abs l) o) /\ abs (fst (step l o)) = fst (spec_step (abs l) o).
Proof. exact step_refines. Qed.
Print Assumptions C16_step.

(* histories *)
Theorem C16_linear : forall h gr size ops,
  lcfg_ok gr size -> rops_ok (linear_init h gr size) ops ->
  louts (linear_init h gr size) ops = souts (spec_init h gr size) ops /\
  abs (lrun (linear_init h gr size) ops) = srun (spec_init h gr size) ops.
Proof. intros h gr size ops (Hs & Hg). apply linear_behaves_as_spec; auto. Qed.
Print Assumptions C16_linear.

(* the property as worded: requests and frees (no SetUserData), admissible in the sense of
   LinearStep.ops_ok *)
Theorem C16_linear_requests_frees : forall h gr size ops,
  lcfg_ok gr size -> Forall no_setud ops -> ops_ok (linear_init h gr size) ops ->
  louts (linear_init h gr size) ops = souts (spec_init h gr size) ops /\
  abs (lrun (linear_init h gr size) ops) = srun (spec_init h gr size) ops.
Proof. intros h gr size ops (Hs & Hg). apply linear_behaves_as_spec_requests_frees; auto. Qed.
Print Assumptions C16_linear_requests_frees.

(* the clauses of the property, on the reference model *)
Theorem C16_lower_at_aligned_end : forall sp size align atype off,
  pow2 (sp_gran sp) -> pow2 align ->
  spec_lower sp size align atype = SGrant off PLower ->
  let e := align_up (last_end (sp_lo sp)) align in
  sp_mode sp <> MRing /\
  (off = e \/ (off = align_up e (sp_gran sp) /\ prev_conflict (sp_h sp) (sp_gran sp) (sp_lo sp) e atype = true)) /\
  last_end (sp_lo sp) <= off /\ off mod align = 0 /\ off + size <= top_start sp /\
  next_conflict (sp_h sp) (sp_gran sp) (sp_sec sp) off size atype = false.
Proof. exact lower_at_aligned_end. Qed.

Theorem C16_upper_below_previous : forall sp size align atype off,
  pow2 (sp_gran sp) -> pow2 align ->
  spec_upper sp size align atype = SGrant off PUpper ->
  let c0 := align_down (top_start sp - size) align in
  sp_mode sp <> MRing /\
  (off = c0 \/ (next_conflict (sp_h sp) (sp_gran sp) (sp_sec sp) c0 size atype = true /\ off < c0)) /\
  off + size <= top_start sp /\ off mod align = 0 /\ last_end (sp_lo sp) <= off /\
  prev_conflict (sp_h sp) (sp_gran sp) (sp_lo sp) off atype = false.
Proof. exact upper_below_previous. Qed.

Theorem C16_wrap_only_when_end_full : forall sp size align atype off,
  spec_lower sp size align atype = SGrant off PWrap ->
  (sp_mode sp = MRing \/
   (sp_mode sp <> MRing /\ sp_sec sp = [] /\
    top_start sp < bump (sp_h sp) (sp_gran sp) (sp_lo sp) (align_up (last_end (sp_lo sp)) align) atype + size)) /\
  exists first_lo rest, sp_lo sp = first_lo :: rest /\ off + size <= s_off first_lo /\
    next_conflict (sp_h sp) (sp_gran sp) (sp_lo sp) off size atype = false.
Proof. exact wrap_only_when_end_full. Qed.

Theorem C16_ends_never_cross : forall h gr size ops,
  lcfg_ok gr size -> sops_ok (spec_init h gr size) ops ->
  let sp := srun (spec_init h gr size) ops in
  sp_mode sp <> MRing -> forall a b, In a (sp_lo sp) -> In b (sp_sec sp) -> send a <= s_off b.
Proof. intros h gr size ops (Hs & Hg). apply ends_never_cross; auto. Qed.

Theorem C16_wrap_only_into_freed_front : forall h gr size ops,
  lcfg_ok gr size -> sops_ok (spec_init h gr size) ops ->
  let sp := srun (spec_init h gr size) ops in
  sp_mode sp = MRing ->
  sp_lo sp <> [] /\ forall a b, In a (sp_sec sp) -> In b (sp_lo sp) -> send a <= s_off b.
Proof. intros h gr size ops (Hs & Hg). apply wrap_only_into_freed_front; auto. Qed.

Theorem C16_spec_geometry : forall h gr size ops,
  lcfg_ok gr size -> sops_ok (spec_init h gr size) ops ->
  let sp := srun (spec_init h gr size) ops in
  (forall x, In x (spec_items sp) -> 0 <= s_off x /\ send x <= size /\ 1 <= s_size x) /\
  (sp_mode sp <> MRing -> forall a b, In a (sp_lo sp) -> In b (sp_sec sp) -> send a <= s_off b) /\
  (sp_mode sp = MRing -> forall a b, In a (sp_sec sp) -> In b (sp_lo sp) -> send a <= s_off b) /\
  (sp_mode sp = MRing -> sp_lo sp <> []) /\
  (sp_mode sp = MEmpty <-> sp_sec sp = []).
Proof. intros h gr size ops (Hs & Hg). apply spec_geometry; auto. Qed.

Print Assumptions C16_lower_at_aligned_end.
Print Assumptions C16_upper_below_previous.
Print Assumptions C16_wrap_only_when_end_full.
Print Assumptions C16_ends_never_cross.
Print Assumptions C16_wrap_only_into_freed_front.
Print Assumptions C16_spec_geometry.

(* non-vacuity: an admissible history through stack, lazy deletion, ring buffer, vector swap; both
   models give the same seven outcomes (last grant at offset 24) and the same final state *)
Example C16_nonvacuous :
  lcfg_ok 1 100 /\ rops_ok (linear_init HVam 1 100) ex_ops /\
  louts (linear_init HVam 1 100) ex_ops = souts (spec_init HVam 1 100) ex_ops /\
  map o_off (souts (spec_init HVam 1 100) ex_ops) = [0; 40; 0; 0; 0; 0; 24] /\
  map o_kind (souts (spec_init HVam 1 100) ex_ops) = [ROk; ROk; ROk; ROk; ROk; ROk; ROk] /\
  abs (lrun (linear_init HVam 1 100) ex_ops) = srun (spec_init HVam 1 100) ex_ops.
Proof.
  split; [split; [lia|apply pow2_1]|]. split; [|vm_compute; auto].
  cbn [rops_ok ex_ops rop_ok op_ok]. repeat split; try exact pow2_8.
  - exists (mkSub 0 40 (Some 1) 1 40 8). split; [vm_compute; auto|reflexivity].
  - left. exists (mkSub 40 40 (Some 2) 1 40 8). split; [vm_compute; auto|reflexivity].
  - exists (mkSub 40 40 (Some 7) 1 40 8). split; [vm_compute; auto|reflexivity].
Qed.

(* an upper-address history (double stack): the lower request that would cross into the upper stack is
   refused; freeing the bottom item of the upper stack (offset 64) releases nothing for the lower
   stack, freeing its top item (offset 32) does *)
Definition ex_ops_upper : list op :=
  [OAlloc 30 8 1 0 false 0 None; OAlloc 30 16 1 0 true 0 None; OAlloc 30 8 1 0 true 0 None;
   OAlloc 30 8 1 0 false 0 None; OFree 65; OAlloc 16 8 1 0 false 0 None; OFree 33;
   OAlloc 16 8 1 0 false 0 None].

Example C16_nonvacuous_upper :
  louts (linear_init HVam 1 100) ex_ops_upper = souts (spec_init HVam 1 100) ex_ops_upper /\
  map o_kind (souts (spec_init HVam 1 100) ex_ops_upper) = [ROk; ROk; ROk; RRefused; ROk; RRefused; ROk; ROk] /\
  map o_off (souts (spec_init HVam 1 100) ex_ops_upper) = [0; 64; 32; 0; 0; 0; 0; 32].
Proof. vm_compute. auto. Qed.

(* ---------------------------------------------------------------- second tie: translated code
   GenLeaf.v is REGENERATED from /repo's Go source on every run (tools/go2coq, explicit Go integer
   semantics GoSem.v); the theorems below say that the generated definitions equal the model's
   functions on the stated ranges, so an edit of these Go functions breaks an obligation of this file. *)
From Arsenal Require GoSem GenLeaf GenLeafProofs2.

Theorem C16_code_shouldCompactFirstVector : forall l,
  -2 ^ 59 <= Linear.l_null_begin l <= 2 ^ 59 -> -2 ^ 59 <= Linear.l_null_middle l <= 2 ^ 59 ->
  Util.zlen (Linear.first l) <= 2 ^ 59 ->
  GenLeaf.shouldCompactFirstVector (Linear.l_null_begin l) (Linear.l_null_middle l) (Util.zlen (Linear.first l))
  = Linear.should_compact l.
Proof. exact GenLeafProofs2.gen_shouldCompactFirstVector_eq. Qed.
Print Assumptions C16_code_shouldCompactFirstVector.
