From Coq Require Import ZArith List Bool Lia.
From Arsenal Require Import Util.
From Arsenal Require Import Budget BudgetProofs.
From Arsenal Require VamDev VamBlockList Vam VamInv VamInvThm VamProps VamAcct VamAcctThm VamDefrag VamDefragThm VamDefragAcct VamAcctStep VamStats VamNpThm.
Import ListNotations.
Open Scope Z_scope.
(* C04 — Allocator statistics and heap budget figures equal device ground truth.
   Component theorems (vam/internal/vulkan/device_memory.go): for every sequence of
   AllocateVulkanMemory (succeeding, refused by a limit, or failed by the driver), FreeVulkanMemory,
   AddAllocation, RemoveAllocation and HeapBudget calls in the domain (free/remove only what was
   added), the four per-heap counters and memoryCount equal the number and byte sums of the memory
   objects and allocations that are actually outstanding — in particular a failed allocation rolls
   back exactly — and HeapBudget's usage figure is blockBytes (without the budget extension) or
   max 0 (vulkanUsage + blockBytes - blockBytesAtFetch) with a refetch after more than 30
   operations (with it).  That every path of the allocator (block creation/destruction, dedicated
   pages, multi-allocation unwinds, defragmentation temporaries, pools) calls these functions with
   the right arguments, and CalculateStatistics' per-type/heap/total figures, are decided by the
   whole-allocator exploration (vamh, including fault injection) against the simulated device. *)

Theorem C04_counters_equal_truth : forall cfg rep0 ops,
  in_bdomain cfg rep0 ops = true ->
  let s := bfinal cfg rep0 ops in
  let g := btruth cfg rep0 ops in
  (forall h, bc (heaps s h) = cnt (g_mems g) h /\ bb (heaps s h) = sum (g_mems g) h /\
             ac (heaps s h) = cnt (g_allocs g) h /\ ab (heaps s h) = sum (g_allocs g) h) /\
  memCount s = len (g_mems g).
Proof. exact counters_equal_truth. Qed.
Print Assumptions C04_counters_equal_truth.

Theorem C04_failed_alloc_exact : forall cfg rep0 ops h sz f s' r cs,
  in_bdomain cfg rep0 (ops ++ [OAllocMem h sz f]) = true ->
  bstep cfg (bfinal cfg rep0 ops) (OAllocMem h sz f) = (s', r, cs) -> r <> BOk ->
  (forall x, heaps s' x = heaps (bfinal cfg rep0 ops) x) /\
  memCount s' = memCount (bfinal cfg rep0 ops).
Proof. exact failed_alloc_exact. Qed.
Print Assumptions C04_failed_alloc_exact.

Theorem C04_usage_formula : forall cfg rep0 ops h rep s' r cs,
  in_bdomain cfg rep0 ops = true -> budgetExt cfg = false ->
  bstep cfg (bfinal cfg rep0 ops) (OHeapBudget h rep) = (s', r, cs) ->
  exists bcn acn abn,
    r = BBudget bcn acn (bb (heaps (bfinal cfg rep0 ops) h)) abn
                (bb (heaps (bfinal cfg rep0 ops) h)) (guess_budget cfg h) /\
    bb (heaps (bfinal cfg rep0 ops) h) = sum (g_mems (btruth cfg rep0 ops)) h /\
    cs = [] /\ s' = bfinal cfg rep0 ops.
Proof. exact usage_formula. Qed.
Print Assumptions C04_usage_formula.

Example C04_nonvacuous : in_bdomain ex_cfg ex_rep ex_bops = true.
Proof. exact ex_in_bdomain. Qed.

(* ---------------------------------------------------------------- whole allocator (model Vam*.v)
   For EVERY state reachable from vam.New by any sequence of API calls in the domain (request, pool-block and
   resource sizes below 2^62; at most 2^22 Allocation objects), each with ANY fault oracle for its driver
   calls (failed and refused operations are steps too): the allocator's per-heap budget counters are
   exactly the number / bytes of the VkDeviceMemory objects live on the (simulated) device and of the
   allocated Allocation objects; without the budget extension HeapBudget's usage figure is the device's
   bytes; CalculateStatistics' per-type walk never panics and its blocks / allocations / block bytes /
   allocation bytes equal the figures recomputed from the block lists, pools and dedicated lists.
   OPEN: the min / max / unused-range figures and the heap / total aggregation of CalculateStatistics, the
   steps of a defragmentation run (decided by the vamh exploration). *)
Module Allocator.
Import VamDev VamBlockList Vam VamInv VamInvThm VamProps VamAcct VamAcctThm.

Theorem C04_allocator_budget_equals_truth : forall c v,
  cfg_acct c -> reachA c v ->
  (forall h, heaps (m_bud (v_m v)) h = mkHc (dev_count c v h) (alloc_count c v h) (dev_bytes c v h) (alloc_bytes c v h)) /\
  memCount (m_bud (v_m v)) = zlen (m_mems (v_m v)).
Proof. intros c v Ha. exact (budget_equals_truth c Ha v). Qed.
Print Assumptions C04_allocator_budget_equals_truth.

Theorem C04_allocator_dev_bytes_is_device : forall c v h,
  cfg_acct c -> dev_bytes c v h = dev_heap_bytes c (m_mems (v_m v)) h.
Proof. intros c v h Ha. exact (dev_bytes_heap_bytes c Ha v h). Qed.
Print Assumptions C04_allocator_dev_bytes_is_device.

Theorem C04_allocator_usage_equals_truth : forall c v h,
  cfg_acct c -> reachA c v -> budget_active c = false ->
  let '(m', usage, budget) := heap_budget c (v_m v) h in usage = dev_bytes c v h.
Proof. intros c v h Ha. exact (usage_equals_truth c Ha v h). Qed.
Print Assumptions C04_allocator_usage_equals_truth.

Theorem C04_allocator_stats_equal_truth : forall c v t,
  cfg_ok c -> reach c v -> exists d, type_dstats v t = Some d /\ basic d = type_truth v t.
Proof. intros c v t Hc R. apply (stats_equal_truth c). apply reach_inv; assumption. Qed.
Print Assumptions C04_allocator_stats_equal_truth.

Example C04_allocator_nonvacuous :
  match vam_new exA_cfg 4 with
  | OK v0 =>
    let '(vf, rs) := exA_run v0 exA_ops in
    reachA exA_cfg vf /\ rs = [ROk; ROk; RErr (-2); RErr (-2); ROk] /\
    heaps (m_bud (v_m vf)) 0 = mkHc 2 1 (16384 + 300000) 300000 /\ zlen (m_mems (v_m vf)) = 2
  | _ => False
  end.
Proof. exact acct_nonvacuous. Qed.

(* The same with defragmentation: reachDA = states reachable when defragmentation runs (Begin / pass / End with
   any copy-ignore-destroy decisions / Finish, any fault oracle) are interleaved with API calls between passes
   (any bufferImageGranularity; at most 2^22 Allocation objects incl. the temporaries of a pass). *)
Theorem C04_allocator_budget_equals_truth_defrag : forall c v run,
  cfg_acct c -> VamDefragAcct.reachDA c v run ->
  (forall h, heaps (m_bud (v_m v)) h = mkHc (dev_count c v h) (alloc_count c v h) (dev_bytes c v h) (alloc_bytes c v h)) /\
  memCount (m_bud (v_m v)) = zlen (m_mems (v_m v)).
Proof. intros c v run Ha. exact (VamDefragAcct.budget_equals_truth_defrag c Ha v run). Qed.
Print Assumptions C04_allocator_budget_equals_truth_defrag.

Theorem C04_allocator_stats_equal_truth_defrag : forall c v run t,
  cfg_acct c -> VamDefragAcct.reachDA c v run -> exists d, type_dstats v t = Some d /\ basic d = type_truth v t.
Proof. intros c v run t Ha. exact (VamDefragAcct.stats_equal_truth_defrag c Ha v run t). Qed.
Print Assumptions C04_allocator_stats_equal_truth_defrag.
(* CalculateStatistics completely: it never hits its final assertions, and for every memory type the detailed
   statistics (blocks, allocations, bytes; allocation size min/max; unused range count/min/max) are those of the
   live regions and free ranges of the blocks, pools and dedicated allocations of that type; every heap entry is
   the aggregate (sums, minima, maxima) of the types of that heap, and the total the aggregate of all types. *)
Theorem C04_allocator_calculate_statistics_truth : forall c v pt ph tot,
  cfg_acct c -> reachA c v -> Vam.calculate_statistics c v = Some (pt, ph, tot) ->
  (length pt = length (c_types c) /\
   (forall i, (i < length (c_types c))%nat ->
      exists d, List.nth_error pt i = Some d /\ basic d = type_truth v (Z.of_nat i) /\
        VamStats.detail d (VamStats.type_alloc_sizes v (Z.of_nat i)) (VamStats.type_free_sizes v (Z.of_nat i)))) /\
  (length ph = length (c_heaps c) /\
   (forall h, (h < length (c_heaps c))%nat ->
      exists d, List.nth_error ph h = Some d /\ VamStats.agg d (VamStats.heap_part c pt 0 (Z.of_nat h)))) /\
  VamStats.agg tot pt.
Proof.
  intros c v pt ph tot Ha R.
  apply VamStats.calculate_statistics_truth.
  - apply reach_inv; [exact (ca_ok c Ha)|exact (reachA_reach c v R)].
  - exact (VamNpThm.blocks_bounded_A c Ha v nil nil (reachA_inv c Ha v R)).
Qed.
Print Assumptions C04_allocator_calculate_statistics_truth.

Theorem C04_allocator_calculate_statistics_some : forall c v,
  cfg_acct c -> reachA c v -> exists pt ph tot, Vam.calculate_statistics c v = Some (pt, ph, tot).
Proof.
  intros c v Ha R. apply VamStats.calculate_statistics_some.
  - apply reach_inv; [exact (ca_ok c Ha)|exact (reachA_reach c v R)].
  - exact (VamNpThm.blocks_bounded_A c Ha v nil nil (reachA_inv c Ha v R)).
Qed.
Print Assumptions C04_allocator_calculate_statistics_some.
End Allocator.
