From Coq Require Import ZArith List Bool Lia.
From Arsenal Require Import Util.
From Arsenal Require Import Budget BudgetProofs.
Import ListNotations.
Open Scope Z_scope.
(* C04 — Allocator statistics and heap budget figures equal device ground truth.
   Component theorems (vam/internal/vulkan/device_memory.go): for every sequence of
   AllocateVulkanMemory (succeeding, refused by a limit, or failed by the driver), FreeVulkanMemory,
   AddAllocation, RemoveAllocation and HeapBudget calls in the domain (free/remove only what was
   added), the four per-heap counters and memoryCount equal the number and byte sums of the memory
   objects and allocations that are actually outstanding — in particular a failed allocation rolls
   back exactly — and HeapBudget's usage figure is blockBytes (without the budget extension) or
   max 0 (vulkanUsage + blockBytes - blockBytesAtFetch) with a refetch after more than 30
   operations (with it).  That every path of the allocator (block creation/destruction, dedicated
   pages, multi-allocation unwinds, defragmentation temporaries, pools) calls these functions with
   the right arguments, and CalculateStatistics' per-type/heap/total figures, are decided by the
   whole-allocator exploration (vamh, including fault injection) against the simulated device. *)

Theorem C04_counters_equal_truth : forall cfg rep0 ops,
  in_bdomain cfg rep0 ops = true ->
  let s := bfinal cfg rep0 ops in
  let g := btruth cfg rep0 ops in
  (forall h, bc (heaps s h) = cnt (g_mems g) h /\ bb (heaps s h) = sum (g_mems g) h /\
             ac (heaps s h) = cnt (g_allocs g) h /\ ab (heaps s h) = sum (g_allocs g) h) /\
  memCount s = len (g_mems g).
Proof. exact counters_equal_truth. Qed.
Print Assumptions C04_counters_equal_truth.

Theorem C04_failed_alloc_exact : forall cfg rep0 ops h sz f s' r cs,
  in_bdomain cfg rep0 (ops ++ [OAllocMem h sz f]) = true ->
  bstep cfg (bfinal cfg rep0 ops) (OAllocMem h sz f) = (s', r, cs) -> r <> BOk ->
  (forall x, heaps s' x = heaps (bfinal cfg rep0 ops) x) /\
  memCount s' = memCount (bfinal cfg rep0 ops).
Proof. exact failed_alloc_exact. Qed.
Print Assumptions C04_failed_alloc_exact.

Theorem C04_usage_formula : forall cfg rep0 ops h rep s' r cs,
  in_bdomain cfg rep0 ops = true -> budgetExt cfg = false ->
  bstep cfg (bfinal cfg rep0 ops) (OHeapBudget h rep) = (s', r, cs) ->
  exists bcn acn abn,
    r = BBudget bcn acn (bb (heaps (bfinal cfg rep0 ops) h)) abn
                (bb (heaps (bfinal cfg rep0 ops) h)) (guess_budget cfg h) /\
    bb (heaps (bfinal cfg rep0 ops) h) = sum (g_mems (btruth cfg rep0 ops)) h /\
    cs = [] /\ s' = bfinal cfg rep0 ops.
Proof. exact usage_formula. Qed.
Print Assumptions C04_usage_formula.

Example C04_nonvacuous : in_bdomain ex_cfg ex_rep ex_bops = true.
Proof. exact ex_in_bdomain. Qed.
