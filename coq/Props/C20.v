(* C20 — Everything is given back: teardown is leak-free and leaks are reported.
   Whole-allocator level (model Vam*.v, tied to the Go code by the vamh correspondence runs).
   For EVERY reachable state of the allocator model (allocator creation followed by any sequence of API calls in
   the API domain, each with ANY fault oracle for its driver calls):
     - C20_pool_ids_distinct          distinct pools have distinct Pool.ID()s (and distinct identities),
     - C20_destroy_refuses_live       while any Allocation object is allocated, Allocator.Destroy returns an error
                                      and changes NOTHING (no memory released, state identical),
     - C20_pool_destroy_refuses_live  the same for Pool.Destroy of the pool an allocation was made from,
     - C20_destroy_never_refuses      with no allocation and no pool left, Allocator.Destroy does not refuse,
     - C20_destroy_clean              a successful Allocator.Destroy leaves the allocator without any block, pool or
                                      dedicated allocation and the DEVICE WITHOUT ANY MEMORY OBJECT (hence without
                                      any mapping), and all allocator invariants still hold.
     - C20_retention_bound            in every reachable state every block list (default or custom pool) holds at
                                      most max(1, MinBlockCount) EMPTY blocks — also right after a failed or refused
                                      (multi-)allocation, whose unwind keeps its blocks (repair 0afebd6) and then releases
                                      the blocks the request created; the bound does not depend on the incremental sort,
     - C20_retention_after_free_all   hence after all allocations were freed a list holds at most max(1, MinBlockCount)
                                      blocks (clause 1 of the property),
     - C20_block_count_bounds         and MinBlockCount <= #blocks <= MaxBlockCount throughout.
   (reachL: reach with pools created with MinBlockCount >= 0; reachL_reach : reachL c v -> reach c v.)
     - C20_pool_destroy_clean         a successful Pool.Destroy unlinks the pool, leaves NO device memory object of any
                                      of its blocks on the device, keeps every other block list and every Allocation
                                      object as they were, and all allocator invariants still hold.
     - C20_retention_bound_defrag /   the retention bound and the block count bounds also hold in every state of a history
       C20_block_count_bounds_defrag  that contains defragmentation runs (reachDL: ordinary calls between passes, pools with
                                      MinBlockCount >= 0, any bufferImageGranularity): a pass creates no
                                      block, completing a move frees through memoryBlockList.Free with its retention
                                      policy, everything else keeps used blocks used. *)
From Coq Require Import ZArith List Lia.
From Arsenal Require Import VamDev VamBlockList Vam VamInvMeta VamInv VamInvStep VamInvThm VamProps VamPoolProps VamShape VamShapeStep VamDefragThm VamDefragShape.
From Arsenal Require Bits VamAcctThm VamAcctProps.
Import ListNotations.
Open Scope Z_scope.

Theorem C20_pool_ids_distinct : forall c v,
  cfg_ok c -> reach c v -> NoDup (map p_id (v_pools v)) /\ NoDup (map p_uid (v_pools v)).
Proof. intros c v Hc R. apply (pool_ids_distinct c). apply reach_inv; auto. Qed.
Print Assumptions C20_pool_ids_distinct.

Theorem C20_destroy_refuses_live : forall c v s a,
  cfg_ok c -> reach c v -> slot_is v s a -> allocator_destroy c v = (v, ER 0).
Proof. intros c v s a Hc R. apply destroy_refuses_live. apply reach_inv; auto. Qed.
Print Assumptions C20_destroy_refuses_live.

Theorem C20_pool_destroy_refuses_live : forall c v s a uid,
  cfg_ok c -> reach c v -> slot_is v s a -> a_lref a = LPool uid -> pool_destroy c v uid = (v, ER 0).
Proof. intros c v s a uid Hc R. apply pool_destroy_refuses_live. apply reach_inv; auto. Qed.
Print Assumptions C20_pool_destroy_refuses_live.

Theorem C20_destroy_never_refuses : forall c v v' r,
  cfg_ok c -> reach c v -> (forall s a, ~ slot_is v s a) -> v_pools v = [] ->
  allocator_destroy c v = (v', r) -> r = OK tt \/ r = PANIC \/ r = STUCK.
Proof. intros c v v' r Hc R. apply destroy_succeeds; auto. apply reach_inv; auto. Qed.
Print Assumptions C20_destroy_never_refuses.

Theorem C20_destroy_clean : forall c v v',
  cfg_ok c -> reach c v -> allocator_destroy c v = (v', OK tt) ->
  VamInv c v' /\ m_mems (v_m v') = [] /\ v_pools v' = [] /\
  (forall lr l, get_blist v' lr = Some l -> bl_blocks l = []) /\ (forall lr, get_dedlist v' lr = []) /\
  (forall s a, ~ slot_is v' s a).
Proof. intros c v v' Hc R. apply destroy_clean; auto. apply reach_inv; auto. Qed.
Print Assumptions C20_destroy_clean.

Theorem C20_retention_bound : forall c v lr l,
  cfg_ok c -> reachL c v -> get_blist v lr = Some l -> cnt_empty (bl_blocks l) <= Z.max 1 (bl_min l).
Proof. intros c v lr l Hc. apply retention_bound. exact Hc. Qed.
Print Assumptions C20_retention_bound.

Theorem C20_retention_after_free_all : forall c v lr l,
  cfg_ok c -> reachL c v -> get_blist v lr = Some l -> (forall s a, ~ slot_is v s a) ->
  zlen (bl_blocks l) <= Z.max 1 (bl_min l).
Proof. intros c v lr l Hc. apply retention_after_free_all. exact Hc. Qed.
Print Assumptions C20_retention_after_free_all.

Theorem C20_block_count_bounds : forall c v lr l,
  cfg_ok c -> reachL c v -> get_blist v lr = Some l -> bl_min l <= zlen (bl_blocks l) <= bl_max l.
Proof. intros c v lr l Hc. apply pool_block_bounds. exact Hc. Qed.
Print Assumptions C20_block_count_bounds.

(* Destroy on a reachable allocator without live allocations and without pools SUCCEEDS: it neither refuses
   nor panics nor gets stuck (domain of the budget counters: sizes below 2^62, cfg_acct). *)
Theorem C20_destroy_never_fails : forall c v,
  VamAcctThm.cfg_acct c -> VamAcctThm.reachA c v -> (forall s a, ~ slot_is v s a) -> v_pools v = [] ->
  exists v', allocator_destroy c v = (v', OK tt).
Proof. intros c v Ha. exact (VamAcctProps.destroy_never_fails c Ha v). Qed.
Print Assumptions C20_destroy_never_fails.

Theorem C20_pool_destroy_clean : forall c v uid v',
  cfg_ok c -> reach c v -> pool_destroy c v uid = (v', OK tt) ->
  VamInv c v' /\ tab_frame v v' [] /\
  find_pool (v_pools v') uid = None /\ get_blist v' (LPool uid) = None /\
  (forall lr, lr <> LPool uid -> get_blist v' lr = get_blist v lr) /\
  (forall l b, get_blist v (LPool uid) = Some l -> In b (bl_blocks l) -> find_mem (m_mems (v_m v')) (bk_mem b) = None).
Proof. intros c v uid v' Hc R. apply pool_destroy_clean; auto. apply reach_inv; auto. Qed.
Print Assumptions C20_pool_destroy_clean.

Theorem C20_retention_bound_defrag : forall c v run lr l,
  cfg_ok c -> reachDL c v run -> get_blist v lr = Some l -> cnt_empty (bl_blocks l) <= Z.max 1 (bl_min l).
Proof. intros c v run lr l Hc. apply retention_bound_defrag; auto. Qed.
Print Assumptions C20_retention_bound_defrag.

Theorem C20_block_count_bounds_defrag : forall c v run lr l,
  cfg_ok c -> reachDL c v run -> get_blist v lr = Some l -> bl_min l <= zlen (bl_blocks l) <= bl_max l.
Proof. intros c v run lr l Hc. apply pool_block_bounds_defrag; auto. Qed.
Print Assumptions C20_block_count_bounds_defrag.

(* non-vacuity: one 1 MiB heap, two types; a block allocation and a dedicated one; Destroy is refused and changes
   nothing; after freeing both, Destroy succeeds and the device holds no memory object *)
Definition ex_cfg : vcfg :=
  mkVcfg 10 false 1 1 4096 false 0 true [mkHeap 1048576 true (-1) 1048576 0] [mkType 0 1; mkType 0 6].

Fixpoint ex_run (v : vam) (ops : list op) : vam * list result :=
  match ops with
  | [] => (v, [])
  | o :: tl => let '(v', r, _) := step ex_cfg v o no_fault in let '(vf, rs) := ex_run v' tl in (vf, r :: rs)
  end.

Definition ex_ops : list op :=
  [ OAlloc 0 1000 16 3 0 0 0 0 0 None; OAlloc 1 5000 64 3 0 1 0 0 0 None; ODestroy; OFree 0; OFree 1; ODestroy ].

Example C20_nonvacuous :
  match vam_new ex_cfg 4 with
  | OK v0 =>
    let '(vf, rs) := ex_run v0 ex_ops in
    rs = [ROk; ROk; RErr 0; ROk; ROk; ROk] /\ m_mems (v_m vf) = [] /\
    zlen (m_mems (v_m (fst (ex_run v0 [OAlloc 0 1000 16 3 0 0 0 0 0 None; OAlloc 1 5000 64 3 0 1 0 0 0 None; ODestroy])))) = 2
  | _ => False
  end.
Proof. vm_compute. repeat split; reflexivity. Qed.
