From Coq Require Import ZArith List Bool Lia.
From Arsenal Require Import Util.
From Arsenal Require Import SyncMem SyncMemProofs.
Import ListNotations.
Open Scope Z_scope.
(* C14 — Mapped pointers address exactly the allocation's own bytes; map and unmap balance.
   Component theorems (mapping state machine): the reference count of a memory block equals the
   outstanding successful Map references minus Unmap references, the device memory stays mapped
   for as long as any reference is outstanding, and an Unmap or a sub-allocation/free event by one
   user that leaves references behind makes no driver call at all (so it cannot unmap memory
   another user relies on).  That the pointer handed out is base + the allocation's current
   offset in the memory object the allocation reports (also after defragmentation) is decided by
   the whole-allocator exploration (vamh): a byte pattern written through the real pointer is
   located in the simulated device's backing store. *)

Theorem C14_refs_balance : forall ops,
  in_domain ops = true ->
  mapRefs (final ops) = outstanding ops /\
  exists df, dev_run dev_init (trace ops) = Some df /\
             (freed (final ops) = false -> 0 < outstanding ops ->
              d_mapped df = true /\ mapped (final ops) = true).
Proof. exact refs_balance. Qed.
Print Assumptions C14_refs_balance.

Theorem C14_unmap_keeps_others : forall s d o s' r cs,
  reachable s d -> freed s = false ->
  (o = OSubAllocFree \/ exists n, o = OUnmap n) ->
  step s o = (s', r, cs) -> 0 < mapRefs s' ->
  cs = [] /\ mapped s' = true /\ dev_run d cs = Some d /\ d_mapped d = true.
Proof. exact unmap_keeps_others. Qed.
Print Assumptions C14_unmap_keeps_others.

Example C14_nonvacuous : in_domain ex_ops = true.
Proof. exact ex_in_domain. Qed.

(* ---------------------------------------------------------------- second tie: translated code
   GenLeaf.v is REGENERATED from /repo's Go source on every run (tools/go2coq, explicit Go integer
   semantics GoSem.v); the theorems below say that the generated definitions equal the model's
   functions on the stated ranges, so an edit of these Go functions breaks an obligation of this file. *)
From Arsenal Require GoSem GenLeaf GenLeafProofs.

Theorem C14_code_postMapUnmap : forall s,
  GenLeaf.postMapUnmap (SyncMem.delayCounter s) (SyncMem.statusCounter s) (SyncMem.extra s)
  = (snd (SyncMem.post_map_unmap s), SyncMem.delayCounter (fst (SyncMem.post_map_unmap s)),
     SyncMem.statusCounter (fst (SyncMem.post_map_unmap s)), SyncMem.extra (fst (SyncMem.post_map_unmap s)))
  /\ fst (SyncMem.post_map_unmap s)
     = SyncMem.set_extra (SyncMem.set_counters s (SyncMem.delayCounter (fst (SyncMem.post_map_unmap s))) (SyncMem.statusCounter (fst (SyncMem.post_map_unmap s))))
                 (SyncMem.extra (fst (SyncMem.post_map_unmap s))).
Proof. exact GenLeafProofs.gen_postMapUnmap_eq. Qed.
Print Assumptions C14_code_postMapUnmap.
