From Coq Require Import ZArith List Bool Lia.
From Arsenal Require Import Util.
From Arsenal Require VamDev VamBlockList Vam VamInv VamInvThm VamAcctThm VamMap VamMapThm VamDefrag VamDefragThm VamDefragAcct VamDefragMap VamBal VamBalThm VamDefragBal VamPointer VamPtrStable VamPtrValue.
From Arsenal Require Import SyncMem SyncMemProofs.
Import ListNotations.
Open Scope Z_scope.
(* C14 — Mapped pointers address exactly the allocation's own bytes; map and unmap balance.
   Component theorems (mapping state machine): the reference count of a memory block equals the
   outstanding successful Map references minus Unmap references, the device memory stays mapped
   for as long as any reference is outstanding, and an Unmap or a sub-allocation/free event by one
   user that leaves references behind makes no driver call at all (so it cannot unmap memory
   another user relies on).  That the pointer handed out is base + the allocation's current
   offset in the memory object the allocation reports (also after defragmentation) is decided by
   the whole-allocator exploration (vamh): a byte pattern written through the real pointer is
   located in the simulated device's backing store. *)

Theorem C14_refs_balance : forall ops,
  in_domain ops = true ->
  mapRefs (final ops) = outstanding ops /\
  exists df, dev_run dev_init (trace ops) = Some df /\
             (freed (final ops) = false -> 0 < outstanding ops ->
              d_mapped df = true /\ mapped (final ops) = true).
Proof. exact refs_balance. Qed.
Print Assumptions C14_refs_balance.

Theorem C14_unmap_keeps_others : forall s d o s' r cs,
  reachable s d -> freed s = false ->
  (o = OSubAllocFree \/ exists n, o = OUnmap n) ->
  step s o = (s', r, cs) -> 0 < mapRefs s' ->
  cs = [] /\ mapped s' = true /\ dev_run d cs = Some d /\ d_mapped d = true.
Proof. exact unmap_keeps_others. Qed.
Print Assumptions C14_unmap_keeps_others.

Example C14_nonvacuous : in_domain ex_ops = true.
Proof. exact ex_in_domain. Qed.

(* ---------------------------------------------------------------- second tie: translated code
   GenLeaf.v is REGENERATED from /repo's Go source on every run (tools/go2coq, explicit Go integer
   semantics GoSem.v); the theorems below say that the generated definitions equal the model's
   functions on the stated ranges, so an edit of these Go functions breaks an obligation of this file. *)
From Arsenal Require GoSem GenLeaf GenLeafProofs.

Theorem C14_code_postMapUnmap : forall s,
  GenLeaf.postMapUnmap (SyncMem.delayCounter s) (SyncMem.statusCounter s) (SyncMem.extra s)
  = (snd (SyncMem.post_map_unmap s), SyncMem.delayCounter (fst (SyncMem.post_map_unmap s)),
     SyncMem.statusCounter (fst (SyncMem.post_map_unmap s)), SyncMem.extra (fst (SyncMem.post_map_unmap s)))
  /\ fst (SyncMem.post_map_unmap s)
     = SyncMem.set_extra (SyncMem.set_counters s (SyncMem.delayCounter (fst (SyncMem.post_map_unmap s))) (SyncMem.statusCounter (fst (SyncMem.post_map_unmap s))))
                 (SyncMem.extra (fst (SyncMem.post_map_unmap s))).
Proof. exact GenLeafProofs.gen_postMapUnmap_eq. Qed.
Print Assumptions C14_code_postMapUnmap.

(* ---------------------------------------------------------------- whole allocator (model Vam*.v)
   In every reachable state the device's mapping state of every block's memory object and of every dedicated
   allocation's memory object equals the allocator's SynchronizedMemory state, and memory is mapped exactly
   while there are map references or the hysteresis extra mapping: an Unmap or Free by one user can therefore
   not unmap memory another reference still relies on.  Not covered here (vamh exploration with byte patterns
   through the real pointers): the pointer value base + offset, per-user balance, defragmentation. *)
Module Allocator.
Import VamDev VamBlockList Vam VamInv VamInvThm VamAcctThm VamMap VamMapThm.

Theorem C14_allocator_block_mapping_agrees : forall c v lr l b,
  cfg_acct c -> reachA c v -> get_blist v lr = Some l -> List.In b (bl_blocks l) ->
  exists d, find_mem (m_mems (v_m v)) (bk_mem b) = Some d /\
    dm_mapped d = SyncMem.mapped (bk_sm b) /\
    (SyncMem.mapped (bk_sm b) = true <-> 0 < SyncMem.mapRefs (bk_sm b) \/ SyncMem.extra (bk_sm b) = true) /\
    0 <= SyncMem.mapRefs (bk_sm b).
Proof. intros c v lr l b Ha. exact (block_mapping_agrees c Ha v lr l b). Qed.
Print Assumptions C14_allocator_block_mapping_agrees.

Theorem C14_allocator_dedicated_mapping_agrees : forall c v s a,
  cfg_acct c -> reachA c v -> slot_is v s a -> a_kind a = 2 ->
  exists d, find_mem (m_mems (v_m v)) (a_mem a) = Some d /\
    dm_mapped d = SyncMem.mapped (a_sm a) /\
    (SyncMem.mapped (a_sm a) = true <-> 0 < SyncMem.mapRefs (a_sm a) \/ SyncMem.extra (a_sm a) = true) /\
    0 <= SyncMem.mapRefs (a_sm a).
Proof. intros c v s a Ha. exact (dedicated_mapping_agrees c Ha v s a). Qed.
Print Assumptions C14_allocator_dedicated_mapping_agrees.
Theorem C14_allocator_block_mapping_agrees_defrag : forall c v run lr l b,
  cfg_acct c -> VamDefragAcct.reachDA c v run -> get_blist v lr = Some l -> List.In b (bl_blocks l) ->
  exists d, find_mem (m_mems (v_m v)) (bk_mem b) = Some d /\
    dm_mapped d = SyncMem.mapped (bk_sm b) /\
    (SyncMem.mapped (bk_sm b) = true <-> 0 < SyncMem.mapRefs (bk_sm b) \/ SyncMem.extra (bk_sm b) = true).
Proof. intros c v run lr l b Ha. exact (VamDefragMap.block_mapping_agrees_defrag c Ha v run lr l b). Qed.
Print Assumptions C14_allocator_block_mapping_agrees_defrag.
(* Per-user balance.  G s = number of outstanding user Maps of Allocation object s (ghost; gstep: +1 on a
   successful Map, -1 on a successful Unmap).  reachB = reachable states of histories whose callers obey
   "no Unmap without a Map; Free / Destroy only without outstanding user maps" (op_bal; in Go these calls block
   on or misuse Allocation.mapLock).  Then the reference count of every block's memory is exactly the sum of
   its users' outstanding maps plus one per persistently mapped allocation, a user pointer or a persistent
   mapping never dangles (the memory object is alive and mapped), a failed Map changes no count, and freeing an
   allocation drops exactly its own persistent reference.  reachDB: the same along histories with
   defragmentation (no source of a pending move has an outstanding user Map at EndDefragPass). *)
Theorem C14_allocator_block_refs_balance : forall c v G lr l b,
  cfg_acct c -> VamBalThm.reachB c v G -> get_blist v lr = Some l -> List.In b (bl_blocks l) ->
  SyncMem.mapRefs (bk_sm b) = VamBal.refs_truth v G nil (bk_mem b).
Proof. intros c v G lr l b Ha. exact (VamBalThm.block_refs_balance c Ha v G lr l b). Qed.
Print Assumptions C14_allocator_block_refs_balance.

Theorem C14_allocator_mapped_while_in_use : forall c v G s a,
  cfg_acct c -> VamBalThm.reachB c v G -> slot_is v s a -> (1 <= G s \/ a_persist a = true) ->
  exists d, find_mem (m_mems (v_m v)) (a_mem a) = Some d /\ dm_mapped d = true.
Proof. intros c v G s a Ha. exact (VamBalThm.mapped_while_in_use c Ha v G s a). Qed.
Print Assumptions C14_allocator_mapped_while_in_use.

Theorem C14_allocator_mapped_while_in_use_defrag : forall c v run G s a,
  cfg_acct c -> VamDefragBal.reachDB c v run G -> slot_is v s a -> (1 <= G s \/ a_persist a = true) ->
  exists d, find_mem (m_mems (v_m v)) (a_mem a) = Some d /\ dm_mapped d = true.
Proof. intros c v run G s a Ha. exact (VamDefragBal.mapped_while_in_use_defrag c Ha v run G s a). Qed.
Print Assumptions C14_allocator_mapped_while_in_use_defrag.

Theorem C14_allocator_free_drops_own_reference : forall c v G s a f v' calls,
  cfg_acct c -> VamBalThm.reachB c v G -> slot_is v s a -> a_kind a = 1 -> G s = 0 ->
  step c v (OFree s) f = (v', ROk, calls) ->
  forall lr l' b', get_blist v' lr = Some l' -> List.In b' (bl_blocks l') -> bk_mem b' = a_mem a ->
  SyncMem.mapRefs (bk_sm b') = VamBal.refs_truth v G nil (a_mem a) - (if a_persist a then 1 else 0).
Proof. intros c v G s a f v' calls Ha. exact (VamBalThm.free_drops_own_reference c Ha v G s a f v' calls). Qed.
Print Assumptions C14_allocator_free_drops_own_reference.

Theorem C14_allocator_failed_map_keeps_balance : forall c v G s f v' code calls,
  cfg_acct c -> VamBalThm.reachB c v G -> op_ok v (OMap s) -> step c v (OMap s) f = (v', RErr code, calls) ->
  VamBal.BInv v' G nil.
Proof. intros c v G s f v' code calls Ha. exact (VamBalThm.failed_map_keeps_balance c Ha v G s f v' code calls). Qed.
Print Assumptions C14_allocator_failed_map_keeps_balance.
(* What the pointer returned by Map is computed from: map_target v a = (memory object, FindOffset).  While a
   user holds a Map or the allocation is persistently mapped, in every state of every history (with
   defragmentation too, hence ALSO AFTER RELOCATION) that pair names a live, mapped memory object of the
   allocation's type and the allocation's own bytes: the range [offset, offset+size) lies inside the object, is
   aligned as placed (a dedicated allocation covers its whole object from 0) and is disjoint from every other
   allocated object in the same memory.  A successful Map does not move the allocation and its only possible
   driver call is vkMapMemory(memory, 0, WHOLE_SIZE).  The pointer VALUE itself (mapped base + offset) has no
   counterpart in the model; vamh checks it with byte patterns through the real pointers. *)
Theorem C14_allocator_pointer_target_valid : forall c v G s a,
  cfg_acct c -> VamBalThm.reachB c v G -> slot_is v s a -> (1 <= G s \/ a_persist a = true) -> VamPointer.target_ok v s a.
Proof. intros c v G s a Ha. exact (VamPointer.pointer_target_valid c Ha v G s a). Qed.
Print Assumptions C14_allocator_pointer_target_valid.

Theorem C14_allocator_pointer_target_valid_defrag : forall c v run G s a,
  cfg_acct c -> VamDefragBal.reachDB c v run G -> slot_is v s a -> (1 <= G s \/ a_persist a = true) -> VamPointer.target_ok v s a.
Proof. intros c v run G s a Ha. exact (VamPointer.pointer_target_valid_defrag c Ha v run G s a). Qed.
Print Assumptions C14_allocator_pointer_target_valid_defrag.

Theorem C14_allocator_map_ok_target : forall c v G s f v' calls,
  cfg_acct c -> VamBalThm.reachB c v G -> op_ok v (OMap s) -> step c v (OMap s) f = (v', ROk, calls) ->
  let a := get_alloc v s in
  slot_is v s a /\ a_mapallowed a = true /\
  (calls = nil \/ exists code, calls = (CMap (a_mem a) 0 (-1) code :: nil)%list) /\
  exists a', slot_is v' s a' /\ a_mem a' = a_mem a /\ a_size a' = a_size a /\
             VamPointer.map_target v' a' = VamPointer.map_target v a /\ VamPointer.target_ok v' s a'.
Proof. intros c v G s f v' calls Ha. exact (VamPointer.map_ok_target c Ha v G s f v' calls). Qed.
Print Assumptions C14_allocator_map_ok_target.
(* The pointer VALUE.  Ghost: every successful vkMapMemory hands out a fresh base token for its memory object
   (bases, replayed from the driver calls of each operation: brun); ptr v B a = B (a_mem a) + FindOffset is the value
   Allocation.Map hands out.  reachP = the histories of reachDB (defragmentation included) with the tokens threaded.
   - stable: across ANY API call, a user that holds a Map (or is persistently mapped) before and after and was not
     relocated sees the SAME value: no call unmaps, frees or remaps a memory object that still has a user;
   - after a successful Map: value = base + offset, where base is the token of this call's own vkMapMemory (never
     seen before) if it issued one and otherwise the token the object already had; every allocation on that object
     shares the base; the target is the allocation's own mapped bytes (target_ok);
   - after relocation: an allocation that EndDefragPass moved into the memory object of its (persistently mapped)
     temporary has the base that object's mapping already had plus the destination offset. *)
Theorem C14_allocator_pointer_value_stable : forall c v run G Bn o f v' r calls s a a',
  cfg_acct c -> VamPtrValue.reachP c v run G Bn -> VamDefragThm.op_avoids run o -> op_ok v o -> op_dom o ->
  VamBalThm.op_bal G o -> step c v o f = (v', r, calls) -> r <> RPanic -> r <> RStuck ->
  slot_is v s a -> (1 <= G s \/ a_persist a = true) ->
  slot_is v' s a' -> (1 <= VamBalThm.gstep G o r s \/ a_persist a' = true) ->
  a_mem a' = a_mem a -> find_offset v' a' = find_offset v a ->
  VamPtrValue.ptr v' (fst (VamPtrValue.brun Bn calls)) a' = VamPtrValue.ptr v (fst Bn) a.
Proof. intros c v run G Bn o f v' r calls s a a' Ha. exact (VamPtrValue.pointer_value_stable c Ha v run G Bn o f v' r calls s a a'). Qed.
Print Assumptions C14_allocator_pointer_value_stable.

Theorem C14_allocator_pointer_value_after_map : forall c v run G Bn s f v' calls,
  cfg_acct c -> VamPtrValue.reachP c v run G Bn -> VamDefragThm.op_avoids run (OMap s) -> op_ok v (OMap s) ->
  step c v (OMap s) f = (v', ROk, calls) ->
  let a := get_alloc v s in
  let B' := fst (VamPtrValue.brun Bn calls) in
  exists a' o,
    slot_is v' s a' /\ a_mem a' = a_mem a /\ find_offset v' a' = Some o /\ find_offset v a = Some o /\
    VamPtrValue.ptr v' B' a' = Some (B' (a_mem a) + o) /\ VamPointer.target_ok v' s a' /\
    ((exists off size, List.In (CMap (a_mem a) off size 0) calls) /\ B' (a_mem a) = snd Bn /\
       (forall x, fst Bn x < B' (a_mem a))
     \/ (forall off size, ~ List.In (CMap (a_mem a) off size 0) calls) /\ B' (a_mem a) = fst Bn (a_mem a)) /\
    (forall s2 a2, slot_is v' s2 a2 -> a_mem a2 = a_mem a ->
       VamPtrValue.ptr v' B' a2 = match find_offset v' a2 with Some o2 => Some (B' (a_mem a) + o2) | None => None end).
Proof. intros c v run G Bn s f v' calls Ha. exact (VamPtrValue.pointer_value_after_map c Ha v run G Bn s f v' calls). Qed.
Print Assumptions C14_allocator_pointer_value_after_map.

Theorem C14_allocator_relocated_pointer_value : forall c v run G Bn o f v' run' r calls dr t at_ s a',
  cfg_acct c -> VamPtrValue.reachP c v run G Bn -> VamDefragThm.dop_ok v run o -> VamDefragBal.dop_bal G run o ->
  Vam.dstep c v run o f = (v', run', r, calls, dr) -> r <> RPanic -> r <> RStuck ->
  Util.zlen (v_tab v') <= 4194304 ->
  slot_is v t at_ -> (1 <= G t \/ a_persist at_ = true) ->
  slot_is v' s a' -> (1 <= G s \/ a_persist a' = true) -> a_mem a' = a_mem at_ ->
  VamPtrValue.ptr v' (fst (VamPtrValue.brun Bn calls)) a'
  = match find_offset v' a' with Some o0 => Some (fst Bn (a_mem at_) + o0) | None => None end.
Proof. intros c v run G Bn o f v' run' r calls dr t at_ s a' Ha. exact (VamPtrValue.relocated_pointer_value c Ha v run G Bn o f v' run' r calls dr t at_ s a'). Qed.
Print Assumptions C14_allocator_relocated_pointer_value.
End Allocator.
