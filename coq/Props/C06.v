(* C06 — Freeing removes exactly the freed allocation and nothing else changes.
   TLSF half.  For every reachable state t and every operation o (power-of-two alignments), the
   list of live blocks after the step is the list before with exactly the surgery the operation
   calls for (TlsfStep.live_effect): a successful OFree h removes the one live block at offset h
   and leaves all others (same records: offset, size, user data, request fields) in place; a
   successful OAlloc inserts exactly one new block; OSetUD changes one tag; anything refused,
   failed or read-only leaves the list unchanged.  Because t ranges over all reachable states and
   h over all live handles, every order of frees is covered. *)
From Coq Require Import ZArith List.
From Coq Require Import Lia.
From Arsenal Require Import Util Bits Gran Tlsf TlsfGeom TlsfInv1 TlsfStep TlsfProps SizeClass TlsfInv2 TlsfStep2 TlsfProps2 GranInv GranTlsf.
From Arsenal Require Linear LinearInv LinearAlloc LinearFree LinearStep LinearSwap LinearVisit LinearProps.
Import ListNotations.
Open Scope Z_scope.

Theorem C06_tlsf_step_exact : forall h gr size ops o,
  cfg_ok gr size -> Forall op_ok ops -> op_ok o ->
  let t := run (tlsf_init h gr size) ops in
  live_effect t o (fst (step t o)) (snd (step t o)).
Proof. exact tlsf_step_exact. Qed.
Print Assumptions C06_tlsf_step_exact.

Example C06_tlsf_nonvacuous :
  cfg_ok 1024 4096 /\ Forall op_ok ex_ops /\ length (live (run (tlsf_init HVam 1024 4096) ex_ops)) = 3%nat.
Proof. exact (conj ex_cfg_ok (conj ex_ops_ok ex_live_three)). Qed.

Theorem C06_tlsf_free_live_succeeds : forall h gr size ops,
  cfg2_ok gr size -> Forall op_ok ops ->
  let t := run (tlsf_init h gr size) ops in
  forall a, In a (live t) -> exists t', step t (OFree (b_off a)) = (t', out ROk).
Proof. exact tlsf_reach_free_live_succeeds. Qed.
Print Assumptions C06_tlsf_free_live_succeeds.

Module LinearHalf.
Import Linear LinearInv LinearAlloc LinearFree LinearStep LinearSwap LinearVisit LinearProps.
Import ListNotations.

(* Linear half: exact effect of every admissible step on the live items, and freeing ANY live
   item succeeds (all free orders: front, back, middle, lower and upper stack, both halves of a
   ring buffer). *)
Theorem C06_linear_step_exact : forall h gr size l o,
  lcfg_ok gr size -> lreach h gr size l -> LinearStep.op_ok l o ->
  LinearStep.live_effect l o (fst (Linear.step l o)) (snd (Linear.step l o)).
Proof. exact linear_step_exact. Qed.
Print Assumptions C06_linear_step_exact.

Theorem C06_linear_free_live_succeeds : forall h gr size l x,
  lcfg_ok gr size -> lreach h gr size l -> In x (LinearInv.live l) ->
  Linear.o_kind (snd (Linear.step l (Linear.OFree (s_off x + 1)))) = ROk.
Proof. exact linear_free_live_succeeds. Qed.
Print Assumptions C06_linear_free_live_succeeds.

(* non-vacuity (linear): an admissible history through ring buffer, lazy deletion and vector swap *)
Example C06_linear_nonvacuous :
  lcfg_ok 1 100 /\ lreach HVam 1 100 (lrun (linear_init HVam 1 100) LinearStep.ex_ops) /\
  map s_off (LinearInv.live (lrun (linear_init HVam 1 100) LinearStep.ex_ops)) = [0; 24]%Z.
Proof.
  split; [split; [lia|exists 0; split; [lia|reflexivity]]|].
  split; [exists LinearStep.ex_ops; split; [exact (proj1 LinearStep.ex_ops_ok)|reflexivity]|].
  exact (proj1 (proj2 LinearStep.ex_ops_ok)).
Qed.

End LinearHalf.
