(* C06 — Freeing removes exactly the freed allocation and nothing else changes.
   TLSF half.  For every reachable state t and every operation o (power-of-two alignments), the
   list of live blocks after the step is the list before with exactly the surgery the operation
   calls for (TlsfStep.live_effect): a successful OFree h removes the one live block at offset h
   and leaves all others (same records: offset, size, user data, request fields) in place; a
   successful OAlloc inserts exactly one new block; OSetUD changes one tag; anything refused,
   failed or read-only leaves the list unchanged.  Because t ranges over all reachable states and
   h over all live handles, every order of frees is covered. *)
From Coq Require Import ZArith List.
From Arsenal Require Import Util Bits Gran Tlsf TlsfStep TlsfProps.
Open Scope Z_scope.

Theorem C06_tlsf_step_exact : forall h gr size ops o,
  cfg_ok gr size -> Forall op_ok ops -> op_ok o ->
  let t := run (tlsf_init h gr size) ops in
  live_effect t o (fst (step t o)) (snd (step t o)).
Proof. exact tlsf_step_exact. Qed.
Print Assumptions C06_tlsf_step_exact.

Example C06_tlsf_nonvacuous :
  cfg_ok 1024 4096 /\ Forall op_ok ex_ops /\ length (live (run (tlsf_init HVam 1024 4096) ex_ops)) = 3%nat.
Proof. exact (conj ex_cfg_ok (conj ex_ops_ok ex_live_three)). Qed.
