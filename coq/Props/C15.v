(* C15 — Defragmentation moves only forward, within per-pass limits, and terminates; the final
   statistics equal the moves actually carried out; a reused context behaves like a fresh one.

   What is proved here is the memutils level: the planner memutils/defrag (PassContext,
   MetadataDefragContext: Init, BlockListCollectMoves, BlockListCompletePass) modelled by
   Pass.v / Defrag.v over REAL TLSF block models (Tlsf.v) and the reference BlockList the
   harness `dfh` implements (it mirrors vam's memoryBlockList and completePassForMove).  The
   model is tied to the Go code by the dfh differential runs (every observable line equal).
     - C15_pass_limits / C15_collect_within_limits: for 0 <= MaxPassAllocations, 0 <= MaxPassBytes
       the moves of one pass stay within both limits, incrementCounters never panics, the pass
       counters are exactly the proposed moves; a byte limit below every allocation proposes
       nothing and ends the pass at the 16th check.
     - C15_moves_forward: every proposed move goes to a block with a smaller index in the list, or
       to a lower offset of the same block.
     - C15_stats_match / C15_run_stats_accumulate: after BlockListCompletePass, AllocationsMoved /
       BytesMoved are the number / bytes of the moves decided Copy; accumulated over a run they
       are the sums over the passes.  (BytesFreed / AllocationsFreed follow the allocation
       statistics, as the pinned tests specify; they are not constrained here.)
     - C15_run_terminates: with no user operation between passes and ANY decisions (Copy / Ignore /
       Destroy, any map iteration order of the immovable blocks) the lexicographic measure
       (BlockCount - immovableBlockCount, sum of block indices, sum of offsets) strictly decreases
       with every pass that proposes a move; C15_run_completes: such a run never fails (no panic in
       collect: not in incrementCounters, not on a metadata answer, the model's fuel suffices; no
       handler failure in complete) and ends in a pass that proposes nothing, with the block list
       invariant intact.
     - C15_reused_context_is_fresh: Init leaves a used context object with exactly the fields of a
       brand-new one, so every pass and run computed from it is the same.
   What remains for the vam wrapper (vam/defrag.go: DefragmentationContext.blockListProgress over
   several block lists, the accumulated stats field, reuse of the DefragmentationContext object,
   Allocation.swapBlockAllocation incl. the device memory and map counts): not modelled here; it
   is covered by the vamh exploration (harness/cmd/vamh, VamDefrag.v), whose oracles check the
   same properties on the whole allocator. *)
From Coq Require Import ZArith List Lia.
From Arsenal Require Import Util Tlsf Pass PassProofs Defrag DefragProofs.
Import ListNotations.
Open Scope Z_scope.

Theorem C15_pass_limits : forall mb ma evs,
  0 <= ma -> 0 <= mb -> Forall (fun e => 0 <= ev_size e) evs ->
  let o := drive (pass_init mb ma) evs [] 0 in
  do_res o <> DPanic /\
  zlen (do_moved o) <= ma /\ zsum (do_moved o) <= mb /\
  ps_allocs_moved (p_stats (do_pass o)) = zlen (do_moved o) /\
  ps_bytes_moved (p_stats (do_pass o)) = zsum (do_moved o) /\
  (Forall (fun e => mb < ev_size e) evs ->
   do_moved o = [] /\ do_ignores o < max_allocs_to_ignore /\
   (max_allocs_to_ignore <= zlen evs -> do_res o = DEnded)).
Proof. exact pass_limits. Qed.
Print Assumptions C15_pass_limits.

Example C15_pass_limits_nonvacuous :
  let o := drive (pass_init 100 2) [Ev 10 true; Ev 95 true; Ev 20 true; Ev 5 true] [] 0 in
  do_res o = DEnded /\ do_moved o = [10; 20] /\ do_ignores o = 1.
Proof. exact two_allocs_example. Qed.

Example C15_zero_allocations_proposes_nothing :
  let o := drive (pass_init 100 0) [Ev 10 true; Ev 20 true] [] 0 in
  do_res o = DEnded /\ do_moved o = [] /\ do_ignores o = 0.
Proof. exact zero_allocs_proposes_nothing. Qed.

Theorem C15_collect_within_limits : forall st c mb ma,
  WF st -> 0 <= ma -> 0 <= mb -> c_moves c = [] ->
  let res := collect_moves st c (pass_init mb ma) in
  snd res <> WPanic PCounters /\
  zlen (cs_moves (fst res)) <= ma /\ zsum (map m_size (cs_moves (fst res))) <= mb /\
  ps_allocs_moved (p_stats (cs_pass (fst res))) = zlen (cs_moves (fst res)) /\
  ps_bytes_moved (p_stats (cs_pass (fst res))) = zsum (map m_size (cs_moves (fst res))).
Proof. exact collect_within_limits. Qed.
Print Assumptions C15_collect_within_limits.

Theorem C15_moves_forward : forall st c mb ma,
  WF st -> 0 <= ma -> 0 <= mb -> c_moves c = [] ->
  forall m, In m (cs_moves (fst (collect_moves st c (pass_init mb ma)))) ->
    In (m_srcidx m, m_srcblk m) (indexed st) /\ In (m_dstidx m, m_dstblk m) (indexed st) /\
    (m_dstidx m < m_srcidx m \/ (m_dstblk m = m_srcblk m /\ m_dstoff m < m_srcoff m)).
Proof. exact moves_forward. Qed.
Print Assumptions C15_moves_forward.

Theorem C15_stats_match : forall st c p ds ord,
  WF st -> Forall (reserved st) (c_moves c) -> NoDup (map m_src (c_moves c) ++ map m_tmp (c_moves c)) ->
  ps_allocs_moved (p_stats p) = zlen (c_moves c) -> ps_bytes_moved (p_stats p) = zsum (map m_size (c_moves c)) ->
  r_kind (complete_pass st c p ds ord) = ROk /\
  ps_allocs_moved (p_stats (r_pass (complete_pass st c p ds ord))) = zlen (copies (c_moves c) ds) /\
  ps_bytes_moved (p_stats (r_pass (complete_pass st c p ds ord))) = zsum (map m_size (copies (c_moves c) ds)).
Proof.
  intros st c p ds ord HW Hres Hnd Ha Hb.
  exact (conj (complete_pass_ok st c p ds ord HW Hres Hnd) (stats_match st c p ds ord HW Hres Hnd Ha Hb)).
Qed.
Print Assumptions C15_stats_match.

Theorem C15_run_stats_accumulate : forall fuel st c mb ma acc n log st' k acc' log',
  WF st -> c_moves c = [] -> 0 <= ma -> 0 <= mb ->
  run_copy fuel st c mb ma acc n log = RunDone st' k acc' log' ->
  ps_allocs_moved acc' - log_allocs log' = ps_allocs_moved acc - log_allocs log /\
  ps_bytes_moved acc' - log_bytes log' = ps_bytes_moved acc - log_bytes log /\
  WF st'.
Proof. exact run_stats_accumulate. Qed.
Print Assumptions C15_run_stats_accumulate.

Theorem C15_run_terminates : forall st c mb ma dec acc n log,
  WF st -> c_moves c = [] -> 0 <= c_immovable c -> 0 <= ma -> 0 <= mb ->
  exists fuel, run_any fuel st c mb ma dec acc n log <> RunOutOfFuel.
Proof. exact run_terminates. Qed.
Print Assumptions C15_run_terminates.

Theorem C15_collect_never_panics : forall st c mb ma,
  WF st -> c_moves c = [] -> 0 <= ma -> 0 <= mb -> (c_algo c = 1 \/ c_algo c = 2) ->
  forall w, snd (collect_moves st c (pass_init mb ma)) <> WPanic w.
Proof. exact collect_never_panics. Qed.
Print Assumptions C15_collect_never_panics.

Theorem C15_run_completes : forall st c mb ma dec acc n log,
  WF st -> c_moves c = [] -> 0 <= c_immovable c -> 0 <= ma -> 0 <= mb -> (c_algo c = 1 \/ c_algo c = 2) ->
  exists fuel st' k acc' log', run_any fuel st c mb ma dec acc n log = RunDone st' k acc' log' /\ WF st'.
Proof. exact run_completes. Qed.
Print Assumptions C15_run_completes.

Theorem C15_reused_context_is_fresh : forall c0 algo,
  ctx_init c0 algo = ctx_fresh algo /\
  c_algo (ctx_init c0 algo) = c_algo (ctx_fresh algo) /\
  c_moves (ctx_init c0 algo) = [] /\ c_immovable (ctx_init c0 algo) = 0 /\
  (forall st p, collect_moves st (ctx_init c0 algo) p = collect_moves st (ctx_fresh algo) p) /\
  (forall st mb ma decide, one_pass_with st (ctx_init c0 algo) mb ma decide = one_pass_with st (ctx_fresh algo) mb ma decide) /\
  (forall fuel st mb ma dec acc n log,
     run_any fuel st (ctx_init c0 algo) mb ma dec acc n log = run_any fuel st (ctx_fresh algo) mb ma dec acc n log).
Proof. exact reused_context_is_fresh. Qed.
Print Assumptions C15_reused_context_is_fresh.

Theorem C15_begin_reuse_is_begin_fresh : forall w algo mb ma,
  wstep w (OpBegin algo mb ma 1) = wstep w (OpBegin algo mb ma 0).
Proof. exact begin_reuse_is_begin_fresh. Qed.
Print Assumptions C15_begin_reuse_is_begin_fresh.

(* non-vacuity: a well-formed fragmented two-block state; its first pass proposes three moves
   without panicking; the all-copy run ends after one moving pass with 3 allocations / 450 bytes
   moved; the context left by a run with an ignored move (c_immovable = 1), reused via Init,
   proposes the move again *)
Example C15_nonvacuous :
  WF ex_world /\
  (length (cs_moves (fst (collect_moves ex_world (ctx_init (mkC 0 [] 0) 2) (pass_init max_int max_int)))) = 3%nat /\
   snd (collect_moves ex_world (ctx_init (mkC 0 [] 0) 2) (pass_init max_int max_int)) = WCont) /\
  match run_copy 10 ex_world (mkC 2 [] 0) max_int max_int ps_zero 0 [] with
  | RunDone _ passes acc log => passes = 1%nat /\ ps_allocs_moved acc = 3 /\ ps_bytes_moved acc = 450
  | _ => False
  end.
Proof. split; [exact ex_world_wf|split; [exact ex_collect_three|exact ex_run_done]]. Qed.

Example C15_reused_context_nonvacuous :
  match reuse_after_run1 with
  | Some (st, c) =>
    c_immovable c = 1 /\
    length (cs_moves (fst (collect_moves st (ctx_init c 2) (pass_init max_int max_int)))) = 1%nat
  | None => False
  end.
Proof. exact reused_context_example. Qed.

(* ---------------------------------------------------------------- any granularity, failing commits
   The same statements for the general domain (DefragGranProofs.v): the blocks' metadata carry any
   granularity handler gh (HFake, or HVam = vam's blockBufferImageGranularity) and any power-of-two
   bufferImageGranularity gg; allocation kinds are arbitrary (for the page statement of C07: 1..5);
   the block list may REFUSE any commit (CommitDefragAllocationRequest returns an error): the
   planner is parameterised by an environment Env and an attempt function att, consulted once per
   commit attempt; a refused attempt takes the "no" branch (allocInOtherBlock goes to the next
   candidate block, allocIfLowerOffset returns false).  WFg gh gg is the block-list invariant of the
   general domain: as WF, every block has granularity gg (and handler gh when 1 < gg), and the
   sizes in the allocation table are fixed points of RoundUpAllocRequest for their kind (the block
   list stores AllocationRequest.Size, as vam does).  The statements above are the instance
   granularity 1, att = always succeed: C15_wf_is_gran1, C15_collect_is_collect_f, and the
   re-derivations at the end of this section. *)
From Arsenal Require DefragGranProofs.
Module General.
Import Gran GranInv DefragGranProofs.

Theorem C15_wf_is_gran1 : forall gh st, DefragProofs.WF st <-> WFg gh 1 st.
Proof. exact wf_gran1_iff. Qed.
Print Assumptions C15_wf_is_gran1.

Theorem C15_collect_is_collect_f : forall (E : Type) st c p (env : E),
  res_f (collect_moves_f E att_ok st c p env) = collect_moves st c p /\
  env_f (collect_moves_f E att_ok st c p env) = env.
Proof. exact collect_moves_f_all_ok. Qed.
Print Assumptions C15_collect_is_collect_f.

(* any attempt function that succeeds on a set P of environments it does not leave gives the old
   planner; the harness protocol with refused commits, without a failure list, is the old protocol *)
Theorem C15_collect_is_collect_f_on : forall (E : Type) att (P : E -> Prop),
  (forall e s d, P e -> snd (att e s d) = true /\ P (fst (att e s d))) ->
  forall st c p env, P env ->
  res_f (collect_moves_f E att st c p env) = collect_moves st c p /\ P (env_f (collect_moves_f E att st c p env)).
Proof. exact collect_moves_f_P. Qed.
Print Assumptions C15_collect_is_collect_f_on.

Theorem C15_no_failures_is_wstep : forall w o,
  fst (fst (wstep_f (mkWf w []) (OpF o))) = mkWf (fst (wstep w o)) [] /\
  snd (fst (wstep_f (mkWf w []) (OpF o))) = snd (wstep w o).
Proof. exact wstep_f_no_failures. Qed.
Print Assumptions C15_no_failures_is_wstep.

Theorem C15_collect_within_limits_gran : forall gh gg Env att st c mb ma (env : Env),
  WFg gh gg st -> 0 <= ma -> 0 <= mb -> c_moves c = [] ->
  let res := res_f (collect_moves_f Env att st c (pass_init mb ma) env) in
  snd res <> WPanic PCounters /\
  zlen (cs_moves (fst res)) <= ma /\ zsum (map m_size (cs_moves (fst res))) <= mb /\
  ps_allocs_moved (p_stats (cs_pass (fst res))) = zlen (cs_moves (fst res)) /\
  ps_bytes_moved (p_stats (cs_pass (fst res))) = zsum (map m_size (cs_moves (fst res))).
Proof. intros gh gg. exact (collect_within_limits_f gh gg QT KT QT_step). Qed.
Print Assumptions C15_collect_within_limits_gran.

Theorem C15_moves_forward_gran : forall gh gg Env att st c mb ma (env : Env),
  WFg gh gg st -> 0 <= ma -> 0 <= mb -> c_moves c = [] ->
  forall m, In m (cs_moves (fst (res_f (collect_moves_f Env att st c (pass_init mb ma) env)))) ->
    In (m_srcidx m, m_srcblk m) (indexed st) /\ In (m_dstidx m, m_dstblk m) (indexed st) /\
    (m_dstidx m < m_srcidx m \/ (m_dstblk m = m_srcblk m /\ m_dstoff m < m_srcoff m)).
Proof. intros gh gg. exact (moves_forward_f gh gg QT KT QT_step). Qed.
Print Assumptions C15_moves_forward_gran.

(* the attempt log: the committed attempts, in order, are exactly the moves the pass added; every
   attempt (refused or committed) names a block of the list; sources are never immovable blocks *)
Theorem C15_attempt_log : forall Env att st c p (env : Env),
  0 <= c_immovable c ->
  let X := collect_moves_f Env att st c p env in
  cs_moves (fst (res_f X)) = c_moves c ++ log_moves (log_f X) /\
  Forall (fun a => In (at_dst a) (map fst (d_blocks st))) (log_f X) /\
  Forall (fun m => c_immovable c <= m_srcidx m) (log_moves (log_f X)).
Proof. exact collect_moves_f_log. Qed.
Print Assumptions C15_attempt_log.

Theorem C15_stats_match_gran : forall gh gg st c p ds ord,
  WFg gh gg st -> Forall (reserved st) (c_moves c) -> NoDup (map m_src (c_moves c) ++ map m_tmp (c_moves c)) ->
  ps_allocs_moved (p_stats p) = zlen (c_moves c) -> ps_bytes_moved (p_stats p) = zsum (map m_size (c_moves c)) ->
  r_kind (complete_pass st c p ds ord) = ROk /\
  ps_allocs_moved (p_stats (r_pass (complete_pass st c p ds ord))) = zlen (copies (c_moves c) ds) /\
  ps_bytes_moved (p_stats (r_pass (complete_pass st c p ds ord))) = zsum (map m_size (copies (c_moves c) ds)).
Proof.
  intros gh gg st c p ds ord HW Hres Hnd Ha Hb.
  exact (conj (complete_pass_ok gh gg QT KT QT_step st c p ds ord HW Hres Hnd)
              (stats_match gh gg QT KT QT_step st c p ds ord HW Hres Hnd Ha Hb)).
Qed.
Print Assumptions C15_stats_match_gran.

Theorem C15_run_stats_accumulate_gran : forall gh gg fuel st c mb ma acc n log st' k acc' log',
  WFg gh gg st -> c_moves c = [] -> 0 <= ma -> 0 <= mb ->
  run_copy fuel st c mb ma acc n log = RunDone st' k acc' log' ->
  ps_allocs_moved acc' - log_allocs log' = ps_allocs_moved acc - log_allocs log /\
  ps_bytes_moved acc' - log_bytes log' = ps_bytes_moved acc - log_bytes log /\
  WFg gh gg st'.
Proof. intros gh gg. exact (run_stats_accumulate gh gg QT KT QT_step). Qed.
Print Assumptions C15_run_stats_accumulate_gran.

(* termination and completion of an undisturbed run with any decisions and any refused commits *)
Theorem C15_run_terminates_gran : forall gh gg Env att st c mb ma dec (env : Env) acc n log,
  WFg gh gg st -> c_moves c = [] -> 0 <= c_immovable c -> 0 <= ma -> 0 <= mb -> (c_algo c = 1 \/ c_algo c = 2) ->
  exists fuel, run_any_f Env att fuel st c mb ma dec env acc n log <> RunOutOfFuel.
Proof. intros gh gg. exact (run_any_f_terminates gh gg QT KT QT_step). Qed.
Print Assumptions C15_run_terminates_gran.

Theorem C15_run_completes_gran : forall gh gg Env att st c mb ma dec (env : Env) acc n log,
  WFg gh gg st -> c_moves c = [] -> 0 <= c_immovable c -> 0 <= ma -> 0 <= mb -> (c_algo c = 1 \/ c_algo c = 2) ->
  exists fuel st' k acc' log', run_any_f Env att fuel st c mb ma dec env acc n log = RunDone st' k acc' log' /\ WFg gh gg st'.
Proof. intros gh gg. exact (run_f_completes gh gg QT KT QT_step). Qed.
Print Assumptions C15_run_completes_gran.

(* without refused commits (run_any), also for the algorithms that propose nothing *)
Theorem C15_run_terminates_gran_all_commit : forall gh gg st c mb ma dec acc n log,
  WFg gh gg st -> c_moves c = [] -> 0 <= c_immovable c -> 0 <= ma -> 0 <= mb ->
  exists fuel, run_any fuel st c mb ma dec acc n log <> RunOutOfFuel.
Proof. intros gh gg. exact (run_terminates gh gg QT KT QT_step). Qed.
Print Assumptions C15_run_terminates_gran_all_commit.

(* a collecting pass never panics: ANY pass state that is running (not only a fresh pass), any att *)
Theorem C15_collect_never_panics_gran : forall gh gg Env att st c p (env : Env),
  WFg gh gg st -> pass_running p -> (c_algo c = 1 \/ c_algo c = 2) ->
  forall w, snd (res_f (collect_moves_f Env att st c p env)) <> WPanic w.
Proof. intros gh gg. exact (collect_f_never_panics gh gg QT KT QT_step). Qed.
Print Assumptions C15_collect_never_panics_gran.

(* the old statements re-derived from the general ones (granularity 1, every commit succeeds) *)
Theorem C15_moves_forward_from_gran : forall st c mb ma,
  DefragProofs.WF st -> 0 <= ma -> 0 <= mb -> c_moves c = [] ->
  forall m, In m (cs_moves (fst (collect_moves st c (pass_init mb ma)))) ->
    In (m_srcidx m, m_srcblk m) (indexed st) /\ In (m_dstidx m, m_dstblk m) (indexed st) /\
    (m_dstidx m < m_srcidx m \/ (m_dstblk m = m_srcblk m /\ m_dstoff m < m_srcoff m)).
Proof.
  intros st c mb ma HW Hma Hmb Hc m Hin.
  apply (C15_moves_forward_gran HFake 1 unit att_ok st c mb ma tt (proj1 (wf_gran1_iff HFake st) HW) Hma Hmb Hc).
  rewrite (proj1 (collect_moves_f_all_ok unit st c (pass_init mb ma) tt)). exact Hin.
Qed.
Print Assumptions C15_moves_forward_from_gran.

Theorem C15_run_completes_from_gran : forall st c mb ma dec acc n log,
  DefragProofs.WF st -> c_moves c = [] -> 0 <= c_immovable c -> 0 <= ma -> 0 <= mb -> (c_algo c = 1 \/ c_algo c = 2) ->
  exists fuel st' k acc' log', run_any fuel st c mb ma dec acc n log = RunDone st' k acc' log' /\ DefragProofs.WF st'.
Proof.
  intros st c mb ma dec acc n log HW Hc Hi Hma Hmb Ha.
  destruct (run_completes HFake 1 QT KT QT_step st c mb ma dec acc n log (proj1 (wf_gran1_iff HFake st) HW) Hc Hi Hma Hmb Ha)
    as (fuel & st' & k & acc' & log' & E & HW').
  exists fuel, st', k, acc', log'. split; [exact E|]. exact (proj2 (wf_gran1_iff HFake st') HW').
Qed.
Print Assumptions C15_run_completes_from_gran.

(* non-vacuity: vam's handler at granularity 1024, mixed kinds; page-rounded images (stored size
   1024); the Full algorithm proposes two moves; with the first commit refused the log shows the
   refused attempt and the remaining move *)
Example C15_gran_nonvacuous :
  WFg HVam 1024 exg_world /\
  (let X := collect_moves exg_world (ctx_init (mkC 0 [] 0) 2) (pass_init max_int max_int) in
   map (fun m => (m_src m, m_dstblk m, m_dstoff m, m_size m)) (cs_moves (fst X)) = [(5%nat, 0, 2048, 1024); (4%nat, 0, 100, 50)] /\
   snd X = WCont) /\
  (let X := collect_moves_f (nat * list Z) att_list exg_world (ctx_init (mkC 0 [] 0) 2) (pass_init max_int max_int) (O, [0]) in
   map (fun a => match a with AtFail s d => (true, s, d) | AtOk m => (false, m_src m, m_dstblk m) end) (log_f X) =
     [(true, 5%nat, 0); (false, 4%nat, 0)] /\
   snd (res_f X) = WCont /\ length (d_table (cs_st (fst (res_f X)))) = 7%nat).
Proof. split; [exact (wfp_wfg 1024 _ exg_world_wf)|split; [exact exg_collect|exact exg_collect_fail]]. Qed.
End General.

(* ---------------------------------------------------------------- second tie: translated code
   GenLeaf.v is REGENERATED from /repo's Go source on every run (tools/go2coq, explicit Go integer
   semantics GoSem.v); the theorems below say that the generated definitions equal the model's
   functions on the stated ranges, so an edit of these Go functions breaks an obligation of this file. *)
From Arsenal Require GoSem GenLeaf GenLeafProofs.

Theorem C15_code_checkCounters : forall p bytes,
  -2 ^ 63 <= Pass.ps_bytes_moved (Pass.p_stats p) + bytes < 2 ^ 63 ->
  -2 ^ 63 <= Pass.p_ignored p + 1 < 2 ^ 63 ->
  GenLeaf.checkCounters (Pass.p_max_bytes p) (Pass.p_max_allocs p) (Pass.ps_bytes_moved (Pass.p_stats p))
                        (Pass.ps_allocs_moved (Pass.p_stats p)) (Pass.p_ignored p) bytes
  = (GenLeafProofs.counter_code (snd (Pass.check_counters p bytes)), Pass.p_ignored (fst (Pass.check_counters p bytes)))
  /\ fst (Pass.check_counters p bytes) = Pass.set_ignored p (Pass.p_ignored (fst (Pass.check_counters p bytes))).
Proof. exact GenLeafProofs.gen_checkCounters_eq. Qed.
Print Assumptions C15_code_checkCounters.

Theorem C15_code_incrementCounters : forall p bytes,
  -2 ^ 63 <= Pass.ps_bytes_moved (Pass.p_stats p) + bytes < 2 ^ 63 ->
  -2 ^ 63 <= Pass.ps_allocs_moved (Pass.p_stats p) + 1 < 2 ^ 63 ->
  GenLeaf.incrementCounters (Pass.p_max_bytes p) (Pass.p_max_allocs p) (Pass.ps_bytes_moved (Pass.p_stats p))
                            (Pass.ps_allocs_moved (Pass.p_stats p)) bytes
  = GenLeafProofs.incres_outcome (Pass.increment_counters p bytes)
  /\ fst (Pass.increment_counters p bytes)
     = Pass.set_stats p (Pass.mkPS (Pass.ps_bytes_moved (Pass.p_stats (fst (Pass.increment_counters p bytes))))
                         (Pass.ps_bytes_freed (Pass.p_stats p))
                         (Pass.ps_allocs_moved (Pass.p_stats (fst (Pass.increment_counters p bytes))))
                         (Pass.ps_allocs_freed (Pass.p_stats p))).
Proof. exact GenLeafProofs.gen_incrementCounters_eq. Qed.
Print Assumptions C15_code_incrementCounters.
