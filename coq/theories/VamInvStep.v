(* VamInvStep.v — the invariant VamInvU is preserved by the functions of VamBlockList.v (block_list.go):
   CreateBlock, Destroy, commitAllocationRequest, allocFromBlock, allocPage, Free, Allocate, ... together with
   the frame facts the callers need (which slots and lists a function may touch). *)
From Coq Require Import ZArith NArith List Bool Lia.
From Arsenal Require Util Bits SyncMem Budget.
From Arsenal Require Import VamDev VamBlockList VamInvMeta VamInv VamInvUpd VamInvDev.
Import ListNotations.
Open Scope Z_scope.

(* ---------------------------------------------------------------- frames *)

(* only the slots in S may have been written *)
Definition tab_frame (v v' : vam) (S : list Z) : Prop :=
  zlen (v_tab v') = zlen (v_tab v) /\ forall s, ~ In s S -> nth_z (v_tab v') s = nth_z (v_tab v) s.

(* the configuration of a block list *)
Definition blist_cfg_same (l l' : blist) : Prop :=
  bl_type l' = bl_type l /\ bl_pref l' = bl_pref l /\ bl_min l' = bl_min l /\ bl_max l' = bl_max l /\
  bl_gran l' = bl_gran l /\ bl_explicit l' = bl_explicit l /\ bl_algo l' = bl_algo l /\ bl_minalign l' = bl_minalign l /\
  bl_next l <= bl_next l'.

Lemma blist_cfg_same_refl l : blist_cfg_same l l.
Proof. unfold blist_cfg_same. repeat split; lia. Qed.

Lemma blist_cfg_same_trans a b c : blist_cfg_same a b -> blist_cfg_same b c -> blist_cfg_same a c.
Proof. unfold blist_cfg_same. intros (A1&A2&A3&A4&A5&A6&A7&A8&A9) (B1&B2&B3&B4&B5&B6&B7&B8&B9). repeat split; try congruence; lia. Qed.

(* every block list is still there with the same configuration; no list appears; dedicated lists, pool
   identities and the global type mask are untouched *)
Record lists_frame (v v' : vam) : Prop := mkListsFrame {
  lf_some : forall lr l, get_blist v lr = Some l -> exists l', get_blist v' lr = Some l' /\ blist_cfg_same l l';
  lf_none : forall lr, get_blist v lr = None -> get_blist v' lr = None;
  lf_ded : forall lr, get_dedlist v' lr = get_dedlist v lr;
  lf_global : v_global v' = v_global v;
  lf_uids : map p_uid (v_pools v') = map p_uid (v_pools v);
  lf_pids : map p_id (v_pools v') = map p_id (v_pools v);
  lf_next : v_next_uid v' = v_next_uid v /\ v_next_pool_id v' = v_next_pool_id v
}.

(* the requested alignment is at least the minimum alignment of block list lr *)
Definition min_ok (v : vam) (lr : lref) (align : Z) : Prop := forall l, get_blist v lr = Some l -> bl_minalign l <= align.

Lemma min_ok_frame v v' lr align : lists_frame v v' -> min_ok v lr align -> min_ok v' lr align.
Proof.
  intros L H l' G'. destruct (get_blist v lr) as [l|] eqn:G.
  - destruct (lf_some _ _ L _ _ G) as (l2 & G2 & C). rewrite G' in G2. injection G2 as <-.
    destruct C as (_&_&_&_&_&_&_&E&_). rewrite E. auto.
  - rewrite (lf_none _ _ L _ G) in G'. discriminate.
Qed.

Lemma tab_frame_refl v S : tab_frame v v S.
Proof. split; auto. Qed.

Lemma tab_frame_trans v1 v2 v3 S1 S2 S :
  tab_frame v1 v2 S1 -> tab_frame v2 v3 S2 -> (forall s, In s S1 -> In s S) -> (forall s, In s S2 -> In s S) -> tab_frame v1 v3 S.
Proof.
  intros (L1 & F1) (L2 & F2) H1 H2. split; [congruence|]. intros s Hs. rewrite F2 by auto. apply F1. auto.
Qed.

Lemma tab_frame_trans_same v1 v2 v3 S : tab_frame v1 v2 S -> tab_frame v2 v3 S -> tab_frame v1 v3 S.
Proof. intros H1 H2. eapply tab_frame_trans; eauto. Qed.

Lemma tab_frame_weaken v v' S S' : tab_frame v v' S -> (forall s, In s S -> In s S') -> tab_frame v v' S'.
Proof. intros (L & F) H. split; auto. Qed.

Lemma lists_frame_refl v : lists_frame v v.
Proof. constructor; auto. intros lr l H. exists l. split; [auto|apply blist_cfg_same_refl]. Qed.

Lemma lists_frame_trans v1 v2 v3 : lists_frame v1 v2 -> lists_frame v2 v3 -> lists_frame v1 v3.
Proof.
  intros [A1 A2 A3 A4 A5 A6 A7] [B1 B2 B3 B4 B5 B6 B7]. constructor.
  - intros lr l H. destruct (A1 _ _ H) as (l2 & H2 & C2). destruct (B1 _ _ H2) as (l3 & H3 & C3).
    exists l3. split; [auto|eapply blist_cfg_same_trans; eauto].
  - intros lr H. auto.
  - intros lr. rewrite B3. auto.
  - congruence.
  - congruence.
  - congruence.
  - destruct A7, B7. split; congruence.
Qed.

Lemma tab_frame_set_m v m S : tab_frame v (set_m v m) S.
Proof. split; auto. Qed.
Lemma lists_frame_set_m v m : lists_frame v (set_m v m).
Proof.
  constructor; intros; try rewrite get_blist_set_m; try rewrite get_dedlist_set_m; auto.
  exists l. split; [auto|apply blist_cfg_same_refl].
Qed.

Lemma tab_frame_set_alloc v s a : tab_frame v (set_alloc v s a) [s].
Proof.
  split; cbn.
  - unfold zlen. rewrite set_nth_z_length. reflexivity.
  - intros s1 H. apply nth_z_set_other. intros ->. apply H. left. reflexivity.
Qed.
Lemma lists_frame_set_alloc v s a : lists_frame v (set_alloc v s a).
Proof.
  constructor; intros; try rewrite get_blist_set_alloc; try rewrite get_dedlist_set_alloc; auto.
  exists l. split; [auto|apply blist_cfg_same_refl].
Qed.

Lemma tab_frame_set_blist v lr l S : tab_frame v (set_blist v lr l) S.
Proof. split; rewrite set_blist_tab; auto. Qed.

Lemma set_blist_global v lr l : v_global (set_blist v lr l) = v_global v.
Proof. destruct lr; cbn; [reflexivity|]. destruct (find_pool _ _); reflexivity. Qed.

Lemma lists_frame_set_blist v lr l0 l : get_blist v lr = Some l0 -> blist_cfg_same l0 l -> lists_frame v (set_blist v lr l).
Proof.
  intros H0 Hc. constructor.
  - intros lr1 l1 H. destruct (lref_eq_dec lr1 lr) as [->|Hne].
    + exists l. rewrite (get_set_blist_same _ _ _ _ H0). assert (l1 = l0) by congruence. subst. auto.
    + exists l1. rewrite get_set_blist_other by congruence. split; [auto|apply blist_cfg_same_refl].
  - intros lr1 H. destruct (lref_eq_dec lr1 lr) as [->|Hne]; [congruence|]. rewrite get_set_blist_other by congruence. auto.
  - intros. apply set_blist_dedlist.
  - apply set_blist_global.
  - apply set_blist_uids.
  - apply set_blist_pids.
  - split; [apply set_blist_next_uid|apply set_blist_next_pid].
Qed.

(* ---------------------------------------------------------------- put_block *)

Lemma get_block_in v lr bid b :
  get_block v lr bid = Some b -> exists l, get_blist v lr = Some l /\ In b (bl_blocks l) /\ bk_id b = bid.
Proof.
  unfold get_block. destruct (get_blist v lr) as [l|]; [|discriminate]. intros H. destruct (find_block_in _ _ _ H). eauto.
Qed.

Lemma put_block_lookup v lr l b nb :
  get_blist v lr = Some l -> NoDup (map bk_id (bl_blocks l)) -> In b (bl_blocks l) -> bk_id nb = bk_id b ->
  get_blist (put_block v lr nb) lr = Some (set_blocks l (replace_block (bl_blocks l) nb)) /\
  In nb (replace_block (bl_blocks l) nb) /\
  get_block (put_block v lr nb) lr (bk_id nb) = Some nb.
Proof.
  intros Hg Hnd Hb Hid. rewrite (put_block_eq _ _ _ _ Hg).
  assert (Hin : In nb (replace_block (bl_blocks l) nb)).
  { apply replace_block_in. rewrite Hid. apply in_map. auto. }
  split; [eapply get_set_blist_same; eauto|]. split; [auto|].
  unfold get_block. rewrite (get_set_blist_same _ _ _ _ Hg). cbn. apply in_find_block; auto.
  rewrite replace_block_ids. auto.
Qed.

Lemma replace_equiv l b nb :
  NoDup (map bk_id (bl_blocks l)) -> In b (bl_blocks l) -> block_same b nb ->
  blocks_equiv (bl_blocks l) (replace_block (bl_blocks l) nb).
Proof.
  intros Hnd Hb Hsame. assert (Hin : In (bk_id nb) (map bk_id (bl_blocks l))).
  { destruct Hsame as (E & _). rewrite <- E. apply in_map. auto. }
  split.
  - intros b0 Hb0. destruct (Z.eq_dec (bk_id b0) (bk_id nb)) as [E|Hne].
    + exists nb. split; [apply replace_block_in; auto|]. assert (b0 = b).
      { destruct Hsame as (E1 & _). pose proof (in_find_block _ _ Hnd Hb) as F. rewrite E1, <- E in F.
        pose proof (in_find_block _ _ Hnd Hb0) as F0. congruence. }
      subst. auto.
    + exists b0. split; [apply replace_block_keeps; auto|]. unfold block_same. auto 6.
  - intros b' Hb'. destruct (in_replace_block _ _ _ Hnd Hb') as [(-> & _)|(Hi & _)].
    + exists b. auto.
    + exists b'. unfold block_same. auto 6.
Qed.

Lemma blist_cfg_same_set_blocks l bs : blist_cfg_same l (set_blocks l bs).
Proof. unfold blist_cfg_same. cbn. repeat split; lia. Qed.

Section WithCfg.
Variable c : vcfg.
Hypothesis Hc : cfg_ok c.

(* a block changes in a way that keeps identity, memory, size and live regions *)
Lemma put_block_same_inv v U X lr l b nb :
  VamInvU c v U X -> get_blist v lr = Some l -> In b (bl_blocks l) -> block_same b nb -> MInv (bk_meta nb) ->
  VamInvU c (put_block v lr nb) U X /\ tab_frame v (put_block v lr nb) [] /\ lists_frame v (put_block v lr nb).
Proof.
  intros HI Hg Hb Hs Hm. rewrite (put_block_eq _ _ _ _ Hg).
  pose proof (vi_lists _ _ _ _ HI _ _ Hg) as Hwf. pose proof (bw_nodup _ _ Hwf) as Hnd.
  split; [|split].
  - eapply VamInvU_set_equiv; eauto.
    + apply blist_wf_replace; auto.
      * destruct Hs as (_ & _ & _ & _ & Eg). rewrite <- Eg. pose proof (bw_g _ _ Hwf) as Hbg. rewrite Forall_forall in Hbg. auto.
      * destruct Hs as (E & _). rewrite <- E. apply in_map. auto.
    + cbn. eapply replace_equiv; eauto.
  - apply tab_frame_set_blist.
  - eapply lists_frame_set_blist; eauto. apply blist_cfg_same_set_blocks.
Qed.

Lemma heap_size_bound h : heap_size c h < 2 ^ 39.
Proof.
  unfold heap_size. destruct (nth_z (c_heaps c) h) as [x|] eqn:E; [|lia].
  pose proof (co_heaps _ Hc) as H. rewrite Forall_forall in H. apply nth_z_in in E. specialize (H _ E). lia.
Qed.

(* ---------------------------------------------------------------- CreateBlock *)

Lemma create_block_inv v U X lr l size :
  VamInvU c v U X -> get_blist v lr = Some l ->
  let '(v', r) := create_block c v lr size in
  VamInvU c v' U X /\ tab_frame v v' [] /\ lists_frame v v'.
Proof.
  intros HI Hg. unfold create_block. rewrite Hg.
  pose proof (alloc_vk_spec c (v_m v) (bl_type l) size 0 (vi_dev_pos _ _ _ _ HI)) as A.
  destruct (alloc_vk c (v_m v) (bl_type l) size 0) as (m1 & r).
  assert (Hfail : mach_same (v_m v) m1 -> VamInvU c (set_m v m1) U X /\ tab_frame v (set_m v m1) [] /\ lists_frame v (set_m v m1)).
  { intros H. split; [apply VamInvU_mach_same; auto|]. split; [apply tab_frame_set_m|apply lists_frame_set_m]. }
  destruct r as [mem|code| |]; try (apply Hfail; exact A).
  destruct A as (A1 & A2 & A3 & A4 & A5).
  pose proof (vi_lists _ _ _ _ HI _ _ Hg) as Hwf.
  assert (Hsz : 1 <= size < 2 ^ 39) by (pose proof (heap_size_bound (type_heap c (bl_type l))); lia).
  destruct (meta_init_spec (bl_algo l) (bl_gran l) size Hsz (bw_gran _ _ Hwf)) as (M1 & M2 & M3).
  split; [|split].
  - eapply VamInvU_add_block with (d := mkDmem mem (bl_type l) size false); eauto; cbn; auto; try lia. apply meta_init_g.
  - rewrite set_blist_set_m. eapply tab_frame_trans_same; [apply tab_frame_set_blist|apply tab_frame_set_m].
  - rewrite set_blist_set_m. eapply lists_frame_trans; [|apply lists_frame_set_m].
    eapply lists_frame_set_blist; eauto. unfold blist_cfg_same. cbn. repeat split; lia.
Qed.

(* ---------------------------------------------------------------- removing an empty block *)

Lemma remove_destroy_inv v U X lr l b :
  VamInvU c v U X -> get_blist v lr = Some l -> In b (bl_blocks l) -> meta_is_empty (bk_meta b) = true ->
  let v1 := set_blist v lr (set_blocks l (remove_block (bl_blocks l) (bk_id b))) in
  let '(v', r) := destroy_block c v1 (bl_type l) b in
  VamInvU c v' U X /\ tab_frame v v' [] /\ lists_frame v v'.
Proof.
  intros HI Hg Hb He v1. unfold destroy_block. rewrite He. cbn [negb].
  pose proof (free_vk_spec c (v_m v1) (bl_type l) (meta_size (bk_meta b)) (bk_mem b)) as (F1 & F2).
  destruct (free_vk c (v_m v1) (bl_type l) (meta_size (bk_meta b)) (bk_mem b)) as (m1 & r). cbn [fst] in F1, F2.
  pose proof (vi_lists _ _ _ _ HI _ _ Hg) as Hwf. pose proof (bw_meta _ _ Hwf) as Hm. rewrite Forall_forall in Hm.
  destruct (meta_bookkeeping _ (Hm _ Hb)) as (_ & _ & Hemp). apply Hemp in He.
  unfold v1 in *. rewrite set_blist_m in F1, F2.
  split; [|split].
  - apply VamInvU_remove_block; auto.
  - eapply tab_frame_trans_same; [apply tab_frame_set_blist|apply tab_frame_set_m].
  - eapply lists_frame_trans; [|apply lists_frame_set_m]. eapply lists_frame_set_blist; eauto. apply blist_cfg_same_set_blocks.
Qed.

(* ---------------------------------------------------------------- allocFromBlock / commitAllocationRequest *)

Definition af_post (v v' : vam) (U X : list Z) (lr : lref) (s : Z) (r : afres) : Prop :=
  match r with
  | AFPanic | AFStuck => True
  | _ =>
    VamInvU c v' U X /\ tab_frame v v' [s] /\ lists_frame v v' /\
    match r with
    | AFOk => exists a, slot_is v' s a /\ a_kind a = 1 /\ a_lref a = lr
    | _ => a_allocated (get_alloc v' s) = false
    end
  end.

Lemma get_alloc_frame v v' S s : tab_frame v v' S -> ~ In s S -> get_alloc v' s = get_alloc v s.
Proof. intros (_ & F) H. unfold get_alloc. rewrite F; auto. Qed.

Lemma alloc_from_block_inv v U X lr bid size align flags sub s :
  VamInvU c v U X -> Bits.pow2 align -> min_ok v lr align -> 0 <= s < zlen (v_tab v) -> a_allocated (get_alloc v s) = false ->
  let '(v', r) := alloc_from_block c v lr bid size align flags sub s in af_post v v' U X lr s r.
Proof.
  intros HI Hal Hmin Hs Hdead. unfold alloc_from_block.
  assert (Hnoop : forall r, match r with AFOk => False | _ => True end -> af_post v v U X lr s r).
  { intros r Hr. destruct r; cbn; auto; try contradiction; (split; [auto|]; split; [apply tab_frame_refl|]; split; [apply lists_frame_refl|auto]). }
  destruct (get_block v lr bid) as [b|] eqn:Hgb; [|apply Hnoop; exact I].
  destruct (negb (meta_may_have_free (bk_meta b) sub size)); [apply Hnoop; exact I|].
  destruct (get_block_in _ _ _ _ Hgb) as (l & Hg & Hb & Hbid).
  pose proof (vi_lists _ _ _ _ HI _ _ Hg) as Hwf. pose proof (bw_nodup _ _ Hwf) as Hnd.
  pose proof (bw_meta _ _ Hwf) as Hmeta. rewrite Forall_forall in Hmeta. pose proof (Hmeta _ Hb) as Hmi.
  destruct (meta_create_request (bk_meta b) size align (fl flags F_UPPER) sub (strategy_of flags)) as [mt1 rq| | |] eqn:Hrq;
    try (apply Hnoop; exact I).
  destruct (meta_request_spec _ _ _ _ _ _ _ _ Hmi Hal Hrq) as (Hmi1 & Hl1 & Hs1).
  pose proof (meta_request_g _ _ _ _ _ _ _ _ Hmi Hal Hrq) as Hg1g.
  pose proof (meta_alloc_spec _ _ _ _ _ _ _ _ s Hmi Hal Hrq) as Hma.
  (* the request is stored in the block *)
  set (b1 := mkBlock (bk_id b) (bk_mem b) (bk_sm b) mt1).
  assert (Hsame1 : block_same b b1) by (unfold block_same, b1; cbn; auto).
  destruct (put_block_same_inv v U X lr l b b1 HI Hg Hb Hsame1 Hmi1) as (HI1 & T1 & L1).
  destruct (put_block_lookup v lr l b b1 Hg Hnd Hb eq_refl) as (Hg1 & Hb1 & Hgb1).
  set (v1 := put_block v lr b1) in *. set (l1 := set_blocks l (replace_block (bl_blocks l) b1)) in *.
  (* commitAllocationRequest *)
  unfold commit_request. cbn [bk_id b1] in Hgb1. rewrite Hbid in Hgb1. rewrite Hg1, Hgb1.
  pose proof (sm_sub_same (v_m v1) (bk_mem b1) (bk_sm b1)) as Hsub.
  destruct (sm_sub (v_m v1) (bk_mem b1) (bk_sm b1)) as (m1 & s1). cbn [fst] in Hsub.
  assert (Hmap : forall m2 s2 (mr : out unit), (if fl flags F_MAPPED then sm_map c m1 (bk_mem b1) s1 else (m1, s1, OK tt)) = (m2, s2, mr) -> mach_same m1 m2).
  { intros m2 s2 mr E. destruct (fl flags F_MAPPED).
    - pose proof (sm_map_same c m1 (bk_mem b1) s1) as H. rewrite E in H. exact H.
    - injection E as <- _ _. apply mach_same_refl. }
  destruct (if fl flags F_MAPPED then sm_map c m1 (bk_mem b1) s1 else (m1, s1, OK tt)) as ((m2 & s2) & mr) eqn:Emap.
  specialize (Hmap _ _ _ eq_refl). pose proof (mach_same_trans _ _ _ Hsub Hmap) as Hm12.
  set (b2 := mkBlock (bk_id b1) (bk_mem b1) s2 (bk_meta b1)).
  pose proof (VamInvU_mach_same _ _ _ _ _ HI1 Hm12) as HI1m.
  assert (Hg1m : get_blist (set_m v1 m2) lr = Some l1) by (rewrite get_blist_set_m; auto).
  assert (Hsame2 : block_same b1 b2) by (unfold block_same, b2; cbn; auto).
  destruct (put_block_same_inv (set_m v1 m2) U X lr l1 b1 b2 HI1m Hg1m Hb1 Hsame2 Hmi1) as (HI2 & T2 & L2).
  assert (Hnd1 : NoDup (map bk_id (bl_blocks l1))) by (unfold l1; cbn; rewrite replace_block_ids; auto).
  destruct (put_block_lookup (set_m v1 m2) lr l1 b1 b2 Hg1m Hnd1 Hb1 eq_refl) as (Hg2 & Hb2 & Hgb2).
  set (v2 := put_block (set_m v1 m2) lr b2) in *. set (l2 := set_blocks l1 (replace_block (bl_blocks l1) b2)) in *.
  assert (T02' : tab_frame v v2 []).
  { eapply tab_frame_trans_same; [exact T1|]. eapply tab_frame_trans_same; [apply tab_frame_set_m|exact T2]. }
  assert (T02 : tab_frame v v2 [s]) by (eapply tab_frame_weaken; [exact T02'|intros ? []]).
  assert (L02 : lists_frame v v2).
  { eapply lists_frame_trans; [exact L1|]. eapply lists_frame_trans; [apply lists_frame_set_m|exact L2]. }
  assert (Hdead2 : a_allocated (get_alloc v2 s) = false).
  { rewrite (get_alloc_frame _ _ _ _ T02'); auto. }
  assert (Hfail2 : forall r, match r with AFOk => False | _ => True end -> af_post v v2 U X lr s r).
  { intros r Hr. destruct r; cbn; auto; try contradiction; (split; [auto|]; split; [auto|]; split; auto). }
  destruct mr as [[]|code| |]; try (apply Hfail2; exact I).
  (* outAlloc.init *)
  assert (Htab2 : zlen (v_tab v2) = zlen (v_tab v)) by (destruct T02; auto).
  pose proof (VamInvU_set_alloc_dead c v2 U X s (alloc_init (mapping_allowed flags)) HI2 Hdead2 eq_refl) as HI3.
  set (v3 := set_alloc v2 s (alloc_init (mapping_allowed flags))) in *.
  assert (T03 : tab_frame v v3 [s]).
  { eapply tab_frame_trans; [exact T02|apply tab_frame_set_alloc| |]; auto. }
  assert (L03 : lists_frame v v3) by (eapply lists_frame_trans; [exact L02|apply lists_frame_set_alloc]).
  assert (Hdead3 : a_allocated (get_alloc v3 s) = false).
  { unfold v3, get_alloc, set_alloc. cbn. rewrite nth_z_set_same by lia. reflexivity. }
  assert (Hfail3 : forall r, match r with AFOk => False | _ => True end -> af_post v v3 U X lr s r).
  { intros r Hr. destruct r; cbn; auto; try contradiction; (split; [auto|]; split; [auto|]; split; auto). }
  cbn [bk_meta b2 b1 bk_id bk_mem] in *.
  destruct (meta_alloc mt1 rq sub s size align) as [(mt2 & h)|code| |] eqn:Ema; try (apply Hfail3; exact I).
  destruct Hma as (Hmi2 & Hsz2 & off & la & lb & Hla & Hlb).
  destruct (fl flags F_MAPPED && negb (mapping_allowed flags)); [exact I|].
  (* initBlockAllocation + AddAllocation *)
  assert (Hg3 : get_blist v3 lr = Some l2) by (unfold v3; rewrite get_blist_set_alloc; auto).
  set (a := mkAlloc true 1 (mreq_size rq) align (bl_type l2) sub (fl flags F_MAPPED) (mapping_allowed flags) lr bid
                    h (bk_mem b) SyncMem.sm_init false).
  assert (HI5 : VamInvU c (set_alloc (put_block v3 lr (mkBlock (bk_id b) (bk_mem b) s2 mt2)) s a) U X).
  { change (mkBlock (bk_id b) (bk_mem b) s2 mt2) with (mkBlock (bk_id b2) (bk_mem b2) s2 mt2).
    pose proof (meta_alloc_g _ _ _ _ _ _ _ _ s _ _ Hmi Hal Hrq Ema) as Hg2g.
    eapply VamInvU_alloc_region with (l := l2) (b := b2) (h := h) (off := off) (l1 := la) (l2 := lb); eauto.
    all: try (cbn; congruence).
    unfold v3. cbn. unfold zlen. rewrite set_nth_z_length. fold (zlen (v_tab v2)). lia.
    cbn. apply Hmin. exact Hg.
  }
  unfold af_post. change (bl_type l) with (bl_type l2). fold a.
  split; [apply VamInvU_mach_same; [exact HI5|apply add_allocation_same]|].
  assert (Hg3' : get_blist v3 lr = Some l2) by exact Hg3.
  split; [|split].
  - eapply tab_frame_trans with (S1 := [s]) (S2 := [s]); [exact T03| |auto|auto].
    eapply tab_frame_trans_same; [|apply tab_frame_set_m].
    eapply tab_frame_trans with (S1 := []) (S2 := [s]); [|apply tab_frame_set_alloc|intros ? []|auto].
    rewrite (put_block_eq _ _ _ _ Hg3). apply tab_frame_set_blist.
  - eapply lists_frame_trans; [exact L03|]. eapply lists_frame_trans; [|apply lists_frame_set_m].
    eapply lists_frame_trans; [|apply lists_frame_set_alloc].
    rewrite (put_block_eq _ _ _ _ Hg3). eapply lists_frame_set_blist; eauto. apply blist_cfg_same_set_blocks.
  - exists a. split; [|auto]. apply slot_is_set_m. apply slot_is_set_alloc_same; [|auto].
    rewrite (put_block_eq _ _ _ _ Hg3), set_blist_tab. unfold v3. cbn. unfold zlen. rewrite set_nth_z_length. fold (zlen (v_tab v2)). lia.
Qed.

(* ---------------------------------------------------------------- reordering the blocks of a list *)

Lemma blist_wf_perm l bs : blist_wf c l -> Permutation.Permutation (bl_blocks l) bs -> blist_wf c (set_blocks l bs).
Proof.
  intros [H1 H2 H3 H4 H5 H6 H7 H8] P. constructor; cbn; auto.
  - eapply Permutation.Permutation_NoDup; [apply Permutation.Permutation_map; exact P|auto].
  - eapply Permutation.Permutation_Forall; eauto.
  - eapply Permutation.Permutation_Forall; eauto.
  - eapply Permutation.Permutation_Forall; eauto.
Qed.

Lemma perm_equiv bs bs' : Permutation.Permutation bs bs' -> blocks_equiv bs bs'.
Proof.
  intros P. split; intros b Hb; exists b; (split; [|unfold block_same; auto]).
  - eapply Permutation.Permutation_in; eauto.
  - eapply Permutation.Permutation_in; [apply Permutation.Permutation_sym; eauto|auto].
Qed.

Lemma permute_inv v U X lr l bs :
  VamInvU c v U X -> get_blist v lr = Some l -> Permutation.Permutation (bl_blocks l) bs ->
  VamInvU c (set_blist v lr (set_blocks l bs)) U X /\ tab_frame v (set_blist v lr (set_blocks l bs)) [] /\
  lists_frame v (set_blist v lr (set_blocks l bs)).
Proof.
  intros HI Hg P. split; [|split].
  - eapply VamInvU_set_equiv; eauto.
    + apply blist_wf_perm; auto. eapply vi_lists; eauto.
    + apply perm_equiv. auto.
  - apply tab_frame_set_blist.
  - eapply lists_frame_set_blist; eauto. apply blist_cfg_same_set_blocks.
Qed.

Lemma bubble_once_perm bs : Permutation.Permutation bs (bubble_once bs).
Proof.
  induction bs as [|b1 [|b2 tl] IH]; cbn; auto.
  destruct (_ <? _); [apply Permutation.perm_swap|]. apply Permutation.perm_skip. exact IH.
Qed.

Lemma sort_list_inv v U X lr :
  VamInvU c v U X -> VamInvU c (sort_list v lr) U X /\ tab_frame v (sort_list v lr) [] /\ lists_frame v (sort_list v lr).
Proof.
  intros HI. unfold sort_list. destruct (get_blist v lr) as [l|] eqn:Hg;
    [|split; [auto|split; [apply tab_frame_refl|apply lists_frame_refl]]].
  unfold incrementally_sort. destruct (_ || _).
  - assert (E : l = set_blocks l (bl_blocks l)) by (destruct l; reflexivity).
    pose proof (permute_inv v U X lr l (bl_blocks l) HI Hg (Permutation.Permutation_refl _)) as P. rewrite <- E in P. exact P.
  - apply permute_inv; auto. apply bubble_once_perm.
Qed.

(* ---------------------------------------------------------------- the search loop of allocPage *)

Definition ap_post (v v' : vam) (U X : list Z) (lr : lref) (s : Z) (r : out unit) : Prop :=
  match r with
  | PANIC | STUCK => True
  | _ =>
    VamInvU c v' U X /\ tab_frame v v' [s] /\ lists_frame v v' /\
    match r with
    | OK _ => exists a, slot_is v' s a /\ a_kind a = 1 /\ a_lref a = lr
    | _ => a_allocated (get_alloc v' s) = false
    end
  end.

Lemma slot_is_frame v v' S s a : tab_frame v v' S -> ~ In s S -> (slot_is v' s a <-> slot_is v s a).
Proof. intros (_ & F) H. unfold slot_is. rewrite F; auto. tauto. Qed.

Lemma try_blocks_inv ids : forall v U X lr size align flags sub s,
  VamInvU c v U X -> Bits.pow2 align -> min_ok v lr align -> 0 <= s < zlen (v_tab v) -> a_allocated (get_alloc v s) = false ->
  let '(v', r) := try_blocks c v lr ids size align flags sub s in af_post v v' U X lr s r.
Proof.
  induction ids as [|bid tl IH]; intros v U X lr size align flags sub s HI Hal Hmin Hs Hdead; cbn [try_blocks].
  - cbn. split; [auto|]. split; [apply tab_frame_refl|]. split; [apply lists_frame_refl|auto].
  - pose proof (alloc_from_block_inv v U X lr bid size align flags sub s HI Hal Hmin Hs Hdead) as A.
    destruct (alloc_from_block c v lr bid size align flags sub s) as (v1 & r). destruct r; cbn in A |- *; auto.
    + destruct A as (HI1 & T1 & L1 & (a & Sa & Ka & La)).
      destruct (sort_list_inv v1 U X lr HI1) as (HI2 & T2 & L2).
      split; [auto|]. split; [eapply tab_frame_trans; [exact T1|exact T2|auto|intros ? []]|].
      split; [eapply lists_frame_trans; eauto|]. exists a. split; [|auto].
      apply (slot_is_frame _ _ _ _ _ T2); auto.
    + destruct A as (HI1 & T1 & L1 & D1).
      assert (Hs1 : 0 <= s < zlen (v_tab v1)) by (destruct T1 as (E & _); lia).
      specialize (IH v1 U X lr size align flags sub s HI1 Hal (min_ok_frame _ _ _ _ L1 Hmin) Hs1 D1).
      destruct (try_blocks c v1 lr tl size align flags sub s) as (v2 & r2).
      destruct r2; cbn in IH |- *; auto;
        destruct IH as (HI2 & T2 & L2 & R2); (split; [auto|]; split; [eapply tab_frame_trans_same; eauto|]; split; [eapply lists_frame_trans; eauto|auto]).
Qed.

(* ---------------------------------------------------------------- allocPage *)

(* invariant + frames, relative to a start state v0 and the slot s being served *)
Definition keeps (v0 v' : vam) (U X : list Z) (s : Z) : Prop :=
  VamInvU c v' U X /\ tab_frame v0 v' [s] /\ lists_frame v0 v' /\ a_allocated (get_alloc v' s) = false.

Lemma keeps_step v0 v v' U X s :
  keeps v0 v U X s -> VamInvU c v' U X -> tab_frame v v' [] -> lists_frame v v' -> keeps v0 v' U X s.
Proof.
  intros (H1 & H2 & H3 & H4) I T L. split; [auto|]. split; [eapply tab_frame_trans; [exact H2|exact T|auto|intros ? []]|].
  split; [eapply lists_frame_trans; eauto|]. rewrite (get_alloc_frame _ _ _ _ T); auto.
Qed.

Lemma create_block_keeps v0 v U X s lr size :
  keeps v0 v U X s -> let '(v', r) := create_block c v lr size in keeps v0 v' U X s.
Proof.
  intros K. destruct (get_blist v lr) as [l|] eqn:Hg.
  - destruct K as (K1 & K2 & K3 & K4).
    pose proof (create_block_inv v U X lr l size K1 Hg) as C.
    destruct (create_block c v lr size) as (v1 & r). destruct C as (C1 & C2 & C3).
    eapply keeps_step; eauto. split; auto.
  - unfold create_block. rewrite Hg. exact K.
Qed.

Lemma retry_create_inv fuel : forall v0 v U X s lr nbs shift size freeMemory canFallback last,
  keeps v0 v U X s ->
  let '(v', r) := retry_create c fuel v lr nbs shift size freeMemory canFallback last in keeps v0 v' U X s.
Proof.
  induction fuel as [|f IH]; intros v0 v U X s lr nbs shift size fm cf last K; cbn [retry_create]; [exact K|].
  destruct last; try exact K. destruct (3 <=? shift); [exact K|]. destruct (size <=? Z.quot nbs 2); [|exact K].
  destruct (_ || _).
  - pose proof (create_block_keeps v0 v U X s lr (Z.quot nbs 2) K) as C.
    destruct (create_block c v lr (Z.quot nbs 2)) as (v1 & r). apply IH. exact C.
  - apply IH. exact K.
Qed.

Lemma keeps_trans v0 v1 v2 U X s : keeps v0 v1 U X s -> keeps v1 v2 U X s -> keeps v0 v2 U X s.
Proof.
  intros (A1 & A2 & A3 & A4) (B1 & B2 & B3 & B4). split; [auto|]. split; [eapply tab_frame_trans_same; [exact A2|exact B2]|].
  split; [eapply lists_frame_trans; [exact A3|exact B3]|auto].
Qed.

Lemma keeps_refl v U X s : VamInvU c v U X -> a_allocated (get_alloc v s) = false -> keeps v v U X s.
Proof. intros. split; [auto|]. split; [apply tab_frame_refl|]. split; [apply lists_frame_refl|auto]. Qed.

(* a failed attempt that kept everything, seen as an allocPage / allocFromBlock result *)
Lemma ap_post_fail v v' U X lr s code : keeps v v' U X s -> ap_post v v' U X lr s (ER code).
Proof. intros (A & B & C & D). cbn. auto. Qed.

Lemma af_keeps v v' U X lr s r :
  af_post v v' U X lr s r -> match r with AFOk | AFPanic | AFStuck => True | _ => keeps v v' U X s end.
Proof. destruct r; cbn; auto. Qed.

Lemma alloc_page_inv v U X lr size align flags sub s :
  VamInvU c v U X -> Bits.pow2 align -> min_ok v lr align -> 0 <= s < zlen (v_tab v) -> a_allocated (get_alloc v s) = false ->
  let '(v', r) := alloc_page c v lr size align flags sub s in ap_post v v' U X lr s r.
Proof.
  intros HI Hal Hmin Hs Hdead. unfold alloc_page. destruct (get_blist v lr) as [l|] eqn:Hg; [|exact I].
  pose proof (heap_budget_same c (v_m v) (type_heap c (bl_type l))) as Hb.
  destruct (heap_budget c (v_m v) (type_heap c (bl_type l))) as ((m1 & usage) & budget). cbn [fst] in Hb.
  assert (K1 : keeps v (set_m v m1) U X s).
  { split; [apply VamInvU_mach_same; auto|]. split; [apply tab_frame_set_m|]. split; [apply lists_frame_set_m|auto]. }
  destruct (_ && _); [apply ap_post_fail; auto|]. destruct (bl_pref l <? size); [apply ap_post_fail; auto|].
  pose proof K1 as (I1 & T1 & L1 & D1).
  assert (Hs1 : 0 <= s < zlen (v_tab (set_m v m1))) by (cbn; auto).
  pose proof (try_blocks_inv (search_order c l flags) (set_m v m1) U X lr size align flags sub s I1 Hal (min_ok_frame _ _ _ _ L1 Hmin) Hs1 D1) as TB.
  destruct (try_blocks c (set_m v m1) lr (search_order c l flags) size align flags sub s) as (v2 & r).
  pose proof (af_keeps _ _ _ _ _ _ _ TB) as TK.
  destruct r; cbn [ap_post]; auto.
  - cbn [af_post] in TB. destruct TB as (A & B & C & D). split; [auto|].
    split; [eapply tab_frame_trans_same; [exact T1|exact B]|]. split; [eapply lists_frame_trans; [exact L1|exact C]|auto].
  - (* no block fits: try a new block *)
    pose proof (keeps_trans _ _ _ _ _ _ K1 TK) as K2. clear TB TK.
    destruct (negb _); [apply ap_post_fail; auto|].
    destruct (if bl_explicit l then (bl_pref l, 0) else shrink_new_block 3 (bl_pref l) 0 (calc_max_block_size l) size) as (nbs & shift).
    match goal with |- context [if ?cond then create_block c v2 lr nbs else (v2, ER VK_OODM)] =>
      assert (K3 : let '(v3, first) := (if cond then create_block c v2 lr nbs else (v2, ER VK_OODM)) in keeps v v3 U X s);
      [destruct cond; [apply create_block_keeps; exact K2|exact K2]|
       destruct (if cond then create_block c v2 lr nbs else (v2, ER VK_OODM)) as (v3 & first)]
    end.
    match goal with |- context [if bl_explicit l then (v3, first) else ?rc] =>
      assert (K4 : let '(v4, created) := (if bl_explicit l then (v3, first) else rc) in keeps v v4 U X s);
      [destruct (bl_explicit l); [exact K3|apply retry_create_inv; exact K3]|
       destruct (if bl_explicit l then (v3, first) else rc) as (v4 & created)]
    end.
    destruct created as [bid|code| |]; [|apply ap_post_fail; auto|exact I|exact I].
    destruct (get_block v4 lr bid) as [nb|] eqn:Hgb; [|exact I]. destruct (meta_size (bk_meta nb) <? size); [exact I|].
    pose proof K4 as (I4 & T4 & L4 & D4).
    assert (Hs4 : 0 <= s < zlen (v_tab v4)) by (destruct T4 as (E & _); lia).
    pose proof (alloc_from_block_inv v4 U X lr bid size align flags sub s I4 Hal (min_ok_frame _ _ _ _ L4 Hmin) Hs4 D4) as AF.
    destruct (alloc_from_block c v4 lr bid size align flags sub s) as (v5 & r2).
    pose proof (af_keeps _ _ _ _ _ _ _ AF) as AK.
    assert (Hgive : forall code2, keeps v4 v5 U X s ->
      let '(v6, dr) :=
          match get_blist v5 lr, get_block v5 lr bid with
          | Some l5, Some b5 =>
            if meta_is_empty (bk_meta b5) && (bl_min l5 <? zlen (bl_blocks l5)) then
              let v5' := set_blist v5 lr (set_blocks l5 (remove_block (bl_blocks l5) bid)) in
              match destroy_block c v5' (bl_type l5) b5 with
              | (v', OK _) => (v', OK tt)
              | (v', STUCK) => (v', STUCK)
              | (v', _) => (v', PANIC)
              end
            else (v5, OK tt)
          | _, _ => (v5, STUCK)
          end in
      ap_post v v6 U X lr s match dr with OK _ => ER code2 | ER code => ER code | PANIC => PANIC | STUCK => STUCK end).
    { intros code2 K5. pose proof (keeps_trans _ _ _ _ _ _ K4 K5) as K05.
      destruct (get_blist v5 lr) as [l5|] eqn:Hg5; [|exact I]. destruct (get_block v5 lr bid) as [b5|] eqn:Hgb5; [|exact I].
      destruct (meta_is_empty (bk_meta b5)) eqn:He; cbn [andb]; [|apply ap_post_fail; auto].
      destruct (bl_min l5 <? zlen (bl_blocks l5)); [|apply ap_post_fail; auto].
      destruct (get_block_in _ _ _ _ Hgb5) as (l5' & Hg5' & Hb5 & Hid5). assert (l5' = l5) by congruence. subst l5'.
      destruct K05 as (I5 & T5 & L5 & D5).
      pose proof (remove_destroy_inv v5 U X lr l5 b5 I5 Hg5 Hb5 He) as RD. cbn zeta in RD. rewrite Hid5 in RD.
      destruct (destroy_block c _ (bl_type l5) b5) as (v6 & dr). destruct RD as (R1 & R2 & R3).
      destruct dr as [[]|code| |]; cbn [ap_post]; auto.
      split; [auto|]. split; [eapply tab_frame_trans; [exact T5|exact R2|auto|intros ? []]|].
      split; [eapply lists_frame_trans; eauto|]. rewrite (get_alloc_frame _ _ _ _ R2); auto. }
    destruct r2; auto.
    + (* served from the new block *)
      cbn [af_post] in AF. destruct AF as (A & B & C & (a & Sa & Ka & La)).
      destruct (sort_list_inv v5 U X lr A) as (I6 & T6 & L6).
      cbn [ap_post]. split; [auto|].
      split; [eapply tab_frame_trans; [eapply tab_frame_trans_same; [exact T4|exact B]|exact T6|auto|intros ? []]|].
      split; [eapply lists_frame_trans; [eapply lists_frame_trans; [exact L4|exact C]|exact L6]|].
      exists a. split; [|auto]. apply (slot_is_frame _ _ _ _ _ T6); auto.
    + specialize (Hgive VK_OODM AK). destruct (match get_blist v5 lr with Some _ => _ | None => _ end) as (v6 & dr).
      destruct dr; exact Hgive.
    + specialize (Hgive code AK). destruct (match get_blist v5 lr with Some _ => _ | None => _ end) as (v6 & dr).
      destruct dr; exact Hgive.
  - exact (ap_post_fail _ _ _ _ lr _ code (keeps_trans _ _ _ _ _ _ K1 TK)).
Qed.

(* ---------------------------------------------------------------- Free + freeWithLock *)

Lemma tab_frame_obs v v1 v2 S : obs_eq v1 v2 -> tab_frame v v1 S -> tab_frame v v2 S.
Proof. intros E (A & B). unfold tab_frame. rewrite (oe_tab _ _ E). auto. Qed.

Lemma lists_frame_obs v v1 v2 : obs_eq v1 v2 -> lists_frame v v1 -> lists_frame v v2.
Proof.
  intros E [A B C D F G H]. constructor.
  - intros lr l H0. rewrite (oe_blist _ _ E). auto.
  - intros lr H0. rewrite (oe_blist _ _ E). auto.
  - intros lr. rewrite (oe_ded _ _ E). auto.
  - rewrite (oe_gl _ _ E). auto.
  - rewrite (oe_pu _ _ E). auto.
  - rewrite (oe_pi _ _ E). auto.
  - rewrite (oe_nu _ _ E), (oe_np _ _ E). auto.
Qed.

Definition kept (v v' : vam) (U X : list Z) : Prop := VamInvU c v' U X /\ tab_frame v v' [] /\ lists_frame v v'.

Lemma kept_trans v0 v1 v2 U X : kept v0 v1 U X -> kept v1 v2 U X -> kept v0 v2 U X.
Proof.
  intros (A1 & A2 & A3) (B1 & B2 & B3). split; [auto|]. split; [eapply tab_frame_trans_same; [exact A2|exact B2]|eapply lists_frame_trans; [exact A3|exact B3]].
Qed.

Lemma kept_frames v0 v1 v2 U X X' : kept v0 v1 U X -> VamInvU c v2 U X' -> tab_frame v1 v2 [] -> lists_frame v1 v2 -> kept v0 v2 U X'.
Proof.
  intros (A1 & A2 & A3) I T L. split; [auto|]. split; [eapply tab_frame_trans_same; [exact A2|exact T]|eapply lists_frame_trans; [exact A3|exact L]].
Qed.

Lemma kept_obs v0 v1 v2 U X : obs_eq v1 v2 -> kept v0 v1 U X -> kept v0 v2 U X.
Proof.
  intros E (A & B & C). split; [eapply VamInvU_obs_eq; eauto|]. split; [eapply tab_frame_obs; eauto|eapply lists_frame_obs; eauto].
Qed.

Lemma kept_mach v0 v U X m' : kept v0 v U X -> mach_same (v_m v) m' -> kept v0 (set_m v m') U X.
Proof.
  intros K H. eapply kept_frames; [exact K| | |].
  - apply VamInvU_mach_same; [apply K|auto].
  - apply tab_frame_set_m.
  - apply lists_frame_set_m.
Qed.


(* incrementallySortBlocks reaches a state that is, up to assembly, the sorted wA *)
Lemma sorted_inv w wA U X lr LA m v3 :
  VamInvU c wA U X -> derived w lr LA m wA -> derived w lr (incrementally_sort LA) m v3 ->
  VamInvU c v3 U X /\ tab_frame wA v3 [] /\ lists_frame wA v3.
Proof.
  intros IA DA D3. destruct (sort_list_inv wA U X lr IA) as (IS & TS & LS).
  assert (ES : obs_eq (sort_list wA lr) v3).
  { eapply derived_obs_eq; [|exact D3]. unfold sort_list. rewrite (dv_same _ _ _ _ _ DA).
    eapply derived_set_blist_again. exact DA. }
  split; [eapply VamInvU_obs_eq; eauto|]. split; [eapply tab_frame_obs; eauto|eapply lists_frame_obs; eauto].
Qed.

(* an empty block db is taken out of the list, the list is sorted, then db is destroyed *)
Lemma destroy_sorted_inv w wA U X lr LA db v3 :
  VamInvU c wA U X -> derived w lr LA (v_m wA) wA -> In db (bl_blocks LA) -> meta_is_empty (bk_meta db) = true ->
  derived w lr (incrementally_sort (set_blocks LA (remove_block (bl_blocks LA) (bk_id db)))) (v_m wA) v3 ->
  let '(v4, dr) := destroy_block c v3 (bl_type LA) db in
  VamInvU c v4 U X /\ tab_frame wA v4 [] /\ lists_frame wA v4.
Proof.
  intros IA DA Hdb He D3.
  pose proof (remove_destroy_inv wA U X lr LA db IA (dv_same _ _ _ _ _ DA) Hdb He) as RD. cbn zeta in RD.
  set (LB := set_blocks LA (remove_block (bl_blocks LA) (bk_id db))) in *.
  unfold destroy_block in RD |- *. rewrite He in RD |- *. cbn [negb] in RD |- *.
  rewrite set_blist_m in RD. rewrite (dv_m _ _ _ _ _ D3).
  destruct (free_vk c (v_m wA) (bl_type LA) (meta_size (bk_meta db)) (bk_mem db)) as (m4 & fr).
  destruct RD as (RI & RT & RL).
  set (wB := set_m (set_blist wA lr LB) m4) in *.
  assert (DB : derived w lr LB m4 wB) by (eapply derived_set_m; eapply derived_set_blist_again; exact DA).
  assert (D4 : derived w lr (incrementally_sort LB) m4 (set_m v3 m4)) by (eapply derived_set_m; exact D3).
  destruct (sorted_inv w wB U X lr LB m4 (set_m v3 m4) RI DB D4) as (I4 & T4 & L4).
  split; [auto|]. split; [eapply tab_frame_trans_same; eauto|eapply lists_frame_trans; eauto].
Qed.

Lemma bl_free_inv v U X s a keep :
  VamInvU c v U X -> slot_is v s a -> ~ In s X -> a_kind a = 1 ->
  let '(v', r) := bl_free c v (a_lref a) s keep in
  match r with
  | OK _ => kept v v' U (s :: X)
  | ER _ => kept v v' U X
  | _ => True
  end.
Proof.
  intros HI Hsl HnX Hk. unfold bl_free. rewrite (get_alloc_slot _ _ _ Hsl).
  destruct (vi_slots _ _ _ _ HI s a Hsl HnX) as [(_ & l & b & rg & Hg & Hb & Hid & Hrg & Hh & Htag & R)|(K & _)]; [|congruence].
  pose proof (vi_lists _ _ _ _ HI _ _ Hg) as Hwf. pose proof (bw_nodup _ _ Hwf) as Hnd.
  pose proof (bw_meta _ _ Hwf) as Hmeta. rewrite Forall_forall in Hmeta. pose proof (Hmeta _ Hb) as Hmi.
  assert (Hgb : get_block v (a_lref a) (a_blk a) = Some b).
  { unfold get_block. rewrite Hg, <- Hid. apply in_find_block; auto. }
  rewrite Hg, Hgb.
  pose proof (heap_budget_same c (v_m v) (type_heap c (bl_type l))) as Hbud.
  destruct (heap_budget c (v_m v) (type_heap c (bl_type l))) as ((m1 & usage) & budget). cbn [fst] in Hbud.
  assert (Hun : forall m2 s2 (ur : out unit), (if a_persist a then sm_unmap m1 (bk_mem b) (bk_sm b) else (m1, bk_sm b, OK tt)) = (m2, s2, ur) -> mach_same m1 m2).
  { intros m2 s2 ur E. destruct (a_persist a).
    - pose proof (sm_unmap_same m1 (bk_mem b) (bk_sm b)) as H. rewrite E in H. exact H.
    - injection E as <- _ _. apply mach_same_refl. }
  destruct (if a_persist a then sm_unmap m1 (bk_mem b) (bk_sm b) else (m1, bk_sm b, OK tt)) as ((m2 & s2) & ur) eqn:Eun.
  specialize (Hun _ _ _ eq_refl). pose proof (mach_same_trans _ _ _ Hbud Hun) as Hm02.
  set (b2 := mkBlock (bk_id b) (bk_mem b) s2 (bk_meta b)).
  assert (K0 : kept v (set_m v m2) U X).
  { split; [apply VamInvU_mach_same; auto|]. split; [apply tab_frame_set_m|apply lists_frame_set_m]. }
  assert (Hg0 : get_blist (set_m v m2) (a_lref a) = Some l) by (rewrite get_blist_set_m; auto).
  assert (Hsame2 : block_same b b2) by (unfold block_same, b2; cbn; auto).
  destruct (put_block_same_inv (set_m v m2) U X (a_lref a) l b b2 (proj1 K0) Hg0 Hb Hsame2 Hmi) as (I2 & T2 & L2).
  destruct (put_block_lookup (set_m v m2) (a_lref a) l b b2 Hg0 Hnd Hb eq_refl) as (Hg2 & Hb2 & Hgb2).
  set (v2 := put_block (set_m v m2) (a_lref a) b2) in *. set (l2 := set_blocks l (replace_block (bl_blocks l) b2)) in *.
  assert (K2 : kept v v2 U X) by (eapply kept_frames; eauto).
  destruct ur as [[]|code| |]; [|exact K2|exact I|exact I].
  (* metadata.Free *)
  destruct (meta_free_spec (bk_meta b) (a_handle a) Hmi (ex_intro _ rg (conj Hrg Hh))) as (mt' & Hfree & Hmi' & Hsz' & la & rg0 & lb & Hl & Hh0 & Hl').
  rewrite Hfree.
  pose proof (sm_sub_same (v_m v2) (bk_mem b) s2) as Hsub.
  destruct (sm_sub (v_m v2) (bk_mem b) s2) as (m3 & s3). cbn [fst] in Hsub.
  set (b' := mkBlock (bk_id b) (bk_mem b) s3 mt').
  set (w2 := set_m v2 m3).
  assert (Kw2 : kept v w2 U X) by (apply kept_mach; auto).
  assert (Hgw2 : get_blist w2 (a_lref a) = Some l2) by (unfold w2; rewrite get_blist_set_m; auto).
  assert (Hslw2 : slot_is w2 s a).
  { destruct Kw2 as (_ & T & _). apply (slot_is_frame _ _ _ _ _ T); auto. }
  (* the region is released (all blocks still there) *)
  assert (IA : VamInvU c (put_block w2 (a_lref a) b') U (s :: X)).
  { change b' with (mkBlock (bk_id b2) (bk_mem b2) s3 mt').
    pose proof (meta_free_g (bk_meta b) (a_handle a) mt' Hmi (ex_intro _ rg (conj Hrg Hh)) Hfree) as Hgf.
    eapply VamInvU_free_region with (l := l2) (b := b2) (a := a) (l1 := la) (rg0 := rg0) (l2 := lb); eauto.
    apply Kw2. }
  assert (Hnd2 : NoDup (map bk_id (bl_blocks l2))) by (unfold l2; cbn; rewrite replace_block_ids; auto).
  set (bs3 := replace_block (bl_blocks l) b').
  assert (EA : put_block w2 (a_lref a) b' = set_blist w2 (a_lref a) (set_blocks l bs3)).
  { rewrite (put_block_eq _ _ _ _ Hgw2). unfold l2, bs3. cbn. rewrite replace_replace by reflexivity. reflexivity. }
  rewrite EA in IA. set (wA := set_blist w2 (a_lref a) (set_blocks l bs3)) in *.
  assert (DA : derived w2 (a_lref a) (set_blocks l bs3) m3 wA) by (apply (derived_set_blist w2 (a_lref a) l2); auto).
  assert (KA : kept v wA U (s :: X)).
  { eapply kept_frames; [exact Kw2|exact IA|apply tab_frame_set_blist|].
    eapply lists_frame_set_blist; eauto. unfold l2. unfold blist_cfg_same. cbn. repeat split; lia. }
  assert (HgA : get_blist wA (a_lref a) = Some (set_blocks l bs3)) by (apply DA).
  assert (Hb'in : In b' bs3) by (unfold bs3; apply replace_block_in; cbn; apply in_map; auto).
  assert (Hnd3 : NoDup (map bk_id bs3)) by (unfold bs3; rewrite replace_block_ids; auto).
  (* which block is deleted *)
  set (heap := type_heap c (bl_type l)).
  assert (Hfinal : forall v4 (dr : out unit), (match dr with OK _ => kept v v4 U (s :: X) | _ => True end) ->
            match (match dr with
                   | OK _ => let '(m5, rr) := remove_allocation c (v_m v4) heap (a_size a) in (set_m v4 m5, rr)
                   | other => (v4, other) end) with
            | (v', OK _) => kept v v' U (s :: X) | (v', ER _) => match dr with ER _ => True | _ => False end | _ => True end).
  { intros v4 dr H. destruct dr as [[]|code| |]; auto.
    pose proof (remove_allocation_same c (v_m v4) heap (a_size a)) as R5.
    unfold remove_allocation in *. destruct (Budget.remove_alloc _ _ _ _) as ((b5 & r5) & cs5). cbn [fst] in R5.
    destruct r5; auto. apply kept_mach; auto. }
  destruct (meta_bookkeeping _ Hmi') as (_ & _ & Hemp').
  assert (EmA : v_m wA = m3) by (apply DA).
  assert (DA' : derived w2 (a_lref a) (set_blocks l bs3) (v_m wA) wA) by (rewrite EmA; exact DA).
  assert (Hgw2' : get_blist (set_m v2 m3) (a_lref a) = Some l2) by exact Hgw2.
  match goal with |- context [if ?cnd then (remove_block bs3 (bk_id b'), Some b') else ?rest] =>
    destruct cnd eqn:Ecnd end.
  - (* the freed block is deleted *)
    apply andb_true_iff in Ecnd. destruct Ecnd as (Ecnd & _). apply andb_true_iff in Ecnd. destruct Ecnd as (He & _).
    pose proof (destroy_sorted_inv w2 wA U (s :: X) (a_lref a) (set_blocks l bs3) b'
                  (set_blist (set_m v2 m3) (a_lref a) (incrementally_sort (set_blocks l (remove_block bs3 (bk_id b')))))
                  IA DA' Hb'in He) as DS.
    cbn [bl_blocks set_blocks bl_type] in DS.
    match type of DS with ?P -> _ => assert (HP : P) end.
    { rewrite EmA. apply (derived_set_blist w2 (a_lref a) l2). exact Hgw2. }
    specialize (DS HP).
    destruct (destroy_block c _ (bl_type l) b') as (v4 & dr). destruct DS as (I4 & T4 & L4).
    assert (K4 : kept v v4 U (s :: X)) by (eapply kept_frames; eauto).
    specialize (Hfinal v4 (match dr with OK _ => OK tt | STUCK => STUCK | _ => PANIC end)).
    destruct dr as [[]|code| |]; cbn in Hfinal |- *; auto.
    specialize (Hfinal K4). destruct (remove_allocation c (v_m v4) heap (a_size a)) as (m5 & rr). destruct rr; auto. contradiction.
  - match goal with |- context [if ?cnd then ?x else (bs3, None)] => destruct cnd eqn:Ecnd2 end.
    + (* the last block of the list may be deleted *)
      destruct (rev bs3) as [|lastb rest] eqn:Erev.
      * (* empty list: nothing to delete *)
        destruct (sorted_inv w2 wA U (s :: X) (a_lref a) (set_blocks l bs3) m3
                    (set_blist (set_m v2 m3) (a_lref a) (incrementally_sort (set_blocks l bs3))) IA DA
                    (derived_set_blist w2 (a_lref a) l2 _ Hgw2)) as (I3 & T3 & L3).
        specialize (Hfinal _ (OK tt) (kept_frames _ _ _ _ _ _ KA I3 T3 L3)). cbn in Hfinal |- *.
        destruct (remove_allocation c _ heap (a_size a)) as (m5 & rr). destruct rr; auto. contradiction.
      * destruct (meta_is_empty (bk_meta lastb)) eqn:Hel.
        -- assert (Ebs : bs3 = rev rest ++ [lastb]).
           { rewrite <- (rev_involutive bs3), Erev. cbn. reflexivity. }
           assert (Hlin : In lastb bs3) by (rewrite Ebs; apply in_app_iff; right; left; reflexivity).
           pose proof (destroy_sorted_inv w2 wA U (s :: X) (a_lref a) (set_blocks l bs3) lastb
                         (set_blist (set_m v2 m3) (a_lref a) (incrementally_sort (set_blocks l (rev rest))))
                         IA DA' Hlin Hel) as DS.
           cbn [bl_blocks set_blocks bl_type] in DS.
           match type of DS with ?P -> _ => assert (HP : P) end.
           { assert (Erm : remove_block bs3 (bk_id lastb) = rev rest).
             { generalize Hnd3. rewrite Ebs. apply remove_block_last. }
             rewrite EmA, Erm. apply (derived_set_blist w2 (a_lref a) l2). exact Hgw2. }
           specialize (DS HP).
           destruct (destroy_block c _ (bl_type l) lastb) as (v4 & dr). destruct DS as (I4 & T4 & L4).
           assert (K4 : kept v v4 U (s :: X)) by (eapply kept_frames; eauto).
           specialize (Hfinal v4 (match dr with OK _ => OK tt | STUCK => STUCK | _ => PANIC end)).
           destruct dr as [[]|code| |]; cbn in Hfinal |- *; auto.
           specialize (Hfinal K4). destruct (remove_allocation c (v_m v4) heap (a_size a)) as (m5 & rr). destruct rr; auto. contradiction.
        -- destruct (sorted_inv w2 wA U (s :: X) (a_lref a) (set_blocks l bs3) m3
                       (set_blist (set_m v2 m3) (a_lref a) (incrementally_sort (set_blocks l bs3))) IA DA
                       (derived_set_blist w2 (a_lref a) l2 _ Hgw2)) as (I3 & T3 & L3).
           specialize (Hfinal _ (OK tt) (kept_frames _ _ _ _ _ _ KA I3 T3 L3)). cbn in Hfinal |- *.
           destruct (remove_allocation c _ heap (a_size a)) as (m5 & rr). destruct rr; auto. contradiction.
    + destruct (sorted_inv w2 wA U (s :: X) (a_lref a) (set_blocks l bs3) m3
                  (set_blist (set_m v2 m3) (a_lref a) (incrementally_sort (set_blocks l bs3))) IA DA
                  (derived_set_blist w2 (a_lref a) l2 _ Hgw2)) as (I3 & T3 & L3).
      specialize (Hfinal _ (OK tt) (kept_frames _ _ _ _ _ _ KA I3 T3 L3)). cbn in Hfinal |- *.
      destruct (remove_allocation c _ heap (a_size a)) as (m5 & rr). destruct rr; auto. contradiction.
Qed.

(* ---------------------------------------------------------------- Allocate: loop, unwind, release *)

Definition keptS (v v' : vam) (U X S : list Z) : Prop := VamInvU c v' U X /\ tab_frame v v' S /\ lists_frame v v'.

Lemma keptS_trans v0 v1 v2 U X S : keptS v0 v1 U X S -> keptS v1 v2 U X S -> keptS v0 v2 U X S.
Proof.
  intros (A1 & A2 & A3) (B1 & B2 & B3). split; [auto|]. split; [eapply tab_frame_trans_same; [exact A2|exact B2]|eapply lists_frame_trans; [exact A3|exact B3]].
Qed.

Lemma keptS_weaken v v' U X S S' : keptS v v' U X S -> (forall s, In s S -> In s S') -> keptS v v' U X S'.
Proof. intros (A & B & C) H. split; [auto|]. split; [eapply tab_frame_weaken; eauto|auto]. Qed.

Lemma kept_keptS v v' U X S : kept v v' U X -> keptS v v' U X S.
Proof. intros (A & B & C). split; [auto|]. split; [eapply tab_frame_weaken; [exact B|intros ? []]|auto]. Qed.

(* Free of a block allocation followed by marking the object unallocated *)
Lemma free_block_slot_inv v U X s a keep :
  VamInvU c v U X -> slot_is v s a -> ~ In s X -> a_kind a = 1 ->
  let '(v', r) := bl_free c v (a_lref a) s keep in
  match r with
  | OK _ => keptS v (set_alloc v' s (set_allocated (get_alloc v' s) false)) U X [s] /\
            a_allocated (get_alloc (set_alloc v' s (set_allocated (get_alloc v' s) false)) s) = false
  | ER _ => kept v v' U X
  | _ => True
  end.
Proof.
  intros HI Hsl HnX Hk. pose proof (bl_free_inv v U X s a keep HI Hsl HnX Hk) as F.
  destruct (bl_free c v (a_lref a) s keep) as (v' & r). destruct r as [[]|code| |]; auto.
  destruct F as (I1 & T1 & L1).
  assert (HX : VamInvU c (set_alloc v' s (set_allocated (get_alloc v' s) false)) U X).
  { eapply VamInvU_unalloc_dang; [exact I1|left; reflexivity| |].
    - intros s1 H. split; [right; auto|]. intros ->. contradiction.
    - intros s1 [<-|H]; auto. }
  split.
  - split; [auto|]. split; [eapply tab_frame_trans; [exact T1|apply tab_frame_set_alloc|intros ? []|auto]|].
    eapply lists_frame_trans; [exact L1|apply lists_frame_set_alloc].
  - unfold get_alloc at 1. cbn. rewrite nth_z_set_same; [reflexivity|].
    destruct T1 as (E & _). rewrite E. eapply slot_is_range; eauto.
Qed.

(* the slots of a list: allocated block allocations of list lr, pairwise distinct *)
Definition block_slots (v : vam) (lr : lref) (X slots : list Z) : Prop :=
  NoDup slots /\ forall s, In s slots -> ~ In s X /\ exists a, slot_is v s a /\ a_kind a = 1 /\ a_lref a = lr.

Definition dead_slots (v : vam) (slots : list Z) : Prop :=
  forall s, In s slots -> 0 <= s < zlen (v_tab v) /\ a_allocated (get_alloc v s) = false.

Lemma block_slots_frame v v' lr X S slots :
  block_slots v lr X slots -> tab_frame v v' S -> (forall s, In s slots -> ~ In s S) -> block_slots v' lr X slots.
Proof.
  intros (Hnd & H) T Hd. split; [auto|]. intros s Hs. destruct (H s Hs) as (HX & a & Sa & R). split; [auto|].
  exists a. split; [|auto]. apply (slot_is_frame _ _ _ _ _ T); auto.
Qed.

Lemma dead_slots_frame v v' S slots :
  dead_slots v slots -> tab_frame v v' S -> (forall s, In s slots -> ~ In s S) -> dead_slots v' slots.
Proof.
  intros H T Hd s Hs. destruct (H s Hs) as (Hr & Ha). split; [destruct T as (E & _); lia|].
  rewrite (get_alloc_frame _ _ _ _ T); auto.
Qed.

Lemma unwind_loop_inv done : forall v U X lr,
  VamInvU c v U X -> block_slots v lr X done ->
  let '(v', r) := unwind_loop c v lr done in
  match r with
  | OK _ => keptS v v' U X done /\ dead_slots v' done
  | ER _ => False
  | _ => True
  end.
Proof.
  induction done as [|s tl IH]; intros v U X lr HI (Hnd & Hbs); cbn [unwind_loop].
  - split; [split; [auto|split; [apply tab_frame_refl|apply lists_frame_refl]]|intros ? []].
  - inversion Hnd as [|? ? Hs Hnd']; subst.
    destruct (Hbs s (or_introl eq_refl)) as (HX & a & Sa & Ka & La).
    pose proof (free_block_slot_inv v U X s a true HI Sa HX Ka) as F. rewrite La in F.
    destruct (bl_free c v lr s true) as (v1 & r). destruct r as [[]|code| |]; auto.
    destruct F as (K1 & D1). set (v1' := set_alloc v1 s (set_allocated (get_alloc v1 s) false)) in *.
    assert (Hbs' : block_slots v1' lr X tl).
    { eapply block_slots_frame with (v := v) (S := [s]); [split; [auto|]; intros; apply Hbs; right; auto|apply K1|].
      intros s1 H1 [<-|[]]. contradiction. }
    specialize (IH v1' U X lr (proj1 K1) Hbs').
    destruct (unwind_loop c v1' lr tl) as (v2 & r2). destruct r2 as [[]|code| |]; auto.
    destruct IH as (K2 & D2). split.
    + eapply keptS_trans; [eapply keptS_weaken; [exact K1|intros ? [<-|[]]; left; reflexivity]|].
      eapply keptS_weaken; [exact K2|intros; right; auto].
    + intros s1 [<-|H1]; [|apply D2; auto].
      destruct K2 as (_ & T2 & _). split; [destruct T2 as (E & _); destruct K1 as (_ & (E1 & _) & _); rewrite E, E1; eapply slot_is_range; eauto|].
      rewrite (get_alloc_frame _ _ _ _ T2); auto.
Qed.

Lemma release_loop_inv ids : forall v U X lr firstId,
  VamInvU c v U X ->
  let '(v', r) := release_loop c v lr ids firstId in
  match r with OK _ => kept v v' U X | ER _ => False | _ => True end.
Proof.
  induction ids as [|bid tl IH]; intros v U X lr firstId HI; cbn [release_loop].
  - split; [auto|split; [apply tab_frame_refl|apply lists_frame_refl]].
  - destruct (get_blist v lr) as [l|] eqn:Hg; [|exact I].
    assert (Hrefl : kept v v U X) by (split; [auto|split; [apply tab_frame_refl|apply lists_frame_refl]]).
    destruct (negb _); [exact Hrefl|].
    destruct (find_block (bl_blocks l) bid) as [b|] eqn:Hf; [|exact I].
    destruct (find_block_in _ _ _ Hf) as (Hb & Hid).
    destruct (meta_is_empty (bk_meta b)) eqn:He.
    + destruct (bk_id b <? firstId); cbn [orb negb]; [apply IH; auto|].
      pose proof (remove_destroy_inv v U X lr l b HI Hg Hb He) as RD. cbn zeta in RD. rewrite Hid in RD.
      destruct (destroy_block c _ (bl_type l) b) as (v2 & dr). destruct dr as [[]|code| |]; auto.
      specialize (IH v2 U X lr firstId (proj1 RD)).
      destruct (release_loop c v2 lr tl firstId) as (v3 & r3). destruct r3 as [[]|code| |]; auto.
      eapply kept_trans; [exact RD|exact IH].
    + rewrite orb_true_r. apply IH; auto.
Qed.

Lemma release_empty_since_inv v U X lr firstId :
  VamInvU c v U X ->
  let '(v', r) := release_empty_since c v lr firstId in
  match r with OK _ => kept v v' U X | ER _ => False | _ => True end.
Proof.
  intros HI. unfold release_empty_since. destruct (get_blist v lr) as [l|]; [|exact I]. apply release_loop_inv. auto.
Qed.

Lemma allocate_loop_inv slots : forall v U X lr done size align flags sub,
  VamInvU c v U X -> Bits.pow2 align -> min_ok v lr align -> NoDup (slots ++ done) ->
  dead_slots v slots -> block_slots v lr X done ->
  let '(v', r, done') := allocate_loop c v lr slots done size align flags sub in
  match r with
  | PANIC | STUCK => True
  | _ =>
    keptS v v' U X slots /\ block_slots v' lr X done' /\ (forall s, In s done -> In s done') /\
    (forall s, In s done' -> In s (slots ++ done)) /\
    match r with
    | OK _ => forall s, In s slots -> In s done'
    | _ => forall s, In s slots -> In s done' \/ (0 <= s < zlen (v_tab v') /\ a_allocated (get_alloc v' s) = false)
    end
  end.
Proof.
  induction slots as [|s tl IH]; intros v U X lr done size align flags sub HI Hal Hmin Hnd Hdead Hdone; cbn [allocate_loop].
  - split; [split; [auto|split; [apply tab_frame_refl|apply lists_frame_refl]]|]. split; [auto|]. split; [auto|]. split; [auto|]. intros ? [].
  - destruct (Hdead s (or_introl eq_refl)) as (Hr & Hd).
    pose proof (alloc_page_inv v U X lr size align flags sub s HI Hal Hmin Hr Hd) as AP.
    destruct (alloc_page c v lr size align flags sub s) as (v1 & r).
    cbn [app] in Hnd. inversion Hnd as [|? ? Hns Hnd']; subst.
    assert (Hdone1 : tab_frame v v1 [s] -> block_slots v1 lr X done).
    { intros T. eapply block_slots_frame; [exact Hdone|exact T|]. intros s1 H1 [<-|[]]. apply Hns. apply in_app_iff. auto. }
    assert (Hdead1 : tab_frame v v1 [s] -> dead_slots v1 tl).
    { intros T. eapply dead_slots_frame; [intros s1 H1; apply Hdead; right; exact H1|exact T|].
      intros s1 H1 [<-|[]]. apply Hns. apply in_app_iff. auto. }
    assert (Kw : VamInvU c v1 U X -> tab_frame v v1 [s] -> lists_frame v v1 -> keptS v v1 U X (s :: tl)).
    { intros I1 T1 L1. split; [exact I1|split; [eapply tab_frame_weaken; [exact T1|intros ? [<-|[]]; left; reflexivity]|exact L1]]. }
    destruct r as [[]|code| |]; cbn [ap_post] in AP; auto.
    + destruct AP as (I1 & T1 & L1 & (a & Sa & Ka & La)).
      assert (Hnd1 : NoDup (tl ++ s :: done)).
      { eapply Permutation.Permutation_NoDup; [apply Permutation.Permutation_middle|exact Hnd]. }
      assert (Hbs1 : block_slots v1 lr X (s :: done)).
      { destruct (Hdone1 T1) as (Hndd & Hd1). split; [constructor; [intros H; apply Hns; apply in_app_iff; auto|auto]|].
        intros s1 [<-|H1]; [|apply Hd1; auto]. split; [|eauto].
        intros HX. destruct (vi_dang _ _ _ _ HI _ HX) as (a2 & S2 & _). rewrite (get_alloc_slot _ _ _ S2) in Hd. destruct S2. congruence. }
      specialize (IH v1 U X lr (s :: done) size align flags sub I1 Hal (min_ok_frame _ _ _ _ L1 Hmin) Hnd1 (Hdead1 T1) Hbs1).
      destruct (allocate_loop c v1 lr tl (s :: done) size align flags sub) as ((v2 & r2) & done2).
      destruct r2 as [[]|code| |]; auto; destruct IH as (K2 & B2 & S2 & Q2 & O2);
        (split; [eapply keptS_trans; [exact (Kw I1 T1 L1)|eapply keptS_weaken; [exact K2|intros; right; auto]]|]);
        (split; [auto|]); (split; [intros x Hx; apply S2; right; auto|]);
        (split; [intros x Hx; specialize (Q2 x Hx); apply in_app_iff in Q2; destruct Q2 as [H|[<-|H]];
                 [right; apply in_app_iff; auto|left; reflexivity|right; apply in_app_iff; auto]|]).
      * intros x [<-|Hx]; [apply S2; left; reflexivity|auto].
      * intros x [<-|Hx]; [left; apply S2; left; reflexivity|auto].
    + destruct AP as (I1 & T1 & L1 & D1). split; [exact (Kw I1 T1 L1)|]. split; [auto|]. split; [auto|].
      split; [intros x Hx; right; apply in_app_iff; auto|].
      intros x [<-|Hx]; right.
      * split; [destruct T1 as (E & _); lia|auto].
      * apply (Hdead1 T1). auto.
Qed.

(* memoryBlockList.Allocate *)
Lemma bl_allocate_inv v U X lr slots size align0 flags sub :
  VamInvU c v U X -> align0 = 0 \/ Bits.pow2 align0 -> NoDup slots -> dead_slots v slots ->
  let '(v', r) := bl_allocate c v lr slots size align0 flags sub in
  match r with
  | OK _ => keptS v v' U X slots /\ block_slots v' lr X slots
  | ER _ => keptS v v' U X slots /\ dead_slots v' slots
  | _ => True
  end.
Proof.
  intros HI Hal Hnd Hdead. unfold bl_allocate. destruct (get_blist v lr) as [l|] eqn:Hg; [|exact I].
  pose proof (vi_lists _ _ _ _ HI _ _ Hg) as Hwf.
  assert (Hal' : Bits.pow2 (if align0 <? bl_minalign l then bl_minalign l else align0)).
  { pose proof (bw_align _ _ Hwf) as Hm. pose proof (Bits.pow2_pos _ Hm). destruct (align0 <? bl_minalign l) eqn:E; [auto|].
    destruct Hal as [->|H']; [apply Z.ltb_ge in E; lia|auto]. }
  assert (Hnd0 : NoDup (slots ++ [])) by (rewrite app_nil_r; auto).
  assert (Hbs0 : block_slots v lr X []) by (split; [constructor|intros ? []]).
  assert (Hmin0 : min_ok v lr (if align0 <? bl_minalign l then bl_minalign l else align0)).
  { intros l' G'. rewrite Hg in G'. injection G' as <-. destruct (align0 <? bl_minalign l) eqn:E; [lia|apply Z.ltb_ge in E; lia]. }
  pose proof (allocate_loop_inv slots v U X lr [] size _ flags sub HI Hal' Hmin0 Hnd0 Hdead Hbs0) as AL.
  destruct (allocate_loop c v lr slots [] size _ flags sub) as ((v1 & r) & done).
  destruct r as [[]|code| |]; auto.
  - destruct AL as (K1 & B1 & _ & _ & O1). split; [auto|]. destruct B1 as (Hndd & Hb1). split; [auto|].
    intros s Hs. apply Hb1. auto.
  - destruct AL as (K1 & B1 & _ & Q1 & O1).
    assert (Hsub : forall s, In s done -> In s slots) by (intros s Hs; specialize (Q1 s Hs); rewrite app_nil_r in Q1; auto).
    pose proof (unwind_loop_inv done v1 U X lr (proj1 K1) B1) as UW.
    destruct (unwind_loop c v1 lr done) as (v2 & ur). destruct ur as [[]|ucode| |]; auto; [|contradiction].
    destruct UW as (K2 & D2).
    pose proof (release_empty_since_inv v2 U X lr (bl_next l) (proj1 K2)) as RE.
    destruct (release_empty_since c v2 lr (bl_next l)) as (v3 & rr). destruct rr as [[]|rcode| |]; auto; [|contradiction].
    split.
    + eapply keptS_trans; [exact K1|]. eapply keptS_trans; [eapply keptS_weaken; [exact K2|exact Hsub]|]. apply kept_keptS. exact RE.
    + eapply dead_slots_frame with (v := v2) (S := []); [|apply RE|intros ? ? []].
      intros s Hs. destruct (in_dec Z.eq_dec s done) as [Hin|Hnin]; [apply D2; auto|].
      destruct (O1 s Hs) as [H|(Hr & Hd)]; [contradiction|]. destruct K2 as (_ & T2 & _).
      split; [destruct T2 as (E & _); lia|]. rewrite (get_alloc_frame _ _ _ _ T2); auto.
Qed.

(* memoryBlockList.Destroy *)
Lemma destroy_blocks_machine bs : forall v ty, exists m', fst (destroy_blocks c v ty bs) = set_m v m'.
Proof.
  induction bs as [|b tl IH]; intros v ty; cbn [destroy_blocks].
  - exists (v_m v). destruct v; reflexivity.
  - unfold destroy_block. destruct (negb _); [exists (v_m v); destruct v; reflexivity|].
    destruct (free_vk c (v_m v) ty _ _) as (m1 & r). destruct r as [[]|code| |]; try (exists m1; reflexivity).
    destruct (IH (set_m v m1) ty) as (m' & E). rewrite E. exists m'. reflexivity.
Qed.

Lemma bl_destroy_inv v U X lr :
  VamInvU c v U X ->
  let '(v', r) := bl_destroy c v lr in
  match r with
  | OK _ => kept v v' U X /\ (exists l', get_blist v' lr = Some l' /\ bl_blocks l' = [])
  | ER _ => v' = v /\ exists l b, get_blist v lr = Some l /\ In b (bl_blocks l) /\ meta_is_empty (bk_meta b) = false
  | _ => True
  end.
Proof.
  intros HI. unfold bl_destroy. destruct (get_blist v lr) as [l|] eqn:Hg; [|exact I].
  destruct (existsb _ _) eqn:Eall.
  { split; [reflexivity|]. apply existsb_exists in Eall. destruct Eall as (b & Hb & Hn). exists l, b. split; [auto|]. split; [auto|].
    apply negb_true_iff in Hn. exact Hn. }
  assert (Hall : forall b, In b (bl_blocks l) -> meta_is_empty (bk_meta b) = true).
  { intros b Hb. destruct (meta_is_empty (bk_meta b)) eqn:E; [auto|]. exfalso.
    assert (existsb (fun b => negb (meta_is_empty (bk_meta b))) (bl_blocks l) = true) by (apply existsb_exists; exists b; rewrite E; auto).
    congruence. }
  clear Eall.
  (* generalise: the blocks still to destroy are a suffix; those before are already gone in the chain state *)
  assert (G : forall bs w, VamInvU c w U X -> kept v w U X -> get_blist w lr = Some (set_blocks l bs) ->
              (forall b, In b bs -> meta_is_empty (bk_meta b) = true) ->
              forall vm, vm = v_m w ->
              let '(v1, r) := destroy_blocks c (set_m v vm) (bl_type l) bs in
              match r with
              | OK _ => exists wF, kept v wF U X /\ get_blist wF lr = Some (set_blocks l []) /\ v_m wF = v_m v1 /\
                                   derived w lr (set_blocks l []) (v_m v1) wF
              | ER _ => False
              | _ => True end).
  { induction bs as [|b tl IH]; intros w IW KW Hgw Hemp vm ->; cbn [destroy_blocks].
    - exists w. split; [auto|]. split; [auto|]. split; [reflexivity|]. cbn. apply (derived_self w lr). exact Hgw.
    - pose proof (remove_destroy_inv w U X lr (set_blocks l (b :: tl)) b IW Hgw (or_introl eq_refl) (Hemp b (or_introl eq_refl))) as RD.
      cbn zeta in RD. cbn [bl_blocks set_blocks bl_type remove_block] in RD. rewrite Z.eqb_refl in RD.
      unfold destroy_block in RD |- *. rewrite (Hemp b (or_introl eq_refl)) in RD |- *. cbn [negb] in RD |- *.
      rewrite set_blist_m in RD. cbn [set_m v_m].
      pose proof (free_vk_no_error c (v_m w) (bl_type l) (meta_size (bk_meta b)) (bk_mem b)) as NE.
      destruct (free_vk c (v_m w) (bl_type l) (meta_size (bk_meta b)) (bk_mem b)) as (m1 & fr). cbn [snd] in NE.
      destruct fr as [[]|code| |]; auto.
      set (w1 := set_m (set_blist w lr (set_blocks l tl)) m1) in *.
      assert (Hg1 : get_blist w1 lr = Some (set_blocks l tl)).
      { unfold w1. rewrite get_blist_set_m. eapply get_set_blist_same; eauto. }
      specialize (IH w1 (proj1 RD) (kept_trans _ _ _ _ _ KW RD) Hg1 (fun b0 H => Hemp b0 (or_intror H)) m1 eq_refl).
      replace (set_m (set_m v (v_m w)) m1) with (set_m v m1) by reflexivity.
      destruct (destroy_blocks c (set_m v m1) (bl_type l) tl) as (v1 & r1). destruct r1 as [[]|code| |]; auto.
      destruct IH as (wF & K & GF & MF & DF). exists wF. split; [auto|]. split; [auto|]. split; [auto|].
      (* derived from w1 implies derived from w *)
      destruct DF as [D1 D2 D3 D4 D5 D6 D7 D8 D9 D10 D11 D12]. unfold w1 in *. constructor; auto.
      + intros lr1 Hne. rewrite D2 by auto. rewrite get_blist_set_m, get_set_blist_other by congruence. reflexivity.
      + intros lr1. rewrite D3, get_dedlist_set_m, set_blist_dedlist. reflexivity.
      + rewrite D4. cbn. apply set_blist_tab.
      + rewrite D6. cbn. apply set_blist_lists_len.
      + rewrite D7. cbn. rewrite set_blist_ded. reflexivity.
      + rewrite D8. cbn. apply set_blist_uids.
      + rewrite D9. cbn. apply set_blist_pids.
      + rewrite D10. cbn. apply set_blist_next_uid.
      + rewrite D11. cbn. apply set_blist_next_pid.
      + rewrite D12. cbn. apply set_blist_global0. }
  assert (El : l = set_blocks l (bl_blocks l)) by (destruct l; reflexivity).
  assert (Kv : kept v v U X) by (split; [auto|split; [apply tab_frame_refl|apply lists_frame_refl]]).
  specialize (G (bl_blocks l) v HI Kv ltac:(rewrite <- El; exact Hg) Hall (v_m v) eq_refl).
  replace (set_m v (v_m v)) with v in G by (destruct v; reflexivity).
  destruct (destroy_blocks c v (bl_type l) (bl_blocks l)) as (v1 & r) eqn:Edb. destruct r as [[]|code| |]; auto.
  2:{ contradiction. }
  destruct G as (wF & K & GF & MF & DF).
  destruct (destroy_blocks_machine (bl_blocks l) v (bl_type l)) as (m' & Em).
  match goal with H : destroy_blocks c v (bl_type l) (bl_blocks l) = _ |- _ => rewrite H in Em end. cbn [fst] in Em. subst v1.
  rewrite get_blist_set_m, Hg.
  assert (DFin : derived v lr (set_blocks l []) m' (set_blist (set_m v m') lr (set_blocks l []))).
  { eapply derived_set_blist_again. eapply derived_set_m. apply (derived_self v lr l). exact Hg. }
  cbn [v_m set_m] in DF.
  pose proof (derived_obs_eq _ _ _ _ _ _ DF DFin) as E.
  split; [eapply kept_obs; eauto|]. exists (set_blocks l []). split; [apply DFin|reflexivity].
Qed.

Lemma create_min_blocks_inv n : forall v U X lr size,
  VamInvU c v U X ->
  let '(v', r) := create_min_blocks c n v lr size in kept v v' U X.
Proof.
  induction n as [|k IH]; intros v U X lr size HI; cbn [create_min_blocks].
  - split; [auto|split; [apply tab_frame_refl|apply lists_frame_refl]].
  - destruct (get_blist v lr) as [l|] eqn:Hg.
    + pose proof (create_block_inv v U X lr l size HI Hg) as C.
      destruct (create_block c v lr size) as (v1 & r). destruct r; try exact C.
      specialize (IH v1 U X lr size (proj1 C)). destruct (create_min_blocks c k v1 lr size) as (v2 & r2).
      eapply kept_trans; eauto.
    + unfold create_block. rewrite Hg. split; [auto|split; [apply tab_frame_refl|apply lists_frame_refl]].
Qed.
End WithCfg.
