(* TlsfGeom.v — geometry of the TLSF physical chain: the blocks tile [0, null.off), offsets are
   unique, and the chain surgery functions of Tlsf.v act locally.  No free-list reasoning here. *)
From Coq Require Import ZArith List Bool Lia.
From Arsenal Require Import Util Gran Tlsf.
Import ListNotations.
Open Scope Z_scope.

Fixpoint chain_from (o : Z) (c : list blk) : Prop :=
  match c with
  | [] => True
  | b :: bs => b_off b = o /\ 0 < b_size b /\ chain_from (o + b_size b) bs
  end.

Fixpoint chain_end (o : Z) (c : list blk) : Z :=
  match c with
  | [] => o
  | b :: bs => chain_end (o + b_size b) bs
  end.

Lemma chain_from_app o a b :
  chain_from o (a ++ b) <-> chain_from o a /\ chain_from (chain_end o a) b.
Proof.
  revert o; induction a as [|x a IH]; intros o; cbn.
  - tauto.
  - rewrite IH. tauto.
Qed.

Lemma chain_end_app o a b : chain_end o (a ++ b) = chain_end (chain_end o a) b.
Proof. revert o; induction a as [|x a IH]; intros o; cbn; auto. Qed.

Lemma chain_end_ge o c : chain_from o c -> o <= chain_end o c.
Proof.
  revert o; induction c as [|x c IH]; intros o H; cbn in *; [lia|].
  destruct H as (_ & Hs & Hc). specialize (IH _ Hc). lia.
Qed.

Lemma chain_in_bounds o c b :
  chain_from o c -> In b c -> o <= b_off b /\ 0 < b_size b /\ b_off b + b_size b <= chain_end o c.
Proof.
  revert o; induction c as [|x c IH]; intros o H Hin; cbn in *; [tauto|].
  destruct H as (Ho & Hs & Hc). destruct Hin as [->|Hin].
  - pose proof (chain_end_ge _ _ Hc). lia.
  - specialize (IH _ Hc Hin). lia.
Qed.

(* every block of the prefix lies strictly below the start of the suffix *)
Lemma chain_prefix_below o pre post b :
  chain_from o (pre ++ post) -> In b pre -> b_off b + b_size b <= chain_end o pre /\ o <= b_off b.
Proof.
  intros H Hin. apply chain_from_app in H. destruct H as (Hp & _).
  pose proof (chain_in_bounds _ _ _ Hp Hin). lia.
Qed.

Lemma chain_split_order o pre x post a b :
  chain_from o (pre ++ x :: post) -> In a pre -> In b (x :: post) -> b_off a + b_size a <= b_off b.
Proof.
  intros H Ha Hb. apply chain_from_app in H. destruct H as (Hp & Hq).
  pose proof (chain_in_bounds _ _ _ Hp Ha).
  pose proof (chain_in_bounds _ _ _ Hq Hb). lia.
Qed.

(* two different positions of a chain hold disjoint ranges *)
Lemma chain_disjoint o c i j a b :
  chain_from o c -> nth_error c i = Some a -> nth_error c j = Some b -> (i < j)%nat ->
  b_off a + b_size a <= b_off b.
Proof.
  revert o i j; induction c as [|x c IH]; intros o i j H Hi Hj Hlt.
  - destruct i; discriminate.
  - cbn in H. destruct H as (Ho & Hs & Hc).
    destruct i as [|i]; destruct j as [|j]; try lia; cbn in *.
    + injection Hi as <-. apply nth_error_In in Hj.
      pose proof (chain_in_bounds _ _ _ Hc Hj). lia.
    + eapply IH; eauto. lia.
Qed.

(* ------------------------------------------------------------------ lookups on a split chain *)

Definition below (h : Z) (l : list blk) : Prop := Forall (fun x => b_off x <> h) l.

Lemma below_of_chain o pre x post :
  chain_from o (pre ++ x :: post) -> below (b_off x) pre.
Proof.
  intros H. apply Forall_forall. intros a Ha.
  assert (Hx : In x (x :: post)) by (left; reflexivity).
  pose proof (chain_split_order _ _ _ _ _ _ H Ha Hx).
  apply chain_from_app in H. destruct H as (Hp & _).
  pose proof (chain_in_bounds _ _ _ Hp Ha). lia.
Qed.

Lemma above_of_chain o pre x post :
  chain_from o (pre ++ x :: post) -> Forall (fun y => b_off x < b_off y) post.
Proof.
  intros H. apply chain_from_app in H. destruct H as (_ & Hq). cbn in Hq.
  destruct Hq as (Hox & Hsx & Hpost). apply Forall_forall. intros y Hy.
  pose proof (chain_in_bounds _ _ _ Hpost Hy). lia.
Qed.

Lemma find_blk_app h pre x post :
  below h pre -> b_off x = h -> find_blk h (pre ++ x :: post) = Some x.
Proof.
  induction pre as [|a pre IH]; intros Hb Hx; cbn.
  - rewrite Hx, Z.eqb_refl. reflexivity.
  - inversion Hb as [|? ? Ha Hb']; subst. destruct (Z.eqb_spec (b_off a) (b_off x)); [congruence|]. auto.
Qed.

Lemma find_blk_split h c b :
  find_blk h c = Some b -> exists pre post, c = pre ++ b :: post /\ b_off b = h /\ below h pre.
Proof.
  induction c as [|a c IH]; cbn; [discriminate|].
  destruct (Z.eqb_spec (b_off a) h) as [E|E]; intros H.
  - injection H as <-. exists [], c. repeat split; auto. constructor.
  - destruct (IH H) as (pre & post & -> & Hb & Hbel).
    exists (a :: pre), post. repeat split; auto. constructor; auto.
Qed.

Lemma find_blk_none h c : find_blk h c = None -> below h c.
Proof.
  induction c as [|a c IH]; cbn; [constructor|].
  destruct (Z.eqb_spec (b_off a) h); [discriminate|]. intros H. constructor; [auto | apply IH; auto].
Qed.

Lemma find_blk_in h c b : find_blk h c = Some b -> In b c /\ b_off b = h.
Proof.
  intros H. destruct (find_blk_split _ _ _ H) as (pre & post & -> & E & _).
  split; auto. apply in_or_app. right. left. reflexivity.
Qed.

Lemma replace_blk_app h nb pre x post :
  below h pre -> b_off x = h -> replace_blk h nb (pre ++ x :: post) = pre ++ nb :: post.
Proof.
  induction pre as [|a pre IH]; intros Hb Hx; cbn.
  - rewrite Hx, Z.eqb_refl. reflexivity.
  - inversion Hb as [|? ? Ha Hb']; subst. destruct (Z.eqb_spec (b_off a) (b_off x)); [congruence|].
    f_equal. auto.
Qed.

Lemma remove_blk_app h pre x post :
  below h pre -> b_off x = h -> remove_blk h (pre ++ x :: post) = pre ++ post.
Proof.
  induction pre as [|a pre IH]; intros Hb Hx; cbn.
  - rewrite Hx, Z.eqb_refl. reflexivity.
  - inversion Hb as [|? ? Ha Hb']; subst. destruct (Z.eqb_spec (b_off a) (b_off x)); [congruence|].
    f_equal. auto.
Qed.

Lemma insert_before_app h nb pre x post :
  below h pre -> b_off x = h -> insert_before h nb (pre ++ x :: post) = pre ++ nb :: x :: post.
Proof.
  induction pre as [|a pre IH]; intros Hb Hx; cbn.
  - rewrite Hx, Z.eqb_refl. reflexivity.
  - inversion Hb as [|? ? Ha Hb']; subst. destruct (Z.eqb_spec (b_off a) (b_off x)); [congruence|].
    f_equal. auto.
Qed.

Lemma insert_after_app h nb pre x post :
  below h pre -> b_off x = h -> insert_after h nb (pre ++ x :: post) = pre ++ x :: nb :: post.
Proof.
  induction pre as [|a pre IH]; intros Hb Hx; cbn.
  - rewrite Hx, Z.eqb_refl. reflexivity.
  - inversion Hb as [|? ? Ha Hb']; subst. destruct (Z.eqb_spec (b_off a) (b_off x)); [congruence|].
    f_equal. auto.
Qed.

Lemma prev_aux_app h p0 pre x post :
  below h pre -> b_off x = h ->
  prev_aux h p0 (pre ++ x :: post) = match last_blk pre with Some p => Some p | None => p0 end.
Proof.
  revert p0; induction pre as [|a pre IH]; intros p0 Hb Hx; cbn.
  - rewrite Hx, Z.eqb_refl. reflexivity.
  - inversion Hb as [|? ? Ha Hb']; subst. destruct (Z.eqb_spec (b_off a) (b_off x)); [congruence|].
    rewrite IH by auto. unfold last_blk. cbn.
    destruct (rev pre) as [|r rs] eqn:E; cbn; reflexivity.
Qed.

Lemma prev_blk_app h pre p x post :
  below h (pre ++ [p]) -> b_off x = h -> prev_blk h ((pre ++ [p]) ++ x :: post) = Some p.
Proof.
  intros Hb Hx. unfold prev_blk. rewrite prev_aux_app by auto.
  unfold last_blk. rewrite rev_app_distr. reflexivity.
Qed.

Lemma prev_blk_first h x post : b_off x = h -> prev_blk h (x :: post) = None.
Proof. intros Hx. unfold prev_blk. cbn. rewrite Hx, Z.eqb_refl. reflexivity. Qed.

Lemma next_blk_app h pre x post :
  below h pre -> b_off x = h -> next_blk h (pre ++ x :: post) = hd_error post.
Proof.
  induction pre as [|a pre IH]; intros Hb Hx; cbn.
  - rewrite Hx, Z.eqb_refl. reflexivity.
  - inversion Hb as [|? ? Ha Hb']; subst. destruct (Z.eqb_spec (b_off a) (b_off x)); [congruence|]. auto.
Qed.

Lemma last_blk_app pre x : last_blk (pre ++ [x]) = Some x.
Proof. unfold last_blk. rewrite rev_app_distr. reflexivity. Qed.

Lemma last_blk_nil : last_blk [] = None.
Proof. reflexivity. Qed.

Lemma list_last_split {A} (l : list A) : l = [] \/ exists pre x, l = pre ++ [x].
Proof.
  destruct l as [|a l]; [left; reflexivity|right].
  destruct (exists_last (l := a :: l)) as (pre & x & E); [discriminate|]. eauto.
Qed.
