(* SizeClass.v — arithmetic of the TLSF size classes of Tlsf.v (Go: sizeToMemoryClass,
   sizeToSecondIndex, getListIndex, sizeForNextList, and the list count computed by Init). *)
From Coq Require Import ZArith Lia List Bool.
From Arsenal Require Import Util Gran Tlsf.
Open Scope Z_scope.

(* a (memory class, second-level index) pair that can occur for a block size below 2^39 *)
Definition valid_pair (mc sli : Z) : Prop :=
  0 <= mc <= 31 /\ 0 <= sli /\ sli < (if mc =? 0 then 4 else 32).

(* ------------------------------------------------------------------ closed forms *)

Lemma log2_ge_8 s : 256 < s -> 8 <= Z.log2 s.
Proof. intros H. change 8 with (Z.log2 256). apply Z.log2_le_mono. lia. Qed.

Lemma q_bounds s : 256 < s -> 32 <= s / 2 ^ (Z.log2 s - 5) < 64.
Proof.
  intros Hs. pose proof (log2_ge_8 s Hs) as H8.
  pose proof (Z.log2_spec s ltac:(lia)) as [L U].
  replace (Z.succ (Z.log2 s)) with ((Z.log2 s - 5) + 6) in U by lia.
  replace (Z.log2 s) with ((Z.log2 s - 5) + 5) in L at 1 by lia.
  rewrite Z.pow_add_r in L, U by lia.
  pose proof (Z.pow_pos_nonneg 2 (Z.log2 s - 5) ltac:(lia) ltac:(lia)) as Hp.
  change (2 ^ 5) with 32 in L. change (2 ^ 6) with 64 in U.
  split; [apply Z.div_le_lower_bound; lia | apply Z.div_lt_upper_bound; lia].
Qed.

Lemma lxor_32 n : 32 <= n < 64 -> Z.lxor n 32 = n - 32.
Proof.
  intros Hn. set (r := n - 32). replace n with (r + 32) by (unfold r; lia).
  assert (Hr : 0 <= r < 32) by (unfold r; lia).
  assert (HL : Z.land r 32 = 0).
  { apply Z.bits_inj'. intros i Hi. rewrite Z.land_spec, Z.bits_0.
    destruct (Z.eq_dec i 5) as [->|Hne].
    - rewrite (Z.bits_above_log2 r 5); [reflexivity|lia|].
      destruct (Z.eq_dec r 0) as [->|]; [cbn; lia|].
      apply Z.log2_lt_pow2; lia.
    - change 32 with (2 ^ 5). rewrite Z.pow2_bits_false by lia. apply andb_false_r. }
  rewrite (Z.add_nocarry_lxor r 32 HL), Z.lxor_assoc, Z.lxor_nilpotent, Z.lxor_0_r. lia.
Qed.

Lemma size_to_class_small s : s <= 256 -> size_to_class s = 0.
Proof. intros H. unfold size_to_class. destruct (Z.gtb_spec s 256); [lia|reflexivity]. Qed.

Lemma size_to_class_big s : 256 < s -> size_to_class s = Z.log2 s - 7.
Proof. intros H. unfold size_to_class. destruct (Z.gtb_spec s 256); [reflexivity|lia]. Qed.

Lemma size_to_sli_small s : 1 <= s -> size_to_sli s 0 = (s - 1) / 64.
Proof.
  intros H. unfold size_to_sli. change (0 =? 0) with true. cbv iota.
  apply Z.quot_div_nonneg; lia.
Qed.

Lemma size_to_sli_big s : 256 < s -> size_to_sli s (Z.log2 s - 7) = s / 2 ^ (Z.log2 s - 5) - 32.
Proof.
  intros H. pose proof (log2_ge_8 s H) as H8. unfold size_to_sli.
  destruct (Z.eqb_spec (Z.log2 s - 7) 0) as [E|E]; [lia|].
  replace (Z.log2 s - 7 + 2) with (Z.log2 s - 5) by lia.
  rewrite Z.shiftr_div_pow2 by lia.
  pose proof (q_bounds s H) as Hq.
  rewrite lxor_32 by exact Hq. apply Z.mod_small. lia.
Qed.

Lemma list_of_size_small s : 1 <= s <= 256 -> list_of_size s = (s - 1) / 64.
Proof.
  intros H. unfold list_of_size. rewrite size_to_class_small by lia.
  rewrite size_to_sli_small by lia. reflexivity.
Qed.

Lemma list_of_size_big s :
  256 < s -> list_of_size s = (Z.log2 s - 8) * 32 + (s / 2 ^ (Z.log2 s - 5) - 32) + 4.
Proof.
  intros H. pose proof (log2_ge_8 s H) as H8. unfold list_of_size.
  rewrite size_to_class_big by lia. rewrite size_to_sli_big by lia.
  unfold list_index. destruct (Z.eqb_spec (Z.log2 s - 7) 0) as [E|E]; [lia|].
  replace (Z.log2 s - 7 - 1) with (Z.log2 s - 8) by lia. reflexivity.
Qed.

Lemma small_div_bounds s : 1 <= s <= 256 -> 0 <= (s - 1) / 64 < 4.
Proof.
  intros H. split; [apply Z.div_pos; lia|]. apply Z.div_lt_upper_bound; lia.
Qed.

(* ------------------------------------------------------------------ A: monotonicity *)

Theorem size_to_class_mono s1 s2 : 1 <= s1 -> s1 <= s2 -> size_to_class s1 <= size_to_class s2.
Proof.
  intros H1 H12.
  destruct (Z_le_gt_dec s2 256) as [Hs2|Hs2].
  - rewrite !size_to_class_small by lia. lia.
  - rewrite (size_to_class_big s2) by lia. pose proof (log2_ge_8 s2 ltac:(lia)).
    destruct (Z_le_gt_dec s1 256) as [Hs1|Hs1].
    + rewrite size_to_class_small by lia. lia.
    + rewrite size_to_class_big by lia. pose proof (Z.log2_le_mono s1 s2 ltac:(lia)). lia.
Qed.

Theorem list_of_size_mono s1 s2 : 1 <= s1 <= s2 -> list_of_size s1 <= list_of_size s2.
Proof.
  intros [H1 H12].
  destruct (Z_le_gt_dec s2 256) as [Hs2|Hs2].
  - rewrite !list_of_size_small by lia. apply Z.div_le_mono; lia.
  - rewrite (list_of_size_big s2) by lia.
    pose proof (log2_ge_8 s2 ltac:(lia)) as H82. pose proof (q_bounds s2 ltac:(lia)) as Hq2.
    destruct (Z_le_gt_dec s1 256) as [Hs1|Hs1].
    + rewrite list_of_size_small by lia. pose proof (small_div_bounds s1 ltac:(lia)). lia.
    + rewrite list_of_size_big by lia.
      pose proof (log2_ge_8 s1 ltac:(lia)) as H81. pose proof (q_bounds s1 ltac:(lia)) as Hq1.
      pose proof (Z.log2_le_mono s1 s2 ltac:(lia)) as Hl.
      destruct (Z.eq_dec (Z.log2 s1) (Z.log2 s2)) as [Eq|Ne].
      * rewrite Eq.
        assert (s1 / 2 ^ (Z.log2 s2 - 5) <= s2 / 2 ^ (Z.log2 s2 - 5)).
        { apply Z.div_le_mono; [|lia]. apply Z.pow_pos_nonneg; lia. }
        lia.
      * lia.
Qed.

(* ------------------------------------------------------------------ A: the next list *)

Lemma div_add_pow s k : 0 <= k -> (s + 2 ^ k) / 2 ^ k = s / 2 ^ k + 1.
Proof.
  intros Hk. pose proof (Z.pow_pos_nonneg 2 k ltac:(lia) Hk).
  replace (s + 2 ^ k) with (s + 1 * 2 ^ k) by lia. apply Z.div_add. lia.
Qed.

Theorem next_list_exact s : 1 <= s -> list_of_size (size_for_next_list s) = list_of_size s + 1.
Proof.
  intros H1. unfold size_for_next_list.
  destruct (Z.gtb_spec s 256) as [Hb|Hb].
  - (* big *)
    pose proof (log2_ge_8 s Hb) as H8. pose proof (q_bounds s Hb) as Hq.
    set (k := Z.log2 s) in *.
    pose proof (Z.pow_pos_nonneg 2 (k - 5) ltac:(lia) ltac:(lia)) as Hp.
    set (s' := s + 2 ^ (k - 5)).
    assert (Hs' : 256 < s') by (unfold s'; lia).
    rewrite (list_of_size_big s) by lia. fold k.
    rewrite (list_of_size_big s') by lia.
    pose proof (Z.log2_spec s ltac:(lia)) as [L U]. fold k in L, U.
    assert (Hq' : s' / 2 ^ (k - 5) = s / 2 ^ (k - 5) + 1) by (unfold s'; apply div_add_pow; lia).
    destruct (Z_lt_ge_dec (s / 2 ^ (k - 5)) 63) as [Hlt|Hge].
    + (* same class *)
      assert (Hk' : Z.log2 s' = k).
      { apply Z.log2_unique; [lia|]. split; [unfold s'; lia|].
        replace (Z.succ k) with ((k - 5) + 6) by lia. rewrite Z.pow_add_r by lia.
        change (2 ^ 6) with 64.
        assert (s' / 2 ^ (k - 5) < 64) by lia.
        pose proof (Z.mul_div_le s' (2 ^ (k - 5)) Hp).
        pose proof (Z.mod_pos_bound s' (2 ^ (k - 5)) Hp).
        pose proof (Z.div_mod s' (2 ^ (k - 5)) ltac:(lia)). nia. }
      rewrite Hk', Hq'. lia.
    + (* carries into the next class *)
      assert (Hqe : s / 2 ^ (k - 5) = 63) by lia.
      assert (Hk' : Z.log2 s' = k + 1).
      { apply Z.log2_unique; [lia|].
        replace (k + 1) with ((k - 5) + 6) at 1 by lia.
        replace (Z.succ (k + 1)) with ((k - 5) + 7) by lia. rewrite !Z.pow_add_r by lia.
        change (2 ^ 6) with 64. change (2 ^ 7) with 128.
        pose proof (Z.div_mod s (2 ^ (k - 5)) ltac:(lia)).
        pose proof (Z.mod_pos_bound s (2 ^ (k - 5)) Hp).
        unfold s'. split; nia. }
      rewrite Hk'. replace (k + 1 - 5) with ((k - 5) + 1) by lia.
      rewrite Z.pow_add_r by lia. change (2 ^ 1) with 2.
      assert (Hdiv : s' / (2 ^ (k - 5) * 2) = 32).
      { rewrite <- Z.div_div by lia. rewrite Hq', Hqe. reflexivity. }
      rewrite Hdiv, Hqe. lia.
  - destruct (Z.gtb_spec s 192) as [Hm|Hm].
    + rewrite (list_of_size_small s) by lia.
      assert ((s - 1) / 64 = 3).
      { symmetry. apply Z.div_unique with (r := s - 1 - 192); lia. }
      rewrite H. reflexivity.
    + rewrite !list_of_size_small by lia.
      replace (s + 64 - 1) with ((s - 1) + 1 * 64) by lia. rewrite Z.div_add by lia. reflexivity.
Qed.

Lemma size_for_next_list_gt s : 1 <= s -> s < size_for_next_list s.
Proof.
  intros H. unfold size_for_next_list.
  destruct (Z.gtb_spec s 256) as [Hb|Hb].
  - pose proof (log2_ge_8 s Hb). pose proof (Z.pow_pos_nonneg 2 (Z.log2 s - 5) ltac:(lia) ltac:(lia)). lia.
  - destruct (Z.gtb_spec s 192); lia.
Qed.

(* ------------------------------------------------------------------ A: bounds *)

Lemma list_of_size_nonneg s : 1 <= s -> 0 <= list_of_size s.
Proof.
  intros H. destruct (Z_le_gt_dec s 256).
  - rewrite list_of_size_small by lia. pose proof (small_div_bounds s ltac:(lia)). lia.
  - rewrite list_of_size_big by lia. pose proof (log2_ge_8 s ltac:(lia)). pose proof (q_bounds s ltac:(lia)). lia.
Qed.

Lemma list_count_eq size : 1 <= size ->
  list_count size = if size >? 256 then list_of_size size + 1 else 5.
Proof.
  intros H. unfold list_count, list_of_size, list_index.
  destruct (Z.gtb_spec size 256) as [Hb|Hb].
  - rewrite size_to_class_big by lia. pose proof (log2_ge_8 size Hb).
    destruct (Z.eqb_spec (Z.log2 size - 7) 0); lia.
  - rewrite size_to_class_small by lia. reflexivity.
Qed.

Theorem list_of_size_lt_count s size : 1 <= s <= size -> 0 <= list_of_size s < list_count size.
Proof.
  intros [H1 H2]. split; [apply list_of_size_nonneg; lia|].
  rewrite list_count_eq by lia.
  destruct (Z.gtb_spec size 256) as [Hb|Hb].
  - pose proof (list_of_size_mono s size ltac:(lia)). lia.
  - rewrite list_of_size_small by lia. pose proof (small_div_bounds s ltac:(lia)). lia.
Qed.

Lemma list_count_pos size : 1 <= size -> 5 <= list_count size.
Proof.
  intros H. rewrite list_count_eq by lia. destruct (Z.gtb_spec size 256) as [Hb|Hb]; [|lia].
  rewrite list_of_size_big by lia. pose proof (log2_ge_8 size Hb). pose proof (q_bounds size Hb). lia.
Qed.

Lemma log2_lt_39 s : 1 <= s < 2 ^ 39 -> Z.log2 s <= 38.
Proof.
  intros [H1 H2]. assert (Z.log2 s < 39) by (apply Z.log2_lt_pow2; lia). lia.
Qed.

Theorem class_bounds s :
  1 <= s < 2 ^ 39 ->
  0 <= size_to_class s <= 31 /\
  0 <= size_to_sli s (size_to_class s) < (if size_to_class s =? 0 then 4 else 32).
Proof.
  intros H. destruct (Z_le_gt_dec s 256) as [Hs|Hs].
  - rewrite size_to_class_small by lia. rewrite size_to_sli_small by lia.
    change (0 =? 0) with true. cbv iota. pose proof (small_div_bounds s ltac:(lia)). lia.
  - rewrite size_to_class_big by lia. rewrite size_to_sli_big by lia.
    pose proof (log2_ge_8 s ltac:(lia)). pose proof (log2_lt_39 s H). pose proof (q_bounds s ltac:(lia)).
    destruct (Z.eqb_spec (Z.log2 s - 7) 0); lia.
Qed.

Corollary class_valid_pair s :
  1 <= s < 2 ^ 39 -> valid_pair (size_to_class s) (size_to_sli s (size_to_class s)).
Proof. intros H. pose proof (class_bounds s H). unfold valid_pair. lia. Qed.

(* without the upper bound on s the class is merely nonnegative and the sli still below 32 *)
Lemma class_sli_nonneg s :
  1 <= s -> 0 <= size_to_class s /\ 0 <= size_to_sli s (size_to_class s) < 32.
Proof.
  intros H. destruct (Z_le_gt_dec s 256) as [Hs|Hs].
  - rewrite size_to_class_small by lia. rewrite size_to_sli_small by lia.
    pose proof (small_div_bounds s ltac:(lia)). lia.
  - rewrite size_to_class_big by lia. rewrite size_to_sli_big by lia.
    pose proof (log2_ge_8 s ltac:(lia)). pose proof (q_bounds s ltac:(lia)). lia.
Qed.

(* ------------------------------------------------------------------ A: list_index on valid pairs *)

Theorem list_index_inj mc1 s1 mc2 s2 :
  valid_pair mc1 s1 -> valid_pair mc2 s2 -> list_index mc1 s1 = list_index mc2 s2 -> mc1 = mc2 /\ s1 = s2.
Proof.
  unfold valid_pair, list_index. intros (A1 & B1 & C1) (A2 & B2 & C2).
  destruct (Z.eqb_spec mc1 0); destruct (Z.eqb_spec mc2 0); lia.
Qed.

Definition index_class (idx : Z) : Z := if idx <? 4 then 0 else 1 + (idx - 4) / 32.
Definition index_sli (idx : Z) : Z := if idx <? 4 then idx else (idx - 4) mod 32.

Theorem list_index_decomp mc sli :
  valid_pair mc sli -> index_class (list_index mc sli) = mc /\ index_sli (list_index mc sli) = sli.
Proof.
  unfold valid_pair, list_index, index_class, index_sli. intros (A & B & C).
  destruct (Z.eqb_spec mc 0) as [->|Hm].
  - destruct (Z.ltb_spec sli 4); lia.
  - destruct (Z.ltb_spec ((mc - 1) * 32 + sli + 4) 4); [lia|].
    replace ((mc - 1) * 32 + sli + 4 - 4) with (sli + (mc - 1) * 32) by lia.
    rewrite Z.div_add, Z_mod_plus_full by lia.
    rewrite Z.div_small, Z.mod_small by lia. lia.
Qed.

Theorem list_index_recomp idx :
  0 <= idx < 4 + 31 * 32 ->
  valid_pair (index_class idx) (index_sli idx) /\ list_index (index_class idx) (index_sli idx) = idx.
Proof.
  intros H. unfold valid_pair, list_index, index_class, index_sli.
  destruct (Z.ltb_spec idx 4) as [Hl|Hl].
  - change (0 =? 0) with true. cbv iota. lia.
  - pose proof (Z.div_mod (idx - 4) 32 ltac:(lia)) as Hdm.
    pose proof (Z.mod_pos_bound (idx - 4) 32 ltac:(lia)) as Hmb.
    assert (0 <= (idx - 4) / 32 < 31).
    { split; [apply Z.div_pos; lia|apply Z.div_lt_upper_bound; lia]. }
    destruct (Z.eqb_spec (1 + (idx - 4) / 32) 0); lia.
Qed.

(* lexicographic order on valid pairs is the order of list indices *)
Theorem list_index_lex mc1 s1 mc2 s2 :
  valid_pair mc1 s1 -> valid_pair mc2 s2 ->
  (list_index mc1 s1 <= list_index mc2 s2 <-> mc1 < mc2 \/ (mc1 = mc2 /\ s1 <= s2)).
Proof.
  unfold valid_pair, list_index. intros (A1 & B1 & C1) (A2 & B2 & C2).
  destruct (Z.eqb_spec mc1 0); destruct (Z.eqb_spec mc2 0); lia.
Qed.

Lemma list_index_nonneg mc sli : valid_pair mc sli -> 0 <= list_index mc sli.
Proof. unfold valid_pair, list_index. intros (A & B & C). destruct (Z.eqb_spec mc 0); lia. Qed.

(* ------------------------------------------------------------------ sizes and list indices *)

(* a block in a strictly later class is strictly larger *)
Lemma class_lt_size_lt s1 s2 : 1 <= s1 -> 1 <= s2 -> size_to_class s1 < size_to_class s2 -> s1 < s2.
Proof.
  intros H1 H2 Hc. destruct (Z_lt_ge_dec s1 s2) as [|Hge]; [assumption|].
  pose proof (size_to_class_mono s2 s1 H2 ltac:(lia)). lia.
Qed.

Lemma list_lt_size_lt s1 s2 : 1 <= s1 -> 1 <= s2 -> list_of_size s1 < list_of_size s2 -> s1 < s2.
Proof.
  intros H1 H2 Hc. destruct (Z_lt_ge_dec s1 s2) as [|Hge]; [assumption|].
  pose proof (list_of_size_mono s2 s1 ltac:(lia)). lia.
Qed.

(* a block found in a list at or after the "next list" of s is at least as large as s: every
   block of list_of_size (size_for_next_list s) or later fits s bytes *)
Theorem size_ge_in_later_list s b :
  1 <= s -> 1 <= b -> list_of_size (size_for_next_list s) <= list_of_size b -> s < b.
Proof.
  intros Hs Hb Hle. rewrite next_list_exact in Hle by lia.
  apply list_lt_size_lt; lia.
Qed.

(* ------------------------------------------------------------------ pairs without the class bound *)

Definition wpair (mc sli : Z) : Prop := 0 <= mc /\ 0 <= sli /\ sli < (if mc =? 0 then 4 else 32).

Lemma valid_wpair mc sli : valid_pair mc sli -> wpair mc sli.
Proof. unfold valid_pair, wpair. tauto. Qed.

Lemma class_wpair s : 1 <= s -> wpair (size_to_class s) (size_to_sli s (size_to_class s)).
Proof.
  intros H. unfold wpair. destruct (Z_le_gt_dec s 256) as [Hs|Hs].
  - rewrite size_to_class_small by lia. rewrite size_to_sli_small by lia.
    change (0 =? 0) with true. cbv iota. pose proof (small_div_bounds s ltac:(lia)). lia.
  - rewrite size_to_class_big by lia. rewrite size_to_sli_big by lia.
    pose proof (log2_ge_8 s ltac:(lia)). pose proof (q_bounds s ltac:(lia)).
    destruct (Z.eqb_spec (Z.log2 s - 7) 0); lia.
Qed.

Theorem list_index_lex_w mc1 s1 mc2 s2 :
  wpair mc1 s1 -> wpair mc2 s2 ->
  (list_index mc1 s1 <= list_index mc2 s2 <-> mc1 < mc2 \/ (mc1 = mc2 /\ s1 <= s2)).
Proof.
  unfold wpair, list_index. intros (A1 & B1 & C1) (A2 & B2 & C2).
  destruct (Z.eqb_spec mc1 0); destruct (Z.eqb_spec mc2 0); lia.
Qed.

Lemma list_index_lt_w mc1 s1 mc2 s2 :
  wpair mc1 s1 -> wpair mc2 s2 ->
  (list_index mc1 s1 < list_index mc2 s2 <-> mc1 < mc2 \/ (mc1 = mc2 /\ s1 < s2)).
Proof.
  unfold wpair, list_index. intros (A1 & B1 & C1) (A2 & B2 & C2).
  destruct (Z.eqb_spec mc1 0); destruct (Z.eqb_spec mc2 0); lia.
Qed.
