(* Bits.v — arithmetic meaning of the bit formulas used by the Go code for alignment
   (memutils/util.go) on powers of two. *)
From Coq Require Import ZArith Lia List Bool.
From Coq Require Import ZifyBool.
From Arsenal Require Import Util.
Open Scope Z_scope.
Ltac Zify.zify_post_hook ::= Z.div_mod_to_equations.

Definition pow2 (a : Z) : Prop := exists k, 0 <= k /\ a = 2 ^ k.

Lemma pow2_pos a : pow2 a -> 0 < a.
Proof. intros (k & Hk & ->). apply Z.pow_pos_nonneg; lia. Qed.

Lemma pow2_1 : pow2 1.
Proof. exists 0. split; [lia|reflexivity]. Qed.

Lemma land_lnot_ones x k : 0 <= k -> Z.land x (Z.lnot (Z.ones k)) = x - x mod 2 ^ k.
Proof.
  intros Hk.
  rewrite <- Z.ldiff_land, Z.ldiff_ones_r by lia.
  rewrite Z.shiftr_div_pow2, Z.shiftl_mul_pow2 by lia.
  pose proof (Z.pow_pos_nonneg 2 k ltac:(lia) Hk).
  rewrite (Z.div_mod x (2^k)) at 2 by lia. lia.
Qed.

Lemma align_down_spec v a : pow2 a -> align_down v a = v - v mod a.
Proof.
  intros (k & Hk & ->). unfold align_down.
  replace (2^k - 1) with (Z.ones k) by (rewrite Z.ones_equiv; lia). now apply land_lnot_ones.
Qed.

Lemma align_up_spec v a : pow2 a -> align_up v a = (v + a - 1) - (v + a - 1) mod a.
Proof.
  intros (k & Hk & ->). unfold align_up.
  replace (2^k - 1) with (Z.ones k) by (rewrite Z.ones_equiv; lia). now apply land_lnot_ones.
Qed.

Lemma align_up_bounds v a : pow2 a -> v <= align_up v a < v + a /\ (align_up v a) mod a = 0.
Proof.
  intros Hp. rewrite align_up_spec by auto. pose proof (pow2_pos _ Hp).
  split; [lia|].
  rewrite Zminus_mod, Zmod_mod, Z.sub_diag. reflexivity.
Qed.

Lemma align_down_bounds v a : pow2 a -> v - a < align_down v a <= v /\ (align_down v a) mod a = 0.
Proof.
  intros Hp. rewrite align_down_spec by auto. pose proof (pow2_pos _ Hp).
  split; [lia|].
  rewrite Zminus_mod, Zmod_mod, Z.sub_diag. reflexivity.
Qed.

Lemma align_up_id v a : pow2 a -> v mod a = 0 -> align_up v a = v.
Proof.
  intros Hp Hm. rewrite align_up_spec by auto. pose proof (pow2_pos _ Hp) as Ha.
  apply Z.mod_divide in Hm; [|lia]. destruct Hm as (c & ->).
  replace (c * a + a - 1) with ((a - 1) + c * a) by ring.
  rewrite Z_mod_plus_full. rewrite Z.mod_small by lia. lia.
Qed.

Lemma multiple_gap u w a : 0 < a -> u mod a = 0 -> w mod a = 0 -> w < u -> w + a <= u.
Proof.
  intros Ha Hu Hw Hlt.
  apply Z.mod_divide in Hu; [|lia]. apply Z.mod_divide in Hw; [|lia].
  destruct Hu as (c & ->). destruct Hw as (d & ->).
  assert (d < c) by nia. nia.
Qed.

Lemma align_up_least v a w : pow2 a -> v <= w -> w mod a = 0 -> align_up v a <= w.
Proof.
  intros Hp Hle Hm. pose proof (align_up_bounds v a Hp) as ((Hlo & Hhi) & Hmod).
  pose proof (pow2_pos _ Hp) as Ha.
  destruct (Z_le_gt_dec (align_up v a) w) as [|Hgt]; [assumption|].
  pose proof (multiple_gap _ _ _ Ha Hmod Hm ltac:(lia)). lia.
Qed.

(* divisibility between powers of two *)
Lemma pow2_divides a b : pow2 a -> pow2 b -> a <= b -> exists q, b = q * a.
Proof.
  intros (i & Hi & ->) (j & Hj & ->) Hle.
  assert (i <= j). { apply (Z.pow_le_mono_r_iff 2); lia. }
  exists (2 ^ (j - i)). rewrite <- Z.pow_add_r by lia. f_equal. lia.
Qed.

Lemma mod_of_multiple x a b : 0 < a -> (exists q, b = q * a) -> x mod b = 0 -> x mod a = 0.
Proof.
  intros Ha (q & ->) Hm.
  destruct (Z.eq_dec q 0) as [->|Hq].
  - rewrite Z.mul_0_l in Hm. rewrite Zmod_0_r in Hm. subst. apply Zmod_0_l.
  - apply Z.mod_divide in Hm; [|nia]. destruct Hm as (c & ->).
    replace (c * (q * a)) with ((c * q) * a) by ring. apply Z_mod_mult.
Qed.

Lemma pow2_mod_mono x a b : pow2 a -> pow2 b -> a <= b -> x mod b = 0 -> x mod a = 0.
Proof.
  intros Ha Hb Hle. apply mod_of_multiple; [apply pow2_pos; auto|]. apply pow2_divides; auto.
Qed.
