(* VamInvMeta.v — the block-metadata interface the allocator-level invariant (VamInv.v) is built on.
   Both metadata kinds (TLSF, linear) are seen through one abstraction: the list of live regions
   [meta_live] and the invariant [MInv]; the facts below are obtained from the component theorems
   (TlsfStep / TlsfStep2 / TlsfProps, LinearStep / LinearInv) through their step interfaces only. *)
From Coq Require Import ZArith NArith List Bool Lia.
From Arsenal Require Util Bits Gran Tlsf TlsfGeom TlsfInv1 TlsfFree TlsfStep TlsfProps TlsfInv2 TlsfStep2.
From Arsenal Require Linear LinearInv LinearAlloc LinearStep LinearFree.
From Arsenal Require TlsfAlloc.
From Arsenal Require Import VamDev VamBlockList.
Import ListNotations.
Open Scope Z_scope.

Record region := mkRegion { rg_handle : Z; rg_off : Z; rg_size : Z; rg_tag : option Z; rg_align : Z }.

Definition tlsf_region (b : Tlsf.blk) : region :=
  mkRegion (Tlsf.b_off b) (Tlsf.b_off b) (Tlsf.b_size b) (Tlsf.b_tag b) (Tlsf.b_reqalign b).
Definition lin_region (s : Linear.sub) : region :=
  mkRegion (Linear.s_off s + 1) (Linear.s_off s) (Linear.s_size s) (Linear.s_tag s) (Linear.s_reqalign s).

Definition meta_live (mt : meta) : list region :=
  match mt with
  | MTlsf t => map tlsf_region (Tlsf.live t)
  | MLin l => map lin_region (LinearInv.live l)
  end.

Definition MInv (mt : meta) : Prop :=
  match mt with
  | MTlsf t => TlsfStep.TInv t /\ TlsfInv2.Inv2 t
  | MLin l => LinearInv.LInv l
  end.

Definition rg_disjoint (a b : region) : Prop :=
  rg_off a + rg_size a <= rg_off b \/ rg_off b + rg_size b <= rg_off a.

Fixpoint sum_rg (l : list region) : Z := match l with [] => 0 | r :: tl => rg_size r + sum_rg tl end.

(* ---------------------------------------------------------------- init *)

Lemma meta_init_spec algo gr size :
  1 <= size < 2 ^ 39 -> Bits.pow2 gr ->
  MInv (meta_init algo gr size) /\ meta_live (meta_init algo gr size) = [] /\
  meta_size (meta_init algo gr size) = size.
Proof.
  intros Hs Hg. unfold meta_init. destruct (algo =? 0).
  - cbn. split; [split|split; reflexivity].
    + apply TlsfProps.init_TInv. split; [lia|auto].
    + apply TlsfInv2.init_inv2. auto.
  - cbn. split; [|split; reflexivity].
    apply LinearInv.init_LInv; [lia|auto].
Qed.

(* ---------------------------------------------------------------- requests and allocations *)

Lemma meta_request_spec mt size align upper sub strat mt' rq :
  MInv mt -> Bits.pow2 align ->
  meta_create_request mt size align upper sub strat = MGranted mt' rq ->
  MInv mt' /\ meta_live mt' = meta_live mt /\ meta_size mt' = meta_size mt.
Proof.
  intros HI Hal H. destruct mt as [t|l]; cbn in *.
  - destruct (Tlsf.create_request t size align upper sub strat MAXINT) as [t1 r| | |] eqn:E; try discriminate.
    injection H as <- <-.
    destruct HI as [HT H2].
    pose proof (TlsfStep.step_preserves t (Tlsf.ORequest size align sub strat upper MAXINT) HT Hal) as P.
    pose proof (TlsfStep2.step2_preserves t (Tlsf.ORequest size align sub strat upper MAXINT) HT H2 Hal) as P2.
    cbn [Tlsf.step] in P, P2. rewrite E in P, P2. cbn in P, P2.
    destruct P as (HT1 & Hl & Hs). cbn. split; [split; auto|]. split; [f_equal; exact Hl|exact Hs].
  - destruct (Linear.create_request l size align upper sub strat MAXINT) as [r| | |] eqn:E; try discriminate.
    injection H as <- <-. cbn. auto.
Qed.

(* the region a successful Alloc adds *)
Definition new_region (handle off size slot align : Z) : region := mkRegion handle off size (Some slot) align.

Lemma meta_alloc_spec mt size align upper sub strat mt1 rq slot :
  MInv mt -> Bits.pow2 align ->
  meta_create_request mt size align upper sub strat = MGranted mt1 rq ->
  match meta_alloc mt1 rq sub slot size align with
  | OK (mt2, h) =>
    MInv mt2 /\ meta_size mt2 = meta_size mt /\
    exists off l1 l2, meta_live mt = l1 ++ l2 /\
                      meta_live mt2 = l1 ++ new_region h off (mreq_size rq) slot align :: l2
  | ER _ => match mt with MTlsf _ => False | MLin _ => True end
  | PANIC => False
  | STUCK => False
  end.
Proof.
  intros HI Hal H. destruct mt as [t|l]; cbn in H.
  - destruct (Tlsf.create_request t size align upper sub strat MAXINT) as [t1 r| | |] eqn:E; try discriminate.
    injection H as <- <-. destruct HI as [HT H2].
    destruct (TlsfStep2.tlsf_alloc_no_error t size align sub strat upper MAXINT (Some slot) t1 r HT H2 Hal E)
      as (t2 & h & Ea & Es).
    cbn [meta_alloc]. rewrite Ea.
    pose proof (TlsfStep.step_preserves t (Tlsf.OAlloc size align sub strat upper MAXINT (Some slot)) HT Hal) as P.
    pose proof (TlsfStep2.step2_preserves t (Tlsf.OAlloc size align sub strat upper MAXINT (Some slot)) HT H2 Hal) as P2.
    rewrite Es in P, P2. cbn [fst snd] in P, P2. destruct P as (HT2 & Hl & Hs).
    cbn [TlsfStep.live_effect Tlsf.o_kind Tlsf.o_off Tlsf.o_size] in Hl.
    destruct Hl as (l1 & l2 & Hl1 & Hl2).
    split; [split; auto|]. split; [exact Hs|].
    exists h, (map tlsf_region l1), (map tlsf_region l2). cbn [meta_live].
    rewrite Hl1, Hl2, !map_app. cbn [map]. split; [reflexivity|]. reflexivity.
  - destruct (Linear.create_request l size align upper sub strat MAXINT) as [r| | |] eqn:E; try discriminate.
    injection H as <- <-. cbn [meta_alloc].
    pose proof (LinearStep.step_preserves l (Linear.OAlloc size align sub strat upper MAXINT (Some slot)) HI Hal) as P.
    cbn [Linear.step] in P. rewrite E in P.
    destruct (Linear.alloc l r sub (Some slot) size align) as [l'| |] eqn:Ea; cbn [fst snd] in P.
    + destruct P as (HI' & Hl & Hc & _).
      cbn [LinearStep.live_effect Linear.o_kind Linear.o_off Linear.o_size] in Hl.
      destruct Hl as (Hsz & l1 & l2 & Hl1 & Hl2).
      split; [exact HI'|]. split; [destruct Hc as (Hc1 & _); cbn; exact Hc1|].
      exists (Linear.rq_offset r), (map lin_region l1), (map lin_region l2). cbn [meta_live].
      rewrite Hl1, Hl2, !map_app. cbn [map]. split; [reflexivity|].
      f_equal. f_equal. unfold lin_region, LinearAlloc.new_item, new_region, Linear.rq_offset. cbn.
      f_equal. lia.
    + exact I.
    + destruct P as (_ & _ & _ & Hp). cbn in Hp. congruence.
Qed.

(* ---------------------------------------------------------------- Free *)

Lemma in_map_region_t (t : Tlsf.tlsf) rg :
  In rg (map tlsf_region (Tlsf.live t)) -> exists b, In b (Tlsf.live t) /\ rg = tlsf_region b.
Proof. intros H. apply in_map_iff in H. destruct H as (b & <- & Hb). eauto. Qed.

Lemma meta_free_spec mt h :
  MInv mt -> (exists rg, In rg (meta_live mt) /\ rg_handle rg = h) ->
  exists mt', meta_free mt h = OK mt' /\ MInv mt' /\ meta_size mt' = meta_size mt /\
    exists l1 rg l2, meta_live mt = l1 ++ rg :: l2 /\ rg_handle rg = h /\ meta_live mt' = l1 ++ l2.
Proof.
  intros HI (rg & Hin & Hh). destruct mt as [t|l]; cbn [meta_live] in Hin.
  - destruct HI as [HT H2]. apply in_map_iff in Hin. destruct Hin as (a & <- & Ha). cbn in Hh. subst h.
    destruct (TlsfStep2.tlsf_free_live_succeeds t a HT H2 Ha) as (t' & Es & H2').
    pose proof (TlsfStep.step_preserves t (Tlsf.OFree (Tlsf.b_off a)) HT I) as P. rewrite Es in P.
    cbn [fst snd] in P. destruct P as (HT' & Hl & Hs).
    cbn [Tlsf.step] in Es. cbn [meta_free].
    destruct (Tlsf.tlsf_free t (Tlsf.b_off a)) as [t1| |]; try discriminate.
    injection Es as <-. exists (MTlsf t1). split; [reflexivity|]. split; [split; auto|]. split; [exact Hs|].
    cbn [TlsfStep.live_effect Tlsf.o_kind Tlsf.out] in Hl. destruct Hl as (l1 & b & l2 & Hl1 & Hb & Hl2).
    exists (map tlsf_region l1), (tlsf_region b), (map tlsf_region l2). cbn [meta_live].
    rewrite Hl1, Hl2, !map_app. cbn [map]. auto.
  - apply in_map_iff in Hin. destruct Hin as (x & <- & Hx). cbn in Hh. subst h.
    pose proof (LinearStep.free_live_succeeds l x HI Hx) as Hok.
    assert (Hopok : LinearStep.op_ok l (Linear.OFree (Linear.s_off x + 1))) by (cbn; eauto).
    pose proof (LinearStep.step_preserves l (Linear.OFree (Linear.s_off x + 1)) HI Hopok) as P.
    cbn [Linear.step] in Hok, P. cbn [meta_free].
    destruct (Linear.lin_free l (Linear.s_off x + 1)) as [l'| |]; cbn in Hok; try discriminate.
    cbn [fst snd] in P. destruct P as (HI' & Hl & Hc & _).
    exists (MLin l'). split; [reflexivity|]. split; [exact HI'|]. split; [destruct Hc as (Hc1 & _); exact Hc1|].
    cbn [LinearStep.live_effect Linear.o_kind Linear.out] in Hl. destruct Hl as (l1 & b & l2 & Hl1 & Hb & Hl2).
    exists (map lin_region l1), (lin_region b), (map lin_region l2). cbn [meta_live].
    rewrite Hl1, Hl2, !map_app. cbn [map]. split; [reflexivity|]. split; [cbn; lia|reflexivity].
Qed.

(* ---------------------------------------------------------------- soundness of the live regions *)

Lemma meta_live_sound mt :
  MInv mt ->
  (forall rg, In rg (meta_live mt) ->
     0 <= rg_off rg /\ 0 < rg_size rg /\ rg_off rg + rg_size rg <= meta_size mt /\
     0 < rg_align rg /\ rg_off rg mod rg_align rg = 0) /\
  NoDup (map rg_handle (meta_live mt)) /\
  (forall a b, In a (meta_live mt) -> In b (meta_live mt) -> rg_handle a <> rg_handle b -> rg_disjoint a b).
Proof.
  intros HI. destruct mt as [t|l]; cbn [meta_live meta_size MInv] in *.
  - destruct HI as [[Hinv _] _].
    pose proof (TlsfProps.inv1_live_sound t Hinv) as S.
    pose proof Hinv as [[Hch _ _ _ _] _ _ _].
    split; [|split].
    + intros rg Hin. apply in_map_iff in Hin. destruct Hin as (a & <- & Ha).
      destruct (S a Ha) as (H1 & H2 & H3 & H4 & _).
      destruct (TlsfProps.live_in_chain _ _ Ha) as (Hc & _).
      pose proof (TlsfGeom.chain_in_bounds _ _ _ Hch Hc) as (_ & Hp & _).
      cbn. repeat split; auto.
    + rewrite map_map. cbn.
      change (fun x : Tlsf.blk => Tlsf.b_off x) with Tlsf.b_off.
      apply TlsfProps.nodup_map_filter. eapply TlsfProps.chain_offsets_nodup; eauto.
    + intros a b Ha Hb Hne. apply in_map_iff in Ha. destruct Ha as (x & <- & Hx).
      apply in_map_iff in Hb. destruct Hb as (y & <- & Hy). cbn in Hne.
      destruct (S x Hx) as (_ & _ & _ & _ & _ & Hd).
      assert (x <> y) by congruence. specialize (Hd y Hy H). unfold rg_disjoint. cbn. exact Hd.
  - destruct HI as [HW _]. destruct (LinearInv.live_sound l HW) as (Hb & Hpw & Hd).
    assert (Hnd : NoDup (map Linear.s_off (LinearInv.live l))).
    { revert Hpw Hb. generalize (LinearInv.live l). induction l0 as [|x r IH]; intros Hpw Hb; cbn; [constructor|].
      destruct Hpw as (Hx & Hr). constructor.
      - intros Hin. apply in_map_iff in Hin. destruct Hin as (y & Ho & Hy).
        rewrite Forall_forall in Hx. specialize (Hx y Hy). unfold LinearInv.disjoint in Hx.
        destruct (Hb x (or_introl eq_refl)) as (_ & _ & Hsx & _).
        destruct (Hb y (or_intror Hy)) as (_ & _ & Hsy & _). lia.
      - apply IH; auto. intros y Hy. apply Hb. right; auto. }
    split; [|split].
    + intros rg Hin. apply in_map_iff in Hin. destruct Hin as (x & <- & Hx).
      destruct (Hb x Hx) as (H1 & H2 & H3 & H4 & H5 & _). cbn. repeat split; auto; lia.
    + rewrite map_map. cbn. replace (map (fun x => Linear.s_off x + 1) (LinearInv.live l))
        with (map (fun o => o + 1) (map Linear.s_off (LinearInv.live l))) by (rewrite map_map; reflexivity).
      apply FinFun.Injective_map_NoDup; auto. intros a b; lia.
    + intros a b Ha Hbb Hne. apply in_map_iff in Ha. destruct Ha as (x & <- & Hx).
      apply in_map_iff in Hbb. destruct Hbb as (y & <- & Hy). cbn in Hne.
      assert (x <> y) by congruence. specialize (Hd x y Hx Hy H). exact Hd.
Qed.

(* ---------------------------------------------------------------- counters *)

Lemma sum_rg_app a b : sum_rg (a ++ b) = sum_rg a + sum_rg b.
Proof. induction a as [|x a IH]; cbn [app sum_rg]; lia. Qed.

Lemma meta_bookkeeping mt :
  MInv mt ->
  meta_alloc_count mt = zlen (meta_live mt) /\
  meta_sum_free mt = meta_size mt - sum_rg (meta_live mt) /\
  (meta_is_empty mt = true <-> meta_live mt = []).
Proof.
  intros HI. destruct mt as [t|l]; cbn [MInv meta_alloc_count meta_sum_free meta_size meta_is_empty meta_live] in *.
  - destruct HI as [HT H2]. destruct (TlsfStep2.tlsf_bookkeeping t HT H2) as (Hc & Hs & He & _).
    split; [|split].
    + rewrite Hc. unfold zlen, Util.zlen. rewrite map_length. reflexivity.
    + rewrite Hs. f_equal. clear. induction (Tlsf.live t) as [|a r IH]; cbn; [reflexivity|]. rewrite <- IH. reflexivity.
    + rewrite He. split; [intros ->; reflexivity|]. intros H. apply map_eq_nil in H. exact H.
  - destruct (LinearStep.bookkeeping l HI) as (Hc & Hs & He & _).
    split; [|split].
    + rewrite Hc. unfold zlen, Util.zlen. rewrite map_length. reflexivity.
    + rewrite Hs. f_equal. clear. induction (LinearInv.live l) as [|a r IH]; cbn; [reflexivity|]. rewrite <- IH. reflexivity.
    + rewrite He. split; [intros ->; reflexivity|]. intros H. apply map_eq_nil in H. exact H.
Qed.

(* ---------------------------------------------------------------- AllocationOffset *)

Lemma meta_offset_live mt rg :
  MInv mt -> In rg (meta_live mt) -> meta_offset mt (rg_handle rg) = Some (rg_off rg).
Proof.
  intros HI Hin. destruct mt as [t|l]; cbn [meta_live meta_offset MInv] in *.
  - apply in_map_iff in Hin. destruct Hin as (a & <- & Ha). cbn.
    destruct HI as [[Hinv _] _]. pose proof Hinv as [[Hch _ _ _ _] _ _ _].
    destruct (TlsfProps.live_in_chain _ _ Ha) as (Hc & Hf).
    rewrite (TlsfProps.find_blk_unique _ _ _ Hch Hc), Hf. reflexivity.
  - apply in_map_iff in Hin. destruct Hin as (x & <- & Hx). cbn. unfold Linear.allocation_offset. f_equal. lia.
Qed.

(* ---------------------------------------------------------------- the granularity of a block's metadata never changes *)

Definition meta_g (mt : meta) : Z :=
  match mt with MTlsf t => Gran.g_g (Tlsf.t_gran t) | MLin l => Linear.l_gran l end.

Lemma gran_init_g h gr size : Gran.g_g (Gran.gran_init h gr size) = gr.
Proof. unfold Gran.gran_init. destruct (Gran.enabled _); reflexivity. Qed.

Lemma meta_init_g algo gr size : meta_g (meta_init algo gr size) = gr.
Proof. unfold meta_init. destruct (algo =? 0); cbn; [apply gran_init_g|reflexivity]. Qed.

Lemma meta_request_g mt size align upper sub strat mt' rq :
  MInv mt -> Bits.pow2 align ->
  meta_create_request mt size align upper sub strat = MGranted mt' rq -> meta_g mt' = meta_g mt.
Proof.
  intros HI Hal H. destruct mt as [t|l]; cbn in *.
  - destruct (Tlsf.create_request t size align upper sub strat MAXINT) as [t1 r| | |] eqn:E; try discriminate.
    injection H as <- <-. destruct HI as [[Hinv Hpg] _].
    destruct (TlsfStep.create_request_granted _ _ _ _ _ _ _ _ _ E) as (Hs1 & _ & Hgr).
    destruct (TlsfStep.granted_fits _ _ _ _ _ _ _ Hpg Hal Hs1 Hgr) as ((_ & _ & _ & Hg & _) & _). cbn. rewrite Hg. reflexivity.
  - destruct (Linear.create_request l size align upper sub strat MAXINT) as [r| | |]; try discriminate.
    injection H as <- <-. reflexivity.
Qed.

Lemma meta_alloc_g mt size align upper sub strat mt1 rq slot mt2 h :
  MInv mt -> Bits.pow2 align ->
  meta_create_request mt size align upper sub strat = MGranted mt1 rq ->
  meta_alloc mt1 rq sub slot size align = OK (mt2, h) -> meta_g mt2 = meta_g mt.
Proof.
  intros HI Hal H Ha. rewrite <- (meta_request_g _ _ _ _ _ _ _ _ HI Hal H).
  destruct mt as [t|l]; cbn in H.
  - destruct (Tlsf.create_request t size align upper sub strat MAXINT) as [t1 r| | |]; try discriminate.
    injection H as <- <-. cbn [meta_alloc] in Ha.
    destruct (Tlsf.alloc t1 r (Some slot) size align) as [t2 h2| |] eqn:E; try discriminate. injection Ha as <- <-.
    cbn. eapply TlsfAlloc.alloc_gran; eauto.
  - destruct (Linear.create_request l size align upper sub strat MAXINT) as [r| | |] eqn:E; try discriminate.
    injection H as <- <-. cbn [meta_alloc] in Ha.
    pose proof (LinearStep.step_preserves l (Linear.OAlloc size align sub strat upper MAXINT (Some slot)) HI Hal) as P.
    cbn [Linear.step] in P. rewrite E in P.
    destruct (Linear.alloc l r sub (Some slot) size align) as [l'| |]; try discriminate. injection Ha as <- <-.
    cbn [fst snd] in P. destruct P as (_ & _ & (_ & Hg & _) & _). cbn. exact Hg.
Qed.

Lemma meta_free_g mt h mt' :
  MInv mt -> (exists rg, In rg (meta_live mt) /\ rg_handle rg = h) -> meta_free mt h = OK mt' -> meta_g mt' = meta_g mt.
Proof.
  intros HI (rg & Hin & Hh) H. destruct mt as [t|l]; cbn [meta_free meta_live] in *.
  - destruct (Tlsf.tlsf_free t h) as [t1| |] eqn:E; try discriminate. injection H as <-.
    destruct HI as [[Hinv _] _]. destruct (TlsfFree.tlsf_free_inv1 _ _ _ Hinv E) as (_ & _ & _ & (b0 & g' & _ & Hfr & Hgg) & _).
    cbn. rewrite Hgg. eapply TlsfStep.free_regions_g; eauto.
  - apply in_map_iff in Hin. destruct Hin as (x & <- & Hx). cbn in Hh. subst h.
    assert (Hopok : LinearStep.op_ok l (Linear.OFree (Linear.s_off x + 1))) by (cbn; eauto).
    pose proof (LinearStep.step_preserves l (Linear.OFree (Linear.s_off x + 1)) HI Hopok) as P. cbn [Linear.step] in P.
    destruct (Linear.lin_free l (Linear.s_off x + 1)) as [l'| |]; try discriminate. injection H as <-.
    cbn [fst snd] in P. destruct P as (_ & _ & (_ & Hg & _) & _). cbn. exact Hg.
Qed.
