(* LinearStep.v — every operation of the linear block metadata model preserves LInv; what each
   operation does to the list of live items; no panics; bookkeeping (counters, Validate); an empty
   block is a fresh block.  C01/C03/C06/C13/C17/C18 for the linear metadata. *)
From Coq Require Import ZArith List Bool Lia.
From Coq Require Import ZifyBool.
From Arsenal Require Import Util Bits Gran Linear LinearInv LinearAlloc LinearFree.
Import ListNotations.
Open Scope Z_scope.
Ltac Zify.zify_post_hook ::= Z.div_mod_to_equations.

(* ------------------------------------------------------------------ admissible operations *)

(* Alloc/Request: the alignment is a power of two (any size, type, upper flag).
   Free: the handle is the handle (offset + 1) of a live item.  Free of any other handle is outside
   the contract of linear.go: on an empty block it panics (index -1), and the handle of a lazily
   deleted item that still lingers in a vector is accepted a second time and corrupts the counters
   (see free_on_empty_panics and double_free_corrupts below).
   SetUserData, Clear, MayHaveFreeBlock: no restriction. *)
Definition op_ok (l : linear) (o : op) : Prop :=
  match o with
  | OAlloc _ align _ _ _ _ _ => pow2 align
  | ORequest _ align _ _ _ _ => pow2 align
  | OFree h => exists x, In x (live l) /\ h = s_off x + 1
  | _ => True
  end.

(* effect of one step on the list of live items (first vector's window, then second vector) *)
Definition live_effect (l : linear) (o : op) (l' : linear) (out : outcome) : Prop :=
  match o, o_kind out with
  | OAlloc size align atype _ _ _ tag, ROk =>
    o_size out = size /\
    exists l1 l2, live l = l1 ++ l2 /\
                  live l' = l1 ++ new_item (o_off out) (o_size out) tag atype align :: l2
  | OFree h, ROk =>
    exists l1 b l2, live l = l1 ++ b :: l2 /\ s_off b = h - 1 /\ live l' = l1 ++ l2
  | OSetUD h tag, ROk => retag_effect l h tag l'
  | OClear, _ => live l' = []
  | _, _ => live l' = live l
  end.

Lemma clear_LInv l : LInv l -> LInv (lin_clear l).
Proof.
  intros (HI & _). destruct (WInv_elim _ HI) as (_ & _ & HW).
  pose proof (W_size_nonneg _ _ _ _ _ _ _ _ _ HW) as Hs. pose proof (w_gran _ _ _ _ _ _ _ _ _ HW) as Hg.
  apply (LInv_intro _ [] []).
  - unfold lin_clear, first. cbn. destruct (l_swapped l); reflexivity.
  - reflexivity.
  - replace (second (lin_clear l)) with (@nil sub) by (unfold lin_clear, second; cbn; destruct (l_swapped l); reflexivity).
    cbn. constructor; try reflexivity; try assumption; try (constructor; fail).
    + split; cbn; [exact I|lia].
    + split; cbn; [exact I|lia].
    + cbn. lia.
  - replace (second (lin_clear l)) with (@nil sub) by (unfold lin_clear, second; cbn; destruct (l_swapped l); reflexivity).
    cbn. constructor; try congruence; try discriminate.
    + intros v s E. destruct v; discriminate.
    + intros v s E. destruct v; discriminate.
Qed.

Lemma clear_live l : live (lin_clear l) = [].
Proof.
  unfold live, window, lin_clear, first, second. cbn. destruct (l_swapped l); reflexivity.
Qed.

(* ------------------------------------------------------------------ 2, 4, 6: preservation, effect, no panic *)

Theorem step_preserves l o :
  LInv l -> op_ok l o ->
  LInv (fst (step l o)) /\ live_effect l o (fst (step l o)) (snd (step l o)) /\
  same_cfg l (fst (step l o)) /\ o_kind (snd (step l o)) <> RPanic.
Proof.
  intros HI Hok. pose proof (same_cfg_refl l) as Hrefl.
  destruct o as [size align atype strat upper mo tag|size align atype strat upper mo|h|h tag| |atype size];
    cbn [step op_ok] in *.
  - (* OAlloc *)
    pose proof (create_request_spec l size align upper atype strat mo HI Hok) as Hcr.
    destruct (create_request l size align upper atype strat mo) as [r| | |];
      cbn [fst snd live_effect o_kind out]; try (splits; auto; discriminate); try contradiction.
    destruct Hcr as (Hreq & Hat).
    destruct (alloc_spec l size align r atype tag HI Hreq Hat (pow2_pos _ Hok))
      as (l' & -> & HI' & Hsz & Hg & Hh & l1 & l2 & Hl & Hl').
    cbn [fst snd live_effect o_kind o_off o_size]. destruct Hreq as (Hrs & _).
    split; [exact HI'|]. split; [|split; [unfold same_cfg; auto|discriminate]].
    split; [exact Hrs|]. exists l1, l2. rewrite Hrs. auto.
  - (* ORequest *)
    pose proof (create_request_spec l size align upper atype strat mo HI Hok) as Hcr.
    destruct (create_request l size align upper atype strat mo) as [r| | |];
      cbn [fst snd live_effect o_kind out]; try (splits; auto; discriminate); try contradiction.
  - (* OFree *)
    destruct Hok as (x & Hx & ->).
    destruct (free_live_spec l x HI Hx) as (l' & -> & HI' & Hcfg & Hsf & a & b & Hl & Hl').
    cbn [fst snd live_effect o_kind out]. split; [exact HI'|]. split; [|split; [exact Hcfg|discriminate]].
    exists a, x, b. splits; auto. lia.
  - (* OSetUD *)
    pose proof (set_user_data_spec l h tag HI) as Hsu.
    destruct (set_user_data l h tag) as [l'| |]; cbn [fst snd live_effect o_kind out];
      try (splits; auto; discriminate); try contradiction.
    destruct Hsu as (HI' & Hcfg & _ & Heff). splits; auto. discriminate.
  - (* OClear *)
    cbn [fst snd live_effect o_kind out]. split; [apply clear_LInv; exact HI|]. split; [apply clear_live|].
    split; [unfold same_cfg, lin_clear; cbn; auto|discriminate].
  - (* OMayHave *)
    cbn [fst snd live_effect o_kind]. splits; auto; discriminate.
Qed.

Corollary step_preserves_LInv l o : LInv l -> op_ok l o -> LInv (fst (step l o)).
Proof. intros HI Hok. apply (step_preserves l o HI Hok). Qed.

Corollary live_effect_step l o :
  LInv l -> op_ok l o -> live_effect l o (fst (step l o)) (snd (step l o)).
Proof. intros HI Hok. apply (step_preserves l o HI Hok). Qed.

(* C13: no panics, for any size (also <= 0 or larger than the block), any type (also 0), either
   `upper`, any strategy/maxOffset *)
Corollary no_panic l o : LInv l -> op_ok l o -> o_kind (snd (step l o)) <> RPanic.
Proof. intros HI Hok. apply (step_preserves l o HI Hok). Qed.

(* holds for every state and operation: whenever the outcome is not ROk the state is returned as is *)
Theorem refused_is_noop l o : o_kind (snd (step l o)) <> ROk -> fst (step l o) = l.
Proof.
  destruct o as [size align atype strat upper mo tag|size align atype strat upper mo|h|h tag| |atype size]; cbn [step].
  - destruct (create_request l size align upper atype strat mo) as [r| | |]; cbn; auto.
    destruct (alloc l r atype tag size align); cbn; auto. congruence.
  - destruct (create_request l size align upper atype strat mo) as [r| | |]; cbn; auto.
  - destruct (lin_free l h); cbn; auto. congruence.
  - destruct (set_user_data l h tag); cbn; auto. congruence.
  - cbn. congruence.
  - cbn. congruence.
Qed.

(* 5 (C06): freeing a live item always succeeds *)
Theorem free_live_succeeds l x :
  LInv l -> In x (live l) -> o_kind (snd (step l (OFree (s_off x + 1)))) = ROk.
Proof.
  intros HI Hx. cbn [step]. destruct (free_live_spec l x HI Hx) as (l' & -> & _). reflexivity.
Qed.

Theorem set_ud_live_succeeds l x tag :
  LInv l -> In x (live l) -> o_kind (snd (step l (OSetUD (s_off x + 1) tag))) = ROk.
Proof.
  intros HI Hx. cbn [step]. destruct (set_own_succeeds l x tag HI Hx) as (l' & -> & _). reflexivity.
Qed.

(* ------------------------------------------------------------------ 7. bookkeeping (C03) *)

Lemma some3 (a b c a' b' c' : Z) : a = a' -> b = b' -> c = c' -> Some (a, b, c) = Some (a', b', c').
Proof. intros -> -> ->. reflexivity. Qed.

Lemma walk_items_spec items : forall lo used nulls,
  chain_from lo items ->
  walk_items items lo used nulls =
  Some (chain_end lo items, used + sum_sizes (lives items), nulls + count_free items).
Proof.
  induction items as [|s r IH]; intros lo used nulls Hc.
  - cbn [walk_items chain_end lives filter sum_sizes]. rewrite count_free_nil. apply some3; lia.
  - cbn [chain_from] in Hc. destruct Hc as (Hlo & Hc). cbn [walk_items chain_end].
    destruct (s_off s <? lo) eqn:E; [lia|]. rewrite count_free_cons. destruct (is_free s) eqn:Ef.
    + rewrite IH by assumption. rewrite lives_cons_free by assumption. apply some3; lia.
    + rewrite IH by assumption. rewrite lives_cons_live by assumption. cbn [sum_sizes]. apply some3; lia.
Qed.

Lemma validate_true l : LInv l -> validate l = Some true.
Proof.
  intros HI. pose proof HI as (HWI & HL). destruct (WInv_elim _ HWI) as (Hf & Hn & HW).
  unfold validate.
  (* modes *)
  assert (Hvm : validate_modes l = true).
  { unfold validate_modes. destruct (zlen (second l) =? 0) eqn:Hz.
    - apply Z.eqb_eq, zlen_zero in Hz. destruct HL. rewrite (l_sv Hz). reflexivity.
    - destruct (mode_eqb (l_mode l) MEmpty) eqn:Hme; [|reflexivity].
      assert (l_mode l = MEmpty) by (destruct (l_mode l); try discriminate; reflexivity).
      destruct HW. rewrite w_mode in Hz by assumption. discriminate. }
  rewrite Hvm. cbn [negb].
  (* ends of the first vector *)
  assert (Hfe : validate_first_ends l = Some true).
  { unfold validate_first_ends. destruct (zlen (first l) =? 0) eqn:Hz; [reflexivity|].
    assert (Hne : first l <> []) by (intros E; rewrite E in Hz; discriminate).
    destruct (window_facts _ HI Hne) as (w & ws & Hw & Hnth & _ & _ & Hwl & Hnb).
    rewrite Hnth, Hwl.
    destruct (list_snoc_cases (window l)) as [E|(v & e & Hv)]; [congruence|].
    rewrite Hf, Hv, app_assoc, last_z_snoc. destruct HL. rewrite (l_lastw _ _ Hv). reflexivity. }
  rewrite Hfe.
  assert (Hse : validate_second_end l = true).
  { unfold validate_second_end. destruct (list_snoc_cases (second l)) as [->|(v & e & Hv)]; [reflexivity|].
    rewrite Hv, last_z_snoc. destruct HL. rewrite (l_lasts _ _ Hv). reflexivity. }
  rewrite Hse. cbn [negb].
  pose proof (count_free_len (window l)) as Hcw. pose proof (count_free_len (second l)) as Hcs.
  pose proof (zlen_nonneg (lives (window l))). pose proof (zlen_nonneg (lives (second l))).
  pose proof (order_pos _ _ _ _ _ _ _ _ _ HW) as Hpo.
  destruct HW.
  assert (Hvc : validate_counts l = true).
  { unfold validate_counts. rewrite Hf at 1. rewrite zlen_app, <- Hn, w_nm, w_ns. lia. }
  rewrite Hvc. cbn [negb].
  unfold validate_walks, validate_ring_walk, validate_first_walk, validate_upper_walk.
  assert (Hsuf : suffix_from (first l) (l_null_begin l) = Some (window l)).
  { rewrite Hf, <- Hn. apply suffix_from_app. }
  rewrite Hsuf.
  destruct w_order as (Hc & He). destruct (l_mode l) eqn:Hm; cbn [order] in *.
  - rewrite w_mode in * by reflexivity. cbn [app] in *.
    rewrite walk_items_spec by assumption.
    replace (l_null_begin l + count_free (window l) =? l_null_begin l + l_null_middle l) with true by lia.
    destruct (chain_end 0 (window l) >? l_size l) eqn:E; [lia|]. f_equal.
    cbn [lives filter] in w_sum. rewrite app_nil_r in w_sum. lia.
  - destruct HL. specialize (l_ring eq_refl).
    assert (Hz1 : (zlen (first l) =? 0) = false).
    { rewrite Hf, zlen_app. pose proof (zlen_pos _ l_ring). pose proof (zlen_nonneg (prefix l)). lia. }
    rewrite Hz1. cbn [andb]. apply chain_from_app in Hc. destruct Hc as (Hc1 & Hc2).
    rewrite walk_items_spec by assumption.
    replace (0 + count_free (second l) =? l_null_second l) with true by lia.
    rewrite walk_items_spec by assumption.
    replace (l_null_begin l + count_free (window l) =? l_null_begin l + l_null_middle l) with true by lia.
    rewrite chain_end_app in He.
    destruct (chain_end (chain_end 0 (second l)) (window l) >? l_size l) eqn:E; [lia|]. f_equal.
    rewrite sum_sizes_app in w_sum. lia.
  - apply chain_from_app in Hc. destruct Hc as (Hc1 & Hc2).
    rewrite walk_items_spec by assumption.
    replace (l_null_begin l + count_free (window l) =? l_null_begin l + l_null_middle l) with true by lia.
    rewrite walk_items_spec by assumption. rewrite count_free_rev.
    replace (0 + count_free (second l) =? l_null_second l) with true by lia.
    rewrite chain_end_app in He.
    destruct (chain_end (chain_end 0 (window l)) (rev (second l)) >? l_size l) eqn:E; [lia|]. f_equal.
    rewrite lives_rev, sum_sizes_rev. rewrite sum_sizes_app in w_sum. lia.
Qed.

Theorem bookkeeping l :
  LInv l ->
  allocation_count l = zlen (live l) /\
  sum_free_size l = l_size l - sum_sizes (live l) /\
  (is_empty l = true <-> live l = []) /\
  validate l = Some true.
Proof.
  intros HI. pose proof HI as (HWI & _). pose proof (allocation_count_live _ HWI) as Hac.
  split; [exact Hac|]. split; [|split; [|apply validate_true; exact HI]].
  - destruct (WInv_elim _ HWI) as (_ & _ & HW). destruct HW. exact w_sum.
  - unfold is_empty. rewrite Hac. split.
    + intros H. apply zlen_zero. lia.
    + intros ->. reflexivity.
Qed.

(* ------------------------------------------------------------------ 8. an empty block is a fresh block (C18) *)

(* the configuration the block was created with *)
Definition cfg (l : linear) (h : handler) (gr size : Z) : Prop :=
  l_size l = size /\ l_gran l = gr /\ l_h l = gran_init h gr size.

Lemma cfg_init h gr size : cfg (linear_init h gr size) h gr size.
Proof. unfold cfg. cbn. auto. Qed.

Lemma cfg_same l l' h gr size : same_cfg l l' -> cfg l h gr size -> cfg l' h gr size.
Proof. unfold same_cfg, cfg. intros (-> & -> & ->). auto. Qed.

Lemma step_cfg l o h gr size :
  LInv l -> op_ok l o -> cfg l h gr size -> cfg (fst (step l o)) h gr size.
Proof. intros HI Hok. apply cfg_same. apply (step_preserves l o HI Hok). Qed.

Definition set_swapped (l : linear) (b : bool) : linear :=
  mkL (l_size l) (l_gran l) (l_h l) (l_v0 l) (l_v1 l) b (l_mode l) (l_sum_free l)
      (l_null_begin l) (l_null_middle l) (l_null_second l).

Theorem empty_is_fresh l h gr size :
  LInv l -> cfg l h gr size -> live l = [] ->
  l = set_swapped (linear_init h gr size) (l_swapped l) /\ lin_clear l = l.
Proof.
  intros HI (Hsz & Hgr & Hh) Hlive. pose proof HI as (HWI & HL). destruct (WInv_elim _ HWI) as (Hf & Hn & HW).
  unfold live in Hlive. apply app_eq_nil in Hlive. destruct Hlive as (Hlw & Hls).
  assert (Hw : window l = []).
  { destruct (window l) as [|w ws] eqn:E; [reflexivity|]. destruct HL.
    pose proof (l_head _ _ eq_refl) as Hl. rewrite lives_cons_live in Hlw by assumption. discriminate. }
  assert (Hs : second l = []).
  { destruct (list_snoc_cases (second l)) as [E|(v & e & E)]; [exact E|]. destruct HL.
    pose proof (l_lasts _ _ E) as Hl. rewrite E, lives_snoc_live in Hls by assumption.
    destruct (lives v); discriminate. }
  assert (Hp : prefix l = []) by (destruct HL; auto).
  rewrite Hw, Hp in Hf. rewrite Hp in Hn. rewrite Hw, Hs in HW. destruct HW.
  assert (Hm : l_mode l = MEmpty) by (destruct HL; auto).
  cbn [lives filter app sum_sizes] in w_sum. rewrite count_free_nil in *. cbn in Hn.
  assert (E : l = mkL size gr (gran_init h gr size) [] [] (l_swapped l) MEmpty size 0 0 0).
  { destruct l as [sz g hh v0 v1 sw m sf nb nm ns]. unfold first, second in *. cbn in *.
    subst. destruct sw; subst; f_equal; lia. }
  split; [rewrite E at 1; reflexivity|]. rewrite E. reflexivity.
Qed.

(* ------------------------------------------------------------------ Free of a handle that is not live *)

(* a handle that matches no item at all (neither live nor lingering) is reported as an error, unless
   the block is empty (then Free panics, see free_on_empty_panics) *)
Theorem free_unknown_handle l h :
  LInv l -> live l <> [] ->
  (forall s, In s (window l) \/ In s (second l) -> s_off s <> h - 1) ->
  step l (OFree h) = (l, out RError).
Proof.
  intros HI Hlive Hno. pose proof HI as (HWI & HL). destruct (WInv_elim _ HWI) as (Hf & Hn & HW).
  cbn [step]. unfold lin_free.
  assert (H1 : free_first_item l (h - 1) = TSkip).
  { unfold free_first_item. destruct (zlen (first l) >? 0) eqn:Hz; [|reflexivity].
    assert (Hne : first l <> []) by (intros E; rewrite E in Hz; discriminate).
    destruct (window_facts _ HI Hne) as (w & ws & Hw & Hnth & _). rewrite Hnth.
    destruct (s_off w =? h - 1) eqn:E; [|reflexivity].
    exfalso. apply (Hno w); [left; rewrite Hw; left; reflexivity|lia]. }
  assert (H2 : free_last_item l (h - 1) = TSkip).
  { unfold free_last_item.
    assert (Hsec : l_mode l <> MEmpty ->
              match last_z (second l) with
              | Some s => if s_off s =? h - 1
                          then finish_free (with_second (with_sum_free l (l_sum_free l + s_size s)) (removelast (second l)))
                          else TSkip
              | None => TPanic
              end = TSkip).
    { intros Hm. destruct (list_snoc_cases (second l)) as [E|(v & e & E)].
      - destruct HL. apply l_sv in E. congruence.
      - rewrite E, last_z_snoc. destruct (s_off e =? h - 1) eqn:Ee; [|reflexivity].
        exfalso. apply (Hno e); [right; rewrite E; apply in_or_app; right; left; reflexivity|lia]. }
    destruct (l_mode l) eqn:Hm; [|apply Hsec; congruence|apply Hsec; congruence].
    assert (Hsv : second l = []) by (destruct HW; auto).
    destruct (list_snoc_cases (window l)) as [E|(v & e & E)].
    - exfalso. apply Hlive. unfold live. rewrite E, Hsv. reflexivity.
    - rewrite Hf, E, app_assoc, last_z_snoc. destruct (s_off e =? h - 1) eqn:Ee; [|reflexivity].
      exfalso. apply (Hno e); [left; rewrite E; apply in_or_app; right; left; reflexivity|lia]. }
  assert (H3 : free_middle_first l (h - 1) = TSkip).
  { unfold free_middle_first. destruct (find_first_spec l (h - 1) HWI) as (k & found & -> & Ht & _).
    destruct found; [|reflexivity]. destruct (Ht eq_refl) as (a & s & b & Hw & _ & Hs & _).
    exfalso. apply (Hno s); [left; rewrite Hw; apply in_or_app; right; left; reflexivity|exact Hs]. }
  assert (H4 : free_middle_second l (h - 1) = TSkip).
  { unfold free_middle_second. destruct (mode_eqb (l_mode l) MEmpty) eqn:Hme; [reflexivity|].
    assert (Hm : l_mode l <> MEmpty) by (intros E; rewrite E in Hme; discriminate).
    destruct (find_second_spec l (h - 1) HWI Hm) as (k & found & -> & Ht & _).
    destruct found; [|reflexivity]. destruct (Ht eq_refl) as (a & s & b & Hsv & _ & Hs & _).
    exfalso. apply (Hno s); [right; rewrite Hsv; apply in_or_app; right; left; reflexivity|exact Hs]. }
  rewrite H1, H2, H3, H4. reflexivity.
Qed.

(* on an empty block Free panics whatever the handle *)
Theorem free_on_empty_block_panics l h :
  LInv l -> live l = [] -> step l (OFree h) = (l, out RPanic).
Proof.
  intros HI Hlive. pose proof HI as (HWI & HL). destruct (WInv_elim _ HWI) as (Hf & Hn & HW).
  unfold live in Hlive. apply app_eq_nil in Hlive. destruct Hlive as (Hlw & Hls).
  assert (Hw : window l = []).
  { destruct (window l) as [|w ws] eqn:E; [reflexivity|]. destruct HL.
    pose proof (l_head _ _ eq_refl) as Hl. rewrite lives_cons_live in Hlw by assumption. discriminate. }
  assert (Hs : second l = []).
  { destruct (list_snoc_cases (second l)) as [E|(v & e & E)]; [exact E|]. destruct HL.
    pose proof (l_lasts _ _ E) as Hl. rewrite E, lives_snoc_live in Hls by assumption.
    destruct (lives v); discriminate. }
  assert (Hp : prefix l = []) by (destruct HL; auto).
  assert (Hm : l_mode l = MEmpty) by (destruct HL; auto).
  rewrite Hw, Hp in Hf. cbn [app] in Hf.
  cbn [step]. unfold lin_free, free_first_item, free_last_item. rewrite Hf, Hm. reflexivity.
Qed.

(* ------------------------------------------------------------------ the two uses of Free outside op_ok *)

(* Free on an empty block: firstVector[len(firstVector)-1] with an empty first vector *)
Example free_on_empty_panics h gr size hd :
  o_kind (snd (step (linear_init h gr size) (OFree hd))) = RPanic.
Proof. reflexivity. Qed.

(* allocationGranularity = 0 (nothing in NewBlockMetadata rules it out) makes every lower allocation
   that fits at the end of the first vector panic: allocSize % m.allocationGranularity divides by
   zero.  This is why LInv demands pow2 (l_gran l). *)
Example gran_zero_panics :
  o_kind (snd (step (linear_init HFake 0 100) (OAlloc 10 1 1 0 false 0 None))) = RPanic.
Proof. vm_compute. reflexivity. Qed.

(* Freeing a handle twice while the lazily deleted item still lingers in the first vector is accepted
   and corrupts the null counter / sumFreeSize: three allocations of 10 bytes at 0, 10, 20; the
   middle one is freed twice.  Both frees return ROk, afterwards Validate fails, the block reports
   90 free bytes of 100 although two allocations (20 bytes) are live, and AllocationCount is 1. *)
Definition dfree_trace : list op :=
  [OAlloc 10 1 1 0 false 0 None; OAlloc 10 1 1 0 false 0 None; OAlloc 10 1 1 0 false 0 None;
   OFree 11; OFree 11].

Definition run (l : linear) (ops : list op) : linear * list rkind :=
  fold_left (fun acc o => let '(l, ks) := acc in
                          let '(l', out) := step l o in (l', ks ++ [o_kind out])) ops (l, []).

Example double_free_corrupts :
  let '(l, ks) := run (linear_init HFake 1 100) dfree_trace in
  ks = [ROk; ROk; ROk; ROk; ROk] /\ validate l = Some false /\
  sum_free_size l = 90 /\ zlen (live l) = 2 /\ allocation_count l = 1.
Proof. vm_compute. repeat split. Qed.

(* ------------------------------------------------------------------ histories *)

Fixpoint lrun (l : linear) (ops : list op) : linear :=
  match ops with
  | [] => l
  | o :: rest => lrun (fst (step l o)) rest
  end.

(* every operation of the history is admissible in the state it is applied to *)
Fixpoint ops_ok (l : linear) (ops : list op) : Prop :=
  match ops with
  | [] => True
  | o :: rest => op_ok l o /\ ops_ok (fst (step l o)) rest
  end.

Theorem lrun_LInv l ops h gr size :
  LInv l -> cfg l h gr size -> ops_ok l ops -> LInv (lrun l ops) /\ cfg (lrun l ops) h gr size.
Proof.
  revert l; induction ops as [|o rest IH]; intros l HI Hc Hok; cbn in *; [auto|].
  destruct Hok as (Ho & Hrest). apply IH; auto.
  - apply step_preserves_LInv; assumption.
  - apply step_cfg; assumption.
Qed.

(* C01 / C03 for every admissible history from a fresh block *)
Corollary linear_history_sound h gr size ops :
  0 <= size -> pow2 gr -> ops_ok (linear_init h gr size) ops ->
  let l := lrun (linear_init h gr size) ops in
  l_size l = size /\
  (forall x, In x (live l) ->
     0 <= s_off x /\ s_off x + s_size x <= size /\ 0 < s_reqalign x /\ s_off x mod s_reqalign x = 0 /\
     s_reqsize x <= s_size x /\
     forall y, In y (live l) -> x <> y -> disjoint x y) /\
  allocation_count l = zlen (live l) /\ sum_free_size l = size - sum_sizes (live l) /\
  validate l = Some true.
Proof.
  intros Hs Hg Hok l.
  destruct (lrun_LInv _ ops h gr size (init_LInv h gr size Hs Hg) (cfg_init h gr size) Hok) as (HI & Hsz & _).
  fold l in HI, Hsz. destruct (live_sound l (proj1 HI)) as (Hb & _ & Hd).
  destruct (bookkeeping l HI) as (Hac & Hsf & _ & Hv). rewrite <- Hsz.
  split; [reflexivity|]. split; [|auto].
  intros x Hx. destruct (Hb x Hx) as (H1 & H2 & H3 & H4 & H5 & H6 & H7). repeat split; auto.
Qed.

(* non-vacuity: an admissible history that exercises the ring buffer, lazy deletion and the swap *)
Definition ex_ops : list op :=
  [OAlloc 40 8 1 0 false 0 (Some 1); OAlloc 40 8 1 0 false 0 (Some 2); OFree 1;
   OAlloc 24 8 1 0 false 0 (Some 3); OSetUD 41 (Some 7); OFree 41; OAlloc 8 8 1 0 false 0 None].

Lemma pow2_8 : pow2 8.
Proof. exists 3. split; [lia|reflexivity]. Qed.

Example ex_ops_ok :
  ops_ok (linear_init HVam 1 100) ex_ops /\
  map s_off (live (lrun (linear_init HVam 1 100) ex_ops)) = [0; 24] /\
  l_swapped (lrun (linear_init HVam 1 100) ex_ops) = true.
Proof.
  split; [|vm_compute; auto].
  cbn [ops_ok ex_ops op_ok]. repeat split; try exact pow2_8.
  - exists (mkSub 0 40 (Some 1) 1 40 8). split; [vm_compute; auto|reflexivity].
  - exists (mkSub 40 40 (Some 7) 1 40 8). split; [vm_compute; auto|reflexivity].
Qed.
